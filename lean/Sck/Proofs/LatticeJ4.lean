import Sck.Proofs.LatticeJ3

/-! # C03, package L8b, part 4: `eliminating_rotations_of_pair`, as computed by the level loop, only records pairs that
the recorded rotation really deletes

Assuming that the mirror's list `all` of rotations is a run from the male-optimal matching (obligation (i)), every entry
`(m, w) ↦ π` of the final dict satisfies `ElimGood`: `w` is a woman of rotation number `π` and she likes `m` at least as much
as the husband she has in that rotation.  The proof follows the women's lists through the level loop (`L2Inv`); the men's
lists and `findRotations` play no role. -/

namespace IrvingAlgo.J

open Irving SMLattice SMLattice.J

/-- everything we know about the instance and its male-optimal matching -/
structure JCtx (n : Nat) (P1 P2 : List (List Nat)) (M0 : List Pair) (μ0 : Equiv.Perm (Fin n)) : Prop where
  h1 : ∀ a, Function.Injective (rk n P1 a)
  h2 : ∀ b, Function.Injective (rk n P2 b)
  rep : Rep M0 μ0
  st0 : StableSM (rk n P1) (rk n P2) μ0
  opt : ∀ ν, StableSM (rk n P1) (rk n P2) ν → MLe (rk n P1) μ0 ν
  hP1 : ∀ i, i < n → permRowB n (P1.getD i []) = true
  hP2 : ∀ j, j < n → permRowB n (P2.getD j []) = true

theorem jctx_of_wf {n : Nat} {P1 P2 : List (List Nat)} {V1 V2 : List (List Int)} (hwf : wfB n P1 P2 V1 V2 = true)
    {M0 : List Pair} (hmo : maleOptimal n P1 P2 = some M0) : ∃ μ0, JCtx n P1 P2 M0 μ0 := by
  obtain ⟨h1, h2⟩ := rk_injective hwf
  obtain ⟨μ0, hrep, hst, hopt⟩ := maleOptimal_spec hwf hmo
  obtain ⟨⟨l1, l2, _, _⟩, r1, r2, _, _⟩ := (wfB_iff n P1 P2 V1 V2).mp hwf
  refine ⟨μ0, h1, h2, hrep, hst, hopt, ?_, ?_⟩
  · intro i hi
    have hi' : i < P1.length := by omega
    rw [List.getD_eq_getElem?_getD, List.getElem?_eq_getElem hi']
    exact r1 _ (List.getElem_mem hi')
  · intro j hj
    have hj' : j < P2.length := by omega
    rw [List.getD_eq_getElem?_getD, List.getElem?_eq_getElem hj']
    exact r2 _ (List.getElem_mem hj')

/-- the list form of a represented matching -/
theorem muOf_facts {n : Nat} {M0 : List Pair} {μ0 : Equiv.Perm (Fin n)} (h : Rep M0 μ0) :
    (muOf n M0).Perm (List.range n) ∧ (∀ a : Fin n, (muOf n M0).getD a n = μ0 a) ∧
      (∀ b : Fin n, (muOf n M0).idxOf (b : Nat) = μ0.symm b) := by
  have hperm : (muOf n M0).Perm (List.range n) := Brute.muOfPairs_perm h.fst_perm h.snd_perm
  have hget : ∀ a : Fin n, (muOf n M0).getD a n = μ0 a := by
    intro a
    have hnd1 : (M0.map Prod.fst).Nodup := h.fst_perm.nodup_iff.mpr List.nodup_range
    have := Brute.partner_of_mem (n := n) hnd1 (h.mem a)
    unfold muOf
    rw [getD_map_range _ _ _ _ a.2]
    exact this
  refine ⟨hperm, hget, ?_⟩
  intro b
  obtain ⟨hlt, hback⟩ := (mu_facts n _ hperm).2 b b.2
  have := hget ⟨_, hlt⟩
  rw [hback] at this
  have e : μ0.symm b = ⟨_, hlt⟩ := by
    rw [Equiv.symm_apply_eq]; exact Fin.ext this
  rw [e]

section
variable {n : Nat} {P1 P2 : List (List Nat)} {M0 : List Pair} {μ0 : Equiv.Perm (Fin n)}

/-- **every stable pair is on the shortlists** -/
theorem stable_pair_mem (C : JCtx n P1 P2 M0 μ0) {ν : Equiv.Perm (Fin n)} (hν : StableSM (rk n P1) (rk n P2) ν)
    (a : Fin n) :
    ((ν a : Fin n) : Nat) ∈ (shortlists n P1 P2 (muOf n M0)).1.getD a [] ∧
      (a : Nat) ∈ (shortlists n P1 P2 (muOf n M0)).2.getD (ν a) [] := by
  obtain ⟨hperm, hget, hidx⟩ := muOf_facts C.rep
  have key : ((ν a : Fin n) : Nat) ∈ (shortlists n P1 P2 (muOf n M0)).1.getD a [] := by
    rw [mem_shortlists_fst n P1 P2 _ C.hP1 C.hP2 hperm]
    refine ⟨a.2, (ν a).2, ?_, ?_⟩
    · rw [hget a]; exact C.opt ν hν a
    · rw [hidx (ν a)]
      have := women_le C.h1 hν (C.opt ν hν) (ν a)
      simp only [Equiv.symm_apply_apply] at this
      exact this
  exact ⟨key, (shortlists_mutual n P1 P2 _ _ _).mp key⟩

/-- the husband of woman `w` (as natural numbers) -/
def husb (μ : Equiv.Perm (Fin n)) (w : Nat) : Nat := if h : w < n then ((μ.symm ⟨w, h⟩ : Fin n) : Nat) else 0

theorem husb_fin (μ : Equiv.Perm (Fin n)) (b : Fin n) : husb μ b = μ.symm b := by
  unfold husb; rw [dif_pos b.2]

/-- the invariant holds for the initial shortlists and the male-optimal matching -/
theorem l2Inv_init (C : JCtx n P1 P2 M0 μ0) :
    L2Inv P2 (shortlists n P1 P2 (muOf n M0)).2 (husb μ0) (shortlists n P1 P2 (muOf n M0)).2 := by
  obtain ⟨hperm, hget, hidx⟩ := muOf_facts C.rep
  intro w
  refine ⟨shortlists_snd_pairwise n P1 P2 _ C.hP2 w, ?_⟩
  intro m
  constructor
  · intro hm
    refine ⟨hm, ?_⟩
    obtain ⟨_, hw, _, hle⟩ := (mem_shortlists_snd n P1 P2 _ C.hP1 C.hP2 hperm m w).mp hm
    have := hidx ⟨w, hw⟩
    simp only at this
    rw [this] at hle
    rw [show husb μ0 w = μ0.symm ⟨w, hw⟩ from husb_fin μ0 ⟨w, hw⟩]
    exact hle
  · exact fun h => h.1

/-- `eliminating_rotations_of_pair[(m, w)] = π` is GOOD if `w` is a woman of rotation number `π`, with a husband there whom
she likes no more than `m` -/
def ElimGood (P2 : List (List Nat)) (all : List (List Pair)) (m w pi : Nat) : Prop :=
  ∃ a, (a, w) ∈ all.getD pi [] ∧ rankOf P2 w m ≤ rankOf P2 w a

/-- … and the rotation `π` gives `w` a husband she strictly prefers to `m` -/
def ElimGood2 (P2 : List (List Nat)) (all : List (List Pair)) (m w pi : Nat) : Prop :=
  ∃ idx, idx < (all.getD pi []).length ∧ (rotAt (all.getD pi []) idx).2 = w ∧
    rankOf P2 w (rotAt (all.getD pi []) ((idx + (all.getD pi []).length - 1) % (all.getD pi []).length)).1
      < rankOf P2 w m

/-- rotation `π` moves `w` past `m`: from a husband she likes no more than `m` to one she strictly prefers to `m` -/
def ElimOK (P2 : List (List Nat)) (all : List (List Pair)) (m w pi : Nat) : Prop :=
  ElimGood P2 all m w pi ∧ ElimGood2 P2 all m w pi

theorem formPerm_prev {ρ : List (Fin n)} (hnd : ρ.Nodup) (i : Nat) (hi : i < ρ.length) :
    ρ.formPerm (ρ[(i + ρ.length - 1) % ρ.length]'(Nat.mod_lt _ (by omega))) = ρ[i] := by
  rw [List.formPerm_apply_getElem ρ hnd]
  simp only [Irving.mod_aux1 i _ hi]

theorem truncFold_l1 (rho : List Pair) (idx : Nat) : ∀ (is : List Nat) (st : LvSt),
    (is.foldl (truncStep rho idx) st).l1 = st.l1 := by
  intro is
  induction is with
  | nil => intro st; rfl
  | cons i is ih => intro st; rw [List.foldl_cons, ih]; rfl

/-- **one `elimRot`**: eliminating the rotation `ρ` exposed in the stable matching `μ` keeps the invariant of the women's
lists (with the husbands of `μ/ρ`) and only adds good entries to `eliminating_rotations_of_pair` -/
theorem elimRot_inv (C : JCtx n P1 P2 M0 μ0) {all : List (List Pair)} {μ : Equiv.Perm (Fin n)}
    (hμ : StableSM (rk n P1) (rk n P2) μ) {ρ : List (Fin n)} (hex : ExposedRot (rk n P1) (rk n P2) μ ρ) (st : LvSt)
    (hinv : L2Inv P2 (shortlists n P1 P2 (muOf n M0)).2 (husb μ) st.l2)
    (hel : DictAll (fun (p : Pair) pi => ElimOK P2 all p.1 p.2 pi) st.elim)
    (hei : EIInv (shortlists n P1 P2 (muOf n M0)).2 st)
    (hcur : all.getD st.cnt [] = rotPairs μ ρ) :
    L2Inv P2 (shortlists n P1 P2 (muOf n M0)).2 (husb (elim μ ρ)) (elimRot st (rotPairs μ ρ)).l2 ∧
      DictAll (fun (p : Pair) pi => ElimOK P2 all p.1 p.2 pi) (elimRot st (rotPairs μ ρ)).elim ∧
      EIInv (shortlists n P1 P2 (muOf n M0)).2 (elimRot st (rotPairs μ ρ)) ∧
      (elimRot st (rotPairs μ ρ)).cnt = st.cnt + 1 ∧
      (PM2Inv st → PM2Inv (elimRot st (rotPairs μ ρ))) ∧ (elimRot st (rotPairs μ ρ)).l1 = st.l1 := by
  obtain ⟨hnd, hne, hsucc⟩ := hex
  have hst' := (exposed_elim_stable C.h1 hμ ⟨hnd, hne, hsucc⟩).1
  have hlen : (rotPairs μ ρ).length = ρ.length := rotPairs_length μ ρ
  have hprevlt : ∀ i, i < ρ.length → (i + ρ.length - 1) % ρ.length < ρ.length := fun i hi => Nat.mod_lt _ (by omega)
  have hw : ∀ i (hi : i < ρ.length), (rotAt (rotPairs μ ρ) i).2 = ((μ ρ[i] : Fin n) : Nat) := by
    intro i hi; rw [rotAt_rotPairs μ ρ i hi]; rfl
  have hm : ∀ i (hi : i < ρ.length), (rotAt (rotPairs μ ρ) i).1 = (ρ[i] : Nat) := by
    intro i hi; rw [rotAt_rotPairs μ ρ i hi]; rfl
  have hmix0 : ∀ w, husb μ w = mixQ (husb μ) (husb (elim μ ρ)) [] w := by intro w; simp [mixQ]
  have hnodup : ((List.range (rotPairs μ ρ).length).map (fun i => (rotAt (rotPairs μ ρ) i).2)).Nodup := by
    -- the women of the rotation are distinct
    rw [hlen]
    refine List.Nodup.map_on ?_ List.nodup_range
    intro i hi j hj hij
    have hi' := List.mem_range.mp hi
    have hj' := List.mem_range.mp hj
    rw [hw i hi', hw j hj'] at hij
    have : ρ[i] = ρ[j] := μ.injective (Fin.ext hij)
    exact (List.Nodup.getElem_inj_iff hnd).mp this
  have hfold := truncFold_inv (P2 := P2) (l20 := (shortlists n P1 P2 (muOf n M0)).2)
    (Good := ElimOK P2 all) (rotPairs μ ρ) st.cnt (husb μ) (husb (elim μ ρ))
    (List.range (rotPairs μ ρ).length) [] st (hinv.congr hmix0) hel hei hnodup (fun _ _ => by simp)
  obtain ⟨S', hS', r1, r2, r3, r4⟩ := hfold (by
    intro i hi
    rw [hlen] at hi ⊢
    have hi' := List.mem_range.mp hi
    have hj' := hprevlt i hi'
    rw [hw i hi', hm _ hj']
    set a := ρ[(i + ρ.length - 1) % ρ.length] with ha
    have hamem : a ∈ ρ := List.getElem_mem hj'
    have hform : ρ.formPerm a = ρ[i] := formPerm_prev hnd i hi'
    have hnew : elim μ ρ a = μ ρ[i] := by rw [elim_apply, hform]
    have hhus : husb μ ((μ ρ[i] : Fin n) : Nat) = ρ[i] := by rw [husb_fin]; simp
    refine ⟨?_, ?_, ?_, ?_⟩
    · have := (stable_pair_mem C hst' a).2
      rwa [hnew] at this
    · rw [hhus]
      have := (hsucc a hamem).1.2
      rw [hform] at this
      simp only [Equiv.symm_apply_apply] at this
      exact Nat.le_of_lt this
    · rw [husb_fin, elim_symm_apply, Equiv.symm_apply_apply]
      congr 1
      rw [Equiv.symm_apply_eq, hform]
    · intro m _ hmle hmlt
      rw [hhus] at hmle
      refine ⟨⟨ρ[i], ?_, hmle⟩, ⟨i, ?_, ?_, ?_⟩⟩
      · rw [hcur]
        exact List.mem_map.mpr ⟨ρ[i], List.getElem_mem hi', rfl⟩
      · rw [hcur, hlen]; exact hi'
      · rw [hcur]; exact hw i hi'
      · rw [hcur, hlen, hm _ hj']; exact hmlt)
  refine ⟨?_, r2, r3, rfl, r4, truncFold_l1 _ _ _ _⟩
  refine L2Inv.congr r1 ?_
  intro w
  unfold mixQ
  split
  · rfl
  · rename_i hwS
    -- `w` is not the wife of a man of `ρ`
    unfold husb
    split
    · rename_i hwn
      have hnot : μ.symm ⟨w, hwn⟩ ∉ ρ := by
        intro hin
        obtain ⟨i, hi, he⟩ := List.getElem_of_mem hin
        apply hwS
        rw [hS' w]
        left
        rw [List.mem_map]
        refine ⟨i, List.mem_range.mpr (by rw [hlen]; exact hi), ?_⟩
        rw [hw i hi, he]; simp
      rw [elim_symm_apply]
      have : ρ.formPerm.symm (μ.symm ⟨w, hwn⟩) = μ.symm ⟨w, hwn⟩ := by
        rw [Equiv.symm_apply_eq, List.formPerm_apply_of_notMem hnot]
      rw [this]
    · rfl

end

end IrvingAlgo.J

#print axioms IrvingAlgo.J.elimRot_inv
