import Sck.Proofs.LatticeJ9

/-! # C03, package L8b, part 10: the mirror's run `all`, stage by stage; `rotation_of_pair` is exact -/

namespace IrvingAlgo.J

open Irving SMLattice SMLattice.J

/-! ### list helpers -/

/-- the last element of a list that satisfies `p` -/
theorem exists_last {α : Type} (p : α → Prop) :
    ∀ (l : List α), (∃ x ∈ l, p x) → ∃ p1 u p2, l = p1 ++ u :: p2 ∧ p u ∧ ∀ x ∈ p2, ¬ p x := by
  intro l
  induction l with
  | nil => rintro ⟨x, hx, _⟩; simp at hx
  | cons a l ih =>
    intro h
    by_cases hl : ∃ x ∈ l, p x
    · obtain ⟨p1, u, p2, rfl, hu, hp2⟩ := ih hl
      exact ⟨a :: p1, u, p2, rfl, hu, hp2⟩
    · obtain ⟨x, hx, hpx⟩ := h
      rcases List.mem_cons.mp hx with rfl | hx'
      · exact ⟨[], x, l, rfl, hpx, fun y hy hpy => hl ⟨y, hy, hpy⟩⟩
      · exact absurd ⟨x, hx', hpx⟩ hl

theorem mem_left_of_lt {r : Nat → Nat} {A Z : List Nat} {w x : Nat}
    (hp : (A ++ w :: Z).Pairwise (fun a b => r a < r b)) (hx : x ∈ A ++ w :: Z) (hlt : r x < r w) : x ∈ A := by
  rw [List.pairwise_append] at hp
  rcases List.mem_append.mp hx with h | h
  · exact h
  · rcases List.mem_cons.mp h with rfl | h
    · exact absurd hlt (Nat.lt_irrefl _)
    · have := (List.pairwise_cons.mp hp.2.1).1 x h; omega

theorem mem_right_of_gt {r : Nat → Nat} {A Y : List Nat} {u x : Nat}
    (hp : (A ++ u :: Y).Pairwise (fun a b => r a < r b)) (hx : x ∈ A ++ u :: Y) (hlt : r u < r x) : x ∈ Y := by
  rw [List.pairwise_append] at hp
  rcases List.mem_append.mp hx with h | h
  · have := hp.2.2 x h u List.mem_cons_self; omega
  · rcases List.mem_cons.mp h with rfl | h
    · exact absurd hlt (Nat.lt_irrefl _)
    · exact h

/-- in a list sorted by `r`, a smaller `r` means an earlier position -/
theorem idxOf_lt_of_lt {r : Nat → Nat} {L : List Nat} (hL : L.Pairwise (fun a b => r a < r b)) {a b : Nat}
    (ha : a ∈ L) (hb : b ∈ L) (h : r a < r b) : L.idxOf a < L.idxOf b := by
  by_contra hge
  rcases Nat.lt_or_eq_of_le (Nat.le_of_not_lt hge) with hlt | heq
  · have := lt_of_idxOf_lt hL hb ha hlt; omega
  · have hia := List.idxOf_lt_length_of_mem ha
    have hib := List.idxOf_lt_length_of_mem hb
    have e1 := List.getElem_idxOf hia
    have e2 := List.getElem_idxOf hib
    simp only [heq] at e2
    rw [e1] at e2
    rw [e2] at h; exact Nat.lt_irrefl _ h

/-- if a pair occurs in some rotation, `rotation_of_pair` has an entry for it -/
theorem rotOfPair_isSome (rots : List (List Pair)) (p : Pair) (i : Nat) (hp : p ∈ rots.getD i []) :
    (dictGet? (rotOfPair rots) p).isSome := by
  unfold rotOfPair
  have outer : ∀ (l : List (List Pair × Nat)) (d : List (Pair × Nat)),
      ((dictGet? d p).isSome ∨ ∃ ri ∈ l, p ∈ ri.1) →
      (dictGet? (l.foldl (fun d ri => ri.1.foldl (fun d p => dictSet d p ri.2) d) d) p).isSome := by
    intro l
    induction l with
    | nil =>
      intro d h
      rcases h with h | ⟨ri, hri, _⟩
      · exact h
      · simp at hri
    | cons ri l ih =>
      intro d h
      rw [List.foldl_cons]
      apply ih
      obtain ⟨g1, g2, _⟩ := dictGet?_foldl_dictSet (β := Nat) (fun q : Pair => q) ri.2 p ri.1 d
      rcases h with h | ⟨ri', hri', hp'⟩
      · exact Or.inl (g2 h)
      · rcases List.mem_cons.mp hri' with rfl | hin
        · left
          rw [g1 ⟨p, hp', rfl⟩]; rfl
        · exact Or.inr ⟨ri', hin, hp'⟩
  apply outer
  right
  have hlt : i < rots.length := by
    by_contra hge
    rw [List.getD_eq_getElem?_getD, List.getElem?_eq_none (by omega)] at hp
    simp at hp
  refine ⟨(rots[i], i), ?_, ?_⟩
  · rw [List.mem_zipIdx_iff_getElem?]
    simp [hlt]
  · rw [List.getD_eq_getElem?_getD, List.getElem?_eq_getElem hlt] at hp
    exact hp

theorem shortlists_fst_length (n : Nat) (P1 P2 : List (List Nat)) (mu : List Nat) :
    (shortlists n P1 P2 mu).1.length = n := by simp [shortlists]

section
variable {n : Nat} {P1 P2 : List (List Nat)} {M0 : List Pair} {μ0 : Equiv.Perm (Fin n)}

/-- the shortlists at the level of `Fin n` -/
theorem mem_l20_iff (C : JCtx n P1 P2 M0 μ0) (a b : Fin n) :
    (a : Nat) ∈ (shortlists n P1 P2 (muOf n M0)).2.getD b [] ↔
      rk n P1 a (μ0 a) ≤ rk n P1 a b ∧ rk n P2 b a ≤ rk n P2 b (μ0.symm b) := by
  obtain ⟨hperm, hget, hidx⟩ := muOf_facts C.rep
  rw [mem_shortlists_snd n P1 P2 _ C.hP1 C.hP2 hperm, hget a, hidx b]
  exact ⟨fun h => ⟨h.2.2.1, h.2.2.2⟩, fun h => ⟨a.2, b.2, h.1, h.2⟩⟩

/-- the mirror's run: `all` is the pairs form of a path from the male-optimal matching -/
structure RunCtx (C : JCtx n P1 P2 M0 μ0) (all : List (List Pair)) (rotsA : List (List (Fin n)))
    (νz : Equiv.Perm (Fin n)) : Prop where
  path : ElimPath (rk n P1) (rk n P2) μ0 rotsA νz
  pp : pathPairs μ0 rotsA = all

variable {C : JCtx n P1 P2 M0 μ0} {all : List (List Pair)} {rotsA : List (List (Fin n))} {νz : Equiv.Perm (Fin n)}

theorem RunCtx.length (R : RunCtx C all rotsA νz) : all.length = rotsA.length := by
  rw [← R.pp, pathPairs_length]

/-- stage `i` of the run -/
theorem RunCtx.stage (R : RunCtx C all rotsA νz) (i : Nat) (hi : i < rotsA.length) :
    StableSM (rk n P1) (rk n P2) (endOf μ0 (rotsA.take i)) ∧
      ExposedRot (rk n P1) (rk n P2) (endOf μ0 (rotsA.take i)) rotsA[i] ∧
      all.getD i [] = rotPairs (endOf μ0 (rotsA.take i)) rotsA[i] ∧
      MLe (rk n P1) (endOf μ0 (rotsA.take i)) νz := by
  obtain ⟨_, s1, _, s3, _, s5, s6, _⟩ := path_stage C.h1 C.st0 R.path i hi
  refine ⟨s1, s3, ?_, ?_⟩
  · have hlt : i < all.length := by rw [R.length]; exact hi
    have hpp := R.pp
    subst hpp
    rw [List.getD_eq_getElem?_getD, List.getElem?_eq_getElem hlt, ← s6]
    rfl
  · exact ((exposed_elim_stable C.h1 s1 s3).2.1).trans s5

theorem RunCtx.lt_of_mem (R : RunCtx C all rotsA νz) {i : Nat} {p : Pair} (hp : p ∈ all.getD i []) :
    i < rotsA.length := by
  by_contra hge
  rw [List.getD_eq_getElem?_getD, List.getElem?_eq_none (by rw [R.length]; omega)] at hp
  simp at hp

/-- a pair of rotation number `i` is a pair of the stage-`i` matching -/
theorem RunCtx.pair (R : RunCtx C all rotsA νz) {i m w : Nat} (hp : (m, w) ∈ all.getD i []) :
    ∃ (hi : i < rotsA.length) (c : Fin n), c ∈ rotsA[i] ∧ m = (c : Nat) ∧
      w = ((endOf μ0 (rotsA.take i) c : Fin n) : Nat) := by
  have hi := R.lt_of_mem hp
  rw [(R.stage i hi).2.2.1] at hp
  obtain ⟨c, hc, h1, h2⟩ := mem_rotPairs_iff hp
  exact ⟨hi, c, hc, h1, h2⟩

/-- **a pair belongs to at most one rotation of the run** -/
theorem RunCtx.pair_unique (R : RunCtx C all rotsA νz) {i j m w : Nat} (hi : (m, w) ∈ all.getD i [])
    (hj : (m, w) ∈ all.getD j []) : i = j := by
  obtain ⟨hil, c, hc, hm, hw⟩ := R.pair hi
  obtain ⟨hjl, c', hc', hm', hw'⟩ := R.pair hj
  have hcc : c = c' := Fin.ext (hm.symm.trans hm')
  subst hcc
  obtain ⟨si, ei, ai, _⟩ := R.stage i hil
  obtain ⟨sj, ej, aj, _⟩ := R.stage j hjl
  have hsame : endOf μ0 (rotsA.take i) c = endOf μ0 (rotsA.take j) c := Fin.ext (hw.symm.trans hw')
  obtain ⟨hr, hag⟩ := rotation_unique C.h1 C.h2 si sj ei ej hc hc' hsame
  have e : rotPairs (endOf μ0 (rotsA.take i)) rotsA[i] = rotPairs (endOf μ0 (rotsA.take j)) rotsA[i] := by
    unfold rotPairs
    apply List.map_congr_left
    intro a ha
    unfold pr; rw [hag a ha]
  have hrot : all.getD i [] ~r all.getD j [] := by
    rw [ai, aj, e]; exact hr.map _
  have hpw := pathPairs_pairwise C.h1 C.h2 rotsA μ0 νz C.st0 R.path
  rw [R.pp] at hpw
  have hil' : i < all.length := by rw [R.length]; exact hil
  have hjl' : j < all.length := by rw [R.length]; exact hjl
  rw [List.getD_eq_getElem?_getD, List.getElem?_eq_getElem hil', List.getD_eq_getElem?_getD,
    List.getElem?_eq_getElem hjl'] at hrot
  exact pairwise_not_inj (fun _ _ h => List.IsRotated.symm h) hpw i j hil' hjl' hrot

/-- **`rotation_of_pair` is exact on the run** -/
theorem RunCtx.rop_eq (R : RunCtx C all rotsA νz) {i m w : Nat} (hp : (m, w) ∈ all.getD i []) :
    dictGet? (rotOfPair all) (m, w) = some i := by
  have hs := rotOfPair_isSome all (m, w) i hp
  obtain ⟨j, hj⟩ := Option.isSome_iff_exists.mp hs
  have := dictAll_get (rotOfPair_mem all) hj
  rw [hj, R.pair_unique hp this]

theorem rop_none_of {all : List (List Pair)} {m w : Nat} (h : ∀ i, (m, w) ∉ all.getD i []) :
    dictGet? (rotOfPair all) (m, w) = none := by
  cases hg : dictGet? (rotOfPair all) (m, w) with
  | none => rfl
  | some j => exact absurd (dictAll_get (rotOfPair_mem all) hg) (h j)

/-- every member of the tail of the run is a member of `all` -/
theorem RunCtx.mem_of_tail (R : RunCtx C all rotsA νz) (j : Nat) (hj : j < rotsA.length) {r : List Pair}
    (hr : r ∈ pathPairs (elim (endOf μ0 (rotsA.take j)) rotsA[j]) (rotsA.drop (j + 1))) :
    ∃ j', r = all.getD j' [] ∧ j' < rotsA.length := by
  obtain ⟨_, _, _, _, _, _, _, s7⟩ := path_stage C.h1 C.st0 R.path j hj
  have hmem : r ∈ all := by
    rw [← R.pp, s7]
    exact List.mem_append_right _ (List.mem_cons_of_mem _ hr)
  obtain ⟨j', hj', rfl⟩ := List.getElem_of_mem hmem
  refine ⟨j', ?_, by rw [← R.length]; exact hj'⟩
  rw [List.getD_eq_getElem?_getD, List.getElem?_eq_getElem hj']; rfl

end

end IrvingAlgo.J

#print axioms IrvingAlgo.J.RunCtx.rop_eq
