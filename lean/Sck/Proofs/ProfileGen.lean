import Sck.Proofs.ProfileConsistent
import Sck.Proofs.ProfileTies
import Mathlib.Algebra.BigOperators.Ring.List
import Mathlib.Algebra.Order.BigOperators.Group.List

/-! C18 part E: the valuation generators (one row, the draws are inputs). -/

theorem sortDesc_perm (draws : List Rat) : (sortDesc draws).Perm draws :=
  isortBy_perm _ _

theorem sortDesc_length (draws : List Rat) : (sortDesc draws).length = draws.length :=
  (sortDesc_perm draws).length_eq

theorem sortDesc_sorted (draws : List Rat) : (sortDesc draws).Pairwise (fun a b => b ≤ a) := by
  have := isortBy_pairwise (fun a b : Rat => decide (b ≤ a))
    (by intro a b c h1 h2; simp only [decide_eq_true_eq] at *; exact le_trans h2 h1)
    (by intro a b; simp only [decide_eq_true_eq]; exact le_total b a) draws
  exact this.imp (by intro a b h; simpa using h)

theorem sortDesc_sum (draws : List Rat) : (sortDesc draws).sum = draws.sum :=
  (sortDesc_perm draws).sum_eq

theorem clip_nonneg (draws : List Rat) : ∀ x ∈ clip draws, 0 ≤ x := by
  intro x hx
  unfold clip at hx
  rw [List.mem_map] at hx
  obtain ⟨y, _, rfl⟩ := hx
  split
  · exact le_refl _
  · exact not_lt.1 (by assumption)

theorem length_clip (draws : List Rat) : (clip draws).length = draws.length := by
  simp [clip]

/-! ### counting the better-ranked entries of a strict row -/

theorem countP_ltR_eq (ranks : List (Option Nat)) (r : Nat) :
    ranks.countP (fun y => ltR y (some r)) = (ranks.filterMap id).countP (fun x => decide (x < r)) := by
  induction ranks with
  | nil => rfl
  | cons x ranks ih =>
    cases x with
    | none =>
      rw [List.filterMap_cons_none (by rfl), List.countP_cons, ih]
      simp [ltR]
    | some s =>
      rw [List.filterMap_cons_some (by rfl : id (some s) = some s), List.countP_cons,
        List.countP_cons, ih]
      simp [ltR]

theorem countP_lt_range' (k r : Nat) :
    (List.range' 1 k).countP (fun x => decide (x < r)) = min (r - 1) k := by
  induction k with
  | zero => simp
  | succ k ih =>
    rw [List.range'_concat, List.countP_append, ih]
    simp only [Nat.one_mul, List.countP_cons, List.countP_nil, Nat.zero_add, decide_eq_true_eq]
    split <;> omega

theorem mem_ranks_of_strict (ranks : List (Option Nat)) (hs : strictRowB ranks = true) (j r : Nat)
    (hj : ranks[j]? = some (some r)) : 1 ≤ r ∧ r ≤ numSome ranks := by
  unfold strictRowB at hs
  rw [List.isPerm_iff] at hs
  have : r ∈ ranks.filterMap id := by
    rw [List.mem_filterMap]; exact ⟨some r, List.mem_of_getElem? hj, rfl⟩
  have := (hs.mem_iff).1 this
  rw [List.mem_range'_1] at this
  omega

theorem cnt_of_strict (ranks : List (Option Nat)) (hs : strictRowB ranks = true) (j r : Nat)
    (hj : ranks[j]? = some (some r)) : ranks.countP (fun y => ltR y (some r)) = r - 1 := by
  have hb := mem_ranks_of_strict ranks hs j r hj
  unfold strictRowB at hs
  rw [List.isPerm_iff] at hs
  rw [countP_ltR_eq, hs.countP_eq, countP_lt_range']
  omega

theorem nodup_of_strict (ranks : List (Option Nat)) (hs : strictRowB ranks = true) :
    (ranks.filterMap id).Nodup := by
  unfold strictRowB at hs
  rw [List.isPerm_iff] at hs
  exact (hs.nodup_iff).2 (List.nodup_range' ..)

/-! ### entries of the generated row -/

theorem length_generateRow (ranks : List (Option Nat)) (draws : List Rat) :
    (generateRow ranks draws).length = ranks.length := by
  simp [generateRow]

theorem getElem?_generateRow_none (ranks : List (Option Nat)) (draws : List Rat) (j : Nat)
    (hj : ranks[j]? = some none) : (generateRow ranks draws)[j]? = some none := by
  have hlt : j < ranks.length := (List.getElem?_eq_some_iff.1 hj).1
  have hv := valAt_of_getElem? ranks j _ hj
  simp [generateRow, hlt, hv]

theorem getElem?_generateRow_some (ranks : List (Option Nat)) (draws : List Rat)
    (hs : strictRowB ranks = true) (hlen : draws.length = numSome ranks) (hsum : draws.sum ≠ 0)
    (j r : Nat) (hj : ranks[j]? = some (some r)) :
    ∃ h : r - 1 < (sortDesc draws).length,
      (generateRow ranks draws)[j]? = some (some ((sortDesc draws)[r - 1] / draws.sum)) := by
  have hlt : j < ranks.length := (List.getElem?_eq_some_iff.1 hj).1
  have hv := valAt_of_getElem? ranks j _ hj
  have hb := mem_ranks_of_strict ranks hs j r hj
  have hidx : r - 1 < (sortDesc draws).length := by rw [sortDesc_length, hlen]; omega
  refine ⟨hidx, ?_⟩
  have hc := cnt_of_strict ranks hs j r hj
  simp [generateRow, hlt, hv, hsum, hc, List.getElem?_eq_getElem hidx]

/-- the non-NaN entries of the generated row, listed along the ranking, are the normalised sorted
draws -/
theorem filterMap_generateRow (ranks : List (Option Nat)) (draws : List Rat)
    (hs : strictRowB ranks = true) (hlen : draws.length = numSome ranks) (hsum : draws.sum ≠ 0) :
    ((generateRow ranks draws).filterMap id).Perm ((sortDesc draws).map (· / draws.sum)) := by
  let u := sortDesc draws
  let s := draws.sum
  -- step 1: rewrite as a filterMap over the ranks
  have e1 : (generateRow ranks draws).filterMap id =
      (ranks.filterMap id).filterMap (fun r => (u[r - 1]?).map (· / s)) := by
    rw [List.filterMap_filterMap]
    conv_rhs => rw [← map_valAt_range ranks, List.filterMap_map]
    unfold generateRow
    rw [List.filterMap_map]
    apply List.filterMap_congr
    intro j hj
    rw [List.mem_range] at hj
    simp only [Function.comp, id]
    cases hv : valAt ranks j with
    | none => simp
    | some r =>
      have hj' := (valAt_eq_some ranks j r).1 hv
      have hc := cnt_of_strict ranks hs j r hj'
      simp only [Option.bind_some, hc]
      rw [if_neg hsum]
  rw [e1]
  have hs' := hs
  unfold strictRowB at hs'
  rw [List.isPerm_iff] at hs'
  refine (hs'.filterMap _).trans ?_
  have e2 : (List.range' 1 (numSome ranks)).map (fun r => u[r - 1]?) = u.map some := by
    apply List.ext_getElem
    · simp only [List.length_map, List.length_range']
      rw [← hlen]; exact (sortDesc_length draws).symm
    · intro i h1 h2
      simp only [List.length_map, List.length_range'] at h1
      simp only [List.getElem_map, List.getElem_range']
      have : i < u.length := by simpa using h2
      rw [show 1 + 1 * i - 1 = i by omega, List.getElem?_eq_getElem this]
  have e3 : (List.range' 1 (numSome ranks)).filterMap (fun r => (u[r - 1]?).map (· / s)) =
      u.map (· / s) := by
    have : (fun r => (u[r - 1]?).map (· / s)) = (Option.map (· / s)) ∘ (fun r => u[r - 1]?) := rfl
    rw [this, ← List.filterMap_map, e2, List.filterMap_map]
    exact congrFun (List.filterMap_eq_map (f := fun x : Rat => x / s)) u
  rw [e3]

theorem generate_sum (ranks : List (Option Nat)) (draws : List Rat)
    (hs : strictRowB ranks = true) (hlen : draws.length = numSome ranks) (hsum : draws.sum ≠ 0) :
    rowSum (generateRow ranks draws) = 1 := by
  unfold rowSum
  rw [(filterMap_generateRow ranks draws hs hlen hsum).sum_eq]
  have : (fun x : Rat => x / draws.sum) = (fun x => id x * (draws.sum)⁻¹) := by
    funext x; simp [div_eq_mul_inv]
  rw [this, List.sum_map_mul_right, List.map_id, sortDesc_sum]
  exact mul_inv_cancel₀ hsum

theorem sum_pos_of (draws : List Rat) (hnn : ∀ x ∈ draws, 0 ≤ x) (hsum : draws.sum ≠ 0) :
    0 < draws.sum :=
  lt_of_le_of_ne (List.sum_nonneg hnn) (Ne.symm hsum)

/-- `generate_spec`: the five clauses of the property for one generated row -/
theorem generate_spec (ranks : List (Option Nat)) (draws : List Rat)
    (hs : strictRowB ranks = true) (hlen : draws.length = numSome ranks)
    (hnn : ∀ x ∈ draws, 0 ≤ x) (hsum : draws.sum ≠ 0) :
    (generateRow ranks draws).length = ranks.length ∧
    (∀ j : Nat, (generateRow ranks draws)[j]? = some none ↔ ranks[j]? = some none) ∧
    (∀ (j : Nat) (x : Rat), (generateRow ranks draws)[j]? = some (some x) → 0 ≤ x) ∧
    (∀ (a b ra rb : Nat) (x y : Rat), ranks[a]? = some (some ra) → ranks[b]? = some (some rb) →
      (generateRow ranks draws)[a]? = some (some x) → (generateRow ranks draws)[b]? = some (some y) →
      ra < rb → y ≤ x) ∧
    rowSum (generateRow ranks draws) = 1 := by
  have hpos := sum_pos_of draws hnn hsum
  refine ⟨length_generateRow _ _, ?_, ?_, ?_, generate_sum ranks draws hs hlen hsum⟩
  · intro j
    constructor
    · intro ho
      have hj : j < ranks.length := by
        rw [← length_generateRow ranks draws]; exact (List.getElem?_eq_some_iff.1 ho).1
      cases hr : ranks[j] with
      | none => rw [List.getElem?_eq_getElem hj, hr]
      | some r =>
        have hj' : ranks[j]? = some (some r) := by rw [List.getElem?_eq_getElem hj, hr]
        obtain ⟨_, h2⟩ := getElem?_generateRow_some ranks draws hs hlen hsum j r hj'
        rw [h2] at ho
        simp at ho
    · exact getElem?_generateRow_none ranks draws j
  · intro j x hx
    have hj : j < ranks.length := by
      rw [← length_generateRow ranks draws]; exact (List.getElem?_eq_some_iff.1 hx).1
    cases hr : ranks[j] with
    | none =>
      have := getElem?_generateRow_none ranks draws j (by rw [List.getElem?_eq_getElem hj, hr])
      rw [this] at hx
      simp at hx
    | some r =>
      have hj' : ranks[j]? = some (some r) := by rw [List.getElem?_eq_getElem hj, hr]
      obtain ⟨h1, h2⟩ := getElem?_generateRow_some ranks draws hs hlen hsum j r hj'
      rw [h2] at hx
      have hx' : (sortDesc draws)[r - 1] / draws.sum = x := Option.some.inj (Option.some.inj hx)
      rw [← hx']
      apply div_nonneg _ (le_of_lt hpos)
      exact hnn _ ((sortDesc_perm draws).mem_iff.1 (List.getElem_mem h1))
  · intro a b ra rb x y hra hrb hxa hyb hlt
    obtain ⟨h1, h2⟩ := getElem?_generateRow_some ranks draws hs hlen hsum a ra hra
    obtain ⟨h3, h4⟩ := getElem?_generateRow_some ranks draws hs hlen hsum b rb hrb
    rw [h2] at hxa
    rw [h4] at hyb
    have hx' : (sortDesc draws)[ra - 1] / draws.sum = x := Option.some.inj (Option.some.inj hxa)
    have hy' : (sortDesc draws)[rb - 1] / draws.sum = y := Option.some.inj (Option.some.inj hyb)
    rw [← hx', ← hy']
    have hra1 := (mem_ranks_of_strict ranks hs a ra hra).1
    have := List.pairwise_iff_getElem.1 (sortDesc_sorted draws) (ra - 1) (rb - 1) h1 h3 (by omega)
    exact div_le_div_of_nonneg_right this (le_of_lt hpos)

/-- the generated row is accepted by the consistency predicate, for every admissible pair of orders -/
theorem generate_consistent (tol : Rat → Rat → Bool) (htol : ∀ x, tol x x = true)
    (ranks : List (Option Nat)) (draws : List Rat)
    (hs : strictRowB ranks = true) (hlen : draws.length = numSome ranks)
    (hnn : ∀ x ∈ draws, 0 ≤ x) (hsum : draws.sum ≠ 0)
    (o1 o2 : List Nat) (first : Bool)
    (h1 : validDescOrder (generateRow ranks draws) o1 = true)
    (h2 : validAscOrder ranks o2 first = true) :
    isConsistentWith tol (generateRow ranks draws) ranks o1 o2 = true := by
  obtain ⟨hl, hnan, _, hdec, _⟩ := generate_spec ranks draws hs hlen hnn hsum
  apply isConsistent_accepts tol htol _ ranks hl ?_ (nodup_of_strict ranks hs) ?_ o1 o2 first h1 h2
  · intro j hj
    rw [valAt_of_lt ranks j hj, valAt_of_lt _ j (by rw [hl]; exact hj)]
    have hn := hnan j
    rw [List.getElem?_eq_getElem hj, List.getElem?_eq_getElem (by rw [hl]; exact hj)] at hn
    simp only [Option.some.injEq] at hn
    cases h3 : (generateRow ranks draws)[j]'(by rw [hl]; exact hj) with
    | none => rw [hn.1 h3]; rfl
    | some x =>
      cases h4 : ranks[j] with
      | none => rw [hn.2 h4] at h3; simp at h3
      | some r => rfl
  · intro a b ra rb x y hra hrb hxa hyb hlt
    exact hdec a b ra rb x y hra hrb hxa hyb hlt
