import Sck.Proofs.DA4
import Mathlib.Data.List.Nodup

/-! C02 prototype: no proposer is ever turned down by a receiver it is matched to in a stable matching. -/

theorem heldBy_nodup {mu : List (Nat × Nat)} (h : mu.Nodup) (r : Nat) : (heldBy mu r).Nodup := by
  unfold heldBy
  apply List.Nodup.map_on
  · intro x hx y hy hxy
    simp [List.mem_filter] at hx hy
    obtain ⟨x1, x2⟩ := x; obtain ⟨y1, y2⟩ := y
    simp at hx hy hxy; simp [hxy, hx.2, hy.2]
  · exact h.filter _

theorem matchesOf_nodup {mu : List (Nat × Nat)} (h : mu.Nodup) (p : Nat) : (matchesOf mu p).Nodup := by
  unfold matchesOf
  apply List.Nodup.map_on
  · intro x hx y hy hxy
    simp [List.mem_filter] at hx hy
    obtain ⟨x1, x2⟩ := x; obtain ⟨y1, y2⟩ := y
    simp at hx hy hxy; simp [hxy, hx.2, hy.2]
  · exact h.filter _

theorem matchesOf_cons_same (mu : List (Nat × Nat)) (p r : Nat) :
    matchesOf ((p, r) :: mu) p = r :: matchesOf mu p := by simp [matchesOf]

theorem matchesOf_cons_ne (mu : List (Nat × Nat)) (p r q : Nat) (h : p ≠ q) :
    matchesOf ((p, r) :: mu) q = matchesOf mu q := by
  simp [matchesOf, h]

theorem matchesOf_erase_le (mu : List (Nat × Nat)) (e : Nat × Nat) (q : Nat) :
    (matchesOf (mu.erase e) q).length ≤ (matchesOf mu q).length := by
  unfold matchesOf
  simp only [List.length_map]
  rw [← List.erase_filter]
  exact List.length_erase_le

/-- everything in the new matching is old or is the new proposal -/
theorem step_mu_sub (I : DA) (st : St) (p : Nat) :
    ∀ e ∈ (step I st p).mu, e ∈ st.mu ∨ ∃ r, (I.plist p)[st.ptr p]? = some r ∧ e = (p, r) := by
  intro e he
  unfold step at he
  split at he
  · exact Or.inl he
  · rename_i r hr
    split at he
    · exact Or.inl he
    · dsimp only at he
      have hcons : e ∈ (p, r) :: st.mu → e ∈ st.mu ∨ ∃ r', (I.plist p)[st.ptr p]? = some r' ∧ e = (p, r') := by
        intro h; simp at h; rcases h with rfl | h
        · exact Or.inr ⟨r, hr, rfl⟩
        · exact Or.inl h
      split at he
      · exact hcons he
      · split at he
        · exact hcons he
        · exact hcons (List.mem_of_mem_erase he)

/-- a pair that disappears had the step's receiver -/
theorem step_mu_lost (I : DA) (st : St) (p : Nat) :
    ∀ e ∈ st.mu, e ∉ (step I st p).mu → ∃ r, (I.plist p)[st.ptr p]? = some r ∧ e.2 = r := by
  intro e he hne
  unfold step at hne
  split at hne
  · exact absurd he hne
  · rename_i r hr
    split at hne
    · exact absurd he hne
    · dsimp only at hne
      split at hne
      · exact absurd (List.mem_cons_of_mem _ he) hne
      · split at hne
        · exact absurd (List.mem_cons_of_mem _ he) hne
        · rename_i w hw
          by_cases hew : e = (w, r)
          · exact ⟨r, hr, by simp [hew]⟩
          · exact absurd ((List.mem_erase_of_ne hew).mpr (List.mem_cons_of_mem _ he)) hne

theorem step_ptr_other (I : DA) (st : St) (p q : Nat) (h : q ≠ p) : (step I st p).ptr q = st.ptr q := by
  unfold step
  split
  · rfl
  · split
    · simp [setPtr, h]
    · dsimp only
      split
      · simp [setPtr, h]
      · split <;> simp [setPtr, h]

theorem step_ptr_self (I : DA) (st : St) (p : Nat) :
    (step I st p).ptr p = st.ptr p ∨
    ((step I st p).ptr p = st.ptr p + 1 ∧ ∃ r, (I.plist p)[st.ptr p]? = some r) := by
  unfold step
  split
  · exact Or.inl rfl
  · rename_i r hr
    right
    split
    · exact ⟨by simp [setPtr], r, hr⟩
    · dsimp only
      split
      · exact ⟨by simp [setPtr], r, hr⟩
      · split <;> exact ⟨by simp [setPtr], r, hr⟩

/-- proposer quotas are respected when only active proposers act -/
def CapP (I : DA) (st : St) : Prop := ∀ q, (matchesOf st.mu q).length ≤ I.qp q

theorem step_capP (I : DA) (st : St) (p : Nat) (hc : CapP I st)
    (hact : (matchesOf st.mu p).length < I.qp p) : CapP I (step I st p) := by
  intro q
  unfold step
  split
  · exact hc q
  · rename_i r hr
    split
    · exact hc q
    · dsimp only
      have h1 : (matchesOf ((p, r) :: st.mu) q).length ≤ I.qp q := by
        by_cases hpq : p = q
        · subst hpq; rw [matchesOf_cons_same]; simp; omega
        · rw [matchesOf_cons_ne _ _ _ _ hpq]; exact hc q
      split
      · exact h1
      · split
        · exact h1
        · exact Nat.le_trans (matchesOf_erase_le _ _ _) h1
