import Sck.Model.EatIncomplete
import Sck.Proofs.Eat10

/-! C07 (incomplete profiles), part 1: `np.argsort` of a strict row with NaN is the `argsort` of the completed
row: `rankedInc row = rankedOf (completeRow row)`; the completed row is a permutation of `1..n`. -/

namespace Eat

/-! ### counting lemmas -/

theorem countP_lt_of_witness {α : Type} (p q : α → Bool) (l : List α) (h : ∀ x ∈ l, p x → q x)
    (x : α) (hx : x ∈ l) (hq : q x = true) (hp : p x = false) : l.countP p < l.countP q := by
  induction l with
  | nil => cases hx
  | cons a l ih =>
    rw [List.countP_cons, List.countP_cons]
    have hmono : l.countP p ≤ l.countP q :=
      List.countP_mono_left (fun y hy => h y (List.mem_cons_of_mem _ hy))
    rcases List.mem_cons.mp hx with rfl | hx'
    · simp [hq, hp]; omega
    · have := ih (fun y hy => h y (List.mem_cons_of_mem _ hy)) hx'
      have ha := h a List.mem_cons_self
      by_cases hpa : p a = true
      · simp [hpa, ha hpa]; omega
      · simp [hpa]; omega

/-- the row is strict: different acceptable positions carry different ranks -/
def StrictInc (row : List (Option Nat)) : Prop :=
  ∀ a b, a < row.length → b < row.length → a ≠ b → (row.getD a none).isSome = true →
    row.getD a none ≠ row.getD b none

theorem strictRowB_iff (row : List (Option Nat)) : strictRowB row = true ↔ StrictInc row := by
  simp only [strictRowB, List.all_eq_true, List.mem_range, Bool.or_eq_true, decide_eq_true_eq, StrictInc]
  constructor
  · intro h a b ha hb hab hs
    rcases h a ha b hb with (h1 | h1) | h1
    · exact absurd h1 hab
    · rw [Option.isNone_iff_eq_none] at h1; rw [h1] at hs; cases hs
    · exact h1
  · intro h a ha b hb
    by_cases hab : a = b
    · exact Or.inl (Or.inl hab)
    · cases hs : row.getD a none with
      | none => exact Or.inl (Or.inr rfl)
      | some r => exact Or.inr (hs ▸ h a b ha hb hab (by rw [hs]; rfl))

theorem getD_eq {row : List (Option Nat)} {j : Nat} (hj : j < row.length) : row.getD j none = row[j] := by
  simp [hj]

theorem getD_mem {row : List (Option Nat)} {j : Nat} (hj : j < row.length) : row.getD j none ∈ row := by
  rw [getD_eq hj]; exact List.getElem_mem hj

theorem countBelow_mono (row : List (Option Nat)) {r r' : Nat} (h : r ≤ r') :
    countBelow row r ≤ countBelow row r' := by
  unfold countBelow
  apply List.countP_mono_left
  intro x _ hx
  cases x with
  | none => exact hx
  | some v => simp only [decide_eq_true_eq] at hx ⊢; omega

theorem countBelow_lt (row : List (Option Nat)) {r r' : Nat} (h : r < r') (hm : some r ∈ row) :
    countBelow row r < countBelow row r' := by
  unfold countBelow
  apply countP_lt_of_witness _ _ row _ (some r) hm
  · simp [h]
  · simp
  · intro x _ hx
    cases x with
    | none => exact hx
    | some v => simp only [decide_eq_true_eq] at hx ⊢; omega

theorem countBelow_lt_countSome (row : List (Option Nat)) {r : Nat} (hm : some r ∈ row) :
    countBelow row r < countSome row := by
  unfold countBelow countSome
  apply countP_lt_of_witness _ _ row _ (some r) hm
  · rfl
  · simp
  · intro x _ hx
    cases x with
    | none => cases hx
    | some v => rfl

theorem countNoneBefore_succ (row : List (Option Nat)) {j : Nat} (hj : j < row.length) :
    countNoneBefore row (j + 1) = countNoneBefore row j + if (row.getD j none).isNone then 1 else 0 := by
  unfold countNoneBefore
  rw [List.take_succ_eq_append_getElem hj, List.countP_append, List.countP_singleton, getD_eq hj]

theorem countNoneBefore_mono (row : List (Option Nat)) {a b : Nat} (hab : a ≤ b) (hb : b ≤ row.length) :
    countNoneBefore row a ≤ countNoneBefore row b := by
  induction b with
  | zero => have : a = 0 := by omega
            subst this; exact Nat.le_refl _
  | succ b ih =>
    rcases Nat.lt_or_eq_of_le hab with h | h
    · have := ih (by omega) (by omega)
      rw [countNoneBefore_succ row (by omega)]
      omega
    · subst h; exact Nat.le_refl _

theorem countNoneBefore_lt (row : List (Option Nat)) {a b : Nat} (hab : a < b) (hb : b ≤ row.length)
    (hn : row.getD a none = none) : countNoneBefore row a < countNoneBefore row b := by
  have h1 := countNoneBefore_succ row (j := a) (by omega)
  rw [hn] at h1
  have h2 := countNoneBefore_mono row (a := a + 1) (b := b) (by omega) hb
  simp at h1
  omega

theorem countSome_add_none (row : List (Option Nat)) :
    countSome row + countNoneBefore row row.length = row.length := by
  unfold countSome countNoneBefore
  rw [List.take_length, List.length_eq_countP_add_countP (fun e : Option Nat => e.isSome) (l := row)]
  congr 1
  apply List.countP_congr
  intro x _
  cases x <;> simp

/-! ### the completed row -/

theorem completeKey_some {row : List (Option Nat)} {j r : Nat} (h : row.getD j none = some r) :
    completeKey row j = countBelow row r + 1 := by
  unfold completeKey; rw [h]

theorem completeKey_none {row : List (Option Nat)} {j : Nat} (h : row.getD j none = none) :
    completeKey row j = countSome row + countNoneBefore row j + 1 := by
  unfold completeKey; rw [h]

theorem completeKey_pos (row : List (Option Nat)) (j : Nat) : 1 ≤ completeKey row j := by
  unfold completeKey; split <;> omega

theorem completeKey_le (row : List (Option Nat)) {j : Nat} (hj : j < row.length) :
    completeKey row j ≤ row.length := by
  cases h : row.getD j none with
  | some r =>
    rw [completeKey_some h]
    have := countBelow_lt_countSome row (h ▸ getD_mem hj)
    have := countSome_add_none row
    omega
  | none =>
    rw [completeKey_none h]
    have := countNoneBefore_lt row (a := j) (b := row.length) hj (Nat.le_refl _) h
    have := countSome_add_none row
    omega

/-- acceptable items come before unacceptable ones -/
theorem completeKey_some_lt_none {row : List (Option Nat)} {a b r : Nat} (ha : a < row.length)
    (hsa : row.getD a none = some r) (hnb : row.getD b none = none) :
    completeKey row a < completeKey row b := by
  rw [completeKey_some hsa, completeKey_none hnb]
  have := countBelow_lt_countSome row (hsa ▸ getD_mem ha)
  omega

/-- among acceptable items: the order of the ranks -/
theorem completeKey_some_lt_iff {row : List (Option Nat)} {a b r r' : Nat} (ha : a < row.length)
    (_hb : b < row.length) (hsa : row.getD a none = some r) (hsb : row.getD b none = some r') :
    completeKey row a < completeKey row b ↔ r < r' := by
  rw [completeKey_some hsa, completeKey_some hsb]
  constructor
  · intro h
    by_contra hn
    have := countBelow_mono row (r := r') (r' := r) (by omega)
    omega
  · intro h
    have := countBelow_lt row h (hsa ▸ getD_mem ha)
    omega

/-- among unacceptable items: the order of the indices -/
theorem completeKey_none_lt_iff {row : List (Option Nat)} {a b : Nat} (ha : a < row.length)
    (_hb : b < row.length) (hna : row.getD a none = none) (hnb : row.getD b none = none) :
    completeKey row a < completeKey row b ↔ a < b := by
  rw [completeKey_none hna, completeKey_none hnb]
  constructor
  · intro h
    by_contra hn
    have := countNoneBefore_mono row (a := b) (b := a) (by omega) (by omega)
    omega
  · intro h
    have := countNoneBefore_lt row h (by omega) hna
    omega

theorem completeKey_inj {row : List (Option Nat)} (hs : StrictInc row) {a b : Nat} (ha : a < row.length)
    (hb : b < row.length) (h : completeKey row a = completeKey row b) : a = b := by
  cases hsa : row.getD a none with
  | some r =>
    cases hsb : row.getD b none with
    | some r' =>
      by_contra hab
      have hne := hs a b ha hb hab (by rw [hsa]; rfl)
      rw [hsa, hsb] at hne
      have hrr : r ≠ r' := fun e => hne (by rw [e])
      rcases Nat.lt_or_gt_of_ne hrr with hlt | hlt
      · have := (completeKey_some_lt_iff ha hb hsa hsb).mpr hlt; omega
      · have := (completeKey_some_lt_iff hb ha hsb hsa).mpr hlt; omega
    | none => have := completeKey_some_lt_none ha hsa hsb; omega
  | none =>
    cases hsb : row.getD b none with
    | some r' => have := completeKey_some_lt_none hb hsb hsa; omega
    | none =>
      by_contra hab
      rcases Nat.lt_or_gt_of_ne hab with hlt | hlt
      · have := (completeKey_none_lt_iff ha hb hsa hsb).mpr hlt; omega
      · have := (completeKey_none_lt_iff hb ha hsb hsa).mpr hlt; omega

theorem length_completeRow (row : List (Option Nat)) : (completeRow row).length = row.length := by
  simp [completeRow]

theorem getD_completeRow (row : List (Option Nat)) {j : Nat} (hj : j < row.length) :
    (completeRow row).getD j 0 = completeKey row j := by
  simp [completeRow, hj]

theorem completeRow_nodup {row : List (Option Nat)} (hs : StrictInc row) : (completeRow row).Nodup := by
  unfold completeRow
  rw [List.nodup_map_iff_inj_on List.nodup_range]
  intro a ha b hb h
  exact completeKey_inj hs (List.mem_range.mp ha) (List.mem_range.mp hb) h

/-- the completed row contains every rank `1..n` -/
theorem completeRow_contains {row : List (Option Nat)} (hs : StrictInc row) :
    ∀ r < row.length, r + 1 ∈ completeRow row := by
  have hnd := completeRow_nodup hs
  have hsub : completeRow row ⊆ (List.range row.length).map (· + 1) := by
    intro x hx
    unfold completeRow at hx
    obtain ⟨j, hj, rfl⟩ := List.mem_map.mp hx
    have hj' := List.mem_range.mp hj
    have h1 := completeKey_pos row j
    have h2 := completeKey_le row hj'
    exact List.mem_map.mpr ⟨completeKey row j - 1, List.mem_range.mpr (by omega), by omega⟩
  have hp := (List.subperm_of_subset hnd hsub).perm_of_length_le
    (by simp [length_completeRow])
  intro r hr
  exact hp.symm.subset (List.mem_map.mpr ⟨r, List.mem_range.mpr hr, rfl⟩)

end Eat

namespace Eat

/-! ### `argsort` with NaN last = `argsort` of the completed row -/

theorem mem_rankedInc (row : List (Option Nat)) (j : Nat) : j ∈ rankedInc row ↔ j < row.length := by
  unfold rankedInc
  rw [List.mem_append, mem_plistOfRow, List.mem_filter, List.mem_range]
  constructor
  · rintro (h | h) <;> exact h.1
  · intro h
    cases hs : row.getD j none with
    | none => exact Or.inr ⟨h, rfl⟩
    | some r => exact Or.inl ⟨h, rfl⟩

theorem rankedInc_nodup (row : List (Option Nat)) : (rankedInc row).Nodup := by
  unfold rankedInc
  rw [List.nodup_append]
  refine ⟨plistOfRow_nodup row, List.Nodup.sublist List.filter_sublist List.nodup_range, ?_⟩
  intro a ha b hb hab
  subst hab
  have h1 := ((mem_plistOfRow row a).mp ha).2
  have h2 := (List.mem_filter.mp hb).2
  cases hs : row.getD a none with
  | none => rw [hs] at h1; cases h1
  | some r => rw [hs] at h2; cases h2

/-- `np.argsort(row)` (NaN last, NaNs by index) is sorted by the ranks of the completed row -/
theorem rankedInc_sorted (row : List (Option Nat)) :
    (rankedInc row).Pairwise (fun a b => completeKey row a ≤ completeKey row b) := by
  unfold rankedInc
  rw [List.pairwise_append]
  refine ⟨?_, ?_, ?_⟩
  · refine List.Pairwise.imp_of_mem ?_ (plistOfRow_sorted row)
    intro a b ha hb hab
    obtain ⟨hal, has⟩ := (mem_plistOfRow row a).mp ha
    obtain ⟨hbl, hbs⟩ := (mem_plistOfRow row b).mp hb
    obtain ⟨r, hr⟩ := Option.isSome_iff_exists.mp has
    obtain ⟨r', hr'⟩ := Option.isSome_iff_exists.mp hbs
    have ka : keyOf row a = r := by unfold keyOf; rw [hr]; rfl
    have kb : keyOf row b = r' := by unfold keyOf; rw [hr']; rfl
    rw [ka, kb] at hab
    rw [completeKey_some hr, completeKey_some hr']
    have := countBelow_mono row hab
    omega
  · have hlt : ((List.range row.length).filter (fun j => (row.getD j none).isNone)).Pairwise (· < ·) :=
      List.Pairwise.sublist List.filter_sublist List.pairwise_lt_range
    refine List.Pairwise.imp_of_mem ?_ hlt
    intro a b ha hb hab
    obtain ⟨hal, han⟩ := List.mem_filter.mp ha
    obtain ⟨hbl, hbn⟩ := List.mem_filter.mp hb
    rw [Option.isNone_iff_eq_none] at han hbn
    have := (completeKey_none_lt_iff (List.mem_range.mp hal) (List.mem_range.mp hbl) han hbn).mpr hab
    omega
  · intro a ha b hb
    obtain ⟨hal, has⟩ := (mem_plistOfRow row a).mp ha
    obtain ⟨r, hr⟩ := Option.isSome_iff_exists.mp has
    obtain ⟨_, hbn⟩ := List.mem_filter.mp hb
    rw [Option.isNone_iff_eq_none] at hbn
    have := completeKey_some_lt_none hal hr hbn
    omega

theorem keyOf_completeRow (row : List (Option Nat)) {j : Nat} (hj : j < row.length) :
    keyOf ((completeRow row).map some) j = completeKey row j := by
  unfold keyOf completeRow
  simp [hj]

/-- **the mirror's `ranked_items` row is the complete model's row for the completed row** -/
theorem rankedInc_eq (row : List (Option Nat)) (hs : StrictInc row) :
    rankedInc row = rankedOf (completeRow row) := by
  have hmem : ∀ a, a ∈ rankedInc row ↔ a ∈ rankedOf (completeRow row) := by
    intro a
    rw [mem_rankedInc, mem_rankedOf, length_completeRow]
  have hperm : List.Perm (rankedInc row) (rankedOf (completeRow row)) :=
    (List.perm_ext_iff_of_nodup (rankedInc_nodup row) (plistOfRow_nodup _)).mpr hmem
  have hs2 : (rankedOf (completeRow row)).Pairwise (fun a b => completeKey row a ≤ completeKey row b) := by
    refine List.Pairwise.imp_of_mem ?_ (plistOfRow_sorted ((completeRow row).map some))
    intro a b ha hb hab
    have ha' : a < row.length := by
      have := (mem_rankedOf _ a).mp ha; rwa [length_completeRow] at this
    have hb' : b < row.length := by
      have := (mem_rankedOf _ b).mp hb; rwa [length_completeRow] at this
    rwa [keyOf_completeRow row ha', keyOf_completeRow row hb'] at hab
  refine List.Perm.eq_of_pairwise ?_ (rankedInc_sorted row) hs2 hperm
  intro a b ha hb h1 h2
  exact completeKey_inj hs ((mem_rankedInc row a).mp ha)
    (by have := (mem_rankedOf _ b).mp hb; rwa [length_completeRow] at this) (Nat.le_antisymm h1 h2)

/-! ### profiles -/

structure EatIncWf (n : Nat) (P : List (List (Option Nat))) (speeds : List Rat) : Prop where
  plen : P.length = n
  rows : ∀ row ∈ P, row.length = n ∧ StrictInc row
  slen : speeds.length = n
  spos : ∀ s ∈ speeds, 0 < s

theorem eatIncWfB_iff (n : Nat) (P : List (List (Option Nat))) (speeds : List Rat) :
    eatIncWfB n P speeds = true ↔ EatIncWf n P speeds := by
  simp only [eatIncWfB, Bool.and_eq_true, decide_eq_true_eq, List.all_eq_true, strictRowB_iff]
  constructor
  · rintro ⟨⟨⟨h1, h2⟩, h3⟩, h4⟩
    exact ⟨h1, h2, h3, h4⟩
  · rintro ⟨h1, h2, h3, h4⟩
    exact ⟨⟨⟨h1, h2⟩, h3⟩, h4⟩

/-- the completed profile is a well-formed COMPLETE instance -/
theorem eatWf_completeFirst {n : Nat} {P : List (List (Option Nat))} {speeds : List Rat}
    (h : EatIncWf n P speeds) : EatWf n (completeFirst P) speeds := by
  refine ⟨by simp [completeFirst, h.plen], ?_, h.slen, h.spos⟩
  intro crow hc
  unfold completeFirst at hc
  obtain ⟨row, hrow, rfl⟩ := List.mem_map.mp hc
  obtain ⟨hl, hs⟩ := h.rows row hrow
  refine ⟨by rw [length_completeRow, hl], ?_⟩
  intro r hr
  exact completeRow_contains hs r (by rw [hl]; exact hr)

theorem ranked_completeFirst {n : Nat} {P : List (List (Option Nat))} {speeds : List Rat}
    (h : EatIncWf n P speeds) : P.map rankedInc = (completeFirst P).map rankedOf := by
  unfold completeFirst
  rw [List.map_map]
  apply List.map_congr_left
  intro row hrow
  exact rankedInc_eq row (h.rows row hrow).2

theorem eatIncLog_eq {n : Nat} {P : List (List (Option Nat))} {speeds : List Rat}
    (h : EatIncWf n P speeds) : eatIncLog n P speeds = eatLog n (completeFirst P) speeds := by
  unfold eatIncLog eatLog
  rw [ranked_completeFirst h]

theorem eatInc_eq {n : Nat} {P : List (List (Option Nat))} {speeds : List Rat}
    (h : EatIncWf n P speeds) : eatInc n P speeds = eat n (completeFirst P) speeds := by
  unfold eatInc eat
  rw [eatIncLog_eq h]

end Eat
