import Sck.Proofs.LatticeI3

/-! # C03, package L8a, part 4: the level loop

One level (`for rotation in rotations: …` followed by the update of the men's lists) takes the invariant for `μ` to the
invariant for `μ` with all rotations of the level eliminated; the loop as a whole produces an elimination path from the
initial matching to a matching without exposed rotation (`levelLoop_spec`). -/

namespace SMLattice

open Irving IrvingAlgo

variable {n : ℕ}

theorem elimPath_append {P1 P2 : Fin n → Fin n → ℕ} : ∀ (A B : List (List (Fin n))) (μ κ ν : Equiv.Perm (Fin n)),
    ElimPath P1 P2 μ A κ → ElimPath P1 P2 κ B ν →
      ElimPath P1 P2 μ (A ++ B) ν ∧ pathPairs μ (A ++ B) = pathPairs μ A ++ pathPairs κ B := by
  intro A
  induction A with
  | nil =>
    intro B μ κ ν hA hB
    cases hA
    exact ⟨hB, rfl⟩
  | cons ρ A ih =>
    intro B μ κ ν hA hB
    obtain ⟨h1, h2⟩ := ih B (elim μ ρ) κ ν hA.2 hB
    refine ⟨⟨hA.1, h1⟩, ?_⟩
    simp only [List.cons_append, pathPairs, h2]

theorem rotPairs_elim_of_disjoint (μ : Equiv.Perm (Fin n)) {ρ σ : List (Fin n)} (hd : List.Disjoint ρ σ) :
    rotPairs (elim μ ρ) σ = rotPairs μ σ := by
  unfold rotPairs
  apply List.map_congr_left
  intro a ha
  unfold pr
  rw [elim_apply_of_notMem μ (fun h => hd h ha)]

/-- the rotations of one level, one after the other -/
theorem level_fold {P1 P2 : List (List Nat)} (h1 : ∀ a, Function.Injective (rk n P1 a)) :
    ∀ (ρs : List (List (Fin n))) (st : LvSt) (μ : Equiv.Perm (Fin n)),
      WInv n P2 st.l2 st.pm2 μ.symm → StableSM (rk n P1) (rk n P2) μ →
      (∀ ρ ∈ ρs, ExposedRot (rk n P1) (rk n P2) μ ρ) → ρs.Pairwise List.Disjoint →
      ∃ μ' : Equiv.Perm (Fin n), ElimPath (rk n P1) (rk n P2) μ ρs μ' ∧ pathPairs μ ρs = ρs.map (rotPairs μ) ∧
        StableSM (rk n P1) (rk n P2) μ' ∧
        WInv n P2 ((ρs.map (rotPairs μ)).foldl elimRot st).l2 ((ρs.map (rotPairs μ)).foldl elimRot st).pm2 μ'.symm ∧
        ((ρs.map (rotPairs μ)).foldl elimRot st).l1 = st.l1 ∧
        ∀ (w m : Nat), m ∈ ((ρs.map (rotPairs μ)).foldl elimRot st).l2.getD w [] → m ∈ st.l2.getD w [] := by
  intro ρs
  induction ρs with
  | nil =>
    intro st μ hW hμ _ _
    exact ⟨μ, rfl, rfl, hμ, hW, rfl, fun _ _ h => h⟩
  | cons ρ rest ih =>
    intro st μ hW hμ hex hdis
    have hexρ := hex ρ List.mem_cons_self
    obtain ⟨hd1, hd2⟩ := List.pairwise_cons.mp hdis
    obtain ⟨hst', hle', _⟩ := exposed_elim_stable h1 hμ hexρ
    obtain ⟨hW1, hl1, hsh1⟩ := elimRot_winv hW hexρ
    have hex' : ∀ σ ∈ rest, ExposedRot (rk n P1) (rk n P2) (elim μ ρ) σ := by
      intro σ hσ
      refine exposed_of_agree h1 hst' hle' (hex σ (List.mem_cons_of_mem _ hσ)) ?_
      intro a ha
      exact elim_apply_of_notMem μ (fun h => hd1 σ hσ h ha)
    have hmap : rest.map (rotPairs (elim μ ρ)) = rest.map (rotPairs μ) := by
      apply List.map_congr_left
      intro σ hσ
      exact rotPairs_elim_of_disjoint μ (hd1 σ hσ)
    obtain ⟨μ', hp, hpp, hst2, hW2, hl2, hsh2⟩ := ih (elimRot st (rotPairs μ ρ)) (elim μ ρ) hW1 hst' hex' hd2
    rw [hmap] at hpp hW2 hl2 hsh2
    refine ⟨μ', ⟨hexρ, hp⟩, ?_, hst2, ?_, ?_, ?_⟩
    · simp only [pathPairs, List.map_cons, hpp]
    · simpa only [List.map_cons, List.foldl_cons] using hW2
    · simp only [List.map_cons, List.foldl_cons]; exact hl2.trans hl1
    · intro w m h
      simp only [List.map_cons, List.foldl_cons] at h
      exact hsh1 w m (hsh2 w m h)

/-! ### the loop invariant as one predicate -/

end SMLattice

namespace IrvingAlgo

/-- the state `find_all_rotations_and_eliminations` starts from -/
def initLevel (l1 l2 : List (List Nat)) : LvSt :=
  { l1 := l1, l2 := l2,
    pm2 := (List.range l1.length).map (fun j => (List.range l1.length).map (fun i => (l2.getD j []).contains i)),
    elim := [], cnt := 0 }

/-- one pass through the body of `while True` (when some rotation is found): all rotations of the level are eliminated
in the women's lists, then the men's lists are brought up to date -/
def nextLevel (st : LvSt) : LvSt :=
  { (findRotations st.l1 st.l2).foldl elimRot st with
    l1 := (List.range ((findRotations st.l1 st.l2).foldl elimRot st).l1.length).map (fun i =>
      menUpdate ((findRotations st.l1 st.l2).foldl elimRot st).pm2 i
        (((findRotations st.l1 st.l2).foldl elimRot st).l1.getD i [])) }

theorem levelLoop_succ (fuel : Nat) (st : LvSt) (ans : List (List Irving.Pair)) :
    levelLoop (fuel + 1) st ans =
      if (findRotations st.l1 st.l2).isEmpty then some (ans, st.elim)
      else levelLoop fuel (nextLevel st) (ans ++ findRotations st.l1 st.l2) := rfl

theorem allRotations_eq (l1 l2 : List (List Nat)) :
    allRotations l1 l2 = levelLoop (l1.length * l1.length + 1) (initLevel l1 l2) [] := rfl

end IrvingAlgo

namespace SMLattice

open Irving IrvingAlgo

variable {n : ℕ}

/-- **the loop invariant of `find_all_rotations_and_eliminations`** for the state `st` at the start of a level and the
current matching `μ`: `μ` is stable; every woman's list is her preference order cut after her `μ`-partner and
`preference_matrix_2` is its indicator (`WInv`); every man's list is in his preference order, contains every woman who has
him on her list, and its first two entries are such women (`MInv`) -/
structure LevelInv (n : ℕ) (P1 P2 : List (List Nat)) (st : LvSt) (μ : Equiv.Perm (Fin n)) : Prop where
  women : WInv n P2 st.l2 st.pm2 μ.symm
  men : MInv n P1 st.l1 st.l2
  stable : StableSM (rk n P1) (rk n P2) μ

/-- **one level**: under the invariant, `find_rotations` returns the pairs forms of pairwise disjoint rotations exposed in
`μ`; they form an elimination path from `μ` to some `μ'`, and the invariant holds for the next state and `μ'` -/
theorem levelInv_step {P1 P2 : List (List Nat)} (h1 : ∀ a, Function.Injective (rk n P1 a))
    (h2 : ∀ b, Function.Injective (rk n P2 b)) {st : LvSt} {μ : Equiv.Perm (Fin n)} (inv : LevelInv n P1 P2 st μ) :
    ∃ (ρs : List (List (Fin n))) (μ' : Equiv.Perm (Fin n)),
      findRotations st.l1 st.l2 = ρs.map (rotPairs μ) ∧
      (∀ ρ ∈ ρs, ExposedRot (rk n P1) (rk n P2) μ ρ) ∧ ρs.Pairwise List.Disjoint ∧
      ElimPath (rk n P1) (rk n P2) μ ρs μ' ∧ pathPairs μ ρs = findRotations st.l1 st.l2 ∧
      LevelInv n P1 P2 (nextLevel st) μ' := by
  obtain ⟨hW, hM, hμ⟩ := inv
  obtain ⟨ρs0, hrots, hex0, hdis0⟩ := found_exposed hW hM h2 hμ
  obtain ⟨μ', hp0, hpp0, hst', hW', hl1', hsh'⟩ := level_fold h1 ρs0 st μ hW hμ hex0 hdis0
  have hM' := menUpdate_minv hM hW' hsh'
  refine ⟨ρs0, μ', hrots, hex0, hdis0, hp0, hpp0.trans hrots.symm, ?_⟩
  unfold nextLevel
  rw [hrots, hl1']
  exact ⟨hW', hM', hst'⟩

/-- **the last level**: under the invariant, if `find_rotations` finds nothing then no rotation is exposed in `μ` -/
theorem levelInv_final {P1 P2 : List (List Nat)} (h1 : ∀ a, Function.Injective (rk n P1 a))
    (h2 : ∀ b, Function.Injective (rk n P2 b)) {st : LvSt} {μ : Equiv.Perm (Fin n)} (inv : LevelInv n P1 P2 st μ)
    (hnil : findRotations st.l1 st.l2 = []) (ρ : List (Fin n)) : ¬ ExposedRot (rk n P1) (rk n P2) μ ρ :=
  none_exposed inv.women inv.men h1 h2 inv.stable hnil ρ

/-- **the level loop**: from a state satisfying the invariant for `μ`, the loop lists the pairs forms of an elimination
path from `μ` to a matching in which no rotation is exposed -/
theorem levelLoop_spec {P1 P2 : List (List Nat)} (h1 : ∀ a, Function.Injective (rk n P1 a))
    (h2 : ∀ b, Function.Injective (rk n P2 b)) :
    ∀ (fuel : Nat) (st : LvSt) (ans : List (List Pair)) (μ : Equiv.Perm (Fin n)) (all : List (List Pair))
      (elm : List (Pair × Nat)), LevelInv n P1 P2 st μ → levelLoop fuel st ans = some (all, elm) →
      ∃ (ρs : List (List (Fin n))) (νz : Equiv.Perm (Fin n)), ElimPath (rk n P1) (rk n P2) μ ρs νz ∧
        all = ans ++ pathPairs μ ρs ∧ ∀ ρ, ¬ ExposedRot (rk n P1) (rk n P2) νz ρ := by
  intro fuel
  induction fuel with
  | zero => intro st ans μ all elm _ h; simp [levelLoop] at h
  | succ fuel ih =>
    intro st ans μ all elm inv h
    rw [levelLoop_succ] at h
    split at h
    · rename_i hemp
      have hnil : findRotations st.l1 st.l2 = [] := List.isEmpty_iff.mp hemp
      obtain ⟨rfl, _⟩ := Prod.mk.inj (Option.some.inj h)
      exact ⟨[], μ, rfl, by simp [pathPairs], levelInv_final h1 h2 inv hnil⟩
    · obtain ⟨ρs0, μ', _, _, _, hp0, hpp0, inv'⟩ := levelInv_step h1 h2 inv
      obtain ⟨ρs1, νz, hp1, hall, hterm⟩ := ih _ _ μ' all elm inv' h
      obtain ⟨hp, hpp⟩ := elimPath_append ρs0 ρs1 μ μ' νz hp0 hp1
      refine ⟨ρs0 ++ ρs1, νz, hp, ?_, hterm⟩
      rw [hall, hpp, hpp0, List.append_assoc]

end SMLattice

#print axioms SMLattice.levelLoop_spec
