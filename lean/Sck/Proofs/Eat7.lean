import Sck.Proofs.Eat6

/-! C05: the fuel-bounded loop terminates; executions as a `Run` relation; bistochasticity. -/

open Finset

namespace Eat

variable {n : Nat} {ranked : List (List Nat)} {speeds : List Rat}

/-- the ghost event recorded for state `st` and step `t` -/
def mkEvent (n : Nat) (ranked : List (List Nat)) (st : State) (t : Rat) : Event :=
  { t := t, cur := (List.range n).map (curItem ranked st) }

theorem step_eq_some {st : State} {t : Rat} (ht : stepTime n ranked speeds st = some t) :
    step n ranked speeds st = some (mkEvent n ranked st t, applyT n ranked speeds st t) := by
  unfold step
  rw [ht]
  rfl

/-- executions of the loop: from `st`, the events `evs` are executed and the loop exits in `stf` -/
inductive Run (n : Nat) (ranked : List (List Nat)) (speeds : List Rat) : State → List Event → State → Prop
  | done (st : State) : CI n ranked st → exitNow st = true → Run n ranked speeds st [] st
  | next (st : State) (t : Rat) (evs : List Event) (stf : State) :
      CI n ranked st → exitNow st = false → stepTime n ranked speeds st = some t →
      AdmC n ranked speeds st t →
      Run n ranked speeds (applyT n ranked speeds st t) evs stf →
      Run n ranked speeds st (mkEvent n ranked st t :: evs) stf

theorem eatLoop_run (hr : RankedOK n ranked) (hs : ∀ i < n, 0 < spd speeds i) :
    ∀ (fuel : Nat) (st : State), CI n ranked st → mu n st < fuel →
      ∃ evs stf, eatLoop n ranked speeds fuel st = some (stf.mat, evs) ∧ Run n ranked speeds st evs stf := by
  intro fuel
  induction fuel with
  | zero => intro st _ hmu; omega
  | succ fuel ih =>
    intro st h hmu
    unfold eatLoop
    by_cases hx : exitNow st = true
    · rw [if_pos hx]
      exact ⟨[], st, rfl, Run.done st h hx⟩
    · rw [if_neg hx]
      simp only [Bool.not_eq_true] at hx
      obtain ⟨t, ht, ha, hw⟩ := stepTime_spec hs h hx
      have hci := applyT_CI hr hs h hx t ha
      have hlt := mu_applyT_lt (n := n) (ranked := ranked) (speeds := speeds) (st := st) t hw
      obtain ⟨evs, stf, he, hrun⟩ := ih _ hci (by omega)
      refine ⟨mkEvent n ranked st t :: evs, stf, ?_, Run.next st t evs stf h hx ht ha hrun⟩
      rw [step_eq_some ht]
      simp only
      rw [he]

theorem Run.final {st stf : State} {evs : List Event} (h : Run n ranked speeds st evs stf) :
    CI n ranked stf ∧ exitNow stf = true := by
  induction h with
  | done st h hx => exact ⟨h, hx⟩
  | next st t evs stf _ _ _ _ _ ih => exact ih

/-! ### the initial state -/

theorem init_CI (hr : RankedOK n ranked) : CI n ranked (init n) := by
  refine ⟨by simp [init], by simp [init], ?_, ?_, ?_, ?_, ?_, ?_⟩
  · show (init n).mat = _
    have : (init n).mat = (List.range n).map (fun _ => (List.range n).map (fun _ => (0 : Rat))) := rfl
    rw [this]
    apply List.map_congr_left
    intro i hi
    apply List.map_congr_left
    intro j hj
    rw [mget_mk n (fun _ _ => (0 : Rat)) i j (List.mem_range.mp hi) (List.mem_range.mp hj)]
  · intro j r hjr
    have hj : j < n := by have := lk_eq_some_lt _ _ _ hjr; simpa [init] using this
    have : lk (init n).rem j = some 1 := lk_mk n _ j hj
    rw [this] at hjr
    cases hjr; exact zero_lt_one
  · intro i e hie
    have hi : i < n := by have := lk_eq_some_lt _ _ _ hie; simpa [init] using this
    have : lk (init n).eaten i = some 0 := lk_mk n _ i hi
    rw [this] at hie
    cases hie; exact zero_lt_one
  · intro i p hp
    have hi : i < n := by have := lk_eq_some_lt _ _ _ hp; simpa [init] using this
    have : lk (init n).pos i = some 0 := lk_mk n _ i hi
    rw [this] at hp
    cases hp
    refine ⟨fun q hq => by omega, ?_, ?_⟩
    · have hl : 0 < (ranked.getD i []).length := by rw [hr.len i hi]; omega
      refine ⟨(ranked.getD i [])[0], List.getElem?_eq_getElem hl, ?_⟩
      have hj : (ranked.getD i [])[0] < n := (hr.mem i hi _).mp (List.getElem_mem hl)
      have : lk (init n).rem (ranked.getD i [])[0] = some 1 := lk_mk n _ _ hj
      rw [this]; rfl
    · have : lk (init n).eaten i = some 0 := lk_mk n _ i hi
      rw [this]; rfl
  · intro i hi hp
    have : lk (init n).pos i = some 0 := lk_mk n _ i hi
    rw [this] at hp; cases hp
  · have hrem : ∀ j : Fin n, (absSt n (init n)).rem j = 1 := by
      intro j
      have : lk (init n).rem j.val = some 1 := lk_mk n _ j.val j.isLt
      simp [absSt, this]
    have heat : ∀ i : Fin n, (absSt n (init n)).eaten i = 0 := by
      intro i
      have : lk (init n).eaten i.val = some 0 := lk_mk n _ i.val i.isLt
      simp [absSt, this]
    have hX : ∀ i j : Fin n, (absSt n (init n)).X i j = 0 := by
      intro i j
      exact mget_mk n (fun _ _ => (0 : Rat)) i.val j.val i.isLt j.isLt
    refine ⟨?_, ?_, ?_, ?_, ?_⟩
    · intro i; rw [heat i]; simp [hX]
    · intro j; rw [hrem j]; simp [hX]
    · intro j; rw [hrem j]; exact zero_le_one
    · intro i; rw [heat i]; exact zero_le_one
    · intro i j; rw [hX i j]

theorem mu_init_le (n : Nat) : mu n (init n) < 2 * n + 1 := by
  unfold mu
  have h1 := Finset.card_filter_le (Finset.range n) (fun j => (lk (init n).rem j).isSome = true)
  have h2 := Finset.card_filter_le (Finset.range n) (fun i => (lk (init n).eaten i).isSome = true)
  rw [Finset.card_range] at h1 h2
  omega

/-! ### the final state is bistochastic -/

theorem final_cur_none (hr : RankedOK n ranked) {st : State} (h : CI n ranked st)
    (hx : exitNow st = true) (i : Fin n) : cur (order n ranked) (absSt n st) i = none := by
  unfold exitNow at hx
  rw [Bool.or_eq_true] at hx
  have hc : curItem ranked st i.val = none := by
    rw [curItem_spec hr h i.val i.isLt]
    rcases hx with hx | hx
    · rw [all_isNone_iff _ n h.rem_len] at hx
      have : (ranked.getD i.val []).find? (fun j => (lk st.rem j).isSome) = none := by
        rw [List.find?_eq_none]
        intro x hxm
        have := hx x ((hr.mem i.val i.isLt x).mp hxm)
        simp [this]
      rw [this]; simp
    · rw [List.all_eq_true] at hx
      have hil : i.val < st.eaten.length := by rw [h.eaten_len]; exact i.isLt
      have hm := hx _ (List.getElem_mem hil)
      cases hl : st.eaten[i.val] with
      | none => rw [hl] at hm; cases hm
      | some e =>
        rw [hl] at hm
        have h1 : (1 : Rat) ≤ e := by simpa using hm
        have hlk : lk st.eaten i.val = some e := by simp [lk, hil, hl]
        have := h.eaten_lt _ _ hlk
        exact absurd h1 (not_le.mpr this)
  have := cur_abs hr h i
  rw [hc] at this
  cases hcc : cur (order n ranked) (absSt n st) i with
  | none => rfl
  | some j => rw [hcc] at this; cases this

theorem final_sums (hr : RankedOK n ranked) {st : State} (h : CI n ranked st)
    (hx : exitNow st = true) :
    (∀ i < n, ∑ j ∈ Finset.range n, mget st.mat i j = 1) ∧
    (∀ j < n, ∑ i ∈ Finset.range n, mget st.mat i j = 1) := by
  obtain ⟨h1, h2⟩ := final_bistochastic (order n ranked) (order_complete hr) (absSt n st) h.inv
    (final_cur_none hr h hx)
  constructor
  · intro i hi
    rw [Finset.sum_range]
    exact h1 ⟨i, hi⟩
  · intro j hj
    rw [Finset.sum_range]
    exact h2 ⟨j, hj⟩

end Eat
