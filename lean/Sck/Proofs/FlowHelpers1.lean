import Sck.Proofs.Dfs6
import Sck.Model.FlowHelpers

/-! C08 helpers, part 1: `reachable_vertices` (`FH.reachable`).  The answer is exactly the set of vertices
reachable from the start vertex along entries of positive capacity (`Dfs.Reach`); `KeyError` iff one of those
vertices is not a key; the fuel always suffices; on a state that represents a flow `f` of a network it is the
model's `reach N f` (hence the cut returned by the model's `ff`). -/

open Finset

namespace FH

open Dfs

theorem Reach.trans {G : Graph} {u v w : Int} (h1 : Reach G u v) (h2 : Reach G v w) : Reach G u w := by
  induction h1 with
  | refl u => exact h2
  | step hm hc _ ih => exact Reach.step hm hc (ih h2)

theorem Reach.snoc {G : Graph} {u v w c : Int} (h1 : Reach G u v) (hm : (w, c) ∈ adj G v) (hc : 0 < c) :
    Reach G u w :=
  Reach.trans h1 (Reach.step hm hc (Reach.refl w))

/-- a successful run of the mirror with `KeyError` is a run of the `KeyError`-free worklist of
`Sck/Model/Dfs.lean` with the same answer; every vertex it adds is a key, and no vertex is added twice -/
theorem reachLoop_sim (G : Graph) :
    ∀ (k : Nat) (fr ans S : List Int), reachLoop G k fr ans = .ok S →
      Dfs.reachLoop G k fr ans = some S ∧ (∀ x ∈ S, x ∈ ans ∨ x ∈ keys G) ∧ (ans.Nodup → S.Nodup) := by
  intro k
  induction k with
  | zero => intro fr ans S h; simp [reachLoop] at h
  | succ k ih =>
    intro fr ans S h
    cases fr with
    | nil =>
      simp only [reachLoop, Except.ok.injEq] at h
      subst h
      exact ⟨rfl, fun x hx => Or.inl hx, fun h => h⟩
    | cons x fr =>
      simp only [reachLoop] at h
      simp only [Dfs.reachLoop]
      by_cases hx : ans.contains x = true
      · rw [if_pos hx] at h
        rw [if_pos hx]
        exact ih fr ans S h
      · rw [if_neg hx] at h
        rw [if_neg hx]
        cases hl : adj? G x with
        | none => rw [hl] at h; simp at h
        | some l =>
          rw [hl] at h
          simp only at h
          rw [adj_of_adj? hl]
          obtain ⟨h1, h2, h3⟩ := ih _ _ S h
          have hxk : x ∈ keys G := (adj?_isSome_iff G x).mp (by rw [hl]; rfl)
          refine ⟨h1, ?_, ?_⟩
          · intro y hy
            rcases h2 y hy with h' | h'
            · rcases List.mem_cons.mp h' with rfl | h''
              · exact Or.inr hxk
              · exact Or.inl h''
            · exact Or.inr h'
          · intro hnd
            apply h3
            exact List.nodup_cons.mpr ⟨fun hm => hx (List.contains_iff_mem.mpr hm), hnd⟩

/-- the loop never runs out of the fuel: it answers, or it raises `KeyError` -/
theorem reachLoop_no_fuel (G : Graph) :
    ∀ (k : Nat) (fr ans : List Int), fr.length + wt ans G < k →
      (∃ S, reachLoop G k fr ans = .ok S) ∨ reachLoop G k fr ans = .error "KeyError" := by
  intro k
  induction k with
  | zero => intro fr ans h; exact absurd h (Nat.not_lt_zero _)
  | succ k ih =>
    intro fr ans hlt
    cases fr with
    | nil => exact Or.inl ⟨ans, rfl⟩
    | cons x fr =>
      simp only [reachLoop]
      simp only [List.length_cons] at hlt
      by_cases hx : ans.contains x = true
      · rw [if_pos hx]
        exact ih fr ans (by omega)
      · rw [if_neg hx]
        cases hl : adj? G x with
        | none => exact Or.inr rfl
        | some l =>
          simp only
          have hxk : x ∈ keys G := (adj?_isSome_iff G x).mp (by rw [hl]; rfl)
          have hxa : x ∉ ans := fun h => hx (List.contains_iff_mem.mpr h)
          have hdrop := wt_drop x ans G hxk hxa
          rw [adj_of_adj? hl] at hdrop
          have hlen : ((l.filter (fun e => decide (0 < e.2))).map (·.1)).length ≤ l.length := by
            rw [List.length_map]; exact List.length_filter_le _ _
          apply ih
          rw [List.length_append]; omega

/-- a `KeyError` is caused by a vertex that is reachable from the frontier and is not a key -/
theorem reachLoop_keyError (G : Graph) (s : Int) :
    ∀ (k : Nat) (fr ans : List Int), (∀ y ∈ fr, Reach G s y) → reachLoop G k fr ans = .error "KeyError" →
      ∃ x, Reach G s x ∧ x ∉ keys G := by
  intro k
  induction k with
  | zero => intro fr ans _ h; simp [reachLoop] at h
  | succ k ih =>
    intro fr ans hfr h
    cases fr with
    | nil => simp [reachLoop] at h
    | cons x fr =>
      simp only [reachLoop] at h
      have hfr' : ∀ y ∈ fr, Reach G s y := fun y hy => hfr y (List.mem_cons_of_mem _ hy)
      have hx' : Reach G s x := hfr x List.mem_cons_self
      by_cases hx : ans.contains x = true
      · rw [if_pos hx] at h
        exact ih fr ans hfr' h
      · rw [if_neg hx] at h
        cases hl : adj? G x with
        | none =>
          refine ⟨x, hx', fun hk => ?_⟩
          have := (adj?_isSome_iff G x).mpr hk
          rw [hl] at this; simp at this
        | some l =>
          rw [hl] at h
          simp only at h
          apply ih _ _ _ h
          intro y hy
          rcases List.mem_append.mp hy with hy | hy
          · obtain ⟨e, he, rfl⟩ := List.mem_map.mp hy
            obtain ⟨he1, he2⟩ := List.mem_filter.mp he
            have hpos : 0 < e.2 := by simpa using he2
            exact Reach.snoc hx' (c := e.2) (by rw [adj_of_adj? hl]; exact he1) hpos
          · exact hfr' y hy

theorem reachable_no_fuel (G : Graph) (s : Int) :
    (∃ S, reachable G s = .ok S) ∨ reachable G s = .error "KeyError" := by
  apply reachLoop_no_fuel
  rw [wt_nil]; simp [reachFuel]

/-- **soundness and completeness of an answer**: the returned list has no repetition, consists of keys, and
contains exactly the vertices reachable from `s` along entries of positive capacity -/
theorem reachable_ok_spec (G : Graph) (s : Int) (S : List Int) (h : reachable G s = .ok S) :
    (∀ x, x ∈ S ↔ Reach G s x) ∧ S.Nodup ∧ (∀ x ∈ S, x ∈ keys G) ∧ Dfs.reachable G s = some S := by
  obtain ⟨h1, h2, h3⟩ := reachLoop_sim G _ [s] [] S h
  obtain ⟨hs, hcl, hr⟩ := Dfs.reachable_spec G s S h1
  refine ⟨fun x => ⟨hr x, fun hx => Reach.closed hcl hx hs⟩, h3 List.nodup_nil, ?_, h1⟩
  intro x hx
  rcases h2 x hx with h' | h'
  · simp at h'
  · exact h'

/-- **when does it answer**: iff every vertex reachable from `s` (including `s`) is a key -/
theorem reachable_ok_iff (G : Graph) (s : Int) :
    (∃ S, reachable G s = .ok S) ↔ ∀ x, Reach G s x → x ∈ keys G := by
  constructor
  · rintro ⟨S, h⟩ x hx
    obtain ⟨h1, _, h3, _⟩ := reachable_ok_spec G s S h
    exact h3 x ((h1 x).mpr hx)
  · intro hall
    rcases reachable_no_fuel G s with h | h
    · exact h
    · exfalso
      obtain ⟨x, hx, hnk⟩ := reachLoop_keyError G s _ [s] [] (by
        intro y hy
        simp only [List.mem_singleton] at hy
        subst hy; exact Reach.refl _) h
      exact hnk (hall x hx)

/-- **when does it raise**: `KeyError` iff some vertex reachable from `s` is not a key; no other failure -/
theorem reachable_err_iff (G : Graph) (s : Int) :
    reachable G s = .error "KeyError" ↔ ∃ x, Reach G s x ∧ x ∉ keys G := by
  constructor
  · intro h
    by_contra hno
    have hall : ∀ x, Reach G s x → x ∈ keys G := by
      intro x hx
      by_contra hk
      exact hno ⟨x, hx, hk⟩
    obtain ⟨S, hS⟩ := (reachable_ok_iff G s).mpr hall
    rw [hS] at h; simp at h
  · rintro ⟨x, hx, hk⟩
    rcases reachable_no_fuel G s with ⟨S, h⟩ | h
    · exact absurd ((reachable_ok_iff G s).mp ⟨S, h⟩ x hx) hk
    · exact h

/-- in a graph all of whose neighbours are keys, started at a key, the mirror and the worklist of
`Sck/Model/Dfs.lean` (the one inside `ffDfs`) return the same list -/
theorem reachable_eq_dfs (G : Graph) (hk : NbrsKeys G) (s : Int) (hs : s ∈ keys G) (S : List Int) :
    reachable G s = .ok S ↔ Dfs.reachable G s = some S := by
  constructor
  · intro h; exact (reachable_ok_spec G s S h).2.2.2
  · intro h
    have key : ∀ u x, Reach G u x → u ∈ keys G → x ∈ keys G := by
      intro u x hx
      induction hx with
      | refl u => exact fun h => h
      | step hm _ _ ih => exact fun _ => ih (hk _ _ _ hm)
    obtain ⟨S', hS'⟩ := (reachable_ok_iff G s).mpr (fun x hx => key s x hx hs)
    have := (reachable_ok_spec G s S' hS').2.2.2
    rw [h] at this
    simp only [Option.some.injEq] at this
    rw [this]; exact hS'

/-! ### on a state that represents a flow: the model's `reach` -/

/-- the model's search (`Sck/Model/Flow.lean`) finds exactly the residual-reachable vertices -/
theorem mem_reach_iff (N : Net) (hs : N.s ∈ N.verts) (Gf : Graph) (fl : FlowDict) (f : Flow)
    (h : Repr N Gf fl f) (v : Int) : v ∈ reach N f ↔ Reach Gf N.s v := by
  constructor
  · revert v
    apply reach_induction N f (fun v => Reach Gf N.s v) (Reach.refl _)
    intro u v hu hv hpos
    by_cases hex : ∃ c, (v, c) ∈ adj Gf u
    · obtain ⟨c, hc⟩ := hex
      have hceq := (h.ent u v c hc).2
      exact Reach.snoc hu hc (by unfold resid at hpos; omega)
    · have := h.noEnt u v (fun c hc => hex ⟨c, hc⟩)
      unfold resid at hpos
      omega
  · intro hr
    have hC := FlowTotal.reachP_closed N f hs
    have hsm : N.s ∈ reach N f := (FlowTotal.goodR_reachP N f).s_mem
    have key : ∀ u w, Reach Gf u w → u ∈ reach N f → w ∈ reach N f := by
      intro u w hr
      induction hr with
      | refl u => exact fun h => h
      | @step u v c w hm hc _ ih =>
        intro hu
        apply ih
        obtain ⟨hvV, hceq⟩ := h.ent u v c hm
        exact hC u hu v hvV (by unfold resid; omega)
    exact key _ _ hr hsm

/-- **on a state that represents a flow `f` of a well-formed network** `reachable_vertices(G_f, s)` raises
nothing and returns (as a set) the model's `reach N f` -/
theorem reachable_repr (N : Net) (hwf : N.WF') (Gf : Graph) (fl : FlowDict) (f : Flow) (h : Repr N Gf fl f) :
    ∃ S, reachable Gf N.s = .ok S ∧ S.Nodup ∧ ∀ v, v ∈ S ↔ v ∈ reach N f := by
  have hsk : N.s ∈ keys Gf := by rw [h.keys]; exact hwf.s_mem
  have key : ∀ u x, Reach Gf u x → u ∈ keys Gf → x ∈ keys Gf := by
    intro u x hx
    induction hx with
    | refl u => exact fun h => h
    | step hm _ _ ih => exact fun _ => ih (h.nbrsKeys _ _ _ hm)
  obtain ⟨S, hS⟩ := (reachable_ok_iff Gf N.s).mpr (fun x hx => key N.s x hx hsk)
  obtain ⟨h1, h2, _, _⟩ := reachable_ok_spec Gf N.s S hS
  exact ⟨S, hS, h2, fun v => (h1 v).trans (mem_reach_iff N hwf.s_mem Gf fl f h v).symm⟩

/-- … in particular on the state of the model's own final flow it is the cut returned by `ff` -/
theorem reachable_eq_ff_cut (N : Net) (hwf : N.WF') (fuel : Nat) (f : Flow) (S' : List Int)
    (hff : ff N fuel = .ok (f, S')) (Gf : Graph) (fl : FlowDict) (h : Repr N Gf fl f) :
    ∃ S, reachable Gf N.s = .ok S ∧ S.Nodup ∧ ∀ v, v ∈ S ↔ v ∈ S' := by
  rw [ff_cut_eq_reach N fuel f S' hff]
  exact reachable_repr N hwf Gf fl f h

/-- **for ANY flow on whose residual graph the sink is not reachable** (the exit condition of the `while`
loop of `ford_fulkerson`), the answer is a minimum cut, tight with the flow, and equal as a set to the cut of
the model's `ff` (both are the inclusion-least minimum cut) -/
theorem reachable_eq_cut (N : Net) (hwf : N.WF') (Gf : Graph) (fl : FlowDict) (f : Flow) (h : Repr N Gf fl f)
    (hf : IsFlow N.verts.toFinset N.cap N.s N.t f) (S : List Int) (hS : reachable Gf N.s = .ok S)
    (ht : N.t ∉ S) :
    flowValue N.verts.toFinset N.s f = cutCap N.verts.toFinset N.cap S.toFinset ∧
    ∀ (fuel : Nat) (f' : Flow) (S' : List Int), ff N fuel = .ok (f', S') → ∀ v, v ∈ S ↔ v ∈ S' := by
  obtain ⟨S0, hS0, _, hmem⟩ := reachable_repr N hwf Gf fl f h
  rw [hS] at hS0
  simp only [Except.ok.injEq] at hS0
  subst hS0
  have hsV : N.s ∈ N.verts := hwf.s_mem
  have hG := FlowTotal.goodR_reachP N f
  have hC := FlowTotal.reachP_closed N f hsV
  have hsS : N.s ∈ S := (hmem _).mpr hG.s_mem
  have hsub : ∀ v ∈ S, v ∈ N.verts := fun v hv => hG.keys_sub hsV v ((hmem v).mp hv)
  have hST : S.toFinset ⊆ N.verts.toFinset :=
    fun v hv => List.mem_toFinset.mpr (hsub v (List.mem_toFinset.mp hv))
  have htight : flowValue N.verts.toFinset N.s f = cutCap N.verts.toFinset N.cap S.toFinset := by
    apply closed_cut_tight N.verts.toFinset N.cap N.s N.t f hf S.toFinset hST
      (List.mem_toFinset.mpr hsS) (fun hm => ht (List.mem_toFinset.mp hm))
    intro u hu v hv hvS
    by_contra hpos
    apply hvS
    rw [List.mem_toFinset] at hu ⊢
    exact (hmem v).mpr (hC u ((hmem u).mp hu) v (List.mem_toFinset.mp hv) (by unfold resid; omega))
  refine ⟨htight, ?_⟩
  intro fuel f' S' hff v
  obtain ⟨hf', hs', ht', hsub', hval'⟩ := ff_correct N hwf.toWF fuel f' S' hff
  have hST' : S'.toFinset ⊆ N.verts.toFinset :=
    fun v hv => List.mem_toFinset.mpr (hsub' v (List.mem_toFinset.mp hv))
  constructor
  · intro hv
    -- `S` is inside the source side of every cut that is tight with `f`; `S'` is one (both values are maximal)
    have hle := flow_le_cut N.verts.toFinset N.cap N.s N.t f hf S'.toFinset hST'
      (List.mem_toFinset.mpr hs') (fun hm => ht' (List.mem_toFinset.mp hm))
    have hle' := flow_le_cut N.verts.toFinset N.cap N.s N.t f' hf' S.toFinset hST
      (List.mem_toFinset.mpr hsS) (fun hm => ht (List.mem_toFinset.mp hm))
    have heq : flowValue N.verts.toFinset N.s f = cutCap N.verts.toFinset N.cap S'.toFinset := by omega
    have hsat := tight_saturated N.verts.toFinset N.cap N.s N.t f hf S'.toFinset hST'
      (List.mem_toFinset.mpr hs') (fun hm => ht' (List.mem_toFinset.mp hm)) heq
    have : ∀ w ∈ reach N f, w ∈ S'.toFinset := by
      apply reach_induction N f (fun w => w ∈ S'.toFinset) (List.mem_toFinset.mpr hs')
      intro u w hu hw hpos
      by_contra hwT
      have := hsat u hu w (List.mem_toFinset.mpr hw) hwT
      unfold resid at hpos
      omega
    exact List.mem_toFinset.mp (this v ((hmem v).mp hv))
  · intro hv
    have := ff_cut_minimal N hwf.toWF fuel f' S' hff S.toFinset hST (List.mem_toFinset.mpr hsS)
      (fun hm => ht (List.mem_toFinset.mp hm))
      (fun T' hT' hsT' htT' => by
        rw [← htight]; exact flow_le_cut N.verts.toFinset N.cap N.s N.t f hf T' hT' hsT' htT') v hv
    exact List.mem_toFinset.mp this

end FH
