import Sck.Proofs.Flow2

open Finset

variable {ι : Type} [DecidableEq ι]

theorem mem_tail_iff_of_nodup {path : List ι} {s x : ι} (hnd : path.Nodup) (hh : path.head? = some s) :
    x ∈ path.tail ↔ x ∈ path ∧ x ≠ s := by
  cases path with
  | nil => simp at hh
  | cons a rest =>
    simp at hh; subst hh
    have ha : a ∉ rest := (List.nodup_cons.mp hnd).1
    simp only [List.tail_cons, List.mem_cons]
    constructor
    · intro h; exact ⟨Or.inr h, fun he => ha (he ▸ h)⟩
    · rintro ⟨h | h, hne⟩
      · exact absurd h hne
      · exact h

theorem mem_dropLast_iff_of_nodup {path : List ι} {t x : ι} (hnd : path.Nodup) (hl : path.getLast? = some t) :
    x ∈ path.dropLast ↔ x ∈ path ∧ x ≠ t := by
  have hsplit : path = path.dropLast ++ [t] := by
    have := List.dropLast_append_getLast? t hl
    exact this.symm
  have hnd' : (path.dropLast ++ [t]).Nodup := hsplit ▸ hnd
  have ht : t ∉ path.dropLast := by
    intro h
    have := (List.nodup_append.mp hnd').2.2 t h t (by simp)
    exact this rfl
  constructor
  · intro h
    exact ⟨List.dropLast_subset _ h, fun he => ht (he ▸ h)⟩
  · rintro ⟨h, hne⟩
    rw [hsplit] at h
    simp at h
    rcases h with h | h
    · exact h
    · exact absurd h hne

theorem augPath_isFlow (V : Finset ι) (cap : ι → ι → ℤ) (s t : ι) (f : ι → ι → ℤ)
    (hf : IsFlow V cap s t f) (path : List ι) (hnd : path.Nodup) (hV : ∀ v ∈ path, v ∈ V)
    (hhead : path.head? = some s) (hlast : path.getLast? = some t) (hst : s ≠ t)
    (c : ℤ) (hc : 0 ≤ c) (hres : ∀ e ∈ pairs path, c ≤ cap e.1 e.2 - f e.1 e.2) :
    IsFlow V cap s t (augPath f path c) ∧
    flowValue V s (augPath f path c) = flowValue V s f + c := by
  have hsum : ∀ x, ∑ b ∈ V, augPath f path c x b =
      ∑ b ∈ V, f x b + (if x ∈ path.dropLast then c else 0) - (if x ∈ path.tail then c else 0) := by
    intro x
    simp only [augPath, sum_sub_distrib, sum_add_distrib]
    rw [out_count V path hnd hV x c, in_count V path hnd hV x c]
  refine ⟨⟨?_, ?_, ?_⟩, ?_⟩
  · intro a b
    simp only [augPath]
    rw [hf.skew a b]; split <;> split <;> omega
  · intro a b
    simp only [augPath]
    have hle := hf.le_cap a b
    by_cases hab : (a, b) ∈ pairs path
    · have := hres (a, b) hab
      simp only [hab, if_true]
      split <;> simp at this ⊢ <;> omega
    · simp only [hab, if_false]
      split <;> omega
  · intro x hx hxs hxt
    rw [hsum x, hf.conserve x hx hxs hxt]
    have h1 := mem_dropLast_iff_of_nodup (x := x) hnd hlast
    have h2 := mem_tail_iff_of_nodup (x := x) hnd hhead
    by_cases hxp : x ∈ path
    · have hd : x ∈ path.dropLast := h1.mpr ⟨hxp, hxt⟩
      have ht' : x ∈ path.tail := h2.mpr ⟨hxp, hxs⟩
      simp [hd, ht']
    · have hd : x ∉ path.dropLast := fun h => hxp (h1.mp h).1
      have ht' : x ∉ path.tail := fun h => hxp (h2.mp h).1
      simp [hd, ht']
  · unfold flowValue
    rw [hsum s]
    have hsp : s ∈ path := List.mem_of_mem_head? hhead
    have hd : s ∈ path.dropLast := (mem_dropLast_iff_of_nodup hnd hlast).mpr ⟨hsp, hst⟩
    have ht' : s ∉ path.tail := fun h => ((mem_tail_iff_of_nodup hnd hhead).mp h).2 rfl
    simp [hd, ht']

#print axioms augPath_isFlow
