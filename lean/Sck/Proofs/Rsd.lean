import Sck.Model.Rsd

/-! C07 (first half): the executable serial dictatorship `rsd` really is "agents pick their best remaining
acceptable item one after another". Core-only proofs. -/

/-! ### argmin -/

theorem argminRank_none (l : List (Nat × Nat)) : argminRank l = none ↔ l = [] := by
  cases l with
  | nil => simp [argminRank]
  | cons c cs =>
    simp only [argminRank, reduceCtorEq, iff_false]
    split
    · simp
    · split <;> simp

theorem argminRank_spec (l : List (Nat × Nat)) (c : Nat × Nat) (h : argminRank l = some c) :
    c ∈ l ∧ ∀ c' ∈ l, c.2 ≤ c'.2 := by
  induction l generalizing c with
  | nil => simp [argminRank] at h
  | cons d cs ih =>
    simp only [argminRank] at h
    split at h
    · rename_i hnone
      simp only [Option.some.injEq] at h
      subst h
      rw [(argminRank_none cs).mp hnone]
      simp
    · rename_i b hb
      obtain ⟨hb1, hb2⟩ := ih b hb
      split at h
      · rename_i hlt
        simp only [Option.some.injEq] at h
        subst h
        refine ⟨List.mem_cons_of_mem _ hb1, ?_⟩
        intro c' hc'
        rcases List.mem_cons.mp hc' with rfl | hc'
        · omega
        · exact hb2 c' hc'
      · rename_i hnlt
        simp only [Option.some.injEq] at h
        subst h
        refine ⟨List.mem_cons_self, ?_⟩
        intro c' hc'
        rcases List.mem_cons.mp hc' with rfl | hc'
        · omega
        · have := hb2 c' hc'; omega

/-- ties are broken towards the first candidate (`np.nanargmin` returns the first index among equal minima) -/
theorem argminRank_first (l : List (Nat × Nat)) (hp : l.Pairwise (fun x y => x.1 < y.1)) (c : Nat × Nat)
    (h : argminRank l = some c) : ∀ c' ∈ l, c'.2 = c.2 → c.1 ≤ c'.1 := by
  induction l generalizing c with
  | nil => simp [argminRank] at h
  | cons d cs ih =>
    rw [List.pairwise_cons] at hp
    simp only [argminRank] at h
    split at h
    · rename_i hnone
      simp only [Option.some.injEq] at h
      subst h
      rw [(argminRank_none cs).mp hnone]
      simp
    · rename_i b hb
      split at h
      · rename_i hlt
        simp only [Option.some.injEq] at h
        subst h
        intro c' hc' heq
        rcases List.mem_cons.mp hc' with rfl | hc'
        · omega
        · exact ih hp.2 b hb c' hc' heq
      · simp only [Option.some.injEq] at h
        subst h
        intro c' hc' _
        rcases List.mem_cons.mp hc' with rfl | hc'
        · omega
        · exact Nat.le_of_lt (hp.1 c' hc')

/-! ### candidates and the best item -/

theorem getD_none_eq_some (row : List (Option Nat)) (j r : Nat) :
    row.getD j none = some r ↔ row[j]? = some (some r) := by
  rw [List.getD_eq_getElem?_getD]
  cases h : row[j]? with
  | none => simp
  | some o => simp

theorem mem_rsdCands (row : List (Option Nat)) (taken : List Nat) (j r : Nat) :
    (j, r) ∈ rsdCands row taken ↔ j ∉ taken ∧ row.getD j none = some r := by
  simp only [rsdCands, List.mem_filterMap, List.mem_range]
  constructor
  · rintro ⟨k, hk, h⟩
    split at h
    · simp at h
    · rename_i hnt
      simp only [Option.map_eq_some_iff, Prod.mk.injEq] at h
      obtain ⟨r', hr', rfl, rfl⟩ := h
      exact ⟨by simpa using hnt, hr'⟩
  · rintro ⟨hnt, hr⟩
    have hlt : j < row.length := by
      rw [getD_none_eq_some] at hr
      exact (List.getElem?_eq_some_iff.mp hr).1
    refine ⟨j, hlt, ?_⟩
    rw [if_neg (by simpa using hnt), hr]
    rfl

theorem rsdCands_pairwise (row : List (Option Nat)) (taken : List Nat) :
    (rsdCands row taken).Pairwise (fun x y => x.1 < y.1) := by
  unfold rsdCands
  apply List.Pairwise.filterMap (R := fun a b => a < b) _ _ List.pairwise_lt_range
  intro a a' hlt b hb b' hb'
  split at hb
  · simp at hb
  · split at hb'
    · simp at hb'
    · simp only [Option.map_eq_some_iff] at hb hb'
      obtain ⟨_, _, rfl⟩ := hb
      obtain ⟨_, _, rfl⟩ := hb'
      exact hlt

theorem bestItem_some (row : List (Option Nat)) (taken : List Nat) (j : Nat)
    (h : bestItem row taken = some j) :
    j ∉ taken ∧ ∃ r, row.getD j none = some r ∧
      ∀ j' r', j' ∉ taken → row.getD j' none = some r' → r ≤ r' ∧ (r' = r → j ≤ j') := by
  simp only [bestItem, Option.map_eq_some_iff] at h
  obtain ⟨⟨j0, r⟩, hc, rfl⟩ := h
  obtain ⟨hmem, hmin⟩ := argminRank_spec _ _ hc
  have hfirst := argminRank_first _ (rsdCands_pairwise row taken) _ hc
  rw [mem_rsdCands] at hmem
  refine ⟨hmem.1, r, hmem.2, ?_⟩
  intro j' r' hnt hr'
  have hm : (j', r') ∈ rsdCands row taken := (mem_rsdCands row taken j' r').mpr ⟨hnt, hr'⟩
  exact ⟨hmin _ hm, fun heq => hfirst _ hm heq⟩

theorem bestItem_none (row : List (Option Nat)) (taken : List Nat) (h : bestItem row taken = none) :
    ∀ j' r', row.getD j' none = some r' → j' ∈ taken := by
  simp only [bestItem, Option.map_eq_none_iff, argminRank_none] at h
  intro j' r' hr'
  apply Classical.byContradiction
  intro hnt
  have hm : (j', r') ∈ rsdCands row taken := (mem_rsdCands row taken j' r').mpr ⟨hnt, hr'⟩
  rw [h] at hm
  simp at hm

/-! ### the loop -/

/-- item `j` is held by some agent in `alloc` -/
def TakenIn (alloc : List (Option Nat)) (j : Nat) : Prop := ∃ b : Nat, alloc[b]? = some (some j)

theorem mem_filterMap_id (alloc : List (Option Nat)) (j : Nat) :
    j ∈ alloc.filterMap id ↔ TakenIn alloc j := by
  simp only [List.mem_filterMap, id, TakenIn]
  constructor
  · rintro ⟨o, ho, rfl⟩
    exact List.mem_iff_getElem?.mp ho
  · rintro ⟨b, hb⟩
    exact ⟨some j, List.mem_of_getElem? hb, rfl⟩

/-- what a single pick must satisfy: `res` is the picker's entry, `Taken` the items already gone -/
def PickSpec (P : List (List (Option Nat))) (a : Nat) (Taken : Nat → Prop) (res : Option (Option Nat)) : Prop :=
  (res = some none ∧ ∀ j' r', prefRank P a j' = some r' → Taken j') ∨
  (∃ j r, res = some (some j) ∧ ¬ Taken j ∧ prefRank P a j = some r ∧
    ∀ j' r', ¬ Taken j' → prefRank P a j' = some r' → r ≤ r' ∧ (r' = r → j ≤ j'))

theorem PickSpec.congr {P : List (List (Option Nat))} {a : Nat} {T T' : Nat → Prop}
    {res : Option (Option Nat)} (hT : ∀ j, T j ↔ T' j) (h : PickSpec P a T res) : PickSpec P a T' res := by
  rcases h with ⟨h1, h2⟩ | ⟨j, r, h1, h2, h3, h4⟩
  · exact Or.inl ⟨h1, fun j' r' hr => (hT j').mp (h2 j' r' hr)⟩
  · exact Or.inr ⟨j, r, h1, fun ht => h2 ((hT j).mpr ht), h3,
      fun j' r' hnt hr => h4 j' r' (fun ht => hnt ((hT j').mp ht)) hr⟩

theorem rsdStep_length (P : List (List (Option Nat))) (alloc : List (Option Nat)) (a : Nat) :
    (rsdStep P alloc a).length = alloc.length := by
  unfold rsdStep
  split <;> simp

theorem rsdStep_ne (P : List (List (Option Nat))) (alloc : List (Option Nat)) (a b : Nat) (hab : a ≠ b) :
    (rsdStep P alloc a)[b]? = alloc[b]? := by
  unfold rsdStep
  split
  · rfl
  · rw [List.getElem?_set, if_neg hab]

theorem rsdStep_self (P : List (List (Option Nat))) (alloc : List (Option Nat)) (a : Nat)
    (ha : a < alloc.length) (hnone : alloc[a]? = some none) :
    PickSpec P a (TakenIn alloc) (rsdStep P alloc a)[a]? := by
  unfold rsdStep
  split
  · rename_i hb
    refine Or.inl ⟨hnone, ?_⟩
    intro j' r' hr
    exact (mem_filterMap_id alloc j').mp (bestItem_none _ _ hb j' r' hr)
  · rename_i j hb
    obtain ⟨h1, r, h2, h3⟩ := bestItem_some _ _ j hb
    refine Or.inr ⟨j, r, ?_, ?_, h2, ?_⟩
    · rw [List.getElem?_set, if_pos rfl, if_pos ha]
    · exact fun ht => h1 ((mem_filterMap_id alloc j).mpr ht)
    · intro j' r' hnt hr
      exact h3 j' r' (fun hm => hnt ((mem_filterMap_id alloc j').mp hm)) hr

theorem rsdStep_taken (P : List (List (Option Nat))) (alloc : List (Option Nat)) (a : Nat)
    (hnone : alloc[a]? = some none) (j : Nat) :
    TakenIn (rsdStep P alloc a) j ↔ TakenIn alloc j ∨ (rsdStep P alloc a)[a]? = some (some j) := by
  constructor
  · rintro ⟨b, hb⟩
    by_cases hab : a = b
    · subst hab; exact Or.inr hb
    · rw [rsdStep_ne P alloc a b hab] at hb
      exact Or.inl ⟨b, hb⟩
  · rintro (⟨b, hb⟩ | h)
    · by_cases hab : a = b
      · subst hab; rw [hnone] at hb; simp at hb
      · exact ⟨b, by rw [rsdStep_ne P alloc a b hab]; exact hb⟩
    · exact ⟨a, h⟩

theorem rsdLoop_length (P : List (List (Option Nat))) (order : List Nat) (alloc : List (Option Nat)) :
    (rsdLoop P order alloc).length = alloc.length := by
  induction order generalizing alloc with
  | nil => rfl
  | cons a rest ih => simp only [rsdLoop, ih, rsdStep_length]

theorem rsdLoop_not_mem (P : List (List (Option Nat))) (order : List Nat) (alloc : List (Option Nat))
    (b : Nat) (hb : b ∉ order) : (rsdLoop P order alloc)[b]? = alloc[b]? := by
  induction order generalizing alloc with
  | nil => rfl
  | cons a rest ih =>
    simp only [List.mem_cons, not_or] at hb
    simp only [rsdLoop]
    rw [ih _ hb.2, rsdStep_ne P alloc a b (fun h => hb.1 h.symm)]

/-- **Serial dictatorship, generalised to an arbitrary starting allocation.** -/
theorem rsdLoop_sd (P : List (List (Option Nat))) :
    ∀ (order : List Nat) (alloc : List (Option Nat)), order.Nodup →
      (∀ a ∈ order, a < alloc.length ∧ alloc[a]? = some none) →
      ∀ (t : Nat) (ht : t < order.length),
        PickSpec P order[t]
          (fun j => TakenIn alloc j ∨
            ∃ u, ∃ hu : u < t, (rsdLoop P order alloc)[order[u]'(Nat.lt_trans hu ht)]? = some (some j))
          (rsdLoop P order alloc)[order[t]]? := by
  intro order
  induction order with
  | nil => intro _ _ _ t ht; simp at ht
  | cons a rest ih =>
    intro alloc hnd hall t ht
    rw [List.nodup_cons] at hnd
    have ha := hall a List.mem_cons_self
    have hfin_a : (rsdLoop P (a :: rest) alloc)[a]? = (rsdStep P alloc a)[a]? := by
      simp only [rsdLoop]
      exact rsdLoop_not_mem P rest _ a hnd.1
    cases t with
    | zero =>
      simp only [List.getElem_cons_zero]
      rw [hfin_a]
      refine PickSpec.congr ?_ (rsdStep_self P alloc a ha.1 ha.2)
      intro j
      constructor
      · exact Or.inl
      · rintro (h | ⟨u, hu, _⟩)
        · exact h
        · omega
    | succ t =>
      have ht' : t < rest.length := by simpa using ht
      have hall' : ∀ b ∈ rest, b < (rsdStep P alloc a).length ∧ (rsdStep P alloc a)[b]? = some none := by
        intro b hb
        have hne : a ≠ b := fun h => hnd.1 (h ▸ hb)
        have := hall b (List.mem_cons_of_mem _ hb)
        rw [rsdStep_length, rsdStep_ne P alloc a b hne]
        exact this
      have := ih (rsdStep P alloc a) hnd.2 hall' t ht'
      simp only [List.getElem_cons_succ, rsdLoop]
      refine PickSpec.congr ?_ this
      intro j
      rw [rsdStep_taken P alloc a ha.2 j]
      constructor
      · rintro ((h | h) | ⟨u, hu, h⟩)
        · exact Or.inl h
        · refine Or.inr ⟨0, Nat.succ_pos _, ?_⟩
          simp only [List.getElem_cons_zero]
          rw [← h]
          exact rsdLoop_not_mem P rest _ a hnd.1
        · exact Or.inr ⟨u + 1, Nat.succ_lt_succ hu, by simpa using h⟩
      · rintro (h | ⟨u, hu, h⟩)
        · exact Or.inl (Or.inl h)
        · cases u with
          | zero =>
            simp only [List.getElem_cons_zero] at h
            rw [rsdLoop_not_mem P rest _ a hnd.1] at h
            exact Or.inl (Or.inr h)
          | succ u =>
            exact Or.inr ⟨u, Nat.lt_of_succ_lt_succ hu, by simpa using h⟩

/-! ### consequences for `rsd` -/

theorem rsd_length (P : List (List (Option Nat))) (order : List Nat) : (rsd P order).length = P.length := by
  simp [rsd, rsdLoop_length]

theorem takenIn_replicate (m j : Nat) : ¬ TakenIn (List.replicate m none) j := by
  rintro ⟨b, hb⟩
  have := List.mem_of_getElem? hb
  simp at this

theorem rsd_sd (P : List (List (Option Nat))) (order : List Nat) (hnd : order.Nodup)
    (hlt : ∀ a ∈ order, a < P.length) (t : Nat) (ht : t < order.length) :
    PickSpec P order[t]
      (fun j => ∃ u, ∃ hu : u < t, (rsd P order)[order[u]'(Nat.lt_trans hu ht)]? = some (some j))
      (rsd P order)[order[t]]? := by
  have hall : ∀ a ∈ order, a < (List.replicate P.length (none : Option Nat)).length ∧
      (List.replicate P.length (none : Option Nat))[a]? = some none := by
    intro a ha
    have := hlt a ha
    simp [this]
  refine PickSpec.congr ?_ (rsdLoop_sd P order _ hnd hall t ht)
  intro j
  constructor
  · rintro (h | h)
    · exact absurd h (takenIn_replicate _ _)
    · exact h
  · exact Or.inr

theorem rsd_not_in_order (P : List (List (Option Nat))) (order : List Nat) (a : Nat) (ha : a ∉ order) :
    (rsd P order)[a]? = some none ∨ (rsd P order)[a]? = none := by
  unfold rsd
  rw [rsdLoop_not_mem P order _ a ha]
  by_cases h : a < P.length
  · left; simp [h]
  · right; simp; omega

theorem rsd_alloc_mem_order (P : List (List (Option Nat))) (order : List Nat) (a j : Nat)
    (h : (rsd P order)[a]? = some (some j)) : a ∈ order := by
  apply Classical.byContradiction
  intro ha
  rcases rsd_not_in_order P order a ha with h' | h' <;> rw [h'] at h <;> simp at h

theorem rsd_acc (P : List (List (Option Nat))) (order : List Nat) (hnd : order.Nodup)
    (hlt : ∀ a ∈ order, a < P.length) (a j : Nat) (h : (rsd P order)[a]? = some (some j)) :
    ∃ r, prefRank P a j = some r := by
  obtain ⟨t, ht, rfl⟩ := List.getElem_of_mem (rsd_alloc_mem_order P order a j h)
  rcases rsd_sd P order hnd hlt t ht with ⟨h1, _⟩ | ⟨j', r, h1, _, h3, _⟩
  · rw [h1] at h; simp at h
  · rw [h1] at h
    simp only [Option.some.injEq] at h
    subst h
    exact ⟨r, h3⟩

theorem rsd_inj_aux (P : List (List (Option Nat))) (order : List Nat) (hnd : order.Nodup)
    (hlt : ∀ a ∈ order, a < P.length) (t u : Nat) (ht : t < order.length) (hut : u < t) (j : Nat)
    (h1 : (rsd P order)[order[t]]? = some (some j))
    (h2 : (rsd P order)[order[u]'(Nat.lt_trans hut ht)]? = some (some j)) : False := by
  rcases rsd_sd P order hnd hlt t ht with ⟨h, _⟩ | ⟨j', r, h, hnt, _, _⟩
  · rw [h] at h1; simp at h1
  · rw [h] at h1
    simp only [Option.some.injEq] at h1
    subst h1
    exact hnt ⟨u, hut, h2⟩

theorem rsd_inj (P : List (List (Option Nat))) (order : List Nat) (hnd : order.Nodup)
    (hlt : ∀ a ∈ order, a < P.length) (a b j : Nat) (ha : (rsd P order)[a]? = some (some j))
    (hb : (rsd P order)[b]? = some (some j)) : a = b := by
  obtain ⟨t, ht, rfl⟩ := List.getElem_of_mem (rsd_alloc_mem_order P order a j ha)
  obtain ⟨u, hu, rfl⟩ := List.getElem_of_mem (rsd_alloc_mem_order P order b j hb)
  rcases Nat.lt_trichotomy t u with h | h | h
  · exact (rsd_inj_aux P order hnd hlt u t hu h j hb ha).elim
  · subst h; rfl
  · exact (rsd_inj_aux P order hnd hlt t u ht h j ha hb).elim

theorem rsdExplainedB_iff (P : List (List (Option Nat))) (alloc : List (Option Nat)) (order : List Nat) :
    rsdExplainedB P alloc order = true ↔ alloc = rsd P order := by
  simp [rsdExplainedB]

/-! ### the serial-dictatorship conditions determine the outcome -/

theorem PickSpec.unique {P : List (List (Option Nat))} {a : Nat} {T T' : Nat → Prop}
    {res res' : Option (Option Nat)} (hT : ∀ j, T j ↔ T' j) (h : PickSpec P a T res)
    (h' : PickSpec P a T' res') : res = res' := by
  have h' := PickSpec.congr (fun j => (hT j).symm) h'
  rcases h with ⟨h1, h2⟩ | ⟨j, r, h1, h2, h3, h4⟩ <;> rcases h' with ⟨g1, g2⟩ | ⟨j', r', g1, g2, g3, g4⟩
  · rw [h1, g1]
  · exact absurd (h2 j' r' g3) g2
  · exact absurd (g2 j r h3) h2
  · have a1 := h4 j' r' g2 g3
    have a2 := g4 j r h2 h3
    have hr : r' = r := Nat.le_antisymm a2.1 a1.1
    have hj : j = j' := Nat.le_antisymm (a1.2 hr) (a2.2 hr.symm)
    rw [h1, g1, hj]

/-- `alloc` is a serial-dictatorship outcome for `order` -/
def IsSD (P : List (List (Option Nat))) (order : List Nat) (alloc : List (Option Nat)) : Prop :=
  alloc.length = P.length ∧ (∀ a, a < P.length → a ∉ order → alloc[a]? = some none) ∧
  ∀ (t : Nat) (ht : t < order.length),
    PickSpec P order[t]
      (fun j => ∃ u, ∃ hu : u < t, alloc[order[u]'(Nat.lt_trans hu ht)]? = some (some j))
      alloc[order[t]]?

theorem rsd_isSD (P : List (List (Option Nat))) (order : List Nat) (hnd : order.Nodup)
    (hlt : ∀ a ∈ order, a < P.length) : IsSD P order (rsd P order) := by
  refine ⟨rsd_length P order, ?_, rsd_sd P order hnd hlt⟩
  intro a ha hno
  rcases rsd_not_in_order P order a hno with h | h
  · exact h
  · have : a < (rsd P order).length := by rw [rsd_length]; exact ha
    rw [List.getElem?_eq_none_iff] at h
    omega

theorem IsSD.unique {P : List (List (Option Nat))} {order : List Nat} {alloc alloc' : List (Option Nat)}
    (h : IsSD P order alloc) (h' : IsSD P order alloc') : alloc = alloc' := by
  obtain ⟨hl, hno, hsd⟩ := h
  obtain ⟨hl', hno', hsd'⟩ := h'
  have key : ∀ (t : Nat) (ht : t < order.length), alloc[order[t]]? = alloc'[order[t]]? := by
    intro t
    induction t using Nat.strongRecOn with
    | _ t ih =>
      intro ht
      refine PickSpec.unique ?_ (hsd t ht) (hsd' t ht)
      intro j
      constructor
      · rintro ⟨u, hu, hj⟩
        exact ⟨u, hu, by rw [← ih u hu (Nat.lt_trans hu ht)]; exact hj⟩
      · rintro ⟨u, hu, hj⟩
        exact ⟨u, hu, by rw [ih u hu (Nat.lt_trans hu ht)]; exact hj⟩
  apply List.ext_getElem?
  intro a
  by_cases hmem : a ∈ order
  · obtain ⟨t, ht, rfl⟩ := List.getElem_of_mem hmem
    exact key t ht
  · by_cases ha : a < P.length
    · rw [hno a ha hmem, hno' a ha hmem]
    · rw [List.getElem?_eq_none_iff.mpr (by omega), List.getElem?_eq_none_iff.mpr (by omega)]
