import Mathlib.Algebra.BigOperators.Group.Finset.Basic
import Mathlib.Algebra.Order.BigOperators.Group.Finset
import Mathlib.Algebra.BigOperators.Ring.Finset
import Mathlib.Tactic.Linarith

/-! C08 prototype (spec level): net flows, cuts, weak duality, optimality certificate. -/

open Finset

variable {ι : Type} [DecidableEq ι]

/-- net-flow formulation: what `ford_fulkerson` reports -/
structure IsFlow (V : Finset ι) (cap : ι → ι → ℤ) (s t : ι) (f : ι → ι → ℤ) : Prop where
  skew : ∀ u v, f u v = - f v u
  le_cap : ∀ u v, f u v ≤ cap u v
  conserve : ∀ u ∈ V, u ≠ s → u ≠ t → ∑ v ∈ V, f u v = 0

def flowValue (V : Finset ι) (s : ι) (f : ι → ι → ℤ) : ℤ := ∑ v ∈ V, f s v

def cutCap (V : Finset ι) (cap : ι → ι → ℤ) (S : Finset ι) : ℤ :=
  ∑ u ∈ S, ∑ v ∈ V \ S, cap u v

theorem sum_inside_zero (S : Finset ι) (f : ι → ι → ℤ) (hskew : ∀ u v, f u v = - f v u) :
    ∑ u ∈ S, ∑ v ∈ S, f u v = 0 := by
  have h : ∑ u ∈ S, ∑ v ∈ S, f u v = - ∑ u ∈ S, ∑ v ∈ S, f u v := by
    calc ∑ u ∈ S, ∑ v ∈ S, f u v = ∑ u ∈ S, ∑ v ∈ S, - f v u := by
          refine sum_congr rfl (fun u _ => sum_congr rfl (fun v _ => hskew u v))
      _ = - ∑ u ∈ S, ∑ v ∈ S, f v u := by simp [sum_neg_distrib]
      _ = - ∑ u ∈ S, ∑ v ∈ S, f u v := by rw [sum_comm]
  linarith

/-- the value of a flow is the net flow across any s-t cut -/
theorem value_eq_across (V : Finset ι) (cap : ι → ι → ℤ) (s t : ι) (f : ι → ι → ℤ)
    (hf : IsFlow V cap s t f) (S : Finset ι) (hSV : S ⊆ V) (hs : s ∈ S) (ht : t ∉ S) :
    flowValue V s f = ∑ u ∈ S, ∑ v ∈ V \ S, f u v := by
  have h1 : ∑ u ∈ S, ∑ v ∈ V, f u v = flowValue V s f := by
    rw [← add_sum_erase S _ hs]
    have : ∑ u ∈ S.erase s, ∑ v ∈ V, f u v = 0 := by
      apply sum_eq_zero
      intro u hu
      have hus : u ≠ s := ne_of_mem_erase hu
      have huS : u ∈ S := mem_of_mem_erase hu
      have hut : u ≠ t := fun h => ht (h ▸ huS)
      exact hf.conserve u (hSV huS) hus hut
    rw [this]; simp [flowValue]
  have h2 : ∑ u ∈ S, ∑ v ∈ V, f u v = ∑ u ∈ S, (∑ v ∈ S, f u v + ∑ v ∈ V \ S, f u v) := by
    refine sum_congr rfl (fun u _ => ?_)
    rw [← sum_union (disjoint_sdiff), union_sdiff_of_subset hSV]
  rw [← h1, h2, sum_add_distrib, sum_inside_zero S f hf.skew, zero_add]

theorem flow_le_cut (V : Finset ι) (cap : ι → ι → ℤ) (s t : ι) (f : ι → ι → ℤ)
    (hf : IsFlow V cap s t f) (S : Finset ι) (hSV : S ⊆ V) (hs : s ∈ S) (ht : t ∉ S) :
    flowValue V s f ≤ cutCap V cap S := by
  rw [value_eq_across V cap s t f hf S hSV hs ht]
  exact sum_le_sum (fun u _ => sum_le_sum (fun v _ => hf.le_cap u v))

/-- a flow and a cut of equal value/capacity certify each other as optimal -/
theorem maxflow_cert (V : Finset ι) (cap : ι → ι → ℤ) (s t : ι) (f : ι → ι → ℤ)
    (hf : IsFlow V cap s t f) (S : Finset ι) (hSV : S ⊆ V) (hs : s ∈ S) (ht : t ∉ S)
    (heq : flowValue V s f = cutCap V cap S) :
    (∀ g, IsFlow V cap s t g → flowValue V s g ≤ flowValue V s f) ∧
    (∀ S', S' ⊆ V → s ∈ S' → t ∉ S' → cutCap V cap S ≤ cutCap V cap S') := by
  constructor
  · intro g hg; rw [heq]; exact flow_le_cut V cap s t g hg S hSV hs ht
  · intro S' hS' hs' ht'; rw [← heq]; exact flow_le_cut V cap s t f hf S' hS' hs' ht'

/-- a closed set in the residual graph gives equality -/
theorem closed_cut_tight (V : Finset ι) (cap : ι → ι → ℤ) (s t : ι) (f : ι → ι → ℤ)
    (hf : IsFlow V cap s t f) (S : Finset ι) (hSV : S ⊆ V) (hs : s ∈ S) (ht : t ∉ S)
    (hclosed : ∀ u ∈ S, ∀ v ∈ V, v ∉ S → cap u v - f u v ≤ 0) :
    flowValue V s f = cutCap V cap S := by
  rw [value_eq_across V cap s t f hf S hSV hs ht]
  refine sum_congr rfl (fun u hu => sum_congr rfl (fun v hv => ?_))
  have hv' := mem_sdiff.mp hv
  have h1 := hclosed u hu v hv'.1 hv'.2
  have h2 := hf.le_cap u v
  omega

#print axioms maxflow_cert
#print axioms closed_cut_tight
