import Sck.Proofs.McmNet

/-! C09: what an integral flow on `bipNet` looks like, and why the read-out loop yields a matching whose
size is the value of the flow. -/

open Finset

/-- `f` is a (net) flow on the network of the bipartite graph -/
abbrev BipFlow (X Y : List Int) (adj : Int → List Int) (f : Flow) : Prop :=
  IsFlow (bipNet X Y adj).verts.toFinset (bipNet X Y adj).cap (-1) (-2) f

section
variable {X Y : List Int} {adj : Int → List Int} {f : Flow}

theorem bf_le_one (hf : BipFlow X Y adj f) (u v : Int) : f u v ≤ 1 :=
  Int.le_trans (hf.le_cap u v) (bipNet_cap_le_one X Y adj u v)

theorem bf_le_zero (hf : BipFlow X Y adj f) (u v : Int) (h : ¬ BipEdge X Y adj u v) : f u v ≤ 0 := by
  have := hf.le_cap u v
  rwa [bipNet_cap_eq_zero X Y adj u v h] at this

theorem bf_nonneg (hf : BipFlow X Y adj f) (u v : Int) (h : ¬ BipEdge X Y adj v u) : 0 ≤ f u v := by
  have := bf_le_zero hf v u h
  have := hf.skew u v
  omega

theorem bipEdge_left (w : BipWF X Y adj) {x v : Int} (hx : x ∈ X) : BipEdge X Y adj x v ↔ v ∈ adj x := by
  constructor
  · rintro (⟨_, h⟩ | ⟨h, _⟩ | ⟨h, _⟩)
    · exact h
    · exact absurd (h ▸ hx) w.sX
    · exact absurd h (w.disj x hx)
  · exact fun h => Or.inl ⟨hx, h⟩

theorem bipEdge_into_left (w : BipWF X Y adj) {x v : Int} (hx : x ∈ X) : BipEdge X Y adj v x ↔ v = -1 := by
  constructor
  · rintro (⟨hv, h⟩ | ⟨h, _⟩ | ⟨_, h⟩)
    · exact absurd (w.adjY v hv x h) (w.disj x hx)
    · exact h
    · exact absurd (h ▸ hx) w.tX
  · exact fun h => Or.inr (Or.inl ⟨h, hx⟩)

theorem bipEdge_right (w : BipWF X Y adj) {y v : Int} (hy : y ∈ Y) : BipEdge X Y adj y v ↔ v = -2 := by
  constructor
  · rintro (⟨h, _⟩ | ⟨h, _⟩ | ⟨_, h⟩)
    · exact absurd hy (w.disj y h)
    · exact absurd (h ▸ hy) w.sY
    · exact h
  · exact fun h => Or.inr (Or.inr ⟨hy, h⟩)

theorem bipEdge_source (w : BipWF X Y adj) {v : Int} : BipEdge X Y adj (-1) v ↔ v ∈ X := by
  constructor
  · rintro (⟨h, _⟩ | ⟨_, h⟩ | ⟨h, _⟩)
    · exact absurd h w.sX
    · exact h
    · exact absurd h w.sY
  · exact fun h => Or.inr (Or.inl ⟨rfl, h⟩)

theorem not_bipEdge_into_source (w : BipWF X Y adj) {v : Int} : ¬ BipEdge X Y adj v (-1) := by
  rintro (⟨hv, h⟩ | ⟨_, h⟩ | ⟨_, h⟩)
  · exact w.sY (w.adjY v hv _ h)
  · exact w.sX h
  · exact absurd h (by decide)

/-- two different left vertices cannot both send a unit to the same right vertex -/
theorem bf_right_unique (w : BipWF X Y adj) (hf : BipFlow X Y adj f) {x₁ x₂ y : Int}
    (hx₁ : x₁ ∈ X) (hx₂ : x₂ ∈ X) (hne : x₁ ≠ x₂) (hy : y ∈ Y) (h₁ : f x₁ y = 1) (h₂ : f x₂ y = 1) :
    False := by
  have hyV : y ∈ (bipNet X Y adj).verts.toFinset :=
    List.mem_toFinset.mpr ((mem_bipNet_verts X Y adj y).mpr (Or.inr (Or.inr (Or.inr hy))))
  have htV : (-2 : Int) ∈ (bipNet X Y adj).verts.toFinset :=
    List.mem_toFinset.mpr ((mem_bipNet_verts X Y adj _).mpr (Or.inr (Or.inr (Or.inl rfl))))
  have hx₁V : x₁ ∈ (bipNet X Y adj).verts.toFinset :=
    List.mem_toFinset.mpr ((mem_bipNet_verts X Y adj _).mpr (Or.inl hx₁))
  have hx₂V : x₂ ∈ (bipNet X Y adj).verts.toFinset :=
    List.mem_toFinset.mpr ((mem_bipNet_verts X Y adj _).mpr (Or.inl hx₂))
  have hcons := hf.conserve y hyV (fun e => w.sY (e ▸ hy)) (fun e => w.tY (e ▸ hy))
  have e1 : f y x₁ = -1 := by have := hf.skew y x₁; omega
  have e2 : f y x₂ = -1 := by have := hf.skew y x₂; omega
  have e3 : f y (-2) ≤ 1 := bf_le_one hf _ _
  have e4 : ∀ v, v ≠ -2 → f y v ≤ 0 := fun v hv =>
    bf_le_zero hf y v (fun h => hv ((bipEdge_right w hy).mp h))
  have n1 : x₁ ≠ -2 := fun e => w.tX (e ▸ hx₁)
  have n2 : x₂ ≠ -2 := fun e => w.tX (e ▸ hx₂)
  have hle : ∑ v ∈ (bipNet X Y adj).verts.toFinset, f y v ≤
      ∑ v ∈ (bipNet X Y adj).verts.toFinset,
        ((if v = -2 then (1 : Int) else 0) - (if v = x₁ then 1 else 0) - (if v = x₂ then 1 else 0)) := by
    apply sum_le_sum
    intro v _
    by_cases hv1 : v = x₁
    · subst hv1; rw [if_neg n1, if_pos rfl, if_neg hne]; omega
    · by_cases hv2 : v = x₂
      · subst hv2; rw [if_neg n2, if_neg hv1, if_pos rfl]; omega
      · by_cases hv3 : v = -2
        · subst hv3; rw [if_pos rfl, if_neg hv1, if_neg hv2]; omega
        · rw [if_neg hv3, if_neg hv1, if_neg hv2]; have := e4 v hv3; omega
  rw [sum_sub_distrib, sum_sub_distrib, sum_ite_eq', sum_ite_eq', sum_ite_eq', if_pos htV, if_pos hx₁V,
    if_pos hx₂V, hcons] at hle
  omega


/-- what one step of the read-out loop emits -/
theorem mcmEmit_spec {x : Int} {p : Int × Int} (h : mcmEmit adj f x = some p) :
    p.1 = x ∧ p.2 ∈ adj x ∧ f x p.2 = 1 := by
  unfold mcmEmit at h
  split at h
  · simp at h
  · rename_i y0 ys hadj
    split at h
    · rename_i y hy
      split at h
      · rename_i h1
        simp only [Option.some.injEq] at h
        subst h
        exact ⟨rfl, hadj ▸ List.mem_of_getElem? hy, h1⟩
      · simp at h
    · simp at h

theorem mem_mcmOfFlow {p : Int × Int} (h : p ∈ mcmOfFlow X adj f) :
    p.1 ∈ X ∧ p.2 ∈ adj p.1 ∧ f p.1 p.2 = 1 := by
  obtain ⟨x, hx, hp⟩ := List.mem_filterMap.mp h
  obtain ⟨h1, h2, h3⟩ := mcmEmit_spec hp
  subst h1
  exact ⟨hx, h2, h3⟩

theorem mcmOfFlow_fst_pairwise (hX : X.Nodup) :
    (mcmOfFlow X adj f).Pairwise (fun p q => p.1 ≠ q.1) := by
  unfold mcmOfFlow
  rw [List.pairwise_filterMap]
  refine List.Pairwise.imp (fun {a b} hne => ?_) hX
  intro p hp q hq
  rw [(mcmEmit_spec hp).1, (mcmEmit_spec hq).1]
  exact hne

/-- the read-out of ANY flow on the network of a well-formed bipartite graph is a matching -/
theorem mcmOfFlow_isMatching (w : BipWF X Y adj) (hf : BipFlow X Y adj f) :
    IsMatching X adj (mcmOfFlow X adj f) := by
  have hfst := mcmOfFlow_fst_pairwise (adj := adj) (f := f) w.ndX
  refine ⟨fun p hp => ⟨(mem_mcmOfFlow hp).1, (mem_mcmOfFlow hp).2.1⟩, ?_⟩
  rw [List.nodup_append]
  refine ⟨?_, ?_, ?_⟩
  · unfold List.Nodup; rw [List.pairwise_map]; exact hfst
  · unfold List.Nodup; rw [List.pairwise_map]
    refine List.Pairwise.imp_of_mem (fun {p q} hp hq hne => ?_) hfst
    obtain ⟨hp1, hp2, hp3⟩ := mem_mcmOfFlow hp
    obtain ⟨hq1, hq2, hq3⟩ := mem_mcmOfFlow hq
    intro e
    rw [← e] at hq3
    exact bf_right_unique w hf hp1 hq1 hne (w.adjY _ hp1 _ hp2) hp3 hq3
  · intro a ha b hb e
    obtain ⟨p, hp, rfl⟩ := List.mem_map.mp ha
    obtain ⟨q, hq, rfl⟩ := List.mem_map.mp hb
    obtain ⟨hp1, _, _⟩ := mem_mcmOfFlow hp
    obtain ⟨hq1, hq2, _⟩ := mem_mcmOfFlow hq
    exact w.disj _ hp1 (e ▸ w.adjY _ hq1 _ hq2)

end

/-- whatever the model returns on a well-formed instance is a matching of the graph -/
theorem mcm_is_matching (X Y : List Int) (adj : Int → List Int) (fuel : Nat) (M : List (Int × Int))
    (hwf : bipWfB X Y adj = true) (h : mcm X Y adj fuel = .ok M) : IsMatching X adj M := by
  have w := (bipWfB_iff X Y adj).mp hwf
  unfold mcm at h
  split at h
  · rename_i f S hff
    simp only [Except.ok.injEq] at h
    subst h
    exact mcmOfFlow_isMatching w (ff_correct _ (bipNet_WF X Y adj) fuel f S hff).1
  · simp at h

#print axioms mcm_is_matching
