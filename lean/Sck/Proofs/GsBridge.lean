import Sck.Proofs.GsWF

/-! C01/C02: feasibility and stability in the property's vocabulary (rank matrices, lists of
(resident, hospital) pairs) and their equivalence with the generic `FeasibleDA`/`BlockingDA`
for both orientations. -/

/-- swap the components of every pair (the hospital-oriented model holds (hospital, resident)) -/
def swapL (mu : List (Nat × Nat)) : List (Nat × Nat) := mu.map (fun e => (e.2, e.1))

theorem swapL_swapL (mu : List (Nat × Nat)) : swapL (swapL mu) = mu := by
  unfold swapL
  rw [List.map_map]
  conv => rhs; rw [← List.map_id mu]
  apply List.map_congr_left
  intro ⟨a, b⟩ _; rfl

theorem mem_swapL {mu : List (Nat × Nat)} {a b : Nat} : (a, b) ∈ swapL mu ↔ (b, a) ∈ mu := by
  simp only [swapL, List.mem_map, Prod.mk.injEq]
  constructor
  · rintro ⟨⟨x, y⟩, hm, h1, h2⟩
    simp only at h1 h2; subst h1; subst h2; exact hm
  · intro h; exact ⟨(b, a), h, rfl, rfl⟩

theorem swapL_nodup {mu : List (Nat × Nat)} (h : mu.Nodup) : (swapL mu).Nodup := by
  unfold swapL
  apply List.Nodup.map _ h
  intro ⟨a, b⟩ ⟨c, d⟩ he
  simp only [Prod.mk.injEq] at he
  simp [he.1, he.2]

theorem matchesOf_swapL (mu : List (Nat × Nat)) (h : Nat) : matchesOf (swapL mu) h = heldBy mu h := by
  unfold matchesOf heldBy swapL
  rw [List.filter_map, List.map_map]
  rfl

theorem heldBy_swapL (mu : List (Nat × Nat)) (r : Nat) : heldBy (swapL mu) r = matchesOf mu r := by
  unfold matchesOf heldBy swapL
  rw [List.filter_map, List.map_map]
  rfl

/-- The matching clauses of C01: no repeated pair, every resident at most once, no hospital above
capacity, every matched pair mutually acceptable. -/
structure FeasibleHR (I : HR) (mu : List (Nat × Nat)) : Prop where
  nodup : mu.Nodup
  resOnce : ∀ r h h', (r, h) ∈ mu → (r, h') ∈ mu → h = h'
  cap : ∀ h, (heldBy mu h).length ≤ I.cap.getD h 0
  acc : ∀ r h, (r, h) ∈ mu → rankAt I.R r h ≠ none ∧ rankAt I.H h r ≠ none

/-- A stable matching of the instance: feasible and without blocking pair. -/
def StableHR (I : HR) (mu : List (Nat × Nat)) : Prop :=
  FeasibleHR I mu ∧ ∀ r h, ¬ BlockingHR I mu r h

theorem ne_none_iff_exists_some {o : Option Nat} : o ≠ none ↔ ∃ x, o = some x := by
  cases o <;> simp

/-- matched pairs lie inside the instance -/
theorem FeasibleHR.bounds {I : HR} (hwf : I.WF2) {mu : List (Nat × Nat)} (hf : FeasibleHR I mu)
    {r h : Nat} (hm : (r, h) ∈ mu) : r < I.n ∧ h < I.m := by
  obtain ⟨x, hx⟩ := ne_none_iff_exists_some.mp (hf.acc r h hm).1
  have := rankAt_some_lt I.R I.m hwf.rowR r h x hx
  rw [hwf.lenR] at this; exact this

/-- "at most once" as a length bound -/
theorem matchesOf_le_one_iff {mu : List (Nat × Nat)} (hnd : mu.Nodup) :
    (∀ r, (matchesOf mu r).length ≤ 1) ↔ ∀ r h h', (r, h) ∈ mu → (r, h') ∈ mu → h = h' := by
  constructor
  · intro hl r h h' h1 h2
    have hm1 := mem_matchesOf.mpr h1
    have hm2 := mem_matchesOf.mpr h2
    have := hl r
    match hq : matchesOf mu r, this with
    | [], _ => rw [hq] at hm1; simp at hm1
    | [a], _ =>
      rw [hq] at hm1 hm2; simp at hm1 hm2; rw [hm1, hm2]
    | a :: b :: l, hlen => simp at hlen
  · intro hu r
    have hnd' := matchesOf_nodup hnd r
    match hq : matchesOf mu r with
    | [] => simp
    | [a] => simp
    | a :: b :: l =>
      exfalso
      rw [hq] at hnd'
      have ha : (r, a) ∈ mu := mem_matchesOf.mp (by rw [hq]; simp)
      have hb : (r, b) ∈ mu := mem_matchesOf.mp (by rw [hq]; simp)
      have := hu r a b ha hb
      subst this
      simp at hnd'

/-! ### resident-oriented instance -/

theorem prefersP_res (I : HR) (hwf : I.WF2) (r h h' : Nat) :
    prefersP (daRes I) r h h' ↔ ∃ x x', rankAt I.R r h = some x ∧ rankAt I.R r h' = some x' ∧ x < x' :=
  plistM_prefers_iff I.R I.n hwf.lenR hwf.strictR r h h'

theorem prefersP_hosp (I : HR) (hwf : I.WF2) (h r r' : Nat) :
    prefersP (daHosp I) h r r' ↔ ∃ a b, rankAt I.H h r = some a ∧ rankAt I.H h r' = some b ∧ a < b :=
  plistM_prefers_iff I.H I.m hwf.lenH hwf.strictH h r r'

theorem listed_res (I : HR) (hwf : I.WF2) (r h : Nat) :
    (∃ i : Nat, ((daRes I).plist r)[i]? = some h) ↔ ∃ x, rankAt I.R r h = some x := by
  rw [← mem_plistM I.R I.n hwf.lenR r h, daRes_plist]
  exact ⟨fun ⟨i, hi⟩ => List.mem_of_getElem? hi, List.getElem?_of_mem⟩

theorem listed_hosp (I : HR) (hwf : I.WF2) (h r : Nat) :
    (∃ i : Nat, ((daHosp I).plist h)[i]? = some r) ↔ ∃ a, rankAt I.H h r = some a := by
  rw [← mem_plistM I.H I.m hwf.lenH h r, daHosp_plist]
  exact ⟨fun ⟨i, hi⟩ => List.mem_of_getElem? hi, List.getElem?_of_mem⟩

theorem matchesOf_lt_one_iff (mu : List (Nat × Nat)) (r : Nat) :
    (matchesOf mu r).length < 1 ↔ ∀ h', (r, h') ∉ mu := by
  constructor
  · intro hl h' hm
    have := List.length_pos_of_mem (mem_matchesOf.mpr hm)
    omega
  · intro hn
    have : matchesOf mu r = [] := List.eq_nil_iff_forall_not_mem.mpr (fun h' hh' => hn h' (mem_matchesOf.mp hh'))
    simp [this]

/-- the resident's clause of a blocking pair -/
def ResClause (I : HR) (mu : List (Nat × Nat)) (r : Nat) (x : Nat) : Prop :=
  (∀ h', (r, h') ∉ mu) ∨ ∃ h' x', (r, h') ∈ mu ∧ rankAt I.R r h' = some x' ∧ x < x'

/-- the hospital's clause of a blocking pair -/
def HospClause (I : HR) (mu : List (Nat × Nat)) (h : Nat) (a : Nat) : Prop :=
  (heldBy mu h).length < I.cap.getD h 0 ∨ ∃ r' b, (r', h) ∈ mu ∧ rankAt I.H h r' = some b ∧ a < b

theorem blockingHR_iff (I : HR) (hwf : I.WF2) (mu : List (Nat × Nat)) (r h : Nat) :
    BlockingHR I mu r h ↔ ∃ x a, rankAt I.R r h = some x ∧ rankAt I.H h r = some a ∧ (r, h) ∉ mu ∧
      ResClause I mu r x ∧ HospClause I mu h a := by
  unfold BlockingHR ResClause HospClause
  constructor
  · rintro ⟨_, h⟩; exact h
  · rintro ⟨x, a, hx, hrest⟩
    have := (rankAt_some_lt I.R I.m hwf.rowR r h x hx).1
    rw [hwf.lenR] at this
    exact ⟨this, x, a, hx, hrest⟩

theorem resClause_iff_res (I : HR) (hwf : I.WF2) (mu : List (Nat × Nat)) (r h x : Nat)
    (hx : rankAt I.R r h = some x) :
    ((matchesOf mu r).length < 1 ∨ ∃ h' ∈ matchesOf mu r, prefersP (daRes I) r h h') ↔ ResClause I mu r x := by
  unfold ResClause
  rw [matchesOf_lt_one_iff]
  apply or_congr Iff.rfl
  constructor
  · rintro ⟨h', hm, hp⟩
    obtain ⟨y, x', hy, hx', hlt⟩ := (prefersP_res I hwf r h h').mp hp
    rw [hx] at hy; cases hy
    exact ⟨h', x', mem_matchesOf.mp hm, hx', hlt⟩
  · rintro ⟨h', x', hm, hx', hlt⟩
    exact ⟨h', mem_matchesOf.mpr hm, (prefersP_res I hwf r h h').mpr ⟨x, x', hx, hx', hlt⟩⟩

theorem hospClause_iff_res (I : HR) (mu : List (Nat × Nat)) (h a : Nat) :
    ((heldBy mu h).length < (daRes I).qr h ∨ ∃ r' ∈ heldBy mu h, ∃ b, (daRes I).rrank h r' = some b ∧ a < b) ↔
      HospClause I mu h a := by
  unfold HospClause
  apply or_congr Iff.rfl
  constructor
  · rintro ⟨r', hm, b, hb, hlt⟩; exact ⟨r', b, mem_heldBy.mp hm, hb, hlt⟩
  · rintro ⟨r', b, hm, hb, hlt⟩; exact ⟨r', mem_heldBy.mpr hm, b, hb, hlt⟩

theorem blockingDA_res_iff (I : HR) (hwf : I.WF2) (mu : List (Nat × Nat)) (r h : Nat) :
    BlockingDA (daRes I) mu r h ↔ BlockingHR I mu r h := by
  rw [blockingHR_iff I hwf]
  unfold BlockingDA
  rw [listed_res I hwf]
  constructor
  · rintro ⟨⟨x, hx⟩, hnm, hres, a, ha, hhosp⟩
    exact ⟨x, a, hx, ha, hnm, (resClause_iff_res I hwf mu r h x hx).mp hres,
      (hospClause_iff_res I mu h a).mp hhosp⟩
  · rintro ⟨x, a, hx, ha, hnm, hres, hhosp⟩
    exact ⟨⟨x, hx⟩, hnm, (resClause_iff_res I hwf mu r h x hx).mpr hres, a, ha,
      (hospClause_iff_res I mu h a).mpr hhosp⟩

theorem feasibleDA_res_iff (I : HR) (hwf : I.WF2) (mu : List (Nat × Nat)) :
    FeasibleDA (daRes I) mu ↔ FeasibleHR I mu := by
  constructor
  · intro hf
    refine ⟨hf.nodup, (matchesOf_le_one_iff hf.nodup).mp hf.capP, hf.capR, ?_⟩
    intro r h hm
    obtain ⟨hl, ha⟩ := hf.acc r h hm
    exact ⟨ne_none_iff_exists_some.mpr ((listed_res I hwf r h).mp hl), ne_none_iff_exists_some.mpr ha⟩
  · intro hf
    refine ⟨hf.nodup, ?_, hf.cap, (matchesOf_le_one_iff hf.nodup).mpr hf.resOnce⟩
    intro r h hm
    obtain ⟨h1, h2⟩ := hf.acc r h hm
    exact ⟨(listed_res I hwf r h).mpr (ne_none_iff_exists_some.mp h1), ne_none_iff_exists_some.mp h2⟩

theorem stableDA_res_iff (I : HR) (hwf : I.WF2) (mu : List (Nat × Nat)) :
    StableDA (daRes I) mu ↔ StableHR I mu := by
  unfold StableDA StableHR
  rw [feasibleDA_res_iff I hwf]
  apply and_congr Iff.rfl
  constructor
  · intro h r hh hb; exact h r hh ((blockingDA_res_iff I hwf mu r hh).mpr hb)
  · intro h r hh hb; exact h r hh ((blockingDA_res_iff I hwf mu r hh).mp hb)

/-! ### hospital-oriented instance (pairs swapped) -/

theorem hospClause_iff_hosp (I : HR) (hwf : I.WF2) (mu : List (Nat × Nat)) (h r a : Nat)
    (ha : rankAt I.H h r = some a) :
    ((matchesOf (swapL mu) h).length < (daHosp I).qp h ∨
      ∃ r' ∈ matchesOf (swapL mu) h, prefersP (daHosp I) h r r') ↔ HospClause I mu h a := by
  unfold HospClause
  rw [matchesOf_swapL]
  apply or_congr Iff.rfl
  constructor
  · rintro ⟨r', hm, hp⟩
    obtain ⟨a', b, ha', hb, hlt⟩ := (prefersP_hosp I hwf h r r').mp hp
    rw [ha] at ha'; cases ha'
    exact ⟨r', b, mem_heldBy.mp hm, hb, hlt⟩
  · rintro ⟨r', b, hm, hb, hlt⟩
    exact ⟨r', mem_heldBy.mpr hm, (prefersP_hosp I hwf h r r').mpr ⟨a, b, ha, hb, hlt⟩⟩

theorem resClause_iff_hosp (I : HR) (mu : List (Nat × Nat)) (r x : Nat) :
    ((heldBy (swapL mu) r).length < (daHosp I).qr r ∨
      ∃ h' ∈ heldBy (swapL mu) r, ∃ x', (daHosp I).rrank r h' = some x' ∧ x < x') ↔ ResClause I mu r x := by
  unfold ResClause
  rw [heldBy_swapL]
  have : (daHosp I).qr r = 1 := rfl
  rw [this, matchesOf_lt_one_iff]
  apply or_congr Iff.rfl
  constructor
  · rintro ⟨h', hm, x', hx', hlt⟩; exact ⟨h', x', mem_matchesOf.mp hm, hx', hlt⟩
  · rintro ⟨h', x', hm, hx', hlt⟩; exact ⟨h', mem_matchesOf.mpr hm, x', hx', hlt⟩

theorem blockingDA_hosp_iff (I : HR) (hwf : I.WF2) (mu : List (Nat × Nat)) (r h : Nat) :
    BlockingDA (daHosp I) (swapL mu) h r ↔ BlockingHR I mu r h := by
  rw [blockingHR_iff I hwf]
  unfold BlockingDA
  rw [listed_hosp I hwf, mem_swapL]
  constructor
  · rintro ⟨⟨a, ha⟩, hnm, hhosp, x, hx, hres⟩
    exact ⟨x, a, hx, ha, hnm, (resClause_iff_hosp I mu r x).mp hres,
      (hospClause_iff_hosp I hwf mu h r a ha).mp hhosp⟩
  · rintro ⟨x, a, hx, ha, hnm, hres, hhosp⟩
    exact ⟨⟨a, ha⟩, hnm, (hospClause_iff_hosp I hwf mu h r a ha).mpr hhosp, x, hx,
      (resClause_iff_hosp I mu r x).mpr hres⟩

theorem feasibleDA_hosp_iff (I : HR) (hwf : I.WF2) (mu : List (Nat × Nat)) :
    FeasibleDA (daHosp I) (swapL mu) ↔ FeasibleHR I mu := by
  constructor
  · intro hf
    have hnd : mu.Nodup := by have := swapL_nodup hf.nodup; rwa [swapL_swapL] at this
    refine ⟨hnd, (matchesOf_le_one_iff hnd).mp ?_, ?_, ?_⟩
    · intro r; have := hf.capR r; rwa [heldBy_swapL] at this
    · intro h; have := hf.capP h; rwa [matchesOf_swapL] at this
    · intro r h hm
      obtain ⟨hl, ha⟩ := hf.acc h r (mem_swapL.mpr hm)
      exact ⟨ne_none_iff_exists_some.mpr ha, ne_none_iff_exists_some.mpr ((listed_hosp I hwf h r).mp hl)⟩
  · intro hf
    refine ⟨swapL_nodup hf.nodup, ?_, ?_, ?_⟩
    · intro h r hm
      obtain ⟨h1, h2⟩ := hf.acc r h (mem_swapL.mp hm)
      exact ⟨(listed_hosp I hwf h r).mpr (ne_none_iff_exists_some.mp h2), ne_none_iff_exists_some.mp h1⟩
    · intro r; rw [heldBy_swapL]; exact (matchesOf_le_one_iff hf.nodup).mpr hf.resOnce r
    · intro h; rw [matchesOf_swapL]; exact hf.cap h

theorem stableDA_hosp_iff (I : HR) (hwf : I.WF2) (mu : List (Nat × Nat)) :
    StableDA (daHosp I) (swapL mu) ↔ StableHR I mu := by
  unfold StableDA StableHR
  rw [feasibleDA_hosp_iff I hwf]
  apply and_congr Iff.rfl
  constructor
  · intro h r hh hb; exact h hh r ((blockingDA_hosp_iff I hwf mu r hh).mpr hb)
  · intro h hh r hb; exact h r hh ((blockingDA_hosp_iff I hwf mu r hh).mp hb)
