import Sck.Proofs.DA7

/-! C01 prototype: the concrete round loop (both code branches) reaches a final state within fuel. -/

/-- remaining proposals -/
def potential (I : DA) (np : Nat) (st : St) : Nat :=
  ((List.range np).map (fun p => (I.plist p).length - st.ptr p)).sum

theorem step_ptr_mono (I : DA) (st : St) (p q : Nat) : st.ptr q ≤ (step I st p).ptr q := by
  by_cases h : q = p
  · subst h
    rcases step_ptr_self I st q with h | ⟨h, _⟩ <;> omega
  · rw [step_ptr_other I st p q h]; exact Nat.le_refl _

/-- a step by another proposer never raises my match count -/
theorem step_matches_other (I : DA) (st : St) (p q : Nat) (h : q ≠ p) :
    ∀ r, r ∈ matchesOf (step I st p).mu q → r ∈ matchesOf st.mu q := by
  intro r hr
  have := step_mu_sub I st p (q, r) (mem_matchesOf.mp hr)
  rcases this with h1 | ⟨r', _, h2⟩
  · exact mem_matchesOf.mpr h1
  · simp at h2; exact absurd h2.1 h

/-- generic fold facts: invariants are kept, pointers only grow -/
theorem foldl_steps_inv (I : DA) (hwf : WF I) (g : Nat → Bool) (ps : List Nat) (s : St)
    (h : DAInv I s) : DAInv I (ps.foldl (fun s p => if g p then step I s p else s) s) := by
  induction ps generalizing s with
  | nil => exact h
  | cons p ps ih =>
    simp only [List.foldl_cons]
    apply ih
    split
    · exact step_inv I hwf s p h
    · exact h

theorem foldl_steps_ptr_mono (I : DA) (g : Nat → Bool) (ps : List Nat) (s : St) (q : Nat) :
    s.ptr q ≤ (ps.foldl (fun s p => if g p then step I s p else s) s).ptr q := by
  induction ps generalizing s with
  | nil => exact Nat.le_refl _
  | cons p ps ih =>
    simp only [List.foldl_cons]
    refine Nat.le_trans ?_ (ih _)
    split
    · exact step_ptr_mono I s p q
    · exact Nat.le_refl _

theorem round_inv (I : DA) (hwf : WF I) (np : Nat) (st : St) (h : DAInv I st) : DAInv I (gsRound I np st) :=
  foldl_steps_inv I hwf (active I st) (List.range np) st h

/-- when the loop stops, the state is final for all proposers below `np` -/
theorem not_any_active_final (I : DA) (np : Nat) (st : St) (h : DAInv I st)
    (hnone : (List.range np).any (active I st) = false)
    (hout : ∀ p, np ≤ p → I.plist p = []) : Final I st := by
  intro p hlt
  by_cases hp : p < np
  · have : active I st p = false := by
      have := List.any_eq_false.mp hnone p (List.mem_range.mpr hp)
      simpa using this
    simp only [active, Bool.and_eq_false_iff, decide_eq_false_iff_not] at this
    have hle := h.ptr_le p
    rcases this with h1 | h1 <;> omega
  · have := hout p (by omega)
    have hle := h.ptr_le p
    rw [this] at hle ⊢
    simp at hle ⊢; exact hle

theorem gsLoop_sound (I : DA) (hwf : WF I) (np : Nat) (hout : ∀ p, np ≤ p → I.plist p = []) :
    ∀ fuel st st', DAInv I st → gsLoop I np fuel st = some st' → DAInv I st' ∧ Final I st' := by
  intro fuel
  induction fuel with
  | zero => intro st st' _ h; simp [gsLoop] at h
  | succ fuel ih =>
    intro st st' hinv h
    simp only [gsLoop] at h
    split at h
    · exact ih _ _ (round_inv I hwf np st hinv) h
    · rename_i hn
      simp at h; subst h
      have : (List.range np).any (active I st) = false := by simpa using hn
      exact ⟨hinv, not_any_active_final I np st hinv this hout⟩

/-- headline: whatever the loop returns has no blocking pair -/
theorem gsLoop_stable (I : DA) (hwf : WF I) (np : Nat) (hout : ∀ p, np ≤ p → I.plist p = [])
    (fuel : Nat) (st' : St) (h : gsLoop I np fuel St.init = some st') :
    ∀ p r, ¬ BlockingDA I st'.mu p r := by
  obtain ⟨hinv, hfin⟩ := gsLoop_sound I hwf np hout fuel St.init st' (init_inv I) h
  exact final_stable I hwf st' hinv hfin

#print axioms gsLoop_stable
