import Mathlib.Combinatorics.Hall.Basic
import Mathlib.Algebra.BigOperators.Ring.Finset
import Mathlib.Algebra.Order.BigOperators.Ring.Finset
import Mathlib.Algebra.Order.Ring.Rat
import Mathlib.Algebra.Order.Field.Basic
import Mathlib.Data.Fintype.BigOperators
import Mathlib.Tactic.Linarith
import Mathlib.Tactic.Ring

/-! C06 prototype: a non-negative square matrix with equal positive row and column sums has a
permutation inside its support (Hall), and one Birkhoff step keeps the matrix balanced. -/

open Finset

variable {n : ℕ}

structure Balanced (X : Fin n → Fin n → ℚ) (s : ℚ) : Prop where
  nonneg : ∀ i j, 0 ≤ X i j
  row : ∀ i, ∑ j, X i j = s
  col : ∀ j, ∑ i, X i j = s

theorem exists_support_perm (X : Fin n → Fin n → ℚ) (s : ℚ) (hs : 0 < s) (hX : Balanced X s) :
    ∃ σ : Equiv.Perm (Fin n), ∀ i, 0 < X i (σ i) := by
  classical
  let f (i : Fin n) : Finset (Fin n) := {j | X i j ≠ 0}
  have hf (A : Finset (Fin n)) : #A ≤ #(A.biUnion f) := by
    have hrow (i : Fin n) : ∑ j ∈ f i, X i j = s := by
      rw [← hX.row i]
      apply sum_subset (subset_univ _)
      intro j _ hj
      simpa [f] using hj
    have h₁ : ∑ i ∈ A, ∑ j ∈ f i, X i j = #A * s := by simp [hrow]
    have h₂ : ∑ i, ∑ j ∈ A.biUnion f, X i j = #(A.biUnion f) * s := by
      rw [sum_comm]; simp [hX.col]
    suffices (#A : ℚ) * s ≤ #(A.biUnion f) * s by
      exact_mod_cast le_of_mul_le_mul_right this hs
    rw [← h₁, ← h₂]
    calc ∑ i ∈ A, ∑ j ∈ f i, X i j ≤ ∑ i ∈ A, ∑ j ∈ A.biUnion f, X i j := by
          refine sum_le_sum fun i hi => ?_
          exact sum_le_sum_of_subset_of_nonneg (subset_biUnion_of_mem f hi) (fun j _ _ => hX.nonneg i j)
      _ ≤ ∑ i, ∑ j ∈ A.biUnion f, X i j :=
          sum_le_sum_of_subset_of_nonneg (subset_univ _) fun i _ _ => sum_nonneg fun j _ => hX.nonneg i j
  obtain ⟨g, hg, hg'⟩ := (all_card_le_biUnion_card_iff_exists_injective f).1 hf
  have hbij : Function.Bijective g := Finite.injective_iff_bijective.mp hg
  refine ⟨Equiv.ofBijective g hbij, fun i => ?_⟩
  have : X i (g i) ≠ 0 := by simpa [f] using hg' i
  exact lt_of_le_of_ne (hX.nonneg i (g i)) (Ne.symm this)

/-- one Birkhoff step: subtract `z` along a permutation whose entries are all at least `z` -/
def bvnStep (X : Fin n → Fin n → ℚ) (σ : Equiv.Perm (Fin n)) (z : ℚ) : Fin n → Fin n → ℚ :=
  fun i j => X i j - if σ i = j then z else 0

theorem bvnStep_balanced (X : Fin n → Fin n → ℚ) (s : ℚ) (hX : Balanced X s)
    (σ : Equiv.Perm (Fin n)) (z : ℚ) (hz : ∀ i, z ≤ X i (σ i)) :
    Balanced (bvnStep X σ z) (s - z) := by
  refine ⟨?_, ?_, ?_⟩
  · intro i j
    unfold bvnStep
    split
    · next h => subst h; linarith [hz i]
    · simpa using hX.nonneg i j
  · intro i
    unfold bvnStep
    rw [sum_sub_distrib, hX.row i, Finset.sum_ite_eq Finset.univ (σ i) (fun _ => z)]
    simp
  · intro j
    unfold bvnStep
    rw [sum_sub_distrib, hX.col j]
    have : ∑ i, (if σ i = j then z else 0) = z := by
      have h : ∀ i, (if σ i = j then z else 0) = if i = σ.symm j then z else 0 := by
        intro i
        have : σ i = j ↔ i = σ.symm j := by
          constructor
          · intro h; rw [← h]; simp
          · intro h; rw [h]; simp
        simp [this]
      simp only [h]
      rw [Finset.sum_ite_eq' Finset.univ (σ.symm j) (fun _ => z)]
      simp
    rw [this]

/-- reconstruction bookkeeping: the step removes exactly `z · P_σ` -/
theorem bvnStep_recon (X : Fin n → Fin n → ℚ) (σ : Equiv.Perm (Fin n)) (z : ℚ) (i j : Fin n) :
    X i j = bvnStep X σ z i j + z * (if σ i = j then 1 else 0) := by
  unfold bvnStep; split <;> ring

#print axioms exists_support_perm
#print axioms bvnStep_balanced
