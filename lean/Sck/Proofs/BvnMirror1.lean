import Sck.Proofs.McmMirror2
import Sck.Proofs.BvnFull2

/-! C06, the faithful mirror `Mirror.bvnMirror` of `birkhoff_von_neumann`, part 1: the argument check of the matching
routine on the positivity graph is the test `posKeysOkB` of the abstract model, and the mirrored matching routine is an
`OracleOK` matching oracle (it returns a maximum matching of the positivity graph of every balanced non-zero matrix). -/

namespace Mirror

open FH (BGraph keysB posGraph)
open Validate (checkBipartite)

/-! ### the positivity graph as a dict -/

/-- in a dict with distinct keys the list stored in an item is what the lookup returns -/
theorem adjOf_of_mem (d : BGraph) (hnd : (keysB d).Nodup) (e : Int × List Int) (he : e ∈ d) : adjOf d e.1 = e.2 := by
  unfold adjOf
  induction d with
  | nil => simp at he
  | cons a d ih =>
    simp only [keysB, List.map_cons, List.nodup_cons] at hnd
    rw [List.find?_cons]
    rcases List.mem_cons.mp he with rfl | he'
    · simp
    · have hne : (a.1 == e.1) = false := by
        simp only [beq_eq_false_iff_ne, ne_eq]
        intro h
        exact hnd.1 (List.mem_map.mpr ⟨e, he', h.symm⟩)
      rw [hne]
      exact ih hnd.2 he'

/-- every vertex listed in the positivity graph is a row vertex `0 … n-1` or a column vertex `n … 2n-1` -/
theorem posGraph_entries_range (n : Nat) (X : List (List Rat)) (e : Int × List Int) (he : e ∈ posGraph n X)
    (v : Int) (hv : v ∈ e.2) : 0 ≤ v ∧ v < 2 * (n : Int) := by
  have hg := FH.goodB_posGraph n X
  have h1 := adjOf_of_mem _ hg.nodup e he
  unfold posGraph at h1
  rw [FH.adjOf_applyEvents] at h1
  have h2 : adjOf ([] : BGraph) e.1 = [] := rfl
  rw [h2, List.nil_append] at h1
  rw [← h1] at hv
  unfold FH.sel at hv
  obtain ⟨ev, hev, rfl⟩ := List.mem_map.mp hv
  have hev' := (List.mem_filter.mp hev).1
  unfold FH.posEvents at hev'
  obtain ⟨i, hi, hev'⟩ := List.mem_flatMap.mp hev'
  obtain ⟨j, hj, hev'⟩ := List.mem_flatMap.mp hev'
  have hi' := List.mem_range.mp hi
  have hj' := List.mem_range.mp hj
  unfold FH.ev at hev'
  split at hev'
  · simp only [List.mem_cons, List.not_mem_nil, or_false, Int.ofNat_eq_natCast] at hev'
    rcases hev' with rfl | rfl
    · simp only; push_cast; omega
    · simp only; omega
  · simp at hev'

theorem mem_rows_cols (n : Nat) (v : Int) : v ∈ rowVerts n ++ colVerts n ↔ 0 ≤ v ∧ v < 2 * (n : Int) := by
  rw [List.mem_append, mem_rowVerts, mem_colVerts]
  constructor
  · rintro (⟨i, hi, rfl⟩ | ⟨j, hj, rfl⟩)
    · omega
    · push_cast; omega
  · rintro ⟨h0, h2⟩
    by_cases hn : v < (n : Int)
    · exact Or.inl ⟨v.toNat, by omega, by omega⟩
    · exact Or.inr ⟨v.toNat - n, by omega, by push_cast; omega⟩

/-- **`check_bipartite_graph(G_X, range(n), range(n, 2n))` passes iff every row and every column of `X` has a positive
entry** (`n ≥ 1`; for `n = 0` the loop of `birkhoff_von_neumann` never gets there) -/
theorem check_posGraph_iff (n : Nat) (X : List (List Rat)) (hn : 0 < n) :
    checkBipartite (toGArg (posGraph n X)) (rowVerts n) (colVerts n) = .ok () ↔ posKeysOkB n X = true := by
  constructor
  · intro h
    rw [FH.posKeysOkB_iff]
    intro k h0 h2
    exact (check_keys _ _ _ h k).mp ((mem_rows_cols n k).mpr ⟨h0, h2⟩)
  · intro h
    have hkeys := (FH.posKeysOkB_iff n X).mp h
    have w := posGraph_wf n X
    refine check_ok_of _ _ _ ?_ ?_ w.disj ?_ ?_
    · intro hnil
      have := rowVerts_length n
      rw [hnil] at this
      simp at this
      omega
    · intro v
      rw [mem_rows_cols]
      exact ⟨fun hv => hkeys v hv.1 hv.2, FH.keys_posGraph_range n X v⟩
    · intro x hx y hy
      rw [FH.adjOf_posGraph_eq_positivityAdj n X x hx] at hy
      exact w.adjY x hx y hy
    · intro e he v hv
      obtain ⟨h0, h2⟩ := posGraph_entries_range n X e he v hv
      exact hkeys v h0 h2

/-- a square matrix with `n = 0` rows is the zero matrix -/
theorem isZeroB_of_zero (X : List (List Rat)) (hsq : isSquareB 0 X = true) : isZeroB X = true := by
  simp only [isSquareB, Bool.and_eq_true, beq_iff_eq, List.length_eq_zero_iff] at hsq
  rw [hsq.1]
  rfl

/-! ### the mirrored matching routine as an oracle -/

theorem isMatching_congr (X : List Int) (adj adj' : Int → List Int) (h : ∀ x ∈ X, adj x = adj' x)
    (M : List (Int × Int)) : IsMatching X adj M ↔ IsMatching X adj' M := by
  unfold IsMatching
  constructor
  · rintro ⟨h1, h2⟩
    exact ⟨fun p hp => ⟨(h1 p hp).1, h _ (h1 p hp).1 ▸ (h1 p hp).2⟩, h2⟩
  · rintro ⟨h1, h2⟩
    exact ⟨fun p hp => ⟨(h1 p hp).1, (h _ (h1 p hp).1).symm ▸ (h1 p hp).2⟩, h2⟩

theorem bipWfB_congr (X Y : List Int) (adj adj' : Int → List Int) (h : ∀ x ∈ X, adj x = adj' x)
    (hw : bipWfB X Y adj' = true) : bipWfB X Y adj = true := by
  rw [bipWfB_iff] at hw ⊢
  exact ⟨hw.ndX, hw.ndY, hw.disj, hw.sX, hw.sY, hw.tX, hw.tY,
    fun x hx => h x hx ▸ hw.ndAdj x hx, fun x hx y hy => hw.adjY x hx y (h x hx ▸ hy)⟩

/-- on a square matrix the oracle is the mirrored matching routine on `posGraph` -/
theorem mirrorPairs_eq (n : Nat) (X : List (List Rat)) (hsq : isSquareB n X = true) :
    mirrorPairs n X =
      match mcmMirror (posGraph n X) (rowVerts n) (colVerts n) with
      | .error _ => .error .fuel
      | .ok M => .ok M := by
  unfold mirrorPairs
  rw [FH.positivityGraph_eq n X hsq]
  rfl

/-- the mirrored matching routine on the positivity graph of a square matrix all of whose rows and columns have a
positive entry: no failure, a maximum matching of the positivity graph -/
theorem mcmMirror_posGraph (n : Nat) (X : List (List Rat)) (hk : posKeysOkB n X = true) :
    ∃ M, mcmMirror (posGraph n X) (rowVerts n) (colVerts n) = .ok M ∧
      IsMatching (rowVerts n) (positivityAdj n X) M ∧
      ∀ M', IsMatching (rowVerts n) (positivityAdj n X) M' → M'.length ≤ M.length := by
  have hadj : ∀ x ∈ rowVerts n, adjOf (posGraph n X) x = positivityAdj n X x :=
    FH.adjOf_posGraph_eq_positivityAdj n X
  have hwf : bipWfB (rowVerts n) (colVerts n) (adjOf (posGraph n X)) = true :=
    bipWfB_congr _ _ _ _ hadj (posGraph_wfB n X)
  have hkeys : ∀ x ∈ rowVerts n, x ∈ keysB (posGraph n X) := by
    intro x hx
    have := (mem_rows_cols n x).mp (List.mem_append_left _ hx)
    exact (FH.posKeysOkB_iff n X).mp hk x this.1 this.2
  obtain ⟨M, hM, hm, hmax⟩ := mcmMirror_correct (posGraph n X) (rowVerts n) (colVerts n) hwf hkeys
  refine ⟨M, hM, (isMatching_congr _ _ _ hadj M).mp hm, fun M' hM' => ?_⟩
  exact hmax M' ((isMatching_congr _ _ _ hadj M').mpr hM')

/-- **the mirrored matching routine is a maximum-matching oracle** for the loop of `birkhoff_von_neumann` -/
theorem mirrorPairs_ok (n : Nat) : OracleOK n (mirrorPairs n) := by
  intro Y t hbal hnz
  have hsq := isBalancedB_square Y t hbal
  obtain ⟨sigma, hp, hs⟩ := bvn_progress_aux Y t hbal hnz
  have hk := posKeysOkB_of_support n Y sigma hsq hp hs
  obtain ⟨M, hM, hm, hmax⟩ := mcmMirror_posGraph n Y hk
  refine ⟨M, ?_, hm, hmax⟩
  rw [mirrorPairs_eq n Y hsq, hM]

end Mirror
