import Sck.Model.GsMirror

/-! L5: the binary-heap array operations of `heapq` (`GsMirror.hpush`, `GsMirror.hpop`) are correct:
they keep the heap invariant, permute the contents, and `hpop` removes a minimum. -/

namespace GsMirror

/-- the `heapq` invariant: every element is at least its parent -/
def IsHeap (l : List Int) : Prop :=
  ∀ i, 0 < i → i < l.length → l.getD ((i - 1) / 2) 0 ≤ l.getD i 0

theorem isHeap_nil : IsHeap [] := by intro i _ h; simp at h

theorem length_swapAt (l : List Int) (i j : Nat) : (swapAt l i j).length = l.length := by simp [swapAt]

theorem getD_swapAt (l : List Int) (i j : Nat) (hi : i < l.length) (hj : j < l.length) (k : Nat) :
    (swapAt l i j).getD k 0 = if k = j then l.getD i 0 else if k = i then l.getD j 0 else l.getD k 0 := by
  unfold swapAt
  simp only [List.getD_eq_getElem?_getD, List.getElem?_set, List.length_set]
  by_cases h1 : k = j
  · subst h1; simp [hj]
  · by_cases h2 : k = i
    · subst h2; simp [hi, h1, Ne.symm h1]
    · simp [h1, h2, Ne.symm h1, Ne.symm h2]

theorem getD_swapAt_left (l : List Int) (i j : Nat) (hi : i < l.length) (hj : j < l.length) (h : i ≠ j) :
    (swapAt l i j).getD i 0 = l.getD j 0 := by
  rw [getD_swapAt l i j hi hj, if_neg h, if_pos rfl]

theorem getD_swapAt_right (l : List Int) (i j : Nat) (hi : i < l.length) (hj : j < l.length) :
    (swapAt l i j).getD j 0 = l.getD i 0 := by
  rw [getD_swapAt l i j hi hj, if_pos rfl]

theorem getD_swapAt_other (l : List Int) (i j : Nat) (hi : i < l.length) (hj : j < l.length) (k : Nat)
    (h1 : k ≠ i) (h2 : k ≠ j) : (swapAt l i j).getD k 0 = l.getD k 0 := by
  rw [getD_swapAt l i j hi hj, if_neg h2, if_neg h1]

theorem set_perm_cons (t : List Int) (k : Nat) (a : Int) (hk : k < t.length) :
    (t.getD k 0 :: t.set k a).Perm (a :: t) := by
  induction t generalizing k with
  | nil => simp at hk
  | cons b t ih =>
    cases k with
    | zero => simp; exact List.Perm.swap _ _ _
    | succ k =>
      simp only [List.length_cons, Nat.add_lt_add_iff_right] at hk
      have := ih k hk
      simp only [List.getD_cons_succ, List.set_cons_succ]
      exact (List.Perm.swap _ _ _).trans (((List.Perm.cons b this)).trans (List.Perm.swap _ _ _))

theorem swapAt_perm_lt (l : List Int) (i j : Nat) (hij : i < j) (hj : j < l.length) : (swapAt l i j).Perm l := by
  induction l generalizing i j with
  | nil => simp at hj
  | cons a t ih =>
    cases j with
    | zero => omega
    | succ j =>
      simp only [List.length_cons, Nat.add_lt_add_iff_right] at hj
      cases i with
      | zero =>
        simp only [swapAt, List.set_cons_zero, List.getD_cons_succ, List.set_cons_succ, List.getD_cons_zero]
        exact set_perm_cons t j a hj
      | succ i =>
        have := ih i j (by omega) hj
        simp only [swapAt, List.getD_cons_succ, List.set_cons_succ] at this ⊢
        exact List.Perm.cons a this

theorem swapAt_comm (l : List Int) (i j : Nat) (h : i ≠ j) : swapAt l i j = swapAt l j i := by
  unfold swapAt
  rw [List.set_comm _ _ h]

theorem swapAt_perm (l : List Int) (i j : Nat) (hi : i < l.length) (hj : j < l.length) (h : i ≠ j) :
    (swapAt l i j).Perm l := by
  rcases Nat.lt_or_gt_of_ne h with h1 | h1
  · exact swapAt_perm_lt l i j h1 hj
  · rw [swapAt_comm l i j h]; exact swapAt_perm_lt l j i h1 hi

/-! ### `_siftdown` -/

/-- all parent/child inequalities hold except possibly the one between `pos` and its parent; the
parent of `pos` is at most the children of `pos` -/
structure HeapUp (l : List Int) (pos : Nat) : Prop where
  rel : ∀ i, 0 < i → i < l.length → i ≠ pos → l.getD ((i - 1) / 2) 0 ≤ l.getD i 0
  grand : 0 < pos → ∀ c, 0 < c → c < l.length → (c - 1) / 2 = pos → l.getD ((pos - 1) / 2) 0 ≤ l.getD c 0

theorem siftDown_length (f : Nat) (l : List Int) (pos : Nat) : (siftDown f l pos).length = l.length := by
  induction f generalizing l pos with
  | zero => rfl
  | succ f ih =>
    simp only [siftDown]
    split
    · rfl
    · split
      · rw [ih, length_swapAt]
      · rfl

theorem siftDown_perm (f : Nat) (l : List Int) (pos : Nat) (hpos : pos < l.length) :
    (siftDown f l pos).Perm l := by
  induction f generalizing l pos with
  | zero => exact List.Perm.refl _
  | succ f ih =>
    simp only [siftDown]
    split
    · exact List.Perm.refl _
    · split
      · have hpar : (pos - 1) / 2 < l.length := by omega
        exact (ih _ _ (by rw [length_swapAt]; exact hpar)).trans
          (swapAt_perm l pos ((pos - 1) / 2) hpos hpar (by omega))
      · exact List.Perm.refl _

theorem siftDown_isHeap (f : Nat) (l : List Int) (pos : Nat) (hf : pos ≤ f) (hpos : pos < l.length)
    (h : HeapUp l pos) : IsHeap (siftDown f l pos) := by
  induction f generalizing l pos with
  | zero =>
    have : pos = 0 := by omega
    subst this
    intro i hi hl
    exact h.rel i hi hl (by omega)
  | succ f ih =>
    simp only [siftDown]
    split
    · rename_i h0
      subst h0
      intro i hi hl
      exact h.rel i hi hl (by omega)
    · rename_i h0
      have hpar : (pos - 1) / 2 < l.length := by omega
      split
      · rename_i hlt
        apply ih _ _ (by omega) (by rw [length_swapAt]; exact hpar)
        have hne' : pos ≠ (pos - 1) / 2 := by omega
        have gL := getD_swapAt_left l pos ((pos - 1) / 2) hpos hpar hne'
        have gR := getD_swapAt_right l pos ((pos - 1) / 2) hpos hpar
        have gO := getD_swapAt_other l pos ((pos - 1) / 2) hpos hpar
        constructor
        · intro i hi hl hne
          rw [length_swapAt] at hl
          by_cases h1 : i = pos
          · subst h1
            rw [gL, gR]; omega
          · have hrel := h.rel i hi hl h1
            rw [gO i h1 hne]
            by_cases h2 : (i - 1) / 2 = pos
            · rw [h2, gL]
              exact h.grand (by omega) i hi hl h2
            · by_cases h3 : (i - 1) / 2 = (pos - 1) / 2
              · rw [h3, gR]
                rw [h3] at hrel
                omega
              · rw [gO _ h2 h3]
                exact hrel
        · intro hp c hc hcl hcp
          rw [length_swapAt] at hcl
          have hgg : l.getD (((pos - 1) / 2 - 1) / 2) 0 ≤ l.getD ((pos - 1) / 2) 0 :=
            h.rel ((pos - 1) / 2) hp hpar (by omega)
          rw [gO (((pos - 1) / 2 - 1) / 2) (by omega) (by omega)]
          by_cases h1 : c = pos
          · rw [h1, gL]; exact hgg
          · rw [gO c h1 (by omega)]
            have := h.rel c hc hcl h1
            rw [hcp] at this
            omega
      · rename_i hge
        intro i hi hl
        by_cases h1 : i = pos
        · subst h1; omega
        · exact h.rel i hi hl h1

theorem getD_append_left' (l : List Int) (x : Int) (i : Nat) (h : i < l.length) :
    (l ++ [x]).getD i 0 = l.getD i 0 := by
  simp [List.getD_eq_getElem?_getD, List.getElem?_append_left h]

theorem hpush_perm (l : List Int) (x : Int) : (hpush l x).Perm (x :: l) := by
  unfold hpush
  exact (siftDown_perm _ _ _ (by simp)).trans (List.perm_append_singleton x l)

theorem hpush_length (l : List Int) (x : Int) : (hpush l x).length = l.length + 1 := by
  unfold hpush; rw [siftDown_length]; simp

theorem hpush_isHeap (l : List Int) (x : Int) (h : IsHeap l) : IsHeap (hpush l x) := by
  unfold hpush
  apply siftDown_isHeap _ _ _ (Nat.le_refl _) (by simp)
  constructor
  · intro i hi hl hne
    simp only [List.length_append, List.length_singleton] at hl
    have hil : i < l.length := by omega
    rw [getD_append_left' l x i hil, getD_append_left' l x _ (by omega)]
    exact h i hi hil
  · intro hp c hc hcl hcp
    simp only [List.length_append, List.length_singleton] at hcl
    omega

/-! ### `_siftup` -/

/-- all parent/child inequalities hold except those in which `pos` takes part; the parent of `pos` is
at most the children of `pos` -/
structure HeapHole (l : List Int) (pos : Nat) : Prop where
  rel : ∀ i, 0 < i → i < l.length → i ≠ pos → (i - 1) / 2 ≠ pos → l.getD ((i - 1) / 2) 0 ≤ l.getD i 0
  grand : 0 < pos → ∀ c, 0 < c → c < l.length → (c - 1) / 2 = pos → l.getD ((pos - 1) / 2) 0 ≤ l.getD c 0

theorem sinkToLeaf_spec (f : Nat) (l : List Int) (pos : Nat) (hpos : pos < l.length)
    (hf : l.length ≤ pos + f) (h : HeapHole l pos) :
    (sinkToLeaf f l pos).1.Perm l ∧ (sinkToLeaf f l pos).2 < l.length ∧
    HeapUp (sinkToLeaf f l pos).1 (sinkToLeaf f l pos).2 := by
  induction f generalizing l pos with
  | zero => omega
  | succ f ih =>
    simp only [sinkToLeaf]
    split
    · rename_i hc
      generalize hc' : (if (2 * pos + 1 + 1 < l.length && !decide (l.getD (2 * pos + 1) 0 < l.getD (2 * pos + 1 + 1) 0)) = true
        then 2 * pos + 1 + 1 else 2 * pos + 1) = c'
      have hc'l : c' < l.length := by
        rw [← hc']; split
        · rename_i hh; simp only [Bool.and_eq_true, decide_eq_true_eq] at hh; exact hh.1
        · exact hc
      have hc'p : c' = 2 * pos + 1 ∨ c' = 2 * pos + 2 := by
        rw [← hc']; split <;> omega
      -- the chosen child is at most its sibling
      have hsib : ∀ i, i < l.length → (i - 1) / 2 = pos → 0 < i → l.getD c' 0 ≤ l.getD i 0 := by
        intro i hil hip hi0
        have hi : i = 2 * pos + 1 ∨ i = 2 * pos + 1 + 1 := by omega
        rw [← hc']
        split
        · rename_i hh
          simp only [Bool.and_eq_true, decide_eq_true_eq, Bool.not_eq_true', decide_eq_false_iff_not] at hh
          rcases hi with rfl | rfl
          · omega
          · exact Int.le_refl _
        · rename_i hh
          simp only [Bool.and_eq_true, decide_eq_true_eq, Bool.not_eq_true', decide_eq_false_iff_not, not_and,
            Decidable.not_not] at hh
          rcases hi with rfl | rfl
          · exact Int.le_refl _
          · have := hh hil; omega
      have hne' : pos ≠ c' := by omega
      have gL := getD_swapAt_left l pos c' hpos hc'l hne'
      have gR := getD_swapAt_right l pos c' hpos hc'l
      have gO := getD_swapAt_other l pos c' hpos hc'l
      have key : HeapHole (swapAt l pos c') c' := by
        constructor
        · intro i hi hl hne hpne
          rw [length_swapAt] at hl
          by_cases h1 : i = pos
          · subst h1
            rw [gL, gO _ (by omega) hpne]
            exact h.grand hi c' (by omega) hc'l (by omega)
          · rw [gO i h1 hne]
            by_cases h2 : (i - 1) / 2 = pos
            · rw [h2, gL]
              exact hsib i hl h2 hi
            · rw [gO _ h2 hpne]
              exact h.rel i hi hl h1 h2
        · intro hp c hc0 hcl hcp
          rw [length_swapAt] at hcl
          have hpp : (c' - 1) / 2 = pos := by omega
          rw [hpp, gL, gO c (by omega) (by omega)]
          have := h.rel c hc0 hcl (by omega) (by omega)
          rw [hcp] at this
          exact this
      have := ih (swapAt l pos c') c' (by rw [length_swapAt]; exact hc'l) (by rw [length_swapAt]; omega) key
      rw [length_swapAt] at this
      exact ⟨this.1.trans (swapAt_perm l pos c' hpos hc'l (by omega)), this.2.1, this.2.2⟩
    · rename_i hc
      refine ⟨List.Perm.refl _, hpos, ?_, ?_⟩
      · intro i hi hl hne
        dsimp only at hl ⊢
        exact h.rel i hi hl hne (by omega)
      · intro hp c hc0 hcl hcp
        dsimp only at hp hcl hcp ⊢
        omega

theorem siftUp0_spec (l : List Int) (hl : l ≠ []) (h : HeapHole l 0) :
    (siftUp0 l).Perm l ∧ IsHeap (siftUp0 l) := by
  have hlen : 0 < l.length := List.length_pos_iff.mpr hl
  obtain ⟨h1, h2, h3⟩ := sinkToLeaf_spec l.length l 0 hlen (by omega) h
  unfold siftUp0
  have hlen2 : (sinkToLeaf l.length l 0).1.length = l.length := h1.length_eq
  exact ⟨(siftDown_perm _ _ _ (by omega)).trans h1, siftDown_isHeap _ _ _ (Nat.le_refl _) (by omega) h3⟩

/-- the root of a heap is a minimum -/
theorem isHeap_root_le (l : List Int) (h : IsHeap l) (i : Nat) (hi : i < l.length) : l.getD 0 0 ≤ l.getD i 0 := by
  induction i using Nat.strongRecOn with
  | _ i ih =>
    by_cases h0 : i = 0
    · subst h0; exact Int.le_refl _
    · have h1 := h i (by omega) hi
      have h2 := ih ((i - 1) / 2) (by omega) (by omega)
      omega

theorem isHeap_head_le (a : Int) (t : List Int) (h : IsHeap (a :: t)) : ∀ x ∈ a :: t, a ≤ x := by
  intro x hx
  obtain ⟨i, hi, rfl⟩ := List.getElem_of_mem hx
  have := isHeap_root_le (a :: t) h i hi
  simpa [List.getD_eq_getElem?_getD, List.getElem?_eq_getElem hi] using this

theorem hpop_ne_none (l : List Int) (hl : l ≠ []) : hpop l ≠ none := by
  unfold hpop
  rw [List.getLast?_eq_some_getLast hl]
  simp only
  split <;> simp

theorem heapHole_replace_root (h0 last : Int) (rest : List Int) (h : IsHeap ((h0 :: rest) ++ [last])) :
    HeapHole (last :: rest) 0 := by
  constructor
  · intro i hi hil hne hpne
    have := h i hi (by simp at hil ⊢; omega)
    have e1 : ((h0 :: rest) ++ [last]).getD i 0 = (last :: rest).getD i 0 := by
      rw [getD_append_left' _ _ _ (by simpa using hil)]
      cases i with
      | zero => omega
      | succ i => rfl
    have e2 : ((h0 :: rest) ++ [last]).getD ((i - 1) / 2) 0 = (last :: rest).getD ((i - 1) / 2) 0 := by
      rw [getD_append_left' _ _ _ (by simp at hil ⊢; omega)]
      cases hq : (i - 1) / 2 with
      | zero => omega
      | succ q => rfl
    rw [← e1, ← e2]; exact this
  · intro hp; omega

theorem hpop_concat (init : List Int) (last : Int) :
    hpop (init ++ [last]) = match init with
      | [] => some (last, [])
      | h0 :: rest => some (h0, siftUp0 (last :: rest)) := by
  unfold hpop
  simp only [List.getLast?_append, List.getLast?_singleton, List.dropLast_concat]
  rfl

/-- `heappop` on a non-empty heap: returns a minimum, the rest is a heap holding the other elements -/
theorem hpop_spec (l : List Int) (h : IsHeap l) (e : Int) (l' : List Int) (hp : hpop l = some (e, l')) :
    e ∈ l ∧ (∀ x ∈ l, e ≤ x) ∧ l'.Perm (l.erase e) ∧ IsHeap l' := by
  have hl : l ≠ [] := by
    intro hn; subst hn; simp [hpop] at hp
  obtain ⟨init, last, rfl⟩ : ∃ init last, l = init ++ [last] :=
    ⟨l.dropLast, l.getLast hl, (List.dropLast_concat_getLast hl).symm⟩
  rw [hpop_concat] at hp
  cases init with
  | nil =>
    simp only [Option.some.injEq, Prod.mk.injEq] at hp
    obtain ⟨rfl, rfl⟩ := hp
    simp [isHeap_nil]
  | cons h0 rest =>
    simp only [Option.some.injEq, Prod.mk.injEq] at hp
    obtain ⟨rfl, rfl⟩ := hp
    have hmin := isHeap_head_le h0 (rest ++ [last]) h
    have hh := heapHole_replace_root h0 last rest h
    have hs := siftUp0_spec (last :: rest) (by simp) hh
    refine ⟨by simp, hmin, ?_, hs.2⟩
    refine hs.1.trans ?_
    simp only [List.cons_append, List.erase_cons_head]
    exact (List.perm_append_singleton _ _).symm

theorem hpop_total (l : List Int) (h : IsHeap l) (hne : l ≠ []) :
    ∃ e l', hpop l = some (e, l') ∧ e ∈ l ∧ (∀ x ∈ l, e ≤ x) ∧ l'.Perm (l.erase e) ∧ IsHeap l' := by
  obtain ⟨⟨e, l'⟩, hp⟩ := Option.ne_none_iff_exists'.mp (hpop_ne_none l hne)
  exact ⟨e, l', hp, hpop_spec l h e l' hp⟩

end GsMirror
