import Sck.Proofs.GsHosp

/-! C02: resident-optimality of the resident-oriented result and resident-pessimality of the
hospital-oriented result, against an arbitrary stable matching given as a list of pairs. -/

theorem exists_mem_of_length_eq_one {l : List Nat} (h : l.length = 1) : ∃ a, a ∈ l := by
  match l, h with
  | [a], _ => exact ⟨a, by simp⟩

/-- `r` weakly prefers `h` to `h'` (both acceptable): the rank of `h` is at most the rank of `h'` -/
def ResWeaklyPrefers (I : HR) (r h h' : Nat) : Prop :=
  ∃ x x', rankAt I.R r h = some x ∧ rankAt I.R r h' = some x' ∧ x ≤ x'

/-- **C02, resident-oriented.** Whoever is matched in some stable matching is matched in the
resident-oriented result, to a hospital it likes at least as much. -/
theorem gsRes_resident_optimal (I : HR) (hwf : I.WF2) (mu : List (Nat × Nat)) (hmu : gsRes I = some mu)
    (nu : List (Nat × Nat)) (hst : StableHR I nu) :
    ∀ r h', (r, h') ∈ nu → ∃ h, (r, h) ∈ mu ∧ ResWeaklyPrefers I r h h' := by
  intro r h' hnu
  simp only [gsRes, Option.map_eq_some_iff] at hmu
  obtain ⟨st, hloop, rfl⟩ := hmu
  obtain ⟨x', hx'⟩ := ne_none_iff_exists_some.mp (hst.1.acc r h' hnu).1
  have hda := (stableDA_res_iff I hwf nu).mpr hst
  rcases gs_proposer_optimal (daRes I) (daRes_wf2 I hwf) I.n (daRes_out I) _ st hloop nu hda r h' hnu with
    hm | ⟨hlen, hall⟩
  · exact ⟨h', hm, x', x', hx', hx', Nat.le_refl _⟩
  · have h1 : (matchesOf st.mu r).length = 1 := hlen
    obtain ⟨h, hh⟩ := exists_mem_of_length_eq_one h1
    obtain ⟨x, y, hx, hy, hlt⟩ := (prefersP_res I hwf r h h').mp (hall h hh)
    rw [hx'] at hy; cases hy
    exact ⟨h, mem_matchesOf.mp hh, x, x', hx, hx', Nat.le_of_lt hlt⟩

/-- **C02, hospital-oriented.** Whoever is matched in the hospital-oriented result is matched in
every stable matching, to a hospital it likes at least as much. -/
theorem gsHosp_resident_pessimal (I : HR) (hwf : I.WF2) (mu : List (Nat × Nat)) (hmu : gsHosp I = some mu)
    (nu : List (Nat × Nat)) (hst : StableHR I nu) :
    ∀ r h, (r, h) ∈ mu → ∃ h', (r, h') ∈ nu ∧ ResWeaklyPrefers I r h' h := by
  intro r h hm
  obtain ⟨st, hloop, hsw⟩ := gsHosp_eq_some I mu hmu
  have hfeas := gsHosp_feasible I hwf mu hmu
  obtain ⟨x, hx⟩ := ne_none_iff_exists_some.mp (hfeas.acc r h hm).1
  by_cases hin : (r, h) ∈ nu
  · exact ⟨h, hin, x, x, hx, hx, Nat.le_refl _⟩
  · have hda := (stableDA_hosp_iff I hwf nu).mpr hst
    have hm' : (h, r) ∈ st.mu := by rw [hsw]; exact mem_swapL.mpr hm
    have hnin : (h, r) ∉ swapL nu := fun hc => hin (mem_swapL.mp hc)
    obtain ⟨a, ha, hlen, hall⟩ :=
      gs_receiver_pessimal (daHosp I) (daHosp_wf2 I hwf) I.m _ st hloop (swapL nu) hda h r hm' hnin
    have ha' : rankAt I.R r h = some a := ha
    rw [hx] at ha'; cases ha'
    rw [heldBy_swapL] at hlen hall
    have h1 : (matchesOf nu r).length = 1 := hlen
    obtain ⟨h', hh'⟩ := exists_mem_of_length_eq_one h1
    obtain ⟨b, hb, hlt⟩ := hall h' hh'
    exact ⟨h', mem_matchesOf.mp hh', b, x, hb, hx, Nat.le_of_lt hlt⟩

/-- unmatched in the resident-oriented result ⇒ unmatched in every stable matching -/
theorem gsRes_unmatched_everywhere (I : HR) (hwf : I.WF2) (mu : List (Nat × Nat)) (hmu : gsRes I = some mu)
    (nu : List (Nat × Nat)) (hst : StableHR I nu) (r : Nat) (hun : ∀ h, (r, h) ∉ mu) :
    ∀ h', (r, h') ∉ nu := by
  intro h' hnu
  obtain ⟨h, hm, _⟩ := gsRes_resident_optimal I hwf mu hmu nu hst r h' hnu
  exact hun h hm

/-! ### "a function of the instance alone": uniqueness of the optimal stable matching -/

/-- `mu` is at least as good for every resident as any stable matching -/
def ResidentOptimal (I : HR) (mu : List (Nat × Nat)) : Prop :=
  ∀ nu, StableHR I nu → ∀ r h', (r, h') ∈ nu → ∃ h, (r, h) ∈ mu ∧ ResWeaklyPrefers I r h h'

/-- `mu` is at most as good for every resident as any stable matching -/
def ResidentPessimal (I : HR) (mu : List (Nat × Nat)) : Prop :=
  ∀ nu, StableHR I nu → ∀ r h, (r, h) ∈ mu → ∃ h', (r, h') ∈ nu ∧ ResWeaklyPrefers I r h' h

theorem resWeaklyPrefers_antisymm (I : HR) (hwf : I.WF2) (r h h' : Nat)
    (h1 : ResWeaklyPrefers I r h h') (h2 : ResWeaklyPrefers I r h' h) : h = h' := by
  obtain ⟨x, x', hx, hx', hle⟩ := h1
  obtain ⟨y', y, hy', hy, hle'⟩ := h2
  rw [hx] at hy; cases hy
  rw [hx'] at hy'; cases hy'
  have : x = x' := by omega
  subst this
  exact rankAt_inj I.R hwf.strictR r h h' x hx hx'

/-- two stable resident-optimal matchings have the same pairs -/
theorem residentOptimal_unique (I : HR) (hwf : I.WF2) (mu mu' : List (Nat × Nat))
    (hs : StableHR I mu) (hs' : StableHR I mu') (ho : ResidentOptimal I mu) (ho' : ResidentOptimal I mu') :
    ∀ e, e ∈ mu ↔ e ∈ mu' := by
  suffices key : ∀ (a b : List (Nat × Nat)), StableHR I a → StableHR I b → ResidentOptimal I a →
      ResidentOptimal I b → ∀ r h, (r, h) ∈ a → (r, h) ∈ b by
    intro ⟨r, h⟩
    exact ⟨key mu mu' hs hs' ho ho' r h, key mu' mu hs' hs ho' ho r h⟩
  intro a b hsa hsb hoa hob r h hm
  obtain ⟨h1, hm1, hp1⟩ := hob a hsa r h hm
  obtain ⟨h2, hm2, hp2⟩ := hoa b hsb r h1 hm1
  have : h2 = h := hsa.1.resOnce r h2 h hm2 hm
  subst this
  have := resWeaklyPrefers_antisymm I hwf r h1 h2 hp1 hp2
  subst this; exact hm1

/-- two stable resident-pessimal matchings have the same pairs -/
theorem residentPessimal_unique (I : HR) (hwf : I.WF2) (mu mu' : List (Nat × Nat))
    (hs : StableHR I mu) (hs' : StableHR I mu') (ho : ResidentPessimal I mu) (ho' : ResidentPessimal I mu') :
    ∀ e, e ∈ mu ↔ e ∈ mu' := by
  suffices key : ∀ (a b : List (Nat × Nat)), StableHR I a → StableHR I b → ResidentPessimal I a →
      ResidentPessimal I b → ∀ r h, (r, h) ∈ a → (r, h) ∈ b by
    intro ⟨r, h⟩
    exact ⟨key mu mu' hs hs' ho ho' r h, key mu' mu hs' hs ho' ho r h⟩
  intro a b hsa hsb hoa hob r h hm
  obtain ⟨h1, hm1, hp1⟩ := hoa b hsb r h hm
  obtain ⟨h2, hm2, hp2⟩ := hob a hsa r h1 hm1
  have : h2 = h := hsa.1.resOnce r h2 h hm2 hm
  subst this
  have := resWeaklyPrefers_antisymm I hwf r h1 h2 hp1 hp2
  subst this; exact hm1

theorem gsRes_residentOptimal (I : HR) (hwf : I.WF2) (mu : List (Nat × Nat)) (hmu : gsRes I = some mu) :
    ResidentOptimal I mu := fun nu hst => gsRes_resident_optimal I hwf mu hmu nu hst

theorem gsHosp_residentPessimal (I : HR) (hwf : I.WF2) (mu : List (Nat × Nat)) (hmu : gsHosp I = some mu) :
    ResidentPessimal I mu := fun nu hst => gsHosp_resident_pessimal I hwf mu hmu nu hst

#print axioms gsRes_resident_optimal
#print axioms gsHosp_resident_pessimal
#print axioms residentOptimal_unique
