import Sck.Proofs.BruteSpec
import Sck.Proofs.Hall
import Sck.Proofs.SMCertProof
import Mathlib.SetTheory.Cardinal.Finite

/-! Brute-force reference (C04, C03/C17), part 2: specification of `optAssign` / `optStable` / `countStable`, in list form and
in the `Equiv.Perm (Fin n)` form used by the certificate theorems, and the bridges to the certificate checkers. -/

open Finset

namespace Brute

theorem ratLe_iff (a b : Rat) : (fun a b : Rat => decide (a ≤ b)) a b = true ↔ a ≤ b := by simp
theorem intLe_iff (a b : Int) : (fun a b : Int => decide (a ≤ b)) a b = true ↔ a ≤ b := by simp

/-! ### C04 -/

/-- **list form**: `optAssign = some v` iff `v` is attained by an acceptable permutation and bounds them all -/
theorem optAssign_eq_some_iff (n : Nat) (W : List (List (Option Rat))) (v : Rat) :
    optAssign n W = some v ↔
      (∃ σ : List Nat, σ.Perm (List.range n) ∧ assignValue W σ = some v) ∧
      (∀ σ : List Nat, σ.Perm (List.range n) → ∀ x, assignValue W σ = some x → x ≤ v) := by
  unfold optAssign
  rw [maxOf_eq_some _ ratLe_iff]
  simp only [List.mem_filterMap, perms_complete]
  constructor
  · rintro ⟨h1, h2⟩
    exact ⟨h1, fun σ hσ x hx => h2 x ⟨σ, hσ, hx⟩⟩
  · rintro ⟨h1, h2⟩
    exact ⟨h1, fun x ⟨σ, hσ, hx⟩ => h2 σ hσ x hx⟩

theorem optAssign_eq_none_iff (n : Nat) (W : List (List (Option Rat))) :
    optAssign n W = none ↔ ∀ σ : List Nat, σ.Perm (List.range n) → assignValue W σ = none := by
  unfold optAssign
  rw [maxOf_eq_none, List.filterMap_eq_nil_iff]
  simp only [perms_complete]

/-- value of the list of a permutation of `Fin n` -/
theorem assignValue_listOfPerm {n : Nat} (W : List (List (Option Rat))) (τ : Equiv.Perm (Fin n)) (v : Rat) :
    assignValue W (listOfPerm τ) = some v ↔
      (∀ i : Fin n, (entry W i (τ i)).isSome) ∧ v = ∑ i : Fin n, (entry W i (τ i)).getD 0 := by
  unfold assignValue
  rw [assignValueFrom_eq_some W n n (listOfPerm τ) 0 v (by simp [listOfPerm])]
  simp only [Nat.zero_add, listOfPerm_getD]

/-- value of a list of length `n` (entries read with `getD · n`, as `permOfLists` does) -/
theorem assignValue_eq_some_iff (n : Nat) (W : List (List (Option Rat))) (σ : List Nat) (hl : σ.length = n) (v : Rat) :
    assignValue W σ = some v ↔
      (∀ i : Fin n, (entry W i (σ.getD i n)).isSome) ∧ v = ∑ i : Fin n, (entry W i (σ.getD i n)).getD 0 := by
  unfold assignValue
  rw [assignValueFrom_eq_some W n n σ 0 v hl]
  simp only [Nat.zero_add]

/-- **`Equiv.Perm` form** (values read with `getD 0`) -/
theorem optAssign_eq_some_iff_perm (n : Nat) (W : List (List (Option Rat))) (v : Rat) :
    optAssign n W = some v ↔
      (∃ τ : Equiv.Perm (Fin n), (∀ i : Fin n, (entry W i (τ i)).isSome) ∧
          ∑ i : Fin n, (entry W i (τ i)).getD 0 = v) ∧
      (∀ τ : Equiv.Perm (Fin n), (∀ i : Fin n, (entry W i (τ i)).isSome) →
          ∑ i : Fin n, (entry W i (τ i)).getD 0 ≤ v) := by
  rw [optAssign_eq_some_iff]
  constructor
  · rintro ⟨⟨σ, hσ, hv⟩, hmax⟩
    refine ⟨⟨permOfList n σ hσ, ?_⟩, fun τ hτ => ?_⟩
    · rw [← listOfPerm_permOfList n σ hσ, assignValue_listOfPerm] at hv
      exact ⟨hv.1, hv.2.symm⟩
    · exact hmax (listOfPerm τ) (listOfPerm_perm τ) _ ((assignValue_listOfPerm W τ _).mpr ⟨hτ, rfl⟩)
  · rintro ⟨⟨τ, hτ, hv⟩, hmax⟩
    refine ⟨⟨listOfPerm τ, listOfPerm_perm τ, (assignValue_listOfPerm W τ v).mpr ⟨hτ, hv.symm⟩⟩, fun σ hσ x hx => ?_⟩
    rw [← listOfPerm_permOfList n σ hσ, assignValue_listOfPerm] at hx
    rw [hx.2]
    exact hmax _ hx.1

theorem optAssign_eq_none_iff_perm (n : Nat) (W : List (List (Option Rat))) :
    optAssign n W = none ↔ ¬ ∃ τ : Equiv.Perm (Fin n), ∀ i : Fin n, (entry W i (τ i)).isSome := by
  rw [optAssign_eq_none_iff]
  constructor
  · rintro h ⟨τ, hτ⟩
    have := h (listOfPerm τ) (listOfPerm_perm τ)
    rw [(assignValue_listOfPerm W τ _).mpr ⟨hτ, rfl⟩] at this
    cases this
  · intro h σ hσ
    cases hv : assignValue W σ with
    | none => rfl
    | some v =>
      rw [← listOfPerm_permOfList n σ hσ, assignValue_listOfPerm] at hv
      exact absurd ⟨_, hv.1⟩ h

/-- **bridge to the certificate checker**: an accepted certificate with slack `delta` pins `optAssign` between the value
of `sigma` and that value plus `n·delta` -/
theorem cert_value_opt (n : Nat) (w : List (List (Option Rat))) (sigma inv : List Nat) (u v : List Rat) (delta : Rat)
    (hok : assignCertOk n w sigma inv u v delta = true) :
    ∃ val opt : Rat, assignValue w sigma = some val ∧ optAssign n w = some opt ∧
      val ≤ opt ∧ opt ≤ val + n * delta := by
  have hp := assignCertOk_perm n w sigma inv u v delta hok
  have hacc := assignCertOk_acceptable n w sigma inv u v delta hok hp
  have hl : sigma.length = n := by
    simp only [isPermWith, Bool.and_eq_true, beq_iff_eq] at hp; exact hp.1.1.1
  have hval := (assignValue_eq_some_iff n w sigma hl _).mpr ⟨hacc, rfl⟩
  cases hopt : optAssign n w with
  | none => exact absurd ⟨permOfLists n sigma inv hp, hacc⟩ ((optAssign_eq_none_iff_perm n w).mp hopt)
  | some opt =>
    obtain ⟨⟨τ, hτ, hτv⟩, hmax⟩ := (optAssign_eq_some_iff_perm n w opt).mp hopt
    refine ⟨_, opt, hval, rfl, hmax (permOfLists n sigma inv hp) hacc, ?_⟩
    obtain ⟨_, _, h⟩ := assignCertOk_sound n w sigma inv u v delta hok
      (fun i j => (entry w i j).getD 0) (fun i j x hx => by rw [hx]; rfl) τ hτ
    rw [← hτv]
    exact h

/-- exact certificate: the certified value IS the brute-force optimum -/
theorem cert_value_eq_opt (n : Nat) (w : List (List (Option Rat))) (sigma inv : List Nat) (u v : List Rat)
    (hok : assignCertOk n w sigma inv u v 0 = true) :
    optAssign n w = assignValue w sigma ∧ (assignValue w sigma).isSome := by
  obtain ⟨val, opt, h1, h2, h3, h4⟩ := cert_value_opt n w sigma inv u v 0 hok
  have : opt = val := le_antisymm (by simpa using h4) h3
  rw [h1, h2, this]
  exact ⟨rfl, rfl⟩

/-- `countAssign` counts the acceptable permutations of `Fin n` -/
theorem countAssign_eq_card (n : Nat) (W : List (List (Option Rat))) :
    countAssign n W = Nat.card {τ : Equiv.Perm (Fin n) // ∀ i : Fin n, (entry W i (τ i)).isSome} := by
  unfold countAssign
  set L := (perms n).filter (fun sigma => (assignValue W sigma).isSome) with hL
  have hnd : L.Nodup := (perms_nodup n).filter _
  have hmem : ∀ σ, σ ∈ L ↔ σ.Perm (List.range n) ∧ (assignValue W σ).isSome := by
    intro σ; simp [hL, perms_complete]
  have hsome : ∀ τ : Equiv.Perm (Fin n),
      (assignValue W (listOfPerm τ)).isSome ↔ ∀ i : Fin n, (entry W i (τ i)).isSome := by
    intro τ
    rw [Option.isSome_iff_exists]
    constructor
    · rintro ⟨v, hv⟩; exact ((assignValue_listOfPerm W τ v).mp hv).1
    · intro h; exact ⟨_, (assignValue_listOfPerm W τ _).mpr ⟨h, rfl⟩⟩
  have e : {σ // σ ∈ L} ≃ {τ : Equiv.Perm (Fin n) // ∀ i : Fin n, (entry W i (τ i)).isSome} :=
    { toFun := fun σ => ⟨permOfList n σ.1 ((hmem σ.1).mp σ.2).1, by
        have h := ((hmem σ.1).mp σ.2).2
        rw [← listOfPerm_permOfList n σ.1 ((hmem σ.1).mp σ.2).1] at h
        exact (hsome _).mp h⟩
      invFun := fun τ => ⟨listOfPerm τ.1, (hmem _).mpr ⟨listOfPerm_perm τ.1, (hsome τ.1).mpr τ.2⟩⟩
      left_inv := fun σ => Subtype.ext (listOfPerm_permOfList n σ.1 ((hmem σ.1).mp σ.2).1)
      right_inv := fun τ => Subtype.ext (permOfList_listOfPerm τ.1) }
  rw [← Nat.card_congr e, Nat.card_eq_fintype_card, Fintype.card_of_subtype L.toFinset (by simp),
    List.toFinset_card_of_nodup hnd]

theorem sum_get_eq_getD {n : Nat} (W : List (List (Option Rat))) (τ : Equiv.Perm (Fin n))
    (hτ : ∀ i : Fin n, (entry W i (τ i)).isSome) :
    ∑ i : Fin n, (entry W i (τ i)).get (hτ i) = ∑ i : Fin n, (entry W i (τ i)).getD 0 :=
  Finset.sum_congr rfl fun _ _ => option_get_eq_getD _ _ 0

/-- **`Equiv.Perm` form with `Option.get`**, the statement form of `C04_cert_sound` -/
theorem optAssign_eq_some_iff_perm_get (n : Nat) (W : List (List (Option Rat))) (v : Rat) :
    optAssign n W = some v ↔
      (∃ (τ : Equiv.Perm (Fin n)) (hτ : ∀ i : Fin n, (entry W i (τ i)).isSome),
          ∑ i : Fin n, (entry W i (τ i)).get (hτ i) = v) ∧
      (∀ (τ : Equiv.Perm (Fin n)) (hτ : ∀ i : Fin n, (entry W i (τ i)).isSome),
          ∑ i : Fin n, (entry W i (τ i)).get (hτ i) ≤ v) := by
  rw [optAssign_eq_some_iff_perm]
  constructor
  · rintro ⟨⟨τ, hτ, hv⟩, hmax⟩
    exact ⟨⟨τ, hτ, (sum_get_eq_getD W τ hτ).trans hv⟩, fun τ hτ => (sum_get_eq_getD W τ hτ).le.trans (hmax τ hτ)⟩
  · rintro ⟨⟨τ, hτ, hv⟩, hmax⟩
    exact ⟨⟨τ, hτ, (sum_get_eq_getD W τ hτ).symm.trans hv⟩,
      fun τ hτ => (sum_get_eq_getD W τ hτ).symm.le.trans (hmax τ hτ)⟩

/-- the Hall-violator certificate and the brute force agree on infeasibility -/
theorem hall_opt_none (n : Nat) (w : List (List (Option Rat))) (S : List Nat) (hok : hallCertOk n w S = true) :
    optAssign n w = none :=
  (optAssign_eq_none_iff_perm n w).mpr (hallCertOk_sound n w S hok)

/-! ### C03 / C17 -/

/-- the rank functions on `Fin n` used by `StableSM` in the certificate theorems -/
abbrev rk1 (n : Nat) (P1 : List (List Nat)) : Fin n → Fin n → ℕ := fun a b => rankOf P1 a b
abbrev rk2 (n : Nat) (P2 : List (List Nat)) : Fin n → Fin n → ℕ := fun b a => rankOf P2 b a

theorem mem_stablePerms (n : Nat) (P1 P2 : List (List Nat)) (μ : List Nat) :
    μ ∈ stablePerms n P1 P2 ↔ μ.Perm (List.range n) ∧ stableB n P1 P2 μ (invPerm n μ) = true := by
  simp [stablePerms, perms_complete]

theorem stableB_permOfList (n : Nat) (P1 P2 : List (List Nat)) (μ : List Nat) (h : μ.Perm (List.range n)) :
    stableB n P1 P2 μ (invPerm n μ) = true ↔ StableSM (rk1 n P1) (rk2 n P2) (permOfList n μ h) :=
  stableB_iff n P1 P2 μ (invPerm n μ) (isPermWith_invPerm h)

theorem stableB_listOfPerm {n : Nat} (P1 P2 : List (List Nat)) (ν : Equiv.Perm (Fin n)) :
    stableB n P1 P2 (listOfPerm ν) (invPerm n (listOfPerm ν)) = true ↔ StableSM (rk1 n P1) (rk2 n P2) ν := by
  rw [stableB_permOfList n P1 P2 _ (listOfPerm_perm ν), permOfList_listOfPerm]

theorem matchValue_eq (n : Nat) (V1 V2 : List (List Int)) (μ : List Nat) (hl : μ.length = n) :
    matchValue V1 V2 μ = ∑ a : Fin n, (intOf V1 a (μ.getD a n) + intOf V2 (μ.getD a n) a) := by
  unfold matchValue
  rw [matchValueFrom_eq V1 V2 n n μ 0 hl]
  simp only [Nat.zero_add]

theorem matchValue_listOfPerm {n : Nat} (V1 V2 : List (List Int)) (ν : Equiv.Perm (Fin n)) :
    matchValue V1 V2 (listOfPerm ν) = ∑ a : Fin n, (intOf V1 a (ν a) + intOf V2 (ν a) a) := by
  rw [matchValue_eq n V1 V2 _ (by simp [listOfPerm])]
  simp only [listOfPerm_getD]

theorem matchValue_permOfList (n : Nat) (V1 V2 : List (List Int)) (μ : List Nat) (h : μ.Perm (List.range n)) :
    matchValue V1 V2 μ = ∑ a : Fin n, (intOf V1 a (permOfList n μ h a) + intOf V2 (permOfList n μ h a) a) := by
  conv_lhs => rw [← listOfPerm_permOfList n μ h]
  exact matchValue_listOfPerm V1 V2 _

/-- **list form** -/
theorem optStable_eq_some_iff (n : Nat) (P1 P2 : List (List Nat)) (V1 V2 : List (List Int)) (v : Int) :
    optStable n P1 P2 V1 V2 = some v ↔
      (∃ μ : List Nat, μ.Perm (List.range n) ∧ stableB n P1 P2 μ (invPerm n μ) = true ∧ matchValue V1 V2 μ = v) ∧
      (∀ μ : List Nat, μ.Perm (List.range n) → stableB n P1 P2 μ (invPerm n μ) = true → matchValue V1 V2 μ ≤ v) := by
  unfold optStable
  rw [maxOf_eq_some _ intLe_iff]
  simp only [List.mem_map, mem_stablePerms, and_assoc]
  constructor
  · rintro ⟨h1, h2⟩
    exact ⟨h1, fun μ hμ hs => h2 _ ⟨μ, hμ, hs, rfl⟩⟩
  · rintro ⟨h1, h2⟩
    refine ⟨h1, ?_⟩
    rintro x ⟨μ, hμ, hs, rfl⟩
    exact h2 μ hμ hs

theorem optStable_eq_none_iff (n : Nat) (P1 P2 : List (List Nat)) (V1 V2 : List (List Int)) :
    optStable n P1 P2 V1 V2 = none ↔
      ∀ μ : List Nat, μ.Perm (List.range n) → stableB n P1 P2 μ (invPerm n μ) = false := by
  unfold optStable
  rw [maxOf_eq_none, List.map_eq_nil_iff, List.eq_nil_iff_forall_not_mem]
  simp only [mem_stablePerms, not_and, Bool.not_eq_true]

/-- **`Equiv.Perm` form**, with the notion of stability and the weight convention of `C03_cert_sound` -/
theorem optStable_eq_some_iff_perm (n : Nat) (P1 P2 : List (List Nat)) (V1 V2 : List (List Int)) (v : Int) :
    optStable n P1 P2 V1 V2 = some v ↔
      (∃ ν : Equiv.Perm (Fin n), StableSM (rk1 n P1) (rk2 n P2) ν ∧
          ∑ a : Fin n, (intOf V1 a (ν a) + intOf V2 (ν a) a) = v) ∧
      (∀ ν : Equiv.Perm (Fin n), StableSM (rk1 n P1) (rk2 n P2) ν →
          ∑ a : Fin n, (intOf V1 a (ν a) + intOf V2 (ν a) a) ≤ v) := by
  rw [optStable_eq_some_iff]
  constructor
  · rintro ⟨⟨μ, hμ, hs, hv⟩, hmax⟩
    refine ⟨⟨permOfList n μ hμ, (stableB_permOfList n P1 P2 μ hμ).mp hs, ?_⟩, fun ν hν => ?_⟩
    · rw [← matchValue_permOfList n V1 V2 μ hμ, hv]
    · rw [← matchValue_listOfPerm]
      exact hmax _ (listOfPerm_perm ν) ((stableB_listOfPerm P1 P2 ν).mpr hν)
  · rintro ⟨⟨ν, hν, hv⟩, hmax⟩
    refine ⟨⟨listOfPerm ν, listOfPerm_perm ν, (stableB_listOfPerm P1 P2 ν).mpr hν, ?_⟩, fun μ hμ hs => ?_⟩
    · rw [matchValue_listOfPerm, hv]
    · rw [matchValue_permOfList n V1 V2 μ hμ]
      exact hmax _ ((stableB_permOfList n P1 P2 μ hμ).mp hs)

theorem optStable_eq_none_iff_perm (n : Nat) (P1 P2 : List (List Nat)) (V1 V2 : List (List Int)) :
    optStable n P1 P2 V1 V2 = none ↔ ¬ ∃ ν : Equiv.Perm (Fin n), StableSM (rk1 n P1) (rk2 n P2) ν := by
  rw [optStable_eq_none_iff]
  constructor
  · rintro h ⟨ν, hν⟩
    have := h _ (listOfPerm_perm ν)
    rw [(stableB_listOfPerm P1 P2 ν).mpr hν] at this
    cases this
  · intro h μ hμ
    cases hs : stableB n P1 P2 μ (invPerm n μ) with
    | false => rfl
    | true => exact absurd ⟨_, (stableB_permOfList n P1 P2 μ hμ).mp hs⟩ h

/-- `countStable` is the number of stable matchings (as permutations of `Fin n`) -/
theorem countStable_eq_card (n : Nat) (P1 P2 : List (List Nat)) :
    countStable n P1 P2 = Nat.card {ν : Equiv.Perm (Fin n) // StableSM (rk1 n P1) (rk2 n P2) ν} := by
  unfold countStable
  have hnd : (stablePerms n P1 P2).Nodup := (perms_nodup n).filter _
  have e : {μ // μ ∈ stablePerms n P1 P2} ≃ {ν : Equiv.Perm (Fin n) // StableSM (rk1 n P1) (rk2 n P2) ν} :=
    { toFun := fun μ => ⟨permOfList n μ.1 ((mem_stablePerms n P1 P2 μ.1).mp μ.2).1,
        (stableB_permOfList n P1 P2 μ.1 _).mp ((mem_stablePerms n P1 P2 μ.1).mp μ.2).2⟩
      invFun := fun ν => ⟨listOfPerm ν.1,
        (mem_stablePerms n P1 P2 _).mpr ⟨listOfPerm_perm ν.1, (stableB_listOfPerm P1 P2 ν.1).mpr ν.2⟩⟩
      left_inv := fun μ => Subtype.ext (listOfPerm_permOfList n μ.1 ((mem_stablePerms n P1 P2 μ.1).mp μ.2).1)
      right_inv := fun ν => Subtype.ext (permOfList_listOfPerm ν.1) }
  rw [← Nat.card_congr e, Nat.card_eq_fintype_card, Fintype.card_of_subtype (stablePerms n P1 P2).toFinset (by simp),
    List.toFinset_card_of_nodup hnd]

/-- **bridge to the certificate checker**: an accepted optimality certificate pins the brute-force optimum -/
theorem smCert_value_eq_opt (n : Nat) (P1 P2 : List (List Nat)) (V1 V2 : List (List Int)) (mu inv : List Nat)
    (alpha beta : List Rat) (y : List (List Rat))
    (hok : smCertOk n P1 P2 V1 V2 mu inv alpha beta y = true) :
    optStable n P1 P2 V1 V2 = some (matchValue V1 V2 mu) := by
  obtain ⟨hp, hst, hopt⟩ := smCertOk_sound n P1 P2 V1 V2 mu inv alpha beta y hok
  have hl : mu.length = n := by
    simp only [isPermWith, Bool.and_eq_true, beq_iff_eq] at hp; exact hp.1.1.1
  have hval : matchValue V1 V2 mu =
      ∑ a : Fin n, (intOf V1 a (permOfLists n mu inv hp a) + intOf V2 (permOfLists n mu inv hp a) a) :=
    matchValue_eq n V1 V2 mu hl
  rw [optStable_eq_some_iff_perm]
  refine ⟨⟨permOfLists n mu inv hp, hst, hval.symm⟩, fun ν hν => ?_⟩
  rw [hval]
  have := hopt ν hν
  rw [weightOf_sum_cast, weightOf_sum_cast] at this
  exact_mod_cast this

/-- with an accepted certificate there is at least one stable matching -/
theorem smCert_countStable_pos (n : Nat) (P1 P2 : List (List Nat)) (V1 V2 : List (List Int)) (mu inv : List Nat)
    (alpha beta : List Rat) (y : List (List Rat))
    (hok : smCertOk n P1 P2 V1 V2 mu inv alpha beta y = true) :
    0 < countStable n P1 P2 := by
  have h := smCert_value_eq_opt n P1 P2 V1 V2 mu inv alpha beta y hok
  unfold countStable
  unfold optStable at h
  cases hL : stablePerms n P1 P2 with
  | nil => rw [hL] at h; simp [maxOf] at h
  | cons a l => simp

/-! ### what the harness comparison `value of the answer = brute-force optimum` establishes -/

/-- C04: a checked permutation whose value equals `optAssign` is a maximum-utility acceptable assignment -/
theorem brute_assign_optimal (n : Nat) (W : List (List (Option Rat))) (sigma inv : List Nat)
    (hp : isPermWith n sigma inv = true) (v : Rat)
    (hv : assignValue W sigma = some v) (hopt : optAssign n W = some v) :
    ∃ hσ : ∀ i : Fin n, (entry W i (permOfLists n sigma inv hp i)).isSome,
      ∀ (τ : Equiv.Perm (Fin n)) (hτ : ∀ i : Fin n, (entry W i (τ i)).isSome),
        ∑ i : Fin n, (entry W i (τ i)).get (hτ i)
          ≤ ∑ i : Fin n, (entry W i (permOfLists n sigma inv hp i)).get (hσ i) := by
  have hl : sigma.length = n := by
    simp only [isPermWith, Bool.and_eq_true, beq_iff_eq] at hp; exact hp.1.1.1
  obtain ⟨hacc, hval⟩ := (assignValue_eq_some_iff n W sigma hl v).mp hv
  refine ⟨hacc, fun τ hτ => ?_⟩
  have e : ∀ (o : Option Rat) (h : o.isSome), o.get h = o.getD 0 := fun o h => option_get_eq_getD o h 0
  have := ((optAssign_eq_some_iff_perm n W v).mp hopt).2 τ hτ
  rw [hval] at this
  exact le_trans (le_of_eq (Finset.sum_congr rfl fun i _ => e _ _))
    (le_trans this (le_of_eq (Finset.sum_congr rfl fun i _ => (e _ _).symm)))

/-- C03: a checked stable permutation whose value equals `optStable` is a maximum-value stable matching -/
theorem brute_stable_optimal (n : Nat) (P1 P2 : List (List Nat)) (V1 V2 : List (List Int)) (mu inv : List Nat)
    (hp : isPermWith n mu inv = true) (hs : stableB n P1 P2 mu inv = true)
    (hopt : optStable n P1 P2 V1 V2 = some (matchValue V1 V2 mu)) :
    StableSM (rk1 n P1) (rk2 n P2) (permOfLists n mu inv hp) ∧
    ∀ ν : Equiv.Perm (Fin n), StableSM (rk1 n P1) (rk2 n P2) ν →
      ∑ a : Fin n, (intOf V1 a (ν a) + intOf V2 (ν a) a)
        ≤ ∑ a : Fin n, (intOf V1 a (permOfLists n mu inv hp a) + intOf V2 (permOfLists n mu inv hp a) a) := by
  have hl : mu.length = n := by
    simp only [isPermWith, Bool.and_eq_true, beq_iff_eq] at hp; exact hp.1.1.1
  refine ⟨(stableB_iff n P1 P2 mu inv hp).mp hs, fun ν hν => ?_⟩
  have := ((optStable_eq_some_iff_perm n P1 P2 V1 V2 _).mp hopt).2 ν hν
  rw [matchValue_eq n V1 V2 mu hl] at this
  exact this

end Brute
