import Sck.Proofs.EatIncomplete1

/-! C07 (incomplete profiles), part 2: what transfers from the complete model, when an agent stays inside its
acceptable items, and when it cannot. -/

open Finset

namespace Eat

variable {n : Nat} {P : List (List (Option Nat))} {speeds : List Rat}

/-! ### reading the completed profile -/

theorem getD_completeFirst (P : List (List (Option Nat))) (i : Nat) :
    (completeFirst P).getD i [] = completeRow (P.getD i []) := by
  unfold completeFirst
  by_cases hi : i < P.length
  · simp [hi]
  · have : P.length ≤ i := Nat.le_of_not_lt hi
    simp [this, completeRow]

theorem row_wf (h : EatIncWf n P speeds) {i : Nat} (hi : i < n) :
    (P.getD i []).length = n ∧ StrictInc (P.getD i []) := by
  have hi' : i < P.length := by rw [h.plen]; exact hi
  have : P.getD i [] = P[i] := by simp [hi']
  rw [this]
  exact h.rows _ (List.getElem_mem hi')

theorem rk_completeFirst (h : EatIncWf n P speeds) {i j : Nat} (hi : i < n) (hj : j < n) :
    rk (completeFirst P) i j = completeKey (P.getD i []) j := by
  unfold rk
  rw [getD_completeFirst, getD_completeRow _ (by rw [(row_wf h hi).1]; exact hj)]

theorem unacc_true_iff (P : List (List (Option Nat))) (i j : Nat) :
    unacc P i j = true ↔ (P.getD i []).getD j none = none := by
  unfold unacc prefRank
  exact Option.isNone_iff_eq_none

theorem unacc_false_iff (P : List (List (Option Nat))) (i j : Nat) :
    unacc P i j = false ↔ ∃ r, (P.getD i []).getD j none = some r := by
  unfold unacc prefRank
  cases (P.getD i []).getD j none <;> simp

/-- in the completed profile every acceptable item is ranked before every unacceptable one -/
theorem rk_acc_lt_unacc (h : EatIncWf n P speeds) {i j1 j : Nat} (hi : i < n) (hj1 : j1 < n) (hj : j < n)
    (h1 : unacc P i j1 = false) (h2 : unacc P i j = true) :
    rk (completeFirst P) i j1 < rk (completeFirst P) i j := by
  obtain ⟨r, hr⟩ := (unacc_false_iff P i j1).mp h1
  rw [rk_completeFirst h hi hj1, rk_completeFirst h hi hj]
  exact completeKey_some_lt_none (by rw [(row_wf h hi).1]; exact hj1) hr ((unacc_true_iff P i j).mp h2)

/-- the completed profile keeps the order of the acceptable items -/
theorem rk_acc_lt_iff (h : EatIncWf n P speeds) {i j1 j2 r1 r2 : Nat} (hi : i < n) (hj1 : j1 < n)
    (hj2 : j2 < n) (h1 : prefRank P i j1 = some r1) (h2 : prefRank P i j2 = some r2) :
    rk (completeFirst P) i j1 < rk (completeFirst P) i j2 ↔ r1 < r2 := by
  rw [rk_completeFirst h hi hj1, rk_completeFirst h hi hj2]
  exact completeKey_some_lt_iff (by rw [(row_wf h hi).1]; exact hj1) (by rw [(row_wf h hi).1]; exact hj2) h1 h2

/-- … and orders the unacceptable items by index -/
theorem rk_unacc_lt_iff (h : EatIncWf n P speeds) {i j1 j2 : Nat} (hi : i < n) (hj1 : j1 < n)
    (hj2 : j2 < n) (h1 : prefRank P i j1 = none) (h2 : prefRank P i j2 = none) :
    rk (completeFirst P) i j1 < rk (completeFirst P) i j2 ↔ j1 < j2 := by
  rw [rk_completeFirst h hi hj1, rk_completeFirst h hi hj2]
  exact completeKey_none_lt_iff (by rw [(row_wf h hi).1]; exact hj1) (by rw [(row_wf h hi).1]; exact hj2) h1 h2

/-! ### a complete profile is its own completion -/

theorem rankedInc_map_some (row : List Nat) : rankedInc (row.map some) = rankedOf row := by
  unfold rankedInc rankedOf
  have : (List.range (row.map some).length).filter (fun j => ((row.map some).getD j none).isNone) = [] := by
    rw [List.filter_eq_nil_iff]
    intro j hj
    have hj' : j < row.length := by simpa using hj
    simp [hj']
  rw [this, List.append_nil]

theorem eatIncLog_map_some (n : Nat) (P : List (List Nat)) (speeds : List Rat) :
    eatIncLog n (P.map (fun row => row.map some)) speeds = eatLog n P speeds := by
  unfold eatIncLog eatLog
  rw [List.map_map]
  congr 1
  apply List.map_congr_left
  intro row _
  exact rankedInc_map_some row

/-! ### everything the complete model knows, transferred -/

theorem eatIncLog_spec (hwf : EatIncWf n P speeds) :
    ∃ X log, eatIncLog n P speeds = some (X, log) ∧ eatInc n P speeds = some X ∧
      (X = (List.range n).map (fun i => (List.range n).map (fun j => mget X i j))) ∧
      (∀ i < n, ∀ j < n, 0 ≤ mget X i j) ∧
      (∀ i < n, ∑ j ∈ range n, mget X i j = 1) ∧
      (∀ j < n, ∑ i ∈ range n, mget X i j = 1) ∧
      (∀ i < n, ∀ j < n, mget X i j = amt speeds log i j) ∧
      TraceFrom n (completeFirst P) speeds (fun _ _ => 0) log := by
  have hw := eatWf_completeFirst hwf
  obtain ⟨evs, stf, he, _⟩ := eatLog_run hw
  refine ⟨stf.mat, evs, by rw [eatIncLog_eq hwf, he], ?_, eatLog_spec hw he⟩
  unfold eatInc
  rw [eatIncLog_eq hwf, he]
  rfl

/-! ### traces: nonnegativity -/

theorem TraceFrom.t_nonneg {Pc : List (List Nat)} (evs : List Event) :
    ∀ {X : Nat → Nat → ℚ}, TraceFrom n Pc speeds X evs → ∀ ev ∈ evs, 0 ≤ ev.t := by
  induction evs with
  | nil => intro X _ ev hev; cases hev
  | cons e evs ih =>
    intro X h ev hev
    rcases List.mem_cons.mp hev with rfl | hev'
    · exact h.1.t_nonneg
    · exact ih h.2 ev hev'

theorem evAmt_nonneg {ev : Event} (ht : 0 ≤ ev.t) {i : Nat} (hs : 0 ≤ spd speeds i) (j : Nat) :
    0 ≤ evAmt speeds ev i j := by
  unfold evAmt
  split
  · exact mul_nonneg ht hs
  · exact le_refl _

theorem amt_nonneg (evs : List Event) (ht : ∀ ev ∈ evs, 0 ≤ ev.t) {i : Nat} (hs : 0 ≤ spd speeds i)
    (j : Nat) : 0 ≤ amt speeds evs i j := by
  induction evs with
  | nil => exact le_refl _
  | cons e evs ih =>
    rw [amt_cons]
    exact add_nonneg (evAmt_nonneg (ht e List.mem_cons_self) hs j)
      (ih (fun ev hev => ht ev (List.mem_cons_of_mem _ hev)))

theorem amt_eq_zero_iff (evs : List Event) (ht : ∀ ev ∈ evs, 0 ≤ ev.t) {i : Nat} (hs : 0 < spd speeds i)
    (j : Nat) : amt speeds evs i j = 0 ↔ ∀ ev ∈ evs, lk ev.cur i = some j → ev.t = 0 := by
  induction evs with
  | nil => simp [amt_nil]
  | cons e evs ih =>
    have ht' : ∀ ev ∈ evs, 0 ≤ ev.t := fun ev hev => ht ev (List.mem_cons_of_mem _ hev)
    have h1 := evAmt_nonneg (speeds := speeds) (ht e List.mem_cons_self) (le_of_lt hs) j
    have h2 := amt_nonneg (speeds := speeds) evs ht' (le_of_lt hs) j
    rw [amt_cons]
    constructor
    · intro h ev hev hc
      have e1 : evAmt speeds e i j = 0 := by linarith
      have e2 : amt speeds evs i j = 0 := by linarith
      rcases List.mem_cons.mp hev with rfl | hev'
      · unfold evAmt at e1
        rw [if_pos hc] at e1
        rcases mul_eq_zero.mp e1 with h0 | h0
        · exact h0
        · exact absurd h0 (ne_of_gt hs)
      · exact (ih ht').mp e2 ev hev' hc
    · intro h
      have e2 : amt speeds evs i j = 0 :=
        (ih ht').mpr (fun ev hev hc => h ev (List.mem_cons_of_mem _ hev) hc)
      have e1 : evAmt speeds e i j = 0 := by
        unfold evAmt
        split
        · next hc => rw [h e List.mem_cons_self hc, zero_mul]
        · rfl
      rw [e1, e2, add_zero]

theorem spd_pos_inc (h : EatIncWf n P speeds) : ∀ i < n, 0 < spd speeds i :=
  spd_pos_of_wf (eatWf_completeFirst h)

end Eat
