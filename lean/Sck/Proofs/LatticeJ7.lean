import Sck.Proofs.LatticeJ6

/-! # C03, package L8b, part 7: every edge of the mirror's sparse poset graph is a true precedence
(`Remaining_i_at → Remaining_j_at`) -/

namespace IrvingAlgo.J

open Irving SMLattice SMLattice.J

section
variable {n : Nat}

/-- a pair of the pairs form of a rotation -/
theorem mem_rotPairs_iff {N : Equiv.Perm (Fin n)} {σ : List (Fin n)} {m w : Nat} (h : (m, w) ∈ rotPairs N σ) :
    ∃ c, c ∈ σ ∧ m = (c : Nat) ∧ w = ((N c : Fin n) : Nat) := by
  obtain ⟨c, hc, he⟩ := List.mem_map.mp h
  exact ⟨c, hc, (congrArg Prod.fst he).symm, (congrArg Prod.snd he).symm⟩

/-- `scanMan`'s "next woman" is the woman the rotation gives to the man -/
theorem wnextOf_rotPairs {all : List (List Pair)} {y : Nat} {N : Equiv.Perm (Fin n)} {σ : List (Fin n)}
    (hy : all.getD y [] = rotPairs N σ) (hnd : σ.Nodup) {c : Fin n} (hc : c ∈ σ) :
    wnextOf all y c (N c) = ((elim N σ c : Fin n) : Nat) := by
  obtain ⟨i, hi, rfl⟩ := List.getElem_of_mem hc
  unfold wnextOf
  rw [hy]
  have hnd' : (rotPairs N σ).Nodup := hnd.map (pr_injective N)
  have hi' : i < (rotPairs N σ).length := by rw [rotPairs_length]; exact hi
  have e : (rotPairs N σ)[i] = ((σ[i] : Nat), ((N σ[i] : Fin n) : Nat)) := by
    simp [rotPairs, pr]
  rw [← e, hnd'.idxOf_getElem i hi', rotPairs_length,
    rotAt_rotPairs N σ _ (Nat.mod_lt _ (by omega)), elim_apply, List.formPerm_apply_getElem σ hnd i hi]
  rfl

/-- the part of obligation (i) that soundness of the poset graph needs: the mirror's list of rotations, in discovery
order, is a run from the male-optimal matching (each rotation non-empty and exposed when its turn comes) -/
def AllRun_at (n : Nat) (P1 P2 : List (List Nat)) : Prop :=
  ∀ M0 all elim, maleOptimal n P1 P2 = some M0 →
    allRotations (shortlists n P1 P2 (muOf n M0)).1 (shortlists n P1 P2 (muOf n M0)).2 = some (all, elim) →
    exposedAllB P1 P2 M0 all = true ∧ ∀ r ∈ all, r ≠ []

theorem allRun_of_remaining_i {P1 P2 : List (List Nat)} (hi : Remaining_i_at n P1 P2) : AllRun_at n P1 P2 :=
  fun M0 all elim hmo hall => ⟨(hi M0 all elim hmo hall).1, (hi M0 all elim hmo hall).2.1⟩

/-- **soundness of the sparse rotation poset, at one instance**: if the mirror's list of rotations is a run from the
male-optimal matching, every edge of `posetGraph` is a true precedence (obligation (j)) -/
theorem remaining_j_at_of_run {P1 P2 : List (List Nat)} {V1 V2 : List (List Int)} (hwf : wfB n P1 P2 V1 V2 = true)
    (hi : AllRun_at n P1 P2) : Remaining_j_at n P1 P2 := by
  intro M0 all elim hmo hall B hBexp hBne x y hy hyB
  obtain ⟨μ0, C⟩ := jctx_of_wf hwf hmo
  obtain ⟨hAexp, hAne⟩ := hi M0 all elim hmo hall
  obtain ⟨rotsA, νz, Mz, hpA, hppA, _, _⟩ := path_unbridge C.h1 all M0 μ0 C.rep C.st0 hAne hAexp
  obtain ⟨rotsB, ν, MB, hpB, hppB, _, _⟩ := path_unbridge C.h1 B M0 μ0 C.rep C.st0 hBne hBexp
  have hgood := allRotations_elim_good C hall hAexp hAne
  -- every rotation of `all` is exposed in a stable matching
  have hrot : ∀ i (p : Pair), p ∈ all.getD i [] →
      ∃ N σ, StableSM (rk n P1) (rk n P2) N ∧ ExposedRot (rk n P1) (rk n P2) N σ ∧ all.getD i [] = rotPairs N σ := by
    intro i p hp
    have hlt : i < all.length := by
      by_contra hge
      rw [List.getD_eq_getElem?_getD, List.getElem?_eq_none (by omega)] at hp
      simp at hp
    have hmem : all.getD i [] ∈ pathPairs μ0 rotsA := by
      rw [hppA, List.getD_eq_getElem?_getD, List.getElem?_eq_getElem hlt]
      exact List.getElem_mem hlt
    obtain ⟨N, σ, hN, hσ, he⟩ := mem_pathPairs C.h1 rotsA μ0 νz C.st0 hpA _ hmem
    exact ⟨N, σ, hN, hσ, he⟩
  rw [← hppB] at hyB ⊢
  rcases edgesFrom_posetGraph all _ elim x y hy with
    ⟨m, w, w', pre, post, hL, hwpre, hx, hy'⟩ | ⟨m, w, w', hw'L, hy', hx, hlt⟩
  · -- Rule 1
    have px := dictAll_get (rotOfPair_mem all) hx
    have py := dictAll_get (rotOfPair_mem all) hy'
    obtain ⟨N, σ, hN, hσ, hex⟩ := hrot x _ px
    obtain ⟨N', σ', hN', hσ', hey⟩ := hrot y _ py
    rw [hex] at px ⊢
    rw [hey] at py hyB
    obtain ⟨c, hc, hmc, hwc⟩ := mem_rotPairs_iff px
    obtain ⟨c', hc', hmc', hwc'⟩ := mem_rotPairs_iff py
    have hcc : c = c' := Fin.ext (hmc.symm.trans hmc')
    subst hcc
    have hpw := shortlists_fst_pairwise n P1 P2 (muOf n M0) C.hP1 m
    rw [hL, List.pairwise_append] at hpw
    have hlt := hpw.2.2 w hwpre w' List.mem_cons_self
    rw [hmc, hwc, hwc'] at hlt
    exact precedes_of_shared_man C.h1 C.h2 hN hN' hσ hσ' hc hc' hlt C.st0 hpB (C.opt N hN c) hyB
  · -- Rule 2
    have py := dictAll_get (rotOfPair_mem all) hy'
    obtain ⟨a, pa, hle⟩ := dictAll_get hgood hx
    obtain ⟨N, σ, hN, hσ, hex⟩ := hrot x _ pa
    obtain ⟨N', σ', hN', hσ', hey⟩ := hrot y _ py
    rw [hex] at pa ⊢
    rw [hey] at py hyB
    obtain ⟨c, hc, hmc, hwc⟩ := mem_rotPairs_iff py
    obtain ⟨a', ha', haa, hwa⟩ := mem_rotPairs_iff pa
    subst hmc hwc haa hwa
    rw [wnextOf_rotPairs hey hσ'.1 hc] at hlt
    have hst' := (exposed_elim_stable C.h1 hN' hσ').1
    have hnextL := (stable_pair_mem C hst' c).1
    have hjump := lt_of_idxOf_lt (r := fun b => rankOf P1 c b)
      (shortlists_fst_pairwise n P1 P2 (muOf n M0) C.hP1 c) hw'L hnextL hlt
    exact precedes_of_jumped_woman C.h1 C.h2 hN hN' hσ hσ' hc ha' hjump hle C.st0 hpB (C.opt N hN a') hyB

/-! ### the ingredients, with the context unpacked (for `Sck/Props/C03Optimal2.lean`) -/

theorem stable_pair_mem_wf {P1 P2 : List (List Nat)} {V1 V2 : List (List Int)} (hwf : wfB n P1 P2 V1 V2 = true)
    {M0 : List Pair} (hmo : maleOptimal n P1 P2 = some M0) {ν : Equiv.Perm (Fin n)}
    (hν : StableSM (rk n P1) (rk n P2) ν) (a : Fin n) :
    ((ν a : Fin n) : Nat) ∈ (shortlists n P1 P2 (muOf n M0)).1.getD a [] ∧
      (a : Nat) ∈ (shortlists n P1 P2 (muOf n M0)).2.getD (ν a) [] := by
  obtain ⟨μ0, C⟩ := jctx_of_wf hwf hmo
  exact stable_pair_mem C hν a

theorem elim_good_wf {P1 P2 : List (List Nat)} {V1 V2 : List (List Int)} (hwf : wfB n P1 P2 V1 V2 = true)
    {M0 : List Pair} (hmo : maleOptimal n P1 P2 = some M0) {all : List (List Pair)} {elim : List (Pair × Nat)}
    (hall : allRotations (shortlists n P1 P2 (muOf n M0)).1 (shortlists n P1 P2 (muOf n M0)).2 = some (all, elim))
    (hexp : exposedAllB P1 P2 M0 all = true) (hne : ∀ r ∈ all, r ≠ []) {m w pi : Nat}
    (h : dictGet? elim (m, w) = some pi) : ElimGood P2 all m w pi := by
  obtain ⟨μ0, C⟩ := jctx_of_wf hwf hmo
  exact dictAll_get (allRotations_elim_good C hall hexp hne) h

theorem elimRot_inv_wf {P1 P2 : List (List Nat)} {V1 V2 : List (List Int)} (hwf : wfB n P1 P2 V1 V2 = true)
    {M0 : List Pair} (hmo : maleOptimal n P1 P2 = some M0) {all : List (List Pair)} {μ : Equiv.Perm (Fin n)}
    (hμ : StableSM (rk n P1) (rk n P2) μ) {ρ : List (Fin n)} (hex : ExposedRot (rk n P1) (rk n P2) μ ρ) (st : LvSt)
    (hinv : L2Inv P2 (shortlists n P1 P2 (muOf n M0)).2 (husb μ) st.l2)
    (hel : ∀ e ∈ st.elim, ElimOK P2 all e.1.1 e.1.2 e.2)
    (hei : EIInv (shortlists n P1 P2 (muOf n M0)).2 st) (hcur : all.getD st.cnt [] = rotPairs μ ρ) :
    L2Inv P2 (shortlists n P1 P2 (muOf n M0)).2 (husb (elim μ ρ)) (elimRot st (rotPairs μ ρ)).l2 ∧
      (∀ e ∈ (elimRot st (rotPairs μ ρ)).elim, ElimOK P2 all e.1.1 e.1.2 e.2) ∧
      EIInv (shortlists n P1 P2 (muOf n M0)).2 (elimRot st (rotPairs μ ρ)) ∧
      (elimRot st (rotPairs μ ρ)).cnt = st.cnt + 1 := by
  obtain ⟨μ0, C⟩ := jctx_of_wf hwf hmo
  obtain ⟨a, b, c, d, _, _⟩ := elimRot_inv C hμ hex st hinv hel hei hcur
  exact ⟨a, b, c, d⟩

/-- obligation (i) at an instance implies obligation (j) there -/
theorem remaining_j_at_of_i {P1 P2 : List (List Nat)} {V1 V2 : List (List Int)} (hwf : wfB n P1 P2 V1 V2 = true)
    (hi : Remaining_i_at n P1 P2) : Remaining_j_at n P1 P2 :=
  remaining_j_at_of_run hwf (allRun_of_remaining_i hi)

end

end IrvingAlgo.J

/-- **obligation (j) follows from obligation (i)** -/
theorem L8b.remaining_j_of_i (hi : Remaining_i) : Remaining_j :=
  fun n P1 P2 V1 V2 hwf => IrvingAlgo.J.remaining_j_at_of_i hwf (hi n P1 P2 V1 V2 hwf)

#print axioms L8b.remaining_j_of_i
