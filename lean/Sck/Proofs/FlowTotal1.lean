import Sck.Proofs.FlowProof
import Sck.Model.FlowCert

/-! C08: totality of the executable max-flow model, part (i) search soundness and part (ii) closedness of
the final reachable set. -/

namespace FlowTotal

/-- one step of the fold in `expand` -/
def expStep (N : Net) (f : Flow) (R : List (Int × Int)) (v : Int) : List (Int × Int) :=
  if R.any (fun e => e.1 == v) then R
  else match R.find? (fun e => decide (0 < resid N f e.1 v)) with
    | some e => R ++ [(v, e.1)]
    | none => R

theorem expand_eq (N : Net) (f : Flow) (R : List (Int × Int)) :
    expand N f R = N.verts.foldl (expStep N f) R := rfl

theorem expStep_cases (N : Net) (f : Flow) (R : List (Int × Int)) (v : Int) :
    expStep N f R v = R ∨
    (v ∉ R.map (·.1) ∧ ∃ e ∈ R, 0 < resid N f e.1 v ∧ expStep N f R v = R ++ [(v, e.1)]) := by
  unfold expStep
  split
  · left; rfl
  · rename_i h
    split
    · rename_i e he
      right
      refine ⟨?_, e, List.mem_of_find?_eq_some he, ?_, rfl⟩
      · intro hm
        apply h
        obtain ⟨x, hx, hxv⟩ := List.mem_map.mp hm
        exact List.any_eq_true.mpr ⟨x, hx, by simp [hxv]⟩
      · have := List.find?_some he
        simpa using this
    · left; rfl

theorem expStep_eq_self (N : Net) (f : Flow) (R : List (Int × Int)) (v : Int)
    (h : expStep N f R v = R) :
    v ∈ R.map (·.1) ∨ ∀ e ∈ R, ¬ 0 < resid N f e.1 v := by
  unfold expStep at h
  split at h
  · rename_i hany
    left
    obtain ⟨x, hx, hxv⟩ := List.any_eq_true.mp hany
    exact List.mem_map.mpr ⟨x, hx, by simpa using hxv⟩
  · split at h
    · have := congrArg List.length h
      simp at this
    · rename_i hnone
      right
      intro e he
      have := List.find?_eq_none.mp hnone e he
      simpa using this

theorem expStep_prefix (N : Net) (f : Flow) (R : List (Int × Int)) (v : Int) :
    R <+: expStep N f R v := by
  rcases expStep_cases N f R v with h | ⟨_, e, _, _, h⟩
  · rw [h]
  · rw [h]; exact List.prefix_append _ _

theorem foldl_prefix (N : Net) (f : Flow) (l : List Int) :
    ∀ R : List (Int × Int), R <+: l.foldl (expStep N f) R := by
  induction l with
  | nil => intro R; exact List.prefix_refl _
  | cons v l ih =>
    intro R
    simp only [List.foldl_cons]
    exact List.IsPrefix.trans (expStep_prefix N f R v) (ih _)

/-! ### the invariant of the search -/

/-- lists built from `[(s, s)]` by appending `(v, p)` with `v` a fresh vertex, `p` an earlier key and a
positive residual on `(p, v)` -/
inductive GoodR (N : Net) (f : Flow) : List (Int × Int) → Prop
  | base : GoodR N f [(N.s, N.s)]
  | snoc {R : List (Int × Int)} {v p : Int} : GoodR N f R → v ∈ N.verts → v ∉ R.map (·.1) →
      p ∈ R.map (·.1) → 0 < resid N f p v → GoodR N f (R ++ [(v, p)])

theorem GoodR.step {N : Net} {f : Flow} {R : List (Int × Int)} (h : GoodR N f R) {v : Int}
    (hv : v ∈ N.verts) : GoodR N f (expStep N f R v) := by
  rcases expStep_cases N f R v with h' | ⟨hn, e, he, hpos, h'⟩
  · rw [h']; exact h
  · rw [h']
    exact GoodR.snoc h hv hn (List.mem_map.mpr ⟨e, he, rfl⟩) hpos

theorem GoodR.fold {N : Net} {f : Flow} (l : List Int) (hl : ∀ v ∈ l, v ∈ N.verts) :
    ∀ R : List (Int × Int), GoodR N f R → GoodR N f (l.foldl (expStep N f) R) := by
  induction l with
  | nil => intro R h; exact h
  | cons v l ih =>
    intro R h
    simp only [List.foldl_cons]
    exact ih (fun x hx => hl x (List.mem_cons_of_mem _ hx)) _ (h.step (hl v (by simp)))

theorem GoodR.expd {N : Net} {f : Flow} {R : List (Int × Int)} (h : GoodR N f R) :
    GoodR N f (expand N f R) := by
  rw [expand_eq]; exact GoodR.fold N.verts (fun _ h => h) R h

theorem iter_succ' {α : Type} (g : α → α) : ∀ (k : Nat) (x : α), iter g (k + 1) x = g (iter g k x) := by
  intro k
  induction k with
  | zero => intro x; rfl
  | succ k ih =>
    intro x
    show iter g (k + 1) (g x) = g (iter g (k + 1) x)
    rw [ih (g x)]
    rfl

theorem iter_inv {α : Type} (g : α → α) (P : α → Prop) (hg : ∀ x, P x → P (g x)) :
    ∀ (k : Nat) (x : α), P x → P (iter g k x) := by
  intro k
  induction k with
  | zero => intro x h; exact h
  | succ k ih => intro x h; exact ih (g x) (hg x h)

theorem goodR_reachP (N : Net) (f : Flow) : GoodR N f (reachP N f) :=
  iter_inv (expand N f) (GoodR N f) (fun _ h => h.expd) _ _ GoodR.base

theorem GoodR.s_mem {N : Net} {f : Flow} {R : List (Int × Int)} (h : GoodR N f R) :
    N.s ∈ R.map (·.1) := by
  induction h with
  | base => simp
  | snoc _ _ _ _ _ ih => simp only [List.map_append, List.mem_append]; exact Or.inl ih

theorem GoodR.keys_sub {N : Net} {f : Flow} {R : List (Int × Int)} (h : GoodR N f R)
    (hs : N.s ∈ N.verts) : ∀ v ∈ R.map (·.1), v ∈ N.verts := by
  induction h with
  | base => intro v hv; simp at hv; subst hv; exact hs
  | snoc _ hv _ _ _ ih =>
    intro u hu
    simp only [List.map_append, List.mem_append, List.map_cons, List.map_nil, List.mem_singleton] at hu
    rcases hu with hu | hu
    · exact ih u hu
    · subst hu; exact hv

theorem GoodR.keys_nodup {N : Net} {f : Flow} {R : List (Int × Int)} (h : GoodR N f R) :
    (R.map (·.1)).Nodup := by
  induction h with
  | base => simp
  | snoc _ _ hn _ _ ih =>
    simp only [List.map_append, List.map_cons, List.map_nil]
    refine List.nodup_append.mpr ⟨ih, by simp, ?_⟩
    intro a ha b hb
    simp only [List.mem_singleton] at hb
    subst hb
    intro hab; subst hab; exact hn ha

theorem GoodR.length_le {N : Net} {f : Flow} {R : List (Int × Int)} (h : GoodR N f R)
    (hs : N.s ∈ N.verts) : R.length ≤ N.verts.length := by
  have := List.Nodup.length_le_of_subset h.keys_nodup (fun v hv => h.keys_sub hs v hv)
  simpa using this

/-! ### (i) `backPath` finds a valid residual path -/

theorem pairs_snoc {ι : Type} : ∀ (q : List ι) (x v : ι), q.getLast? = some x →
    pairs (q ++ [v]) = pairs q ++ [(x, v)] := by
  intro q
  induction q with
  | nil => intro x v h; simp at h
  | cons a q ih =>
    intro x v h
    cases q with
    | nil =>
      simp at h; subst h
      simp [pairs]
    | cons b q' =>
      have h' : (b :: q').getLast? = some x := by
        rw [List.getLast?_cons_cons] at h; exact h
      have := ih x v h'
      simp only [List.cons_append] at this ⊢
      simp only [pairs, this, List.cons_append]

theorem backPath_append (R X : List (Int × Int)) (s : Int) :
    ∀ (k : Nat) (v : Int) (acc r : List Int), backPath R s k v acc = some r →
      backPath (R ++ X) s k v acc = some r := by
  intro k
  induction k with
  | zero => intro v acc r h; simp [backPath] at h
  | succ k ih =>
    intro v acc r h
    simp only [backPath] at h ⊢
    split at h
    · rename_i hvs
      rw [if_pos hvs]; exact h
    · rename_i hvs
      rw [if_neg hvs]
      split at h
      · rename_i e he
        rw [List.find?_append, he]
        simp only [Option.some_or]
        exact ih _ _ _ h
      · simp at h

/-- `q` is a simple residual path from the source to `v` inside the keys of `R`, and it is the path that
`backPath` computes -/
structure PathTo (N : Net) (f : Flow) (R : List (Int × Int)) (v : Int) (q : List Int) : Prop where
  head : q.head? = some N.s
  last : q.getLast? = some v
  nodup : q.Nodup
  sub : ∀ x ∈ q, x ∈ R.map (·.1)
  pos : ∀ e ∈ pairs q, 0 < resid N f e.1 e.2
  len : q.length ≤ R.length
  back : ∀ (k : Nat) (acc : List Int), q.length ≤ k → backPath R N.s k v acc = some (q ++ acc)

theorem PathTo.mono {N : Net} {f : Flow} {R : List (Int × Int)} {v : Int} {q : List Int}
    (h : PathTo N f R v q) (X : List (Int × Int)) : PathTo N f (R ++ X) v q where
  head := h.head
  last := h.last
  nodup := h.nodup
  sub := fun x hx => by
    simp only [List.map_append, List.mem_append]; exact Or.inl (h.sub x hx)
  pos := h.pos
  len := by simp only [List.length_append]; exact Nat.le_trans h.len (Nat.le_add_right _ _)
  back := fun k acc hk => backPath_append R X N.s k v acc _ (h.back k acc hk)

theorem GoodR.path {N : Net} {f : Flow} {R : List (Int × Int)} (h : GoodR N f R) :
    ∀ v ∈ R.map (·.1), ∃ q, PathTo N f R v q := by
  induction h with
  | base =>
    intro v hv
    simp at hv; subst hv
    refine ⟨[N.s], ⟨rfl, rfl, by simp, by simp, by simp [pairs], by simp, ?_⟩⟩
    intro k acc hk
    cases k with
    | zero => simp at hk
    | succ k => simp [backPath]
  | @snoc R v p hR hv hn hp hpos ih =>
    intro u hu
    simp only [List.map_append, List.mem_append, List.map_cons, List.map_nil, List.mem_singleton] at hu
    rcases hu with hu | hu
    · obtain ⟨q, hq⟩ := ih u hu
      exact ⟨q, hq.mono _⟩
    · subst hu
      obtain ⟨q, hq⟩ := ih p hp
      have hqne : q ≠ [] := by
        intro h0; have := hq.head; rw [h0] at this; simp at this
      have huq : u ∉ q := fun hm => hn (hq.sub u hm)
      have hus : u ≠ N.s := fun he => hn (he ▸ hR.s_mem)
      refine ⟨q ++ [u], ⟨?_, ?_, ?_, ?_, ?_, ?_, ?_⟩⟩
      · rw [List.head?_append_of_ne_nil _ hqne]; exact hq.head
      · simp
      · refine List.nodup_append.mpr ⟨hq.nodup, by simp, ?_⟩
        intro a ha b hb
        simp only [List.mem_singleton] at hb
        subst hb
        intro hab; subst hab; exact huq ha
      · intro x hx
        simp only [List.mem_append, List.mem_singleton] at hx
        simp only [List.map_append, List.mem_append, List.map_cons, List.map_nil, List.mem_singleton]
        rcases hx with hx | hx
        · exact Or.inl (hq.sub x hx)
        · exact Or.inr hx
      · intro e he
        rw [pairs_snoc q p u hq.last] at he
        simp only [List.mem_append, List.mem_singleton] at he
        rcases he with he | he
        · exact hq.pos e he
        · subst he; exact hpos
      · simp only [List.length_append, List.length_cons, List.length_nil]
        have := hq.len; omega
      · intro k acc hk
        simp only [List.length_append, List.length_cons, List.length_nil] at hk
        cases k with
        | zero => omega
        | succ k =>
          have hfind : (R ++ [(u, p)]).find? (fun e => e.1 == u) = some (u, p) := by
            rw [List.find?_append]
            have : R.find? (fun e => e.1 == u) = none := by
              apply List.find?_eq_none.mpr
              intro x hx hxu
              exact hn (List.mem_map.mpr ⟨x, hx, by simpa using hxu⟩)
            rw [this]; simp
          simp only [backPath]
          rw [if_neg (by simpa using hus), hfind]
          simp only
          rw [backPath_append R [(u, p)] N.s k p (u :: acc) _ (hq.back k (u :: acc) (by omega))]
          simp

/-- (i) search soundness: if the sink is reached, `backPath` returns a path that passes `validPath` -/
theorem search_sound (N : Net) (f : Flow) (hs : N.s ∈ N.verts) (ht : N.t ∈ reach N f) :
    ∃ path, backPath (reachP N f) N.s (N.verts.length + 1) N.t [] = some path ∧
      validPath N f path = true := by
  have hG := goodR_reachP N f
  obtain ⟨q, hq⟩ := hG.path N.t ht
  refine ⟨q, ?_, ?_⟩
  · have := hq.back (N.verts.length + 1) [] (by have := hq.len; have := hG.length_le hs; omega)
    simpa using this
  · simp only [validPath, Bool.and_eq_true, decide_eq_true_eq, beq_iff_eq, List.all_eq_true,
      List.contains_iff_mem]
    exact ⟨⟨⟨⟨hq.nodup, hq.head⟩, hq.last⟩, fun v hv => hG.keys_sub hs v (hq.sub v hv)⟩,
      fun e he => hq.pos e he⟩

/-! ### (ii) the final reachable set is closed -/

def ClosedR (N : Net) (f : Flow) (R : List (Int × Int)) : Prop :=
  ∀ u ∈ R.map (·.1), ∀ v ∈ N.verts, 0 < resid N f u v → v ∈ R.map (·.1)

theorem ClosedR.step {N : Net} {f : Flow} {R : List (Int × Int)} (h : ClosedR N f R) {v : Int}
    (hv : v ∈ N.verts) : expStep N f R v = R := by
  rcases expStep_cases N f R v with h' | ⟨hn, e, he, hpos, _⟩
  · exact h'
  · exact absurd (h e.1 (List.mem_map.mpr ⟨e, he, rfl⟩) v hv hpos) hn

theorem ClosedR.fold {N : Net} {f : Flow} {R : List (Int × Int)} (h : ClosedR N f R) :
    ∀ l : List Int, (∀ v ∈ l, v ∈ N.verts) → l.foldl (expStep N f) R = R := by
  intro l
  induction l with
  | nil => intro _; rfl
  | cons v l ih =>
    intro hl
    simp only [List.foldl_cons]
    rw [h.step (hl v (by simp))]
    exact ih (fun x hx => hl x (List.mem_cons_of_mem _ hx))

theorem ClosedR.expd {N : Net} {f : Flow} {R : List (Int × Int)} (h : ClosedR N f R) :
    expand N f R = R := by
  rw [expand_eq]; exact h.fold N.verts (fun _ h => h)

theorem foldl_length_eq (N : Net) (f : Flow) (l : List Int) :
    ∀ R : List (Int × Int), (l.foldl (expStep N f) R).length = R.length →
      ∀ v ∈ l, expStep N f R v = R := by
  induction l with
  | nil => intro R _ v hv; simp at hv
  | cons a l ih =>
    intro R hlen v hv
    simp only [List.foldl_cons] at hlen
    have h1 := (expStep_prefix N f R a).length_le
    have h2 := (foldl_prefix N f l (expStep N f R a)).length_le
    have ha : expStep N f R a = R :=
      ((expStep_prefix N f R a).eq_of_length (by omega)).symm
    rw [ha] at hlen
    simp only [List.mem_cons] at hv
    rcases hv with hv | hv
    · subst hv; exact ha
    · exact ih R hlen v hv

theorem closed_of_expand_length (N : Net) (f : Flow) (R : List (Int × Int))
    (h : (expand N f R).length = R.length) : ClosedR N f R := by
  rw [expand_eq] at h
  have hall := foldl_length_eq N f N.verts R h
  intro u hu v hv hpos
  rcases expStep_eq_self N f R v (hall v hv) with h1 | h1
  · exact h1
  · obtain ⟨e, he, heu⟩ := List.mem_map.mp hu
    exact absurd (by rw [heu]; exact hpos) (h1 e he)

theorem expand_length_le (N : Net) (f : Flow) (R : List (Int × Int)) :
    R.length ≤ (expand N f R).length := by
  rw [expand_eq]; exact (foldl_prefix N f N.verts R).length_le

theorem iter_closed_or_long (N : Net) (f : Flow) (R0 : List (Int × Int)) (h0 : 1 ≤ R0.length) :
    ∀ k : Nat, ClosedR N f (iter (expand N f) k R0) ∨ k + 1 ≤ (iter (expand N f) k R0).length := by
  intro k
  induction k with
  | zero => right; exact h0
  | succ k ih =>
    rw [iter_succ']
    rcases ih with hc | hl
    · left; rw [hc.expd]; exact hc
    · have hle := expand_length_le N f (iter (expand N f) k R0)
      by_cases heq : (expand N f (iter (expand N f) k R0)).length = (iter (expand N f) k R0).length
      · have hc := closed_of_expand_length N f _ heq
        left; rw [hc.expd]; exact hc
      · right; omega

theorem reachP_closed (N : Net) (f : Flow) (hs : N.s ∈ N.verts) : ClosedR N f (reachP N f) := by
  rcases iter_closed_or_long N f [(N.s, N.s)] (by simp) N.verts.length with h | h
  · exact h
  · have := (goodR_reachP N f).length_le hs
    unfold reachP at this
    omega

/-- (ii) the three checks of `ff` on the reachable set other than `t ∉ S` always pass -/
theorem reach_checks (N : Net) (f : Flow) (hs : N.s ∈ N.verts) :
    closedB N f (reach N f) = true ∧ (reach N f).contains N.s = true ∧
      (reach N f).all (fun v => N.verts.contains v) = true := by
  have hG := goodR_reachP N f
  have hC := reachP_closed N f hs
  refine ⟨?_, ?_, ?_⟩
  · simp only [closedB, List.all_eq_true, Bool.or_eq_true, List.contains_iff_mem, decide_eq_true_eq]
    intro u hu v hv
    by_cases hpos : 0 < resid N f u v
    · exact Or.inl (hC u hu v hv hpos)
    · exact Or.inr (by omega)
  · exact List.contains_iff_mem.mpr hG.s_mem
  · simp only [List.all_eq_true, List.contains_iff_mem]
    exact fun v hv => hG.keys_sub hs v hv

end FlowTotal

#print axioms FlowTotal.search_sound
#print axioms FlowTotal.reach_checks
