import Sck.Proofs.Eat4

/-! C05: the array updates of one iteration refine `advance`. -/

open Finset

namespace Eat

variable {n : Nat} {ranked : List (List Nat)} {speeds : List Rat} {st : State}

/-- the new `rem` vector -/
def rem' (n : Nat) (ranked : List (List Nat)) (speeds : List Rat) (st : State) (t : Rat) (j : Nat) :
    Option Rat :=
  match lk st.rem j with
  | none => none
  | some r => if 0 < r - total n ranked speeds st j * t then some (r - total n ranked speeds st j * t) else none

/-- the new `eaten` vector -/
def eaten' (speeds : List Rat) (st : State) (t : Rat) (i : Nat) : Option Rat :=
  match lk st.eaten i with
  | none => none
  | some e => if e + spd speeds i * t < 1 then some (e + spd speeds i * t) else none

theorem applyT_rem (t : Rat) :
    (applyT n ranked speeds st t).rem = (List.range n).map (rem' n ranked speeds st t) := rfl

theorem applyT_eaten (t : Rat) :
    (applyT n ranked speeds st t).eaten = (List.range n).map (eaten' speeds st t) := rfl

theorem applyT_mat (t : Rat) :
    (applyT n ranked speeds st t).mat = (List.range n).map (fun i => (List.range n).map (fun j =>
      mget st.mat i j + (if curItem ranked st i = some j then t * spd speeds i else 0))) := rfl

theorem applyT_pos (t : Rat) :
    (applyT n ranked speeds st t).pos = (List.range n).map (fun i =>
      match lk st.pos i with
      | none => none
      | some p =>
        if skip (ranked.getD i []) ((List.range n).map (rem' n ranked speeds st t)) p = n ∨
            lk ((List.range n).map (eaten' speeds st t)) i = none then none
        else some (skip (ranked.getD i []) ((List.range n).map (rem' n ranked speeds st t)) p)) := rfl

theorem lk_rem' (t : Rat) (j : Nat) (hj : j < n) :
    lk (applyT n ranked speeds st t).rem j = rem' n ranked speeds st t j := by
  rw [applyT_rem, lk_mk n _ j hj]

theorem lk_eaten' (t : Rat) (i : Nat) (hi : i < n) :
    lk (applyT n ranked speeds st t).eaten i = eaten' speeds st t i := by
  rw [applyT_eaten, lk_mk n _ i hi]

theorem rem'_none_of_none (t : Rat) (j : Nat) (h : lk st.rem j = none) :
    rem' n ranked speeds st t j = none := by
  simp [rem', h]

theorem rem'_isSome (t : Rat) (j : Nat) (h : (rem' n ranked speeds st t j).isSome = true) :
    (lk st.rem j).isSome = true := by
  cases hl : lk st.rem j with
  | none => rw [rem'_none_of_none t j hl] at h; cases h
  | some r => rfl

theorem eaten'_none_of_none (t : Rat) (i : Nat) (h : lk st.eaten i = none) :
    eaten' speeds st t i = none := by
  simp [eaten', h]

theorem eaten'_isSome (t : Rat) (i : Nat) (h : (eaten' speeds st t i).isSome = true) :
    (lk st.eaten i).isSome = true := by
  cases hl : lk st.eaten i with
  | none => rw [eaten'_none_of_none t i hl] at h; cases h
  | some r => rfl

/-- the concrete admissibility gives the abstract one -/
theorem admissible_of_admC (hr : RankedOK n ranked) (h : CI n ranked st) (t : Rat)
    (ha : AdmC n ranked speeds st t) :
    Admissible (order n ranked) (sF n speeds) (absSt n st) t := by
  refine ⟨ha.nonneg, ?_, ?_⟩
  · intro i hc
    rw [cur_isSome_abs hr h i] at hc
    obtain ⟨j, hj⟩ := Option.isSome_iff_exists.mp hc
    have he := (curItem_lt hr h i.val i.isLt j hj).2.2
    obtain ⟨e, he⟩ := Option.isSome_iff_exists.mp he
    have := ha.agent i.val i.isLt e he
    simp only [absSt, sF, he, Option.getD_some]
    linarith
  · intro j
    rw [tot_abs hr h speeds j]
    simp only [absSt]
    cases hl : lk st.rem j.val with
    | none =>
      rw [total_zero_of_exhausted hr h j.val hl]; simp
    | some r =>
      have := ha.item j.val j.isLt r hl
      simp only [Option.getD_some]
      linarith

/-- **refinement**: the updated arrays are the abstract `advance` -/
theorem applyT_abs (hr : RankedOK n ranked) (h : CI n ranked st) (hx : exitNow st = false)
    (t : Rat) (ha : AdmC n ranked speeds st t) :
    absSt n (applyT n ranked speeds st t) =
      advance (order n ranked) (sF n speeds) (absSt n st) t := by
  apply EatSt.ext'
  · funext j
    show (lk (applyT n ranked speeds st t).rem j.val).getD 0 =
      (lk st.rem j.val).getD 0 - t * tot (order n ranked) (sF n speeds) (absSt n st) j
    rw [lk_rem' t j.val j.isLt, tot_abs hr h speeds j, rem']
    cases hl : lk st.rem j.val with
    | none =>
      rw [total_zero_of_exhausted hr h j.val hl]; simp
    | some r =>
      have := ha.item j.val j.isLt r hl
      simp only [Option.getD_some]
      by_cases hp : 0 < r - total n ranked speeds st j.val * t
      · rw [if_pos hp]; simp only [Option.getD_some]; ring
      · rw [if_neg hp]; simp only [Option.getD_none]; linarith
  · funext i
    show (lk (applyT n ranked speeds st t).eaten i.val).getD 1 =
      (lk st.eaten i.val).getD 1 +
        (if (cur (order n ranked) (absSt n st) i).isSome then t * sF n speeds i else 0)
    rw [lk_eaten' t i.val i.isLt, cur_isSome_abs hr h i, eaten']
    cases hl : lk st.eaten i.val with
    | none =>
      have : curItem ranked st i.val = none := by
        cases hc : curItem ranked st i.val with
        | none => rfl
        | some j =>
          have := (curItem_lt hr h i.val i.isLt j hc).2.2
          rw [hl] at this; cases this
      rw [this]; simp
    | some e =>
      have hc := body_cur hr h hx i.val i.isLt (by rw [hl]; rfl)
      have := ha.agent i.val i.isLt e hl
      rw [hc]
      simp only [Option.getD_some, if_true, sF]
      by_cases hp : e + spd speeds i.val * t < 1
      · rw [if_pos hp]; simp only [Option.getD_some]; ring
      · rw [if_neg hp]; simp only [Option.getD_none]; linarith
  · funext i j
    show mget (applyT n ranked speeds st t).mat i.val j.val =
      mget st.mat i.val j.val +
        (if cur (order n ranked) (absSt n st) i = some j then t * sF n speeds i else 0)
    rw [applyT_mat, mget_mk n _ i.val j.val i.isLt j.isLt]
    by_cases hc : cur (order n ranked) (absSt n st) i = some j
    · rw [if_pos hc, if_pos ((cur_abs_eq hr h i j).mp hc)]; rfl
    · rw [if_neg hc, if_neg (fun hc' => hc ((cur_abs_eq hr h i j).mpr hc'))]

end Eat
