import Sck.Proofs.DA8

/-! C01 prototype: the loop terminates within `potential + 1` rounds. -/

theorem step_ptr_advance (I : DA) (st : St) (p : Nat) (h : st.ptr p < (I.plist p).length) :
    (step I st p).ptr p = st.ptr p + 1 := by
  rcases step_ptr_self I st p with h1 | ⟨h1, _⟩
  · -- the step was a no-op only if the list was exhausted
    unfold step at h1
    have : (I.plist p)[st.ptr p]? = some ((I.plist p)[st.ptr p]) := List.getElem?_eq_getElem h
    rw [this] at h1
    dsimp only at h1
    split at h1
    · simp [setPtr] at h1
    · split at h1
      · simp [setPtr] at h1
      · split at h1 <;> simp [setPtr] at h1
  · exact h1

/-- in a fold over a list containing `p0`, with `p0` enabled and not exhausted, its pointer advances -/
theorem fold_ptr_advance (I : DA) (g : Nat → Bool) (ps : List Nat) (s : St) (p0 : Nat)
    (hmem : p0 ∈ ps) (hg : g p0 = true) (hlt : s.ptr p0 < (I.plist p0).length) :
    s.ptr p0 + 1 ≤ (ps.foldl (fun s p => if g p then step I s p else s) s).ptr p0 := by
  induction ps generalizing s with
  | nil => simp at hmem
  | cons p ps ih =>
    simp only [List.foldl_cons]
    by_cases hp : p = p0
    · subst hp
      simp only [hg, if_true]
      have h1 := step_ptr_advance I s p hlt
      have h2 := foldl_steps_ptr_mono I g ps (step I s p) p
      omega
    · have hmem' : p0 ∈ ps := by
        simp at hmem; rcases hmem with h | h
        · exact absurd h.symm hp
        · exact h
      have hsame : (if g p then step I s p else s).ptr p0 = s.ptr p0 := by
        split
        · exact step_ptr_other I s p p0 (fun h => hp h.symm)
        · rfl
      have := ih (if g p then step I s p else s) hmem' (by rw [hsame]; exact hlt)
      omega

theorem sum_map_lt_of_le_of_lt (l : List Nat) (f g : Nat → Nat) (hle : ∀ x ∈ l, f x ≤ g x)
    (x0 : Nat) (hx0 : x0 ∈ l) (hlt : f x0 < g x0) : (l.map f).sum < (l.map g).sum := by
  induction l with
  | nil => simp at hx0
  | cons a l ih =>
    simp only [List.map_cons, List.sum_cons]
    have ha := hle a (by simp)
    have hle' : ∀ x ∈ l, f x ≤ g x := fun x hx => hle x (by simp [hx])
    by_cases h : x0 ∈ l
    · have := ih hle' h; omega
    · have hxa : x0 = a := by simp at hx0; rcases hx0 with h' | h'; exact h'; exact absurd h' h
      subst hxa
      have : (l.map f).sum ≤ (l.map g).sum := by
        clear ih h hx0 ha hle
        induction l with
        | nil => simp
        | cons b l ih2 =>
          simp only [List.map_cons, List.sum_cons]
          have := hle' b (by simp)
          have := ih2 (fun x hx => hle' x (by simp [hx]))
          omega
      omega

theorem round_potential_lt (I : DA) (hwf : WF I) (np : Nat) (st : St) (hinv : DAInv I st)
    (hany : (List.range np).any (active I st) = true) :
    potential I np (gsRound I np st) < potential I np st := by
  obtain ⟨p0, hp0, hact⟩ := List.any_eq_true.mp hany
  have hinv' := round_inv I hwf np st hinv
  have hlt : st.ptr p0 < (I.plist p0).length := by
    simp only [active, Bool.and_eq_true, decide_eq_true_eq] at hact; exact hact.2
  have hadv : st.ptr p0 + 1 ≤ (gsRound I np st).ptr p0 :=
    fold_ptr_advance I (active I st) (List.range np) st p0 hp0 hact hlt
  unfold potential
  apply sum_map_lt_of_le_of_lt _ _ _ _ p0 hp0
  · have := hinv'.ptr_le p0; omega
  · intro q _
    have := foldl_steps_ptr_mono I (active I st) (List.range np) st q
    unfold gsRound
    omega

theorem gsLoop_terminates (I : DA) (hwf : WF I) (np : Nat) :
    ∀ fuel st, DAInv I st → potential I np st < fuel → ∃ st', gsLoop I np fuel st = some st' := by
  intro fuel
  induction fuel with
  | zero => intro st _ h; omega
  | succ fuel ih =>
    intro st hinv hpot
    simp only [gsLoop]
    split
    · rename_i hany
      have hlt := round_potential_lt I hwf np st hinv hany
      exact ih _ (round_inv I hwf np st hinv) (by omega)
    · exact ⟨st, rfl⟩

#print axioms gsLoop_terminates
