import Sck.Proofs.Lattice4

/-! # The lattice of stable matchings (C03, package L7), part 5: executable runs of `eliminate_rotations` are
spec-level elimination paths; values along paths; `optStable` as a maximum over elimination sequences -/

namespace SMLattice

open Irving IrvingAlgo

variable {n : ℕ}

theorem exists_men_of_subset {M : List Pair} {μ : Equiv.Perm (Fin n)} (h : Rep M μ) :
    ∀ l : List Pair, (∀ p ∈ l, p ∈ M) → ∃ ρ : List (Fin n), l = rotPairs μ ρ := by
  intro l
  induction l with
  | nil => intro _; exact ⟨[], rfl⟩
  | cons p l ih =>
    intro hl
    obtain ⟨ρ, rfl⟩ := ih (fun q hq => hl q (List.mem_cons_of_mem _ hq))
    obtain ⟨a, rfl⟩ := h.mem_iff.mp (hl p List.mem_cons_self)
    exact ⟨a :: ρ, rfl⟩

/-- a non-empty rotation exposed (executable notion) in a list of pairs representing the stable matching `μ` is the
pairs form of a rotation exposed in `μ` at the spec level -/
theorem exposed_unbridge {P1 P2 : List (List Nat)} (h1 : ∀ a, Function.Injective (rk n P1 a)) {M : List Pair}
    {μ : Equiv.Perm (Fin n)} (h : Rep M μ) (hμ : StableSM (rk n P1) (rk n P2) μ) {rho : List Pair}
    (hne : rho ≠ []) (hex : Exposed P1 P2 M rho) :
    ∃ ρ, rho = rotPairs μ ρ ∧ ExposedRot (rk n P1) (rk n P2) μ ρ := by
  obtain ⟨ρ, rfl⟩ := exists_men_of_subset h rho (fun p hp => by
    obtain ⟨i, hi, rfl⟩ := List.getElem_of_mem hp
    have := (hex.2 i hi).1
    unfold rotAt at this
    rwa [List.getD_eq_getElem?_getD, List.getElem?_eq_getElem hi] at this)
  refine ⟨ρ, rfl, ?_⟩
  have hnd : ρ.Nodup := by
    have := hex.1
    unfold rotPairs at this
    rw [List.map_map] at this
    exact List.Nodup.of_map _ this
  refine ⟨hnd, fun h0 => hne (by rw [h0]; rfl), ?_⟩
  intro a ha
  obtain ⟨i, hi, rfl⟩ := List.getElem_of_mem ha
  have hi' : (i + 1) % ρ.length < ρ.length := Nat.mod_lt _ (by omega)
  have hform := List.formPerm_apply_getElem ρ hnd i hi
  obtain ⟨_, e2, e3⟩ := hex.2 i (by rw [rotPairs_length]; exact hi)
  rw [rotNew_rotPairs μ hnd i hi, rotAt_rotPairs μ ρ i hi, rotPairs_length, rotAt_rotPairs μ ρ _ hi'] at e2
  rw [rotNew_rotPairs μ hnd i hi, rotAt_rotPairs μ ρ i hi] at e3
  have e2' : rk n P2 (μ (ρ.formPerm ρ[i])) ρ[i] < rk n P2 (μ (ρ.formPerm ρ[i])) (ρ.formPerm ρ[i]) := by
    simpa [pr, rk, hform] using e2
  have c2 : rk n P2 (μ (ρ.formPerm ρ[i])) ρ[i] < rk n P2 (μ (ρ.formPerm ρ[i])) (μ.symm (μ (ρ.formPerm ρ[i]))) := by
    simpa using e2'
  have c1 : rk n P1 ρ[i] (μ ρ[i]) < rk n P1 ρ[i] (μ (ρ.formPerm ρ[i])) := by
    rcases Nat.lt_trichotomy (rk n P1 ρ[i] (μ (ρ.formPerm ρ[i]))) (rk n P1 ρ[i] (μ ρ[i])) with hc | hc | hc
    · exact absurd ⟨hc, c2⟩ (hμ _ _)
    · have : ρ.formPerm ρ[i] = ρ[i] := μ.injective (h1 _ hc)
      rw [this] at e2'
      exact absurd e2' (Nat.lt_irrefl _)
    · exact hc
  refine ⟨⟨c1, c2⟩, ?_⟩
  intro b' ⟨d1, d2⟩
  by_contra hlt
  have hlt : rk n P1 ρ[i] b' < rk n P1 ρ[i] (μ (ρ.formPerm ρ[i])) := by omega
  refine e3 (pr μ (μ.symm b')) (h.mem _) ⟨?_, ?_, ?_⟩
  · simpa [pr, rk] using d1
  · simpa [pr, rk] using hlt
  · simpa [pr, rk] using d2

/-- **a checked run of the executable `eliminate_rotations` is a spec-level elimination path**: if `M` represents the
stable matching `μ` and every (non-empty) rotation of `B` is exposed when its turn comes, then `B` is the pairs form
of an `ElimPath` from `μ`, the run does not raise, and its result represents the end point -/
theorem path_unbridge {P1 P2 : List (List Nat)} (h1 : ∀ a, Function.Injective (rk n P1 a)) :
    ∀ (B : List (List Pair)) (M : List Pair) (μ : Equiv.Perm (Fin n)), Rep M μ →
      StableSM (rk n P1) (rk n P2) μ → (∀ r ∈ B, r ≠ []) → exposedAllB P1 P2 M B = true →
      ∃ rots ν M', ElimPath (rk n P1) (rk n P2) μ rots ν ∧ pathPairs μ rots = B ∧
        eliminateAll M B = some M' ∧ Rep M' ν := by
  intro B
  induction B with
  | nil => intro M μ hM _ _ _; exact ⟨[], μ, M, rfl, rfl, rfl, hM⟩
  | cons rho rest ih =>
    intro M μ hM hμ hne hex
    simp only [exposedAllB, Bool.and_eq_true] at hex
    obtain ⟨hex1, hex2⟩ := hex
    obtain ⟨ρ, rfl, hexρ⟩ := exposed_unbridge h1 hM hμ (hne _ List.mem_cons_self) ((exposedB_iff _ _ _ _).mp hex1)
    obtain ⟨M1, hM1, hrep1⟩ := eliminate_bridge hM hexρ.1 (exposedRot_move hexρ)
    rw [hM1] at hex2
    obtain ⟨rots, ν, M', hp, hpp, hel, hrep'⟩ := ih M1 (elim μ ρ) hrep1 (exposed_elim_stable h1 hμ hexρ).1
      (fun r hr => hne r (List.mem_cons_of_mem _ hr)) hex2
    refine ⟨ρ :: rots, ν, M', ⟨hexρ, hp⟩, by simp only [pathPairs, hpp], ?_, hrep'⟩
    simp only [eliminateAll, hM1]; exact hel

/-! ### values -/

/-- value of a list of pairs representing `ν` -/
theorem matchingValue_rep (V1 V2 : List (List Int)) {M : List Pair} {ν : Equiv.Perm (Fin n)} (h : Rep M ν) :
    matchingValue V1 V2 M = ∑ a : Fin n, (intOf V1 a (ν a) + intOf V2 (ν a) a) := by
  rw [matchingValue_eq_sum, (List.Perm.map (pairVal V1 V2) h).sum_eq]
  unfold pairsOfPerm
  rw [List.map_ofFn, List.sum_ofFn]
  rfl

/-- **(g)** weight additivity along a spec-level path: the value of the end point is the value of the starting point
plus the weights (`rotation_weight`) of the eliminated rotations -/
theorem elimPath_value {P1 P2 : List (List Nat)} (h1 : ∀ a, Function.Injective (rk n P1 a)) (V1 V2 : List (List Int))
    {μ ν : Equiv.Perm (Fin n)} (hμ : StableSM (rk n P1) (rk n P2) μ) {rots : List (List (Fin n))}
    (hp : ElimPath (rk n P1) (rk n P2) μ rots ν) :
    ∑ a : Fin n, (intOf V1 a (ν a) + intOf V2 (ν a) a)
      = ∑ a : Fin n, (intOf V1 a (μ a) + intOf V2 (μ a) a)
        + ((pathPairs μ rots).map (rotationWeight V1 V2)).sum := by
  have hM : Rep (pairsOfPerm μ) μ := List.Perm.refl _
  obtain ⟨_, M', hel, hrep'⟩ := path_bridge h1 rots μ ν _ hM hμ hp
  rw [← matchingValue_rep V1 V2 hrep', ← matchingValue_rep V1 V2 hM]
  exact eliminateAll_value V1 V2 _ _ _ hel

/-- **(h)** `optStable` = value of the male-optimal matching + the maximum, over all sequences of rotations that can
be eliminated one after the other from it (each exposed when its turn comes), of the sum of their weights -/
theorem opt_eq_max_over_elimination_sequences {P1 P2 : List (List Nat)} {V1 V2 : List (List Int)}
    (hwf : wfB n P1 P2 V1 V2 = true) {M0 : List Pair} (h : maleOptimal n P1 P2 = some M0) (v : Int) :
    Brute.optStable n P1 P2 V1 V2 = some v ↔
      (∃ rots M, exposedAllB P1 P2 M0 rots = true ∧ eliminateAll M0 rots = some M ∧
        v = matchingValue V1 V2 M0 + (rots.map (rotationWeight V1 V2)).sum) ∧
      (∀ rots, exposedAllB P1 P2 M0 rots = true →
        matchingValue V1 V2 M0 + (rots.map (rotationWeight V1 V2)).sum ≤ v) := by
  obtain ⟨μ0, hrep0, hst0, _⟩ := maleOptimal_spec hwf h
  have hinj := injRowsB_of_wfB n P1 P2 V1 V2 hwf
  -- every checked run ends in a stable matching counted by the brute force
  have hupper : ∀ rots, exposedAllB P1 P2 M0 rots = true →
      ∃ v', Brute.optStable n P1 P2 V1 V2 = some v' ∧
        matchingValue V1 V2 M0 + (rots.map (rotationWeight V1 V2)).sum ≤ v' := by
    intro rots hex
    obtain ⟨M', hM', hst', hfst, hsnd⟩ := eliminateAll_stable n P1 P2 hinj rots M0 hrep0.bounded
      (hrep0.snd_perm.nodup_iff.mpr List.nodup_range) ((stablePairs_iff hrep0).mpr hst0) hex
    obtain ⟨_, _, v', hv', hle⟩ := Brute.pairs_le_opt n P1 P2 V1 V2 M' (hfst ▸ hrep0.fst_perm)
      (hsnd.trans hrep0.snd_perm) hst'
    rw [eliminateAll_value V1 V2 rots M0 M' hM'] at hle
    exact ⟨v', hv', hle⟩
  -- the optimum is attained by a run
  have hattain : ∀ v', Brute.optStable n P1 P2 V1 V2 = some v' →
      ∃ rots M, exposedAllB P1 P2 M0 rots = true ∧ eliminateAll M0 rots = some M ∧
        v' = matchingValue V1 V2 M0 + (rots.map (rotationWeight V1 V2)).sum := by
    intro v' hv'
    obtain ⟨⟨ν, hν, hval⟩, _⟩ := (Brute.optStable_eq_some_iff_perm n P1 P2 V1 V2 v').mp hv'
    obtain ⟨rots, hex, M, hM, hrep⟩ := reachable_from_maleOptimal hwf h hν
    refine ⟨rots, M, hex, hM, ?_⟩
    rw [← eliminateAll_value V1 V2 rots M0 M hM, matchingValue_rep V1 V2 hrep, ← hval]
  constructor
  · intro hv
    refine ⟨hattain v hv, fun rots hex => ?_⟩
    obtain ⟨v', hv', hle⟩ := hupper rots hex
    rw [hv] at hv'
    rw [Option.some.inj hv']; exact hle
  · rintro ⟨⟨rots, M, hex, _, hv⟩, hmax⟩
    obtain ⟨v', hv', hle⟩ := hupper rots hex
    obtain ⟨rots', M', hex', _, hv''⟩ := hattain v' hv'
    have := hmax rots' hex'
    rw [hv']
    congr 1
    omega

end SMLattice

#print axioms SMLattice.path_unbridge
#print axioms SMLattice.opt_eq_max_over_elimination_sequences
