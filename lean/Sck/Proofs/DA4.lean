import Sck.Proofs.DA3

theorem mem_matchesOf {mu : List (Nat × Nat)} {r p : Nat} : r ∈ matchesOf mu p ↔ (p, r) ∈ mu := by
  simp only [matchesOf, List.mem_map, List.mem_filter, beq_iff_eq]
  constructor
  · rintro ⟨⟨a, b⟩, ⟨h1, h2⟩, h3⟩
    simp at h2 h3; subst h2; subst h3; exact h1
  · intro h; exact ⟨(p, r), ⟨h, rfl⟩, rfl⟩

/-- no proposer can act any more -/
def Final (I : DA) (st : St) : Prop :=
  ∀ p, (matchesOf st.mu p).length < I.qp p → st.ptr p = (I.plist p).length

/-- `p` ranks `r` strictly above `r'` -/
def prefersP (I : DA) (p r r' : Nat) : Prop :=
  ∃ i j : Nat, i < j ∧ (I.plist p)[i]? = some r ∧ (I.plist p)[j]? = some r'

def BlockingDA (I : DA) (mu : List (Nat × Nat)) (p r : Nat) : Prop :=
  (∃ i : Nat, (I.plist p)[i]? = some r) ∧ (p, r) ∉ mu ∧
  ((matchesOf mu p).length < I.qp p ∨ ∃ r' ∈ matchesOf mu p, prefersP I p r r') ∧
  (∃ a, I.rrank r p = some a ∧
    ((heldBy mu r).length < I.qr r ∨ ∃ p' ∈ heldBy mu r, ∃ b, I.rrank r p' = some b ∧ a < b))

theorem final_stable (I : DA) (hwf : WF I) (st : St) (h : DAInv I st) (hf : Final I st) :
    ∀ p r, ¬ BlockingDA I st.mu p r := by
  rintro p r ⟨⟨i, hi⟩, hnm, hp, a, ha, hr⟩
  have hil : i < (I.plist p).length := (List.getElem?_eq_some_iff.mp hi).1
  have hiptr : i < st.ptr p := by
    rcases hp with hfree | ⟨r', hr', i', j', hij, hi', hj'⟩
    · rw [hf p hfree]; exact hil
    · obtain ⟨k, hk, hkr⟩ := h.before p r' (mem_matchesOf.mp hr')
      have h1 := nodup_getElem?_inj (hwf.1 p) hkr hj'
      have h2 := nodup_getElem?_inj (hwf.1 p) hi hi'
      omega
  obtain ⟨hfull, hbetter⟩ := h.rej p i r a hiptr hi ha hnm
  rcases hr with hroom | ⟨p', hp', b, hb, hab⟩
  · omega
  · obtain ⟨b', hb', hlt⟩ := hbetter p' hp'
    rw [hb] at hb'; simp at hb'; omega

#print axioms final_stable

/-- feasibility facts read off the invariant -/
theorem inv_feasible (I : DA) (st : St) (h : DAInv I st) :
    st.mu.Nodup ∧ (∀ r, (heldBy st.mu r).length ≤ I.qr r) ∧
    (∀ p r, (p, r) ∈ st.mu → (∃ i : Nat, (I.plist p)[i]? = some r) ∧ ∃ a, I.rrank r p = some a) :=
  ⟨h.nodup, h.capR, fun p r hm => ⟨(h.before p r hm).imp (fun _ hh => hh.2), h.acc p r hm⟩⟩


theorem init_inv (I : DA) : DAInv I St.init := by
  refine ⟨by simp [St.init], ?_, ?_, ?_, ?_, ?_⟩ <;> simp [St.init, heldBy]

/-- every state reachable by any sequence of proposals satisfies the invariant -/
theorem run_inv (I : DA) (hwf : WF I) (ps : List Nat) : DAInv I (ps.foldl (step I) St.init) := by
  suffices ∀ st, DAInv I st → DAInv I (ps.foldl (step I) st) from this _ (init_inv I)
  induction ps with
  | nil => intro st h; exact h
  | cons p ps ih => intro st h; exact ih _ (step_inv I hwf st p h)

#print axioms run_inv
