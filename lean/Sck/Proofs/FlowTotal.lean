import Sck.Proofs.FlowTotal1

/-! C08: totality of the executable max-flow model, part (iii) termination measure, and the end result
`ff_total`: on a well-formed network `ff` with fuel `ffFuel N` (or more) never returns an error. -/

open Finset

namespace FlowTotal

/-! ### the fuel is one more than the capacity of the cut `{s}` -/

theorem ffFuel_eq (N : Net) (hnd : N.verts.Nodup) :
    (ffFuel N : Int) = 1 + cutCap N.verts.toFinset N.cap {N.s} := by
  unfold ffFuel cutCap
  rw [Finset.sum_singleton]
  have hL : (N.verts.filter (fun v => !(v == N.s))).Nodup := hnd.filter _
  have hset : (N.verts.filter (fun v => !(v == N.s))).toFinset = N.verts.toFinset \ {N.s} := by
    ext x; simp
  rw [← List.sum_toFinset _ hL, hset]
  push_cast
  congr 1
  apply Finset.sum_congr rfl
  intro v _
  exact Int.toNat_of_nonneg (cap_nonneg N N.s v)

/-- every flow has value at most the capacity of the cut `{s}` -/
theorem value_le_cutS (N : Net) (hwf : N.WF) (g : Flow)
    (hg : IsFlow N.verts.toFinset N.cap N.s N.t g) :
    flowValue N.verts.toFinset N.s g ≤ cutCap N.verts.toFinset N.cap {N.s} := by
  apply flow_le_cut N.verts.toFinset N.cap N.s N.t g hg {N.s}
  · intro x hx
    rw [Finset.mem_singleton] at hx
    subst hx
    exact List.mem_toFinset.mpr hwf.1
  · exact Finset.mem_singleton_self _
  · intro h
    rw [Finset.mem_singleton] at h
    exact hwf.2.2 h.symm

/-! ### every augmentation gains at least one unit -/

theorem bottleneck_pos (N : Net) (f : Flow) (es : List (Int × Int)) (hne : es ≠ [])
    (h : ∀ e ∈ es, 0 < resid N f e.1 e.2) : 0 < bottleneck N f es := by
  induction es with
  | nil => exact absurd rfl hne
  | cons a es ih =>
    cases es with
    | nil => simp only [bottleneck]; exact h a (by simp)
    | cons b es' =>
      simp only [bottleneck]
      have h1 := h a (by simp)
      have h2 := ih (by simp) (fun e he => h e (List.mem_cons_of_mem _ he))
      exact Int.lt_min.mpr ⟨h1, h2⟩

theorem pairs_ne_nil {ι : Type} (path : List ι) (s t : ι) (hst : s ≠ t)
    (hh : path.head? = some s) (hl : path.getLast? = some t) : pairs path ≠ [] := by
  cases path with
  | nil => simp at hh
  | cons a rest =>
    cases rest with
    | nil =>
      simp at hh hl
      exact absurd (hh.symm.trans hl) hst
    | cons b rest' => simp [pairs]

/-- what `validPath` gives -/
theorem validPath_spec (N : Net) (f : Flow) (path : List Int) (h : validPath N f path = true) :
    path.Nodup ∧ path.head? = some N.s ∧ path.getLast? = some N.t ∧ (∀ v ∈ path, v ∈ N.verts) ∧
      ∀ e ∈ pairs path, 0 < resid N f e.1 e.2 := by
  simp only [validPath, Bool.and_eq_true, decide_eq_true_eq, beq_iff_eq, List.all_eq_true,
    List.contains_iff_mem] at h
  obtain ⟨⟨⟨⟨hnd, hhead⟩, hlast⟩, hV⟩, hpos⟩ := h
  exact ⟨hnd, hhead, hlast, hV, hpos⟩

/-- augmenting along a path accepted by `validPath` gives a flow whose value is larger by at least one -/
theorem aug_step (N : Net) (hwf : N.WF) (f : Flow) (hf : IsFlow N.verts.toFinset N.cap N.s N.t f)
    (path : List Int) (hv : validPath N f path = true) :
    IsFlow N.verts.toFinset N.cap N.s N.t (augPath f path (bottleneck N f (pairs path))) ∧
      flowValue N.verts.toFinset N.s f + 1 ≤
        flowValue N.verts.toFinset N.s (augPath f path (bottleneck N f (pairs path))) := by
  obtain ⟨hnd, hhead, hlast, hV, hpos⟩ := validPath_spec N f path hv
  have hres : ∀ e ∈ pairs path, bottleneck N f (pairs path) ≤ N.cap e.1 e.2 - f e.1 e.2 :=
    fun e he => bottleneck_le N f (pairs path) e he
  have hc : 0 < bottleneck N f (pairs path) :=
    bottleneck_pos N f (pairs path) (pairs_ne_nil path N.s N.t hwf.2.2 hhead hlast) hpos
  have := augPath_isFlow N.verts.toFinset N.cap N.s N.t f hf path hnd
    (fun v hv => List.mem_toFinset.mpr (hV v hv)) hhead hlast hwf.2.2 _ (Int.le_of_lt hc) hres
  refine ⟨this.1, ?_⟩
  rw [this.2]; omega

/-! ### (iii) the loop terminates within the fuel -/

theorem ffLoop_ok (N : Net) (hwf : N.WF) :
    ∀ (k : Nat) (f : Flow), IsFlow N.verts.toFinset N.cap N.s N.t f →
      cutCap N.verts.toFinset N.cap {N.s} - flowValue N.verts.toFinset N.s f < (k : Int) →
      ∃ f', ffLoop N k f = .ok f' := by
  intro k
  induction k with
  | zero =>
    intro f hf hlt
    have := value_le_cutS N hwf f hf
    simp only [Nat.cast_zero] at hlt
    omega
  | succ k ih =>
    intro f hf hlt
    simp only [ffLoop]
    by_cases hc : (List.map (fun x => x.1) (reachP N f)).contains N.t = true
    · rw [if_pos hc]
      have ht : N.t ∈ reach N f := List.contains_iff_mem.mp hc
      obtain ⟨path, hback, hvalid⟩ := search_sound N f hwf.1 ht
      rw [hback]
      simp only
      rw [if_pos hvalid]
      obtain ⟨hf', hval⟩ := aug_step N hwf f hf path hvalid
      apply ih _ hf'
      push_cast at hlt
      omega
    · rw [if_neg hc]
      exact ⟨f, rfl⟩

theorem ffLoop_ok_not_reach (N : Net) :
    ∀ (k : Nat) (f0 f : Flow), ffLoop N k f0 = .ok f → N.t ∉ reach N f := by
  intro k
  induction k with
  | zero => intro f0 f h; simp [ffLoop] at h
  | succ k ih =>
    intro f0 f h
    simp only [ffLoop] at h
    split at h
    · split at h
      · simp at h
      · split at h
        · exact ih _ f h
        · simp at h
    · rename_i hc
      simp at h; subst h
      intro hm
      exact hc (List.contains_iff_mem.mpr hm)

theorem wf_of_netWfB (N : Net) (hwf : netWfB N = true) : N.verts.Nodup ∧ N.WF := by
  simp only [netWfB, Bool.and_eq_true, decide_eq_true_eq, List.contains_iff_mem, Bool.not_eq_true',
    beq_eq_false_iff_ne] at hwf
  obtain ⟨⟨⟨⟨⟨hnd, hs⟩, ht⟩, hst⟩, _⟩, _⟩ := hwf
  exact ⟨hnd, hs, ht, hst⟩

/-- totality of the model for every sufficient fuel (only `verts.Nodup`, `s, t ∈ verts`, `s ≠ t` are used) -/
theorem ff_total_of_wf (N : Net) (hnd : N.verts.Nodup) (hwf : N.WF) (fuel : Nat)
    (hfuel : ffFuel N ≤ fuel) : ∃ r, ff N fuel = .ok r := by
  have hB := ffFuel_eq N hnd
  have h0 : flowValue N.verts.toFinset N.s (fun _ _ => (0 : Int)) = 0 := by simp [flowValue]
  obtain ⟨f', hloop⟩ := ffLoop_ok N hwf fuel (fun _ _ => 0) (zero_isFlow N) (by
    rw [h0]
    have : (ffFuel N : Int) ≤ (fuel : Int) := by exact_mod_cast hfuel
    omega)
  have ht := ffLoop_ok_not_reach N fuel _ f' hloop
  obtain ⟨h1, h2, h3⟩ := reach_checks N f' hwf.1
  have h4 : (reach N f').contains N.t = false := by
    rw [Bool.eq_false_iff]
    intro h; exact ht (List.contains_iff_mem.mp h)
  refine ⟨(f', reach N f'), ?_⟩
  simp only [ff, hloop]
  rw [if_pos (by rw [h1, h2, h3, h4]; rfl)]

end FlowTotal

open FlowTotal

/-- monotone version: every fuel at least `ffFuel N` suffices -/
theorem ff_total_of_le (N : Net) (hwf : netWfB N = true) :
    ∀ fuel, ffFuel N ≤ fuel → ∃ r, ff N fuel = .ok r := by
  obtain ⟨hnd, hw⟩ := wf_of_netWfB N hwf
  exact fun fuel h => ff_total_of_wf N hnd hw fuel h

/-- totality of the model: on a well-formed network, `ff` with fuel `ffFuel N` does not fail -/
theorem ff_total (N : Net) (hwf : netWfB N = true) : ∃ r, ff N (ffFuel N) = .ok r :=
  ff_total_of_le N hwf _ (Nat.le_refl _)

/-- totality combined with partial correctness: the model returns a maximum flow with a tight cut -/
theorem ff_total_correct (N : Net) (hwf : netWfB N = true) (fuel : Nat) (hfuel : ffFuel N ≤ fuel) :
    ∃ f S, ff N fuel = .ok (f, S) ∧
      IsFlow N.verts.toFinset N.cap N.s N.t f ∧ N.s ∈ S ∧ N.t ∉ S ∧ (∀ v ∈ S, v ∈ N.verts) ∧
      flowValue N.verts.toFinset N.s f = cutCap N.verts.toFinset N.cap S.toFinset := by
  obtain ⟨⟨f, S⟩, h⟩ := ff_total_of_le N hwf fuel hfuel
  exact ⟨f, S, h, ff_correct N (wf_of_netWfB N hwf).2 fuel f S h⟩

/-- the hypothesis is satisfiable on concrete non-trivial instances -/
example : netWfB exNet = true := by decide
example : netWfB exNet2 = true := by decide

#print axioms ff_total
#print axioms ff_total_of_le
#print axioms ff_total_correct
