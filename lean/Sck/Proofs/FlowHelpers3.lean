import Sck.Proofs.McmNet
import Sck.Proofs.Dfs4
import Sck.Model.FlowHelpers

/-! C09 helpers, part 1: `convert_bipartite_graph_to_flow_network` (`FH.convert`) builds exactly the dict of
the unit network `bipNet` used by the model's `mcm`. -/

namespace FH

open Dfs

/-- the two sides are duplicate-free and disjoint and do not use the reserved names `-1`, `-2`
(the first three conjuncts of `bipWfB`) -/
structure SidesOK (X Y : List Int) : Prop where
  ndX : X.Nodup
  ndY : Y.Nodup
  disj : ∀ x ∈ X, x ∉ Y
  sX : (-1 : Int) ∉ X
  sY : (-1 : Int) ∉ Y
  tX : (-2 : Int) ∉ X
  tY : (-2 : Int) ∉ Y

theorem SidesOK.of_bipWF {X Y : List Int} {adj : Int → List Int} (w : BipWF X Y adj) : SidesOK X Y :=
  ⟨w.ndX, w.ndY, w.disj, w.sX, w.sY, w.tX, w.tY⟩

theorem sidesOK_iff (X Y : List Int) :
    SidesOK X Y ↔ (X ++ Y).Nodup ∧ (-1 : Int) ∉ X ++ Y ∧ (-2 : Int) ∉ X ++ Y := by
  simp only [List.nodup_append, List.mem_append, not_or]
  constructor
  · intro w
    exact ⟨⟨w.ndX, w.ndY, fun a ha b hb hab => w.disj a ha (hab ▸ hb)⟩, ⟨w.sX, w.sY⟩, ⟨w.tX, w.tY⟩⟩
  · rintro ⟨⟨h1, h2, h3⟩, ⟨h4, h5⟩, ⟨h6, h7⟩⟩
    exact ⟨h1, h2, fun x hx hy => h3 x hx x hy rfl, h4, h5, h6, h7⟩

/-! ### the dict built by the code -/

theorem gset_fresh (G : Graph) (k : Int) (l : List (Int × Int)) (h : k ∉ keys G) :
    gset G k l = G ++ [(k, l)] := by
  unfold gset
  rw [if_neg]
  intro hany
  obtain ⟨e, he, hek⟩ := List.any_eq_true.mp hany
  exact h (List.mem_map.mpr ⟨e, he, by simpa using hek⟩)

theorem keys_append (G H : Graph) : keys (G ++ H) = keys G ++ keys H := by
  simp [keys]

theorem foldl_gset_fresh (F : Int → List (Int × Int)) : ∀ (L : List Int) (acc : Graph), L.Nodup →
    (∀ v ∈ L, v ∉ keys acc) →
    L.foldl (fun net v => gset net v (F v)) acc = acc ++ L.map (fun v => (v, F v)) := by
  intro L
  induction L with
  | nil => intro acc _ _; simp
  | cons v L ih =>
    intro acc hnd hfresh
    rw [List.nodup_cons] at hnd
    rw [List.foldl_cons, gset_fresh acc v (F v) (hfresh v List.mem_cons_self)]
    rw [ih (acc ++ [(v, F v)]) hnd.2]
    · simp
    · intro w hw
      rw [keys_append]
      simp only [keys, List.map_cons, List.map_nil, List.mem_append, List.mem_singleton, not_or]
      refine ⟨hfresh w (List.mem_cons_of_mem _ hw), ?_⟩
      intro hwv; subst hwv; exact hnd.1 hw

/-- the dict `convert_bipartite_graph_to_flow_network` returns, in dict order -/
def convList (G : BGraph) (X Y : List Int) : Graph :=
  X.map (fun x => (x, (adjOf G x).map (fun y => (y, (1 : Int))))) ++
    [((-1 : Int), X.map (fun x => (x, (1 : Int)))), ((-2 : Int), [])] ++
    Y.map (fun y => (y, [((-2 : Int), (1 : Int))]))

theorem convert_eq_convList (G : BGraph) (X Y : List Int) (w : SidesOK X Y) :
    convert G X Y = convList G X Y := by
  unfold convert convList
  simp only
  have hk1 : keys (X.map (fun x => (x, (adjOf G x).map (fun y => (y, (1 : Int)))))) = X := by
    simp [keys, List.map_map, Function.comp_def]
  rw [foldl_gset_fresh _ X [] w.ndX (by simp [keys])]
  rw [List.nil_append]
  rw [gset_fresh _ (-1) _ (by rw [hk1]; exact w.sX)]
  rw [gset_fresh _ (-2) _ (by
    rw [keys_append, hk1]
    simp only [keys, List.map_cons, List.map_nil, List.mem_append, List.mem_singleton, not_or]
    exact ⟨w.tX, by decide⟩)]
  rw [foldl_gset_fresh _ Y _ w.ndY]
  · simp
  · intro v hv
    rw [keys_append, keys_append, hk1]
    simp only [keys, List.map_cons, List.map_nil, List.mem_append, List.mem_singleton, not_or]
    refine ⟨⟨fun hx => w.disj v hx hv, ?_⟩, ?_⟩
    · intro h; subst h; exact w.sY hv
    · intro h; subst h; exact w.tY hv

/-! ### the dict of the model's network -/

theorem filter_flat_none (adj : Int → List Int) (u : Int) (X : List Int) (h : u ∉ X) :
    (X.flatMap (fun x => (adj x).map (fun y => (x, y, (1 : Nat))))).filter (fun e => e.1 == u) = [] := by
  rw [List.filter_eq_nil_iff]
  intro e he
  obtain ⟨x, hx, hy⟩ := List.mem_flatMap.mp he
  obtain ⟨y, _, rfl⟩ := List.mem_map.mp hy
  simp only [beq_iff_eq]
  intro hxu; subst hxu; exact h hx

theorem filter_flat_mem (adj : Int → List Int) (u : Int) : ∀ (X : List Int), X.Nodup → u ∈ X →
    (X.flatMap (fun x => (adj x).map (fun y => (x, y, (1 : Nat))))).filter (fun e => e.1 == u) =
      (adj u).map (fun y => (u, y, (1 : Nat))) := by
  intro X
  induction X with
  | nil => intro _ h; simp at h
  | cons a X ih =>
    intro hnd hu
    rw [List.nodup_cons] at hnd
    rw [List.flatMap_cons, List.filter_append]
    by_cases hau : a = u
    · subst hau
      rw [filter_flat_none adj a X hnd.1, List.append_nil, List.filter_eq_self]
      intro e he
      obtain ⟨y, _, rfl⟩ := List.mem_map.mp he
      simp
    · have hu' : u ∈ X := by
        rcases List.mem_cons.mp hu with h | h
        · exact absurd h.symm hau
        · exact h
      rw [ih hnd.2 hu']
      have : ((adj a).map (fun y => (a, y, (1 : Nat)))).filter (fun e => e.1 == u) = [] := by
        rw [List.filter_eq_nil_iff]
        intro e he
        obtain ⟨y, _, rfl⟩ := List.mem_map.mp he
        simpa using hau
      rw [this, List.nil_append]

theorem filter_src (X : List Int) (u : Int) :
    (X.map (fun x => ((-1 : Int), x, (1 : Nat)))).filter (fun e => e.1 == u) =
      if u = -1 then X.map (fun x => ((-1 : Int), x, (1 : Nat))) else [] := by
  by_cases h : u = -1
  · rw [if_pos h, List.filter_eq_self]
    intro e he
    obtain ⟨x, _, rfl⟩ := List.mem_map.mp he
    simp [h]
  · rw [if_neg h, List.filter_eq_nil_iff]
    intro e he
    obtain ⟨x, _, rfl⟩ := List.mem_map.mp he
    simp only [beq_iff_eq]
    exact fun h' => h h'.symm

theorem filter_snk_none (Y : List Int) (u : Int) (h : u ∉ Y) :
    (Y.map (fun y => (y, (-2 : Int), (1 : Nat)))).filter (fun e => e.1 == u) = [] := by
  rw [List.filter_eq_nil_iff]
  intro e he
  obtain ⟨y, hy, rfl⟩ := List.mem_map.mp he
  simp only [beq_iff_eq]
  intro hyu; subst hyu; exact h hy

theorem filter_snk_mem (u : Int) : ∀ (Y : List Int), Y.Nodup → u ∈ Y →
    (Y.map (fun y => (y, (-2 : Int), (1 : Nat)))).filter (fun e => e.1 == u) = [(u, (-2 : Int), (1 : Nat))] := by
  intro Y
  induction Y with
  | nil => intro _ h; simp at h
  | cons a Y ih =>
    intro hnd hu
    rw [List.nodup_cons] at hnd
    rw [List.map_cons, List.filter_cons]
    by_cases hau : a = u
    · subst hau
      simp only [beq_self_eq_true, if_true]
      rw [filter_snk_none Y a hnd.1]
    · have hu' : u ∈ Y := by
        rcases List.mem_cons.mp hu with h | h
        · exact absurd h.symm hau
        · exact h
      have : ((a, (-2 : Int), (1 : Nat)).1 == u) = false := by simpa using hau
      rw [this]
      simp only [Bool.false_eq_true, if_false]
      exact ih hnd.2 hu'

/-- the adjacency list of `u` in the dict of `bipNet` -/
def bipRow (X Y : List Int) (adj : Int → List Int) (u : Int) : List (Int × Int) :=
  ((bipNet X Y adj).edges.filter (fun e => e.1 == u)).map (fun e => (e.2.1, (e.2.2 : Int)))

theorem bipRow_left (X Y : List Int) (adj : Int → List Int) (w : SidesOK X Y) (x : Int) (hx : x ∈ X) :
    bipRow X Y adj x = (adj x).map (fun y => (y, (1 : Int))) := by
  unfold bipRow bipNet
  simp only [List.filter_append]
  rw [filter_flat_mem adj x X w.ndX hx, filter_src, if_neg (fun h : x = -1 => w.sX (h ▸ hx)),
    filter_snk_none Y x (w.disj x hx)]
  simp [List.map_map, Function.comp_def]

theorem bipRow_src (X Y : List Int) (adj : Int → List Int) (w : SidesOK X Y) :
    bipRow X Y adj (-1) = X.map (fun x => (x, (1 : Int))) := by
  unfold bipRow bipNet
  simp only [List.filter_append]
  rw [filter_flat_none adj (-1) X w.sX, filter_src, if_pos rfl, filter_snk_none Y (-1) w.sY]
  simp [List.map_map, Function.comp_def]

theorem bipRow_snk (X Y : List Int) (adj : Int → List Int) (w : SidesOK X Y) :
    bipRow X Y adj (-2) = [] := by
  unfold bipRow bipNet
  simp only [List.filter_append]
  rw [filter_flat_none adj (-2) X w.tX, filter_src, if_neg (by decide), filter_snk_none Y (-2) w.tY]
  simp

theorem bipRow_right (X Y : List Int) (adj : Int → List Int) (w : SidesOK X Y) (y : Int) (hy : y ∈ Y) :
    bipRow X Y adj y = [((-2 : Int), (1 : Int))] := by
  unfold bipRow bipNet
  simp only [List.filter_append]
  rw [filter_flat_none adj y X (fun hx => w.disj y hx hy), filter_src, if_neg (fun h : y = -1 => w.sY (h ▸ hy)),
    filter_snk_mem y Y w.ndY hy]
  simp

theorem netToG_bipNet (G : BGraph) (X Y : List Int) (w : SidesOK X Y) :
    netToG (bipNet X Y (adjOf G)) = convList G X Y := by
  have h : netToG (bipNet X Y (adjOf G)) =
      (X ++ [-1, -2] ++ Y).map (fun u => (u, bipRow X Y (adjOf G) u)) := rfl
  rw [h]
  unfold convList
  simp only [List.map_append, List.map_cons, List.map_nil]
  rw [bipRow_src X Y _ w, bipRow_snk X Y _ w]
  congr 1
  · congr 1
    apply List.map_congr_left
    intro x hx
    rw [bipRow_left X Y _ w x hx]
  · apply List.map_congr_left
    intro y hy
    rw [bipRow_right X Y _ w y hy]

/-- **`convert_bipartite_graph_to_flow_network` builds exactly the model's network**: when the two sides are
duplicate-free, disjoint and avoid the reserved names `-1`, `-2`, the returned dict IS (same keys in the same
order, same adjacency lists in the same order, all capacities `1`) the dict `Dfs.netToG` of the unit network
`bipNet X Y (adjOf G)` on which the model's `mcm` runs `ff` — whatever `G` holds for the right vertices
(directed or undirected encoding), and a left vertex missing from `G` has no edges. -/
theorem convert_eq_netToG (G : BGraph) (X Y : List Int) (w : SidesOK X Y) :
    convert G X Y = netToG (bipNet X Y (adjOf G)) := by
  rw [convert_eq_convList G X Y w, netToG_bipNet G X Y w]

/-- edge-level reading: keys and entries of the returned dict -/
theorem convert_edges (G : BGraph) (X Y : List Int) (w : SidesOK X Y) :
    keys (convert G X Y) = X ++ [-1, -2] ++ Y ∧
    ∀ u v c, (v, c) ∈ adj (convert G X Y) u ↔ c = 1 ∧ BipEdge X Y (adjOf G) u v := by
  rw [convert_eq_netToG G X Y w]
  refine ⟨keys_netToG _, ?_⟩
  intro u v c
  rw [mem_adj_netToG]
  constructor
  · rintro ⟨_, k, hk, rfl⟩
    obtain ⟨h1, h2⟩ := (mem_bipNet_edges X Y (adjOf G) (u, v, k)).mp hk
    simp only at h1 h2
    exact ⟨by rw [h1]; rfl, h2⟩
  · rintro ⟨rfl, hE⟩
    refine ⟨?_, 1, (mem_bipNet_edges X Y (adjOf G) (u, v, 1)).mpr ⟨rfl, hE⟩, rfl⟩
    rw [mem_bipNet_verts]
    rcases hE with ⟨hx, _⟩ | ⟨rfl, _⟩ | ⟨hy, _⟩
    · exact Or.inl hx
    · exact Or.inr (Or.inl rfl)
    · exact Or.inr (Or.inr (Or.inr hy))

end FH
