import Sck.Proofs.GsWF
import Sck.Model.GsMirror

/-! L5: `GsMirror.argsortRow` (the mirror's `np.argsort`) against `plistOfRow` (the preference list of the
deferred-acceptance model), and decoding of a rank through `ranked_hprofile[h, rank - 1]` on compact rows. -/

namespace GsMirror

theorem insByKey_perm (row : List (Option Nat)) (a : Nat) (l : List Nat) : (insByKey row a l).Perm (a :: l) := by
  induction l with
  | nil => exact List.Perm.refl _
  | cons b bs ih =>
    simp only [insByKey]
    split
    · exact List.Perm.refl _
    · exact (List.Perm.cons b ih).trans (List.Perm.swap _ _ _)

theorem sortByKey_perm (row : List (Option Nat)) (l : List Nat) : (sortByKey row l).Perm l := by
  induction l with
  | nil => exact List.Perm.refl _
  | cons a l ih =>
    simp only [sortByKey, List.foldr_cons]
    exact (insByKey_perm row a _).trans (List.Perm.cons a ih)

theorem insByKey_sorted (row : List (Option Nat)) (a : Nat) (l : List Nat)
    (h : l.Pairwise (fun x y => keyOf row x ≤ keyOf row y)) :
    (insByKey row a l).Pairwise (fun x y => keyOf row x ≤ keyOf row y) := by
  induction l with
  | nil => simp [insByKey]
  | cons b bs ih =>
    simp only [insByKey]
    rw [List.pairwise_cons] at h
    split
    · rename_i hab
      rw [List.pairwise_cons]
      refine ⟨?_, List.pairwise_cons.mpr h⟩
      intro y hy
      rcases List.mem_cons.mp hy with rfl | hy
      · exact hab
      · exact Nat.le_trans hab (h.1 y hy)
    · rename_i hab
      rw [List.pairwise_cons]
      refine ⟨?_, ih h.2⟩
      intro y hy
      rcases List.mem_cons.mp ((insByKey_perm row a bs).subset hy) with rfl | hy
      · omega
      · exact h.1 y hy

theorem sortByKey_sorted (row : List (Option Nat)) (l : List Nat) :
    (sortByKey row l).Pairwise (fun x y => keyOf row x ≤ keyOf row y) := by
  induction l with
  | nil => simp [sortByKey]
  | cons a l ih =>
    simp only [sortByKey, List.foldr_cons]
    exact insByKey_sorted row a _ ih

/-- on a strict row the mirror's insertion sort and the model's merge sort agree -/
theorem sortByKey_eq_plistOfRow (row : List (Option Nat)) (hs : StrictRow row) :
    sortByKey row ((List.range row.length).filter (fun j => (row.getD j none).isSome)) = plistOfRow row := by
  have hperm : (sortByKey row ((List.range row.length).filter (fun j => (row.getD j none).isSome))).Perm
      (plistOfRow row) := by
    unfold plistOfRow
    exact (sortByKey_perm row _).trans (List.mergeSort_perm _ _).symm
  refine List.Perm.eq_of_pairwise (le := fun x y => keyOf row x ≤ keyOf row y) ?_
    (sortByKey_sorted row _) (plistOfRow_sorted row) hperm
  intro a b ha hb h1 h2
  exact hs a b (hperm.subset ha) hb (by omega)

theorem argsortRow_eq (row : List (Option Nat)) (hs : StrictRow row) :
    argsortRow row = plistOfRow row ++ (List.range row.length).filter (fun j => (row.getD j none).isNone) := by
  unfold argsortRow; rw [sortByKey_eq_plistOfRow row hs]

theorem plistOfRow_length (row : List (Option Nat)) :
    (plistOfRow row).length = ((List.range row.length).filter (fun j => (row.getD j none).isSome)).length := by
  unfold plistOfRow; rw [List.length_mergeSort]

theorem argsortRow_length (row : List (Option Nat)) (hs : StrictRow row) : (argsortRow row).length = row.length := by
  rw [argsortRow_eq row hs, List.length_append, plistOfRow_length]
  have h1 := List.length_eq_length_filter_add (l := List.range row.length) (fun j => (row.getD j none).isSome)
  simp only [List.length_range] at h1
  have h2 : (List.range row.length).filter (fun j => (row.getD j none).isNone) =
      (List.range row.length).filter (fun j => !(row.getD j none).isSome) := by
    apply List.filter_congr
    intro j _
    cases row.getD j none <;> rfl
  rw [h2]; omega

/-- below the number of acceptable entries, `argsort` is the preference list -/
theorem argsortRow_getD_lt (row : List (Option Nat)) (hs : StrictRow row) (k j : Nat)
    (h : (plistOfRow row)[k]? = some j) : (argsortRow row).getD k 0 = j := by
  rw [argsortRow_eq row hs, List.getD_eq_getElem?_getD,
    List.getElem?_append_left (List.getElem?_eq_some_iff.mp h).1, h]
  rfl

/-- from there on, `argsort` lists NaN positions -/
theorem argsortRow_getD_ge (row : List (Option Nat)) (hs : StrictRow row) (k : Nat)
    (h : (plistOfRow row).length ≤ k) (hk : k < row.length) :
    (row.getD ((argsortRow row).getD k 0) none).isNone = true := by
  have hlen := argsortRow_length row hs
  rw [argsortRow_eq row hs] at hlen ⊢
  rw [List.length_append] at hlen
  have hlt : k - (plistOfRow row).length <
      ((List.range row.length).filter (fun j => (row.getD j none).isNone)).length := by omega
  have hv : (plistOfRow row ++ (List.range row.length).filter (fun j => (row.getD j none).isNone)).getD k 0 =
      ((List.range row.length).filter (fun j => (row.getD j none).isNone))[k - (plistOfRow row).length] := by
    rw [List.getD_eq_getElem?_getD, List.getElem?_append_right h, List.getElem?_eq_getElem hlt]; rfl
  rw [hv]
  have := List.getElem_mem hlt
  simp only [List.mem_filter] at this
  exact this.2

/-! ### compact rows: `ranked[h, rank - 1]` decodes a rank -/

theorem pairwise_lt_lower (L : List Nat) (hp : L.Pairwise (· < ·)) (lo : Nat) (hlo : ∀ x ∈ L, lo ≤ x)
    (i : Nat) (hi : i < L.length) : lo + i ≤ L[i] := by
  induction L generalizing lo i with
  | nil => simp at hi
  | cons x t ih =>
    rw [List.pairwise_cons] at hp
    cases i with
    | zero => simpa using hlo x (by simp)
    | succ i =>
      simp only [List.getElem_cons_succ]
      have := ih hp.2 (lo + 1) (fun y hy => by
        have h1 := hp.1 y hy
        have h2 := hlo x (by simp)
        omega) i (by simpa using hi)
      omega

theorem pairwise_lt_upper (L : List Nat) (hp : L.Pairwise (· < ·)) (hi' : Nat) (hhi : ∀ x ∈ L, x < hi')
    (i : Nat) (hi : i < L.length) : L[i] + (L.length - i) ≤ hi' := by
  induction L generalizing i with
  | nil => simp at hi
  | cons x t ih =>
    rw [List.pairwise_cons] at hp
    have iht := ih hp.2 (fun y hy => hhi y (by simp [hy]))
    cases i with
    | zero =>
      simp only [List.getElem_cons_zero, List.length_cons, Nat.sub_zero]
      cases t with
      | nil => have := hhi x (by simp); simp; omega
      | cons y t' =>
        have h1 := hp.1 y (by simp)
        have h2 := iht 0 (by simp)
        simp only [List.getElem_cons_zero, List.length_cons, Nat.sub_zero] at h2 ⊢
        omega
    | succ i =>
      simp only [List.getElem_cons_succ, List.length_cons]
      have := iht i (by simpa using hi)
      omega

theorem filter_range_length (row : List (Option Nat)) (p : Option Nat → Bool) :
    ((List.range row.length).filter (fun j => p (row.getD j none))).length = (row.filter p).length := by
  have hrow : row = (List.range row.length).map (fun j => row.getD j none) := by
    apply List.ext_getElem
    · simp
    · intro i h1 h2
      simp [List.getD_eq_getElem?_getD, List.getElem?_eq_getElem h1]
  conv => rhs; rw [hrow, List.filter_map, List.length_map]
  rfl

/-- **decoding.** On a strict row whose acceptable ranks are exactly `1..k`, the position with rank `a`
is entry `a - 1` of the preference list (hence of `argsort`). -/
theorem plistOfRow_rank (row : List (Option Nat)) (hs : StrictRow row) (hc : compactRowB row = true)
    (j a : Nat) (hj : j < row.length) (ha : row.getD j none = some a) :
    1 ≤ a ∧ (plistOfRow row)[a - 1]? = some j := by
  have hjm : j ∈ plistOfRow row := (mem_plistOfRow row j).mpr ⟨hj, by rw [ha]; rfl⟩
  obtain ⟨t, ht⟩ := List.getElem?_of_mem hjm
  obtain ⟨htl, htj⟩ := List.getElem?_eq_some_iff.mp ht
  have hk : (plistOfRow row).length = (row.filter (·.isSome)).length := by
    rw [plistOfRow_length]; exact filter_range_length row (·.isSome)
  -- the ranks along the preference list are strictly increasing and lie in 1..k
  let L := (plistOfRow row).map (keyOf row)
  have hL : L.length = (plistOfRow row).length := by simp [L]
  have hpw : L.Pairwise (· < ·) := by
    rw [List.pairwise_map, List.pairwise_iff_getElem]
    intro i i' hi hi' hlt
    exact (plistOfRow_index_lt_iff row hs i i' _ _ (List.getElem?_eq_getElem hi) (List.getElem?_eq_getElem hi')).mp hlt
  have hrange : ∀ x ∈ L, 1 ≤ x ∧ x < (plistOfRow row).length + 1 := by
    intro x hx
    simp only [L, List.mem_map] at hx
    obtain ⟨p, hp, rfl⟩ := hx
    obtain ⟨hpl, hps⟩ := (mem_plistOfRow row p).mp hp
    obtain ⟨v, hv⟩ := Option.isSome_iff_exists.mp hps
    unfold compactRowB at hc
    simp only [List.all_eq_true] at hc
    have hmem : row.getD p none ∈ row := by
      rw [List.getD_eq_getElem?_getD, List.getElem?_eq_getElem hpl]; exact List.getElem_mem hpl
    have := hc _ hmem
    rw [hv] at this
    simp only [Bool.and_eq_true, decide_eq_true_eq] at this
    unfold keyOf; rw [hv]; simp only [Option.getD_some]
    omega
  have hlo := pairwise_lt_lower L hpw 1 (fun x hx => (hrange x hx).1) t (by omega)
  have hup := pairwise_lt_upper L hpw _ (fun x hx => (hrange x hx).2) t (by omega)
  have hLt : L[t]'(by omega) = a := by
    simp only [L, List.getElem_map, htj]
    unfold keyOf; rw [ha]; rfl
  rw [hLt] at hlo hup
  have : a - 1 = t := by omega
  exact ⟨by omega, by rw [this]; exact ht⟩

/-- Python's `ranked_hprofile[h, int(-e)]` for the heap entry `e = -(a - 1)` of a resident ranked `a` -/
theorem pyIdx_decode (row : List (Option Nat)) (hs : StrictRow row) (hc : compactRowB row = true)
    (j a : Nat) (hj : j < row.length) (ha : row.getD j none = some a) :
    pyIdx (argsortRow row) (- -((a : Int) - 1)) = some j := by
  obtain ⟨h1, h2⟩ := plistOfRow_rank row hs hc j a hj ha
  unfold pyIdx
  rw [Int.neg_neg, if_pos (by omega)]
  have : ((a : Int) - 1).toNat = a - 1 := by omega
  rw [this, argsortRow_eq row hs, List.getElem?_append_left (List.getElem?_eq_some_iff.mp h2).1]
  exact h2

end GsMirror
