import Sck.Proofs.Lattice6

/-! # C03, package L7, part 7: optimality of the mirror of `Irving.scf`, reduced to two statements about
`allRotations` and `posetGraph` (Stage 3)

`Remaining_i_at` : the mirror's list of all rotations, in discovery order, is a MAXIMAL chain of eliminations from the
  male-optimal matching (each rotation exposed when its turn comes, no rotation exposed at the end).
`Remaining_j_at` : every edge `x → y` of the mirror's sparse poset graph is a true precedence: on every elimination
  sequence from the male-optimal matching on which rotation `y` is eliminated, rotation `x` is eliminated too.
Nothing is assumed: both are `def … : Prop`, and `irving_optimal_of_remaining_at` is a kernel-checked implication. -/

namespace SMLattice

open Irving

variable {n : ℕ}

/-- a stable matching in which no rotation is exposed is woman-optimal (every man weakly prefers every stable matching) -/
theorem terminal_woman_optimal {P1 P2 : Fin n → Fin n → ℕ} (h1 : ∀ a, Function.Injective (P1 a))
    (h2 : ∀ b, Function.Injective (P2 b)) {μz : Equiv.Perm (Fin n)} (hz : StableSM P1 P2 μz)
    (hterm : ∀ ρ, ¬ ExposedRot P1 P2 μz ρ) {ν : Equiv.Perm (Fin n)} (hν : StableSM P1 P2 ν) : MLe P1 ν μz := by
  obtain ⟨κ, hκ, hκ1, _⟩ := stable_join h1 h2 hz hν
  have hle : MLe P1 μz κ := fun c => by rw [hκ1]; exact (worse_ge P1 μz ν c).1
  have heq : μz = κ := by
    by_contra hne
    obtain ⟨ρ, hex, _⟩ := exists_exposed_rotation_between h1 h2 hz hκ hle hne
    exact hterm ρ hex
  intro a
  rw [heq, hκ1]
  exact (worse_ge P1 μz ν a).2

theorem pathPairs_ne_nil {P1 P2 : Fin n → Fin n → ℕ} :
    ∀ (A : List (List (Fin n))) (μ ν : Equiv.Perm (Fin n)), ElimPath P1 P2 μ A ν →
      ∀ r ∈ pathPairs μ A, r ≠ [] := by
  intro A
  induction A with
  | nil => intro μ ν _ r hr; simp [pathPairs] at hr
  | cons ρ rest ih =>
    intro μ ν hp r hr
    simp only [pathPairs, List.mem_cons] at hr
    rcases hr with rfl | hr
    · intro h0
      exact hp.1.2.1 (List.map_eq_nil_iff.mp h0)
    · exact ih _ _ hp.2 r hr

theorem pairwise_not_inj {α : Type} {R : α → α → Prop} (hsymm : ∀ a b, R a b → R b a) {l : List α}
    (h : l.Pairwise (fun a b => ¬ R a b)) (i j : Nat) (hi : i < l.length) (hj : j < l.length)
    (hR : R l[i] l[j]) : i = j := by
  rw [List.pairwise_iff_getElem] at h
  rcases Nat.lt_trichotomy i j with hlt | heq | hgt
  · exact absurd hR (h i j hi hj hlt)
  · exact heq
  · exact absurd (hsymm _ _ hR) (h j i hj hi hgt)

end SMLattice

namespace IrvingAlgo

open Irving SMLattice

/-- **Remaining obligation (i)** at one instance: the mirror's level-wise discovery `allRotations` lists, in discovery
order, a maximal chain of eliminations from the male-optimal matching `M0`: every rotation is non-empty and exposed
(`exposedB`) when its turn comes, `eliminate_rotations(M0, all)` does not raise, and no rotation is exposed in the
matching it ends in.  (By `allRotations_exact_of_remaining_i`, `all` then consists of exactly the rotations that occur
on ANY elimination sequence from `M0`, each once.) -/
def Remaining_i_at (n : Nat) (P1 P2 : List (List Nat)) : Prop :=
  ∀ M0 all elim, maleOptimal n P1 P2 = some M0 →
    allRotations (shortlists n P1 P2 (muOf n M0)).1 (shortlists n P1 P2 (muOf n M0)).2 = some (all, elim) →
    exposedAllB P1 P2 M0 all = true ∧ (∀ r ∈ all, r ≠ []) ∧
    ∃ Mz, eliminateAll M0 all = some Mz ∧ ∀ rho, rho ≠ [] → ¬ Exposed P1 P2 Mz rho

/-- **Remaining obligation (j), soundness of Rules 1 and 2**, at one instance: every edge `x → y` of the mirror's sparse
poset graph is a true precedence — on every sequence `B` of non-empty rotations that can be eliminated from `M0` (each
exposed when its turn comes), if (a cyclic shift of) rotation number `y` occurs in `B` then so does rotation number `x`.
Hence the set of rotations of any such `B` is CLOSED in `posetGraph`. -/
def Remaining_j_at (n : Nat) (P1 P2 : List (List Nat)) : Prop :=
  ∀ M0 all elim, maleOptimal n P1 P2 = some M0 →
    allRotations (shortlists n P1 P2 (muOf n M0)).1 (shortlists n P1 P2 (muOf n M0)).2 = some (all, elim) →
    ∀ B, exposedAllB P1 P2 M0 B = true → (∀ r ∈ B, r ≠ []) →
      ∀ x y, y ∈ (posetGraph all (shortlists n P1 P2 (muOf n M0)).1 elim).getD x [] →
        (∃ r ∈ B, r ~r all.getD y []) → ∃ r ∈ B, r ~r all.getD x []

/-- **(j), completeness of the sparse representation** (Gusfield 1987), at one instance — NOT needed for optimality of
an `ok` answer, only for "the mirror never answers `check-exposed` / `not-exposed`": every duplicate-free set of rotation
numbers that is closed in the mirror's poset graph can be eliminated from `M0` in index order. -/
def Remaining_j_complete_at (n : Nat) (P1 P2 : List (List Nat)) : Prop :=
  ∀ M0 all elim, maleOptimal n P1 P2 = some M0 →
    allRotations (shortlists n P1 P2 (muOf n M0)).1 (shortlists n P1 P2 (muOf n M0)).2 = some (all, elim) →
    ∀ T : List Nat, T.Nodup → (∀ x ∈ T, x < all.length) →
      ClosedUnder (posetGraph all (shortlists n P1 P2 (muOf n M0)).1 elim) T →
      exposedAllB P1 P2 M0 ((sortNat T).map (fun i => all.getD i [])) = true

/-- the side conditions of the max-flow stage (`C03_closedSubset_max`): the flow network built from the poset graph is
well formed and the total negative weight is below `sys.maxsize` -/
def FlowSide (n : Nat) (P1 P2 : List (List Nat)) (V1 V2 : List (List Int)) : Prop :=
  ∀ M0 all elim, maleOptimal n P1 P2 = some M0 →
    allRotations (shortlists n P1 P2 (muOf n M0)).1 (shortlists n P1 P2 (muOf n M0)).2 = some (all, elim) →
    netWfB (closedNet (posetGraph all (shortlists n P1 P2 (muOf n M0)).1 elim)
      (all.map (rotationWeight V1 V2))) = true ∧
    ∑ i ∈ Finset.range (posetGraph all (shortlists n P1 P2 (muOf n M0)).1 elim).length,
      max (-((all.map (rotationWeight V1 V2)).getD i 0)) 0 < maxsize

theorem getD_map_weight (V1 V2 : List (List Int)) (all : List (List Pair)) (x : Nat) :
    (all.map (rotationWeight V1 V2)).getD x 0 = rotationWeight V1 V2 (all.getD x []) := by
  rw [List.getD_eq_getElem?_getD, List.getD_eq_getElem?_getD, List.getElem?_map]
  cases all[x]? with
  | none => rfl
  | some r => rfl

/-- what obligation (i) gives through (f): the spec-level picture of the mirror's rotations -/
theorem allRotations_exact_of_remaining_i {n : Nat} {P1 P2 : List (List Nat)} {V1 V2 : List (List Int)}
    (hwf : wfB n P1 P2 V1 V2 = true) (hi : Remaining_i_at n P1 P2) {M0 : List Pair} {all : List (List Pair)}
    {elim : List (Pair × Nat)} (hmo : maleOptimal n P1 P2 = some M0)
    (hall : allRotations (shortlists n P1 P2 (muOf n M0)).1 (shortlists n P1 P2 (muOf n M0)).2 = some (all, elim)) :
    all.Pairwise (fun r r' => ¬ r ~r r') ∧
    ∀ B, exposedAllB P1 P2 M0 B = true → (∀ r ∈ B, r ≠ []) →
      B.Pairwise (fun r r' => ¬ r ~r r') ∧ ∀ r ∈ B, ∃ r' ∈ all, r' ~r r := by
  obtain ⟨h1, h2⟩ := rk_injective hwf
  obtain ⟨μ0, hrep0, hst0, _⟩ := maleOptimal_spec hwf hmo
  obtain ⟨hAexp, hAne, Mz, hAz, hterm⟩ := hi M0 all elim hmo hall
  obtain ⟨rotsA, νz, Mz', hpA, hppA, helA, hrepz⟩ := path_unbridge h1 all M0 μ0 hrep0 hst0 hAne hAexp
  rw [hAz] at helA
  obtain rfl := Option.some.inj helA
  have hstz := (elimPath_stable h1 rotsA μ0 νz hst0 hpA).1
  have htermz : ∀ ρ, ¬ ExposedRot (rk n P1) (rk n P2) νz ρ := by
    intro ρ hex
    refine hterm (rotPairs νz ρ) (fun h0 => hex.2.1 (List.map_eq_nil_iff.mp h0)) (exposed_bridge hrepz hex)
  refine ⟨hppA ▸ pathPairs_pairwise h1 h2 rotsA μ0 νz hst0 hpA, ?_⟩
  intro B hBexp hBne
  obtain ⟨rotsB, ν, MB, hpB, hppB, _, _⟩ := path_unbridge h1 B M0 μ0 hrep0 hst0 hBne hBexp
  have hstν := (elimPath_stable h1 rotsB μ0 ν hst0 hpB).1
  refine ⟨hppB ▸ pathPairs_pairwise h1 h2 rotsB μ0 ν hst0 hpB, ?_⟩
  rw [← hppB, ← hppA]
  exact path_rotations_subset h1 h2 hst0 hpB hpA (terminal_woman_optimal h1 h2 hstz htermz hstν)

/-- **Stage 3, the reduction.**  At an instance where the two remaining obligations and the side conditions of the
max-flow stage hold, every `ok` answer of the checked mirror of `Irving.scf` has the brute-force optimal value. -/
theorem irving_optimal_of_remaining_at {n : Nat} {P1 P2 : List (List Nat)} {V1 V2 : List (List Int)}
    (hi : Remaining_i_at n P1 P2) (hj : Remaining_j_at n P1 P2) (hflow : FlowSide n P1 P2 V1 V2)
    {M : List Pair} (h : irving n P1 P2 V1 V2 = .ok M) :
    Brute.optStable n P1 P2 V1 V2 = some (matchingValue V1 V2 M) := by
  classical
  obtain ⟨_, _, _, M0, rots, hplan, hel, hvalM⟩ := irving_sound' n P1 P2 V1 V2 M h
  obtain ⟨hwf, hmo, _, _, _, all, elim, C, hall, hC, hrots⟩ := irvingPlan_ok n P1 P2 V1 V2 M0 rots hplan
  obtain ⟨v, hv, hle, _⟩ := Brute.irving_le_opt n P1 P2 V1 V2 M h
  suffices hge : v ≤ matchingValue V1 V2 M by
    rw [hv]; congr 1; omega
  obtain ⟨h1, h2⟩ := rk_injective hwf
  obtain ⟨⟨ν, hν, hval⟩, _⟩ := (Brute.optStable_eq_some_iff_perm n P1 P2 V1 V2 v).mp hv
  obtain ⟨μ0, hrep0, hst0, hopt0⟩ := maleOptimal_spec hwf hmo
  -- a path to an optimal stable matching
  obtain ⟨rotsB, hpB⟩ := reachable_from_man_optimal h1 h2 hst0 hopt0 hν
  obtain ⟨hBexp, _⟩ := path_bridge (P2 := P2) h1 rotsB μ0 ν M0 hrep0 hst0 hpB
  have hBne := pathPairs_ne_nil rotsB μ0 ν hpB
  have hBval : v = matchingValue V1 V2 M0 + ((pathPairs μ0 rotsB).map (rotationWeight V1 V2)).sum := by
    rw [← hval, matchingValue_rep V1 V2 hrep0]
    exact elimPath_value h1 V1 V2 hst0 hpB
  generalize pathPairs μ0 rotsB = B at hBexp hBne hBval
  obtain ⟨hApw, hBfacts⟩ := allRotations_exact_of_remaining_i hwf hi hmo hall
  obtain ⟨hBpw, hBsub⟩ := hBfacts B hBexp hBne
  obtain ⟨hnet, hbig⟩ := hflow M0 all elim hmo hall
  set G := posetGraph all (shortlists n P1 P2 (muOf n M0)).1 elim with hG
  have hGlen : G.length = all.length := posetGraph_length _ _ _
  obtain ⟨hCk, hmax⟩ := closedSubset_max G all V1 V2 C hnet hbig hC
  -- the set of rotation numbers of `B`
  let T : Finset Nat := (Finset.range all.length).filter (fun x => ∃ r ∈ B, r ~r all.getD x [])
  have hTk : ∀ x ∈ T, x < G.length := by
    intro x hx
    rw [hGlen]; exact Finset.mem_range.mp (Finset.mem_filter.mp hx).1
  have hTcl : ∀ rho, (∃ y ∈ G.getD rho [], y ∈ T) → rho ∈ T := by
    rintro rho ⟨y, hy, hyT⟩
    obtain ⟨r, hr, hrot⟩ := hj M0 all elim hmo hall B hBexp hBne rho y hy (Finset.mem_filter.mp hyT).2
    have hlt : rho < all.length := by
      by_contra hge
      rw [List.getD_eq_getElem?_getD, List.getElem?_eq_none (by omega)] at hrot
      exact hBne r hr (List.isRotated_nil_iff.mp hrot)
    exact Finset.mem_filter.mpr ⟨Finset.mem_range.mpr hlt, r, hr, hrot⟩
  have hTC := hmax T hTk hTcl
  -- `Σ_T = Σ_B`
  have hBnd : B.Nodup := by
    rw [List.nodup_iff_pairwise_ne]
    refine hBpw.imp ?_
    intro a b hne he
    exact hne (by rw [he])
  have hBinj : ∀ r ∈ B, ∀ r' ∈ B, r ~r r' → r = r' := by
    intro r hr r' hr' hrot
    obtain ⟨i, hi', rfl⟩ := List.getElem_of_mem hr
    obtain ⟨j, hj', rfl⟩ := List.getElem_of_mem hr'
    have := pairwise_not_inj (fun _ _ h => List.IsRotated.symm h) hBpw i j hi' hj' hrot
    subst this; rfl
  have hex : ∀ r ∈ B, ∃ x, x < all.length ∧ r ~r all.getD x [] := by
    intro r hr
    obtain ⟨r', hr', hrot⟩ := hBsub r hr
    obtain ⟨x, hx, rfl⟩ := List.getElem_of_mem hr'
    refine ⟨x, hx, ?_⟩
    rw [List.getD_eq_getElem?_getD, List.getElem?_eq_getElem hx]
    exact hrot.symm
  let φ : List Pair → Nat := fun r => if hr : ∃ x, x < all.length ∧ r ~r all.getD x [] then hr.choose else 0
  have hφ : ∀ r ∈ B, φ r < all.length ∧ r ~r all.getD (φ r) [] := by
    intro r hr
    have := hex r hr
    simp only [φ, dif_pos this]
    exact this.choose_spec
  have hAinj : ∀ x y, x < all.length → y < all.length → all.getD x [] ~r all.getD y [] → x = y := by
    intro x y hx hy hrot
    rw [List.getD_eq_getElem?_getD, List.getElem?_eq_getElem hx, List.getD_eq_getElem?_getD,
      List.getElem?_eq_getElem hy] at hrot
    exact pairwise_not_inj (fun _ _ h => List.IsRotated.symm h) hApw x y hx hy hrot
  have hTimg : T = B.toFinset.image φ := by
    ext x
    simp only [T, Finset.mem_filter, Finset.mem_range, Finset.mem_image, List.mem_toFinset]
    constructor
    · rintro ⟨hx, r, hr, hrot⟩
      refine ⟨r, hr, ?_⟩
      obtain ⟨hφ1, hφ2⟩ := hφ r hr
      exact hAinj _ _ hφ1 hx (hφ2.symm.trans hrot)
    · rintro ⟨r, hr, rfl⟩
      exact ⟨(hφ r hr).1, r, hr, (hφ r hr).2⟩
  have hφinj : Set.InjOn φ (B.toFinset : Set (List Pair)) := by
    intro r hr r' hr' he
    have hr := List.mem_toFinset.mp hr
    have hr' := List.mem_toFinset.mp hr'
    refine hBinj r hr r' hr' ((hφ r hr).2.trans ?_)
    rw [he]; exact (hφ r' hr').2.symm
  have hTsum : ∑ x ∈ T, (all.map (rotationWeight V1 V2)).getD x 0 = (B.map (rotationWeight V1 V2)).sum := by
    rw [hTimg, Finset.sum_image hφinj, ← List.sum_toFinset _ hBnd]
    refine Finset.sum_congr rfl (fun r hr => ?_)
    rw [getD_map_weight]
    exact (rotationWeight_isRotated V1 V2 (hφ r (List.mem_toFinset.mp hr)).2).symm
  -- `Σ_C = Σ rots`
  have hCnd := closedSubset_nodup G all V1 V2 C hC
  have hCsum : ∑ x ∈ C.toFinset, (all.map (rotationWeight V1 V2)).getD x 0
      = (rots.map (rotationWeight V1 V2)).sum := by
    rw [List.sum_toFinset _ hCnd, hrots, List.map_map]
    have := ((sortNat_perm C).map (fun x => (all.map (rotationWeight V1 V2)).getD x 0)).sum_eq
    rw [← this]
    congr 1
    apply List.map_congr_left
    intro x _
    simp only [Function.comp]
    exact getD_map_weight V1 V2 all x
  rw [hvalM, hBval, ← hTsum, ← hCsum]
  omega

end IrvingAlgo

#print axioms IrvingAlgo.irving_optimal_of_remaining_at
