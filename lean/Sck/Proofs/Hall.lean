import Sck.Model.Hall
import Sck.Proofs.CertProof

/-! Soundness of the Hall-violator certificate (C04, infeasible case). -/

theorem nodupB_iff (l : List Nat) : nodupB l = true ↔ l.Nodup := by
  induction l with
  | nil => simp [nodupB]
  | cons x xs ih => simp [nodupB, ih]

theorem hallNbrs_nodup (n : Nat) (w : List (List (Option Rat))) (S : List Nat) : (hallNbrs n w S).Nodup :=
  List.Nodup.filter _ List.nodup_range

theorem hallCertOk_sound (n : Nat) (w : List (List (Option Rat))) (S : List Nat)
    (hok : hallCertOk n w S = true) :
    ¬ ∃ τ : Equiv.Perm (Fin n), ∀ i : Fin n, (entry w i (τ i)).isSome := by
  rintro ⟨τ, hτ⟩
  simp only [hallCertOk, Bool.and_eq_true, decide_eq_true_eq, List.all_eq_true, nodupB_iff] at hok
  obtain ⟨⟨hnd, hlt⟩, hcard⟩ := hok
  let f : Nat → Nat := fun i => if h : i < n then (τ ⟨i, h⟩ : Nat) else 0
  have hinj : ∀ a ∈ S, ∀ b ∈ S, f a = f b → a = b := by
    intro a ha b hb hab
    have ha' := hlt a ha
    have hb' := hlt b hb
    simp only [f, dif_pos ha', dif_pos hb'] at hab
    have := τ.injective (Fin.ext hab)
    exact Fin.mk.inj_iff.mp this
  have hnd' : (S.map f).Nodup := (List.nodup_map_iff_inj_on hnd).mpr hinj
  have hsub : S.map f ⊆ hallNbrs n w S := by
    intro y hy
    obtain ⟨a, ha, rfl⟩ := List.mem_map.mp hy
    have ha' := hlt a ha
    simp only [hallNbrs, List.mem_filter, List.mem_range, List.any_eq_true]
    refine ⟨?_, a, ha, ?_⟩
    · simp only [f, dif_pos ha']; exact (τ ⟨a, ha'⟩).2
    · simp only [f, dif_pos ha']; exact hτ ⟨a, ha'⟩
  have := List.Nodup.length_le_of_subset hnd' hsub
  simp at this
  omega

#print axioms hallCertOk_sound

/-! ## Property-shaped restatement helpers for `assignCertOk` -/

theorem assignCertOk_perm (n : Nat) (w : List (List (Option Rat))) (sigma inv : List Nat)
    (u v : List Rat) (delta : Rat) (hok : assignCertOk n w sigma inv u v delta = true) :
    isPermWith n sigma inv = true := by
  simp only [assignCertOk, Bool.and_eq_true] at hok; exact hok.1.1.1

theorem assignCertOk_acceptable (n : Nat) (w : List (List (Option Rat))) (sigma inv : List Nat)
    (u v : List Rat) (delta : Rat) (hok : assignCertOk n w sigma inv u v delta = true)
    (hp : isPermWith n sigma inv = true) (i : Fin n) :
    (entry w i (permOfLists n sigma inv hp i)).isSome := by
  simp only [assignCertOk, Bool.and_eq_true] at hok
  have := (allLt_iff _ _).mp hok.2 i i.2
  show (entry w i (sigma.getD i n)).isSome = true
  split at this
  · simp at this
  · rename_i x hx; rw [hx]; rfl

theorem option_get_eq_getD {α : Type} (o : Option α) (h : o.isSome) (d : α) : o.get h = o.getD d := by
  cases o with
  | none => simp at h
  | some x => rfl
