import Sck.Proofs.Dfs1

/-! C08, mirror of the implementation's `dfs_path`: completeness of a `None` answer (B2). -/

namespace Dfs

/-- `w` can be reached from `u` along entries of positive residual capacity -/
inductive Reach (Gf : Graph) : Int → Int → Prop
  | refl (u : Int) : Reach Gf u u
  | step {u v c w : Int} : (v, c) ∈ adj Gf u → 0 < c → Reach Gf v w → Reach Gf u w

/-- the same, where every vertex after the first must be outside `vis` (initially un-marked) -/
inductive ReachAvoid (Gf : Graph) (vis : List Int) : Int → Int → Prop
  | refl (u : Int) : ReachAvoid Gf vis u u
  | step {u v c w : Int} : (v, c) ∈ adj Gf u → 0 < c → v ∉ vis → ReachAvoid Gf vis v w →
      ReachAvoid Gf vis u w

/-- every neighbour occurring in the graph is a key (`visited[v]` never raises `KeyError`) -/
def NbrsKeys (Gf : Graph) : Prop := ∀ u v c, (v, c) ∈ adj Gf u → v ∈ keys Gf

/-- number of un-marked keys: the bound on the remaining recursion depth -/
def cnt (U vis : List Int) : Nat := (U.filter (fun x => !decide (x ∈ vis))).length

theorem cnt_mono (U : List Int) {vis vis' : List Int} (h : ∀ x ∈ vis, x ∈ vis') : cnt U vis' ≤ cnt U vis := by
  induction U with
  | nil => simp [cnt]
  | cons a U ih =>
    simp only [cnt, List.filter_cons] at ih ⊢
    by_cases ha : a ∈ vis
    · have ha' : a ∈ vis' := h a ha
      simp [ha, ha']; exact ih
    · by_cases ha' : a ∈ vis'
      · simp [ha, ha']; omega
      · simp [ha, ha']; exact ih

theorem cnt_mark_lt (U : List Int) {vis : List Int} {v : Int} (hv : v ∈ U) (hvn : v ∉ vis) :
    cnt U (mark v vis) < cnt U vis := by
  induction U with
  | nil => simp at hv
  | cons a U ih =>
    have hmono : cnt U (mark v vis) ≤ cnt U vis := cnt_mono U (fun x hx => mem_mark.mpr (Or.inr hx))
    simp only [cnt, List.filter_cons] at ih hmono ⊢
    by_cases hav : a = v
    · subst hav
      have h1 : a ∈ mark a vis := mem_mark.mpr (Or.inl rfl)
      simp [hvn, h1]; omega
    · have hvU : v ∈ U := by
        rcases List.mem_cons.mp hv with h | h
        · exact absurd h.symm hav
        · exact h
      have := ih hvU
      by_cases ha : a ∈ vis
      · have h1 : a ∈ mark v vis := mem_mark.mpr (Or.inr ha)
        simp [ha, h1]; exact this
      · have h1 : a ∉ mark v vis := fun h => by
          rcases mem_mark.mp h with h | h
          · exact hav h
          · exact ha h
        simp [ha, h1]; exact this

theorem cnt_le_length (U vis : List Int) : cnt U vis ≤ U.length := List.length_filter_le _ _

/-- all positive entries of `u` lead into `W` -/
def ClosedAt (Gf : Graph) (u : Int) (W : List Int) : Prop := ∀ v c, (v, c) ∈ adj Gf u → 0 < c → v ∈ W

/-- what a `None` answer guarantees: nothing was un-marked, `current` is not the sink, and `current` as well
as every newly marked vertex is not the sink and has all its positive entries leading to marked vertices -/
structure NoneOk (Gf : Graph) (sink : Int) (current : Int) (vis vis' : List Int) : Prop where
  mono : ∀ x ∈ vis, x ∈ vis'
  ne : current ≠ sink
  cur : ClosedAt Gf current vis'
  new : ∀ u ∈ vis', u ∉ vis → u ≠ sink ∧ ClosedAt Gf u vis'

/-- once `best_path` is set it stays set -/
theorem dfsCands_some (rec : Int → List Int → Option (List Int × Int) × List Int) (current : Int) :
    ∀ (cands : List (Int × Int)) (p : List Int) (bc : Int) (vis : List Int),
      (dfsCands rec current cands (some p) bc vis).1 ≠ none := by
  intro cands
  induction cands with
  | nil => intro p bc vis; simp [dfsCands]
  | cons e rest ih =>
    intro p bc vis
    obtain ⟨v, c⟩ := e
    simp only [dfsCands]
    split
    · exact ih _ _ _
    · split
      · rcases hr : rec v (mark v vis) with ⟨_ | ⟨path, capacity⟩, vis1⟩
        · exact ih _ _ _
        · simp only
          split
          · exact ih _ _ _
          · exact ih _ _ _
      · exact ih _ _ _

theorem dfsCands_none (Gf : Graph) (sink : Int) (U : List Int) (fuel : Nat)
    (rec : Int → List Int → Option (List Int × Int) × List Int)
    (hpos : ∀ v w p c, (rec v w).1 = some (p, c) → 0 < c)
    (hnone : ∀ v w, cnt U w < fuel → (rec v w).1 = none → NoneOk Gf sink v w (rec v w).2)
    (hU : ∀ v c, (v, c) ∈ adj Gf current → v ∈ U) :
    ∀ (cands : List (Int × Int)) (vis : List Int), (∀ e ∈ cands, e ∈ adj Gf current) → cnt U vis ≤ fuel →
      (dfsCands rec current cands none 0 vis).1 = none →
      (∀ x ∈ vis, x ∈ (dfsCands rec current cands none 0 vis).2.2) ∧
      (∀ v c, (v, c) ∈ cands → 0 < c → v ∈ (dfsCands rec current cands none 0 vis).2.2) ∧
      (∀ u ∈ (dfsCands rec current cands none 0 vis).2.2, u ∉ vis →
        u ≠ sink ∧ ClosedAt Gf u (dfsCands rec current cands none 0 vis).2.2) := by
  intro cands
  induction cands with
  | nil =>
    intro vis _ _ _
    simp only [dfsCands]
    exact ⟨fun x hx => hx, fun v c h => by simp at h, fun u hu hn => absurd hu hn⟩
  | cons e rest ih =>
    intro vis hsub hfuel
    obtain ⟨v, c⟩ := e
    have hsub' : ∀ e ∈ rest, e ∈ adj Gf current := fun e he => hsub e (List.mem_cons_of_mem _ he)
    simp only [dfsCands]
    by_cases hv : vis.contains v = true
    · rw [if_pos hv]
      intro hres
      obtain ⟨h1, h2, h3⟩ := ih vis hsub' hfuel hres
      refine ⟨h1, ?_, h3⟩
      intro v' c' hm hc'
      rcases List.mem_cons.mp hm with h | h
      · simp only [Prod.mk.injEq] at h
        obtain ⟨rfl, rfl⟩ := h
        exact h1 _ (List.contains_iff_mem.mp hv)
      · exact h2 v' c' h hc'
    · rw [if_neg hv]
      have hvn : v ∉ vis := fun h => hv (List.contains_iff_mem.mpr h)
      by_cases hc : 0 < c
      · rw [if_pos hc]
        rcases hr : rec v (mark v vis) with ⟨_ | ⟨path, capacity⟩, vis1⟩
        · simp only
          intro hres
          have hvU : v ∈ U := hU v c (hsub (v, c) List.mem_cons_self)
          have hlt : cnt U (mark v vis) < fuel := Nat.lt_of_lt_of_le (cnt_mark_lt U hvU hvn) hfuel
          have hno := hnone v (mark v vis) hlt (by rw [hr])
          rw [hr] at hno
          simp only at hno
          have hmono : ∀ x ∈ vis, x ∈ vis1 := fun x hx => hno.mono x (mem_mark.mpr (Or.inr hx))
          have hfuel1 : cnt U vis1 ≤ fuel := Nat.le_trans (cnt_mono U hmono) hfuel
          obtain ⟨h1, h2, h3⟩ := ih vis1 hsub' hfuel1 hres
          have hcl : ∀ u, ClosedAt Gf u vis1 →
              ClosedAt Gf u (dfsCands rec current rest none 0 vis1).2.2 :=
            fun u hu v' c' hm hc' => h1 _ (hu v' c' hm hc')
          refine ⟨fun x hx => h1 x (hmono x hx), ?_, ?_⟩
          · intro v' c' hm hc'
            rcases List.mem_cons.mp hm with h | h
            · simp only [Prod.mk.injEq] at h
              obtain ⟨rfl, rfl⟩ := h
              exact h1 _ (hno.mono _ (mem_mark.mpr (Or.inl rfl)))
            · exact h2 v' c' h hc'
          · intro u hu hun
            by_cases hu1 : u ∈ vis1
            · by_cases hum : u ∈ mark v vis
              · rcases mem_mark.mp hum with rfl | h
                · exact ⟨hno.ne, hcl _ hno.cur⟩
                · exact absurd h hun
              · obtain ⟨ha, hb⟩ := hno.new u hu1 hum
                exact ⟨ha, hcl _ hb⟩
            · exact h3 u hu hu1
        · simp only
          have hcap : 0 < capacity := hpos v (mark v vis) path capacity (by rw [hr])
          have hlt : (0 : Int) < min capacity c := Int.lt_min.mpr ⟨hcap, hc⟩
          rw [if_pos hlt]
          intro hres
          exact absurd hres (dfsCands_some rec current rest _ _ _)
      · rw [if_neg hc]
        intro hres
        obtain ⟨h1, h2, h3⟩ := ih vis hsub' hfuel hres
        refine ⟨h1, ?_, h3⟩
        intro v' c' hm hc'
        rcases List.mem_cons.mp hm with h | h
        · simp only [Prod.mk.injEq] at h
          obtain ⟨rfl, rfl⟩ := h
          exact absurd hc' hc
        · exact h2 v' c' h hc'

theorem dfsPath_noneOk (Gf : Graph) (sink : Int) (hk : NbrsKeys Gf) :
    ∀ (fuel : Nat) (current : Int) (vis : List Int), cnt (keys Gf) vis < fuel →
      (dfsPath Gf sink fuel current vis).1 = none →
      NoneOk Gf sink current vis (dfsPath Gf sink fuel current vis).2 := by
  intro fuel
  induction fuel with
  | zero => intro current vis h; exact absurd h (Nat.not_lt_zero _)
  | succ fuel ih =>
    intro current vis hfuel
    simp only [dfsPath]
    by_cases hcs : (current == sink) = true
    · rw [if_pos hcs]; intro h; simp at h
    · rw [if_neg hcs]
      have hcs' : current ≠ sink := by simpa using hcs
      have hloop := dfsCands_none (current := current) Gf sink (keys Gf) fuel (dfsPath Gf sink fuel)
        (fun v w p c h => ((dfsPath_callOk Gf sink fuel v w).path p c h).1.pos)
        ih (fun v c h => hk current v c h) (adj Gf current) vis (fun e he => he) (Nat.le_of_lt_succ hfuel)
      rcases hr : dfsCands (dfsPath Gf sink fuel) current (adj Gf current) none 0 vis with ⟨_ | p, bc, vis'⟩
      · rw [hr] at hloop
        simp only
        intro _
        obtain ⟨h1, h2, h3⟩ := hloop rfl
        exact ⟨h1, hcs', fun v c hm hc => h2 v c hm hc, h3⟩
      · simp only
        intro h; simp at h

/-- a walk from `current` through initially un-marked vertices stays among `current` and the newly marked -/
theorem NoneOk.no_reach {Gf : Graph} {sink current : Int} {vis vis' : List Int}
    (h : NoneOk Gf sink current vis vis') : ¬ ReachAvoid Gf vis current sink := by
  have key : ∀ u w, ReachAvoid Gf vis u w → (u = current ∨ (u ∈ vis' ∧ u ∉ vis)) →
      (w = current ∨ (w ∈ vis' ∧ w ∉ vis)) := by
    intro u w hr
    induction hr with
    | refl u => exact fun h => h
    | step hm hc hv _ ih =>
      intro hu
      apply ih
      right
      rcases hu with rfl | ⟨hu1, hu2⟩
      · exact ⟨h.cur _ _ hm hc, hv⟩
      · exact ⟨(h.new _ hu1 hu2).2 _ _ hm hc, hv⟩
  intro hr
  rcases key _ _ hr (Or.inl rfl) with h1 | ⟨h1, h2⟩
  · exact h.ne h1.symm
  · exact (h.new _ h1 h2).1 rfl

/-- **B2.**  A `None` answer of `dfsPath` (with depth fuel exceeding the number of un-marked keys, in a graph
all of whose neighbours are keys) un-marks nothing, and the sink cannot be reached from `current` along
entries of positive residual capacity through initially un-marked vertices. -/
theorem dfsPath_complete (Gf : Graph) (sink : Int) (hk : NbrsKeys Gf) (fuel : Nat) (current : Int)
    (vis : List Int) (hfuel : cnt (keys Gf) vis < fuel)
    (h : (dfsPath Gf sink fuel current vis).1 = none) :
    (∀ x ∈ vis, x ∈ (dfsPath Gf sink fuel current vis).2) ∧ ¬ ReachAvoid Gf vis current sink := by
  have := dfsPath_noneOk Gf sink hk fuel current vis hfuel h
  exact ⟨this.mono, this.no_reach⟩

/-- a walk from `s` contains a walk from `s` that never returns to `s` -/
theorem Reach.avoid_source {Gf : Graph} {s t : Int} (h : Reach Gf s t) : ReachAvoid Gf [s] s t := by
  have key : ∀ u w, Reach Gf u w → w = t → ReachAvoid Gf [s] u t ∨ ReachAvoid Gf [s] s t := by
    intro u w hr
    induction hr with
    | refl u => intro h; subst h; exact Or.inl (ReachAvoid.refl _)
    | @step u v c w hm hc _ ih =>
      intro hw
      rcases ih hw with h1 | h1
      · by_cases hvs : v = s
        · subst hvs; exact Or.inr h1
        · exact Or.inl (ReachAvoid.step hm hc (by simpa using hvs) h1)
      · exact Or.inr h1
  rcases key s t h rfl with h | h <;> exact h

/-- **B2, top level** (only the source marked, the fuel `ffDfs` uses): `None` means that the sink is
unreachable from the source in the residual graph. -/
theorem dfsPath_complete_top (Gf : Graph) (s t : Int) (hk : NbrsKeys Gf)
    (h : (dfsPath Gf t (Gf.length + 1) s [s]).1 = none) : ¬ Reach Gf s t := by
  have hfuel : cnt (keys Gf) [s] < Gf.length + 1 := by
    have := cnt_le_length (keys Gf) [s]
    simp only [keys, List.length_map] at this
    exact Nat.lt_succ_of_le this
  exact fun hr => (dfsPath_complete Gf t hk _ s [s] hfuel h).2 hr.avoid_source

end Dfs
