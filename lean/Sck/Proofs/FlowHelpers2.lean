import Sck.Proofs.Dfs5
import Sck.Model.FlowHelpers

/-! C08 helpers, part 2: `flow_across_network` (`FH.flowAcross`) and `capacity_across_cut` (`FH.capAcross`). -/

open Finset

namespace FH

open Dfs

/-! ### `flow_across_network` -/

theorem flowAcrossLoop_eq (s : Int) : ∀ (fl : FlowDict) (acc : Int),
    flowAcrossLoop s fl acc =
      if fl.any (fun e => e.1.2 == s) then .error "ValueError" else .ok (acc + outSum fl s) := by
  intro fl
  induction fl with
  | nil => intro acc; simp [flowAcrossLoop, outSum]
  | cons e rest ih =>
    intro acc
    simp only [flowAcrossLoop, List.any_cons]
    by_cases h2 : e.1.2 = s
    · simp [h2]
    · have h2' : (e.1.2 == s) = false := by simpa using h2
      simp only [h2', Bool.false_eq_true, if_false, Bool.false_or]
      rw [ih]
      by_cases hany : rest.any (fun e => e.1.2 == s) = true
      · rw [if_pos hany, if_pos hany]
      · rw [if_neg hany, if_neg hany]
        congr 1
        by_cases h1 : e.1.1 = s
        · simp [outSum, h1]; omega
        · have h1' : (e.1.1 == s) = false := by simpa using h1
          simp [outSum, h1']

/-- closed form of `flow_across_network`: `ValueError` iff some KEY of the dict ends in `s` (whatever its
value), otherwise the sum of the entries whose key starts at `s` -/
theorem flowAcross_eq (fl : FlowDict) (s : Int) :
    flowAcross fl s = if fl.any (fun e => e.1.2 == s) then .error "ValueError" else .ok (outSum fl s) := by
  unfold flowAcross
  rw [flowAcrossLoop_eq]
  simp

theorem flowAcross_err_iff (fl : FlowDict) (s : Int) :
    flowAcross fl s = .error "ValueError" ↔ ∃ e ∈ fl, e.1.2 = s := by
  rw [flowAcross_eq]
  by_cases h : fl.any (fun e => e.1.2 == s) = true
  · rw [if_pos h]
    simp only [List.any_eq_true, beq_iff_eq] at h
    simp [h]
  · rw [if_neg h]
    simp only [List.any_eq_true, beq_iff_eq] at h
    simp [h]

theorem flowAcross_ok (fl : FlowDict) (s : Int) (h : ∀ e ∈ fl, e.1.2 ≠ s) :
    flowAcross fl s = .ok (outSum fl s) := by
  rw [flowAcross_eq, if_neg]
  simp only [List.any_eq_true, beq_iff_eq, not_exists, not_and]
  exact h

theorem entryVal_toTriples (fl : FlowDict) (u v : Int) : entryVal (toTriples fl) u v = dget? fl (u, v) := by
  unfold entryVal dget? toTriples
  induction fl with
  | nil => rfl
  | cons e rest ih =>
    simp only [List.map_cons, List.find?_cons]
    by_cases h : e.1 = (u, v)
    · have h1 : (e.1.1 == u && e.1.2 == v) = true := by simp [h]
      have h2 : (e.1 == (u, v)) = true := by simp [h]
      simp only [h1, h2]
    · have h1 : (e.1.1 == u && e.1.2 == v) = false := by
        rw [Bool.and_eq_false_iff]
        by_contra hcon
        simp only [not_or, Bool.not_eq_false, beq_iff_eq] at hcon
        exact h (Prod.ext hcon.1 hcon.2)
      have h2 : (e.1 == (u, v)) = false := by simpa using h
      simp only [h1, h2]
      exact ih

theorem dget?_eq_none {fl : FlowDict} {k : Int × Int} (h : k ∉ fl.map (·.1)) : dget? fl k = none := by
  cases hg : dget? fl k with
  | none => rfl
  | some x => exact absurd (List.mem_map.mpr ⟨(k, x), dget?_some hg, rfl⟩) h

/-- the sum over all heads `v` of the entry stored under `(s, v)` is the sum of the entries starting at `s` -/
theorem sum_dget_eq_outSum (V : Finset Int) (s : Int) : ∀ (fl : FlowDict), (fl.map (·.1)).Nodup →
    (∀ e ∈ fl, e.1.1 = s → e.1.2 ∈ V) → ∑ v ∈ V, (dget? fl (s, v)).getD 0 = outSum fl s := by
  intro fl
  induction fl with
  | nil => intro _ _; simp [dget?, outSum]
  | cons e rest ih =>
    intro hnd hV
    simp only [List.map_cons, List.nodup_cons] at hnd
    have ih' := ih hnd.2 (fun e' he' => hV e' (List.mem_cons_of_mem _ he'))
    have hget : ∀ v, dget? (e :: rest) (s, v) = if e.1 = (s, v) then some e.2 else dget? rest (s, v) := by
      intro v
      unfold dget?
      rw [List.find?_cons]
      by_cases h : e.1 = (s, v)
      · simp [h]
      · have : (e.1 == (s, v)) = false := by simpa using h
        rw [this, if_neg h]
    by_cases h1 : e.1.1 = s
    · have hv0 : e.1.2 ∈ V := hV e List.mem_cons_self h1
      have hk : e.1 = (s, e.1.2) := Prod.ext h1 rfl
      have hnone : dget? rest (s, e.1.2) = none := dget?_eq_none (by rw [← hk]; exact hnd.1)
      have hout : outSum (e :: rest) s = e.2 + outSum rest s := by
        simp [outSum, h1]
      rw [hout, ← ih', ← Finset.add_sum_erase V _ hv0, ← Finset.add_sum_erase V _ hv0]
      rw [hget, if_pos hk, hnone]
      simp only [Option.getD_some, Option.getD_none, zero_add]
      congr 1
      apply Finset.sum_congr rfl
      intro v hv
      have hne : v ≠ e.1.2 := Finset.ne_of_mem_erase hv
      rw [hget, if_neg]
      intro h
      apply hne
      rw [h]
    · have hout : outSum (e :: rest) s = outSum rest s := by
        have h1' : (e.1.1 == s) = false := by simpa using h1
        simp [outSum, h1']
      rw [hout, ← ih']
      apply Finset.sum_congr rfl
      intro v _
      rw [hget, if_neg]
      intro h
      apply h1
      rw [h]

/-- **`flow_across_network` computes the value of the flow the dict denotes**: for a dict (distinct keys) none
of whose keys ends in `s` and whose keys starting at `s` end in vertices, the answer is the model's `flowValue`
(the net flow out of `s`) of the net flow function `flowOf` denoted by the dict. -/
theorem flowAcross_eq_value (V : List Int) (fl : FlowDict) (s : Int) (hnd : (fl.map (·.1)).Nodup)
    (hV : ∀ e ∈ fl, e.1.1 = s → e.1.2 ∈ V) (hno : ∀ e ∈ fl, e.1.2 ≠ s) :
    flowAcross fl s = .ok (flowValue V.toFinset s (flowOf (toTriples fl))) := by
  rw [flowAcross_ok fl s hno]
  congr 1
  rw [← sum_dget_eq_outSum V.toFinset s fl hnd (fun e he h => List.mem_toFinset.mpr (hV e he h))]
  unfold flowValue
  apply Finset.sum_congr rfl
  intro v _
  unfold flowOf
  rw [entryVal_toTriples, entryVal_toTriples]
  have hnone : dget? fl (v, s) = none := by
    apply dget?_eq_none
    intro hm
    obtain ⟨e, he, hek⟩ := List.mem_map.mp hm
    exact hno e he (by rw [hek])
  rw [hnone]
  cases dget? fl (s, v) <;> simp

/-! ### `capacity_across_cut` -/

/-- what the edge `(i, j, c)` contributes: `+c` if it leaves the set, `-c` if it enters it -/
def contrib (cut : List Int) (e : Int × Int × Int) : Int :=
  (if cut.contains e.1 && !cut.contains e.2.1 then e.2.2 else 0) -
  (if cut.contains e.2.1 && !cut.contains e.1 then e.2.2 else 0)

theorem capStep_eq (cut : List Int) (i acc : Int) (a : Int × Int) :
    capStep cut i acc a = acc + contrib cut (i, a.1, a.2) := by
  unfold capStep contrib
  simp only
  split <;> split <;> omega

theorem inner_fold (cut : List Int) (i : Int) : ∀ (l : List (Int × Int)) (acc : Int),
    l.foldl (capStep cut i) acc = acc + (l.map (fun a => contrib cut (i, a.1, a.2))).sum := by
  intro l
  induction l with
  | nil => intro acc; simp
  | cons a l ih =>
    intro acc
    rw [List.foldl_cons, ih, capStep_eq]
    simp only [List.map_cons, List.sum_cons]
    omega

theorem outer_fold (cut : List Int) : ∀ (G : Graph) (acc : Int),
    G.foldl (fun acc e => e.2.foldl (capStep cut e.1) acc) acc =
      acc + ((edgeTriples G).map (contrib cut)).sum := by
  intro G
  induction G with
  | nil => intro acc; simp [edgeTriples]
  | cons e G ih =>
    intro acc
    rw [List.foldl_cons, ih, inner_fold]
    simp only [edgeTriples, List.flatMap_cons, List.map_append, List.sum_append, List.map_map,
      Function.comp_def]
    omega

theorem sum_filter_map {α : Type} (l : List α) (p : α → Bool) (g : α → Int) :
    ((l.filter p).map g).sum = (l.map (fun e => if p e then g e else 0)).sum := by
  induction l with
  | nil => rfl
  | cons a l ih =>
    by_cases h : p a = true
    · simp [h, ih]
    · simp [h, ih]

theorem sum_map_sub {α : Type} (l : List α) (a b : α → Int) :
    (l.map (fun e => a e - b e)).sum = (l.map a).sum - (l.map b).sum := by
  induction l with
  | nil => rfl
  | cons x l ih => simp only [List.map_cons, List.sum_cons, ih]; omega

/-- **the quirk, at the level of the dict**: `capacity_across_cut` = (capacity of the edges leaving the set)
MINUS (capacity of the edges entering the set); any dict, any set, capacities of any sign -/
theorem capAcross_eq (G : Graph) (cut : List Int) : capAcross G cut = outCap G cut - inCap G cut := by
  unfold capAcross
  rw [outer_fold, Int.zero_add]
  unfold outCap inCap
  rw [sum_filter_map, sum_filter_map, ← sum_map_sub]
  rfl

/-! ### … on the dict of a network: `cutCap` -/

theorem sum_map_flatMap {α β : Type} (l : List α) (F : α → List β) (g : β → Int) :
    ((l.flatMap F).map g).sum = (l.map (fun a => ((F a).map g).sum)).sum := by
  induction l with
  | nil => rfl
  | cons a l ih => simp [List.flatMap_cons, List.map_append, List.sum_append, ih]

theorem edgeTriples_netToG (N : Net) :
    edgeTriples (netToG N) = N.verts.flatMap (fun u =>
      (N.edges.filter (fun e => e.1 == u)).map (fun e => (u, e.2.1, (e.2.2 : Int)))) := by
  unfold edgeTriples netToG
  rw [List.flatMap_map]
  simp only [List.map_map, Function.comp_def]

theorem cap_eq_zero_of_no_edge {N : Net} {u v : Int} (h : ∀ c, (u, v, c) ∉ N.edges) : N.cap u v = 0 := by
  by_contra hne
  have hpos : 0 < N.cap u v := by have := cap_nonneg N u v; omega
  obtain ⟨c, hc⟩ := cap_pos_edge hpos
  exact h c hc

/-- sum over the edges leaving `u`, expressed through `cap` -/
theorem row_sum (N : Net) (hwf : N.WF') (u : Int) (g : Int → Int → Int) (hg : ∀ v, g v 0 = 0) :
    ((N.edges.filter (fun e => e.1 == u)).map (fun e => g e.2.1 (e.2.2 : Int))).sum =
      ∑ v ∈ N.verts.toFinset, g v (N.cap u v) := by
  have hEnd : N.edges.Nodup := List.Nodup.of_map _ hwf.edge_nodup
  have hL : (N.edges.filter (fun e => e.1 == u)).Nodup := hEnd.filter _
  have hmemL : ∀ e, e ∈ (N.edges.filter (fun e => e.1 == u)).toFinset ↔ e ∈ N.edges ∧ e.1 = u := by
    intro e; simp
  rw [← List.sum_toFinset _ hL]
  have h1 : ∑ e ∈ (N.edges.filter (fun e => e.1 == u)).toFinset, g e.2.1 (e.2.2 : Int) =
      ∑ e ∈ (N.edges.filter (fun e => e.1 == u)).toFinset, (fun v => g v (N.cap u v)) e.2.1 := by
    apply Finset.sum_congr rfl
    intro e he
    obtain ⟨he1, he2⟩ := (hmemL e).mp he
    have : N.cap u e.2.1 = (e.2.2 : Int) := by
      apply cap_of_edge hwf
      rw [← he2]; exact he1
    simp only [this]
  have hinj : Set.InjOn (fun e : Int × Int × Nat => e.2.1)
      ((N.edges.filter (fun e => e.1 == u)).toFinset : Set (Int × Int × Nat)) := by
    intro e1 h1 e2 h2 heq
    obtain ⟨a1, b1⟩ := (hmemL e1).mp (Finset.mem_coe.mp h1)
    obtain ⟨a2, b2⟩ := (hmemL e2).mp (Finset.mem_coe.mp h2)
    apply List.inj_on_of_nodup_map hwf.edge_nodup a1 a2
    simp only [Prod.mk.injEq]
    exact ⟨b1.trans b2.symm, heq⟩
  have h2 := Finset.sum_image (s := (N.edges.filter (fun e => e.1 == u)).toFinset)
    (g := fun e : Int × Int × Nat => e.2.1) (f := fun v => g v (N.cap u v)) hinj
  refine h1.trans (h2.symm.trans ?_)
  apply Finset.sum_subset
  · intro v hv
    obtain ⟨e, he, rfl⟩ := Finset.mem_image.mp hv
    exact List.mem_toFinset.mpr (hwf.edge_mem e ((hmemL e).mp he).1).2
  · intro v _ hv
    have : N.cap u v = 0 := by
      apply cap_eq_zero_of_no_edge
      intro c hc
      apply hv
      exact Finset.mem_image.mpr ⟨(u, v, c), (hmemL _).mpr ⟨hc, rfl⟩, rfl⟩
    simp only [this, hg]

/-- sum over all edges of the dict of a well-formed network, expressed through `cap` -/
theorem triples_sum (N : Net) (hwf : N.WF') (g : Int → Int → Int → Int) (hg : ∀ u v, g u v 0 = 0) :
    ((edgeTriples (netToG N)).map (fun e => g e.1 e.2.1 e.2.2)).sum =
      ∑ u ∈ N.verts.toFinset, ∑ v ∈ N.verts.toFinset, g u v (N.cap u v) := by
  rw [edgeTriples_netToG, sum_map_flatMap, ← List.sum_toFinset _ hwf.nodup]
  apply Finset.sum_congr rfl
  intro u _
  rw [List.map_map]
  exact row_sum N hwf u (g u) (hg u)

theorem cap_eq_zero_of_not_vert {N : Net} (hwf : N.WF') {u v : Int} (hu : u ∉ N.verts) : N.cap u v = 0 :=
  cap_eq_zero_of_no_edge (fun _ hc => hu (hwf.edge_mem _ hc).1)

theorem outCap_netToG (N : Net) (hwf : N.WF') (S : List Int) :
    outCap (netToG N) S = cutCap N.verts.toFinset N.cap S.toFinset := by
  unfold outCap
  rw [sum_filter_map]
  rw [triples_sum N hwf (fun u v c => if S.contains u && !S.contains v then c else 0) (by simp)]
  unfold cutCap
  have hsub : N.verts.toFinset.filter (fun u => u ∈ S) ⊆ S.toFinset := by
    intro u hu
    exact List.mem_toFinset.mpr (Finset.mem_filter.mp hu).2
  rw [← Finset.sum_subset hsub]
  · rw [Finset.sum_filter]
    apply Finset.sum_congr rfl
    intro u _
    by_cases hu : u ∈ S
    · rw [if_pos hu, Finset.sdiff_eq_filter, Finset.sum_filter]
      apply Finset.sum_congr rfl
      intro v _
      simp [hu]
    · rw [if_neg hu]
      apply Finset.sum_eq_zero
      intro v _
      simp [hu]
  · intro u hu hnot
    have huV : u ∉ N.verts := by
      intro hV
      apply hnot
      exact Finset.mem_filter.mpr ⟨List.mem_toFinset.mpr hV, List.mem_toFinset.mp hu⟩
    apply Finset.sum_eq_zero
    intro v _
    exact cap_eq_zero_of_not_vert hwf huV

theorem inCap_netToG (N : Net) (hwf : N.WF') (S : List Int) :
    inCap (netToG N) S = cutCap N.verts.toFinset N.cap (N.verts.toFinset \ S.toFinset) := by
  unfold inCap
  rw [sum_filter_map]
  rw [triples_sum N hwf (fun u v c => if S.contains v && !S.contains u then c else 0) (by simp)]
  unfold cutCap
  rw [Finset.sdiff_eq_filter, Finset.sum_filter]
  apply Finset.sum_congr rfl
  intro u _
  by_cases hu : u ∈ S
  · have : ¬ u ∉ S.toFinset := by simpa using hu
    rw [if_neg this]
    apply Finset.sum_eq_zero
    intro v _
    simp [hu]
  · have : u ∉ S.toFinset := by simpa using hu
    rw [if_pos this, Finset.sdiff_eq_filter, Finset.sum_filter]
    apply Finset.sum_congr rfl
    intro v hv
    have hv' : v ∈ N.verts := List.mem_toFinset.mp hv
    by_cases hvS : v ∈ S
    · simp [hu, hvS, hv']
    · simp [hvS, hv']

/-- **`capacity_across_cut` on the dict of a well-formed network** = capacity of the cut `S` MINUS the capacity
of the cut whose source side is the complement of `S` (= the total capacity of the edges ENTERING `S`) -/
theorem capAcross_netToG (N : Net) (hwf : N.WF') (S : List Int) :
    capAcross (netToG N) S = cutCap N.verts.toFinset N.cap S.toFinset -
      cutCap N.verts.toFinset N.cap (N.verts.toFinset \ S.toFinset) := by
  rw [capAcross_eq, outCap_netToG N hwf, inCap_netToG N hwf]

/-- corollary: when no edge of positive capacity enters `S`, it IS the capacity of the cut -/
theorem capAcross_eq_cutCap (N : Net) (hwf : N.WF') (S : List Int)
    (hno : ∀ e ∈ N.edges, e.2.1 ∈ S → e.1 ∈ S ∨ e.2.2 = 0) :
    capAcross (netToG N) S = cutCap N.verts.toFinset N.cap S.toFinset := by
  rw [capAcross_netToG N hwf]
  have : cutCap N.verts.toFinset N.cap (N.verts.toFinset \ S.toFinset) = 0 := by
    unfold cutCap
    apply Finset.sum_eq_zero
    intro u hu
    apply Finset.sum_eq_zero
    intro v hv
    have huS : u ∉ S := by
      have := (Finset.mem_sdiff.mp hu).2
      simpa using this
    have hvS : v ∈ S := by
      have h1 := Finset.mem_sdiff.mp hv
      have h2 : ¬ (v ∈ N.verts.toFinset ∧ v ∉ S.toFinset) := fun h => h1.2 (Finset.mem_sdiff.mpr h)
      by_contra hc
      exact h2 ⟨h1.1, by simpa using hc⟩
    by_contra hne
    have hpos : 0 < N.cap u v := by have := cap_nonneg N u v; omega
    obtain ⟨c, hc⟩ := cap_pos_edge hpos
    rcases hno _ hc hvS with h | h
    · exact huS h
    · have := cap_of_edge hwf hc
      simp only at h
      rw [h] at this
      omega
  rw [this, sub_zero]

end FH
