import Sck.Model.Cert
import Mathlib.Algebra.BigOperators.Group.Finset.Basic
import Mathlib.Algebra.Order.BigOperators.Group.Finset
import Mathlib.Algebra.BigOperators.Ring.Finset
import Mathlib.Data.Fintype.BigOperators
import Mathlib.Algebra.Order.Ring.Rat
import Mathlib.Tactic.Linarith

open Finset

theorem allLt_iff (n : Nat) (p : Nat → Bool) : allLt n p = true ↔ ∀ i, i < n → p i = true := by
  simp [allLt, List.all_eq_true]

/-- the permutation of `Fin n` denoted by a checked list -/
def permOfLists (n : Nat) (sigma inv : List Nat) (h : isPermWith n sigma inv = true) : Equiv.Perm (Fin n) where
  toFun i := ⟨sigma.getD i n, by
    simp only [isPermWith, Bool.and_eq_true, allLt_iff] at h
    have := h.1.2 i i.2; simp at this; exact this.1⟩
  invFun j := ⟨inv.getD j n, by
    simp only [isPermWith, Bool.and_eq_true, allLt_iff] at h
    have := h.2 j j.2; simp at this; exact this.1⟩
  left_inv i := by
    simp only [isPermWith, Bool.and_eq_true, allLt_iff] at h
    have := h.1.2 i i.2; simp at this
    exact Fin.ext this.2
  right_inv j := by
    simp only [isPermWith, Bool.and_eq_true, allLt_iff] at h
    have := h.2 j j.2; simp at this
    exact Fin.ext this.2

/-- Soundness of the executable checker: any acceptable permutation is at most `n·δ` better. -/
theorem assignCertOk_sound (n : Nat) (w : List (List (Option Rat))) (sigma inv : List Nat)
    (u v : List Rat) (delta : Rat) (hok : assignCertOk n w sigma inv u v delta = true)
    (W : Fin n → Fin n → ℚ)
    (hW : ∀ i j : Fin n, ∀ x, entry w i j = some x → W i j = x)
    (τ : Equiv.Perm (Fin n)) (hτ : ∀ i : Fin n, (entry w i (τ i)).isSome) :
    ∃ hp : isPermWith n sigma inv = true,
      (∀ i : Fin n, (entry w i (permOfLists n sigma inv hp i)).isSome) ∧
      ∑ i, W i (τ i) ≤ ∑ i, W i (permOfLists n sigma inv hp i) + n * delta := by
  simp only [assignCertOk, Bool.and_eq_true] at hok
  obtain ⟨⟨⟨hp, hd⟩, hfeas⟩, htight⟩ := hok
  have hd' : (0 : ℚ) ≤ delta := by simpa using hd
  refine ⟨hp, ?_, ?_⟩
  · intro i
    have := (allLt_iff _ _).mp htight i i.2
    show (entry w i (sigma.getD i n)).isSome = true
    split at this
    · simp at this
    · rename_i x hx; rw [hx]; rfl
  · let U : Fin n → ℚ := fun i => u.getD i 0
    let Vv : Fin n → ℚ := fun j => v.getD j 0
    let σ := permOfLists n sigma inv hp
    have hf : ∀ i : Fin n, W i (τ i) ≤ U i + Vv (τ i) + delta := by
      intro i
      have h1 := (allLt_iff _ _).mp ((allLt_iff _ _).mp hfeas i i.2) (τ i) (τ i).2
      obtain ⟨x, hx⟩ := Option.isSome_iff_exists.mp (hτ i)
      rw [hx] at h1
      have : x ≤ u.getD i 0 + v.getD (τ i) 0 + delta := by simpa using h1
      rw [hW i (τ i) x hx]; exact this
    have ht : ∀ i : Fin n, W i (σ i) = U i + Vv (σ i) := by
      intro i
      have h1 := (allLt_iff _ _).mp htight i i.2
      have hσ : (σ i : Nat) = sigma.getD i n := rfl
      rw [← hσ] at h1
      split at h1
      · simp at h1
      · rename_i x hx
        have : x = u.getD i 0 + v.getD (σ i) 0 := by simpa using h1
        rw [hW i (σ i) x hx]; exact this
    calc ∑ i, W i (τ i) ≤ ∑ i, (U i + Vv (τ i) + delta) := sum_le_sum (fun i _ => hf i)
      _ = ∑ i, U i + ∑ i, Vv (τ i) + n * delta := by
          rw [sum_add_distrib, sum_add_distrib]; simp
      _ = ∑ i, U i + ∑ i, Vv i + n * delta := by rw [Equiv.sum_comp τ Vv]
      _ = ∑ i, U i + ∑ i, Vv (σ i) + n * delta := by rw [Equiv.sum_comp σ Vv]
      _ = ∑ i, (U i + Vv (σ i)) + n * delta := by rw [sum_add_distrib]
      _ = ∑ i, W i (σ i) + n * delta := by simp [ht]

#print axioms assignCertOk_sound
