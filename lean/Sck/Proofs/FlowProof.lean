import Sck.Proofs.Flow3

/-! C08 prototype: partial correctness of the executable max-flow model. -/

open Finset

def Net.WF (N : Net) : Prop := N.s ∈ N.verts ∧ N.t ∈ N.verts ∧ N.s ≠ N.t

theorem cap_nonneg (N : Net) (u v : Int) : 0 ≤ N.cap u v := by
  unfold Net.cap; split <;> simp

theorem zero_isFlow (N : Net) : IsFlow N.verts.toFinset N.cap N.s N.t (fun _ _ => 0) :=
  ⟨by simp, fun u v => cap_nonneg N u v, by simp⟩

theorem bottleneck_le (N : Net) (f : Flow) (es : List (Int × Int)) :
    ∀ e ∈ es, bottleneck N f es ≤ resid N f e.1 e.2 := by
  induction es with
  | nil => simp
  | cons a es ih =>
    intro e he
    cases es with
    | nil => simp at he; subst he; simp [bottleneck]
    | cons b es' =>
      simp only [bottleneck]
      simp only [List.mem_cons] at he
      rcases he with rfl | he
      · exact Int.min_le_left _ _
      · exact Int.le_trans (Int.min_le_right _ _) (ih e (by simpa using he))

theorem bottleneck_nonneg (N : Net) (f : Flow) (es : List (Int × Int))
    (h : ∀ e ∈ es, 0 < resid N f e.1 e.2) : 0 ≤ bottleneck N f es := by
  induction es with
  | nil => simp [bottleneck]
  | cons a es ih =>
    cases es with
    | nil => simp only [bottleneck]; exact Int.le_of_lt (h a (by simp))
    | cons b es' =>
      simp only [bottleneck]
      have h1 := Int.le_of_lt (h a (by simp))
      have h2 := ih (fun e he => h e (by simp [he]))
      exact Int.le_min.mpr ⟨h1, h2⟩

theorem ffLoop_isFlow (N : Net) (hwf : N.WF) :
    ∀ fuel f0 f, IsFlow N.verts.toFinset N.cap N.s N.t f0 → ffLoop N fuel f0 = .ok f →
      IsFlow N.verts.toFinset N.cap N.s N.t f := by
  intro fuel
  induction fuel with
  | zero => intro f0 f _ h; simp [ffLoop] at h
  | succ k ih =>
    intro f0 f hf0 h
    simp only [ffLoop] at h
    split at h
    · split at h
      · simp at h
      · rename_i path hpath
        split at h
        · rename_i hvalid
          refine ih _ f ?_ h
          simp only [validPath, Bool.and_eq_true, decide_eq_true_eq, beq_iff_eq, List.all_eq_true,
            List.contains_iff_mem] at hvalid
          obtain ⟨⟨⟨⟨hnd, hhead⟩, hlast⟩, hV⟩, hpos⟩ := hvalid
          have hres : ∀ e ∈ pairs path, bottleneck N f0 (pairs path) ≤ N.cap e.1 e.2 - f0 e.1 e.2 :=
            fun e he => bottleneck_le N f0 (pairs path) e he
          have hc : 0 ≤ bottleneck N f0 (pairs path) :=
            bottleneck_nonneg N f0 (pairs path) (fun e he => hpos e he)
          exact (augPath_isFlow N.verts.toFinset N.cap N.s N.t f0 hf0 path hnd
            (fun v hv => List.mem_toFinset.mpr (hV v hv)) hhead hlast hwf.2.2 _ hc hres).1
        · simp at h
    · simp at h; subst h; exact hf0

theorem ff_correct (N : Net) (hwf : N.WF) (fuel : Nat) (f : Flow) (S : List Int)
    (h : ff N fuel = .ok (f, S)) :
    IsFlow N.verts.toFinset N.cap N.s N.t f ∧ N.s ∈ S ∧ N.t ∉ S ∧ (∀ v ∈ S, v ∈ N.verts) ∧
    flowValue N.verts.toFinset N.s f = cutCap N.verts.toFinset N.cap S.toFinset := by
  simp only [ff] at h
  split at h
  · simp at h
  · rename_i f' hloop
    split at h
    · rename_i hchk
      simp at h
      obtain ⟨rfl, rfl⟩ := h
      simp only [Bool.and_eq_true, List.contains_iff_mem, Bool.not_eq_true', List.all_eq_true] at hchk
      obtain ⟨⟨⟨hclosed, hs⟩, ht⟩, hsub⟩ := hchk
      have ht' : N.t ∉ reach N f' := by
        intro hm
        have : (reach N f').contains N.t = true := List.contains_iff_mem.mpr hm
        rw [this] at ht; simp at ht
      have hf := ffLoop_isFlow N hwf fuel _ f' (zero_isFlow N) hloop
      refine ⟨hf, hs, ht', hsub, ?_⟩
      apply closed_cut_tight N.verts.toFinset N.cap N.s N.t f' hf (reach N f').toFinset
      · intro v hv; exact List.mem_toFinset.mpr (hsub v (List.mem_toFinset.mp hv))
      · exact List.mem_toFinset.mpr hs
      · intro hm; exact ht' (List.mem_toFinset.mp hm)
      · intro u hu v hv hvS
        simp only [closedB, List.all_eq_true, Bool.or_eq_true, List.contains_iff_mem,
          decide_eq_true_eq] at hclosed
        rcases hclosed u (List.mem_toFinset.mp hu) v (List.mem_toFinset.mp hv) with h1 | h1
        · exact absurd (List.mem_toFinset.mpr h1) hvS
        · exact h1
    · simp at h

#print axioms ff_correct
