import Sck.Model.IrvingAlgo
import Mathlib.Logic.Relation
import Mathlib.Data.List.Basic
import Mathlib.Data.List.Nodup

/-! # C03, package L8a, part 1: `findRotations` finds cycles of the functional graph `outEdge`

Pure list/graph reasoning about the mirror of `find_rotations` (`walk`, `rotStep`, `findRotations`), independent of the
theory of stable matchings:
* every rotation found is a CYCLE of the functional graph `G(S)` (`outEdge`), listed with the first entries of the men's
  lists (`findRotations_cycles`);
* the rotations found are pairwise disjoint;
* if no rotation is found, every man is DEAD: following the out-edges from him one reaches a man without out-edge
  (`findRotations_nil_dead`). -/

namespace IrvingAlgo

open Irving (Pair)

/-- the pair the walk records for man `x`: `(x, preference_lists_1[x][0])` -/
def pairOf (l1 : List (List Nat)) (x : Nat) : Pair := (x, (l1.getD x []).headD 0)

theorem pairOf_injective (l1 : List (List Nat)) : Function.Injective (pairOf l1) :=
  fun _ _ h => congrArg Prod.fst h

/-- `p` is a path of out-edges from `x`; `y` is the man after its last man (`x` itself if `p = []`) -/
inductive IsPath (oe : Nat → Option Nat) : Nat → List Nat → Nat → Prop
  | nil (x : Nat) : IsPath oe x [] x
  | cons {x x' y : Nat} {p : List Nat} : oe x = some x' → IsPath oe x' p y → IsPath oe x (x :: p) y

/-- a cycle of the functional graph -/
def IsCycle (oe : Nat → Option Nat) (c : List Nat) : Prop :=
  c ≠ [] ∧ c.Nodup ∧ ∀ i (h : i < c.length), oe c[i] = some (c[(i + 1) % c.length]'(Nat.mod_lt _ (by omega)))

/-- following the out-edges from `x` one reaches a man without out-edge -/
def Dead (oe : Nat → Option Nat) (x : Nat) : Prop :=
  ∃ y, Relation.ReflTransGen (fun a b => oe a = some b) x y ∧ oe y = none

theorem IsPath.head_eq {oe : Nat → Option Nat} {x y : Nat} {p : List Nat} (h : IsPath oe x p y) :
    (p = [] ∧ x = y) ∨ ∃ t, p = x :: t := by
  cases h with
  | nil => exact Or.inl ⟨rfl, rfl⟩
  | cons _ _ => exact Or.inr ⟨_, rfl⟩

theorem IsPath.getElem {oe : Nat → Option Nat} {x y : Nat} {p : List Nat} (h : IsPath oe x p y) :
    ∀ i (hi : i < p.length), oe p[i] = some (if h' : i + 1 < p.length then p[i + 1] else y) := by
  induction h with
  | nil => intro i hi; simp at hi
  | @cons x x' y p hx hp ih =>
    intro i hi
    cases i with
    | zero =>
      simp only [List.getElem_cons_zero, hx, Option.some.injEq]
      rcases hp.head_eq with ⟨rfl, rfl⟩ | ⟨t, rfl⟩
      · simp
      · simp
    | succ i =>
      have hi' : i < p.length := by simpa using hi
      have := ih i hi'
      simp only [List.getElem_cons_succ, List.length_cons]
      rw [this]
      by_cases h' : i + 1 < p.length
      · simp [h']
      · simp [h']

theorem IsPath.reach {oe : Nat → Option Nat} {x y : Nat} {p : List Nat} (h : IsPath oe x p y) :
    ∀ z ∈ p, Relation.ReflTransGen (fun a b => oe a = some b) z y := by
  induction h with
  | nil => intro z hz; simp at hz
  | @cons x x' y p hx hp ih =>
    intro z hz
    have hx'y : Relation.ReflTransGen (fun a b => oe a = some b) x' y := by
      rcases hp.head_eq with ⟨_, rfl⟩ | ⟨t, rfl⟩
      · exact Relation.ReflTransGen.refl
      · exact ih x' List.mem_cons_self
    rcases List.mem_cons.mp hz with rfl | hz
    · exact Relation.ReflTransGen.head hx hx'y
    · exact ih z hz

theorem IsPath.out_some {oe : Nat → Option Nat} {x y : Nat} {p : List Nat} (h : IsPath oe x p y) :
    ∀ z ∈ p, ∃ z', oe z = some z' := by
  intro z hz
  obtain ⟨i, hi, rfl⟩ := List.getElem_of_mem hz
  exact ⟨_, h.getElem i hi⟩

theorem dead_of_reach {oe : Nat → Option Nat} {x y : Nat}
    (h : Relation.ReflTransGen (fun a b => oe a = some b) x y) (hy : Dead oe y) : Dead oe x := by
  obtain ⟨z, hz, hn⟩ := hy
  exact ⟨z, h.trans hz, hn⟩

/-- a path that comes back to one of its own men closes a cycle -/
theorem IsPath.cycle {oe : Nat → Option Nat} {x y : Nat} {p : List Nat} (h : IsPath oe x p y) (hnd : p.Nodup)
    (hy : y ∈ p) : IsCycle oe (p.drop (p.idxOf y)) := by
  have hk : p.idxOf y < p.length := List.idxOf_lt_length_of_mem hy
  have hlen : (p.drop (p.idxOf y)).length = p.length - p.idxOf y := List.length_drop
  refine ⟨?_, hnd.sublist (List.drop_sublist _ _), ?_⟩
  · intro h0
    have := congrArg List.length h0
    rw [hlen] at this
    simp at this
    omega
  · intro i hi
    rw [hlen] at hi
    have h1 := h.getElem (p.idxOf y + i) (by omega)
    simp only [List.getElem_drop]
    rw [h1]
    congr 1
    by_cases h' : p.idxOf y + i + 1 < p.length
    · rw [dif_pos h']
      have : (i + 1) % (p.drop (p.idxOf y)).length = i + 1 := by
        rw [hlen]; exact Nat.mod_eq_of_lt (by omega)
      simp only [this]
      rfl
    · rw [dif_neg h']
      have : (i + 1) % (p.drop (p.idxOf y)).length = 0 := by
        rw [hlen]
        have : i + 1 = p.length - p.idxOf y := by omega
        rw [this]; exact Nat.mod_self _
      simp only [this, Nat.add_zero]
      exact (List.getElem_idxOf hk).symm

/-! ### `vis.set cur true` -/

theorem getD_set_true (vis : List Bool) (c x : Nat) :
    (vis.set c true).getD x true = (if x = c then true else vis.getD x true) := by
  simp only [List.getD_eq_getElem?_getD, List.getElem?_set]
  by_cases hxc : x = c
  · subst hxc
    by_cases hl : x < vis.length
    · simp [hl]
    · simp [hl]
  · have : ¬ c = x := fun h => hxc h.symm
    simp [hxc, this]

theorem count_false_set (vis : List Bool) (c : Nat) (h : vis.getD c true = false) :
    (vis.set c true).count false + 1 = vis.count false := by
  have hl : c < vis.length := by
    by_contra hl
    rw [List.getD_eq_getElem?_getD, List.getElem?_eq_none (by omega)] at h
    simp at h
  have hc : vis[c] = false := by
    rw [List.getD_eq_getElem?_getD, List.getElem?_eq_getElem hl] at h
    simpa using h
  rw [List.count_set hl, hc]
  simp only [BEq.rfl, if_true, Bool.true_beq]
  have : 0 < vis.count false := List.count_pos_iff.mpr (hc ▸ List.getElem_mem hl)
  simp
  omega

/-! ### the walk -/

/-- what one `while not visited[current_node]` walk does -/
structure WalkSpec (l1 l2 : List (List Nat)) (fuel : Nat) (vis : List Bool) (cur : Nat) (cyc : List Pair)
    (r : List Bool × Nat × List Pair) (path : List Nat) : Prop where
  cyc_eq : r.2.2 = cyc ++ path.map (pairOf l1)
  isPath : IsPath (outEdge l1 l2) cur path r.2.1
  fresh : ∀ x ∈ path, vis.getD x true = false
  nodup : path.Nodup
  new : ∀ x, r.1.getD x true = true → vis.getD x true = true ∨ x ∈ path ∨ (x = r.2.1 ∧ outEdge l1 l2 x = none)
  mono : ∀ x, vis.getD x true = true ∨ x ∈ path → r.1.getD x true = true
  len : r.1.length = vis.length
  fin : vis.count false < fuel → r.1.getD r.2.1 true = true
  start : 0 < fuel → r.1.getD cur true = true

theorem walk_spec (l1 l2 : List (List Nat)) : ∀ fuel vis cur cyc,
    ∃ path, WalkSpec l1 l2 fuel vis cur cyc (walk l1 l2 fuel vis cur cyc) path := by
  intro fuel
  induction fuel with
  | zero =>
    intro vis cur cyc
    refine ⟨[], ?_⟩
    simp only [walk]
    exact ⟨by simp, IsPath.nil _, by simp, List.nodup_nil, fun x h => Or.inl h,
      fun x h => by simpa using h, rfl, by simp, by simp⟩
  | succ fuel ih =>
    intro vis cur cyc
    by_cases hv : vis.getD cur true = true
    · refine ⟨[], ?_⟩
      rw [walk, if_pos hv]
      exact ⟨by simp, IsPath.nil _, by simp, List.nodup_nil, fun x h => Or.inl h,
        fun x h => by simpa using h, rfl, fun _ => hv, fun _ => hv⟩
    · have hv' : vis.getD cur true = false := by simpa using hv
      cases hoe : outEdge l1 l2 cur with
      | none =>
        refine ⟨[], ?_⟩
        rw [walk, if_neg hv]
        simp only [hoe]
        refine ⟨by simp, IsPath.nil _, by simp, List.nodup_nil, ?_, ?_, by simp, ?_, ?_⟩
        · intro x hx
          rw [getD_set_true] at hx
          by_cases hxc : x = cur
          · exact Or.inr (Or.inr ⟨hxc, hxc ▸ hoe⟩)
          · rw [if_neg hxc] at hx; exact Or.inl hx
        · intro x hx
          rw [getD_set_true]
          split
          · rfl
          · simpa using hx
        · intro _; rw [getD_set_true]; simp
        · intro _; rw [getD_set_true]; simp
      | some nxt =>
        obtain ⟨path, hp⟩ := ih (vis.set cur true) nxt (cyc ++ [(cur, (l1.getD cur []).headD 0)])
        refine ⟨cur :: path, ?_⟩
        rw [walk, if_neg hv]
        simp only [hoe]
        have hcur : cur ∉ path := by
          intro hc
          have := hp.fresh cur hc
          rw [getD_set_true] at this
          simp at this
        refine ⟨?_, IsPath.cons hoe hp.isPath, ?_, List.nodup_cons.mpr ⟨hcur, hp.nodup⟩, ?_, ?_, ?_, ?_, ?_⟩
        · rw [hp.cyc_eq]; simp [pairOf]
        · intro x hx
          rcases List.mem_cons.mp hx with rfl | hx
          · exact hv'
          · have := hp.fresh x hx
            rw [getD_set_true] at this
            split at this
            · simp at this
            · exact this
        · intro x hx
          rcases hp.new x hx with h | h | h
          · rw [getD_set_true] at h
            by_cases hxc : x = cur
            · exact Or.inr (Or.inl (hxc ▸ List.mem_cons_self))
            · rw [if_neg hxc] at h; exact Or.inl h
          · exact Or.inr (Or.inl (List.mem_cons_of_mem _ h))
          · exact Or.inr (Or.inr h)
        · intro x hx
          apply hp.mono
          rcases hx with h | h
          · left; rw [getD_set_true]; split
            · rfl
            · exact h
          · rcases List.mem_cons.mp h with rfl | h
            · left; rw [getD_set_true]; simp
            · exact Or.inr h
        · rw [hp.len]; simp
        · intro hc
          apply hp.fin
          have := count_false_set vis cur hv'
          omega
        · intro _
          apply hp.mono
          left; rw [getD_set_true]; simp

/-! ### one start point, all start points -/

theorem idxOf_map_of_injective {α β : Type} [BEq α] [LawfulBEq α] [BEq β] [LawfulBEq β] (f : α → β)
    (hf : Function.Injective f) (l : List α) (x : α) : (l.map f).idxOf (f x) = l.idxOf x := by
  induction l with
  | nil => rfl
  | cons a l ih =>
    simp only [List.map_cons, List.idxOf_cons, ih]
    by_cases h : a = x
    · subst h; simp
    · have h' : f a ≠ f x := fun e => h (hf e)
      have e1 : (a == x) = false := by simpa using h
      have e2 : (f a == f x) = false := by simpa using h'
      rw [e1, e2]

theorem outEdge_nil {l1 l2 : List (List Nat)} {x : Nat} (h : l1.getD x [] = []) : outEdge l1 l2 x = none := by
  unfold outEdge; rw [h]

/-- the invariant of the `while start_point < n` loop -/
structure RotInv (l1 l2 : List (List Nat)) (st : List Bool × List (List Pair)) : Prop where
  len : st.1.length = l1.length
  cyc : ∀ r ∈ st.2, ∃ c, IsCycle (outEdge l1 l2) c ∧ r = c.map (pairOf l1) ∧ ∀ x ∈ c, st.1.getD x true = true
  disj : st.2.Pairwise (fun r r' => ∀ p ∈ r, ∀ p' ∈ r', p.1 ≠ p'.1)
  dead : st.2 = [] → ∀ x, st.1.getD x true = true → Dead (outEdge l1 l2) x

theorem rotStep_inv (l1 l2 : List (List Nat)) (st : List Bool × List (List Pair)) (start : Nat)
    (inv : RotInv l1 l2 st) :
    RotInv l1 l2 (rotStep l1 l2 st start) ∧
    (∀ x, st.1.getD x true = true → (rotStep l1 l2 st start).1.getD x true = true) ∧
    (rotStep l1 l2 st start).1.getD start true = true := by
  unfold rotStep
  by_cases hv : st.1.getD start true = true
  · rw [if_pos hv]; exact ⟨inv, fun _ h => h, hv⟩
  rw [if_neg hv]
  obtain ⟨path, hp⟩ := walk_spec l1 l2 (l1.length + 1) st.1 start []
  generalize walk l1 l2 (l1.length + 1) st.1 start [] = r at hp
  obtain ⟨vis', e, cyc⟩ := r
  have hcyc : cyc = path.map (pairOf l1) := by simpa using hp.cyc_eq
  have hmono : ∀ x, st.1.getD x true = true → vis'.getD x true = true := fun x h => hp.mono x (Or.inl h)
  have hstart : vis'.getD start true = true := hp.start (by omega)
  have hfin : vis'.getD e true = true := by
    apply hp.fin
    have := List.count_le_length (a := false) (l := st.1)
    rw [inv.len] at this
    omega
  have hold : ∀ r ∈ st.2, ∃ c, IsCycle (outEdge l1 l2) c ∧ r = c.map (pairOf l1) ∧
      ∀ x ∈ c, vis'.getD x true = true := by
    intro r hr
    obtain ⟨c, h1, h2, h3⟩ := inv.cyc r hr
    exact ⟨c, h1, h2, fun x hx => hmono x (h3 x hx)⟩
  -- without a new rotation
  have hsame : e ∉ path → RotInv l1 l2 (vis', st.2) := by
    intro hne
    refine ⟨by simpa using hp.len.trans inv.len, hold, inv.disj, ?_⟩
    intro h0 x hx
    have hde : Dead (outEdge l1 l2) e := by
      rcases hp.new e hfin with h | h | ⟨_, h⟩
      · exact inv.dead h0 e h
      · exact absurd h hne
      · exact ⟨e, Relation.ReflTransGen.refl, h⟩
    rcases hp.new x hx with h | h | ⟨h, _⟩
    · exact inv.dead h0 x h
    · exact dead_of_reach (hp.isPath.reach x h) hde
    · exact h ▸ hde
  dsimp only
  split
  · rename_i hnil
    refine ⟨hsame ?_, hmono, hstart⟩
    intro he
    obtain ⟨z, hz⟩ := hp.isPath.out_some e he
    have hz' : outEdge l1 l2 e = some z := hz
    rw [outEdge_nil hnil] at hz'
    simp at hz'
  · rename_i w tl hw
    have hpe : (e, w) = pairOf l1 e := by unfold pairOf; rw [hw]; rfl
    split
    · rename_i hcont
      have hmem : e ∈ path := by
        rw [List.contains_iff_mem, hcyc, hpe] at hcont
        obtain ⟨x, hx, hxe⟩ := List.mem_map.mp hcont
        exact pairOf_injective l1 hxe ▸ hx
      have hdrop : cyc.drop (cyc.idxOf (e, w)) = (path.drop (path.idxOf e)).map (pairOf l1) := by
        rw [hcyc, hpe, idxOf_map_of_injective _ (pairOf_injective l1), List.map_drop]
      refine ⟨⟨by simpa using hp.len.trans inv.len, ?_, ?_, by simp⟩, hmono, hstart⟩
      · intro r hr
        rcases List.mem_append.mp hr with hr | hr
        · exact hold r hr
        · simp only [List.mem_singleton] at hr
          refine ⟨path.drop (path.idxOf e), hp.isPath.cycle hp.nodup hmem, hr.trans hdrop, ?_⟩
          intro x hx
          exact hp.mono x (Or.inr (List.mem_of_mem_drop hx))
      · rw [List.pairwise_append]
        refine ⟨inv.disj, List.pairwise_singleton _ _, ?_⟩
        intro r hr r' hr' p hpm p' hpm' heq
        simp only [List.mem_singleton] at hr'
        obtain ⟨c, _, rfl, hvis⟩ := inv.cyc r hr
        rw [hr', hdrop] at hpm'
        obtain ⟨x, hx, rfl⟩ := List.mem_map.mp hpm
        obtain ⟨x', hx', rfl⟩ := List.mem_map.mp hpm'
        have h1 := hvis x hx
        have h2 := hp.fresh x' (List.mem_of_mem_drop hx')
        have : x = x' := heq
        rw [this, h2] at h1
        simp at h1
    · rename_i hcont
      refine ⟨hsame ?_, hmono, hstart⟩
      intro he
      apply hcont
      rw [List.contains_iff_mem, hcyc, hpe]
      exact List.mem_map_of_mem he

theorem foldl_rotStep_inv (l1 l2 : List (List Nat)) (k : Nat) :
    RotInv l1 l2 ((List.range k).foldl (rotStep l1 l2) (List.replicate l1.length false, [])) ∧
    ∀ x, x < k → ((List.range k).foldl (rotStep l1 l2) (List.replicate l1.length false, [])).1.getD x true = true := by
  induction k with
  | zero =>
    refine ⟨⟨by simp, by simp, by simp, ?_⟩, by simp⟩
    intro _ x hx
    simp only [List.foldl_nil, List.range_zero] at hx
    have hl : ¬ x < l1.length := by
      intro hl
      rw [List.getD_eq_getElem?_getD, List.getElem?_replicate, if_pos hl] at hx
      simp at hx
    refine ⟨x, Relation.ReflTransGen.refl, outEdge_nil ?_⟩
    rw [List.getD_eq_getElem?_getD, List.getElem?_eq_none (by omega)]; rfl
  | succ k ih =>
    rw [List.range_succ, List.foldl_append]
    simp only [List.foldl_cons, List.foldl_nil]
    obtain ⟨h1, h2, h3⟩ := rotStep_inv l1 l2 _ k ih.1
    refine ⟨h1, ?_⟩
    intro x hx
    by_cases hxk : x = k
    · exact hxk ▸ h3
    · exact h2 x (ih.2 x (by omega))

/-- every rotation found by `find_rotations` is a cycle of `G(S)`, listed with the first entries of the men's lists -/
theorem findRotations_cycles (l1 l2 : List (List Nat)) :
    ∀ r ∈ findRotations l1 l2, ∃ c, IsCycle (outEdge l1 l2) c ∧ r = c.map (pairOf l1) := by
  intro r hr
  obtain ⟨c, h1, h2, _⟩ := (foldl_rotStep_inv l1 l2 l1.length).1.cyc r hr
  exact ⟨c, h1, h2⟩

/-- the rotations found are pairwise disjoint (no common man) -/
theorem findRotations_disjoint (l1 l2 : List (List Nat)) :
    (findRotations l1 l2).Pairwise (fun r r' => ∀ p ∈ r, ∀ p' ∈ r', p.1 ≠ p'.1) :=
  (foldl_rotStep_inv l1 l2 l1.length).1.disj

/-- if `find_rotations` finds nothing, every man is dead -/
theorem findRotations_nil_dead (l1 l2 : List (List Nat)) (h : findRotations l1 l2 = []) (x : Nat) :
    Dead (outEdge l1 l2) x := by
  obtain ⟨inv, hall⟩ := foldl_rotStep_inv l1 l2 l1.length
  apply inv.dead h
  by_cases hx : x < l1.length
  · exact hall x hx
  · rw [List.getD_eq_getElem?_getD, List.getElem?_eq_none (by rw [inv.len]; omega)]; rfl

end IrvingAlgo

#print axioms IrvingAlgo.findRotations_cycles
#print axioms IrvingAlgo.findRotations_nil_dead
