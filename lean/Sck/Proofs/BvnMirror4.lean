import Sck.Proofs.BvnMirror3

/-! C06, the faithful mirror of `birkhoff_von_neumann`, part 4: the CONVERSE of the specification.  Whenever the
mirrored loop returns, the input was balanced (non-negative with all row and column sums equal to the sum of the
returned coefficients) and every returned 0/1 matrix is a permutation matrix.  Together with totality: over exact
arithmetic the routine returns exactly on the balanced matrices and raises `ValueError` on all other square ones. -/

open Finset

namespace Mirror

open FH (BGraph keysB posGraph)

/-- undoing a Birkhoff step keeps the matrix balanced -/
theorem bvnStep_unstep {n : ℕ} (A : Fin n → Fin n → ℚ) (σ : Equiv.Perm (Fin n)) (z s : ℚ) (hz : 0 ≤ z)
    (h : Balanced (bvnStep A σ z) s) : Balanced A (s + z) := by
  have hA : ∀ i j, A i j = bvnStep A σ z i j + if σ i = j then z else 0 := by
    intro i j; unfold bvnStep; ring
  refine ⟨?_, ?_, ?_⟩
  · intro i j
    rw [hA i j]
    have := h.nonneg i j
    split <;> linarith
  · intro i
    simp_rw [hA i]
    rw [sum_add_distrib, h.row i, sum_ite_eq]
    simp
  · intro j
    have : ∀ i, A i j = bvnStep A σ z i j + if i = σ.symm j then z else 0 := by
      intro i
      rw [hA i j]
      congr 1
      by_cases hc : σ i = j
      · rw [if_pos hc, if_pos (by rw [← hc]; simp)]
      · rw [if_neg hc, if_neg (fun e => hc (by rw [e]; simp))]
    simp_rw [this]
    rw [sum_add_distrib, h.col j, sum_ite_eq']
    simp

/-- a square zero matrix is balanced with sum `0` -/
theorem isBalancedB_of_zero (n : ℕ) (hn : 0 < n) (X : List (List Rat)) (hsq : isSquareB n X = true)
    (hz : isZeroB X = true) : isBalancedB n X = some 0 := by
  apply balanced_isBalancedB hn X 0 hsq
  rw [isZeroB_toFun X hsq hz]
  exact ⟨fun _ _ => le_refl _, fun _ => by simp, fun _ => by simp⟩

theorem colOfPairs_lt (n : ℕ) (M : List (Int × Int)) (i : ℕ) (h : colOfPairs n M i < n) :
    ∃ p ∈ M, p.1 = (i : Int) := by
  unfold colOfPairs at h
  split at h
  · rename_i p hp
    have := List.find?_some hp
    simp only [Int.ofNat_eq_natCast, beq_iff_eq] at this
    exact ⟨p, List.mem_of_find?_eq_some hp, this⟩
  · omega

section Step
variable {n : ℕ} {X : List (List Rat)} {M : List (Int × Int)}

/-- if the residual matrix after a round is balanced, the matching of that round was perfect -/
theorem matching_perfect_of_rest (hsq : isSquareB n X = true) (hk : posKeysOkB n X = true)
    (hM : IsMatching (rowVerts n) (positivityAdj n X) M)
    (hmax : ∀ M', IsMatching (rowVerts n) (positivityAdj n X) M' → M'.length ≤ M.length)
    (z s' : Rat) (hz : minList (pairVals n X M) = some z)
    (hbal' : isBalancedB n (subPerm X (sigmaOfPairs n M) z) = some s') : n ≤ M.length := by
  have hzpos := (coeff_spec hM z hz).1
  have hsub : ∀ a b : ℕ, a < n → b < n →
      matGet (subPerm X (sigmaOfPairs n M) z) a b =
        matGet X a b - if (sigmaOfPairs n M).getD a n = b then z else 0 :=
    fun a b ha hb => matGet_subPerm n X (sigmaOfPairs n M) z hsq (sigmaOfPairs_length n M) a b ha hb
  have hsq' := isBalancedB_square _ s' hbal'
  by_cases hzs : isZeroB (subPerm X (sigmaOfPairs n M) z) = true
  · -- the residual is zero: every row has its positive entry on the matching
    simp only [posKeysOkB, Bool.and_eq_true, allLt_iff, List.any_eq_true, List.mem_range,
      decide_eq_true_eq] at hk
    have h0 := isZeroB_toFun _ hsq' hzs
    have hsubset : rowVerts n ⊆ M.map (·.1) := by
      intro v hv
      obtain ⟨i, hi, rfl⟩ := (mem_rowVerts n v).mp hv
      obtain ⟨j, hj, hpos⟩ := hk.1 i hi
      have hij : matGet (subPerm X (sigmaOfPairs n M) z) i j = 0 := congrFun (congrFun h0 ⟨i, hi⟩) ⟨j, hj⟩
      rw [hsub i j hi hj] at hij
      have hσ : (sigmaOfPairs n M).getD i n = j := by
        by_contra hne
        rw [if_neg hne] at hij
        linarith
      rw [sigmaOfPairs_getD n M i hi] at hσ
      obtain ⟨p, hp, hp1⟩ := colOfPairs_lt n M i (by omega)
      exact List.mem_map.mpr ⟨p, hp, hp1⟩
    have := (List.subperm_of_subset (rowVerts_nodup n) hsubset).length_le
    simpa [rowVerts_length] using this
  · -- the residual is balanced and not zero: Hall gives a permutation in its support, hence in the support of `X`
    have hnz : isZeroB (subPerm X (sigmaOfPairs n M) z) = false := by simpa using hzs
    obtain ⟨τ, hp, hs⟩ := bvn_progress_aux _ s' hbal' hnz
    have hlen := isPermB_length n τ hp
    obtain ⟨_, hlt, _, _⟩ := isPermB_bij τ hp
    have hpos' := support_pos n _ τ hsq' hlen hs
    have hsX : (diagVals X τ).all (fun v => decide (0 < v)) = true := by
      simp only [List.all_eq_true, decide_eq_true_eq]
      intro v hv
      obtain ⟨i, hi, rfl⟩ := (mem_diagVals n X τ hsq hlen v).mp hv
      have := hpos' i hi
      rw [hsub i _ hi (hlt i hi)] at this
      split at this <;> linarith
    have := hmax _ (supportPerm_isMatching n X τ hsq hp hsX)
    rwa [pairsOfSigma_length] at this

end Step

/-- **converse of the specification, loop level**: a returned decomposition certifies that the matrix was balanced, with
common sum the sum of the coefficients, and consists of permutation matrices -/
theorem bvnMirrorAux_ok_balanced (n : ℕ) (hn : 0 < n) :
    ∀ (k : ℕ) (X : List (List Rat)), isSquareB n X = true → ∀ out, bvnMirrorAux n k X = .ok out →
      isBalancedB n X = some (sumList (out.map (·.1))) ∧ ∀ e ∈ out, isPermB n e.2 = true := by
  intro k
  induction k with
  | zero => intro X _ out h; simp [bvnMirrorAux] at h
  | succ k ih =>
    intro X hsq out h
    rw [bvnMirrorAux_succ n k X hsq] at h
    by_cases hz : isZeroB X = true
    · rw [if_pos hz] at h
      cases h
      exact ⟨by simpa [sumList] using isBalancedB_of_zero n hn X hsq hz, by simp⟩
    · rw [if_neg hz] at h
      by_cases hk : posKeysOkB n X = true
      · rw [hk] at h
        simp only [Bool.not_true, Bool.false_eq_true, if_false] at h
        obtain ⟨M, hM, hm, hmax⟩ := mcmMirror_posGraph n X hk
        rw [hM] at h
        simp only at h
        cases hzm : minList (pairVals n X M) with
        | none => rw [hzm] at h; simp at h
        | some z =>
          rw [hzm] at h
          simp only at h
          cases hrec : bvnMirrorAux n k (subPerm X (sigmaOfPairs n M) z) with
          | error e => rw [hrec] at h; simp at h
          | ok out' =>
            rw [hrec] at h
            simp only [Except.ok.injEq] at h
            subst h
            have hsq' := subPerm_square n X (sigmaOfPairs n M) z hsq (sigmaOfPairs_length n M)
            obtain ⟨hbal', hperms⟩ := ih _ hsq' out' hrec
            have hge := matching_perfect_of_rest hsq hk hm hmax z _ hzm hbal'
            obtain ⟨hp, _, _⟩ := perfect_matching_perm n X M hsq hm hge
            have hzpos := (coeff_spec hm z hzm).1
            have hb' := isBalancedB_balanced _ _ hbal'
            rw [toFun_subPerm X (sigmaOfPairs n M) z hsq hp] at hb'
            have hb := bvnStep_unstep _ _ z _ (le_of_lt hzpos) hb'
            refine ⟨?_, ?_⟩
            · have := balanced_isBalancedB hn X _ hsq hb
              rw [this]
              simp only [sumList, List.map_cons, List.sum_cons]
              rw [add_comm]
            · intro e he
              rcases List.mem_cons.mp he with rfl | he
              · exact hp
              · exact hperms e he
      · have hk' : posKeysOkB n X = false := by simpa using hk
        rw [hk'] at h
        simp at h

/-- **the mirror returns only on balanced matrices**, and then `Σ z` is the common sum and every term a permutation -/
theorem bvnMirror_ok_balanced (n : ℕ) (X : List (List Rat)) (out : List (Rat × List ℕ))
    (h : bvnMirror n X = .ok out) :
    isBalancedB n X = some (sumList (out.map (·.1))) ∧ ∀ e ∈ out, isPermB n e.2 = true := by
  unfold bvnMirror at h
  by_cases hsq : isSquareB n X = true
  · rw [if_pos hsq] at h
    rcases Nat.eq_zero_or_pos n with rfl | hn
    · have hz := isZeroB_of_zero X hsq
      rw [bvnMirrorAux, if_pos hz] at h
      cases h
      simp only [isSquareB, Bool.and_eq_true, beq_iff_eq, List.length_eq_zero_iff] at hsq
      rw [hsq.1]
      exact ⟨by decide, by simp⟩
    · exact bvnMirrorAux_ok_balanced n hn _ X hsq out h
  · rw [if_neg hsq] at h
    simp at h

/-- **exact characterisation**: on a square matrix the mirror returns iff the matrix is balanced, and raises
`ValueError` iff it is not -/
theorem bvnMirror_ok_iff (n : ℕ) (X : List (List Rat)) (hsq : isSquareB n X = true) :
    ((∃ out, bvnMirror n X = .ok out) ↔ ∃ s, isBalancedB n X = some s) ∧
    (bvnMirror n X = .error "ValueError" ↔ isBalancedB n X = none) := by
  have h1 : (∃ out, bvnMirror n X = .ok out) ↔ ∃ s, isBalancedB n X = some s := by
    constructor
    · rintro ⟨out, h⟩
      exact ⟨_, (bvnMirror_ok_balanced n X out h).1⟩
    · rintro ⟨s, hs⟩
      obtain ⟨out, h, _⟩ := bvnMirror_spec n X s hs
      exact ⟨out, h⟩
  refine ⟨h1, ?_⟩
  constructor
  · intro herr
    cases hb : isBalancedB n X with
    | none => rfl
    | some s =>
      obtain ⟨out, h⟩ := h1.mpr ⟨s, hb⟩
      rw [herr] at h
      simp at h
  · intro hnone
    rcases bvnMirror_total n X hsq with ⟨out, h, _⟩ | h
    · obtain ⟨s, hs⟩ := h1.mp ⟨out, h⟩
      rw [hnone] at hs
      simp at hs
    · exact h

end Mirror

#print axioms Mirror.bvnMirror_ok_iff
