import Sck.Model.Irving
import Sck.Model.Elicit
import Sck.Proofs.SMCertProof
import Sck.Proofs.Hall
import Mathlib.Algebra.BigOperators.Group.Multiset.Basic
import Mathlib.Algebra.BigOperators.Intervals
import Mathlib.Tactic.Abel

/-! Proofs about the executable model of the last stage of `Irving.scf` (C03/C17). -/

open Finset

/-- no blocking pair in terms of the valuations (larger value = preferred) -/
def StableVal {n : Nat} (V1 V2 : Fin n → Fin n → Int) (μ : Equiv.Perm (Fin n)) : Prop :=
  ∀ a b, ¬ (V1 a (μ a) < V1 a b ∧ V2 b (μ.symm b) < V2 b a)

theorem inducedB_iff (n : Nat) (P : List (List Nat)) (V : List (List Int)) :
    Irving.inducedB n P V = true ↔
      (∀ a b b' : Fin n, rankOf P a b < rankOf P a b' ↔ intOf V a b' < intOf V a b) ∧
      (∀ a : Fin n, Function.Injective (fun b : Fin n => intOf V a b)) := by
  unfold Irving.inducedB
  simp only [Bool.and_eq_true, allLt_iff]
  constructor
  · rintro ⟨h1, h2⟩
    refine ⟨fun a b b' => ?_, fun a b b' hbb => ?_⟩
    · have := h1 a a.2 b b.2 b' b'.2
      simpa using this
    · have := h2 a a.2 b b.2 b' b'.2
      simp only [Bool.or_eq_true, beq_iff_eq, bne_iff_ne] at this
      rcases this with h | h
      · exact Fin.ext h
      · exact absurd hbb h
  · rintro ⟨h1, h2⟩
    refine ⟨fun a ha b hb b' hb' => ?_, fun a ha b hb b' hb' => ?_⟩
    · have := h1 ⟨a, ha⟩ ⟨b, hb⟩ ⟨b', hb'⟩
      simpa using this
    · simp only [Bool.or_eq_true, beq_iff_eq, bne_iff_ne]
      by_cases h : b = b'
      · exact Or.inl h
      · right; intro hv
        exact h (Fin.mk.inj_iff.mp (@h2 ⟨a, ha⟩ ⟨b, hb⟩ ⟨b', hb'⟩ hv))

/-- for rank matrices induced by the valuations, ordinal stability is stability w.r.t. the valuations -/
theorem stableSM_induced (n : Nat) (P1 P2 : List (List Nat)) (V1 V2 : List (List Int))
    (h1 : Irving.inducedB n P1 V1 = true) (h2 : Irving.inducedB n P2 V2 = true) (μ : Equiv.Perm (Fin n)) :
    StableSM (fun a b : Fin n => rankOf P1 a b) (fun b a : Fin n => rankOf P2 b a) μ ↔
      StableVal (fun a b : Fin n => intOf V1 a b) (fun b a : Fin n => intOf V2 b a) μ := by
  have e1 := ((inducedB_iff n P1 V1).mp h1).1
  have e2 := ((inducedB_iff n P2 V2).mp h2).1
  unfold StableSM StableVal
  simp only [e1, e2]

/-! ## Values of the two-sided simulation (C17) -/

theorem simLoop2_values (vals : Nat → Rat) (m : Nat) (vstar : Rat) :
    ∀ (lams : List Rat) (prev : Nat) (acc sim : Nat → Rat),
      Elicit.simLoop2 vals m vstar lams prev acc = some sim →
      (∀ q, acc q = 0 ∨ ∃ p, acc q = vals p) → ∀ q, sim q = 0 ∨ ∃ p, sim q = vals p := by
  intro lams
  induction lams with
  | nil =>
    intro prev acc sim h hacc
    simp only [Elicit.simLoop2, Option.some.injEq] at h
    subst h; exact hacc
  | cons lam rest ih =>
    intro prev acc sim h hacc
    simp only [Elicit.simLoop2] at h
    split at h
    · exact absurd h (by simp)
    · refine ih _ _ sim h ?_
      intro q
      split
      · exact Or.inr ⟨_, rfl⟩
      · exact hacc q

/-- every two-sided simulated value is `0` or a true value `vals p` (the favourite's `vals 0`, or the value at
the last position of a threshold set) -/
theorem simulate2_values (vals : Nat → Rat) (m : Nat) (lams : List Rat) (sim : Nat → Rat)
    (h : Elicit.simulate2 vals m lams = some sim) : ∀ q, sim q = 0 ∨ ∃ p, sim q = vals p := by
  refine simLoop2_values vals m (vals 0) lams 0 _ sim h ?_
  intro q
  split
  · exact Or.inr ⟨0, rfl⟩
  · exact Or.inl rfl

theorem intOf_ofFn (n : Nat) (z : Fin n → Fin n → Int) (a b : Fin n) :
    intOf (List.ofFn (fun a : Fin n => List.ofFn (fun b : Fin n => z a b))) a b = z a b := by
  unfold intOf
  simp [List.getD_eq_getElem?_getD]

/-! ## Eliminating one rotation (`Irving.eliminate_rotations`) -/

namespace Irving

/-- value of a pair: `V1[m, w] + V2[w, m]` -/
def pairVal (V1 V2 : List (List Int)) (p : Pair) : Int := intOf V1 p.1 p.2 + intOf V2 p.2 p.1

theorem foldl_add_eq_sum {α : Type} (f : α → Int) (l : List α) (a : Int) :
    l.foldl (fun ans p => ans + f p) a = a + (l.map f).sum := by
  induction l generalizing a with
  | nil => simp
  | cons x xs ih => simp only [List.foldl_cons, ih, List.map_cons, List.sum_cons]; omega

theorem matchingValue_eq_sum (V1 V2 : List (List Int)) (M : List Pair) :
    matchingValue V1 V2 M = (M.map (pairVal V1 V2)).sum := by
  have := foldl_add_eq_sum (pairVal V1 V2) M 0
  unfold pairVal at this ⊢
  unfold matchingValue
  rw [this]; simp

theorem sum_map_range {A : Type} [AddCommMonoid A] (f : Nat → A) (r : Nat) :
    ((List.range r).map f).sum = ∑ i ∈ Finset.range r, f i := by
  induction r with
  | zero => simp
  | succ k ih => rw [List.range_succ, List.map_append, List.sum_append, ih, Finset.sum_range_succ]; simp

/-- replacing the entry at `idx` by `q` exchanges `g M[idx]` for `g q` in any commutative sum -/
theorem sum_map_set {A : Type} [AddCommMonoid A] (g : Pair → A) :
    ∀ (M : List Pair) (idx : Nat) (h : idx < M.length) (q : Pair),
      ((M.set idx q).map g).sum + g M[idx] = (M.map g).sum + g q := by
  intro M
  induction M with
  | nil => intro idx h; simp at h
  | cons x xs ih =>
    intro idx h q
    cases idx with
    | zero => simp only [List.set_cons_zero, List.map_cons, List.sum_cons, List.getElem_cons_zero]; abel
    | succ k =>
      simp only [List.set_cons_succ, List.map_cons, List.sum_cons, List.getElem_cons_succ]
      rw [add_assoc, ih k (by simpa using h) q, add_assoc]

/-- cyclic shift of a sum over `0..r-1` -/
theorem sum_cyclic {A : Type} [AddCommMonoid A] (f : Nat → Nat → A) (r : Nat) :
    ∑ i ∈ Finset.range r, f ((i + 1) % r) i = ∑ i ∈ Finset.range r, f i ((i + r - 1) % r) := by
  cases r with
  | zero => simp
  | succ k =>
    rw [Finset.sum_range_succ, Finset.sum_range_succ']
    congr 1
    · refine Finset.sum_congr rfl (fun i hi => ?_)
      have hi' : i < k := Finset.mem_range.mp hi
      have e1 : (i + 1) % (k + 1) = i + 1 := Nat.mod_eq_of_lt (by omega)
      have e2 : (i + 1 + (k + 1) - 1) % (k + 1) = i := by
        have : i + 1 + (k + 1) - 1 = i + (k + 1) := by omega
        rw [this, Nat.add_mod_right]; exact Nat.mod_eq_of_lt (by omega)
      rw [e1, e2]
    · have e1 : (k + 1) % (k + 1) = 0 := Nat.mod_self _
      have e2 : (0 + (k + 1) - 1) % (k + 1) = k := by
        have : 0 + (k + 1) - 1 = k := by omega
        rw [this]; exact Nat.mod_eq_of_lt (by omega)
      rw [e1, e2]

/-- one successful step of the inner loop -/
theorem elimLoop_cons_some (rho : List Pair) (i : Nat) (is : List Nat) (M M' : List Pair)
    (h : elimLoop rho (i :: is) M = some M') :
    ∃ hidx : M.idxOf (rotAt rho i) < M.length, M[M.idxOf (rotAt rho i)] = rotAt rho i ∧
      elimLoop rho is (M.set (M.idxOf (rotAt rho i)) (rotNew rho i)) = some M' := by
  simp only [elimLoop] at h
  split at h
  · rename_i hc
    have hmem : rotAt rho i ∈ M := List.contains_iff_mem.mp hc
    have hidx := List.idxOf_lt_length_of_mem hmem
    exact ⟨hidx, List.getElem_idxOf hidx, h⟩
  · exact absurd h (by simp)

/-- bookkeeping invariant of the inner loop for any commutative "measure" `g` of pairs -/
theorem elimLoop_sum {A : Type} [AddCommMonoid A] (g : Pair → A) (rho : List Pair) :
    ∀ (is : List Nat) (M M' : List Pair), elimLoop rho is M = some M' →
      (M'.map g).sum + (is.map (fun i => g (rotAt rho i))).sum
        = (M.map g).sum + (is.map (fun i => g (rotNew rho i))).sum := by
  intro is
  induction is with
  | nil => intro M M' h; simp only [elimLoop, Option.some.injEq] at h; subst h; simp
  | cons i is ih =>
    intro M M' h
    obtain ⟨hidx, hget, h'⟩ := elimLoop_cons_some rho i is M M' h
    have h1 := ih _ _ h'
    have h2 := sum_map_set g M _ hidx (rotNew rho i)
    rw [hget] at h2
    simp only [List.map_cons, List.sum_cons]
    calc (M'.map g).sum + (g (rotAt rho i) + (is.map (fun i => g (rotAt rho i))).sum)
        = ((M'.map g).sum + (is.map (fun i => g (rotAt rho i))).sum) + g (rotAt rho i) := by abel
      _ = (((M.set (M.idxOf (rotAt rho i)) (rotNew rho i)).map g).sum + g (rotAt rho i))
            + (is.map (fun i => g (rotNew rho i))).sum := by rw [h1]; abel
      _ = (M.map g).sum + (g (rotNew rho i) + (is.map (fun i => g (rotNew rho i))).sum) := by rw [h2]; abel

/-- the men stay in the same positions -/
theorem elimLoop_fst (rho : List Pair) :
    ∀ (is : List Nat) (M M' : List Pair), elimLoop rho is M = some M' → M'.map Prod.fst = M.map Prod.fst := by
  intro is
  induction is with
  | nil => intro M M' h; simp only [elimLoop, Option.some.injEq] at h; subst h; rfl
  | cons i is ih =>
    intro M M' h
    obtain ⟨hidx, hget, h'⟩ := elimLoop_cons_some rho i is M M' h
    rw [ih _ _ h', List.map_set]
    have : (rotNew rho i).1 = (M.map Prod.fst)[M.idxOf (rotAt rho i)]'(by simpa using hidx) := by
      rw [List.getElem_map, hget]; rfl
    rw [this, List.set_getElem_self]

theorem foldl_add2_eq_sum {α : Type} (a b : α → Int) (l : List α) (s : Int) :
    l.foldl (fun ans p => ans + a p + b p) s = s + (l.map (fun p => a p + b p)).sum := by
  induction l generalizing s with
  | nil => simp
  | cons x xs ih => simp only [List.foldl_cons, ih, List.map_cons, List.sum_cons]; omega

theorem rotationWeight_eq (V1 V2 : List (List Int)) (rho : List Pair) :
    rotationWeight V1 V2 rho = -(∑ i ∈ Finset.range rho.length,
      ((intOf V1 (rotAt rho i).1 (rotAt rho i).2 - intOf V1 (rotAt rho i).1 (rotAt rho ((i + 1) % rho.length)).2)
        + (intOf V2 (rotAt rho i).2 (rotAt rho i).1
            - intOf V2 (rotAt rho i).2 (rotAt rho ((i + rho.length - 1) % rho.length)).1))) := by
  unfold rotationWeight
  dsimp only
  rw [foldl_add2_eq_sum, sum_map_range]
  omega

/-- **value bookkeeping**: whenever eliminating `rho` succeeds, the value of the matching grows by exactly
`rotation_weight(rho)` (the code's sign convention: weight = gain) -/
theorem eliminate_value (V1 V2 : List (List Int)) (M M' rho : List Pair) (h : eliminate M rho = some M') :
    matchingValue V1 V2 M' = matchingValue V1 V2 M + rotationWeight V1 V2 rho := by
  have hs := elimLoop_sum (pairVal V1 V2) rho _ M M' h
  rw [sum_map_range, sum_map_range] at hs
  rw [matchingValue_eq_sum, matchingValue_eq_sum, rotationWeight_eq]
  have hc := sum_cyclic (fun x y => intOf V2 (rotAt rho x).2 (rotAt rho y).1) rho.length
  simp only [pairVal, rotNew, Finset.sum_add_distrib, Finset.sum_sub_distrib] at hs hc ⊢
  omega

/-- the inner loop succeeds when all pairs still to be processed are in the current matching and the men of the
rotation are distinct -/
theorem elimLoop_succ (rho : List Pair)
    (hmen : ∀ k k', k < rho.length → k' < rho.length → (rotAt rho k).1 = (rotAt rho k').1 → k = k') :
    ∀ (is : List Nat) (M : List Pair), is.Nodup → (∀ k ∈ is, k < rho.length) → (∀ k ∈ is, rotAt rho k ∈ M) →
      ∃ M', elimLoop rho is M = some M' := by
  intro is
  induction is with
  | nil => intro M _ _ _; exact ⟨M, rfl⟩
  | cons i is ih =>
    intro M hnd hlt hmem
    have hi : rotAt rho i ∈ M := hmem i (List.mem_cons_self)
    have hidx := List.idxOf_lt_length_of_mem hi
    have hget : M[M.idxOf (rotAt rho i)] = rotAt rho i := List.getElem_idxOf hidx
    simp only [elimLoop, List.contains_iff_mem.mpr hi, if_true]
    have hnd' := List.nodup_cons.mp hnd
    refine ih _ hnd'.2 (fun k hk => hlt k (List.mem_cons_of_mem _ hk)) ?_
    intro k hk
    have hkM : rotAt rho k ∈ M := hmem k (List.mem_cons_of_mem _ hk)
    obtain ⟨j, hj⟩ := List.mem_iff_getElem?.mp hkM
    have hne : M.idxOf (rotAt rho i) ≠ j := by
      intro he
      subst he
      rw [List.getElem?_eq_getElem hidx, hget] at hj
      have hik : i = k := hmen i k (hlt i List.mem_cons_self) (hlt k (List.mem_cons_of_mem _ hk))
        (by rw [Option.some.inj hj])
      exact hnd'.1 (hik ▸ hk)
    apply List.mem_iff_getElem?.mpr
    exact ⟨j, by rw [List.getElem?_set_ne hne]; exact hj⟩

theorem sum_map_singleton_snd (M : List Pair) :
    (M.map (fun p => ({p.2} : Multiset Nat))).sum = ((M.map Prod.snd : List Nat) : Multiset Nat) := by
  induction M with
  | nil => rfl
  | cons x xs ih => simp only [List.map_cons, List.sum_cons, ih]; rfl

/-- hypotheses of `eliminate_perm` on the rotation, in index form -/
theorem rotAt_mem (rho : List Pair) (k : Nat) (hk : k < rho.length) : rotAt rho k ∈ rho := by
  unfold rotAt
  rw [List.getD_eq_getElem?_getD, List.getElem?_eq_getElem hk]
  exact List.getElem_mem hk

theorem rotAt_men_inj (rho : List Pair) (hnd : (rho.map Prod.fst).Nodup) (k k' : Nat)
    (hk : k < rho.length) (hk' : k' < rho.length) (h : (rotAt rho k).1 = (rotAt rho k').1) : k = k' := by
  unfold rotAt at h
  rw [List.getD_eq_getElem?_getD, List.getElem?_eq_getElem hk,
    List.getD_eq_getElem?_getD, List.getElem?_eq_getElem hk'] at h
  simp only [Option.getD_some] at h
  have h1 : (rho.map Prod.fst)[k]'(by simpa using hk) = (rho.map Prod.fst)[k']'(by simpa using hk') := by
    simpa using h
  exact (List.Nodup.getElem_inj_iff hnd).mp h1

/-- whenever eliminating `rho` succeeds, the men stay in the same positions -/
theorem eliminate_fst (M M' rho : List Pair) (h : eliminate M rho = some M') :
    M'.map Prod.fst = M.map Prod.fst := elimLoop_fst rho _ M M' h

/-- whenever eliminating `rho` succeeds, the women are permuted -/
theorem eliminate_snd_perm (M M' rho : List Pair) (h : eliminate M rho = some M') :
    (M'.map Prod.snd).Perm (M.map Prod.snd) := by
  have hs := elimLoop_sum (fun p => ({p.2} : Multiset Nat)) rho _ M M' h
  rw [sum_map_range, sum_map_range, sum_map_singleton_snd, sum_map_singleton_snd] at hs
  have hc := sum_cyclic (fun x _ => ({(rotAt rho x).2} : Multiset Nat)) rho.length
  simp only [rotNew] at hs
  rw [hc] at hs
  exact Multiset.coe_eq_coe.mp (add_right_cancel hs)

/-- **eliminating an exposed rotation keeps a perfect matching perfect.**  If every pair of `rho` is in `M` and the
men of `rho` are distinct, then `eliminate M rho` succeeds, the men stay in the same positions and the women are
permuted (so distinct men / distinct women / "a permutation of `0..n-1`" are all preserved). -/
theorem eliminate_perm (M rho : List Pair) (hsub : ∀ p ∈ rho, p ∈ M) (hmen : (rho.map Prod.fst).Nodup) :
    ∃ M', eliminate M rho = some M' ∧ M'.map Prod.fst = M.map Prod.fst ∧
      (M'.map Prod.snd).Perm (M.map Prod.snd) := by
  obtain ⟨M', hM'⟩ := elimLoop_succ rho (rotAt_men_inj rho hmen) (List.range rho.length) M List.nodup_range
    (fun k hk => List.mem_range.mp hk)
    (fun k hk => hsub _ (rotAt_mem rho k (List.mem_range.mp hk)))
  exact ⟨M', hM', eliminate_fst M M' rho hM', eliminate_snd_perm M M' rho hM'⟩

/-- the inner loop over a concatenation of index lists -/
theorem elimLoop_append (rho : List Pair) :
    ∀ (l1 l2 : List Nat) (M : List Pair),
      elimLoop rho (l1 ++ l2) M = (elimLoop rho l1 M).bind (elimLoop rho l2) := by
  intro l1
  induction l1 with
  | nil => intro l2 M; rfl
  | cons i is ih =>
    intro l2 M
    simp only [List.cons_append, elimLoop]
    split
    · exact ih _ _
    · rfl

theorem elimLoop_range_none_iff (rho M : List Pair) (r : Nat) :
    elimLoop rho (List.range r) M = none ↔
      ∃ i, i < r ∧ ∃ Mi, elimLoop rho (List.range i) M = some Mi ∧ rotAt rho i ∉ Mi := by
  induction r with
  | zero => simp [elimLoop]
  | succ k ih =>
    rw [List.range_succ, elimLoop_append]
    cases hk : elimLoop rho (List.range k) M with
    | none =>
      simp only [Option.bind_none, true_iff]
      obtain ⟨i, hi, h⟩ := ih.mp hk
      exact ⟨i, by omega, h⟩
    | some Mk =>
      have hno : ¬ ∃ i, i < k ∧ ∃ Mi, elimLoop rho (List.range i) M = some Mi ∧ rotAt rho i ∉ Mi :=
        fun h => by have := ih.mpr h; rw [hk] at this; exact absurd this (by simp)
      simp only [Option.bind_some, elimLoop]
      constructor
      · intro h
        refine ⟨k, by omega, Mk, hk, ?_⟩
        intro hmem
        rw [if_pos (List.contains_iff_mem.mpr hmem)] at h
        exact absurd h (by simp)
      · rintro ⟨i, hi, Mi, hMi, hnot⟩
        have hik : i = k := by
          by_contra hne
          exact hno ⟨i, by omega, Mi, hMi, hnot⟩
        subst hik
        rw [hk] at hMi
        obtain rfl := Option.some.inj hMi
        rw [if_neg (fun hc => hnot (List.contains_iff_mem.mp hc))]

/-- **failure characterisation**: eliminating `rho` raises (`none`) exactly when, for some index `i`, the pairs
`rho[0..i-1]` were processed successfully, giving `Mi`, and `rho[i]` is not in `Mi` -/
theorem eliminate_none_iff (M rho : List Pair) :
    eliminate M rho = none ↔
      ∃ i, i < rho.length ∧ ∃ Mi, elimLoop rho (List.range i) M = some Mi ∧ rotAt rho i ∉ Mi :=
  elimLoop_range_none_iff rho M rho.length

/-- total gain of a successfully eliminated sequence of rotations -/
theorem eliminateAll_value (V1 V2 : List (List Int)) :
    ∀ (rots : List (List Pair)) (M M' : List Pair), eliminateAll M rots = some M' →
      matchingValue V1 V2 M' = matchingValue V1 V2 M + (rots.map (rotationWeight V1 V2)).sum := by
  intro rots
  induction rots with
  | nil => intro M M' h; simp only [eliminateAll, Option.some.injEq] at h; subst h; simp
  | cons rho rest ih =>
    intro M M' h
    simp only [eliminateAll] at h
    split at h
    · exact absurd h (by simp)
    · rename_i M1 h1
      rw [ih _ _ h, eliminate_value V1 V2 M M1 rho h1, List.map_cons, List.sum_cons]; omega

/-- men stay in place and women are permuted along any successful sequence of eliminations -/
theorem eliminateAll_perm :
    ∀ (rots : List (List Pair)) (M M' : List Pair), eliminateAll M rots = some M' →
      M'.map Prod.fst = M.map Prod.fst ∧ (M'.map Prod.snd).Perm (M.map Prod.snd) := by
  intro rots
  induction rots with
  | nil => intro M M' h; simp only [eliminateAll, Option.some.injEq] at h; subst h; exact ⟨rfl, List.Perm.refl _⟩
  | cons rho rest ih =>
    intro M M' h
    simp only [eliminateAll] at h
    split at h
    · exact absurd h (by simp)
    · rename_i M1 h1
      obtain ⟨e1, e2⟩ := ih _ _ h
      exact ⟨e1.trans (eliminate_fst M M1 rho h1), e2.trans (eliminate_snd_perm M M1 rho h1)⟩

/-! ## Eliminating an exposed rotation preserves stability -/

/-- no blocking pair, for a matching given as a list of pairs -/
def StablePairs (P1 P2 : List (List Nat)) (M : List Pair) : Prop :=
  ∀ p ∈ M, ∀ q ∈ M, ¬ (rankOf P1 p.1 q.2 < rankOf P1 p.1 p.2 ∧ rankOf P2 q.2 p.1 < rankOf P2 q.2 q.1)

theorem stablePairsB_iff (P1 P2 : List (List Nat)) (M : List Pair) :
    stablePairsB P1 P2 M = true ↔ StablePairs P1 P2 M := by
  unfold stablePairsB StablePairs
  simp only [List.all_eq_true, Bool.not_eq_true', Bool.and_eq_false_iff, decide_eq_false_iff_not]
  constructor
  · intro h p hp q hq hb
    rcases h p hp q hq with h1 | h1
    · exact h1 hb.1
    · exact h1 hb.2
  · intro h p hp q hq
    by_cases h1 : rankOf P1 p.1 q.2 < rankOf P1 p.1 p.2
    · right; intro h2; exact h p hp q hq ⟨h1, h2⟩
    · left; exact h1

/-- `rho` is exposed in `M` (Prop form of `exposedB`) -/
def Exposed (P1 P2 : List (List Nat)) (M rho : List Pair) : Prop :=
  (rho.map Prod.fst).Nodup ∧ ∀ i, i < rho.length →
    rotAt rho i ∈ M ∧
    rankOf P2 (rotNew rho i).2 (rotAt rho i).1 < rankOf P2 (rotNew rho i).2 (rotAt rho ((i + 1) % rho.length)).1 ∧
    ∀ q ∈ M, ¬ (rankOf P1 (rotAt rho i).1 (rotAt rho i).2 < rankOf P1 (rotAt rho i).1 q.2 ∧
      rankOf P1 (rotAt rho i).1 q.2 < rankOf P1 (rotAt rho i).1 (rotNew rho i).2 ∧
      rankOf P2 q.2 (rotAt rho i).1 < rankOf P2 q.2 q.1)

theorem exposedB_iff (P1 P2 : List (List Nat)) (M rho : List Pair) :
    exposedB P1 P2 M rho = true ↔ Exposed P1 P2 M rho := by
  unfold exposedB Exposed
  simp only [Bool.and_eq_true, nodupB_iff, List.all_eq_true, List.mem_range, decide_eq_true_eq,
    List.contains_iff_mem, Bool.not_eq_true', Bool.and_eq_false_iff, decide_eq_false_iff_not]
  constructor
  · rintro ⟨hnd, h⟩
    refine ⟨hnd, fun i hi => ⟨(h i hi).1.1, (h i hi).1.2, fun q hq hb => ?_⟩⟩
    rcases (h i hi).2 q hq with (h1 | h1) | h1
    · exact h1 hb.1
    · exact h1 hb.2.1
    · exact h1 hb.2.2
  · rintro ⟨hnd, h⟩
    refine ⟨hnd, fun i hi => ⟨⟨(h i hi).1, (h i hi).2.1⟩, fun q hq => ?_⟩⟩
    have := (h i hi).2.2 q hq
    by_cases h1 : rankOf P1 (rotAt rho i).1 (rotAt rho i).2 < rankOf P1 (rotAt rho i).1 q.2
    · by_cases h2 : rankOf P1 (rotAt rho i).1 q.2 < rankOf P1 (rotAt rho i).1 (rotNew rho i).2
      · right; intro h3; exact this ⟨h1, h2, h3⟩
      · left; right; exact h2
    · left; left; exact h1

/-- every pair of the result is an old pair or one of the new pairs `(m_i, w_{i+1})` -/
theorem elimLoop_mem (rho : List Pair) :
    ∀ (is : List Nat) (M M' : List Pair), elimLoop rho is M = some M' →
      ∀ p ∈ M', p ∈ M ∨ ∃ i ∈ is, p = rotNew rho i := by
  intro is
  induction is with
  | nil => intro M M' h p hp; simp only [elimLoop, Option.some.injEq] at h; subst h; exact Or.inl hp
  | cons i is ih =>
    intro M M' h p hp
    obtain ⟨hidx, hget, h'⟩ := elimLoop_cons_some rho i is M M' h
    rcases ih _ _ h' p hp with h1 | ⟨k, hk, hpk⟩
    · rcases List.mem_or_eq_of_mem_set h1 with h2 | h2
      · exact Or.inl h2
      · exact Or.inr ⟨i, List.mem_cons_self, h2⟩
    · exact Or.inr ⟨k, List.mem_cons_of_mem _ hk, hpk⟩

theorem boundedB_iff (n : Nat) (M : List Pair) :
    boundedB n M = true ↔ ∀ p ∈ M, p.1 < n ∧ p.2 < n := by
  simp [boundedB, List.all_eq_true]

theorem injRowsB_iff (n : Nat) (P : List (List Nat)) :
    injRowsB n P = true ↔ ∀ b a a', b < n → a < n → a' < n → rankOf P b a = rankOf P b a' → a = a' := by
  unfold injRowsB
  simp only [allLt_iff, Bool.or_eq_true, beq_iff_eq, bne_iff_ne]
  constructor
  · intro h b a a' hb ha ha' he
    rcases h b hb a ha a' ha' with h1 | h1
    · exact h1
    · exact absurd he h1
  · intro h b hb a ha a' ha'
    by_cases he : a = a'
    · exact Or.inl he
    · exact Or.inr (fun h2 => he (h b a a' hb ha ha' h2))

/-- **Irving–Leather–Gusfield, Lemma 4.5 direction used by the algorithm**: eliminating a rotation that is exposed
in a stable matching (distinct women, strict men's preferences) yields a stable matching -/
theorem eliminate_stable (n : Nat) (P1 P2 : List (List Nat)) (M M' rho : List Pair)
    (hinj : injRowsB n P1 = true) (hbd : boundedB n M = true) (hW : (M.map Prod.snd).Nodup)
    (hst : StablePairs P1 P2 M) (hex : Exposed P1 P2 M rho) (h : eliminate M rho = some M') :
    StablePairs P1 P2 M' := by
  have hinj' := (injRowsB_iff n P1).mp hinj
  have hbd' := (boundedB_iff n M).mp hbd
  have hmem := elimLoop_mem rho _ M M' h
  have hr : ∀ i, i < rho.length → (i + 1) % rho.length < rho.length :=
    fun i hi => Nat.mod_lt _ (by omega)
  intro p hp q hq ⟨hb1, hb2⟩
  -- the original pair of the woman `q.2`
  have hW' : ∃ m'', (m'', q.2) ∈ M ∧ rankOf P2 q.2 q.1 ≤ rankOf P2 q.2 m'' := by
    rcases hmem q hq with h1 | ⟨i, hi, hqi⟩
    · exact ⟨q.1, h1, Nat.le_refl _⟩
    · have hi' := List.mem_range.mp hi
      have e := hex.2 i hi'
      have e' := hex.2 _ (hr i hi')
      refine ⟨(rotAt rho ((i + 1) % rho.length)).1, ?_, ?_⟩
      · rw [hqi]; exact e'.1
      · rw [hqi]; exact Nat.le_of_lt e.2.1
  obtain ⟨m'', hq', hle⟩ := hW'
  have hlt : rankOf P2 q.2 p.1 < rankOf P2 q.2 m'' := Nat.lt_of_lt_of_le hb2 hle
  rcases hmem p hp with h1 | ⟨i, hi, hpi⟩
  · exact hst p h1 (m'', q.2) hq' ⟨hb1, hlt⟩
  · have hi' := List.mem_range.mp hi
    obtain ⟨e1, _, e3⟩ := hex.2 i hi'
    have hp1 : p.1 = (rotAt rho i).1 := by rw [hpi]; rfl
    rw [hp1] at hb1 hlt
    rw [hpi] at hb1
    rcases Nat.lt_trichotomy (rankOf P1 (rotAt rho i).1 q.2) (rankOf P1 (rotAt rho i).1 (rotAt rho i).2)
      with hc | hc | hc
    · exact hst _ e1 (m'', q.2) hq' ⟨hc, hlt⟩
    · have hw : q.2 = (rotAt rho i).2 :=
        hinj' _ _ _ (hbd' _ e1).1 (hbd' _ hq').2 (hbd' _ e1).2 hc
      have heq : ((m'', q.2) : Pair) = rotAt rho i :=
        List.inj_on_of_nodup_map hW hq' e1 hw
      have hm : m'' = (rotAt rho i).1 := congrArg Prod.fst heq
      rw [hm] at hlt
      exact Nat.lt_irrefl _ hlt
    · exact e3 (m'', q.2) hq' ⟨hc, hb1, hlt⟩

/-- the whole sequence: if every rotation is exposed when its turn comes, `eliminate_rotations` does not raise and
returns a stable matching with the men in the same positions and the women permuted -/
theorem eliminateAll_stable (n : Nat) (P1 P2 : List (List Nat)) (hinj : injRowsB n P1 = true) :
    ∀ (rots : List (List Pair)) (M : List Pair), boundedB n M = true → (M.map Prod.snd).Nodup →
      StablePairs P1 P2 M → exposedAllB P1 P2 M rots = true →
      ∃ M', eliminateAll M rots = some M' ∧ StablePairs P1 P2 M' ∧
        M'.map Prod.fst = M.map Prod.fst ∧ (M'.map Prod.snd).Perm (M.map Prod.snd) := by
  intro rots
  induction rots with
  | nil => intro M _ _ hst _; exact ⟨M, rfl, hst, rfl, List.Perm.refl _⟩
  | cons rho rest ih =>
    intro M hbd hW hst hex
    simp only [exposedAllB, Bool.and_eq_true] at hex
    obtain ⟨hex1, hex2⟩ := hex
    split at hex2
    · exact absurd hex2 (by simp)
    · rename_i M1 h1
      have hfst := eliminate_fst M M1 rho h1
      have hsnd := eliminate_snd_perm M M1 rho h1
      have hst1 := eliminate_stable n P1 P2 M M1 rho hinj hbd hW hst ((exposedB_iff _ _ _ _).mp hex1) h1
      have hbd1 : boundedB n M1 = true := by
        rw [boundedB_iff] at hbd ⊢
        intro p hp
        constructor
        · have : p.1 ∈ M.map Prod.fst := hfst ▸ List.mem_map_of_mem hp
          obtain ⟨p', hp', e⟩ := List.mem_map.mp this
          rw [← e]; exact (hbd p' hp').1
        · have : p.2 ∈ M.map Prod.snd := hsnd.subset (List.mem_map_of_mem hp)
          obtain ⟨p', hp', e⟩ := List.mem_map.mp this
          rw [← e]; exact (hbd p' hp').2
      have hW1 : (M1.map Prod.snd).Nodup := hsnd.nodup_iff.mpr hW
      obtain ⟨M', hM', hst', e1, e2⟩ := ih M1 hbd1 hW1 hst1 hex2
      refine ⟨M', ?_, hst', e1.trans hfst, e2.trans hsnd⟩
      simp only [eliminateAll, h1]; exact hM'

/-- for a checked permutation, list-of-pairs stability of `pairsOf mu` is `StableSM` of the permutation -/
theorem stablePairs_pairsOf_iff (n : Nat) (P1 P2 : List (List Nat)) (mu inv : List Nat)
    (hp : isPermWith n mu inv = true) :
    StablePairs P1 P2 (pairsOf mu) ↔
      StableSM (fun a b : Fin n => rankOf P1 a b) (fun b a : Fin n => rankOf P2 b a) (permOfLists n mu inv hp) := by
  have hlen : mu.length = n := by
    simp only [isPermWith, Bool.and_eq_true, beq_iff_eq] at hp; exact hp.1.1.1
  have hmu : ∀ a : Fin n, ((permOfLists n mu inv hp) a : Nat) = mu.getD a n := fun _ => rfl
  have hmem : ∀ p : Pair, p ∈ pairsOf mu ↔ ∃ a : Fin n, p = ((a : Nat), ((permOfLists n mu inv hp) a : Nat)) := by
    intro p
    unfold pairsOf
    rw [hlen]
    simp only [List.mem_map, List.mem_range]
    constructor
    · rintro ⟨a, ha, rfl⟩; exact ⟨⟨a, ha⟩, rfl⟩
    · rintro ⟨a, rfl⟩; exact ⟨a, a.2, rfl⟩
  constructor
  · intro hst a b hb
    have h := hst _ ((hmem _).mpr ⟨a, rfl⟩) _ ((hmem _).mpr ⟨(permOfLists n mu inv hp).symm b, rfl⟩)
    simp only [Equiv.apply_symm_apply] at h
    exact h hb
  · intro hst p hp' q hq hb
    obtain ⟨a, rfl⟩ := (hmem p).mp hp'
    obtain ⟨a', rfl⟩ := (hmem q).mp hq
    have h := hst a ((permOfLists n mu inv hp) a')
    simp only [Equiv.symm_apply_apply] at h
    exact h hb

/-! ## Predecessor closure (`find_maximum_weight_closed_subset`, last loop) -/

/-- `T` is closed under predecessors in `P'` -/
def ClosedUnder (succs : List (List Nat)) (T : List Nat) : Prop :=
  ∀ rho, (∃ x ∈ succs.getD rho [], x ∈ T) → rho ∈ T

/-- number of keys `< k` not yet in `S` -/
def missing (k : Nat) (S : List Nat) : Nat := ((Finset.range k).filter (fun x => x ∉ S)).card

theorem missing_le (k : Nat) (S : List Nat) : missing k S ≤ k := by
  unfold missing
  calc _ ≤ (Finset.range k).card := Finset.card_filter_le _ _
    _ = k := Finset.card_range k

theorem missing_mono (k : Nat) (S S' : List Nat) (h : ∀ x ∈ S, x ∈ S') : missing k S' ≤ missing k S := by
  unfold missing
  apply Finset.card_le_card
  intro x hx
  simp only [Finset.mem_filter] at hx ⊢
  exact ⟨hx.1, fun hS => hx.2 (h x hS)⟩

theorem missing_lt (k : Nat) (S S' : List Nat) (h : ∀ x ∈ S, x ∈ S') (rho : Nat) (hk : rho < k)
    (h1 : rho ∉ S) (h2 : rho ∈ S') : missing k S' < missing k S := by
  unfold missing
  apply Finset.card_lt_card
  rw [Finset.ssubset_iff_of_subset]
  · exact ⟨rho, by simp [hk, h1], by simp [h2]⟩
  · intro x hx
    simp only [Finset.mem_filter] at hx ⊢
    exact ⟨hx.1, fun hS => hx.2 (h x hS)⟩

theorem closurePass_spec (succs : List (List Nat)) :
    ∀ (keys S : List Nat) (ch : Bool),
      (∀ x ∈ S, x ∈ (closurePass succs keys S ch).1) ∧
      (∀ T, (∀ x ∈ S, x ∈ T) → ClosedUnder succs T → ∀ x ∈ (closurePass succs keys S ch).1, x ∈ T) ∧
      ((closurePass succs keys S ch).2 = false → ch = false ∧ (closurePass succs keys S ch).1 = S ∧
        ∀ rho ∈ keys, rho ∉ S → ¬ ∃ x ∈ succs.getD rho [], x ∈ S) ∧
      ((closurePass succs keys S ch).2 = true → ch = true ∨
        ∃ rho ∈ keys, rho ∉ S ∧ rho ∈ (closurePass succs keys S ch).1) := by
  intro keys
  induction keys with
  | nil =>
    intro S ch
    refine ⟨fun x hx => hx, fun T hT _ x hx => hT x hx, fun h => ⟨h, rfl, ?_⟩, fun h => Or.inl h⟩
    intro rho hr; simp at hr
  | cons rho keys ih =>
    intro S ch
    simp only [closurePass]
    split
    · rename_i hc
      have hmem : rho ∈ S := List.contains_iff_mem.mp hc
      obtain ⟨a, b, c, d⟩ := ih S ch
      refine ⟨a, b, fun h => ?_, fun h => ?_⟩
      · obtain ⟨c1, c2, c3⟩ := c h
        refine ⟨c1, c2, fun r hr hrS => ?_⟩
        rcases List.mem_cons.mp hr with rfl | hr'
        · exact absurd hmem hrS
        · exact c3 r hr' hrS
      · rcases d h with d1 | ⟨r, hr, hr1, hr2⟩
        · exact Or.inl d1
        · exact Or.inr ⟨r, List.mem_cons_of_mem _ hr, hr1, hr2⟩
    · rename_i hc
      have hnmem : rho ∉ S := fun hm => hc (List.contains_iff_mem.mpr hm)
      split
      · rename_i hany
        obtain ⟨x, hx, hxS⟩ := List.any_eq_true.mp hany
        have hxS' : x ∈ S := List.contains_iff_mem.mp hxS
        obtain ⟨a, b, c, d⟩ := ih (rho :: S) true
        refine ⟨fun y hy => a y (List.mem_cons_of_mem _ hy), fun T hT hcl y hy => ?_, fun h => ?_, fun _ => ?_⟩
        · refine b T (fun z hz => ?_) hcl y hy
          rcases List.mem_cons.mp hz with rfl | hz'
          · exact hcl _ ⟨x, hx, hT x hxS'⟩
          · exact hT z hz'
        · exact absurd (c h).1 (by simp)
        · exact Or.inr ⟨rho, List.mem_cons_self, hnmem, a rho List.mem_cons_self⟩
      · rename_i hany
        obtain ⟨a, b, c, d⟩ := ih S ch
        refine ⟨a, b, fun h => ?_, fun h => ?_⟩
        · obtain ⟨c1, c2, c3⟩ := c h
          refine ⟨c1, c2, fun r hr hrS => ?_⟩
          rcases List.mem_cons.mp hr with rfl | hr'
          · rintro ⟨x, hx, hxS⟩
            exact hany (List.any_eq_true.mpr ⟨x, hx, List.contains_iff_mem.mpr hxS⟩)
          · exact c3 r hr' hrS
        · rcases d h with d1 | ⟨r, hr, hr1, hr2⟩
          · exact Or.inl d1
          · exact Or.inr ⟨r, List.mem_cons_of_mem _ hr, hr1, hr2⟩

theorem closureLoop_spec (succs : List (List Nat)) :
    ∀ (fuel : Nat) (S : List Nat),
      (∀ x ∈ S, x ∈ closureLoop succs fuel S) ∧
      (∀ T, (∀ x ∈ S, x ∈ T) → ClosedUnder succs T → ∀ x ∈ closureLoop succs fuel S, x ∈ T) ∧
      (missing succs.length S < fuel → ClosedUnder succs (closureLoop succs fuel S)) := by
  intro fuel
  induction fuel with
  | zero =>
    intro S
    exact ⟨fun x hx => hx, fun T hT _ x hx => hT x hx, fun h => absurd h (by omega)⟩
  | succ fuel ih =>
    intro S
    obtain ⟨a, b, c, d⟩ := closurePass_spec succs (List.range succs.length) S false
    simp only [closureLoop]
    split
    · rename_i hch
      obtain ⟨a', b', c'⟩ := ih (closurePass succs (List.range succs.length) S false).1
      refine ⟨fun x hx => a' x (a x hx), fun T hT hcl x hx => b' T (fun z hz => b T hT hcl z hz) hcl x hx,
        fun hm => c' ?_⟩
      rcases d hch with d1 | ⟨rho, hr, hr1, hr2⟩
      · exact absurd d1 (by simp)
      · have := missing_lt succs.length S _ a rho (List.mem_range.mp hr) hr1 hr2
        omega
    · rename_i hch
      have hch' : (closurePass succs (List.range succs.length) S false).2 = false := by
        simpa using hch
      obtain ⟨_, c2, c3⟩ := c hch'
      refine ⟨a, b, fun _ => ?_⟩
      rw [c2]
      intro rho hex
      by_contra hrS
      by_cases hk : rho < succs.length
      · exact c3 rho (List.mem_range.mpr hk) hrS hex
      · obtain ⟨x, hx, _⟩ := hex
        rw [List.getD_eq_getElem?_getD, List.getElem?_eq_none (by omega)] at hx
        simp at hx

/-- **closure step**: the result contains `S`, is closed under predecessors in `P'`, and is contained in every
closed superset of `S` (so it is exactly the predecessor closure, whatever the iteration order) -/
theorem closureOf_spec (succs : List (List Nat)) (S : List Nat) :
    (∀ x ∈ S, x ∈ closureOf succs S) ∧ ClosedUnder succs (closureOf succs S) ∧
    (∀ T, (∀ x ∈ S, x ∈ T) → ClosedUnder succs T → ∀ x ∈ closureOf succs S, x ∈ T) := by
  obtain ⟨a, b, c⟩ := closureLoop_spec succs (succs.length + 1) S
  exact ⟨a, c (by have := missing_le succs.length S; omega), b⟩

end Irving

#print axioms Irving.eliminate_value
#print axioms Irving.eliminate_perm
#print axioms Irving.eliminate_none_iff
#print axioms Irving.eliminate_stable
#print axioms Irving.eliminateAll_stable
#print axioms Irving.closureOf_spec
