import Sck.Proofs.Eat9

/-! C05: sd-envy-freeness of the returned matrix, threshold form and prefix form. -/

open Finset

namespace Eat

variable {n : Nat} {P : List (List Nat)} {speeds : List Rat}

theorem eat_eq_some_iff {X : List (List Rat)} :
    eat n P speeds = some X ↔ ∃ log, eatLog n P speeds = some (X, log) := by
  unfold eat
  cases h : eatLog n P speeds with
  | none => simp
  | some r =>
    obtain ⟨M, l⟩ := r
    simp

/-- threshold form: upper contour sets `{j | rank_i j ≤ r}` of agent `i`'s own ranking -/
theorem eat_sd_envy_free (hwf : EatWf n P speeds) (c : ℚ) (hc : ∀ s ∈ speeds, s = c)
    {X : List (List Rat)} (h : eat n P speeds = some X)
    (i k : Nat) (hi : i < n) (hk : k < n) (r : Nat) :
    ∑ j ∈ (range n).filter (fun j => rk P i j ≤ r), mget X k j ≤
      ∑ j ∈ (range n).filter (fun j => rk P i j ≤ r), mget X i j := by
  obtain ⟨log, hlog⟩ := eat_eq_some_iff.mp h
  obtain ⟨_, _, _, _, hamt, htr⟩ := eatLog_spec hwf hlog
  have hsp : ∀ a < n, spd speeds a = c := by
    intro a ha
    have ha' : a < speeds.length := by rw [hwf.slen]; exact ha
    have : spd speeds a = speeds[a] := by simp [spd, ha']
    rw [this]
    exact hc _ (List.getElem_mem ha')
  have hc0 : 0 ≤ c := by
    have := spd_pos_of_wf hwf i hi
    rw [hsp i hi] at this
    exact le_of_lt this
  have := sd_of_trace c hc0 hsp i k hi hk r log (fun _ _ => 0) htr rfl (le_refl _)
  simp only [zero_add] at this
  have e1 : ∑ j ∈ (range n).filter (fun j => rk P i j ≤ r), mget X k j =
      ∑ j ∈ (range n).filter (fun j => rk P i j ≤ r), amt speeds log k j :=
    Finset.sum_congr rfl (fun j hj =>
      hamt k hk j (Finset.mem_range.mp (Finset.mem_filter.mp hj).1))
  have e2 : ∑ j ∈ (range n).filter (fun j => rk P i j ≤ r), mget X i j =
      ∑ j ∈ (range n).filter (fun j => rk P i j ≤ r), amt speeds log i j :=
    Finset.sum_congr rfl (fun j hj =>
      hamt i hi j (Finset.mem_range.mp (Finset.mem_filter.mp hj).1))
  rw [e1, e2]
  exact this

theorem getElem?_getD_of_lt (l : List Nat) (k : Nat) (h : k < l.length) :
    l[k]? = some (l.getD k 0) := by
  rw [List.getD_eq_getElem?_getD, List.getElem?_eq_getElem h]; rfl

/-- a non-empty prefix of `ranked_items[i]` is an upper contour set -/
theorem take_toFinset_eq {ranked : List (List Nat)} (hr : RankedOK n ranked) (hb : BestOK n P ranked)
    (i : Nat) (hi : i < n) (m : Nat) (hm : 0 < m) (hmn : m ≤ n) :
    ((ranked.getD i []).take m).toFinset =
      (range n).filter (fun j => rk P i j ≤ rk P i ((ranked.getD i []).getD (m - 1) 0)) := by
  have hlen := hr.len i hi
  have hml : m - 1 < (ranked.getD i []).length := by omega
  have hlast : (ranked.getD i [])[m - 1]? = some ((ranked.getD i []).getD (m - 1) 0) :=
    getElem?_getD_of_lt _ _ hml
  ext j
  rw [List.mem_toFinset, Finset.mem_filter, Finset.mem_range, List.mem_take_iff_getElem]
  constructor
  · rintro ⟨q, hq, hqe⟩
    have hql : q < (ranked.getD i []).length := by omega
    have hq' : (ranked.getD i [])[q]? = some j := by rw [List.getElem?_eq_getElem hql, hqe]
    refine ⟨(hr.mem i hi j).mp (hqe ▸ List.getElem_mem hql), ?_⟩
    have := hb i hi q (m - 1) j _ hq' hlast
    by_contra hgt
    have : m - 1 < q := this.mpr (by omega)
    omega
  · rintro ⟨hj, hle⟩
    obtain ⟨q, hql, hqe⟩ := List.getElem_of_mem ((hr.mem i hi j).mpr hj)
    have hq' : (ranked.getD i [])[q]? = some j := by rw [List.getElem?_eq_getElem hql, hqe]
    have := hb i hi q (m - 1) j _ hq' hlast
    have hnot : ¬ m - 1 < q := fun hc => by have := this.mp hc; omega
    exact ⟨q, by omega, hqe⟩

/-- prefix form: every prefix `T` of agent `i`'s ranking -/
theorem eat_sd_envy_free_prefix (hwf : EatWf n P speeds) (c : ℚ) (hc : ∀ s ∈ speeds, s = c)
    {X : List (List Rat)} (h : eat n P speeds = some X)
    (i k : Nat) (hi : i < n) (hk : k < n) (m : Nat) :
    (((rankedOf (P.getD i [])).take m).map (fun j => mget X k j)).sum ≤
      (((rankedOf (P.getD i [])).take m).map (fun j => mget X i j)).sum := by
  have hr := rankedOK_of_wf hwf
  have hb := bestOK_of_wf hwf
  have hi' : i < P.length := by rw [hwf.plen]; exact hi
  have hrow : (P.map rankedOf).getD i [] = rankedOf (P.getD i []) := by simp [hi']
  have hnd : (rankedOf (P.getD i [])).Nodup := plistOfRow_nodup _
  have hlen : (rankedOf (P.getD i [])).length = n := by rw [← hrow]; exact hr.len i hi
  -- reduce to `m ≤ n`
  have main : ∀ m, m ≤ n →
      (((rankedOf (P.getD i [])).take m).map (fun j => mget X k j)).sum ≤
        (((rankedOf (P.getD i [])).take m).map (fun j => mget X i j)).sum := by
    intro m hmn
    rcases Nat.eq_zero_or_pos m with hm | hm
    · subst hm; simp
    · have hndT : ((rankedOf (P.getD i [])).take m).Nodup :=
        List.Nodup.sublist (List.take_sublist _ _) hnd
      rw [← List.sum_toFinset _ hndT, ← List.sum_toFinset _ hndT]
      have := take_toFinset_eq hr hb i hi m hm hmn
      rw [hrow] at this
      rw [this]
      exact eat_sd_envy_free hwf c hc h i k hi hk _
  by_cases hmn : m ≤ n
  · exact main m hmn
  · have e : (rankedOf (P.getD i [])).take m = (rankedOf (P.getD i [])).take n := by
      rw [List.take_of_length_le (by omega), List.take_of_length_le (by omega)]
    rw [e]
    exact main n (le_refl _)

end Eat
