import Sck.Proofs.Eat8

/-! C05: consequences of the trace property (prefix form, sd-envy-freeness of probabilistic serial)
and the top-level statements about `eat` / `eatLog`. -/

open Finset

namespace Eat

variable {n : Nat} {P : List (List Nat)} {speeds : List Rat}

/-! ### prefix form of the trace property -/

theorem TraceFrom.take (evs : List Event) : ∀ {X : Nat → Nat → ℚ}, TraceFrom n P speeds X evs →
    ∀ k (hk : k < evs.length),
      EventOK n P speeds (fun i j => X i j + amt speeds (evs.take k) i j) evs[k] := by
  induction evs with
  | nil => intro X _ k hk; simp at hk
  | cons ev evs ih =>
    intro X h k hk
    cases k with
    | zero =>
      have : (fun i j => X i j + amt speeds ((ev :: evs).take 0) i j) = X := by
        funext i j; simp [amt]
      rw [this]
      exact h.1
    | succ k =>
      have hk' : k < evs.length := by simpa using hk
      have := ih h.2 k hk'
      have he : (fun i j => X i j + amt speeds ((ev :: evs).take (k + 1)) i j) =
          (fun i j => X i j + evAmt speeds ev i j + amt speeds (evs.take k) i j) := by
        funext i j
        rw [List.take_succ_cons, amt_cons, add_assoc]
      rw [he]
      simpa using this

theorem TraceFrom.rows (evs : List Event) : ∀ {X : Nat → Nat → ℚ}, TraceFrom n P speeds X evs →
    ∀ i < n, ∑ j ∈ range n, (X i j + amt speeds evs i j) = 1 := by
  induction evs with
  | nil =>
    intro X h i hi
    simp only [amt_nil, add_zero]
    exact h i hi
  | cons ev evs ih =>
    intro X h i hi
    have := ih h.2 i hi
    simp only [amt_cons, ← add_assoc]
    exact this

/-! ### sums of one event -/

theorem sum_evAmt_some (s : Finset Nat) (ev : Event) (i j0 : Nat) (h : lk ev.cur i = some j0) :
    ∑ j ∈ s, evAmt speeds ev i j = if j0 ∈ s then ev.t * spd speeds i else 0 := by
  unfold evAmt
  simp only [h, Option.some.injEq]
  exact Finset.sum_ite_eq s j0 _

theorem sum_evAmt_none (s : Finset Nat) (ev : Event) (i : Nat) (h : lk ev.cur i = none) :
    ∑ j ∈ s, evAmt speeds ev i j = 0 := by
  unfold evAmt
  simp [h]

/-! ### equal speeds: sd-envy-freeness -/

/-- With equal speeds, along any trace: if agents `i` and `k` have eaten the same total amount and `i` is
ahead of `k` on the upper contour set `{j | rank_i j ≤ r}`, this remains so. -/
theorem sd_of_trace (c : ℚ) (hc0 : 0 ≤ c) (hc : ∀ i < n, spd speeds i = c)
    (i k : Nat) (hi : i < n) (hk : k < n) (r : Nat) (evs : List Event) :
    ∀ X : Nat → Nat → ℚ, TraceFrom n P speeds X evs →
      ∑ j ∈ range n, X i j = ∑ j ∈ range n, X k j →
      ∑ j ∈ (range n).filter (fun j => rk P i j ≤ r), X k j ≤
        ∑ j ∈ (range n).filter (fun j => rk P i j ≤ r), X i j →
      ∑ j ∈ (range n).filter (fun j => rk P i j ≤ r), (X k j + amt speeds evs k j) ≤
        ∑ j ∈ (range n).filter (fun j => rk P i j ≤ r), (X i j + amt speeds evs i j) := by
  induction evs with
  | nil =>
    intro X _ _ hD
    simpa [amt_nil] using hD
  | cons ev evs ih =>
    intro X h heq hD
    obtain ⟨hev, htr⟩ := h
    have key : (∑ j ∈ range n, evAmt speeds ev i j = ∑ j ∈ range n, evAmt speeds ev k j) ∧
        (∑ j ∈ (range n).filter (fun j => rk P i j ≤ r), evAmt speeds ev k j ≤
          ∑ j ∈ (range n).filter (fun j => rk P i j ≤ r), evAmt speeds ev i j) := by
      by_cases hlt : ∑ j ∈ range n, X i j < 1
      · obtain ⟨ji, hji, hci, _, hbest, _⟩ := hev.hungry i hi hlt
        obtain ⟨jk, hjk, hck, hremk, _, _⟩ := hev.hungry k hk (by rw [← heq]; exact hlt)
        have htc : 0 ≤ ev.t * c := mul_nonneg hev.t_nonneg hc0
        constructor
        · rw [sum_evAmt_some _ ev i ji hci, sum_evAmt_some _ ev k jk hck,
            if_pos (Finset.mem_range.mpr hji), if_pos (Finset.mem_range.mpr hjk), hc i hi, hc k hk]
        · rw [sum_evAmt_some _ ev i ji hci, sum_evAmt_some _ ev k jk hck, hc i hi, hc k hk]
          by_cases hkT : jk ∈ (range n).filter (fun j => rk P i j ≤ r)
          · have hiT : ji ∈ (range n).filter (fun j => rk P i j ≤ r) := by
              rw [Finset.mem_filter] at hkT ⊢
              refine ⟨Finset.mem_range.mpr hji, ?_⟩
              by_contra hgt
              have hlt' : rk P i jk < rk P i ji := by omega
              have := hbest jk hjk hlt'
              rw [this] at hremk
              exact lt_irrefl _ hremk
            rw [if_pos hkT, if_pos hiT]
          · rw [if_neg hkT]
            split
            · exact htc
            · exact le_refl _
      · have hnk : ¬ ∑ j ∈ range n, X k j < 1 := by rw [← heq]; exact hlt
        have hci := hev.full i hi hlt
        have hck := hev.full k hk hnk
        constructor
        · rw [sum_evAmt_none _ ev i hci, sum_evAmt_none _ ev k hck]
        · rw [sum_evAmt_none _ ev i hci, sum_evAmt_none _ ev k hck]
    have := ih (fun a b => X a b + evAmt speeds ev a b) htr
      (by simp only [Finset.sum_add_distrib]; rw [heq, key.1])
      (by simp only [Finset.sum_add_distrib]; linarith [key.2])
    simp only [amt_cons, ← add_assoc]
    exact this

/-! ### reachable states -/

/-- states visited by the loop -/
inductive Reach (n : Nat) (ranked : List (List Nat)) (speeds : List Rat) : State → Prop
  | init : Reach n ranked speeds (init n)
  | next (st : State) (ev : Event) (st' : State) : Reach n ranked speeds st → exitNow st = false →
      step n ranked speeds st = some (ev, st') → Reach n ranked speeds st'

/-- **B1** one executed iteration: it does not raise, it is the abstract `advance` by an `Admissible`
step, and the concrete invariant is preserved -/
theorem step_refines {ranked : List (List Nat)} (hr : RankedOK n ranked)
    (hs : ∀ i < n, 0 < spd speeds i) {st : State} (h : CI n ranked st) (hx : exitNow st = false) :
    ∃ ev st', step n ranked speeds st = some (ev, st') ∧
      Admissible (order n ranked) (sF n speeds) (absSt n st) ev.t ∧
      absSt n st' = advance (order n ranked) (sF n speeds) (absSt n st) ev.t ∧
      CI n ranked st' ∧ mu n st' < mu n st := by
  obtain ⟨t, ht, ha, hw⟩ := stepTime_spec hs h hx
  exact ⟨mkEvent n ranked st t, applyT n ranked speeds st t, step_eq_some ht,
    admissible_of_admC hr h t ha, applyT_abs hr h hx t ha, applyT_CI hr hs h hx t ha,
    mu_applyT_lt t hw⟩

theorem Reach.ci {ranked : List (List Nat)} (hr : RankedOK n ranked)
    (hs : ∀ i < n, 0 < spd speeds i) {st : State} (h : Reach n ranked speeds st) : CI n ranked st := by
  induction h with
  | init => exact init_CI hr
  | next st ev st' _ hx hstep ih =>
    obtain ⟨ev2, st2, h2, _, _, hci, _⟩ := step_refines hr hs ih hx
    rw [hstep] at h2
    cases h2
    exact hci

/-! ### top level -/

theorem eatLog_run (hwf : EatWf n P speeds) :
    ∃ evs stf, eatLog n P speeds = some (stf.mat, evs) ∧
      Run n (P.map rankedOf) speeds (init n) evs stf :=
  eatLoop_run (rankedOK_of_wf hwf) (spd_pos_of_wf hwf) (2 * n + 1) (init n)
    (init_CI (rankedOK_of_wf hwf)) (mu_init_le n)

theorem mget_init (i j : Nat) (hi : i < n) (hj : j < n) : mget (init n).mat i j = 0 :=
  mget_mk n (fun _ _ => (0 : Rat)) i j hi hj

/-- everything we know about a successful run -/
theorem eatLog_spec (hwf : EatWf n P speeds) {X : List (List Rat)} {log : List Event}
    (h : eatLog n P speeds = some (X, log)) :
    (X = (List.range n).map (fun i => (List.range n).map (fun j => mget X i j))) ∧
    (∀ i < n, ∀ j < n, 0 ≤ mget X i j) ∧
    (∀ i < n, ∑ j ∈ range n, mget X i j = 1) ∧
    (∀ j < n, ∑ i ∈ range n, mget X i j = 1) ∧
    (∀ i < n, ∀ j < n, mget X i j = amt speeds log i j) ∧
    TraceFrom n P speeds (fun _ _ => 0) log := by
  obtain ⟨evs, stf, he, hrun⟩ := eatLog_run hwf
  rw [he] at h
  cases h
  have hr := rankedOK_of_wf hwf
  obtain ⟨hci, hx⟩ := hrun.final
  obtain ⟨h1, h2⟩ := final_sums hr hci hx
  obtain ⟨ht1, ht2⟩ := hrun.trace hr (bestOK_of_wf hwf) (spd_pos_of_wf hwf)
  refine ⟨hci.dims, ?_, h1, h2, ?_, ?_⟩
  · intro i hi j hj
    exact hci.inv.X_nonneg ⟨i, hi⟩ ⟨j, hj⟩
  · intro i hi j hj
    rw [ht2 i hi j hj, mget_init i j hi hj, zero_add]
  · exact TraceFrom_congr log (fun i hi j hj => mget_init i j hi hj) ht1

end Eat
