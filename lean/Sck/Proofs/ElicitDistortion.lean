import Sck.Proofs.ElicitSim
import Sck.Proofs.Distortion
import Mathlib.Data.Finset.Max
import Mathlib.Data.Fintype.Perm

/-! C16: the per-entry bound `v ≤ ρ·ṽ + (ρ/m)·v*` from the threshold structure found by `simulate`, and the
end-to-end distortion theorems in which the simulated matrix is *what `simulate` returns*. -/

namespace Elicit

/-- consecutive entries grow at most by the factor `ρ` -/
def chainOK (ρ : ℚ) : List ℚ → Prop
  | a :: b :: rest => b ≤ ρ * a ∧ chainOK ρ (b :: rest)
  | _ => True

/-- the thresholds `1 = λ_0, λ_1, …, λ_k, λ_{k+1} = m` grow at most by the factor `ρ` per step
(for `λ_l = m^(l/(k+1))` this holds with `ρ = m^(1/(k+1))`, see `rpow_thresholds`) -/
def RatioChain (m : Nat) (lams : List ℚ) (ρ : ℚ) : Prop := chainOK ρ (1 :: (lams ++ [(m : ℚ)]))

theorem chainOK_decomp (ρ : ℚ) (a b : ℚ) (post : List ℚ) :
    ∀ (pre : List ℚ), chainOK ρ (pre ++ a :: b :: post) → b ≤ ρ * a := by
  intro pre
  induction pre with
  | nil => intro h; exact h.1
  | cons x pre ih =>
    intro h
    cases pre with
    | nil => exact (h.2).1
    | cons y pre' => exact ih h.2

/-- the chain forces `ρ ≥ 1` -/
theorem ratioChain_one_le (m : Nat) (lams : List ℚ) (ρ : ℚ) (hm : 0 < m) (hge : ∀ lam ∈ lams, 1 ≤ lam)
    (hchain : RatioChain m lams ρ) : 1 ≤ ρ := by
  unfold RatioChain at hchain
  cases hl : lams with
  | nil =>
    rw [hl] at hchain
    have : (m : ℚ) ≤ ρ * 1 := hchain.1
    have hm1 : (1 : ℚ) ≤ m := by exact_mod_cast hm
    linarith
  | cons x xs =>
    rw [hl] at hchain
    have : x ≤ ρ * 1 := hchain.1
    have := hge x (by simp [hl])
    linarith

/-- last element of `1 :: pre`: the threshold processed just before the current one (`λ_0 = 1`) -/
def lastOr1 (pre : List ℚ) : ℚ := (1 :: pre).getLast (by simp)

theorem lastOr1_split (pre : List ℚ) : (1 : ℚ) :: pre = (1 :: pre).dropLast ++ [lastOr1 pre] :=
  (List.dropLast_concat_getLast (by simp)).symm

theorem lastOr1_mem (pre : List ℚ) : lastOr1 pre = 1 ∧ pre = [] ∨ lastOr1 pre ∈ pre := by
  cases pre with
  | nil => left; exact ⟨rfl, rfl⟩
  | cons x xs =>
    right
    unfold lastOr1
    rw [List.getLast_cons (by simp)]
    exact List.getLast_mem _

section
variable (floor : ℚ) (vals : Nat → ℚ) (m : Nat) (lams : List ℚ) (h : SimWF vals m lams)
include h

theorem lastOr1_pos (pre : List ℚ) (hsub : ∀ l ∈ pre, l ∈ lams) : 0 < lastOr1 pre := by
  rcases lastOr1_mem pre with ⟨h1, _⟩ | hm
  · rw [h1]; exact one_pos
  · have := h.ge_one _ (hsub _ hm); linarith

/-- a position beyond the cuts of all thresholds in `pre` has true value at most `v / (last of 1::pre)` -/
theorem upper_of_beyond (pre : List ℚ) (hsub : ∀ l ∈ pre, l ∈ lams) (q : Nat) (hqm : q < m)
    (hb : ∀ lam' ∈ pre, cut vals m lam' < q) : vals q ≤ vals 0 / lastOr1 pre := by
  rcases lastOr1_mem pre with ⟨h1, _⟩ | hm
  · rw [h1, div_one]; exact h.anti 0 q (Nat.zero_le _) hqm
  · have hl := hsub _ hm
    exact le_of_lt ((cut_spec vals m _ h.mpos h.anti h.nonneg (h.ge_one _ hl)).2.2 q (hb _ hm) hqm)

/-- C16, one agent: the bound `hbound` of the abstract distortion theorems, derived from what `simulate`
computes and the ratio condition on the thresholds -/
theorem sim_entry_bound (hfl : 0 ≤ floor) (ρ : ℚ) (hchain : RatioChain m lams ρ)
    (sim : Nat → ℚ) (hsim : simulate floor vals m lams = some sim) :
    ∀ q, q < m → vals q ≤ ρ * sim q + ρ / m * vals 0 := by
  have hmq : (0 : ℚ) < m := by exact_mod_cast h.mpos
  have hρ1 : 1 ≤ ρ := ratioChain_one_le m lams ρ h.mpos h.ge_one hchain
  have hρ0 : 0 ≤ ρ := by linarith
  intro q hqm
  by_cases hq : 0 < q
  · rcases inSet_or_outside vals m lams q with ⟨pre, lam, post, hl, hin⟩ | hout
    · rw [sim_set_value floor vals m lams h sim hsim pre lam post hl q hq hin]
      have hsub : ∀ l ∈ pre, l ∈ lams := fun l hl' => by simp [hl, hl']
      have hlam : 1 ≤ lam := h.ge_one lam (by simp [hl])
      have hratio : lam ≤ ρ * lastOr1 pre := by
        apply chainOK_decomp ρ (lastOr1 pre) lam (post ++ [(m : ℚ)]) ((1 :: pre).dropLast)
        have : (1 : ℚ) :: (lams ++ [(m : ℚ)]) =
            (1 :: pre).dropLast ++ lastOr1 pre :: lam :: (post ++ [(m : ℚ)]) := by
          rw [hl]
          calc (1 : ℚ) :: (pre ++ lam :: post ++ [(m : ℚ)])
              = ((1 : ℚ) :: pre) ++ lam :: (post ++ [(m : ℚ)]) := by simp
            _ = ((1 :: pre).dropLast ++ [lastOr1 pre]) ++ lam :: (post ++ [(m : ℚ)]) := by
                rw [← lastOr1_split]
            _ = _ := by simp
        rw [← this]; exact hchain
      exact entry_bound (vals 0) (vals q) (lastOr1 pre) lam ρ m (lastOr1_pos vals m lams h pre hsub)
        (by linarith) hratio h.nonneg hρ0 (upper_of_beyond vals m lams h pre hsub q hqm hin.2)
    · rw [sim_outside_value floor vals m lams h sim hsim q hq hout]
      have hratio : (m : ℚ) ≤ ρ * lastOr1 lams := by
        apply chainOK_decomp ρ (lastOr1 lams) (m : ℚ) [] ((1 :: lams).dropLast)
        have : (1 : ℚ) :: (lams ++ [(m : ℚ)]) = (1 :: lams).dropLast ++ lastOr1 lams :: (m : ℚ) :: [] := by
          calc (1 : ℚ) :: (lams ++ [(m : ℚ)]) = ((1 : ℚ) :: lams) ++ [(m : ℚ)] := by simp
            _ = ((1 :: lams).dropLast ++ [lastOr1 lams]) ++ [(m : ℚ)] := by rw [← lastOr1_split]
            _ = _ := by simp
        rw [← this]; exact hchain
      have hb := entry_bound_outside (vals 0) (vals q) (lastOr1 lams) ρ m h.mpos
        (lastOr1_pos vals m lams h lams (fun _ hl => hl)) hratio h.nonneg hρ0
        (upper_of_beyond vals m lams h lams (fun _ hl => hl) q hqm hout)
      have : 0 ≤ ρ * floor := mul_nonneg hρ0 hfl
      linarith
  · have : q = 0 := by omega
    subst this
    rw [sim_favourite floor vals m lams h sim hsim]
    have h1 : vals 0 ≤ ρ * vals 0 := le_mul_of_one_le_left h.nonneg hρ1
    have h2 : 0 ≤ ρ / m * vals 0 := mul_nonneg (div_nonneg hρ0 (le_of_lt hmq)) h.nonneg
    linarith

end


/-! ### end-to-end: value matrices whose rows, read along each agent's ranking, are simulated by `simulate` -/

section EndToEnd
open Finset
variable {n m : ℕ}

/-- true values of agent `i` read along its ranking; `pos i j` = position of alternative `j` in the
ranking of agent `i` (0 = favourite) -/
def posVals (v : Fin n → Fin m → ℚ) (pos : Fin n → Fin m ≃ Fin m) (i : Fin n) : Nat → ℚ :=
  fun q => if hq : q < m then v i ((pos i).symm ⟨q, hq⟩) else 0

theorem posVals_pos (v : Fin n → Fin m → ℚ) (pos : Fin n → Fin m ≃ Fin m) (i : Fin n) (j : Fin m) :
    posVals v pos i (pos i j : ℕ) = v i j := by
  unfold posVals
  rw [dif_pos (pos i j).isLt]
  simp

theorem posVals_zero (hm : 0 < m) (v : Fin n → Fin m → ℚ) (pos : Fin n → Fin m ≃ Fin m) (i : Fin n) :
    posVals v pos i 0 = v i ((pos i).symm ⟨0, hm⟩) := by
  unfold posVals
  rw [dif_pos hm]

/-- a non-negative valuation profile consistent with the rankings is well-formed input for `simulate` -/
theorem posVals_simWF (hm : 0 < m) (v : Fin n → Fin m → ℚ) (pos : Fin n → Fin m ≃ Fin m)
    (hv0 : ∀ i j, 0 ≤ v i j) (hcons : ∀ i j j', pos i j ≤ pos i j' → v i j' ≤ v i j)
    (lams : List ℚ) (hge1 : ∀ lam ∈ lams, 1 ≤ lam) (hsorted : lams.Pairwise (· ≤ ·)) (i : Fin n) :
    SimWF (posVals v pos i) m lams where
  mpos := hm
  anti := by
    intro a b hab hb
    unfold posVals
    rw [dif_pos hb, dif_pos (by omega : a < m)]
    apply hcons
    simp only [Equiv.apply_symm_apply, Fin.mk_le_mk]
    exact hab
  nonneg := by
    unfold posVals
    rw [dif_pos hm]
    exact hv0 _ _
  ge_one := hge1
  sorted := hsorted

/-- k-ARV end to end: `v` is any non-negative valuation profile consistent with the rankings `pos`, the
simulated profile is what `simulate` (floor 0) returns for each agent, `a` maximises the simulated score.
Then the welfare of `a` is within `2ρ` of the welfare of any alternative `o`. -/
theorem karv_distortion_sim (hm : 0 < m) (v : Fin n → Fin m → ℚ) (pos : Fin n → Fin m ≃ Fin m)
    (hv0 : ∀ i j, 0 ≤ v i j) (hcons : ∀ i j j', pos i j ≤ pos i j' → v i j' ≤ v i j)
    (lams : List ℚ) (hge1 : ∀ lam ∈ lams, 1 ≤ lam) (hsorted : lams.Pairwise (· ≤ ·))
    (ρ : ℚ) (hchain : RatioChain m lams ρ)
    (sim : Fin n → Nat → ℚ) (hsim : ∀ i, simulate 0 (posVals v pos i) m lams = some (sim i))
    (a : Fin m) (ha : ∀ j, ∑ i, sim i (pos i j) ≤ ∑ i, sim i (pos i a)) (o : Fin m) :
    ∑ i, v i o ≤ 2 * ρ * ∑ i, v i a := by
  have hwf := posVals_simWF hm v pos hv0 hcons lams hge1 hsorted
  have hρ1 := ratioChain_one_le m lams ρ hm hge1 hchain
  have hfav0 : ∀ i, ((pos i ((pos i).symm ⟨0, hm⟩) : Fin m) : ℕ) = 0 := by intro i; simp
  refine karv_distortion hm v (fun i j => sim i (pos i j)) (fun i => (pos i).symm ⟨0, hm⟩) ρ (by linarith)
    ?_ ?_ ?_ ?_ a ha o
  · intro i j
    exact sim_nonneg 0 _ m lams (hwf i) (sim i) (hsim i) (le_refl _) _
  · intro i j
    have := sim_le_true_of_floor_le 0 _ m lams (hwf i) (sim i) (hsim i) (pos i j) (pos i j).isLt
      (by rw [posVals_pos]; exact hv0 i j)
    rwa [posVals_pos] at this
  · intro i
    show sim i _ = _
    rw [hfav0 i, sim_favourite 0 _ m lams (hwf i) (sim i) (hsim i), posVals_zero hm]
  · intro i j
    have := sim_entry_bound 0 _ m lams (hwf i) (le_refl _) ρ hchain (sim i) (hsim i) (pos i j) (pos i j).isLt
    rw [posVals_pos] at this
    rw [posVals_zero hm] at this
    exact this

/-- lambda-TSF end to end (`n` agents, `n` items): the simulated profile is what `simulate` with floor
`ε ≥ 0` (the code: `1e-5`) returns, `A` is a maximum-weight assignment of the simulated profile. Then the
welfare of `A` plus `n·ε` is within `2ρ` of the welfare of any assignment `O`. -/
theorem tsf_distortion_sim (hn : 0 < n) (v : Fin n → Fin n → ℚ) (pos : Fin n → Fin n ≃ Fin n)
    (hv0 : ∀ i j, 0 ≤ v i j) (hcons : ∀ i j j', pos i j ≤ pos i j' → v i j' ≤ v i j)
    (lams : List ℚ) (hge1 : ∀ lam ∈ lams, 1 ≤ lam) (hsorted : lams.Pairwise (· ≤ ·))
    (ρ ε : ℚ) (hε : 0 ≤ ε) (hchain : RatioChain n lams ρ)
    (sim : Fin n → Nat → ℚ) (hsim : ∀ i, simulate ε (posVals v pos i) n lams = some (sim i))
    (A : Equiv.Perm (Fin n))
    (hA : ∀ B : Equiv.Perm (Fin n), ∑ i, sim i (pos i (B i)) ≤ ∑ i, sim i (pos i (A i)))
    (O : Equiv.Perm (Fin n)) :
    ∑ i, v i (O i) ≤ 2 * ρ * (∑ i, v i (A i) + n * ε) := by
  have hwf := posVals_simWF hn v pos hv0 hcons lams hge1 hsorted
  have hρ1 := ratioChain_one_le n lams ρ hn hge1 hchain
  have hfav0 : ∀ i, ((pos i ((pos i).symm ⟨0, hn⟩) : Fin n) : ℕ) = 0 := by intro i; simp
  refine tsf_distortion hn v (fun i j => sim i (pos i j)) (fun i => (pos i).symm ⟨0, hn⟩) ρ ε (by linarith) hε
    ?_ ?_ ?_ ?_ A hA O
  · intro i j
    exact sim_nonneg ε _ n lams (hwf i) (sim i) (hsim i) hε _
  · intro i j
    rcases sim_le_true ε _ n lams (hwf i) (sim i) (hsim i) (pos i j) (pos i j).isLt with h1 | ⟨h1, _⟩
    · rw [posVals_pos] at h1
      show sim i _ ≤ _
      linarith
    · show sim i _ ≤ _
      rw [h1]; have := hv0 i j; linarith
  · intro i
    show sim i _ = _
    rw [hfav0 i, sim_favourite ε _ n lams (hwf i) (sim i) (hsim i), posVals_zero hn]
  · intro i j
    have := sim_entry_bound ε _ n lams (hwf i) hε ρ hchain (sim i) (hsim i) (pos i j) (pos i j).isLt
    rw [posVals_pos] at this
    rw [posVals_zero hn] at this
    exact this

/-- the hypotheses of `karv_distortion_sim` are always satisfiable: the fill succeeds for every agent and
some alternative maximises the simulated score -/
theorem karv_sim_winner_exists (hm : 0 < m) (v : Fin n → Fin m → ℚ) (pos : Fin n → Fin m ≃ Fin m)
    (hv0 : ∀ i j, 0 ≤ v i j) (hcons : ∀ i j j', pos i j ≤ pos i j' → v i j' ≤ v i j)
    (lams : List ℚ) (hge1 : ∀ lam ∈ lams, 1 ≤ lam) (hsorted : lams.Pairwise (· ≤ ·)) (floor : ℚ) :
    ∃ sim : Fin n → Nat → ℚ, (∀ i, simulate floor (posVals v pos i) m lams = some (sim i)) ∧
      ∃ a : Fin m, ∀ j, ∑ i, sim i (pos i j) ≤ ∑ i, sim i (pos i a) := by
  have hwf := posVals_simWF hm v pos hv0 hcons lams hge1 hsorted
  refine ⟨fun i => Classical.choose (sim_succeeds floor _ m lams (hwf i)),
    fun i => Classical.choose_spec (sim_succeeds floor _ m lams (hwf i)), ?_⟩
  obtain ⟨a, _, ha⟩ := Finset.exists_max_image (Finset.univ : Finset (Fin m))
    (fun j => ∑ i, Classical.choose (sim_succeeds floor _ m lams (hwf i)) (pos i j)) ⟨⟨0, hm⟩, Finset.mem_univ _⟩
  exact ⟨a, fun j => ha j (Finset.mem_univ _)⟩

/-- likewise for `tsf_distortion_sim`: a maximum-weight assignment of the simulated profile exists -/
theorem tsf_sim_assignment_exists (hn : 0 < n) (v : Fin n → Fin n → ℚ) (pos : Fin n → Fin n ≃ Fin n)
    (hv0 : ∀ i j, 0 ≤ v i j) (hcons : ∀ i j j', pos i j ≤ pos i j' → v i j' ≤ v i j)
    (lams : List ℚ) (hge1 : ∀ lam ∈ lams, 1 ≤ lam) (hsorted : lams.Pairwise (· ≤ ·)) (floor : ℚ) :
    ∃ sim : Fin n → Nat → ℚ, (∀ i, simulate floor (posVals v pos i) n lams = some (sim i)) ∧
      ∃ A : Equiv.Perm (Fin n), ∀ B : Equiv.Perm (Fin n),
        ∑ i, sim i (pos i (B i)) ≤ ∑ i, sim i (pos i (A i)) := by
  have hwf := posVals_simWF hn v pos hv0 hcons lams hge1 hsorted
  refine ⟨fun i => Classical.choose (sim_succeeds floor _ n lams (hwf i)),
    fun i => Classical.choose_spec (sim_succeeds floor _ n lams (hwf i)), ?_⟩
  obtain ⟨A, _, hA⟩ := Finset.exists_max_image (Finset.univ : Finset (Equiv.Perm (Fin n)))
    (fun B => ∑ i, Classical.choose (sim_succeeds floor _ n lams (hwf i)) (pos i (B i)))
    ⟨Equiv.refl _, Finset.mem_univ _⟩
  exact ⟨A, fun B => hA B (Finset.mem_univ _)⟩

end EndToEnd

end Elicit

#print axioms Elicit.sim_entry_bound
#print axioms Elicit.karv_distortion_sim
#print axioms Elicit.tsf_distortion_sim
