import Sck.Proofs.VotingSym
import Sck.Proofs.VotingRand
import Mathlib.Tactic.Ring

/-! Voting model: histogram factorisation and the cross-rule laws that pin the score definitions to each other
(C10 / C11). -/

namespace Vote

/-! ## well-formedness -/

theorem wfB_iff {P : Profile} {m : Nat} : wfB P m = true ↔ ∀ row ∈ P, row.Perm (List.range' 1 m) := by
  unfold wfB; simp [List.isPerm_iff]

theorem rankedB_iff {P : Profile} {m : Nat} :
    rankedB P m = true ↔ ∀ row ∈ P, row.length = m ∧ ∀ r ∈ row, 1 ≤ r ∧ r ≤ m := by
  unfold rankedB; simp

theorem rankedB_of_wfB {P : Profile} {m : Nat} (h : wfB P m = true) : rankedB P m = true := by
  rw [wfB_iff] at h; rw [rankedB_iff]
  intro row hrow
  have hp := h row hrow
  refine ⟨by simpa using hp.length_eq, fun r hr => ?_⟩
  have := hp.mem_iff.1 hr
  rw [List.mem_range'_1] at this
  omega

theorem col_ranked {P : Profile} {m j : Nat} (h : rankedB P m = true) (hj : j < m) :
    ∀ r ∈ col P j, 1 ≤ r ∧ r ≤ m := by
  rw [rankedB_iff] at h
  intro r hr
  obtain ⟨row, hrow, rfl⟩ := List.mem_map.1 hr
  obtain ⟨hlen, hall⟩ := h row hrow
  rw [getD_eq_getElem row j 0 (hlen ▸ hj)]
  exact hall _ (List.getElem_mem _)

theorem col_length (P : Profile) (j : Nat) : (col P j).length = P.length := by simp [col]

/-! ## sums over ranks -/

theorem sum_range_single {α : Type} [AddCommMonoid α] (g : Nat → α) {r0 m : Nat} (h : r0 < m) :
    ((List.range m).map (fun r => if r = r0 then g r else 0)).sum = g r0 := by
  induction m with
  | zero => omega
  | succ n ih =>
    rw [List.range_succ, List.map_append, List.sum_append]
    by_cases hn : r0 = n
    · subst hn
      have : ((List.range r0).map (fun r => if r = r0 then g r else 0)) = (List.range r0).map (fun _ => 0) := by
        apply List.map_congr_left
        intro r hr
        have := List.mem_range.1 hr
        rw [if_neg (by omega)]
      rw [this]; simp
    · rw [ih (by omega)]
      simp [Ne.symm hn]

theorem length_filter_cons (x : Nat) (c : List Nat) (y : Nat) :
    ((x :: c).filter (· == y)).length = (if y = x then 1 else 0) + (c.filter (· == y)).length := by
  rw [List.filter_cons]
  by_cases h : y = x
  · subst h; simp; omega
  · have : (x == y) = false := by simpa using Ne.symm h
    simp [this, h]

/-- a sum over voters regrouped by rank -/
theorem sum_by_hist {α : Type} [AddCommMonoid α] (f : Nat → α) (m : Nat) (c : List Nat)
    (h : ∀ x ∈ c, 1 ≤ x ∧ x ≤ m) :
    (c.map f).sum = ((List.range m).map (fun r => (c.filter (· == r + 1)).length • f (r + 1))).sum := by
  induction c with
  | nil => simp
  | cons x c ih =>
    have hx := h x List.mem_cons_self
    rw [List.map_cons, List.sum_cons, ih (fun y hy => h y (List.mem_cons_of_mem _ hy))]
    have : (fun r => ((x :: c).filter (· == r + 1)).length • f (r + 1))
        = (fun r => (if r = x - 1 then f (r + 1) else 0) + (c.filter (· == r + 1)).length • f (r + 1)) := by
      funext r
      rw [length_filter_cons, add_nsmul]
      congr 1
      by_cases hr : r = x - 1
      · rw [if_pos hr, if_pos (by omega), one_nsmul]
      · rw [if_neg hr, if_neg (by omega), zero_nsmul]
    rw [this, List.sum_map_add, sum_range_single (fun r => f (r + 1)) (by omega : x - 1 < m)]
    congr 2
    omega

theorem hist_length (P : Profile) (m j : Nat) : (hist P m j).length = m := by simp [hist]

theorem hist_getD (P : Profile) {m r : Nat} (j : Nat) (hr : r < m) :
    (hist P m j).getD r 0 = ((col P j).filter (· == r + 1)).length := by
  simp [hist, List.getD_eq_getElem?_getD, hr]

/-- the positional score of an alternative is a function of its rank histogram -/
theorem scoreI_of_hist (w : Nat → Int) {P : Profile} {m j : Nat} (h : ∀ r ∈ col P j, 1 ≤ r ∧ r ≤ m) :
    scoreI w P j = positionalOfHist w (hist P m j) := by
  unfold scoreI positionalOfHist
  rw [sumI_eq_sum, sumI_eq_sum, sum_by_hist w m _ h, hist_length]
  congr 1
  apply List.map_congr_left
  intro r hr
  rw [hist_getD P j (List.mem_range.1 hr)]
  simp

theorem positional_of_hist (w : Nat → Int) {P : Profile} {m j : Nat} (hP : rankedB P m = true) (hj : j < m) :
    (positional w P m)[j]? = some (positionalOfHist w (hist P m j)) := by
  rw [positional_get_score w P hj, scoreI_of_hist w (col_ranked hP hj)]

theorem scoreH_of_hist {P : Profile} {m j : Nat} (h : ∀ r ∈ col P j, 1 ≤ r ∧ r ≤ m) :
    scoreH P j = harmonicOfHist (hist P m j) := by
  unfold scoreH harmonicOfHist
  rw [sumQ_eq_sum, sumQ_eq_sum, sum_by_hist _ m _ h, hist_length]
  congr 1
  apply List.map_congr_left
  intro r hr
  rw [hist_getD P j (List.mem_range.1 hr)]
  simp [div_eq_mul_inv]

theorem harmonic_eq_hist {P : Profile} {m j : Nat} (hP : rankedB P m = true) (hj : j < m) :
    (harmonic P m)[j]? = some (harmonicOfHist (hist P m j)) := by
  rw [harmonic_get_score P hj, scoreH_of_hist (col_ranked hP hj)]

/-! ## sums over alternatives -/

theorem sum_swap {β α : Type} [AddCommMonoid α] (f : β → Nat → α) (L : List β) (m : Nat) :
    ((List.range m).map (fun j => (L.map (fun row => f row j)).sum)).sum
      = (L.map (fun row => ((List.range m).map (f row)).sum)).sum := by
  induction L with
  | nil => simp
  | cons a as ih =>
    simp only [List.map_cons, List.sum_cons]
    rw [List.sum_map_add, ih]

theorem range_map_getD {β γ : Type} (row : List β) (d : β) (g : β → γ) {m : Nat} (h : row.length = m) :
    (List.range m).map (fun j => g (row.getD j d)) = row.map g := by
  apply List.ext_getElem
  · simp [h]
  · intro i h1 h2
    simp at h1
    simp [List.getD_eq_getElem?_getD, h, h1]

theorem sum_scoreG {α : Type} [AddCommMonoid α] (w : Nat → α) {P : Profile} {m : Nat}
    (hP : ∀ row ∈ P, row.length = m) :
    ((List.range m).map (scoreG w P)).sum = (P.map (fun row => (row.map w).sum)).sum := by
  have : (List.range m).map (scoreG w P)
      = (List.range m).map (fun j => (P.map (fun row => w (row.getD j 0))).sum) := by
    apply List.map_congr_left
    intro j _
    simp [scoreG, col, List.map_map, Function.comp_def]
  rw [this]
  refine (sum_swap (fun row j => w (row.getD j 0)) P m).trans ?_
  congr 1
  apply List.map_congr_left
  intro row hrow
  rw [range_map_getD row 0 w (hP row hrow)]

/-- on a complete strict profile the scores of any positional rule add up to `n · Σ_{r=1..m} w r` -/
theorem sum_scoreG_wf {α : Type} [AddCommMonoid α] (w : Nat → α) {P : Profile} {m : Nat}
    (hP : wfB P m = true) :
    ((List.range m).map (scoreG w P)).sum = P.length • ((List.range' 1 m).map w).sum := by
  rw [wfB_iff] at hP
  rw [sum_scoreG w (fun row hrow => by simpa using (hP row hrow).length_eq)]
  have : P.map (fun row => (row.map w).sum) = P.map (fun _ => ((List.range' 1 m).map w).sum) := by
    apply List.map_congr_left
    intro row hrow
    exact ((hP row hrow).map w).sum_eq
  rw [this]
  simp

theorem sum_positional_wf (w : Nat → Int) {P : Profile} {m : Nat} (hP : wfB P m = true) :
    (positional w P m).sum = P.length * ((List.range' 1 m).map w).sum := by
  have : positional w P m = (List.range m).map (scoreG w P) := by
    rw [positional_eq]; apply List.map_congr_left; intro j _; exact scoreI_eq w P j
  rw [this, sum_scoreG_wf w hP]; simp

theorem sum_pluralityW {m : Nat} (hm : 0 < m) : ((List.range' 1 m).map pluralityW).sum = 1 := by
  rw [List.range'_eq_map_range, List.map_map]
  have : (pluralityW ∘ fun x => 1 + x) = (fun r => if r = 0 then (fun _ => (1 : Int)) r else 0) := by
    funext r
    simp only [Function.comp, pluralityW]
    by_cases h : r = 0
    · simp [h]
    · rw [if_neg (by omega), if_neg h]
  rw [this, sum_range_single (fun _ => (1 : Int)) hm]

/-- Σ_j plurality j = n -/
theorem plurality_sum {P : Profile} {m : Nat} (hP : wfB P m = true) (hm : 0 < m) :
    (plurality P m).sum = P.length := by
  unfold plurality
  rw [sum_positional_wf _ hP, sum_pluralityW hm]; simp

/-- Σ_j harmonic j = n · H_m -/
theorem harmonic_sum {P : Profile} {m : Nat} (hP : wfB P m = true) :
    (harmonic P m).sum = P.length * harmonicNumber m := by
  have : harmonic P m = (List.range m).map (scoreG (fun (r : Nat) => (1 : Rat) / (r : Rat)) P) := by
    rw [harmonic_eq]; apply List.map_congr_left; intro j _; exact scoreH_eq P j
  rw [this, sum_scoreG_wf _ hP]
  unfold harmonicNumber
  rw [sumQ_eq_sum]; simp

/-- borda j = m·n − Σ_voters r_j -/
theorem scoreI_borda (P : Profile) (m j : Nat) :
    scoreI (bordaW m) P j = (m : Int) * P.length - ((col P j).map (fun (r : Nat) => (r : Int))).sum := by
  rw [← col_length P j]
  unfold scoreI
  rw [sumI_eq_sum]
  generalize col P j = c
  induction c with
  | nil => simp
  | cons x c ih =>
    simp only [List.map_cons, List.sum_cons, ih, List.length_cons, bordaW]
    push_cast
    ring

theorem borda_get (P : Profile) {m j : Nat} (hj : j < m) :
    (borda P m)[j]? = some ((m : Int) * P.length - (P.map (fun row => ((row.getD j 0 : Nat) : Int))).sum) := by
  unfold borda
  rw [positional_get_score _ P hj, scoreI_borda]
  simp [col, List.map_map, Function.comp_def]

/-- `kApproval 1 = plurality` (ranks are at least 1) -/
theorem kApproval_one {P : Profile} {m : Nat} (hP : rankedB P m = true) :
    kApproval 1 P m = plurality P m := by
  unfold kApproval plurality
  rw [positional_eq, positional_eq]
  apply List.map_congr_left
  intro j hj
  unfold scoreI
  congr 1
  apply List.map_congr_left
  intro r hr
  have := col_ranked hP (List.mem_range.1 hj) r hr
  unfold kApprovalW pluralityW
  by_cases h : r = 1
  · simp [h]
  · rw [if_neg (by omega), if_neg h]

/-- `kApproval (m−1) = veto` -/
theorem kApproval_pred (P : Profile) (m : Nat) : kApproval (m - 1) P m = veto P m := by
  unfold kApproval veto
  rw [positional_eq, positional_eq]
  apply List.map_congr_left
  intro j hj
  have hm : 0 < m := by have := List.mem_range.1 hj; omega
  unfold scoreI
  congr 1
  apply List.map_congr_left
  intro r _
  unfold kApprovalW vetoW
  by_cases h : r < m
  · rw [if_pos (by omega), if_pos h]
  · rw [if_neg (by omega), if_neg h]

theorem sum_map_one (c : List Nat) (w : Nat → Int) (h : ∀ r ∈ c, w r = 1) : (c.map w).sum = c.length := by
  induction c with
  | nil => simp
  | cons x c ih =>
    simp only [List.map_cons, List.sum_cons, List.length_cons]
    rw [h x List.mem_cons_self, ih (fun r hr => h r (List.mem_cons_of_mem _ hr))]
    push_cast; ring

/-- `m ≤ k → kApproval k j = n` -/
theorem kApproval_all {P : Profile} {m k j : Nat} (hP : rankedB P m = true) (hk : m ≤ k) (hj : j < m) :
    (kApproval k P m)[j]? = some (P.length : Int) := by
  unfold kApproval
  rw [positional_get_score _ P hj]
  unfold scoreI
  rw [sumI_eq_sum, sum_map_one, col_length]
  intro r hr
  have := col_ranked hP hj r hr
  unfold kApprovalW
  rw [if_pos (by omega)]

/-- veto j = n − (number of voters ranking j last) -/
theorem veto_get {P : Profile} {m j : Nat} (hP : rankedB P m = true) (hj : j < m) :
    (veto P m)[j]? = some ((P.length : Int) - ((col P j).filter (· == m)).length) := by
  unfold veto
  rw [positional_get_score _ P hj]
  unfold scoreI
  rw [sumI_eq_sum, ← col_length P j]
  have hc := col_ranked hP hj
  generalize col P j = c at hc
  congr 1
  induction c with
  | nil => simp
  | cons x c ih =>
    have hx := hc x List.mem_cons_self
    rw [List.map_cons, List.sum_cons, ih (fun r hr => hc r (List.mem_cons_of_mem _ hr)),
      length_filter_cons]
    unfold vetoW
    by_cases h : x < m
    · rw [if_pos h, if_neg (by omega)]; push_cast; simp; ring
    · rw [if_neg h, if_pos (by omega)]; push_cast; simp; ring

/-! ## utilitarian -/

theorem nanSum_eq (l : List (Option Rat)) : nanSum l = (l.map (fun x => x.getD 0)).sum := by
  unfold nanSum; rw [sumQ_eq_sum]

theorem valsB_iff {V : List (List (Option Rat))} {m : Nat} :
    valsB V m = true ↔ ∀ row ∈ V, row.length = m := by
  unfold valsB; simp

theorem utilitarian_eq {V : List (List (Option Rat))} {m : Nat} {sh : List Rat}
    (h : utilitarian V m = some sh) :
    (V.map nanSum).sum ≠ 0 ∧
      sh = (List.range m).map (fun j => nanSum (V.map (fun row => row.getD j none)) / (V.map nanSum).sum) := by
  unfold utilitarian at h
  simp only [sumQ_eq_sum] at h
  split at h
  · simp at h
  · rename_i hne
    exact ⟨hne, by simpa using h.symm⟩

theorem utilitarian_none_iff (V : List (List (Option Rat))) (m : Nat) :
    utilitarian V m = none ↔ (V.map nanSum).sum = 0 := by
  unfold utilitarian
  simp only [sumQ_eq_sum]
  split <;> simp_all

theorem sum_cols_vals {V : List (List (Option Rat))} {m : Nat} (hV : ∀ row ∈ V, row.length = m) :
    ((List.range m).map (fun j => nanSum (V.map (fun row => row.getD j none)))).sum = (V.map nanSum).sum := by
  have : (List.range m).map (fun j => nanSum (V.map (fun row => row.getD j none)))
      = (List.range m).map (fun j => (V.map (fun row => (row.getD j none).getD 0)).sum) := by
    apply List.map_congr_left
    intro j _
    rw [nanSum_eq, List.map_map]; rfl
  rw [this]
  refine (sum_swap (fun (row : List (Option Rat)) j => (row.getD j none).getD 0) V m).trans ?_
  congr 1
  apply List.map_congr_left
  intro row hrow
  rw [range_map_getD row none (fun x => x.getD 0) (hV row hrow), nanSum_eq]

/-- the utilitarian score of `j` is its share of the total utility, and the shares add up to one -/
theorem utilitarian_spec {V : List (List (Option Rat))} {m : Nat} {sh : List Rat}
    (hV : valsB V m = true) (h : utilitarian V m = some sh) :
    sh.length = m ∧
    (∀ j, j < m → sh[j]? = some (nanSum (V.map (fun row => row.getD j none)) / (V.map nanSum).sum)) ∧
    sh.sum = 1 := by
  obtain ⟨hne, rfl⟩ := utilitarian_eq h
  refine ⟨by simp, fun j hj => by simp [hj], ?_⟩
  have := sum_map_div ((List.range m).map (fun j => nanSum (V.map (fun row => row.getD j none))))
    (V.map nanSum).sum
  rw [List.map_map] at this
  rw [show ((fun x => x / (V.map nanSum).sum) ∘ fun j => nanSum (V.map (fun row => row.getD j none)))
    = (fun j => nanSum (V.map (fun row => row.getD j none)) / (V.map nanSum).sum) from rfl] at this
  rw [this, sum_cols_vals (valsB_iff.1 hV)]
  exact div_self hne

theorem utilitarian_perm_voters {V V' : List (List (Option Rat))} (h : V.Perm V') (m : Nat) :
    utilitarian V m = utilitarian V' m := by
  have h1 : (V.map nanSum).sum = (V'.map nanSum).sum := (h.map _).sum_eq
  have h2 : ∀ j, nanSum (V.map (fun row => row.getD j none)) = nanSum (V'.map (fun row => row.getD j none)) := by
    intro j
    rw [nanSum_eq, nanSum_eq]
    exact ((h.map _).map _).sum_eq
  unfold utilitarian
  simp only [sumQ_eq_sum, h1, h2]

theorem renameVals_total {V : List (List (Option Rat))} {sig : List Nat} {m : Nat}
    (hsig : sig.Perm (List.range m)) (hV : ∀ row ∈ V, row.length = m) :
    ((renameVals sig V).map nanSum).sum = (V.map nanSum).sum := by
  unfold renameVals
  rw [List.map_map]
  congr 1
  apply List.map_congr_left
  intro row hrow
  simp only [Function.comp, nanSum_eq, List.map_map]
  rw [(hsig.map _).sum_eq]
  have := range_map_getD row none (fun x : Option Rat => x.getD 0) (hV row hrow)
  simp only [Function.comp_def]
  rw [this]

theorem renameVals_col {V : List (List (Option Rat))} {sig : List Nat} {a b : Nat} (h : sig[a]? = some b) :
    (renameVals sig V).map (fun row => row.getD a none) = V.map (fun row => row.getD b none) := by
  unfold renameVals
  rw [List.map_map]
  apply List.map_congr_left
  intro row _
  simp only [Function.comp]
  rw [List.getD_eq_getElem?_getD, List.getElem?_map, h]
  rfl

theorem utilitarian_rename {V : List (List (Option Rat))} {sig : List Nat} {m : Nat} {sh : List Rat}
    (hsig : sig.Perm (List.range m)) (hV : valsB V m = true) (h : utilitarian V m = some sh) :
    ∃ sh', utilitarian (renameVals sig V) m = some sh' ∧ sh'.length = m ∧
      ∀ a b : Nat, sig[a]? = some b → sh'[a]? = sh[b]? := by
  obtain ⟨hne, rfl⟩ := utilitarian_eq h
  have htot := renameVals_total hsig (valsB_iff.1 hV)
  refine ⟨(List.range m).map (fun j => nanSum ((renameVals sig V).map (fun row => row.getD j none)) /
    ((renameVals sig V).map nanSum).sum), ?_, ?_, ?_⟩
  · unfold utilitarian
    simp only [sumQ_eq_sum]
    rw [if_neg (by rw [htot]; exact hne)]
  · simp
  · intro a b hab
    obtain ⟨ha, hb⟩ := sig_lt hsig hab
    simp only [List.getElem?_map, List.getElem?_range ha, List.getElem?_range hb, Option.map_some]
    rw [htot, renameVals_col hab]

end Vote
