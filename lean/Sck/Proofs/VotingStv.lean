import Sck.Model.Stv
import Mathlib.Tactic.Linarith

/-! STV is anonymous: reordering the voters changes neither the elimination sequence nor the winner (C11). -/

theorem colCount1_perm {P P' : List (List Nat)} (h : P.Perm P') (j : Nat) : colCount1 P j = colCount1 P' j := by
  unfold colCount1
  exact (h.filter _).length_eq

theorem pluralityScores_perm {P P' : List (List Nat)} (h : P.Perm P') (w : Nat) :
    pluralityScores P w = pluralityScores P' w := by
  unfold pluralityScores
  apply List.map_congr_left
  intro j _
  exact colCount1_perm h j

theorem stvLoop_perm_voters (choose : List Nat → Nat) (fuel : Nat) {P P' : List (List Nat)} (h : P.Perm P')
    (labels : List Nat) : stvLoop choose fuel P labels = stvLoop choose fuel P' labels := by
  induction fuel generalizing P P' labels with
  | zero => rfl
  | succ n ih =>
    match labels with
    | [] => rfl
    | [a] => rfl
    | a :: b :: rest =>
      simp only [stvLoop]
      rw [pluralityScores_perm h]
      exact ih (h.map _) _

/-- reordering the voters leaves the STV winner unchanged, for every tie-breaking choice function -/
theorem stv_perm_voters (choose : List Nat → Nat) {P P' : List (List Nat)} (h : P.Perm P') (m fixer : Nat) :
    stv choose P m fixer = stv choose P' m fixer :=
  stvLoop_perm_voters choose m h _

theorem stvReplay_perm_voters (choices : List Nat) {P P' : List (List Nat)} (h : P.Perm P')
    (labels : List Nat) : stvReplay choices P labels = stvReplay choices P' labels := by
  induction choices generalizing P P' labels with
  | nil =>
    match labels with
    | [] => rfl
    | [a] => rfl
    | a :: b :: rest => rfl
  | cons d ds ih =>
    match labels with
    | [] => rfl
    | [a] => rfl
    | a :: b :: rest =>
      simp only [stvReplay]
      rw [pluralityScores_perm h]
      split
      · exact ih (h.map _) _
      · rfl
