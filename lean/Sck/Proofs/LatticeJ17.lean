import Sck.Proofs.LatticeJ16

/-! # C03, package L8b, part 17: `find_rotations` finds a rotation whenever one is exposed; hence the level loop stops at
a matching without exposed rotation, and obligation (i) holds -/

namespace IrvingAlgo.J

open Irving SMLattice SMLattice.J

theorem walk_mono (l1 l2 : List (List Nat)) : ∀ (fuel : Nat) (vis : List Bool) (cur : Nat) (cyc : List Pair) (a : Nat),
    vis.getD a true = true → (walk l1 l2 fuel vis cur cyc).1.getD a true = true := by
  intro fuel
  induction fuel with
  | zero => intro vis cur cyc a h; exact h
  | succ fuel ih =>
    intro vis cur cyc a h
    simp only [walk]
    split
    · exact h
    · split
      · exact getD_set_true _ _ _ h
      · exact ih _ _ _ a (getD_set_true _ _ _ h)

theorem walk_length (l1 l2 : List (List Nat)) : ∀ (fuel : Nat) (vis : List Bool) (cur : Nat) (cyc : List Pair),
    (walk l1 l2 fuel vis cur cyc).1.length = vis.length := by
  intro fuel
  induction fuel with
  | zero => intro vis cur cyc; rfl
  | succ fuel ih =>
    intro vis cur cyc
    simp only [walk]
    split
    · rfl
    · split
      · simp
      · rw [ih]; simp

/-- with at least one unit of fuel, `walk` marks its starting node -/
theorem walk_marks (l1 l2 : List (List Nat)) (fuel : Nat) (vis : List Bool) (cur : Nat) (cyc : List Pair)
    (h : vis.getD cur true = false) : (walk l1 l2 (fuel + 1) vis cur cyc).1.getD cur true = true := by
  have hlt : cur < vis.length := by
    by_contra hge
    rw [List.getD_eq_getElem?_getD, List.getElem?_eq_none (by omega)] at h
    simp at h
  simp only [walk]
  rw [if_neg (by rw [h]; simp)]
  split
  · exact getD_set_self _ _ _ _ hlt
  · exact walk_mono _ _ _ _ _ _ _ (getD_set_self _ _ _ _ hlt)

/-- **`walk` cannot leave a cycle unfinished**: `S` is closed under `outEdge`; if all visited nodes of `S` are among the
collected ones, the same holds afterwards, and if a node of `S` has been collected the walk ends at a collected node -/
theorem walk_cycle (l1 l2 : List (List Nat)) (S : List Nat) (hS : ∀ a ∈ S, ∃ b ∈ S, outEdge l1 l2 a = some b) :
    ∀ (fuel : Nat) (vis : List Bool) (cur : Nat) (cyc : List Pair), vis.count false < fuel →
      (∀ a ∈ S, vis.getD a true = true → a ∈ cyc.map Prod.fst) →
      ((∃ a ∈ S, a ∈ cyc.map Prod.fst) → cur ∈ S) →
      (∀ a ∈ S, (walk l1 l2 fuel vis cur cyc).1.getD a true = true → a ∈ (walk l1 l2 fuel vis cur cyc).2.2.map Prod.fst) ∧
      ((∃ a ∈ S, a ∈ (walk l1 l2 fuel vis cur cyc).2.2.map Prod.fst) →
        (walk l1 l2 fuel vis cur cyc).2.1 ∈ S ∧
        (walk l1 l2 fuel vis cur cyc).2.1 ∈ (walk l1 l2 fuel vis cur cyc).2.2.map Prod.fst) := by
  intro fuel
  induction fuel with
  | zero => intro vis cur cyc h; exact absurd h (Nat.not_lt_zero _)
  | succ fuel ih =>
    intro vis cur cyc hfuel ha hb
    simp only [walk]
    split
    · rename_i hvis
      refine ⟨ha, fun hex => ?_⟩
      have hcS := hb hex
      exact ⟨hcS, ha cur hcS hvis⟩
    · rename_i hvis
      have hvis' : vis.getD cur true = false := by simpa using hvis
      have hcurlt : cur < vis.length := by
        by_contra hge
        rw [List.getD_eq_getElem?_getD, List.getElem?_eq_none (by omega)] at hvis'
        simp at hvis'
      split
      · rename_i hnone
        have hcurS : cur ∉ S := fun h => by
          obtain ⟨b, _, hb'⟩ := hS cur h
          rw [hb'] at hnone; exact absurd hnone (by simp)
        refine ⟨?_, fun hex => absurd (hb hex) hcurS⟩
        intro a haS hav
        by_cases hac : cur = a
        · subst hac; exact absurd haS hcurS
        · rw [getD_set_ne _ _ _ _ _ hac] at hav
          exact ha a haS hav
      · rename_i nxt hnxt
        have hcount : (vis.set cur true).count false + 1 = vis.count false := by
          have hget : vis[cur] = false := by
            rw [List.getD_eq_getElem?_getD, List.getElem?_eq_getElem hcurlt] at hvis'
            simpa using hvis'
          have hpos : 0 < vis.count false := List.count_pos_iff.mpr (hget ▸ List.getElem_mem hcurlt)
          rw [List.count_set hcurlt, hget]
          simp
          omega
        refine ih (vis.set cur true) nxt (cyc ++ [(cur, (l1.getD cur []).headD 0)]) (by omega) ?_ ?_
        · intro a haS hav
          rw [List.map_append]
          by_cases hac : cur = a
          · subst hac; simp
          · rw [getD_set_ne _ _ _ _ _ hac] at hav
            exact List.mem_append_left _ (ha a haS hav)
        · rintro ⟨a, haS, hamem⟩
          rw [List.map_append] at hamem
          have hcS : cur ∈ S := by
            rcases List.mem_append.mp hamem with h | h
            · exact hb ⟨a, haS, h⟩
            · simp only [List.map_cons, List.map_nil, List.mem_singleton] at h
              rw [← h]; exact haS
          obtain ⟨b, hbS, hb'⟩ := hS cur hcS
          rw [hb'] at hnxt
          rw [← Option.some.inj hnxt]; exact hbS

section
variable {n : Nat} {P1 P2 : List (List Nat)} {M0 : List Pair} {μ0 : Equiv.Perm (Fin n)} {C : JCtx n P1 P2 M0 μ0}

/-- **`find_rotations` is complete enough**: if some rotation is exposed in the current matching, it returns at least one -/
theorem findRotations_ne_nil {μ : Equiv.Perm (Fin n)} {st : LvSt} (hinv : JLevelInv C μ st) {ρ : List (Fin n)}
    (hex : ExposedRot (rk n P1) (rk n P2) μ ρ) : findRotations st.l1 st.l2 ≠ [] := by
  set S := ρ.map (fun a : Fin n => (a : Nat)) with hSdef
  have hS : ∀ a ∈ S, ∃ b ∈ S, outEdge st.l1 st.l2 a = some b := by
    intro a ha
    obtain ⟨c, hc, rfl⟩ := List.mem_map.mp ha
    refine ⟨(ρ.formPerm c : Fin n), List.mem_map.mpr ⟨_, List.formPerm_apply_mem_of_mem hc, rfl⟩, ?_⟩
    have := outEdge_of_succ hinv (hex.2.2 c hc)
    simpa using this
  -- the fold
  have key : ∀ (starts : List Nat) (stF : List Bool × List (List Pair)), stF.1.length = st.l1.length →
      (stF.2 = [] → ∀ a ∈ S, stF.1.getD a true = false) →
      (starts.foldl (rotStep st.l1 st.l2) stF).1.length = st.l1.length ∧
      ((starts.foldl (rotStep st.l1 st.l2) stF).2 = [] →
        ∀ a ∈ S, (starts.foldl (rotStep st.l1 st.l2) stF).1.getD a true = false) ∧
      (∀ s, (s ∈ starts ∨ stF.1.getD s true = true) → (starts.foldl (rotStep st.l1 st.l2) stF).1.getD s true = true) := by
    intro starts
    induction starts with
    | nil => intro stF hl hc; exact ⟨hl, hc, fun s hs => hs.elim (fun h => by simp at h) (fun h => h)⟩
    | cons start starts ih =>
      intro stF hl hc
      rw [List.foldl_cons]
      -- one step
      have step : (rotStep st.l1 st.l2 stF start).1.length = st.l1.length ∧
          ((rotStep st.l1 st.l2 stF start).2 = [] → ∀ a ∈ S, (rotStep st.l1 st.l2 stF start).1.getD a true = false) ∧
          (∀ s, (s = start ∨ stF.1.getD s true = true) → (rotStep st.l1 st.l2 stF start).1.getD s true = true) := by
        unfold rotStep
        split
        · rename_i hv
          exact ⟨hl, hc, fun s hs => hs.elim (fun h => h ▸ hv) (fun h => h)⟩
        · rename_i hv
          have hv' : stF.1.getD start true = false := by simpa using hv
          have hmark := walk_marks st.l1 st.l2 st.l1.length stF.1 start [] hv'
          have hmono := walk_mono st.l1 st.l2 (st.l1.length + 1) stF.1 start []
          have hlen := walk_length st.l1 st.l2 (st.l1.length + 1) stF.1 start []
          obtain ⟨⟨hw1, _, _⟩, _, _⟩ := walk_spec st.l1 st.l2 (st.l1.length + 1) stF.1 start []
            ⟨fun p hp => by simp at hp, by simp, trivial⟩
          have hmarks : ∀ s, (s = start ∨ stF.1.getD s true = true) →
              (walk st.l1 st.l2 (st.l1.length + 1) stF.1 start []).1.getD s true = true := by
            intro s hs
            rcases hs with rfl | h
            · exact hmark
            · exact hmono s h
          -- the cycle argument
          have hcyc : ∀ rots' : List (List Pair), stF.2 = [] →
              (∃ a ∈ S, (walk st.l1 st.l2 (st.l1.length + 1) stF.1 start []).1.getD a true = true) →
              ∃ w tl, st.l1.getD (walk st.l1 st.l2 (st.l1.length + 1) stF.1 start []).2.1 [] = w :: tl ∧
                (walk st.l1 st.l2 (st.l1.length + 1) stF.1 start []).2.2.contains
                  ((walk st.l1 st.l2 (st.l1.length + 1) stF.1 start []).2.1, w) = true := by
            intro _ hnil ⟨a, haS, hav⟩
            have hfuel : stF.1.count false < st.l1.length + 1 := by
              have := List.count_le_length (a := false) (l := stF.1)
              omega
            obtain ⟨c1, c2⟩ := walk_cycle st.l1 st.l2 S hS (st.l1.length + 1) stF.1 start [] hfuel
              (fun a haS hav => by rw [hc hnil a haS] at hav; exact absurd hav (by simp))
              (fun ⟨a, _, ha⟩ => by simp at ha)
            obtain ⟨hcurS, hcurmem⟩ := c2 ⟨a, haS, c1 a haS hav⟩
            obtain ⟨b, _, hb⟩ := hS _ hcurS
            -- the list of `cur` is not empty
            have hne : st.l1.getD (walk st.l1 st.l2 (st.l1.length + 1) stF.1 start []).2.1 [] ≠ [] := by
              intro h0
              unfold outEdge at hb
              rw [h0] at hb
              exact absurd hb (by simp)
            cases hl1 : st.l1.getD (walk st.l1 st.l2 (st.l1.length + 1) stF.1 start []).2.1 [] with
            | nil => exact absurd hl1 hne
            | cons w tl =>
              refine ⟨w, tl, rfl, ?_⟩
              obtain ⟨p, hp, hpc⟩ := List.mem_map.mp hcurmem
              have h2 := (hw1 p hp).1
              rw [hpc, hl1] at h2
              simp only [List.headD_cons] at h2
              rw [List.contains_iff_mem]
              have : p = ((walk st.l1 st.l2 (st.l1.length + 1) stF.1 start []).2.1, w) := Prod.ext hpc h2
              rw [← this]; exact hp
          simp only
          split
          · rename_i hnil
            refine ⟨hlen.trans hl, ?_, hmarks⟩
            intro hrn a haS
            by_contra hcon
            have hav : (walk st.l1 st.l2 (st.l1.length + 1) stF.1 start []).1.getD a true = true := by simpa using hcon
            obtain ⟨w, tl, h1, _⟩ := hcyc [] hrn ⟨a, haS, hav⟩
            rw [hnil] at h1; exact absurd h1 (by simp)
          · rename_i w tl hmatch
            split
            · refine ⟨hlen.trans hl, fun h => absurd h (by simp), hmarks⟩
            · rename_i hncont
              refine ⟨hlen.trans hl, ?_, hmarks⟩
              intro hrn a haS
              by_contra hcon
              have hav : (walk st.l1 st.l2 (st.l1.length + 1) stF.1 start []).1.getD a true = true := by simpa using hcon
              obtain ⟨w', tl', h1, h2⟩ := hcyc [] hrn ⟨a, haS, hav⟩
              rw [hmatch] at h1
              obtain ⟨rfl, _⟩ := List.cons.inj h1
              exact hncont h2
      obtain ⟨s1, s2, s3⟩ := step
      obtain ⟨r1, r2, r3⟩ := ih _ s1 s2
      refine ⟨r1, r2, ?_⟩
      intro s hs
      apply r3
      rcases hs with h | h
      · rcases List.mem_cons.mp h with rfl | h
        · exact Or.inr (s3 s (Or.inl rfl))
        · exact Or.inl h
      · exact Or.inr (s3 s (Or.inr h))
  unfold findRotations
  obtain ⟨_, k2, k3⟩ := key (List.range st.l1.length) (List.replicate st.l1.length false, []) (by simp)
    (fun _ a ha => by
      obtain ⟨c, _, rfl⟩ := List.mem_map.mp ha
      have : (c : Nat) < st.l1.length := by rw [hinv.len1]; exact c.2
      simp [List.getD_eq_getElem?_getD, this])
  intro hnil
  obtain ⟨c, hc⟩ := List.exists_mem_of_ne_nil _ hex.2.1
  have hcS : (c : Nat) ∈ S := List.mem_map.mpr ⟨c, hc, rfl⟩
  have h1 := k2 hnil _ hcS
  have h2 := k3 c (Or.inl (List.mem_range.mpr (by rw [hinv.len1]; exact c.2)))
  rw [h1] at h2
  exact absurd h2 (by simp)

end

end IrvingAlgo.J

#print axioms IrvingAlgo.J.findRotations_ne_nil
