import Sck.Proofs.Flow1
import Sck.Model.Flow
import Mathlib.Data.List.Nodup
import Mathlib.Data.List.Zip

/-! C08 prototype: augmenting along a simple residual path preserves flow-ness and adds `c`. -/

open Finset

variable {ι : Type} [DecidableEq ι]

theorem pairs_fst_mem {path : List ι} {a b : ι} (h : (a, b) ∈ pairs path) : a ∈ path ∧ b ∈ path := by
  induction path with
  | nil => simp [pairs] at h
  | cons u rest ih =>
    cases rest with
    | nil => simp [pairs] at h
    | cons v rest' =>
      simp only [pairs, List.mem_cons] at h
      rcases h with h | h
      · simp at h; obtain ⟨rfl, rfl⟩ := h; simp
      · have := ih h; simp at this ⊢; tauto

/-- out-degree indicator: on a duplicate-free path, `x` has one outgoing path edge iff it is not last -/
theorem out_count (V : Finset ι) (path : List ι) (hnd : path.Nodup) (hV : ∀ v ∈ path, v ∈ V) (x : ι) (c : ℤ) :
    ∑ b ∈ V, (if (x, b) ∈ pairs path then c else 0) = if x ∈ path.dropLast then c else 0 := by
  induction path with
  | nil => simp [pairs]
  | cons u rest ih =>
    cases rest with
    | nil => simp [pairs]
    | cons v rest' =>
      have hnd' : (v :: rest').Nodup := (List.nodup_cons.mp hnd).2
      have hu : u ∉ v :: rest' := (List.nodup_cons.mp hnd).1
      have ih' := ih hnd' (fun w hw => hV w (List.mem_cons_of_mem _ hw))
      simp only [pairs, List.mem_cons, List.dropLast_cons₂]
      by_cases hxu : x = u
      · subst hxu
        have hnot : ∀ b, (x, b) ∉ pairs (v :: rest') := fun b hb => hu (pairs_fst_mem hb).1
        have hx' : x ∉ (v :: rest').dropLast := fun h => hu (List.dropLast_subset _ h)
        simp only [Prod.mk.injEq, true_and, hnot, or_false, true_or, if_true]
        rw [Finset.sum_ite_eq' V v (fun _ => c)]
        simp [hV v (by simp)]
      · have : ∀ b, ((x, b) = (u, v) ∨ (x, b) ∈ pairs (v :: rest')) ↔ (x, b) ∈ pairs (v :: rest') := by
          intro b; constructor
          · rintro (h | h)
            · simp at h; exact absurd h.1 hxu
            · exact h
          · exact Or.inr
        simp only [this, hxu, false_or]
        exact ih'

theorem in_count (V : Finset ι) (path : List ι) (hnd : path.Nodup) (hV : ∀ v ∈ path, v ∈ V) (x : ι) (c : ℤ) :
    ∑ b ∈ V, (if (b, x) ∈ pairs path then c else 0) = if x ∈ path.tail then c else 0 := by
  induction path with
  | nil => simp [pairs]
  | cons u rest ih =>
    cases rest with
    | nil => simp [pairs]
    | cons v rest' =>
      have hnd' : (v :: rest').Nodup := (List.nodup_cons.mp hnd).2
      have hu : u ∉ v :: rest' := (List.nodup_cons.mp hnd).1
      have hv : v ∉ rest' := (List.nodup_cons.mp hnd').1
      have ih' := ih hnd' (fun w hw => hV w (List.mem_cons_of_mem _ hw))
      simp only [pairs, List.mem_cons, List.tail_cons] at ih' ⊢
      by_cases hxv : x = v
      · subst hxv
        have hnot : ∀ b, (b, x) ∉ pairs (x :: rest') := by
          intro b hb
          -- x would have to appear in the tail
          have : x ∈ rest' := by
            clear ih ih' hnd hu hV
            cases rest' with
            | nil => simp [pairs] at hb
            | cons w r2 =>
              simp only [pairs, List.mem_cons] at hb
              rcases hb with hb | hb
              · simp at hb; exact absurd hb.2.symm (by intro h; exact hv (by simp [h]))
              · have := (pairs_fst_mem hb).2
                simp at this
                rcases this with h | h
                · exact absurd h (by intro h'; exact hv (by simp [h']))
                · simp [h]
          exact hv this
        simp only [Prod.mk.injEq, and_true, hnot, or_false, true_or, if_true]
        rw [Finset.sum_ite_eq' V u (fun _ => c)]
        simp [hV u (by simp)]
      · have : ∀ b, ((b, x) = (u, v) ∨ (b, x) ∈ pairs (v :: rest')) ↔ (b, x) ∈ pairs (v :: rest') := by
          intro b; constructor
          · rintro (h | h)
            · simp at h; exact absurd h.2 hxv
            · exact h
          · exact Or.inr
        simp only [this, hxv, false_or]
        exact ih'
