import Sck.Proofs.ElicitRules2
import Sck.Proofs.Irving

/-! Rule-level elicitation models: the per-agent facts of C14 lifted to alternative space (`simRow`, `sim2Row`),
and the integer matrices of the two-sided rule (C17). -/

namespace ElicitRules

open Elicit

/-! ### the well-formedness checkers -/

structure ConsistentRow (row : List Nat) (vrow : List Rat) (m : Nat) : Prop where
  perm : row.Perm (List.range' 1 m)
  vlen : vrow.length = m
  anti : ∀ a b, a < m → b < m → row.getD a 0 ≤ row.getD b 0 → vrow.getD b 0 ≤ vrow.getD a 0
  nonneg : ∀ v ∈ vrow, 0 ≤ v

theorem consistentRowB_iff {row : List Nat} {vrow : List Rat} {m : Nat} :
    consistentRowB row vrow m = true ↔ ConsistentRow row vrow m := by
  unfold consistentRowB
  simp only [Bool.and_eq_true, List.isPerm_iff, beq_iff_eq, List.all_eq_true, List.mem_range, Bool.or_eq_true,
    Bool.not_eq_true', decide_eq_false_iff_not, decide_eq_true_eq]
  constructor
  · rintro ⟨⟨⟨h1, h2⟩, h3⟩, h4⟩
    exact ⟨h1, h2, fun a b ha hb hab => (h3 a ha b hb).resolve_left (fun hn => hn hab), h4⟩
  · rintro ⟨h1, h2, h3, h4⟩
    refine ⟨⟨⟨h1, h2⟩, fun a ha b hb => ?_⟩, h4⟩
    by_cases hab : row.getD a 0 ≤ row.getD b 0
    · exact Or.inr (h3 a b ha hb hab)
    · exact Or.inl hab

theorem sortedB_iff {lams : List Rat} : sortedB lams = true ↔ lams.Pairwise (· ≤ ·) := by
  induction lams with
  | nil => simp [sortedB]
  | cons a rest ih =>
    simp only [sortedB, Bool.and_eq_true, List.all_eq_true, decide_eq_true_eq, List.pairwise_cons, ih]

theorem lamsOkB_iff {lams : List Rat} :
    lamsOkB lams = true ↔ (∀ lam ∈ lams, 1 ≤ lam) ∧ lams.Pairwise (· ≤ ·) := by
  unfold lamsOkB
  simp only [Bool.and_eq_true, List.all_eq_true, decide_eq_true_eq, sortedB_iff]

theorem getD_nonneg {vrow : List Rat} (h : ∀ v ∈ vrow, 0 ≤ v) (k : Nat) : 0 ≤ vrow.getD k 0 := by
  rw [List.getD_eq_getElem?_getD]
  cases hk : vrow[k]? with
  | none => simp
  | some v => exact h v (List.mem_of_getElem? hk)

theorem simWF_of_consistent {row : List Nat} {vrow : List Rat} {m : Nat} {lams : List Rat} (hm : 0 < m)
    (hc : ConsistentRow row vrow m) (hl : lamsOkB lams = true) : SimWF (posVals row vrow) m lams where
  mpos := hm
  anti := by
    intro i j hij hj
    obtain ⟨ha, hra⟩ := rank_at_pos hc.perm (Nat.lt_of_le_of_lt hij hj)
    obtain ⟨hb, hrb⟩ := rank_at_pos hc.perm hj
    exact hc.anti _ _ ha hb (by omega)
  nonneg := getD_nonneg hc.nonneg _
  ge_one := (lamsOkB_iff.1 hl).1
  sorted := (lamsOkB_iff.1 hl).2

theorem posVals_nonneg {row : List Nat} {vrow : List Rat} {m : Nat} (hc : ConsistentRow row vrow m) (q : Nat) :
    0 ≤ posVals row vrow q := getD_nonneg hc.nonneg _

/-- the position of alternative `j`; position 0 iff rank 1 -/
theorem alt_pos_lt {row : List Nat} {m : Nat} (h : row.Perm (List.range' 1 m)) {j : Nat} (hj : j < m) :
    row.getD j 0 - 1 < m := by
  have := rank_pos h hj; omega

/-! ### one-sided threshold rows (k-ARV, lambda-TSF) in alternative space -/

theorem simRow_spec (floor : Rat) {row : List Nat} {vrow : List Rat} {m : Nat} {lams : List Rat} (hm : 0 < m)
    (hc : ConsistentRow row vrow m) (hl : lamsOkB lams = true) :
    ∃ srow, simRow floor row vrow m lams = some srow ∧ srow.length = m ∧
      (∀ j, j < m → row.getD j 0 = 1 → srow.getD j 0 = vrow.getD j 0) ∧
      (∀ j, j < m → srow.getD j 0 ≤ vrow.getD j 0 ∨ srow.getD j 0 = floor) ∧
      (∀ j, j < m → 1 < row.getD j 0 →
        (srow.getD j 0 = floor ∧ ∀ lam ∈ lams, vrow.getD j 0 < posVals row vrow 0 / lam) ∨
        ∃ lam ∈ lams, srow.getD j 0 = posVals row vrow 0 / lam ∧ posVals row vrow 0 / lam ≤ vrow.getD j 0) := by
  have hwf := simWF_of_consistent hm hc hl
  obtain ⟨sim, hsim⟩ := sim_succeeds floor (posVals row vrow) m lams hwf
  refine ⟨scatter row sim, by unfold simRow; rw [hsim]; rfl, by rw [scatter_length, perm_length hc.perm],
    ?_, ?_, ?_⟩
  · intro j hj h1
    rw [scatter_getD hc.perm sim hj, h1, sim_favourite floor _ m lams hwf sim hsim]
    have := posVals_at_alt hc.perm vrow hj
    rwa [h1] at this
  · intro j hj
    rw [scatter_getD hc.perm sim hj, ← posVals_at_alt hc.perm vrow hj]
    rcases sim_le_true floor _ m lams hwf sim hsim _ (alt_pos_lt hc.perm hj) with h | h
    · exact Or.inl h
    · exact Or.inr h.1
  · intro j hj h1
    have hq0 : 0 < row.getD j 0 - 1 := by omega
    rw [scatter_getD hc.perm sim hj, ← posVals_at_alt hc.perm vrow hj]
    rcases inSet_or_outside (posVals row vrow) m lams (row.getD j 0 - 1) with ⟨pre, lam, post, hl', hin⟩ | hout
    · refine Or.inr ⟨lam, by simp [hl'], ?_, ?_⟩
      · exact sim_set_value floor _ m lams hwf sim hsim pre lam post hl' _ hq0 hin
      · exact sim_set_lower _ m lams hwf lam (by simp [hl']) _ hin.1
    · exact Or.inl ⟨sim_outside_value floor _ m lams hwf sim hsim _ hq0 hout,
        sim_outside_upper _ m lams hwf _ (alt_pos_lt hc.perm hj) hout⟩

/-! ### two-sided rows -/

theorem sim2Row_spec {row : List Nat} {vrow : List Rat} {m : Nat} {lams : List Rat} (hm : 0 < m)
    (hc : ConsistentRow row vrow m) (hl : lamsOkB lams = true) :
    ∃ srow, sim2Row row vrow m lams = some srow ∧ srow.length = m ∧
      (∀ j, j < m → row.getD j 0 = 1 → srow.getD j 0 = vrow.getD j 0) ∧
      (∀ j, j < m → srow.getD j 0 ≤ vrow.getD j 0) ∧
      (∀ j, j < m → srow.getD j 0 = 0 ∨ ∃ j', j' < m ∧ srow.getD j 0 = vrow.getD j' 0) := by
  have hwf := simWF_of_consistent hm hc hl
  obtain ⟨sim, hsim⟩ := sim2_succeeds (posVals row vrow) m lams hwf
  refine ⟨scatter row sim, by unfold sim2Row; rw [hsim]; rfl, by rw [scatter_length, perm_length hc.perm],
    ?_, ?_, ?_⟩
  · intro j hj h1
    rw [scatter_getD hc.perm sim hj, h1, sim2_favourite _ m lams hwf sim hsim]
    have := posVals_at_alt hc.perm vrow hj
    rwa [h1] at this
  · intro j hj
    rw [scatter_getD hc.perm sim hj, ← posVals_at_alt hc.perm vrow hj]
    exact sim2_le_true _ m lams hwf sim hsim _ (alt_pos_lt hc.perm hj) (posVals_nonneg hc _)
  · intro j hj
    rw [scatter_getD hc.perm sim hj]
    rcases simulate2_values _ m lams sim hsim (row.getD j 0 - 1) with h0 | ⟨p, hp⟩
    · exact Or.inl h0
    · by_cases hpm : p < m
      · exact Or.inr ⟨_, (rank_at_pos hc.perm hpm).1, by rw [hp]; rfl⟩
      · -- positions beyond the ranking read the default of `getD`: alternative `0`
        refine Or.inr ⟨0, hm, ?_⟩
        rw [hp]
        unfold posVals
        have : (rankedRow row).getD p 0 = 0 := by
          rw [List.getD_eq_getElem?_getD, List.getElem?_eq_none]
          · rfl
          · rw [rankedRow_length, perm_length hc.perm]; omega
        rw [this]

/-! ### rows of `optAll` -/

theorem optAll_eq_some_iff {α : Type} {l : List (Option α)} {M : List α} : optAll l = some M ↔ l = M.map some := by
  induction l generalizing M with
  | nil => cases M <;> simp [optAll]
  | cons x rest ih =>
    cases x with
    | none => cases M <;> simp [optAll]
    | some a =>
      cases M with
      | nil => simp [optAll]
      | cons b M' =>
        simp only [optAll, Option.map_eq_some_iff, List.map_cons, List.cons.injEq, Option.some.injEq]
        constructor
        · rintro ⟨M0, h0, h1, h2⟩
          exact ⟨h1, by rw [← h2]; exact ih.1 h0⟩
        · rintro ⟨h1, h2⟩
          exact ⟨M', ih.2 h2, h1, rfl⟩

theorem optAll_succeeds {α : Type} {l : List (Option α)} (h : ∀ x ∈ l, ∃ a, x = some a) : ∃ M, optAll l = some M := by
  induction l with
  | nil => exact ⟨[], rfl⟩
  | cons x rest ih =>
    obtain ⟨a, rfl⟩ := h x (by simp)
    obtain ⟨M, hM⟩ := ih (fun y hy => h y (List.mem_cons_of_mem _ hy))
    exact ⟨a :: M, by simp [optAll, hM]⟩

theorem truncQ_intCast (z : Int) : truncQ (z : Rat) = z := by
  unfold truncQ
  split
  · exact Rat.floor_intCast z
  · have : (-(z : Rat)) = ((-z : Int) : Rat) := by simp
    rw [this, Rat.floor_intCast]; omega

theorem ratRow_getD (r : List Int) (j : Nat) : (ratRow r).getD j 0 = ((r.getD j 0 : Int) : Rat) := by
  unfold ratRow
  rw [List.getD_eq_getElem?_getD, List.getD_eq_getElem?_getD, List.getElem?_map]
  cases r[j]? <;> simp

/-! ### one side of the two-sided rule -/

theorem dtsfSide_spec {P : List (List Nat)} {V : List (List Int)} {n : Nat} {lams : List Rat}
    (hP : P.length = n) (hV : V.length = n)
    (hc : ∀ i, i < n → consistentRowB (P.getD i []) (ratRow (V.getD i [])) n = true)
    (hl : lamsOkB lams = true) :
    ∃ Q S, dtsfSideQ P V n lams = some Q ∧ dtsfSide P V n lams = some S ∧ S.length = n ∧
      ∀ i j, i < n → j < n →
        (S.getD i []).length = n ∧
        ratOf Q i j = ((intOf S i j : Int) : Rat) ∧
        intOf S i j ≤ intOf V i j ∧
        (rankOf P i j = 1 → intOf S i j = intOf V i j) ∧
        (intOf S i j = 0 ∨ ∃ j', j' < n ∧ intOf S i j = intOf V i j') := by
  have hzl : (P.zip V).length = n := by simp [hP, hV]
  have hrow : ∀ i, i < n → ((P.zip V).map (fun pv => sim2Row pv.1 (ratRow pv.2) n lams))[i]? =
      some (sim2Row (P.getD i []) (ratRow (V.getD i [])) n lams) := by
    intro i hi
    have hi1 : i < P.length := hP ▸ hi
    have hi2 : i < V.length := hV ▸ hi
    have e : (P.zip V)[i]? = some (P[i], V[i]) :=
      List.getElem?_zip_eq_some.2 ⟨List.getElem?_eq_getElem hi1, List.getElem?_eq_getElem hi2⟩
    rw [List.getElem?_map, e]
    simp [List.getD_eq_getElem?_getD, hi1, hi2]
  have hsucc : ∃ Q, dtsfSideQ P V n lams = some Q := by
    apply optAll_succeeds
    intro x hx
    obtain ⟨i, hi, rfl⟩ := List.mem_iff_getElem.1 hx
    have hin : i < n := by simpa [hzl] using hi
    have := hrow i hin
    rw [List.getElem?_eq_getElem hi] at this
    rw [Option.some.inj this]
    obtain ⟨srow, hs, _⟩ := sim2Row_spec (Nat.lt_of_le_of_lt (Nat.zero_le i) hin)
      (consistentRowB_iff.1 (hc i hin)) hl
    exact ⟨srow, hs⟩
  obtain ⟨Q, hQ⟩ := hsucc
  have hQ' := optAll_eq_some_iff.1 hQ
  have hQlen : Q.length = n := by
    have := congrArg List.length hQ'
    simpa [hzl] using this.symm
  refine ⟨Q, Q.map (fun r => r.map truncQ), hQ, by unfold dtsfSide; rw [hQ]; rfl, by simp [hQlen], ?_⟩
  intro i j hi hj
  have hm : 0 < n := Nat.lt_of_le_of_lt (Nat.zero_le i) hi
  obtain ⟨srow, hs, hlen, hfav, hle, hval⟩ := sim2Row_spec hm (consistentRowB_iff.1 (hc i hi)) hl
  have hQi : Q.getD i [] = srow := by
    have h1 := hrow i hi
    rw [hQ', List.getElem?_map, hs] at h1
    rw [List.getD_eq_getElem?_getD]
    cases hq : Q[i]? with
    | none => rw [hq] at h1; simp at h1
    | some r => rw [hq] at h1; simp at h1; simp [h1]
  have hSi : (Q.map (fun r => r.map truncQ)).getD i [] = srow.map truncQ := by
    rw [List.getD_eq_getElem?_getD, List.getElem?_map]
    rw [List.getD_eq_getElem?_getD] at hQi
    cases hq : Q[i]? with
    | none => rw [hq] at hQi; simp at hQi; subst hQi; simp
    | some r => rw [hq] at hQi; simp at hQi; subst hQi; simp
  -- the rational entry is an integer
  have hint : ∃ z : Int, srow.getD j 0 = (z : Rat) := by
    rcases hval j hj with h0 | ⟨j', _, hj'⟩
    · exact ⟨0, by rw [h0]; simp⟩
    · exact ⟨(V.getD i []).getD j' 0, by rw [hj', ratRow_getD]⟩
  obtain ⟨z, hz⟩ := hint
  have hSz : intOf (Q.map (fun r => r.map truncQ)) i j = z := by
    unfold intOf
    rw [hSi, List.getD_eq_getElem?_getD, List.getElem?_map]
    rw [List.getD_eq_getElem?_getD] at hz
    cases hq : srow[j]? with
    | none =>
      have := List.getElem?_eq_none_iff.1 hq
      omega
    | some v => rw [hq] at hz; simp at hz; subst hz; simp [truncQ_intCast]
  have hVz : ((intOf V i j : Int) : Rat) = (ratRow (V.getD i [])).getD j 0 := by
    unfold intOf; rw [ratRow_getD]
  refine ⟨by rw [hSi]; simp [hlen], by unfold ratOf; rw [hQi, hz, hSz], ?_, ?_, ?_⟩
  · rw [hSz]
    have := hle j hj
    rw [hz, ← hVz] at this
    exact_mod_cast this
  · intro hr
    rw [hSz]
    have := hfav j hj hr
    rw [hz, ← hVz] at this
    exact_mod_cast this
  · rw [hSz]
    rcases hval j hj with h0 | ⟨j', hj'm, hj'⟩
    · left; rw [hz] at h0; exact_mod_cast h0
    · right
      refine ⟨j', hj'm, ?_⟩
      rw [hz, ratRow_getD] at hj'
      unfold intOf
      exact_mod_cast hj'

end ElicitRules
