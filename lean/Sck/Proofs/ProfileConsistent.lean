import Sck.Proofs.ProfileBase
import Mathlib.Algebra.Order.Ring.Rat
import Mathlib.Algebra.Order.Field.Basic
import Mathlib.Tactic.Linarith

/-! C18 part D: `is_consistent_valuation_profile` (one row). -/

theorem isConsistentWith_at (tol : Rat → Rat → Bool) (vals : List (Option Rat))
    (ranks : List (Option Nat)) (o1 o2 : List Nat)
    (h : isConsistentWith tol vals ranks o1 o2 = true) (t : Nat) (c d : Nat)
    (hc : o1[t]? = some c) (hd : o2[t]? = some d) :
    c = d ∨ closeV tol (valAt vals d) (valAt vals c) = true := by
  unfold isConsistentWith at h
  rw [List.all_eq_true] at h
  have := h (c, d) (mem_zip_of_getElem? _ _ t _ _ hc hd)
  simpa using this

/-- the predicate rejects a row that values a lower-ranked alternative clearly more than a
higher-ranked one: `T` bounds the tolerance on the values of the row. (Stronger than asked: no
completeness or strictness of the rows is needed, only the four entries involved must be non-NaN.) -/
theorem isConsistent_rejects (tol : Rat → Rat → Bool) (T : Rat) (hT0 : 0 ≤ T)
    (vals : List (Option Rat)) (ranks : List (Option Nat)) (hlen : vals.length = ranks.length)
    (hT : ∀ x y, some x ∈ vals → some y ∈ vals → tol x y = true → |x - y| ≤ T)
    (o1 o2 : List Nat) (first : Bool)
    (h1 : validDescOrder vals o1 = true) (h2 : validAscOrder ranks o2 first = true)
    (a b ra rb : Nat) (x y : Rat)
    (hxa : vals[a]? = some (some x)) (hyb : vals[b]? = some (some y))
    (hra : ranks[a]? = some (some ra)) (hrb : ranks[b]? = some (some rb))
    (hr : ra < rb) (hv : x + 2 * T < y) :
    isConsistentWith tol vals ranks o1 o2 = false := by
  by_contra hcon
  have hcon : isConsistentWith tol vals ranks o1 o2 = true := by simpa using hcon
  have hs1 := sortedOrder_of_desc vals o1 h1
  have hs2 := sortedOrder_of_asc ranks o2 first h2
  have ha : a < ranks.length := (List.getElem?_eq_some_iff.1 hra).1
  have hb : b < ranks.length := (List.getElem?_eq_some_iff.1 hrb).1
  have hne : a ≠ b := by
    rintro rfl
    rw [hra] at hrb
    have := Option.some.inj (Option.some.inj hrb)
    omega
  have hidx : o2.idxOf a < o2.idxOf b := by
    apply hs2.idx_lt_of_not_rel ha hb hne
    rw [valAt_of_getElem? _ _ _ hra, valAt_of_getElem? _ _ _ hrb]
    simp only [ascLe, decide_eq_true_eq]
    omega
  have hsa := hs2.idx_lt' ha
  have hsb := hs2.idx_lt' hb
  have hl1 : o1.length = ranks.length := by rw [hs1.length_eq, hlen]
  have hl2 : o2.length = ranks.length := hs2.length_eq
  -- the item of `o1` facing a given non-NaN item of `o2` has a value within `T`
  have face : ∀ (t : Nat) (ht : t < o1.length) (d : Nat) (z : Rat), o2[t]? = some d →
      vals[d]? = some (some z) → ∃ w, valAt vals o1[t] = some w ∧ |z - w| ≤ T := by
    intro t ht d z hd hz
    rcases isConsistentWith_at tol vals ranks o1 o2 hcon t _ d (List.getElem?_eq_getElem ht) hd
      with hcd | hcl
    · refine ⟨z, ?_, by simpa using hT0⟩
      rw [hcd]; exact valAt_of_getElem? _ _ _ hz
    · rw [valAt_of_getElem? _ _ _ hz] at hcl
      cases hw : valAt vals o1[t] with
      | none => rw [hw] at hcl; simp [closeV] at hcl
      | some w =>
        rw [hw] at hcl
        simp only [closeV] at hcl
        refine ⟨w, rfl, hT z w (List.mem_of_getElem? hz) ?_ hcl⟩
        exact List.mem_of_getElem? ((valAt_eq_some _ _ _).1 hw)
  have hta : o2.idxOf a < o1.length := by omega
  have htb : o2.idxOf b < o1.length := by omega
  obtain ⟨w, hw, hxw⟩ := face (o2.idxOf a) hta a x
    (by rw [List.getElem?_eq_getElem (by omega), hs2.getElem_idx ha]) hxa
  obtain ⟨w', hw', hyw⟩ := face (o2.idxOf b) htb b y
    (by rw [List.getElem?_eq_getElem (by omega), hs2.getElem_idx hb]) hyb
  have hdesc := List.pairwise_iff_getElem.1 hs1.sorted _ _ hta htb hidx
  rw [hw, hw'] at hdesc
  simp only [descLe, decide_eq_true_eq] at hdesc
  rw [abs_le] at hxw hyw
  linarith [hxw.1, hxw.2, hyw.1, hyw.2]

theorem descLe_antisymm (a b : Option Rat) (h1 : descLe a b = true) (h2 : descLe b a = true) :
    a = b := by
  cases a with
  | none =>
    cases b with
    | none => rfl
    | some y => simp [descLe] at h1
  | some x =>
    cases b with
    | none => simp [descLe] at h2
    | some y =>
      simp only [descLe, decide_eq_true_eq] at h1 h2
      rw [le_antisymm h2 h1]

/-- the predicate accepts a row whose values are weakly decreasing along a strict ranking with the
same NaN pattern, whatever admissible orders numpy produced — provided `tol x x` holds. -/
theorem isConsistent_accepts (tol : Rat → Rat → Bool) (htol : ∀ x, tol x x = true)
    (vals : List (Option Rat)) (ranks : List (Option Nat)) (hlen : vals.length = ranks.length)
    (hnan : ∀ j, j < ranks.length → (valAt vals j).isSome = (valAt ranks j).isSome)
    (hstrict : (ranks.filterMap id).Nodup)
    (hdec : ∀ (a b ra rb : Nat) (x y : Rat), ranks[a]? = some (some ra) → ranks[b]? = some (some rb) →
      vals[a]? = some (some x) → vals[b]? = some (some y) → ra < rb → y ≤ x)
    (o1 o2 : List Nat) (first : Bool)
    (h1 : validDescOrder vals o1 = true) (h2 : validAscOrder ranks o2 first = true) :
    isConsistentWith tol vals ranks o1 o2 = true := by
  have hs1 := sortedOrder_of_desc vals o1 h1
  have hs2 := sortedOrder_of_asc ranks o2 first h2
  -- `o2` is also sorted by value, descending, NaN last
  have hs2' : o2.Pairwise (fun a b => descLe (valAt vals a) (valAt vals b) = true) := by
    have := hs2.sorted.and hs2.nodup
    refine this.imp_of_mem ?_
    intro a b ha hb hab
    obtain ⟨hasc, hne⟩ := hab
    have ha' : a < ranks.length := (hs2.mem_iff a).1 ha
    have hb' : b < ranks.length := (hs2.mem_iff b).1 hb
    have hna := hnan a ha'
    have hnb := hnan b hb'
    cases hrb : valAt ranks b with
    | none =>
      rw [hrb] at hnb
      cases hvb : valAt vals b with
      | none => cases valAt vals a <;> simp [descLe]
      | some y => rw [hvb] at hnb; simp at hnb
    | some rb =>
      rw [hrb] at hasc hnb
      cases hra : valAt ranks a with
      | none => rw [hra] at hasc; simp [ascLe] at hasc
      | some ra =>
        rw [hra] at hasc hna
        simp only [ascLe, decide_eq_true_eq] at hasc
        cases hva : valAt vals a with
        | none => rw [hva] at hna; simp at hna
        | some x =>
          cases hvb : valAt vals b with
          | none => rw [hvb] at hnb; simp at hnb
          | some y =>
            simp only [descLe, decide_eq_true_eq]
            have hra' := (valAt_eq_some _ _ _).1 hra
            have hrb' := (valAt_eq_some _ _ _).1 hrb
            have hlt : ra < rb := by
              rcases Nat.lt_or_ge ra rb with h | h
              · exact h
              · have : ra = rb := by omega
                subst this
                exact absurd (eq_of_nodup_filterMap ranks hstrict a b ra hra' hrb') hne
            exact hdec a b ra rb x y hra' hrb' ((valAt_eq_some _ _ _).1 hva)
              ((valAt_eq_some _ _ _).1 hvb) hlt
  have hperm : (o1.map (valAt vals)).Perm (o2.map (valAt vals)) := by
    apply List.Perm.map
    refine hs1.perm.trans ?_
    rw [hlen]
    exact hs2.perm.symm
  have heq : o1.map (valAt vals) = o2.map (valAt vals) := by
    refine List.Perm.eq_of_pairwise (le := fun a b => descLe a b = true) ?_ ?_ ?_ hperm
    · intro a b _ _ hab hba
      exact descLe_antisymm a b hab hba
    · rw [List.pairwise_map]; exact hs1.sorted
    · rw [List.pairwise_map]; exact hs2'
  unfold isConsistentWith
  rw [List.all_eq_true]
  intro p hp
  obtain ⟨t, hc, hd⟩ := getElem?_of_mem_zip _ _ p hp
  have : (o1.map (valAt vals))[t]? = (o2.map (valAt vals))[t]? := by rw [heq]
  rw [List.getElem?_map, List.getElem?_map, hc, hd] at this
  simp only [Option.map_some, Option.some.injEq] at this
  rw [this]
  simp only [Bool.or_eq_true, beq_iff_eq]
  right
  cases valAt vals p.2 with
  | none => rfl
  | some x => exact htol x

theorem ratAbs_eq_abs (x : Rat) : ratAbs x = |x| := by
  unfold ratAbs
  split
  · rw [abs_of_neg (by assumption)]
  · rw [abs_of_nonneg (not_lt.1 (by assumption))]

theorem npTol_refl (x : Rat) : npTol x x = true := by
  unfold npTol
  simp only [sub_self, decide_eq_true_eq, ratAbs_eq_abs, abs_zero]
  positivity

/-- numpy's default tolerance on values of absolute value ≤ 1 -/
theorem npTol_bound (x y : Rat) (hy : |y| ≤ 1) (h : npTol x y = true) :
    |x - y| ≤ 1 / 100000000 + 1 / 100000 := by
  unfold npTol at h
  simp only [decide_eq_true_eq, ratAbs_eq_abs] at h
  have : (1 : Rat) / 100000 * |y| ≤ 1 / 100000 := by
    have h0 : (0 : Rat) ≤ 1 / 100000 := by norm_num
    nlinarith
  linarith
