import Sck.Model.Mcm

/-! C09, certificate level: matchings, vertex covers, weak duality (|matching| ≤ |cover|), soundness of the
König certificate checker.  Core only. -/

/-- `M` is a set of edges of the graph (left vertex first) in which no vertex occurs twice -/
def IsMatching (X : List Int) (adj : Int → List Int) (M : List (Int × Int)) : Prop :=
  (∀ p ∈ M, p.1 ∈ X ∧ p.2 ∈ adj p.1) ∧ (M.map (·.1) ++ M.map (·.2)).Nodup

/-- `C` meets every edge of the graph -/
def IsVertexCover (X : List Int) (adj : Int → List Int) (C : List Int) : Prop :=
  ∀ x ∈ X, ∀ y ∈ adj x, x ∈ C ∨ y ∈ C

theorem isMatchingB_iff (X : List Int) (adj : Int → List Int) (M : List (Int × Int)) :
    isMatchingB X adj M = true ↔ IsMatching X adj M := by
  simp only [isMatchingB, IsMatching, Bool.and_eq_true, List.all_eq_true, List.contains_iff_mem,
    decide_eq_true_eq]

theorem koenigCertOk_iff (X : List Int) (adj : Int → List Int) (M : List (Int × Int)) (C : List Int) :
    koenigCertOk X adj M C = true ↔ IsVertexCover X adj C ∧ C.length = M.length := by
  simp only [koenigCertOk, IsVertexCover, Bool.and_eq_true, List.all_eq_true, Bool.or_eq_true,
    List.contains_iff_mem, beq_iff_eq]

/-- pairs with pairwise distinct endpoints, each meeting `C`, are at most `|C|` many -/
theorem pairs_le_of_hit (M : List (Int × Int)) :
    ∀ C : List Int, (M.map (·.1) ++ M.map (·.2)).Nodup → (∀ p ∈ M, p.1 ∈ C ∨ p.2 ∈ C) →
      M.length ≤ C.length := by
  induction M with
  | nil => intro C _ _; simp
  | cons p M ih =>
    intro C hnd hhit
    simp only [List.map_cons, List.cons_append, List.nodup_cons, List.mem_append, List.mem_map,
      List.mem_cons, not_or, not_exists, not_and, List.nodup_append] at hnd
    obtain ⟨⟨hp1a, _, hp1b⟩, hndX, ⟨hp2b, hndY⟩, hdis⟩ := hnd
    have hnd'' : (M.map (·.1) ++ M.map (·.2)).Nodup := by
      rw [List.nodup_append]
      refine ⟨hndX, hndY, fun a ha b hb => ?_⟩
      obtain ⟨q, hq, rfl⟩ := List.mem_map.mp ha
      obtain ⟨r, hr, rfl⟩ := List.mem_map.mp hb
      exact hdis q.1 ⟨q, hq, rfl⟩ r.2 (Or.inr ⟨r, hr, rfl⟩)
    have hp2 : ∀ q ∈ M, q.1 ≠ p.2 ∧ q.2 ≠ p.2 :=
      fun q hq => ⟨hdis q.1 ⟨q, hq, rfl⟩ p.2 (Or.inl rfl), hp2b q hq⟩
    -- the endpoint of `p` in `C`
    obtain ⟨v, hvC, hv⟩ : ∃ v, v ∈ C ∧ ∀ q ∈ M, q.1 ≠ v ∧ q.2 ≠ v := by
      rcases hhit p (by simp) with h | h
      · exact ⟨p.1, h, fun q hq => ⟨fun e => hp1a q hq e, fun e => hp1b q hq e⟩⟩
      · exact ⟨p.2, h, hp2⟩
    have hlen := ih (C.erase v) hnd'' (by
      intro q hq
      rcases hhit q (by simp [hq]) with h | h
      · exact Or.inl ((List.mem_erase_of_ne (hv q hq).1).mpr h)
      · exact Or.inr ((List.mem_erase_of_ne (hv q hq).2).mpr h))
    have := List.length_erase_of_mem hvC
    have hpos : 0 < C.length := List.length_pos_of_mem hvC
    simp only [List.length_cons]
    omega

/-- weak duality: a matching is no larger than a vertex cover -/
theorem matching_le_cover (X : List Int) (adj : Int → List Int) (M' : List (Int × Int)) (C : List Int)
    (hM : IsMatching X adj M') (hC : IsVertexCover X adj C) : M'.length ≤ C.length :=
  pairs_le_of_hit M' C hM.2 (fun p hp => hC p.1 (hM.1 p hp).1 p.2 (hM.1 p hp).2)

/-- soundness of the König certificate: a vertex cover of the size of `M` bounds every matching -/
theorem koenigCertOk_sound (X : List Int) (adj : Int → List Int) (M : List (Int × Int)) (C : List Int)
    (h : koenigCertOk X adj M C = true) :
    ∀ M', IsMatching X adj M' → M'.length ≤ M.length := by
  rw [koenigCertOk_iff] at h
  intro M' hM'
  rw [← h.2]
  exact matching_le_cover X adj M' C hM' h.1

#print axioms isMatchingB_iff
#print axioms matching_le_cover
#print axioms koenigCertOk_sound
