import Sck.Model.SMCert
import Sck.Proofs.SMDual
import Sck.Proofs.CertProof
import Mathlib.Algebra.BigOperators.Fin
import Mathlib.Algebra.Order.Ring.Rat

/-! C03/C17 prototype: soundness of the executable certificate checker. -/

open Finset

theorem sumRange_succ (n : Nat) (f : Nat → ℚ) : sumRange (n + 1) f = sumRange n f + f n := by
  simp [sumRange, List.range_succ, List.foldl_append]

theorem sumRange_eq (n : Nat) (f : Nat → ℚ) : sumRange n f = ∑ i : Fin n, f i := by
  rw [Fin.sum_univ_eq_sum_range (fun i => f i) n]
  induction n with
  | zero => simp [sumRange]
  | succ n ih => rw [sumRange_succ, Finset.sum_range_succ, ih]

/-- Soundness: a certificate accepted by the executable checker proves that the matching is stable
and that no stable matching has larger weight. -/
theorem smCertOk_sound (n : Nat) (P1 P2 : List (List Nat)) (V1 V2 : List (List Int)) (mu inv : List Nat)
    (alpha beta : List Rat) (y : List (List Rat))
    (hok : smCertOk n P1 P2 V1 V2 mu inv alpha beta y = true) :
    ∃ hp : isPermWith n mu inv = true,
      StableSM (fun a b : Fin n => rankOf P1 a b) (fun b a : Fin n => rankOf P2 b a) (permOfLists n mu inv hp) ∧
      ∀ ν : Equiv.Perm (Fin n),
        StableSM (fun a b : Fin n => rankOf P1 a b) (fun b a : Fin n => rankOf P2 b a) ν →
        ∑ a : Fin n, weightOf V1 V2 a (ν a) ≤ ∑ a : Fin n, weightOf V1 V2 a (permOfLists n mu inv hp a) := by
  simp only [smCertOk, Bool.and_eq_true, decide_eq_true_eq] at hok
  obtain ⟨⟨⟨⟨⟨hp, hinj⟩, hstab⟩, hy⟩, hfeas⟩, hval⟩ := hok
  refine ⟨hp, ?_, ?_⟩
  · -- stability of the returned matching
    intro a b hblock
    have h1 := (allLt_iff _ _).mp ((allLt_iff _ _).mp hstab a a.2) b b.2
    simp only [Bool.not_eq_true', Bool.and_eq_false_iff, decide_eq_false_iff_not] at h1
    have hmu : ((permOfLists n mu inv hp) a : Nat) = mu.getD a n := rfl
    have hinv : ((permOfLists n mu inv hp).symm b : Nat) = inv.getD b n := rfl
    rw [← hmu, ← hinv] at h1
    rcases h1 with h1 | h1
    · exact h1 hblock.1
    · exact h1 hblock.2
  · intro ν hν
    have hinj' : ∀ b : Fin n, Function.Injective (fun a : Fin n => rankOf P2 b a) := by
      intro b a a' h
      have := (allLt_iff _ _).mp ((allLt_iff _ _).mp ((allLt_iff _ _).mp hinj b b.2) a a.2) a' a'.2
      simp only [Bool.or_eq_true, beq_iff_eq, bne_iff_ne] at this
      rcases this with h1 | h1
      · exact Fin.ext h1
      · exact absurd h h1
    have hoccurs : ∀ a b i j : Fin n,
        occursB P1 P2 a b i j = true ↔
          occurs (fun a b : Fin n => rankOf P1 a b) (fun b a : Fin n => rankOf P2 b a) a b i j := by
      intro a b i j
      unfold occursB occurs
      simp only [Bool.or_eq_true, Bool.and_eq_true, beq_iff_eq, decide_eq_true_eq, bne_iff_ne, ne_eq,
        Fin.val_inj, and_assoc]
    have hdual := sm_weak_duality (fun a b : Fin n => rankOf P1 a b) (fun b a : Fin n => rankOf P2 b a) hinj'
      (fun a b => weightOf V1 V2 a b) (fun a => alpha.getD a 0) (fun b => beta.getD b 0)
      (fun i j => ratOf y i j)
      (by
        intro i j
        have := (allLt_iff _ _).mp ((allLt_iff _ _).mp hy i i.2) j j.2
        simpa using this)
      (by
        intro a b
        have := (allLt_iff _ _).mp ((allLt_iff _ _).mp hfeas a a.2) b b.2
        simp only [decide_eq_true_eq, sumRange_eq] at this
        convert this using 4
        rename_i i _ j _
        by_cases h : occursB P1 P2 a b i j = true
        · simp [h, (hoccurs a b i j).mp h]
        · have h' : ¬ occurs (fun a b : Fin n => rankOf P1 a b) (fun b a : Fin n => rankOf P2 b a) a b i j :=
            fun hc => h ((hoccurs a b i j).mpr hc)
          simp [h, h'])
      ν hν
    have hval' : ∑ a : Fin n, weightOf V1 V2 a (permOfLists n mu inv hp a) =
        ∑ a : Fin n, alpha.getD a 0 + ∑ b : Fin n, beta.getD b 0 - ∑ i : Fin n, ∑ j : Fin n, ratOf y i j := by
      simp only [sumRange_eq] at hval
      exact hval
    rw [hval']
    exact hdual

#print axioms smCertOk_sound

/-! ## Standalone stability checker -/

/-- the executable stability test decides `StableSM` (used for outputs without an optimality certificate) -/
theorem stableB_iff (n : Nat) (P1 P2 : List (List Nat)) (mu inv : List Nat)
    (hp : isPermWith n mu inv = true) :
    stableB n P1 P2 mu inv = true ↔
      StableSM (fun a b : Fin n => rankOf P1 a b) (fun b a : Fin n => rankOf P2 b a) (permOfLists n mu inv hp) := by
  have hmu : ∀ a : Fin n, ((permOfLists n mu inv hp) a : Nat) = mu.getD a n := fun _ => rfl
  have hinv : ∀ b : Fin n, ((permOfLists n mu inv hp).symm b : Nat) = inv.getD b n := fun _ => rfl
  constructor
  · intro hstab a b hblock
    have h1 := (allLt_iff _ _).mp ((allLt_iff _ _).mp hstab a a.2) b b.2
    simp only [Bool.not_eq_true', Bool.and_eq_false_iff, decide_eq_false_iff_not] at h1
    rw [← hmu, ← hinv] at h1
    rcases h1 with h1 | h1
    · exact h1 hblock.1
    · exact h1 hblock.2
  · intro hst
    unfold stableB
    rw [allLt_iff]; intro a ha
    rw [allLt_iff]; intro b hb
    have := hst ⟨a, ha⟩ ⟨b, hb⟩
    simp only [hmu, hinv] at this
    simp only [Bool.not_eq_true', Bool.and_eq_false_iff, decide_eq_false_iff_not]
    by_cases h : rankOf P1 a b < rankOf P1 a (mu.getD a n)
    · right; intro h2; exact this ⟨h, h2⟩
    · left; exact h

/-- total value as an integer: the `Rat`-valued `weightOf` sum is the cast of the integer sum -/
theorem weightOf_sum_cast (n : Nat) (V1 V2 : List (List Int)) (ν : Equiv.Perm (Fin n)) :
    ∑ a : Fin n, weightOf V1 V2 a (ν a) = ((∑ a : Fin n, (intOf V1 a (ν a) + intOf V2 (ν a) a) : Int) : ℚ) := by
  simp [weightOf]
