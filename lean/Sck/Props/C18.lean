import Sck.Proofs.ProfileExtra
import Sck.Proofs.ProfileTiesGeneral

/-! # C18 — profile conversions and valuation generators

"Deriving an ordinal profile from valuations ranks strictly higher values strictly better, gives each
agent the ranks 1..k over its k non-NaN entries and keeps NaN entries; breaking ties yields a strict
profile that preserves every strict comparison and the NaN pattern, and completing an incomplete
profile keeps all existing ranks and ranks the missing alternatives after them. The uniform and normal
generators return non-negative valuations that are weakly decreasing along each agent's ranking, sum
to one per agent, keep the NaN pattern, are reproducible from the seed (whenever at least one of an
agent's draws is positive), are accepted by the consistency predicate, and that predicate rejects any
valuation profile that values a lower-ranked alternative clearly more than a higher-ranked one."

Everything is per agent (one row). `none` = NaN. Orders left open by numpy (`argsort` among equal
keys / NaNs, `np.random.shuffle`) are universally quantified: `validDescOrder`, `validAscOrder`,
`validNanOrder` say what numpy guarantees. The Bool checkers `ordinalOkB`, `strictifyOkB`,
`completeOkB` are what the Python harness runs on (input row, implementation output row); the `_spec`
theorems say what an accepted output satisfies, the `_model_ok` theorems that every behaviour of the
model is accepted. Property theorems only; helper lemmas live in `Sck/Proofs/Profile*.lean`. -/

/-! ## A. `compute_ordinal_profile` -/

/-- every admissible `argsort` outcome gives an accepted ordinal row -/
theorem C18_ordinal_model_ok (vals : List (Option Rat)) (order : List Nat)
    (h : validDescOrder vals order = true) :
    ordinalOkB vals (ordinalWith vals order) = true :=
  ordinalWith_ok vals order h

/-- an accepted ordinal row: same length; NaN exactly where the valuation is NaN; a strictly higher
value gets a strictly smaller rank; the ranks are 1..k (k = number of non-NaN entries), each taken by
exactly one position -/
theorem C18_ordinal_spec (vals : List (Option Rat)) (out : List (Option Nat))
    (h : ordinalOkB vals out = true) :
    out.length = vals.length ∧
    (∀ j : Nat, out[j]? = some none ↔ vals[j]? = some none) ∧
    (∀ (a b : Nat) (x y : Rat), vals[a]? = some (some x) → vals[b]? = some (some y) → y < x →
      ∃ ra rb, out[a]? = some (some ra) ∧ out[b]? = some (some rb) ∧ ra < rb) ∧
    (∀ (j r : Nat), out[j]? = some (some r) → 1 ≤ r ∧ r ≤ numSome vals) ∧
    (∀ r : Nat, 1 ≤ r → r ≤ numSome vals → ∃ j : Nat, out[j]? = some (some r) ∧
      ∀ j' : Nat, out[j']? = some (some r) → j' = j) :=
  ordinalOkB_spec vals out h

/-- there always is an admissible order (the stable one), so the two theorems above are not vacuous -/
theorem C18_ordinal_order_exists (vals : List (Option Rat)) :
    validDescOrder vals (descOrderStable vals) = true :=
  descOrderStable_valid vals

/-- A in one statement: whatever admissible order `argsort` returned, the computed ordinal row ranks
strictly higher values strictly better, uses exactly the ranks 1..k once each, keeps the NaN pattern -/
theorem C18_ordinal (vals : List (Option Rat)) (order : List Nat)
    (h : validDescOrder vals order = true) :
    (ordinalWith vals order).length = vals.length ∧
    (∀ j : Nat, (ordinalWith vals order)[j]? = some none ↔ vals[j]? = some none) ∧
    (∀ (a b : Nat) (x y : Rat), vals[a]? = some (some x) → vals[b]? = some (some y) → y < x →
      ∃ ra rb, (ordinalWith vals order)[a]? = some (some ra) ∧
        (ordinalWith vals order)[b]? = some (some rb) ∧ ra < rb) ∧
    (∀ (j r : Nat), (ordinalWith vals order)[j]? = some (some r) → 1 ≤ r ∧ r ≤ numSome vals) ∧
    (∀ r : Nat, 1 ≤ r → r ≤ numSome vals → ∃ j : Nat, (ordinalWith vals order)[j]? = some (some r) ∧
      ∀ j' : Nat, (ordinalWith vals order)[j']? = some (some r) → j' = j) :=
  ordinalOkB_spec vals _ (ordinalWith_ok vals order h)

/-! ## B. `profile_with_ties_to_strict_profile` -/

/-- on a well-formed row with ties, every admissible sort/shuffle outcome gives an accepted row;
`first = true`: the outcome of the `first` tie-breaker is accepted by the stricter `first` check -/
theorem C18_ties_model_ok (row : List (Option Nat)) (order : List Nat) (first : Bool)
    (h : validAscOrder row order first = true) (hwf : wfTiesB row = true) :
    strictifyOkB row (breakTiesWith row order) first = true :=
  breakTiesWith_ok row order first h hwf

/-- an accepted row: same length; same NaN pattern; strict (no rank twice); every strict comparison
preserved; a member of a tie class written `r` of size `t` gets a rank in `r..r+t-1`; with `first`,
inside a class the smaller position gets the smaller rank -/
theorem C18_ties_spec (row out : List (Option Nat)) (first : Bool)
    (h : strictifyOkB row out first = true) :
    out.length = row.length ∧
    (∀ j : Nat, out[j]? = some none ↔ row[j]? = some none) ∧
    (∀ (i j r : Nat), out[i]? = some (some r) → out[j]? = some (some r) → i = j) ∧
    (∀ (a b ra rb : Nat), row[a]? = some (some ra) → row[b]? = some (some rb) → ra < rb →
      ∃ sa sb, out[a]? = some (some sa) ∧ out[b]? = some (some sb) ∧ sa < sb) ∧
    (∀ (a r : Nat), row[a]? = some (some r) →
      ∃ s, out[a]? = some (some s) ∧ r ≤ s ∧ s < r + row.count (some r)) ∧
    (first = true → ∀ (a b r : Nat), a < b → row[a]? = some (some r) → row[b]? = some (some r) →
      ∃ sa sb, out[a]? = some (some sa) ∧ out[b]? = some (some sb) ∧ sa < sb) :=
  strictifyOkB_spec row out first h

/-- … and the positions of a tie class are mapped bijectively onto its block of ranks -/
theorem C18_ties_block (row out : List (Option Nat)) (first : Bool)
    (h : strictifyOkB row out first = true) (r : Nat) :
    (((List.range row.length).filter (fun j => valAt row j == some r)).map (valAt out)).Perm
      ((List.range' r (row.count (some r))).map some) :=
  strictifyOkB_block_perm row out first h r

/-- B in one statement (the three clauses named in the property): the model output is strict,
preserves every strict comparison and keeps the NaN pattern -/
theorem C18_ties (row : List (Option Nat)) (order : List Nat) (first : Bool)
    (h : validAscOrder row order first = true) (hwf : wfTiesB row = true) :
    (∀ j : Nat, (breakTiesWith row order)[j]? = some none ↔ row[j]? = some none) ∧
    (∀ (i j r : Nat), (breakTiesWith row order)[i]? = some (some r) →
      (breakTiesWith row order)[j]? = some (some r) → i = j) ∧
    (∀ (a b ra rb : Nat), row[a]? = some (some ra) → row[b]? = some (some rb) → ra < rb →
      ∃ sa sb, (breakTiesWith row order)[a]? = some (some sa) ∧
        (breakTiesWith row order)[b]? = some (some sb) ∧ sa < sb) :=
  let s := strictifyOkB_spec row _ first (breakTiesWith_ok row order first h hwf)
  ⟨s.2.1, s.2.2.1, s.2.2.2.1⟩

theorem C18_ties_order_exists (row : List (Option Nat)) (first : Bool) :
    validAscOrder row (ascOrderFirst row) first = true :=
  ascOrderFirst_valid row first

/-! ### B for EVERY encoding of a weak order (no `wfTiesB`): the behaviour after `fix:` F14

`C18_ties` above needs rows whose ties are numbered competition style (1,1,3), because the pinned code left untied entries
untouched. A densely numbered row (1,1,2) is a legal `ProfileWithTies` too; on it the pinned code returned (1,2,2) — see the
`example` below: `breakTiesWith` (the pinned behaviour) violates strictness there. The repaired code writes 1 + the position
in the sorted order into every non-NaN entry (`breakTiesPos`) and the three clauses hold unconditionally. -/

theorem C18_ties_general_model_ok (row : List (Option Nat)) (order : List Nat) (first : Bool)
    (h : validAscOrder row order first = true) :
    strictOkB row (breakTiesPos row order) first = true :=
  breakTiesPos_ok row order first h

/-- an accepted row: same length; same NaN pattern; strict; every strict comparison preserved; with `first`, inside a tie
class the smaller position gets the smaller rank -/
theorem C18_ties_general_spec (row out : List (Option Nat)) (first : Bool)
    (h : strictOkB row out first = true) :
    out.length = row.length ∧
    (∀ j : Nat, out[j]? = some none ↔ row[j]? = some none) ∧
    (∀ (i j r : Nat), out[i]? = some (some r) → out[j]? = some (some r) → i = j) ∧
    (∀ (a b ra rb : Nat), row[a]? = some (some ra) → row[b]? = some (some rb) → ra < rb →
      ∃ sa sb, out[a]? = some (some sa) ∧ out[b]? = some (some sb) ∧ sa < sb) ∧
    (first = true → ∀ (a b r : Nat), a < b → row[a]? = some (some r) → row[b]? = some (some r) →
      ∃ sa sb, out[a]? = some (some sa) ∧ out[b]? = some (some sb) ∧ sa < sb) :=
  strictOkB_spec row out first h

/-- B in one statement, for every row with ties whatever its numbering -/
theorem C18_ties_general (row : List (Option Nat)) (order : List Nat) (first : Bool)
    (h : validAscOrder row order first = true) :
    (∀ j : Nat, (breakTiesPos row order)[j]? = some none ↔ row[j]? = some none) ∧
    (∀ (i j r : Nat), (breakTiesPos row order)[i]? = some (some r) →
      (breakTiesPos row order)[j]? = some (some r) → i = j) ∧
    (∀ (a b ra rb : Nat), row[a]? = some (some ra) → row[b]? = some (some rb) → ra < rb →
      ∃ sa sb, (breakTiesPos row order)[a]? = some (some sa) ∧
        (breakTiesPos row order)[b]? = some (some sb) ∧ sa < sb) :=
  let s := strictOkB_spec row _ first (breakTiesPos_ok row order first h)
  ⟨s.2.1, s.2.2.1, s.2.2.2.1⟩

/-- on competition-numbered rows the repair changes nothing -/
theorem C18_ties_repair_conservative (row : List (Option Nat)) (order : List Nat) (first : Bool)
    (h : validAscOrder row order first = true) (hwf : wfTiesB row = true) :
    breakTiesWith row order = breakTiesPos row order :=
  breakTiesWith_eq_pos row order first h hwf

/-- the competition-style checker implies the general one -/
theorem C18_strictify_implies_general (row out : List (Option Nat)) (first : Bool)
    (h : strictifyOkB row out first = true) : strictOkB row out first = true :=
  strictOkB_of_strictifyOkB row out first h

/-- `incomplete_valuation_profile_to_complete_valuation_profile` (a conversion next to the ones the property names): same length,
every value kept, every NaN replaced by 0 -/
theorem C18_fillZero_spec (vals : List (Option Rat)) :
    (fillZero vals).length = vals.length ∧
    (∀ (j : Nat) (v : Rat), vals[j]? = some (some v) → (fillZero vals)[j]? = some v) ∧
    (∀ j : Nat, vals[j]? = some none → (fillZero vals)[j]? = some 0) :=
  fillZero_spec vals

/-! ## C. `incomplete_profile_to_complete_profile` (`mode` 0 accept, 1 first, otherwise random) -/

theorem C18_complete_model_ok (row : List (Option Nat)) (mode : Nat) (nanOrder : List Nat)
    (h : mode = 0 ∨ mode = 1 ∨ validNanOrder row nanOrder = true) :
    completeOkB row (completeWith row mode nanOrder) mode = true :=
  completeWith_ok row mode nanOrder h

/-- an accepted row (`m` alternatives, `k` NaNs): same length; existing ranks kept; every missing
alternative gets a rank in `m-k+1..m`; accept: all get `m-k+1`; first: the t-th NaN position gets
`m-k+1+t`; first/random: the NaN positions are mapped bijectively onto `m-k+1..m` -/
theorem C18_complete_spec (row out : List (Option Nat)) (mode : Nat)
    (h : completeOkB row out mode = true) :
    out.length = row.length ∧
    (∀ (j r : Nat), row[j]? = some (some r) → out[j]? = some (some r)) ∧
    (∀ j : Nat, row[j]? = some none → ∃ s, out[j]? = some (some s) ∧
      row.length - (nanPositions row).length + 1 ≤ s ∧ s ≤ row.length) ∧
    (mode = 0 → ∀ j : Nat, row[j]? = some none →
      out[j]? = some (some (row.length - (nanPositions row).length + 1))) ∧
    (mode = 1 → ∀ (t : Nat) (ht : t < (nanPositions row).length),
      out[(nanPositions row)[t]]? = some (some (row.length - (nanPositions row).length + 1 + t))) ∧
    (mode ≠ 0 → ((nanPositions row).map (valAt out)).Perm
      ((List.range' (row.length - (nanPositions row).length + 1) (nanPositions row).length).map some)) :=
  completeOkB_spec row out mode h

/-- if the existing ranks do not exceed `m - k` (every well-formed incomplete row), the missing
alternatives are ranked strictly after every existing rank -/
theorem C18_complete_after (row out : List (Option Nat)) (mode : Nat)
    (h : completeOkB row out mode = true) (hwf : wfIncompleteB row = true)
    (i j r : Nat) (hi : row[i]? = some (some r)) (hj : row[j]? = some none) :
    ∃ s, out[j]? = some (some s) ∧ out[i]? = some (some r) ∧ r < s :=
  completeOkB_after row out mode h hwf i j r hi hj

/-! ## D. `is_consistent_valuation_profile` (with the repair "both NaN ⇒ agree") -/

/-- rejection: some alternative `a` is ranked better than `b` but valued less by more than `2T`, where
`T ≥ 0` bounds `|x - y|` for all values `x y` of the row that `tol` calls close. Then, whatever
admissible orders numpy produced, the predicate is `false`. (No completeness/strictness needed; the
requested statement for complete strict rows is the special case.) -/
theorem C18_consistent_rejects (tol : Rat → Rat → Bool) (T : Rat) (hT0 : 0 ≤ T)
    (vals : List (Option Rat)) (ranks : List (Option Nat)) (hlen : vals.length = ranks.length)
    (hT : ∀ x y, some x ∈ vals → some y ∈ vals → tol x y = true → |x - y| ≤ T)
    (o1 o2 : List Nat) (first : Bool)
    (h1 : validDescOrder vals o1 = true) (h2 : validAscOrder ranks o2 first = true)
    (a b ra rb : Nat) (x y : Rat)
    (hxa : vals[a]? = some (some x)) (hyb : vals[b]? = some (some y))
    (hra : ranks[a]? = some (some ra)) (hrb : ranks[b]? = some (some rb))
    (hr : ra < rb) (hv : x + 2 * T < y) :
    isConsistentWith tol vals ranks o1 o2 = false :=
  isConsistent_rejects tol T hT0 vals ranks hlen hT o1 o2 first h1 h2 a b ra rb x y
    hxa hyb hra hrb hr hv

/-- with numpy's default tolerance and values of absolute value ≤ 1: "clearly more" = more than
`2·(1e-8 + 1e-5)` -/
theorem C18_consistent_rejects_np (vals : List (Option Rat)) (ranks : List (Option Nat))
    (hlen : vals.length = ranks.length) (hbound : ∀ y, some y ∈ vals → |y| ≤ 1)
    (o1 o2 : List Nat) (first : Bool)
    (h1 : validDescOrder vals o1 = true) (h2 : validAscOrder ranks o2 first = true)
    (a b ra rb : Nat) (x y : Rat)
    (hxa : vals[a]? = some (some x)) (hyb : vals[b]? = some (some y))
    (hra : ranks[a]? = some (some ra)) (hrb : ranks[b]? = some (some rb))
    (hr : ra < rb) (hv : x + 2 * (1 / 100000000 + 1 / 100000) < y) :
    isConsistentWith npTol vals ranks o1 o2 = false :=
  isConsistent_rejects_np vals ranks hlen hbound o1 o2 first h1 h2 a b ra rb x y hxa hyb hra hrb hr hv

/-- acceptance: same NaN pattern, strict ranks, values weakly decreasing along the ranking ⇒ `true`
for every admissible pair of orders, provided `tol x x` -/
theorem C18_consistent_accepts (tol : Rat → Rat → Bool) (htol : ∀ x, tol x x = true)
    (vals : List (Option Rat)) (ranks : List (Option Nat)) (hlen : vals.length = ranks.length)
    (hnan : ∀ j, j < ranks.length → (valAt vals j).isSome = (valAt ranks j).isSome)
    (hstrict : (ranks.filterMap id).Nodup)
    (hdec : ∀ (a b ra rb : Nat) (x y : Rat), ranks[a]? = some (some ra) → ranks[b]? = some (some rb) →
      vals[a]? = some (some x) → vals[b]? = some (some y) → ra < rb → y ≤ x)
    (o1 o2 : List Nat) (first : Bool)
    (h1 : validDescOrder vals o1 = true) (h2 : validAscOrder ranks o2 first = true) :
    isConsistentWith tol vals ranks o1 o2 = true :=
  isConsistent_accepts tol htol vals ranks hlen hnan hstrict hdec o1 o2 first h1 h2

theorem C18_npTol_refl (x : Rat) : npTol x x = true := npTol_refl x

/-! ## E. the generators (`draws` = the agent's random numbers; normal generator: `clip draws`) -/

/-- strict row with ranks 1..k, k draws, all ≥ 0, not all zero ⇒ same length, same NaN pattern,
entries ≥ 0, weakly decreasing along the ranking, non-NaN entries sum to 1 -/
theorem C18_generate_spec (ranks : List (Option Nat)) (draws : List Rat)
    (hs : strictRowB ranks = true) (hlen : draws.length = numSome ranks)
    (hnn : ∀ x ∈ draws, 0 ≤ x) (hsum : draws.sum ≠ 0) :
    (generateRow ranks draws).length = ranks.length ∧
    (∀ j : Nat, (generateRow ranks draws)[j]? = some none ↔ ranks[j]? = some none) ∧
    (∀ (j : Nat) (x : Rat), (generateRow ranks draws)[j]? = some (some x) → 0 ≤ x) ∧
    (∀ (a b ra rb : Nat) (x y : Rat), ranks[a]? = some (some ra) → ranks[b]? = some (some rb) →
      (generateRow ranks draws)[a]? = some (some x) → (generateRow ranks draws)[b]? = some (some y) →
      ra < rb → y ≤ x) ∧
    rowSum (generateRow ranks draws) = 1 :=
  generate_spec ranks draws hs hlen hnn hsum

/-- the normal generator: clipping makes the non-negativity hypothesis automatic -/
theorem C18_generate_spec_normal (ranks : List (Option Nat)) (raw : List Rat)
    (hs : strictRowB ranks = true) (hlen : raw.length = numSome ranks)
    (hsum : (clip raw).sum ≠ 0) :
    (generateRow ranks (clip raw)).length = ranks.length ∧
    (∀ j : Nat, (generateRow ranks (clip raw))[j]? = some none ↔ ranks[j]? = some none) ∧
    (∀ (j : Nat) (x : Rat), (generateRow ranks (clip raw))[j]? = some (some x) → 0 ≤ x) ∧
    (∀ (a b ra rb : Nat) (x y : Rat), ranks[a]? = some (some ra) → ranks[b]? = some (some rb) →
      (generateRow ranks (clip raw))[a]? = some (some x) →
      (generateRow ranks (clip raw))[b]? = some (some y) → ra < rb → y ≤ x) ∧
    rowSum (generateRow ranks (clip raw)) = 1 :=
  generate_spec ranks (clip raw) hs (by rw [length_clip]; exact hlen) (clip_nonneg raw) hsum

/-- the literal loop over `argsort(ranks)` computes the same row, whatever admissible order -/
theorem C18_generate_literal (ranks : List (Option Nat)) (draws : List Rat) (o : List Nat)
    (first : Bool) (hs : strictRowB ranks = true) (ho : validAscOrder ranks o first = true) :
    generateRowWith ranks draws o = generateRow ranks draws :=
  generateRowWith_eq ranks draws o first hs ho

/-- generated rows are accepted by the consistency predicate (any tolerance with `tol x x`, e.g.
`npTol`), for all admissible orders -/
theorem C18_generate_consistent (tol : Rat → Rat → Bool) (htol : ∀ x, tol x x = true)
    (ranks : List (Option Nat)) (draws : List Rat)
    (hs : strictRowB ranks = true) (hlen : draws.length = numSome ranks)
    (hnn : ∀ x ∈ draws, 0 ≤ x) (hsum : draws.sum ≠ 0)
    (o1 o2 : List Nat) (first : Bool)
    (h1 : validDescOrder (generateRow ranks draws) o1 = true)
    (h2 : validAscOrder ranks o2 first = true) :
    isConsistentWith tol (generateRow ranks draws) ranks o1 o2 = true :=
  generate_consistent tol htol ranks draws hs hlen hnn hsum o1 o2 first h1 h2

/-- "reproducible from the seed": the row is a function of the ranks and the draws (which the seed
fixes); with a positive draw no entry of a ranked alternative is NaN, so the two runs compare equal
also in floating point (NaN ≠ NaN is the reason for the proviso in the property). -/
theorem C18_generate_reproducible (ranks : List (Option Nat)) (d1 d2 : List Rat) (h : d1 = d2) :
    generateRow ranks d1 = generateRow ranks d2 := by rw [h]

/-! ## Non-vacuity: concrete instances satisfying the hypotheses -/

-- A: valuations (3, NaN, 5, 3): two admissible orders (the tie 0/3 either way), one inadmissible
example : validDescOrder [some 3, none, some 5, some 3] [2, 0, 3, 1] = true := by decide +kernel
example : validDescOrder [some 3, none, some 5, some 3] [2, 3, 0, 1] = true := by decide +kernel
example : validDescOrder [some 3, none, some 5, some 3] [0, 2, 3, 1] = false := by decide +kernel
example : ordinalWith [some 3, none, some 5, some 3] [2, 3, 0, 1] = [some 3, none, some 1, some 2] := by
  decide +kernel
example : ordinalOkB [some 3, none, some 5, some 3] [some 3, none, some 1, some 2] = true := by
  decide +kernel
-- the checker rejects a row that ranks the lower value better / drops the NaN / repeats a rank
example : ordinalOkB [some 3, none, some 5, some 3] [some 1, none, some 2, some 3] = false := by
  decide +kernel
example : ordinalOkB [some 3, none, some 5, some 3] [some 2, some 4, some 1, some 3] = false := by
  decide +kernel
example : ordinalOkB [some 3, none, some 5, some 3] [some 2, none, some 1, some 2] = false := by
  decide +kernel

-- B: row (1, 1, 3, NaN, 3, 3)
example : wfTiesB [some 1, some 1, some 3, none, some 3, some 3] = true := by decide
example : validAscOrder [some 1, some 1, some 3, none, some 3, some 3] [1, 0, 5, 2, 4, 3] false = true := by
  decide
example : validAscOrder [some 1, some 1, some 3, none, some 3, some 3] [1, 0, 5, 2, 4, 3] true = false := by
  decide
example : validAscOrder [some 1, some 1, some 3, none, some 3, some 3] [0, 1, 2, 4, 5, 3] true = true := by
  decide
example : breakTiesWith [some 1, some 1, some 3, none, some 3, some 3] [1, 0, 5, 2, 4, 3] =
    [some 2, some 1, some 4, none, some 5, some 3] := by decide
example : strictifyOkB [some 1, some 1, some 3, none, some 3, some 3]
    [some 2, some 1, some 4, none, some 5, some 3] false = true := by decide
example : strictifyOkB [some 1, some 1, some 3, none, some 3, some 3]
    [some 2, some 1, some 4, none, some 5, some 3] true = false := by decide
example : strictifyOkB [some 1, some 1, some 3, none, some 3, some 3]
    [some 1, some 2, some 3, none, some 4, some 5] true = true := by decide
-- rejected: a strict comparison reversed
example : strictifyOkB [some 1, some 1, some 3, none, some 3, some 3]
    [some 3, some 1, some 2, none, some 5, some 4] false = false := by decide

-- B': the densely numbered row (1, 1, 2): not `wfTiesB`; the pinned behaviour is NOT strict there, the repaired one is
example : wfTiesB [some 1, some 1, some 2] = false := by decide
example : validAscOrder [some 1, some 1, some 2] [0, 1, 2] true = true := by decide
example : breakTiesWith [some 1, some 1, some 2] [0, 1, 2] = [some 1, some 2, some 2] := by decide
example : strictOkB [some 1, some 1, some 2] (breakTiesWith [some 1, some 1, some 2] [0, 1, 2]) true = false := by decide
example : breakTiesPos [some 1, some 1, some 2] [0, 1, 2] = [some 1, some 2, some 3] := by decide
example : strictOkB [some 1, some 1, some 2] [some 1, some 2, some 3] true = true := by decide
example : breakTiesPos [some 2, some 1, some 2, none, some 3] [1, 2, 0, 4, 3] = [some 3, some 1, some 2, none, some 4] := by decide
example : strictOkB [some 2, some 1, some 2, none, some 3] [some 3, some 1, some 2, none, some 4] false = true := by decide
example : strictOkB [some 2, some 1, some 2, none, some 3] [some 3, some 1, some 2, none, some 4] true = false := by decide

-- C: row (1, NaN, 2, NaN), m = 4, k = 2
example : wfIncompleteB [some 1, none, some 2, none] = true := by decide
example : validNanOrder [some 1, none, some 2, none] [3, 1] = true := by decide
example : completeWith [some 1, none, some 2, none] 0 [] = [some 1, some 3, some 2, some 3] := by decide
example : completeWith [some 1, none, some 2, none] 1 [] = [some 1, some 3, some 2, some 4] := by decide
example : completeWith [some 1, none, some 2, none] 2 [3, 1] = [some 1, some 4, some 2, some 3] := by decide
example : completeOkB [some 1, none, some 2, none] [some 1, some 4, some 2, some 3] 2 = true := by decide
example : completeOkB [some 1, none, some 2, none] [some 1, some 4, some 2, some 3] 1 = false := by decide
example : completeOkB [some 1, none, some 2, none] [some 1, some 2, some 2, some 3] 2 = false := by decide

-- D: values (1/4, 3/4) against ranks (1, 2): rejected by theorem `C18_consistent_rejects_np`
example : isConsistentWith npTol [some (1/4), some (3/4)] [some 1, some 2] [1, 0] [0, 1] = false :=
  C18_consistent_rejects_np [some (1/4), some (3/4)] [some 1, some 2] rfl
    (by intro y hy
        simp only [List.mem_cons, Option.some.injEq, List.not_mem_nil, or_false] at hy
        rcases hy with rfl | rfl <;> rw [abs_le] <;> constructor <;> norm_num)
    [1, 0] [0, 1] false (by decide +kernel) (by decide) 0 1 1 2 (1/4) (3/4) rfl rfl rfl rfl
    (by decide) (by norm_num)
-- the unrepaired predicate differs from the repaired one exactly on NaN-vs-NaN comparisons
example : isConsistentWith npTol [some 1, none, none] [some 1, none, none] [0, 1, 2] [0, 2, 1] = true := by
  decide +kernel
example : isConsistentOrigWith npTol [some 1, none, none] [some 1, none, none] [0, 1, 2] [0, 2, 1] = false := by
  decide +kernel

-- E: ranks (2, NaN, 1), draws (1, 3)
example : strictRowB [some 2, none, some 1] = true := by decide
example : ([1, 3] : List Rat).length = numSome [some 2, none, some 1] := by decide
example : ∀ x ∈ ([1, 3] : List Rat), 0 ≤ x := by decide
example : ([1, 3] : List Rat).sum ≠ 0 := by decide +kernel
example : generateRow [some 2, none, some 1] [1, 3] = [some (1/4), none, some (3/4)] := by decide +kernel
example : validDescOrder (generateRow [some 2, none, some 1] [1, 3]) [2, 0, 1] = true := by decide +kernel
example : validAscOrder [some 2, none, some 1] [2, 0, 1] false = true := by decide
example : clip [-1, 2, -3, 2] = [0, 2, 0, 2] := by decide +kernel
-- all draws clipped to zero: IEEE 0/0, the ranked entries become NaN (the proviso in the property)
example : generateRow [some 2, none, some 1] (clip [-1, -3]) = [none, none, none] := by decide +kernel
