import Sck.Proofs.GsMirrorTransfer
import Sck.Proofs.GsExample

/-! # C01 / C02 for the state-faithful mirrors of `GaleShapley.scf`
Property theorems only (proofs in `Sck/Proofs/GsMirror*.lean`).

`GsMirror.gsResMirror` / `GsMirror.gsHospMirror` (`Sck/Model/GsMirror.lean`) are line-by-line mirrors of the two
branches of `GaleShapley.scf` that keep the code's own variables (`resident_applications`, the `heapq` arrays
`hospital_waiting_lists`, the status vectors, `hospital_offers`, `resident_waiting_lists`,
`hospital_accepted_offers`) and return the pairs 0-indexed in the order the code returns them.
`GsMirror.gsMirror ro I` selects the branch. `Except.error` = the code raises (`"index"`), the mirror's loop
fuel `n * m + 2` runs out (`"fuel"`), or the input is not rectangular (`"shape"`).

Hypotheses: `I.WF2` (dimensions agree, all rows strict) as in C01; for the RESIDENT-oriented branch in
addition `I.H.all compactRowB` (every hospital row carries exactly the ranks `1..k`): the code decodes a heap
entry through `ranked_hprofile[h, rank - 1]`, which is wrong otherwise (`C01_gsResMirror_needs_compact`).
`GsMirror.MirrorOk ro I` is the conjunction (`C01_mirrorOk_iff`). Capacities may be any natural numbers. -/

open GsMirror

/-- the hypothesis, spelled out (decidable) -/
theorem C01_mirrorOk_iff (ro : Bool) (I : HR) :
    MirrorOk ro I ↔ I.WF2 ∧ (ro = true → I.H.all compactRowB = true) := Iff.rfl

/-- **refinement, resident-oriented branch.** The mirror terminates within its fuel without raising, and the
list it returns is a permutation of the matching of the generic model `gsRes`. -/
theorem C01_gsResMirror_refines (I : HR) (hwf : I.WF2) (hcomp : I.H.all compactRowB = true) :
    ∃ out mu, gsResMirror I = .ok out ∧ gsRes I = some mu ∧ out.Perm mu :=
  gsResMirror_refines I hwf hcomp

/-- **refinement, hospital-oriented branch**, under the hypothesis of C01 alone. -/
theorem C01_gsHospMirror_refines (I : HR) (hwf : I.WF2) :
    ∃ out mu, gsHospMirror I = .ok out ∧ gsHosp I = some mu ∧ out.Perm mu :=
  gsHospMirror_refines I hwf

/-- the same as a statement about pair SETS: same length, same members -/
theorem C01_gsMirror_pairset (ro : Bool) (I : HR) (hok : MirrorOk ro I) :
    ∃ out mu, gsMirror ro I = .ok out ∧ (if ro then gsRes I else gsHosp I) = some mu ∧
      out.length = mu.length ∧ ∀ e, e ∈ out ↔ e ∈ mu :=
  gsMirror_pairset ro I hok

/-- against the public rule `galeShapley` (either orientation, either index convention): the mirror's
output, shifted by `fixer`, is a permutation of the rule's output -/
theorem C01_gsMirror_refines_public (ro : Bool) (fixer : Nat) (I : HR) (hok : MirrorOk ro I) :
    ∃ out res, gsMirror ro I = .ok out ∧ galeShapley ro fixer I = some res ∧
      (out.map (fun e => (e.1 + fixer, e.2 + fixer))).Perm res :=
  gsMirror_refines_public ro fixer I hok

/-- the loop fuel `n * m + 2` suffices and no `IndexError` is raised: the mirror never returns an error -/
theorem C01_gsMirror_no_error (ro : Bool) (I : HR) (hok : MirrorOk ro I) (e : String) :
    gsMirror ro I ≠ .error e :=
  gsMirror_no_error ro I hok e

/-- **C01 transferred.** The list returned by the mirror has no repeated pair, labels in range, every
resident at most once, no hospital above capacity, only mutually acceptable pairs, and no blocking pair. -/
theorem C01_gsMirror_stable (ro : Bool) (I : HR) (hok : MirrorOk ro I) :
    ∃ out, gsMirror ro I = .ok out ∧
      out.Nodup ∧
      (∀ r h, (r, h) ∈ out → r < I.n ∧ h < I.m) ∧
      (∀ r h h', (r, h) ∈ out → (r, h') ∈ out → h = h') ∧
      (∀ h, (heldBy out h).length ≤ I.cap.getD h 0) ∧
      (∀ r h, (r, h) ∈ out → rankAt I.R r h ≠ none ∧ rankAt I.H h r ≠ none) ∧
      (∀ r h, ¬ BlockingHR I out r h) :=
  gsMirror_stable_spelled ro I hok

/-- **C02 transferred.** The resident-oriented mirror returns a stable matching in which every resident is
at least as well off as in ANY stable matching; the hospital-oriented mirror one in which every resident is
at most as well off. -/
theorem C02_gsMirror_optimal (I : HR) (hok : MirrorOk true I) :
    (∃ out, gsMirror true I = .ok out ∧ StableHR I out ∧ ResidentOptimal I out) ∧
    (∃ out, gsMirror false I = .ok out ∧ StableHR I out ∧ ResidentPessimal I out) :=
  gsMirror_optimal I hok

/-- C02, resident-oriented mirror, spelled out -/
theorem C02_gsResMirror_optimal (I : HR) (hok : MirrorOk true I) :
    ∃ out, gsResMirror I = .ok out ∧ ∀ nu, StableHR I nu → ∀ r h', (r, h') ∈ nu →
      ∃ h, (r, h) ∈ out ∧ ∃ x x', rankAt I.R r h = some x ∧ rankAt I.R r h' = some x' ∧ x ≤ x' :=
  gsResMirror_optimal I hok

/-- C02, hospital-oriented mirror, spelled out -/
theorem C02_gsHospMirror_pessimal (I : HR) (hwf : I.WF2) :
    ∃ out, gsHospMirror I = .ok out ∧ ∀ nu, StableHR I nu → ∀ r h, (r, h) ∈ out →
      ∃ h', (r, h') ∈ nu ∧ ∃ x' x, rankAt I.R r h' = some x' ∧ rankAt I.R r h = some x ∧ x' ≤ x :=
  gsHospMirror_pessimal I hwf

/-- **F1.** On `R = [[1],[1]]`, `H = [[2,1]]`, `c = [1]` the PINNED hospital-oriented code
(`gsHospMirrorPinned`: no `continue` after marking a hospital exhausted, counter `-1` decremented when the
resident held no offer) returns both residents for the single place; the repaired mirror returns `(1, 0)`. -/
theorem C01_mirror_F1_witness :
    gsHospMirrorPinned f1 = .ok [(0, 0), (1, 0)] ∧
    ¬ (heldBy [(0, 0), (1, 0)] 0).length ≤ f1.cap.getD 0 0 ∧
    gsHospMirror f1 = .ok [(1, 0)] ∧
    (heldBy [(1, 0)] 0).length ≤ f1.cap.getD 0 0 :=
  f1_witness

/-- the first slip alone: on `R = [[1]]`, `H = [[NaN]]` the pinned code matches the resident to a hospital
that finds it unacceptable -/
theorem C01_mirror_F1_first_slip :
    f1b.WF2 ∧ gsHospMirrorPinned f1b = .ok [(0, 0)] ∧ rankAt f1b.H 0 0 = none ∧ gsHospMirror f1b = .ok [] :=
  f1b_witness

/-- the extra hypothesis of the resident-oriented branch is needed: a strict instance with a gap in a
hospital row on which the mirror (like the code) returns a matching with a blocking pair -/
theorem C01_gsResMirror_needs_compact :
    exGap.WF2 ∧ exGap.H.all compactRowB = false ∧ gsResMirror exGap = .ok [(2, 0), (1, 1)] ∧
    BlockingHR exGap [(2, 0), (1, 1)] 0 1 :=
  exGap_witness

/-- ... and one on which it raises `IndexError` -/
theorem C01_gsResMirror_index_error : exBig.WF2 ∧ gsResMirror exBig = .error "index" := exBig_witness

/-- `heapq.heappush` as mirrored: keeps the heap invariant and adds the item -/
theorem C01_mirror_heappush (l : List Int) (x : Int) (h : IsHeap l) :
    IsHeap (hpush l x) ∧ (hpush l x).Perm (x :: l) :=
  ⟨hpush_isHeap l x h, hpush_perm l x⟩

/-- `heapq.heappop` as mirrored: on a non-empty heap it returns a minimum and leaves a heap of the rest -/
theorem C01_mirror_heappop (l : List Int) (h : IsHeap l) (hne : l ≠ []) :
    ∃ e l', hpop l = some (e, l') ∧ e ∈ l ∧ (∀ x ∈ l, e ≤ x) ∧ l'.Perm (l.erase e) ∧ IsHeap l' :=
  hpop_total l h hne

/-- `np.argsort` as mirrored, on a strict row: the model's preference list followed by the NaN positions -/
theorem C01_mirror_argsort (row : List (Option Nat)) (hs : StrictRow row) :
    argsortRow row = plistOfRow row ++ (List.range row.length).filter (fun j => (row.getD j none).isNone) :=
  argsortRow_eq row hs

/-! ## non-vacuity -/

/-- the hypotheses hold on the instance of C01 (3 residents, 2 hospitals, NaN on both sides, capacities 1, 2) -/
example : MirrorOk true exI ∧ MirrorOk false exI := by decide
/-- the mirrors return the matchings of the generic model, in the code's order -/
example : gsMirror true exI = .ok [(1, 0), (2, 1), (0, 1)] ∧ gsRes exI = some [(0, 1), (2, 1), (1, 0)] :=
  ⟨by decide, exI_gsRes⟩
example : gsMirror false exI = .ok [(0, 1), (1, 0), (2, 1)] ∧ gsHosp exI = some [(2, 1), (0, 1), (1, 0)] :=
  ⟨by decide, exI_gsHosp⟩
/-- two different stable matchings exist on `exTwo`, and the two mirrors return them -/
example : MirrorOk true exTwo := by decide
example : gsMirror true exTwo = .ok [(0, 0), (1, 1)] ∧ gsMirror false exTwo = .ok [(0, 1), (1, 0)] := by decide
/-- the F1 instance satisfies the hypotheses (so the repaired mirror's answer on it is covered by the theorems) -/
example : MirrorOk false f1 ∧ MirrorOk true f1 := ⟨f1_ok false, f1_ok true⟩
/-- a heap of size 4 through push and pop (array order as in CPython) -/
example : hpush (hpush (hpush (hpush [] 5) 3) 4) 1 = [1, 3, 4, 5] ∧ hpop [1, 3, 4, 5] = some (1, [3, 5, 4]) := by decide
example : IsHeap [1, 3, 4, 5] := by
  intro i hi hl
  simp only [List.length_cons, List.length_nil] at hl
  have : i = 1 ∨ i = 2 ∨ i = 3 := by omega
  rcases this with rfl | rfl | rfl <;> decide

#print axioms C01_gsResMirror_refines
#print axioms C01_gsHospMirror_refines
#print axioms C01_gsMirror_pairset
#print axioms C01_gsMirror_refines_public
#print axioms C01_gsMirror_no_error
#print axioms C01_gsMirror_stable
#print axioms C02_gsMirror_optimal
#print axioms C02_gsResMirror_optimal
#print axioms C02_gsHospMirror_pessimal
#print axioms C01_mirror_F1_witness
#print axioms C01_mirror_F1_first_slip
#print axioms C01_gsResMirror_needs_compact
#print axioms C01_gsResMirror_index_error
#print axioms C01_mirror_heappush
#print axioms C01_mirror_heappop
#print axioms C01_mirror_argsort
#print axioms C01_mirrorOk_iff
