import Sck.Proofs.BruteSpec3
import Sck.Proofs.IrvingAlgoExamples

/-! # C03 / C17 — welfare-maximal stable matching: executable BRUTE-FORCE specification (n ≤ 8)

`Brute.optStable n P1 P2 V1 V2` enumerates all `n!` perfect matchings `a ↦ μ[a]` (`Brute.perms n`), keeps the stable
ones (the test `stableB` of the certificate checker `smCertOk`, with the inverse computed by `Brute.invPerm`) and returns
the maximum of `Σ_a V1[a][μ a] + V2[μ a][a]` — the weight convention of `C03_cert_sound`.  `Brute.countStable` is the
number of stable matchings.  Both run in the compiled driver (op `smopt`); op `smval` evaluates the real code's answer.
Ranks: `rankOf P1 a b` = rank man `a` gives woman `b` (smaller is better), `rankOf P2 b a` = rank woman `b` gives man
`a`; a pair blocks when BOTH strictly prefer each other (with ties in the ranks this is weak stability).
Property theorems only. -/

open Finset

/-- **C03 (stable members of the enumeration).**  `μ` is in `stablePerms` iff it is a permutation of `[0, …, n-1]`
that passes the executable stability test. -/
theorem C03_mem_stablePerms (n : Nat) (P1 P2 : List (List Nat)) (μ : List Nat) :
    μ ∈ Brute.stablePerms n P1 P2 ↔
      μ.Perm (List.range n) ∧ stableB n P1 P2 μ (Brute.invPerm n μ) = true :=
  Brute.mem_stablePerms n P1 P2 μ

/-- **C03 (the executable test on an enumerated list is `StableSM`).** -/
theorem C03_stableB_permOfList (n : Nat) (P1 P2 : List (List Nat)) (μ : List Nat) (h : μ.Perm (List.range n)) :
    stableB n P1 P2 μ (Brute.invPerm n μ) = true ↔
      StableSM (fun a b : Fin n => rankOf P1 a b) (fun b a : Fin n => rankOf P2 b a) (Brute.permOfList n μ h) :=
  Brute.stableB_permOfList n P1 P2 μ h

/-- **C03 (value of a list matching).**  For a list of length `n`, `matchValue` is `Σ_a V1[a][μ a] + V2[μ a][a]`. -/
theorem C03_matchValue_spec (n : Nat) (V1 V2 : List (List Int)) (μ : List Nat) (hl : μ.length = n) :
    Brute.matchValue V1 V2 μ = ∑ a : Fin n, (intOf V1 a (μ.getD a n) + intOf V2 (μ.getD a n) a) :=
  Brute.matchValue_eq n V1 V2 μ hl

/-- **C03 (specification of `optStable`, list form).**  `optStable … = some v` iff some stable permutation of
`0..n-1` has total value `v`, and every stable permutation has total value `≤ v`. -/
theorem C03_optStable_spec (n : Nat) (P1 P2 : List (List Nat)) (V1 V2 : List (List Int)) (v : Int) :
    Brute.optStable n P1 P2 V1 V2 = some v ↔
      (∃ μ : List Nat, μ.Perm (List.range n) ∧ stableB n P1 P2 μ (Brute.invPerm n μ) = true ∧
          Brute.matchValue V1 V2 μ = v) ∧
      (∀ μ : List Nat, μ.Perm (List.range n) → stableB n P1 P2 μ (Brute.invPerm n μ) = true →
          Brute.matchValue V1 V2 μ ≤ v) :=
  Brute.optStable_eq_some_iff n P1 P2 V1 V2 v

/-- **C03 (specification of `optStable`, in the statement form of `C03_cert_sound`).**  `optStable … = some v` iff
some stable matching `ν : Equiv.Perm (Fin n)` (`StableSM`) has total value `v` and every stable matching has total
value `≤ v`. -/
theorem C03_optStable_spec_perm (n : Nat) (P1 P2 : List (List Nat)) (V1 V2 : List (List Int)) (v : Int) :
    Brute.optStable n P1 P2 V1 V2 = some v ↔
      (∃ ν : Equiv.Perm (Fin n),
          StableSM (fun a b : Fin n => rankOf P1 a b) (fun b a : Fin n => rankOf P2 b a) ν ∧
          ∑ a : Fin n, (intOf V1 a (ν a) + intOf V2 (ν a) a) = v) ∧
      (∀ ν : Equiv.Perm (Fin n),
          StableSM (fun a b : Fin n => rankOf P1 a b) (fun b a : Fin n => rankOf P2 b a) ν →
          ∑ a : Fin n, (intOf V1 a (ν a) + intOf V2 (ν a) a) ≤ v) :=
  Brute.optStable_eq_some_iff_perm n P1 P2 V1 V2 v

/-- **C03 (`optStable = none`).**  Exactly when the instance has no stable matching. -/
theorem C03_optStable_none_perm (n : Nat) (P1 P2 : List (List Nat)) (V1 V2 : List (List Int)) :
    Brute.optStable n P1 P2 V1 V2 = none ↔
      ¬ ∃ ν : Equiv.Perm (Fin n),
          StableSM (fun a b : Fin n => rankOf P1 a b) (fun b a : Fin n => rankOf P2 b a) ν :=
  Brute.optStable_eq_none_iff_perm n P1 P2 V1 V2

/-- **C03 (`countStable`).**  The second number reported by the op `smopt` is the number of stable matchings. -/
theorem C03_countStable_eq_card (n : Nat) (P1 P2 : List (List Nat)) :
    Brute.countStable n P1 P2 =
      Nat.card {ν : Equiv.Perm (Fin n) //
        StableSM (fun a b : Fin n => rankOf P1 a b) (fun b a : Fin n => rankOf P2 b a) ν} :=
  Brute.countStable_eq_card n P1 P2

/-- **C03 (both references agree).**  A certificate accepted by `smCertOk` pins the same value as the brute force:
`optStable` is the total value of `mu`. -/
theorem C03_cert_value_eq_opt (n : Nat) (P1 P2 : List (List Nat)) (V1 V2 : List (List Int)) (mu inv : List Nat)
    (alpha beta : List Rat) (y : List (List Rat))
    (hok : smCertOk n P1 P2 V1 V2 mu inv alpha beta y = true) :
    Brute.optStable n P1 P2 V1 V2 = some (Brute.matchValue V1 V2 mu) :=
  Brute.smCert_value_eq_opt n P1 P2 V1 V2 mu inv alpha beta y hok

/-- **C03 (an accepted certificate implies at least one stable matching is counted).** -/
theorem C03_cert_countStable_pos (n : Nat) (P1 P2 : List (List Nat)) (V1 V2 : List (List Int)) (mu inv : List Nat)
    (alpha beta : List Rat) (y : List (List Rat))
    (hok : smCertOk n P1 P2 V1 V2 mu inv alpha beta y = true) :
    0 < Brute.countStable n P1 P2 :=
  Brute.smCert_countStable_pos n P1 P2 V1 V2 mu inv alpha beta y hok

/-- **C03 (what the harness comparison proves).**  If the answer `mu` is a checked permutation, passes the
executable stability test, and its total value equals the brute-force optimum (`smval` and `smopt` report the same
value), then `mu` is stable and no stable matching has a larger total value — the conclusion of `C03_cert_sound`,
without any certificate. -/
theorem C03_brute_optimal (n : Nat) (P1 P2 : List (List Nat)) (V1 V2 : List (List Int)) (mu inv : List Nat)
    (hp : isPermWith n mu inv = true) (hs : stableB n P1 P2 mu inv = true)
    (hopt : Brute.optStable n P1 P2 V1 V2 = some (Brute.matchValue V1 V2 mu)) :
    StableSM (fun a b : Fin n => rankOf P1 a b) (fun b a : Fin n => rankOf P2 b a) (permOfLists n mu inv hp) ∧
    ∀ ν : Equiv.Perm (Fin n),
      StableSM (fun a b : Fin n => rankOf P1 a b) (fun b a : Fin n => rankOf P2 b a) ν →
      ∑ a : Fin n, (intOf V1 a (ν a) + intOf V2 (ν a) a)
        ≤ ∑ a : Fin n, (intOf V1 a (permOfLists n mu inv hp a) + intOf V2 (permOfLists n mu inv hp a) a) :=
  Brute.brute_stable_optimal n P1 P2 V1 V2 mu inv hp hs hopt

/-- **C03 (answers in list-of-pairs form).**  A perfect matching given as a list of `(man, woman)` pairs (as
`Irving.scf` returns it, in any order) that has no blocking pair is one of the matchings the brute force maximises
over: its list form `muOfPairs` is an enumerated stable permutation with the same value, hence `optStable` is defined
and at least `stable_matching_value(M)`. -/
theorem C03_pairs_le_opt (n : Nat) (P1 P2 : List (List Nat)) (V1 V2 : List (List Int)) (M : List Irving.Pair)
    (h1 : (M.map Prod.fst).Perm (List.range n)) (h2 : (M.map Prod.snd).Perm (List.range n))
    (hst : Irving.StablePairs P1 P2 M) :
    Brute.muOfPairs n M ∈ Brute.stablePerms n P1 P2 ∧
    Brute.matchValue V1 V2 (Brute.muOfPairs n M) = Irving.matchingValue V1 V2 M ∧
    ∃ v, Brute.optStable n P1 P2 V1 V2 = some v ∧ Irving.matchingValue V1 V2 M ≤ v :=
  Brute.pairs_le_opt n P1 P2 V1 V2 M h1 h2 hst

/-- **C03 (the mirror of `Irving.scf` against the brute force, proved half).**  For EVERY input, an `ok` answer `M` of
the checked stage-by-stage mirror `IrvingAlgo.irving` is a stable matching counted by `countStable`, and its value is
at most the brute-force optimum.  (Equality — optimality of the mirror — is not proved; the driver compares the two
numbers per instance.) -/
theorem C03_irving_le_opt (n : Nat) (P1 P2 : List (List Nat)) (V1 V2 : List (List Int)) (M : List Irving.Pair)
    (h : IrvingAlgo.irving n P1 P2 V1 V2 = .ok M) :
    ∃ v, Brute.optStable n P1 P2 V1 V2 = some v ∧ Irving.matchingValue V1 V2 M ≤ v ∧
      0 < Brute.countStable n P1 P2 :=
  Brute.irving_le_opt n P1 P2 V1 V2 M h

/-- **C17 (the same comparison for `DoubleLambdaTSF`).**  C17 calls `Irving.scf` with the simulated integer valuations
`V1`, `V2` and the ordinal profiles; nothing in the brute-force specification depends on how `V1`, `V2` relate to the
ranks, so the harness comparison proves optimality w.r.t. the simulated values among all stable matchings. -/
theorem C17_brute_optimal (n : Nat) (P1 P2 : List (List Nat)) (V1 V2 : List (List Int)) (mu inv : List Nat)
    (hp : isPermWith n mu inv = true) (hs : stableB n P1 P2 mu inv = true)
    (hopt : Brute.optStable n P1 P2 V1 V2 = some (Brute.matchValue V1 V2 mu)) :
    StableSM (fun a b : Fin n => rankOf P1 a b) (fun b a : Fin n => rankOf P2 b a) (permOfLists n mu inv hp) ∧
    ∀ ν : Equiv.Perm (Fin n),
      StableSM (fun a b : Fin n => rankOf P1 a b) (fun b a : Fin n => rankOf P2 b a) ν →
      ∑ a : Fin n, (intOf V1 a (ν a) + intOf V2 (ν a) a)
        ≤ ∑ a : Fin n, (intOf V1 a (permOfLists n mu inv hp a) + intOf V2 (permOfLists n mu inv hp a) a) :=
  Brute.brute_stable_optimal n P1 P2 V1 V2 mu inv hp hs hopt

/-! ## Non-vacuity -/

/-- the 3×3 cyclic (Latin-square) instance of `C03.lean`: three stable matchings `a ↦ a`, `a ↦ a+1`, `a ↦ a+2`;
with the values below the middle one (each man gets his second choice, value 5 + 5 per pair) is the unique optimum,
value 30; `[1, 2, 0]` satisfies the hypotheses of `C03_brute_optimal` -/
example : Brute.stablePerms 3 [[1,2,3],[3,1,2],[2,3,1]] [[3,1,2],[2,3,1],[1,2,3]] = [[0, 1, 2], [1, 2, 0], [2, 0, 1]] ∧
    Brute.countStable 3 [[1,2,3],[3,1,2],[2,3,1]] [[3,1,2],[2,3,1],[1,2,3]] = 3 ∧
    Brute.optStable 3 [[1,2,3],[3,1,2],[2,3,1]] [[3,1,2],[2,3,1],[1,2,3]]
      [[6,5,0],[0,6,5],[5,0,6]] [[0,6,5],[5,0,6],[6,5,0]] = some 30 ∧
    Brute.matchValue [[6,5,0],[0,6,5],[5,0,6]] [[0,6,5],[5,0,6],[6,5,0]] [1, 2, 0] = 30 ∧
    isPermWith 3 [1, 2, 0] (Brute.invPerm 3 [1, 2, 0]) = true ∧
    stableB 3 [[1,2,3],[3,1,2],[2,3,1]] [[3,1,2],[2,3,1],[1,2,3]] [1, 2, 0] (Brute.invPerm 3 [1, 2, 0]) = true := by
  decide +kernel

/-- the values of the other two stable matchings of that instance are smaller (18 each) -/
example : Brute.matchValue [[6,5,0],[0,6,5],[5,0,6]] [[0,6,5],[5,0,6],[6,5,0]] [0, 1, 2] = 18 ∧
    Brute.matchValue [[6,5,0],[0,6,5],[5,0,6]] [[0,6,5],[5,0,6],[6,5,0]] [2, 0, 1] = 18 := by decide +kernel

/-- the 3×3 instance of `C03.lean` whose certificate needs `y ≠ 0` (everybody ranks `0 < 1 < 2`): the identity is the
ONLY stable matching, optimum 0, although unstable matchings have value 18; the certificate of `C03.lean` is
accepted for the same data (hypothesis of `C03_cert_value_eq_opt`) -/
example : Brute.countStable 3 [[1,2,3],[1,2,3],[1,2,3]] [[1,2,3],[1,2,3],[1,2,3]] = 1 ∧
    Brute.optStable 3 [[1,2,3],[1,2,3],[1,2,3]] [[1,2,3],[1,2,3],[1,2,3]]
      [[0,0,9],[0,0,0],[9,0,0]] [[0,0,0],[0,0,0],[0,0,0]] = some 0 ∧
    Brute.matchValue [[0,0,9],[0,0,0],[9,0,0]] [[0,0,0],[0,0,0],[0,0,0]] [2, 1, 0] = 18 ∧
    smCertOk 3 [[1,2,3],[1,2,3],[1,2,3]] [[1,2,3],[1,2,3],[1,2,3]]
      [[0,0,9],[0,0,0],[9,0,0]] [[0,0,0],[0,0,0],[0,0,0]] [0,1,2] [0,1,2] [9, 0, 0] [9, 0, 0]
      [[18,0,0],[0,0,0],[0,0,0]] = true := by decide +kernel

/-- the 2×2 "opposite preferences" instance of `C03.lean`: two stable matchings, the values favour the
woman-optimal one (value 10) -/
example : Brute.optStable 2 [[1,2],[2,1]] [[2,1],[1,2]] [[0,0],[0,0]] [[0,5],[5,0]] = some 10 ∧
    Brute.countStable 2 [[1,2],[2,1]] [[2,1],[1,2]] = 2 := by decide +kernel

/-- hypotheses of `C03_irving_le_opt` / `C03_pairs_le_opt` on the Latin instance with women's values
`[[0,1,5],[5,0,1],[1,5,0]]` (example of `C03Algo.lean`): the mirror answers the MIDDLE stable matching, of value 15,
and 15 is the brute-force optimum — here the bound of `C03_irving_le_opt` is attained -/
example : IrvingAlgo.irving 3 IrvingAlgo.exL1 IrvingAlgo.exL2 [[0,0,0],[0,0,0],[0,0,0]] [[0,1,5],[5,0,1],[1,5,0]]
    = .ok [(0, 1), (1, 2), (2, 0)] := by
  unfold IrvingAlgo.irving IrvingAlgo.irvingPlan; rw [IrvingAlgo.exLatin_maleOptimal]; decide +kernel
example : Brute.optStable 3 IrvingAlgo.exL1 IrvingAlgo.exL2 [[0,0,0],[0,0,0],[0,0,0]] [[0,1,5],[5,0,1],[1,5,0]] = some 15 ∧
    Irving.matchingValue [[0,0,0],[0,0,0],[0,0,0]] [[0,1,5],[5,0,1],[1,5,0]] [(0, 1), (1, 2), (2, 0)] = 15 ∧
    Brute.muOfPairs 3 [(1, 2), (0, 1), (2, 0)] = [1, 2, 0] ∧
    Irving.stablePairsB IrvingAlgo.exL1 IrvingAlgo.exL2 [(1, 2), (0, 1), (2, 0)] = true := by decide +kernel
example : (([(1, 2), (0, 1), (2, 0)] : List Irving.Pair).map Prod.fst).Perm (List.range 3) ∧
    (([(1, 2), (0, 1), (2, 0)] : List Irving.Pair).map Prod.snd).Perm (List.range 3) := by decide
