import Sck.Proofs.Eat10

/-! # C05 — simultaneous eating / probabilistic serial

`Eat.eat n P speeds` (file `Sck/Model/Eat.lean`) mirrors `SimultaneousEating.bistochastic(profile, speeds)`
in exact rational arithmetic; `Eat.ps n P` is `ProbabilisticSerial.bistochastic` (unit speeds);
`Eat.eatLog` additionally returns the ghost list of executed events `(t, current_item)`, and
`eat = (eatLog ·).map (·.1)` by definition.
`Eat.mget X i j` is the entry `X[i][j]`; `Eat.rk P i j` is `profile[i, j]`, agent `i`'s rank of item `j`;
`Eat.spd speeds i` is `speeds[i]`.

Property theorems only; the helper lemmas live in `Sck/Proofs/Eat2.lean` … `Eat10.lean`. -/

open Finset Eat

variable {n : Nat} {P : List (List Nat)} {speeds : List Rat}

/-- the decidable well-formedness test is sound (and complete) for: `n` rows, each of length `n` and
containing `1..n` (hence a permutation of `1..n`), and `n` positive speeds -/
theorem C05_wf_iff : eatWfB n P speeds = true ↔ EatWf n P speeds := eatWfB_iff n P speeds

/-! ## B1 refinement -/

/-- every iteration executed by the loop (from a state the loop can reach, after a failed exit test) does
not raise and is an `advance` of the abstract eating model of `Eat1.lean` by an `Admissible` time step:
`t ≥ 0`, no eating agent is overfilled, no item is over-eaten; moreover it exhausts an item or fills an
agent (the measure `mu` drops) -/
theorem C05_step_refines (hwf : eatWfB n P speeds = true) (st : State)
    (hreach : Reach n (P.map rankedOf) speeds st) (hx : exitNow st = false) :
    ∃ ev st', step n (P.map rankedOf) speeds st = some (ev, st') ∧
      Admissible (order n (P.map rankedOf)) (sF n speeds) (absSt n st) ev.t ∧
      absSt n st' = advance (order n (P.map rankedOf)) (sF n speeds) (absSt n st) ev.t ∧
      mu n st' < mu n st := by
  have hw := eatWfB_sound hwf
  obtain ⟨ev, st', h1, h2, h3, _, h5⟩ := step_refines (rankedOK_of_wf hw) (spd_pos_of_wf hw)
    (hreach.ci (rankedOK_of_wf hw) (spd_pos_of_wf hw)) hx
  exact ⟨ev, st', h1, h2, h3, h5⟩

/-- hence the row/column bookkeeping invariant `EatInv` holds in every state visited by the loop -/
theorem C05_reach_inv (hwf : eatWfB n P speeds = true) (st : State)
    (hreach : Reach n (P.map rankedOf) speeds st) : EatInv (absSt n st) :=
  (hreach.ci (rankedOK_of_wf (eatWfB_sound hwf)) (spd_pos_of_wf (eatWfB_sound hwf))).inv

/-! ## B2 termination -/

/-- the loop neither raises nor runs out of its `2n+1` iterations -/
theorem C05_eat_terminates (hwf : eatWfB n P speeds = true) : ∃ X, eat n P speeds = some X := by
  obtain ⟨evs, stf, he, _⟩ := eatLog_run (eatWfB_sound hwf)
  exact ⟨stf.mat, by unfold eat; rw [he]; rfl⟩

/-! ## B3 the result is a bistochastic matrix -/

theorem C05_eat_dims (hwf : eatWfB n P speeds = true) {X : List (List Rat)}
    (h : eat n P speeds = some X) : X.length = n ∧ ∀ row ∈ X, row.length = n := by
  obtain ⟨log, hlog⟩ := eat_eq_some_iff.mp h
  have hd := (eatLog_spec (eatWfB_sound hwf) hlog).1
  constructor
  · rw [hd]; simp
  · intro row hrow
    rw [hd] at hrow
    obtain ⟨i, _, rfl⟩ := List.mem_map.mp hrow
    simp

theorem C05_eat_nonneg (hwf : eatWfB n P speeds = true) {X : List (List Rat)}
    (h : eat n P speeds = some X) : ∀ i < n, ∀ j < n, 0 ≤ mget X i j := by
  obtain ⟨log, hlog⟩ := eat_eq_some_iff.mp h
  exact (eatLog_spec (eatWfB_sound hwf) hlog).2.1

theorem C05_eat_row_sum (hwf : eatWfB n P speeds = true) {X : List (List Rat)}
    (h : eat n P speeds = some X) : ∀ i < n, ∑ j ∈ range n, mget X i j = 1 := by
  obtain ⟨log, hlog⟩ := eat_eq_some_iff.mp h
  exact (eatLog_spec (eatWfB_sound hwf) hlog).2.2.1

theorem C05_eat_col_sum (hwf : eatWfB n P speeds = true) {X : List (List Rat)}
    (h : eat n P speeds = some X) : ∀ j < n, ∑ i ∈ range n, mget X i j = 1 := by
  obtain ⟨log, hlog⟩ := eat_eq_some_iff.mp h
  exact (eatLog_spec (eatWfB_sound hwf) hlog).2.2.2.1

/-- list form of the row sums -/
theorem C05_eat_row_sum_list (hwf : eatWfB n P speeds = true) {X : List (List Rat)}
    (h : eat n P speeds = some X) : ∀ row ∈ X, row.sum = 1 := by
  obtain ⟨log, hlog⟩ := eat_eq_some_iff.mp h
  have hd := (eatLog_spec (eatWfB_sound hwf) hlog).1
  intro row hrow
  rw [hd] at hrow
  obtain ⟨i, hi, rfl⟩ := List.mem_map.mp hrow
  rw [sum_range_map]
  exact C05_eat_row_sum hwf h i (List.mem_range.mp hi)

/-! ## B4 the result is the outcome of the continuous eating process

`amt speeds evs i j = Σ_{ev ∈ evs} (if ev.cur[i] = some j then ev.t * speeds[i] else 0)` is the amount of
item `j` that agent `i` eats during the events `evs` (rates are piecewise constant).
`EventOK n P speeds A ev` says that `ev` is a correct piece of the continuous process in the state in which
agent `i` has eaten `A i j` of item `j`:
* `0 ≤ ev.t`;
* every agent `i` with `Σ_j A i j < 1` eats an item `j` (`ev.cur[i] = some j`) that is not exhausted
  (`Σ_i' A i' j < 1`) while every item it ranks better is exhausted (`Σ_i' A i' j' = 1`), and it does not
  get beyond one unit within `ev.t`;
* agents that have eaten a full unit do not eat (`ev.cur[i] = none`);
* no item is over-eaten within `ev.t`.
So during the whole duration of the event the rates are those of the continuous process. -/

theorem C05_eat_is_process (hwf : eatWfB n P speeds = true) {X : List (List Rat)} {log : List Event}
    (h : eatLog n P speeds = some (X, log)) :
    -- the matrix adds up the events
    (∀ i < n, ∀ j < n, mget X i j = amt speeds log i j) ∧
    -- each event is correct in the state produced by the events before it
    (∀ k (hk : k < log.length), EventOK n P speeds (amt speeds (log.take k)) log[k]) ∧
    -- the process stops only when every agent has eaten exactly one unit
    (∀ i < n, ∑ j ∈ range n, amt speeds log i j = 1) := by
  obtain ⟨_, _, _, _, hamt, htr⟩ := eatLog_spec (eatWfB_sound hwf) h
  refine ⟨hamt, ?_, ?_⟩
  · intro k hk
    have := htr.take log k hk
    simpa only [zero_add] using this
  · intro i hi
    have := htr.rows log i hi
    simpa only [zero_add] using this

/-- `eat` is the matrix component of `eatLog` -/
theorem C05_eat_eq_eatLog : eat n P speeds = (eatLog n P speeds).map (·.1) := rfl

/-! ## B5 equal speeds: sd-envy-freeness -/

/-- With equal speeds, for all agents `i`, `k` and every prefix `T` of agent `i`'s ranking
(`rankedOf P[i]` lists the items by increasing rank), agent `i` gets at least as much of `T` as agent `k`:
`i`'s own row weakly stochastically dominates every other row w.r.t. `i`'s ranking (in particular it is
not dominated by it). -/
theorem C05_ps_sd_envy_free (hwf : eatWfB n P speeds = true) (c : ℚ) (hc : ∀ s ∈ speeds, s = c)
    {X : List (List Rat)} (h : eat n P speeds = some X)
    (i k : Nat) (hi : i < n) (hk : k < n) (m : Nat) :
    (((rankedOf (P.getD i [])).take m).map (fun j => mget X k j)).sum ≤
      (((rankedOf (P.getD i [])).take m).map (fun j => mget X i j)).sum :=
  eat_sd_envy_free_prefix (eatWfB_sound hwf) c hc h i k hi hk m

/-- the same with upper contour sets `{j | profile[i, j] ≤ r}` -/
theorem C05_ps_sd_envy_free_rank (hwf : eatWfB n P speeds = true) (c : ℚ) (hc : ∀ s ∈ speeds, s = c)
    {X : List (List Rat)} (h : eat n P speeds = some X)
    (i k : Nat) (hi : i < n) (hk : k < n) (r : Nat) :
    ∑ j ∈ (range n).filter (fun j => rk P i j ≤ r), mget X k j ≤
      ∑ j ∈ (range n).filter (fun j => rk P i j ≤ r), mget X i j :=
  eat_sd_envy_free (eatWfB_sound hwf) c hc h i k hi hk r

/-- `ProbabilisticSerial.bistochastic` -/
theorem C05_ps (hwf : eatWfB n P (List.replicate n 1) = true) :
    ∃ X, ps n P = some X ∧
      (∀ i < n, ∑ j ∈ range n, mget X i j = 1) ∧ (∀ j < n, ∑ i ∈ range n, mget X i j = 1) ∧
      ∀ i < n, ∀ k < n, ∀ m,
        (((rankedOf (P.getD i [])).take m).map (fun j => mget X k j)).sum ≤
          (((rankedOf (P.getD i [])).take m).map (fun j => mget X i j)).sum := by
  obtain ⟨X, hX⟩ := C05_eat_terminates hwf
  refine ⟨X, hX, C05_eat_row_sum hwf hX, C05_eat_col_sum hwf hX, ?_⟩
  intro i hi k hk m
  exact C05_ps_sd_envy_free hwf 1 (fun s hs => (List.mem_replicate.mp hs).2) hX i k hi hk m

/-! ## non-vacuity: the 3×3 instance -/

example : eatWfB 3 [[1,2,3],[1,2,3],[2,1,3]] [1,1,1] = true := by decide +kernel
example : eatWfB 3 [[1,2,3],[1,2,3],[2,1,3]] [1,2,3] = true := by decide +kernel
example : ∀ s ∈ ([1,1,1] : List Rat), s = 1 := by simp
private theorem C05_example_ranked : [[1,2,3],[1,2,3],[2,1,3]].map rankedOf = [[0,1,2],[0,1,2],[1,0,2]] := by
  simp [rankedOf, plistOfRow, List.mergeSort, List.range, List.range.loop, leKey, keyOf,
    List.MergeSort.Internal.splitInTwo]
/-- the value computed on the instance (probabilistic serial) -/
example : ps 3 [[1,2,3],[1,2,3],[2,1,3]] =
    some [[1/2, 1/6, 1/3], [1/2, 1/6, 1/3], [0, 2/3, 1/3]] := by
  unfold ps eat eatLog
  rw [C05_example_ranked]
  decide +kernel
/-- its event log: three events of durations 1/2, 1/6, 1/3 -/
example : (eatLog 3 [[1,2,3],[1,2,3],[2,1,3]] [1,1,1]).map (fun r => r.2.map (fun e => (e.t, e.cur))) =
    some [(1/2, [some 0, some 0, some 1]), (1/6, [some 1, some 1, some 1]),
          (1/3, [some 2, some 2, some 2])] := by
  unfold eatLog
  rw [C05_example_ranked]
  decide +kernel
/-- the hypotheses `eat … = some X` / `eatLog … = some (X, log)` are satisfiable -/
example : ∃ X, eat 3 [[1,2,3],[1,2,3],[2,1,3]] [1,2,3] = some X :=
  C05_eat_terminates (by decide +kernel)
example : ∃ X log, eatLog 3 [[1,2,3],[1,2,3],[2,1,3]] [1,2,3] = some (X, log) := by
  obtain ⟨X, hX⟩ := C05_eat_terminates (n := 3) (P := [[1,2,3],[1,2,3],[2,1,3]]) (speeds := [1,2,3])
    (by decide +kernel)
  obtain ⟨log, hlog⟩ := eat_eq_some_iff.mp hX
  exact ⟨X, log, hlog⟩
/-- the initial state is reachable and not an exit state, so `C05_step_refines` applies to it -/
example : Reach 3 ([[1,2,3],[1,2,3],[2,1,3]].map rankedOf) [1,1,1] (init 3) ∧ exitNow (init 3) = false :=
  ⟨Reach.init, by decide +kernel⟩

#print axioms C05_step_refines
#print axioms C05_reach_inv
#print axioms C05_eat_terminates
#print axioms C05_eat_dims
#print axioms C05_eat_nonneg
#print axioms C05_eat_row_sum
#print axioms C05_eat_col_sum
#print axioms C05_eat_row_sum_list
#print axioms C05_eat_is_process
#print axioms C05_ps_sd_envy_free
#print axioms C05_ps_sd_envy_free_rank
#print axioms C05_ps
