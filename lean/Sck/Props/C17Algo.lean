import Sck.Proofs.ElicitRules3
import Sck.Props.C03Algo

/-! # C17 — the executable rule-level mirror of `DoubleLambdaTSF` (`ElicitRules.dtsf`)

`ElicitRules.dtsfMatrices P1 P2 V1 V2 n lams1 lams2` mirrors `DoubleLambdaTSF.get_simulated_cardinal_profiles`
(two-sided threshold fill per agent via `Elicit.simulate2`, scattered back to alternative order, `astype(int)`),
`ElicitRules.dtsf n P1 P2 V1 V2 lams1 lams2` mirrors `DoubleLambdaTSF.scf(zero_indexed=True)`: the executable
Irving mirror `IrvingAlgo.irving` on the simulated integer matrices and the ordinal profiles.  `V1`, `V2` are the
integer answers of the two elicitors, `lams1`, `lams2` the thresholds (exact rationals).  Both are compared with
the real Python through the driver ops `dtsfmat` / `dtsf`.  Property theorems only. -/

open ElicitRules IrvingAlgo

/-- **C17 (the answer is a perfect stable matching).**  For EVERY input: if the mirror of `DoubleLambdaTSF.scf`
answers `M` then the simulation succeeded with some integer matrices `S1`, `S2`, `M` is the answer of the Irving
mirror on them, `M` is a perfect matching and has no blocking pair w.r.t. the ORDINAL profiles `P1`, `P2`
(directly from `C03_irving_sound`). -/
theorem C17_dtsf_sound (n : Nat) (P1 P2 : List (List Nat)) (V1 V2 : List (List Int)) (lams1 lams2 : List Rat)
    (M : List Irving.Pair) (h : dtsf n P1 P2 V1 V2 lams1 lams2 = .ok M) :
    ∃ S1 S2, dtsfMatrices P1 P2 V1 V2 n lams1 lams2 = some (S1, S2) ∧ irving n P1 P2 S1 S2 = .ok M ∧
      (M.map Prod.fst).Perm (List.range n) ∧ (M.map Prod.snd).Perm (List.range n) ∧
      Irving.StablePairs P1 P2 M := by
  unfold dtsf at h
  split at h
  · exact absurd h (by simp)
  · rename_i S1 S2 hS
    obtain ⟨h1, h2, h3, _⟩ := C03_irving_sound n P1 P2 S1 S2 M h
    exact ⟨S1, S2, hS, h, h1, h2, h3⟩

/-- the simulated matrices are the two sides' matrices -/
theorem C17_dtsfMatrices_sides (n : Nat) (P1 P2 : List (List Nat)) (V1 V2 : List (List Int))
    (lams1 lams2 : List Rat) (S1 S2 : List (List Int))
    (h : dtsfMatrices P1 P2 V1 V2 n lams1 lams2 = some (S1, S2)) :
    lams1.length ≤ n ∧ lams2.length ≤ n ∧ dtsfSide P1 V1 n lams1 = some S1 ∧ dtsfSide P2 V2 n lams2 = some S2 := by
  unfold dtsfMatrices at h
  split at h
  · exact absurd h (by simp)
  · rename_i hk
    split at h
    · rename_i T1 T2 h1 h2
      simp only [Option.some.injEq, Prod.mk.injEq] at h
      obtain ⟨rfl, rfl⟩ := h
      exact ⟨by omega, by omega, h1, h2⟩
    · exact absurd h (by simp)

/-- **C17 (one side of the simulation).**  For an `n × n` strict complete profile `P`, integer answers `V` that are
non-negative and weakly decreasing along every agent's ranking (`consistentRowB`), and thresholds `≥ 1` in
ascending order (`lamsOkB`): the two-sided fill succeeds; the rational matrix `Q` before the cast is integer valued
and the cast `astype(int)` is lossless (`Q[i][j] = S[i][j]`); every simulated value is at most the true value;
the favourite keeps its true value; every simulated value is `0` or one of the agent's true values. -/
theorem C17_dtsf_side (P : List (List Nat)) (V : List (List Int)) (n : Nat) (lams : List Rat)
    (hP : P.length = n) (hV : V.length = n)
    (hc : ∀ i, i < n → consistentRowB (P.getD i []) (ratRow (V.getD i [])) n = true)
    (hl : lamsOkB lams = true) :
    ∃ Q S, dtsfSideQ P V n lams = some Q ∧ dtsfSide P V n lams = some S ∧ S.length = n ∧
      ∀ i j, i < n → j < n →
        (S.getD i []).length = n ∧
        ratOf Q i j = ((intOf S i j : Int) : Rat) ∧
        intOf S i j ≤ intOf V i j ∧
        (rankOf P i j = 1 → intOf S i j = intOf V i j) ∧
        (intOf S i j = 0 ∨ ∃ j', j' < n ∧ intOf S i j = intOf V i j') :=
  dtsfSide_spec hP hV hc hl

/-- **C17 (the whole simulation succeeds on well-formed inputs).** -/
theorem C17_dtsfMatrices_ok (n : Nat) (P1 P2 : List (List Nat)) (V1 V2 : List (List Int)) (lams1 lams2 : List Rat)
    (hk1 : lams1.length ≤ n) (hk2 : lams2.length ≤ n)
    (hP1 : P1.length = n) (hV1 : V1.length = n) (hP2 : P2.length = n) (hV2 : V2.length = n)
    (hc1 : ∀ i, i < n → consistentRowB (P1.getD i []) (ratRow (V1.getD i [])) n = true)
    (hc2 : ∀ i, i < n → consistentRowB (P2.getD i []) (ratRow (V2.getD i [])) n = true)
    (hl1 : lamsOkB lams1 = true) (hl2 : lamsOkB lams2 = true) :
    ∃ S1 S2, dtsfMatrices P1 P2 V1 V2 n lams1 lams2 = some (S1, S2) ∧
      (∀ i j, i < n → j < n → intOf S1 i j ≤ intOf V1 i j ∧ intOf S2 i j ≤ intOf V2 i j) := by
  obtain ⟨_, S1, _, h1, _, hs1⟩ := dtsfSide_spec hP1 hV1 hc1 hl1
  obtain ⟨_, S2, _, h2, _, hs2⟩ := dtsfSide_spec hP2 hV2 hc2 hl2
  refine ⟨S1, S2, ?_, fun i j hi hj => ⟨(hs1 i j hi hj).2.2.1, (hs2 i j hi hj).2.2.1⟩⟩
  unfold dtsfMatrices
  rw [if_neg (by omega), h1, h2]

/-! ## Non-vacuity: the 3×3 Latin-square instance of C03 with integer answers consistent with the rankings -/

def C17A_V1 : List (List Int) := [[5, 4, 1], [1, 5, 4], [4, 1, 5]]
def C17A_V2 : List (List Int) := [[0, 6, 5], [5, 1, 9], [6, 3, 2]]

theorem C17A_rr1 : ElicitRules.rankedRow [1, 2, 3] = [0, 1, 2] := by
  simp [ElicitRules.rankedRow, Elicit.rankedOf, plistOfRow, List.mergeSort, leKey, keyOf, List.range, List.range.loop]
theorem C17A_rr2 : ElicitRules.rankedRow [3, 1, 2] = [1, 2, 0] := by
  simp [ElicitRules.rankedRow, Elicit.rankedOf, plistOfRow, List.mergeSort, leKey, keyOf, List.range, List.range.loop]
theorem C17A_rr3 : ElicitRules.rankedRow [2, 3, 1] = [2, 0, 1] := by
  simp [ElicitRules.rankedRow, Elicit.rankedOf, plistOfRow, List.mergeSort, leKey, keyOf, List.range, List.range.loop]

example : ∀ i, i < 3 → consistentRowB (exL1.getD i []) (ratRow (C17A_V1.getD i [])) 3 = true := by decide +kernel
example : ∀ i, i < 3 → consistentRowB (exL2.getD i []) (ratRow (C17A_V2.getD i [])) 3 = true := by decide +kernel
example : lamsOkB [3/2, 5/2] = true ∧ lamsOkB [2] = true := by decide +kernel

/-- the simulated integer matrices (men: thresholds `3/2, 5/2`; women: threshold `2`) -/
theorem C17A_matrices : dtsfMatrices exL1 exL2 C17A_V1 C17A_V2 3 [3/2, 5/2] [2]
    = some ([[5, 4, 0], [0, 5, 4], [4, 0, 5]], [[0, 6, 5], [5, 0, 9], [6, 3, 0]]) := by
  simp only [dtsfMatrices, dtsfSide, dtsfSideQ, sim2Row, posVals_fun, scatter_fun, exL1, exL2, C17A_V1, C17A_V2,
    List.zip_cons_cons, List.zip_nil_right, List.map_cons, List.map_nil, C17A_rr1, C17A_rr2, C17A_rr3]
  decide +kernel

/-- the whole rule on the instance: the first rotation is chosen (men lose 3, women gain 13), the second is not
(men lose 12, women gain 8); the answer is the middle stable matching -/
example : dtsf 3 exL1 exL2 C17A_V1 C17A_V2 [3/2, 5/2] [2] = .ok [(0, 1), (1, 2), (2, 0)] := by
  unfold dtsf; rw [C17A_matrices]
  unfold irving irvingPlan; rw [exLatin_maleOptimal]; decide +kernel
