import Sck.Proofs.VotingSym2
import Sck.Proofs.VotingStvRename

/-! # C11 — anonymity and neutrality of the score-based rules, ties of alternatives with equal rank multisets
Property theorems only (helper lemmas live in `Sck/Proofs/Voting*.lean`).

Covered here: every positional rule (Plurality, Borda, Veto, k-approval are `positional w` for the weights
`pluralityW`, `bordaW m`, `vetoW m`, `kApprovalW k`), Harmonic, Copeland, utilitarian (exact rationals, so the
"up to 1e-9" clause holds with error 0 in the model), and STV (`stv choose P m fixer`, `choose` = the
tie-breaking choice among the alternatives of minimal plurality score). Since winners, `scf` and `swf` are functions of the
score vector, equality of score vectors gives equality of every output.

Renaming: `sig` is a permutation of `0..m-1` (`permB sig m = true`), new alternative `a` is old alternative
`b` whenever `sig[a]? = some b`; `renameProfile sig P` is the renamed profile. -/

open Vote

/-! ## reordering the voters -/

theorem C11_positional_perm_voters (w : Nat → Int) {P P' : Profile} (h : P.Perm P') (m : Nat) :
    positional w P m = positional w P' m := positional_perm_voters w h m

theorem C11_harmonic_perm_voters {P P' : Profile} (h : P.Perm P') (m : Nat) :
    harmonic P m = harmonic P' m := harmonic_perm_voters h m

theorem C11_copeland_perm_voters {P P' : Profile} (h : P.Perm P') (m : Nat) :
    copeland P m = copeland P' m := copeland_perm_voters h m

theorem C11_hist_perm_voters {P P' : Profile} (h : P.Perm P') (m j : Nat) :
    hist P m j = hist P' m j := hist_perm_voters h m j

theorem C11_utilitarian_perm_voters {V V' : List (List (Option Rat))} (h : V.Perm V') (m : Nat) :
    utilitarian V m = utilitarian V' m := utilitarian_perm_voters h m

/-- hence the winner set, the social choice under every tie-breaker and indexing, and the ranking are unchanged -/
theorem C11_outputs_perm_voters (w : Nat → Int) {P P' : Profile} (h : P.Perm P') (m fixer : Nat)
    (tb : TieBreaker) :
    winnersI (positional w P m) = winnersI (positional w P' m) ∧
    scfI fixer tb (positional w P m) = scfI fixer tb (positional w P' m) ∧
    swfI fixer (positional w P m) = swfI fixer (positional w P' m) ∧
    winnersQ (harmonic P m) = winnersQ (harmonic P' m) ∧
    scfQ fixer tb (harmonic P m) = scfQ fixer tb (harmonic P' m) ∧
    winnersI (copeland P m) = winnersI (copeland P' m) ∧
    scfI fixer tb (copeland P m) = scfI fixer tb (copeland P' m) ∧
    swfI fixer (copeland P m) = swfI fixer (copeland P' m) := by
  rw [positional_perm_voters w h m, harmonic_perm_voters h m, copeland_perm_voters h m]
  exact ⟨rfl, rfl, rfl, rfl, rfl, rfl, rfl, rfl⟩

/-- reordering voters keeps a profile complete and strict -/
theorem C11_wfB_perm_voters {P P' : Profile} {m : Nat} (h : P.Perm P') (hP : wfB P m = true) :
    wfB P' m = true := wfB_perm_voters h hP

/-! ## renaming the alternatives -/

theorem C11_permB_iff {sig : List Nat} {m : Nat} : permB sig m = true ↔ sig.Perm (List.range m) := permB_iff

/-- every new alternative `a < m` is some old alternative `b < m`, and every old one is reached -/
theorem C11_rename_bij {sig : List Nat} {m : Nat} (hsig : permB sig m = true) :
    (∀ a, a < m → ∃ b, sig[a]? = some b) ∧
    (∀ a b : Nat, sig[a]? = some b → a < m ∧ b < m) ∧
    (∀ b, b < m → ∃ a, a < m ∧ sig[a]? = some b) :=
  ⟨fun _ ha => sig_total (permB_iff.1 hsig) ha, fun _ _ h => sig_lt (permB_iff.1 hsig) h,
   fun _ hb => sig_surj (permB_iff.1 hsig) hb⟩

/-- renaming keeps a profile complete and strict -/
theorem C11_wfB_rename {sig : List Nat} {P : Profile} {m : Nat} (hsig : permB sig m = true)
    (hP : wfB P m = true) : wfB (renameProfile sig P) m = true := wfB_rename (permB_iff.1 hsig) hP

/-- scores are permuted accordingly (both sides are `some _` because `a, b < m`) -/
theorem C11_positional_rename (w : Nat → Int) {sig : List Nat} {m a b : Nat}
    (hsig : permB sig m = true) (h : sig[a]? = some b) (P : Profile) :
    (positional w (renameProfile sig P) m)[a]? = (positional w P m)[b]? :=
  positional_rename w (permB_iff.1 hsig) h P

theorem C11_harmonic_rename {sig : List Nat} {m a b : Nat}
    (hsig : permB sig m = true) (h : sig[a]? = some b) (P : Profile) :
    (harmonic (renameProfile sig P) m)[a]? = (harmonic P m)[b]? :=
  harmonic_rename (permB_iff.1 hsig) h P

theorem C11_copeland_rename {sig : List Nat} {m a b : Nat}
    (hsig : permB sig m = true) (h : sig[a]? = some b) (P : Profile) :
    (copeland (renameProfile sig P) m)[a]? = (copeland P m)[b]? :=
  copeland_rename (permB_iff.1 hsig) h P

theorem C11_hist_rename {sig : List Nat} {a b : Nat} (h : sig[a]? = some b) (P : Profile) (m : Nat) :
    hist (renameProfile sig P) m a = hist P m b := hist_rename h P m

/-- winner sets are permuted accordingly -/
theorem C11_positional_winners_rename (w : Nat → Int) {sig : List Nat} {m a b : Nat}
    (hsig : permB sig m = true) (h : sig[a]? = some b) (P : Profile) :
    a ∈ winnersI (positional w (renameProfile sig P) m) ↔ b ∈ winnersI (positional w P m) :=
  positional_winners_rename w (permB_iff.1 hsig) h P

theorem C11_harmonic_winners_rename {sig : List Nat} {m a b : Nat}
    (hsig : permB sig m = true) (h : sig[a]? = some b) (P : Profile) :
    a ∈ winnersQ (harmonic (renameProfile sig P) m) ↔ b ∈ winnersQ (harmonic P m) :=
  harmonic_winners_rename (permB_iff.1 hsig) h P

theorem C11_copeland_winners_rename {sig : List Nat} {m a b : Nat}
    (hsig : permB sig m = true) (h : sig[a]? = some b) (P : Profile) :
    a ∈ winnersI (copeland (renameProfile sig P) m) ↔ b ∈ winnersI (copeland P m) :=
  copeland_winners_rename (permB_iff.1 hsig) h P

/-- generic form: any two score vectors related by the renaming have winner sets related by the renaming -/
theorem C11_winnersI_rename {s s' : List Int} {sig : List Nat} {m : Nat}
    (hsig : permB sig m = true) (hs : s.length = m) (hs' : s'.length = m)
    (hrel : ∀ a b : Nat, sig[a]? = some b → s'[a]? = s[b]?) {a b : Nat} (h : sig[a]? = some b) :
    a ∈ winnersI s' ↔ b ∈ winnersI s := winnersI_rename (permB_iff.1 hsig) hs hs' hrel h

theorem C11_winnersQ_rename {s s' : List Rat} {sig : List Nat} {m : Nat}
    (hsig : permB sig m = true) (hs : s.length = m) (hs' : s'.length = m)
    (hrel : ∀ a b : Nat, sig[a]? = some b → s'[a]? = s[b]?) {a b : Nat} (h : sig[a]? = some b) :
    a ∈ winnersQ s' ↔ b ∈ winnersQ s := winnersQ_rename (permB_iff.1 hsig) hs hs' hrel h

/-- utilitarian: renaming the alternatives permutes shares and winners (exactly, in rational arithmetic) -/
theorem C11_utilitarian_rename {V : List (List (Option Rat))} {sig : List Nat} {m : Nat} {sh : List Rat}
    (hsig : permB sig m = true) (hV : valsB V m = true) (h : utilitarian V m = some sh) :
    ∃ sh', utilitarian (renameVals sig V) m = some sh' ∧
      (∀ a b : Nat, sig[a]? = some b → sh'[a]? = sh[b]?) ∧
      (∀ a b : Nat, sig[a]? = some b → (a ∈ winnersQ sh' ↔ b ∈ winnersQ sh)) :=
  utilitarian_winners_rename (permB_iff.1 hsig) hV h

/-! ## alternatives with the same multiset of ranks tie -/

theorem C11_same_multiset_tie_positional (w : Nat → Int) {P : Profile} {m a b : Nat} (ha : a < m) (hb : b < m)
    (h : (col P a).Perm (col P b)) :
    (positional w P m)[a]? = (positional w P m)[b]? ∧
      (a ∈ winnersI (positional w P m) ↔ b ∈ winnersI (positional w P m)) :=
  positional_same_multiset w ha hb h

theorem C11_same_multiset_tie_harmonic {P : Profile} {m a b : Nat} (ha : a < m) (hb : b < m)
    (h : (col P a).Perm (col P b)) :
    (harmonic P m)[a]? = (harmonic P m)[b]? ∧
      (a ∈ winnersQ (harmonic P m) ↔ b ∈ winnersQ (harmonic P m)) :=
  harmonic_same_multiset ha hb h

/-! ## factorisation through the rank histogram -/

/-- the positional score is a function of the histogram: `score j = Σ_r hist[r] · w (r+1)` -/
theorem C11_positional_of_hist (w : Nat → Int) {P : Profile} {m j : Nat} (hP : rankedB P m = true) (hj : j < m) :
    (positional w P m)[j]? = some (positionalOfHist w (hist P m j)) := positional_of_hist w hP hj

theorem C11_harmonic_of_hist {P : Profile} {m j : Nat} (hP : rankedB P m = true) (hj : j < m) :
    (harmonic P m)[j]? = some (harmonicOfHist (hist P m j)) := harmonic_eq_hist hP hj

/-- same multiset of ranks ⇒ same histogram; and conversely on ranked profiles -/
theorem C11_hist_same_multiset {P : Profile} {a b : Nat} (m : Nat) (h : (col P a).Perm (col P b)) :
    hist P m a = hist P m b := hist_same_multiset m h

theorem C11_same_multiset_of_hist {P : Profile} {m a b : Nat} (hP : rankedB P m = true) (ha : a < m)
    (hb : b < m) (h : hist P m a = hist P m b) : (col P a).Perm (col P b) :=
  col_perm_of_hist_eq hP ha hb h

/-! ## STV -/

/-- reordering the voters leaves the STV winner unchanged, whatever the tie-breaking choice function -/
theorem C11_stv_perm_voters (choose : List Nat → Nat) {P P' : List (List Nat)} (h : P.Perm P')
    (m fixer : Nat) : stv choose P m fixer = stv choose P' m fixer := stv_perm_voters choose h m fixer

/-- the same for the replay of a random tie-breaking sequence -/
theorem C11_stvReplay_perm_voters (choices : List Nat) {P P' : List (List Nat)} (h : P.Perm P')
    (labels : List Nat) : stvReplay choices P labels = stvReplay choices P' labels :=
  stvReplay_perm_voters choices h labels

/-- renaming the alternatives renames the STV winner accordingly whenever no elimination tie occurs
(`stvNoTie m P m`: in every round exactly one alternative has minimal plurality score); `choose` is any
tie-breaker that returns the only candidate when there is just one. -/
theorem C11_stv_rename (choose : List Nat → Nat) (hch : ∀ x, choose [x] = x) {sig : List Nat} {m : Nat}
    (hsig : permB sig m = true) {P : Profile} (hP : ∀ row ∈ P, row.length = m) (fixer : Nat)
    (hnt : stvNoTie m P m = true) :
    (stv choose (renameProfile sig P) m fixer = none ↔ stv choose P m fixer = none) ∧
    ∀ x', stv choose (renameProfile sig P) m fixer = some x' →
      ∃ a b : Nat, sig[a]? = some b ∧ x' = a + fixer ∧ stv choose P m fixer = some (b + fixer) :=
  stv_rename choose hch (permB_iff.1 hsig) hP fixer hnt

/-! ## non-vacuity -/

def C11_P0 : Profile := [[1, 2, 3], [2, 1, 3], [1, 3, 2]]
/-- new alternative 0 is old 2, new 1 is old 0, new 2 is old 1 -/
def C11_sig : List Nat := [2, 0, 1]

example : wfB C11_P0 3 = true := by decide
example : permB C11_sig 3 = true := by decide
example : C11_sig[0]? = some 2 := by decide
example : renameProfile C11_sig C11_P0 = [[3, 1, 2], [3, 2, 1], [2, 1, 3]] := by decide
example : borda C11_P0 3 = [5, 3, 1] ∧ borda (renameProfile C11_sig C11_P0) 3 = [1, 5, 3] := by decide
example : copeland C11_P0 3 = [2, 0, -2] ∧ copeland (renameProfile C11_sig C11_P0) 3 = [-2, 2, 0] := by decide
example : C11_P0.Perm [[2, 1, 3], [1, 3, 2], [1, 2, 3]] := by decide
/-- a profile in which alternatives 0 and 1 have the same multiset of ranks `{1,2,3}` but different columns -/
example : (col [[1, 2, 3], [2, 3, 1], [3, 1, 2]] 0).Perm (col [[1, 2, 3], [2, 3, 1], [3, 1, 2]] 1) := by decide
example : col [[1, 2, 3], [2, 3, 1], [3, 1, 2]] 0 ≠ col [[1, 2, 3], [2, 3, 1], [3, 1, 2]] 1 := by decide
example : hist C11_P0 3 0 = [2, 1, 0] ∧ positionalOfHist (bordaW 3) [2, 1, 0] = 5 := by decide
example : renameVals C11_sig [[some 1, some 2, none], [some 3, none, some 2]]
    = [[none, some 1, some 2], [some 2, some 3, none]] := by decide +kernel
example : stvNoTie 3 C11_P0 3 = true := by decide
example : ∀ x, (fun c : List Nat => c.headD 0) [x] = x := fun _ => rfl
example : stv (fun c => c.headD 0) C11_P0 3 1 = some 1 ∧
    stv (fun c => c.headD 0) (renameProfile C11_sig C11_P0) 3 1 = some 2 := by decide
/-- a run with an elimination tie is rejected by the hypothesis -/
example : stvNoTie 3 [[1, 2, 3], [2, 1, 3]] 3 = false := by decide
