import Sck.Proofs.BruteSpec2

/-! # C04 — maximum-weight allocation: executable BRUTE-FORCE specification (n ≤ 8)

`Brute.optAssign n W` enumerates all `n!` permutations of `0..n-1` (`Brute.perms n`) and returns the maximum of
`Σ_i W[i][σ i]` over those that use only non-NaN entries (`none` if there is none).  It runs in the compiled driver
(op `assignopt`), so for small `n` the value of the real code's answer (op `assignval`) is compared with an optimum
computed AND specified inside the model — nothing computed in Python is trusted.  The theorems below say that the
enumeration is complete, that `optAssign` is exactly the optimum quantified over `Equiv.Perm (Fin n)` (the statement
form of `C04_cert_sound`), and that the certificate layer and the brute force provably agree.  Property theorems only. -/

open Finset

/-- **C04 (the enumeration is complete).**  A list is in `perms n` iff it is a permutation of `[0, …, n-1]`. -/
theorem C04_perms_complete (n : Nat) (σ : List Nat) : σ ∈ Brute.perms n ↔ σ.Perm (List.range n) :=
  Brute.perms_complete n σ

/-- **C04 (the same, elementwise).**  A list is in `perms n` iff it has length `n`, no repeated entry and all
entries `< n`. -/
theorem C04_perms_complete_elem (n : Nat) (σ : List Nat) :
    σ ∈ Brute.perms n ↔ σ.length = n ∧ σ.Nodup ∧ ∀ x ∈ σ, x < n :=
  (Brute.perms_complete n σ).trans (Brute.perm_range_iff n σ)

/-- **C04 (no permutation is enumerated twice; there are `n!` of them).** -/
theorem C04_perms_nodup_length (n : Nat) : (Brute.perms n).Nodup ∧ (Brute.perms n).length = n.factorial :=
  ⟨Brute.perms_nodup n, Brute.perms_length n⟩

/-- **C04 (every enumerated list is a checked permutation).**  With the inverse computed by `invPerm`, a member of
`perms n` passes the permutation test `isPermWith` of the certificate checker. -/
theorem C04_perms_isPermWith (n : Nat) (σ : List Nat) (h : σ ∈ Brute.perms n) :
    isPermWith n σ (Brute.invPerm n σ) = true :=
  Brute.isPermWith_invPerm ((Brute.perms_complete n σ).mp h)

/-- **C04 (specification of `optAssign`, list form).**  `optAssign n W = some v` iff some permutation of `0..n-1`
using only non-NaN entries has total utility `v`, and every such permutation has total utility `≤ v`. -/
theorem C04_optAssign_spec (n : Nat) (W : List (List (Option Rat))) (v : Rat) :
    Brute.optAssign n W = some v ↔
      (∃ σ : List Nat, σ.Perm (List.range n) ∧ Brute.assignValue W σ = some v) ∧
      (∀ σ : List Nat, σ.Perm (List.range n) → ∀ x, Brute.assignValue W σ = some x → x ≤ v) :=
  Brute.optAssign_eq_some_iff n W v

/-- **C04 (`optAssign = none`, list form).**  Exactly when every permutation uses a NaN entry. -/
theorem C04_optAssign_none (n : Nat) (W : List (List (Option Rat))) :
    Brute.optAssign n W = none ↔ ∀ σ : List Nat, σ.Perm (List.range n) → Brute.assignValue W σ = none :=
  Brute.optAssign_eq_none_iff n W

/-- **C04 (value of a list assignment).**  For a list of length `n`, `assignValue W σ = some v` iff all entries
`W[i][σ i]` are non-NaN and `v` is their sum. -/
theorem C04_assignValue_spec (n : Nat) (W : List (List (Option Rat))) (σ : List Nat) (hl : σ.length = n) (v : Rat) :
    Brute.assignValue W σ = some v ↔
      (∀ i : Fin n, (entry W i (σ.getD i n)).isSome) ∧ v = ∑ i : Fin n, (entry W i (σ.getD i n)).getD 0 :=
  Brute.assignValue_eq_some_iff n W σ hl v

/-- **C04 (specification of `optAssign`, in the statement form of `C04_cert_sound`).**  `optAssign n W = some v` iff
some one-to-one assignment `τ : Equiv.Perm (Fin n)` of acceptable pairs has total utility `v` and every such
assignment has total utility `≤ v`. -/
theorem C04_optAssign_spec_perm (n : Nat) (W : List (List (Option Rat))) (v : Rat) :
    Brute.optAssign n W = some v ↔
      (∃ (τ : Equiv.Perm (Fin n)) (hτ : ∀ i : Fin n, (entry W i (τ i)).isSome),
          ∑ i : Fin n, (entry W i (τ i)).get (hτ i) = v) ∧
      (∀ (τ : Equiv.Perm (Fin n)) (hτ : ∀ i : Fin n, (entry W i (τ i)).isSome),
          ∑ i : Fin n, (entry W i (τ i)).get (hτ i) ≤ v) :=
  Brute.optAssign_eq_some_iff_perm_get n W v

/-- **C04 (`optAssign = none`, `Equiv.Perm` form).**  Exactly when no one-to-one assignment of acceptable pairs
exists — the conclusion of `C04_hall_sound`; raising an error is then the only correct behaviour. -/
theorem C04_optAssign_none_perm (n : Nat) (W : List (List (Option Rat))) :
    Brute.optAssign n W = none ↔ ¬ ∃ τ : Equiv.Perm (Fin n), ∀ i : Fin n, (entry W i (τ i)).isSome :=
  Brute.optAssign_eq_none_iff_perm n W

/-- **C04 (both references agree, exact certificate).**  A certificate accepted by `assignCertOk` with `delta = 0`
pins the same value as the brute force: `optAssign n w` is the (defined) total utility of `sigma`. -/
theorem C04_cert_value_eq_opt (n : Nat) (w : List (List (Option Rat))) (sigma inv : List Nat) (u v : List Rat)
    (hok : assignCertOk n w sigma inv u v 0 = true) :
    Brute.optAssign n w = Brute.assignValue w sigma ∧ (Brute.assignValue w sigma).isSome :=
  Brute.cert_value_eq_opt n w sigma inv u v hok

/-- **C04 (both references agree, approximate certificate).**  With slack `delta`, the brute-force optimum lies
between the total utility of `sigma` and that utility plus `n·delta`. -/
theorem C04_cert_value_opt_delta (n : Nat) (w : List (List (Option Rat))) (sigma inv : List Nat) (u v : List Rat)
    (delta : Rat) (hok : assignCertOk n w sigma inv u v delta = true) :
    ∃ val opt : Rat, Brute.assignValue w sigma = some val ∧ Brute.optAssign n w = some opt ∧
      val ≤ opt ∧ opt ≤ val + n * delta :=
  Brute.cert_value_opt n w sigma inv u v delta hok

/-- **C04 (both references agree, infeasible case).**  If the Hall-violator checker accepts, the brute force finds
no acceptable permutation either. -/
theorem C04_hall_opt_none (n : Nat) (w : List (List (Option Rat))) (S : List Nat) (hok : hallCertOk n w S = true) :
    Brute.optAssign n w = none :=
  Brute.hall_opt_none n w S hok

/-- **C04 (what the harness comparison proves).**  If the answer `sigma` is a checked permutation, its total
utility is defined (`assignval` answers `ok v`) and equals the brute-force optimum (`assignopt` answers `ok v`), then
`sigma` uses only acceptable pairs and no one-to-one assignment of acceptable pairs has a larger total utility —
the conclusion of `C04_cert_optimal`, without any certificate. -/
theorem C04_brute_optimal (n : Nat) (W : List (List (Option Rat))) (sigma inv : List Nat)
    (hp : isPermWith n sigma inv = true) (v : Rat)
    (hv : Brute.assignValue W sigma = some v) (hopt : Brute.optAssign n W = some v) :
    ∃ hσ : ∀ i : Fin n, (entry W i (permOfLists n sigma inv hp i)).isSome,
      ∀ (τ : Equiv.Perm (Fin n)) (hτ : ∀ i : Fin n, (entry W i (τ i)).isSome),
        ∑ i : Fin n, (entry W i (τ i)).get (hτ i)
          ≤ ∑ i : Fin n, (entry W i (permOfLists n sigma inv hp i)).get (hσ i) :=
  Brute.brute_assign_optimal n W sigma inv hp v hv hopt

/-- **C04 (`countAssign`).**  The number reported by the op `assigncount` is the number of one-to-one assignments
of acceptable pairs. -/
theorem C04_countAssign_eq_card (n : Nat) (W : List (List (Option Rat))) :
    Brute.countAssign n W = Nat.card {τ : Equiv.Perm (Fin n) // ∀ i : Fin n, (entry W i (τ i)).isSome} :=
  Brute.countAssign_eq_card n W

/-! ## Non-vacuity -/

/-- the six permutations of `0, 1, 2` -/
example : Brute.perms 3 = [[0, 1, 2], [1, 0, 2], [1, 2, 0], [0, 2, 1], [2, 0, 1], [2, 1, 0]] := by decide +kernel

/-- the 3×3 instance of `Sck/Props/C04.lean` (a zero, a tie, two NaNs): three acceptable permutations, the optimum
`9` is attained by `0→2, 1→0, 2→1` (hypotheses of `C04_brute_optimal`), and the exact certificate of `C04.lean` is
accepted for the same data (hypothesis of `C04_cert_value_eq_opt`) -/
example : Brute.optAssign 3 [[some 3, some 0, some 4], [some 2, none, some 2], [none, some 3, some 3]] = some 9 ∧
    Brute.countAssign 3 [[some 3, some 0, some 4], [some 2, none, some 2], [none, some 3, some 3]] = 3 ∧
    Brute.assignValue [[some 3, some 0, some 4], [some 2, none, some 2], [none, some 3, some 3]] [2, 0, 1] = some 9 ∧
    isPermWith 3 [2, 0, 1] (Brute.invPerm 3 [2, 0, 1]) = true ∧
    assignCertOk 3 [[some 3, some 0, some 4], [some 2, none, some 2], [none, some 3, some 3]]
      [2, 0, 1] [1, 2, 0] [3, 1, 2] [1, 1, 1] 0 = true := by decide +kernel

/-- a suboptimal acceptable permutation of the same instance (value 8 < 9) and one that uses a NaN -/
example : Brute.assignValue [[some 3, some 0, some 4], [some 2, none, some 2], [none, some 3, some 3]] [0, 2, 1] = some 8 ∧
    Brute.assignValue [[some 3, some 0, some 4], [some 2, none, some 2], [none, some 3, some 3]] [0, 1, 2] = none := by
  decide +kernel

/-- non-integer and negative utilities: optimum `1/2 + 1 = 3/2` -/
example : Brute.optAssign 2 [[some (1/2), some (-3/4)], [none, some 1]] = some (3/2) := by decide +kernel

/-- infeasible 3×3 instance of `C04.lean` (agents 0 and 1 accept only item 0): the brute force answers `none` and the
Hall checker accepts `S = [0, 1]` (hypothesis of `C04_hall_opt_none`) -/
example : Brute.optAssign 3 [[some 3, none, none], [some 2, none, none], [some 1, some 1, some 1]] = none ∧
    hallCertOk 3 [[some 3, none, none], [some 2, none, none], [some 1, some 1, some 1]] [0, 1] = true := by
  decide +kernel

/-- the approximate certificate of `C04.lean` (`delta = 1/2`): value 4, optimum 4, `4 ≤ 4 ≤ 4 + 2·1/2` -/
example : Brute.optAssign 2 [[some 3, some 1], [some (5/2), some 1]] = some 4 ∧
    Brute.assignValue [[some 3, some 1], [some (5/2), some 1]] [0, 1] = some 4 := by decide +kernel
