import Sck.Proofs.Lattice10

/-! # C03 — optimality of the mirror of `Irving.scf`, reduced to two statements about rotation discovery and the sparse
poset (Stage 3 of package L7)

What is proved unconditionally (see `C03Lattice.lean`, `C03Rotations.lean`): every stable matching is reached from the
mirror's male-optimal matching `M0` by a checked run of `eliminate_rotations`; the rotations of such a run depend on its
end points only; `optStable = value(M0) + max Σ weights` over such runs.  What is proved about the mirror
(`C03Algo.lean`): its answer is `M0` with the rotations of a maximum-weight CLOSED subset `C` of ITS poset graph
eliminated.  What remains, stated here as `def … : Prop` (plain definitions of propositions; nothing is assumed anywhere):

* `Remaining_i` — `IrvingAlgo.allRotations` lists, in discovery order, a maximal chain of eliminations from `M0`;
* `Remaining_j` — every edge of `IrvingAlgo.posetGraph` is a true precedence between rotations (soundness of Rules 1, 2);
  (`Remaining_j_complete`, completeness of the sparse representation, is only needed for "never `check-exposed`");
* `Remaining_j_task` — (j) literally: "a set of the mirror's rotations can be eliminated in index order iff it is closed in
  `posetGraph`"; with (i) it implies `Remaining_j` (`C03_remaining_j_of_index`, through the lattice lemma `C03_meet_path`)
  and `Remaining_j_complete`.

`C03_irving_optimal_of_remaining` is the kernel-checked implication
`Remaining_i → Remaining_j → (flow side conditions) → irving … = .ok M → optStable … = some (value M)`. -/

open IrvingAlgo SMLattice

/-! ## the obligations, spelled out (the `def`s are in `Sck/Proofs/Lattice7.lean`, `Lattice8.lean`) -/

theorem C03_remaining_i_iff :
    Remaining_i ↔ ∀ n P1 P2 V1 V2, wfB n P1 P2 V1 V2 = true → Remaining_i_at n P1 P2 := Iff.rfl

theorem C03_remaining_j_iff :
    Remaining_j ↔ ∀ n P1 P2 V1 V2, wfB n P1 P2 V1 V2 = true → Remaining_j_at n P1 P2 := Iff.rfl

theorem C03_remaining_j_complete_iff :
    Remaining_j_complete ↔ ∀ n P1 P2 V1 V2, wfB n P1 P2 V1 V2 = true → Remaining_j_complete_at n P1 P2 := Iff.rfl

theorem C03_remaining_i_at_iff (n : Nat) (P1 P2 : List (List Nat)) :
    Remaining_i_at n P1 P2 ↔
      ∀ M0 all elim, maleOptimal n P1 P2 = some M0 →
        allRotations (shortlists n P1 P2 (muOf n M0)).1 (shortlists n P1 P2 (muOf n M0)).2 = some (all, elim) →
        Irving.exposedAllB P1 P2 M0 all = true ∧ (∀ r ∈ all, r ≠ []) ∧
        ∃ Mz, Irving.eliminateAll M0 all = some Mz ∧ ∀ rho, rho ≠ [] → ¬ Irving.Exposed P1 P2 Mz rho := Iff.rfl

theorem C03_remaining_j_at_iff (n : Nat) (P1 P2 : List (List Nat)) :
    Remaining_j_at n P1 P2 ↔
      ∀ M0 all elim, maleOptimal n P1 P2 = some M0 →
        allRotations (shortlists n P1 P2 (muOf n M0)).1 (shortlists n P1 P2 (muOf n M0)).2 = some (all, elim) →
        ∀ B, Irving.exposedAllB P1 P2 M0 B = true → (∀ r ∈ B, r ≠ []) →
          ∀ x y, y ∈ (posetGraph all (shortlists n P1 P2 (muOf n M0)).1 elim).getD x [] →
            (∃ r ∈ B, r ~r all.getD y []) → ∃ r ∈ B, r ~r all.getD x [] := Iff.rfl

theorem C03_remaining_j_complete_at_iff (n : Nat) (P1 P2 : List (List Nat)) :
    Remaining_j_complete_at n P1 P2 ↔
      ∀ M0 all elim, maleOptimal n P1 P2 = some M0 →
        allRotations (shortlists n P1 P2 (muOf n M0)).1 (shortlists n P1 P2 (muOf n M0)).2 = some (all, elim) →
        ∀ T : List Nat, T.Nodup → (∀ x ∈ T, x < all.length) →
          Irving.ClosedUnder (posetGraph all (shortlists n P1 P2 (muOf n M0)).1 elim) T →
          Irving.exposedAllB P1 P2 M0 ((sortNat T).map (fun i => all.getD i [])) = true := Iff.rfl

theorem C03_flowSide_iff (n : Nat) (P1 P2 : List (List Nat)) (V1 V2 : List (List Int)) :
    FlowSide n P1 P2 V1 V2 ↔
      ∀ M0 all elim, maleOptimal n P1 P2 = some M0 →
        allRotations (shortlists n P1 P2 (muOf n M0)).1 (shortlists n P1 P2 (muOf n M0)).2 = some (all, elim) →
        netWfB (closedNet (posetGraph all (shortlists n P1 P2 (muOf n M0)).1 elim)
          (all.map (Irving.rotationWeight V1 V2))) = true ∧
        ∑ i ∈ Finset.range (posetGraph all (shortlists n P1 P2 (muOf n M0)).1 elim).length,
          max (-((all.map (Irving.rotationWeight V1 V2)).getD i 0)) 0 < maxsize := Iff.rfl

theorem C03_idxSub_eq (all : List (List Irving.Pair)) (S : Nat → Bool) :
    idxSub all S = ((List.range all.length).filter S).map (fun i => all.getD i []) := rfl

theorem C03_remaining_j_task_iff :
    Remaining_j_task ↔ ∀ n P1 P2 V1 V2, wfB n P1 P2 V1 V2 = true → Remaining_j_task_at n P1 P2 := Iff.rfl

theorem C03_remaining_j_task_at_iff (n : Nat) (P1 P2 : List (List Nat)) :
    Remaining_j_task_at n P1 P2 ↔
      ∀ M0 all elim, maleOptimal n P1 P2 = some M0 →
        allRotations (shortlists n P1 P2 (muOf n M0)).1 (shortlists n P1 P2 (muOf n M0)).2 = some (all, elim) →
        ∀ S : Nat → Bool, Irving.exposedAllB P1 P2 M0 (idxSub all S) = true ↔
          Irving.ClosedUnder (posetGraph all (shortlists n P1 P2 (muOf n M0)).1 elim)
            ((List.range all.length).filter S) := Iff.rfl

theorem C03_remaining_j_index_at_iff (n : Nat) (P1 P2 : List (List Nat)) :
    Remaining_j_index_at n P1 P2 ↔
      ∀ M0 all elim, maleOptimal n P1 P2 = some M0 →
        allRotations (shortlists n P1 P2 (muOf n M0)).1 (shortlists n P1 P2 (muOf n M0)).2 = some (all, elim) →
        ∀ S : Nat → Bool, Irving.exposedAllB P1 P2 M0 (idxSub all S) = true →
          Irving.ClosedUnder (posetGraph all (shortlists n P1 P2 (muOf n M0)).1 elim)
            ((List.range all.length).filter S) := Iff.rfl

/-! ## Stage 3 -/

/-- **C03 (downward exposure).**  If `ρ` is exposed in stable `μ` and every man of `ρ` strictly prefers his `μ`-wife to his
wife in the stable matching `ν`, then `ρ` is exposed in the meet `κ = μ ∧ ν` as well, with the same pairs, and
`κ/ρ = (μ/ρ) ∧ ν`. -/
theorem C03_exposed_meet {n : ℕ} (P1 P2 : Fin n → Fin n → ℕ) (h1 : ∀ a, Function.Injective (P1 a))
    (h2 : ∀ b, Function.Injective (P2 b)) (μ ν κ : Equiv.Perm (Fin n)) (hμ : StableSM P1 P2 μ)
    (hν : StableSM P1 P2 ν) (hκ : ∀ a, κ a = if P1 a (μ a) ≤ P1 a (ν a) then μ a else ν a) (ρ : List (Fin n))
    (hex : ExposedRot P1 P2 μ ρ) (hon : ∀ c ∈ ρ, P1 c (μ c) < P1 c (ν c)) :
    ExposedRot P1 P2 κ ρ ∧ (∀ c ∈ ρ, κ c = μ c) ∧
      ∀ a, elim κ ρ a = if P1 a (elim μ ρ a) ≤ P1 a (ν a) then elim μ ρ a else ν a :=
  exposed_meet h1 h2 hμ hν hκ hex hon

/-- **C03 (all-or-nothing).**  For `ρ` exposed in stable `μ` and any stable `ν`: either every man of `ρ` strictly prefers
his `μ`-wife to his `ν`-wife, or none does. -/
theorem C03_onway_dichotomy {n : ℕ} (P1 P2 : Fin n → Fin n → ℕ) (h1 : ∀ a, Function.Injective (P1 a))
    (h2 : ∀ b, Function.Injective (P2 b)) (μ ν : Equiv.Perm (Fin n)) (hμ : StableSM P1 P2 μ)
    (hν : StableSM P1 P2 ν) (ρ : List (Fin n)) (hex : ExposedRot P1 P2 μ ρ) :
    (∀ c ∈ ρ, P1 c (μ c) < P1 c (ν c)) ∨ (∀ c ∈ ρ, P1 c (ν c) ≤ P1 c (μ c)) :=
  onway_dichotomy h1 h2 hμ hν hex

/-- **C03 (any eliminable set can be eliminated in the index order of `all`).**  If the mirror's list `all` can be
eliminated from `M0` in its own order and `B` is any sequence of non-empty rotations that can be eliminated from `M0`,
then the members of `all` that are cyclic shifts of members of `B`, taken in index order, can be eliminated from `M0`
too (each exposed when its turn comes). -/
theorem C03_index_run_of_run (n : Nat) (P1 P2 : List (List Nat)) (V1 V2 : List (List Int))
    (hwf : wfB n P1 P2 V1 V2 = true) (M0 : List Irving.Pair) (hmo : maleOptimal n P1 P2 = some M0)
    (all B : List (List Irving.Pair)) (hA : Irving.exposedAllB P1 P2 M0 all = true) (hAne : ∀ r ∈ all, r ≠ [])
    (hB : Irving.exposedAllB P1 P2 M0 B = true) (hBne : ∀ r ∈ B, r ≠ []) :
    ∃ S : Nat → Bool, Irving.exposedAllB P1 P2 M0 (idxSub all S) = true ∧
      ∀ i, i < all.length → (S i = true ↔ ∃ r ∈ B, r ~r all.getD i []) :=
  index_run_of_run hwf hmo hA hAne hB hBne

/-- **C03 (the index-order form of (j) suffices).**  With obligation (i), soundness for index-order runs implies
soundness for all runs (`Remaining_j_at`). -/
theorem C03_remaining_j_of_index (n : Nat) (P1 P2 : List (List Nat)) (V1 V2 : List (List Int))
    (hwf : wfB n P1 P2 V1 V2 = true) (hi : Remaining_i_at n P1 P2) (hx : Remaining_j_index_at n P1 P2) :
    Remaining_j_at n P1 P2 :=
  remaining_j_of_index hwf hi hx

/-- **C03 (the reduction, with (j) as in the task statement).**  If `allRotations` lists a maximal chain of eliminations
(`Remaining_i`) and a set of the mirror's rotations can be eliminated in index order iff it is closed in `posetGraph`
(`Remaining_j_task`), then on every input whose total negative rotation weight is below `sys.maxsize`: every `ok` answer of
the checked mirror of `Irving.scf` has the brute-force optimal value, and (on strict complete inputs) the run-time
checks `check-exposed` / `not-exposed` never fire. -/
theorem C03_irving_optimal_of_remaining_task (hi : Remaining_i) (hj : Remaining_j_task) (n : Nat)
    (P1 P2 : List (List Nat)) (V1 V2 : List (List Int)) (hbig : WeightBound n P1 P2 V1 V2) :
    (∀ M, irving n P1 P2 V1 V2 = .ok M →
      Brute.optStable n P1 P2 V1 V2 = some (Irving.matchingValue V1 V2 M)) ∧
    (wfB n P1 P2 V1 V2 = true →
      irving n P1 P2 V1 V2 ≠ .error "check-exposed" ∧ irving n P1 P2 V1 V2 ≠ .error "not-exposed") :=
  irving_optimal_of_remaining_task hi hj hbig

/-- **C03 (what obligation (i) means: the mirror finds exactly the rotations of the instance).**  If the mirror's list
`all` is a maximal chain of eliminations from `M0`, then no rotation occurs twice in `all` (not even up to a cyclic
shift), and for EVERY sequence `B` of non-empty rotations that can be eliminated from `M0` (each exposed when its turn
comes) no rotation occurs twice in `B` and every rotation of `B` is a cyclic shift of a member of `all`. -/
theorem C03_allRotations_exact_of_remaining_i (n : Nat) (P1 P2 : List (List Nat)) (V1 V2 : List (List Int))
    (hwf : wfB n P1 P2 V1 V2 = true) (hi : Remaining_i_at n P1 P2) (M0 : List Irving.Pair)
    (all : List (List Irving.Pair)) (elim : List (Irving.Pair × Nat)) (hmo : maleOptimal n P1 P2 = some M0)
    (hall : allRotations (shortlists n P1 P2 (muOf n M0)).1 (shortlists n P1 P2 (muOf n M0)).2 = some (all, elim)) :
    all.Pairwise (fun r r' => ¬ r ~r r') ∧
    ∀ B, Irving.exposedAllB P1 P2 M0 B = true → (∀ r ∈ B, r ≠ []) →
      B.Pairwise (fun r r' => ¬ r ~r r') ∧ ∀ r ∈ B, ∃ r' ∈ all, r' ~r r :=
  allRotations_exact_of_remaining_i hwf hi hmo hall

/-- **C03 (optimality of the mirror at one instance, given the obligations there).** -/
theorem C03_irving_optimal_of_remaining_at (n : Nat) (P1 P2 : List (List Nat)) (V1 V2 : List (List Int))
    (hi : Remaining_i_at n P1 P2) (hj : Remaining_j_at n P1 P2) (hflow : FlowSide n P1 P2 V1 V2)
    (M : List Irving.Pair) (h : irving n P1 P2 V1 V2 = .ok M) :
    Brute.optStable n P1 P2 V1 V2 = some (Irving.matchingValue V1 V2 M) :=
  irving_optimal_of_remaining_at hi hj hflow h

/-- **C03 (the reduction).**  If the two remaining obligations hold, then for every input on which the side conditions
of the max-flow stage hold (well-formed flow network, total negative weight below `sys.maxsize`), every `ok` answer of
the checked mirror of `Irving.scf` is a stable matching (`C03_irving_sound`) whose value EQUALS the brute-force optimum
over all stable matchings. -/
theorem C03_irving_optimal_of_remaining (hi : Remaining_i) (hj : Remaining_j) (n : Nat)
    (P1 P2 : List (List Nat)) (V1 V2 : List (List Int)) (hflow : FlowSide n P1 P2 V1 V2)
    (M : List Irving.Pair) (h : irving n P1 P2 V1 V2 = .ok M) :
    Brute.optStable n P1 P2 V1 V2 = some (Irving.matchingValue V1 V2 M) :=
  irving_optimal_of_remaining hi hj hflow h

/-- **C03 (the flow network of the mirror is always well formed).**  For every list of rotations, shortlists and
eliminating map, the network `closedNet (posetGraph …) ws` passes `netWfB` (the hypothesis `hwfB` of
`C03_closedSubset_max` is automatic for the mirror's own poset graph). -/
theorem C03_netWfB_posetGraph (rots : List (List Irving.Pair)) (l1 : List (List Nat))
    (elim : List (Irving.Pair × Nat)) (ws : List Int) :
    netWfB (closedNet (posetGraph rots l1 elim) ws) = true :=
  netWfB_posetGraph rots l1 elim ws

theorem C03_weightBound_iff (n : Nat) (P1 P2 : List (List Nat)) (V1 V2 : List (List Int)) :
    WeightBound n P1 P2 V1 V2 ↔
      ∀ M0 all elim, maleOptimal n P1 P2 = some M0 →
        allRotations (shortlists n P1 P2 (muOf n M0)).1 (shortlists n P1 P2 (muOf n M0)).2 = some (all, elim) →
        ∑ i ∈ Finset.range all.length, max (-(Irving.rotationWeight V1 V2 (all.getD i []))) 0 < maxsize := Iff.rfl

/-- **C03 (the reduction, final form).**  If the two remaining obligations hold, then for every input whose total
negative rotation weight is below `sys.maxsize`, every `ok` answer of the checked mirror of `Irving.scf` has the
brute-force optimal value: `irving … = .ok M → optStable … = some (value M)`. -/
theorem C03_irving_optimal_of_remaining' (hi : Remaining_i) (hj : Remaining_j) (n : Nat)
    (P1 P2 : List (List Nat)) (V1 V2 : List (List Int)) (hbig : WeightBound n P1 P2 V1 V2)
    (M : List Irving.Pair) (h : irving n P1 P2 V1 V2 = .ok M) :
    Brute.optStable n P1 P2 V1 V2 = some (Irving.matchingValue V1 V2 M) :=
  irving_optimal_of_remaining' hi hj hbig h

/-- **C03 (Rule 1 of the sparse poset is sound, spec level).**  Rotations `σ` (exposed in stable `N`) and `σ'` (exposed
in stable `N'`) share the man `c`, who prefers his wife in `N`.  On every elimination path from a stable `μ` with
`rank(μ c) ≤ rank(N c)` (e.g. the man-optimal matching) on which `σ'` is eliminated, `σ` is eliminated too. -/
theorem C03_rule1_sound {n : ℕ} (P1 P2 : Fin n → Fin n → ℕ) (h1 : ∀ a, Function.Injective (P1 a))
    (h2 : ∀ b, Function.Injective (P2 b)) (N N' : Equiv.Perm (Fin n)) (hN : StableSM P1 P2 N)
    (hN' : StableSM P1 P2 N') (σ σ' : List (Fin n)) (hσ : ExposedRot P1 P2 N σ) (hσ' : ExposedRot P1 P2 N' σ')
    (c : Fin n) (hc : c ∈ σ) (hc' : c ∈ σ') (hlt : P1 c (N c) < P1 c (N' c))
    (A : List (List (Fin n))) (μ ν : Equiv.Perm (Fin n)) (hμ : StableSM P1 P2 μ) (hp : ElimPath P1 P2 μ A ν)
    (hstart : P1 c (μ c) ≤ P1 c (N c)) (h' : ∃ r ∈ pathPairs μ A, r ~r rotPairs N' σ') :
    ∃ r ∈ pathPairs μ A, r ~r rotPairs N σ :=
  precedes_of_shared_man h1 h2 hN hN' hσ hσ' hc hc' hlt hμ hp hstart h'

/-- **C03 (a matching without exposed rotation is woman-optimal).** -/
theorem C03_terminal_woman_optimal {n : ℕ} (P1 P2 : Fin n → Fin n → ℕ) (h1 : ∀ a, Function.Injective (P1 a))
    (h2 : ∀ b, Function.Injective (P2 b)) (μz : Equiv.Perm (Fin n)) (hz : StableSM P1 P2 μz)
    (hterm : ∀ ρ, ¬ ExposedRot P1 P2 μz ρ) (ν : Equiv.Perm (Fin n)) (hν : StableSM P1 P2 ν) : MLe P1 ν μz :=
  terminal_woman_optimal h1 h2 hz hterm hν

/-- **C03 (`rotation_weight` is a function of the cyclic sequence).** -/
theorem C03_rotationWeight_isRotated (V1 V2 : List (List Int)) (rho rho' : List Irving.Pair) (h : rho ~r rho') :
    Irving.rotationWeight V1 V2 rho = Irving.rotationWeight V1 V2 rho' :=
  Irving.rotationWeight_isRotated V1 V2 h

/-- **C03 (the `assert`s after Gale–Shapley cannot fail).**  For every input the checked mirror never answers `assert`:
on strict complete profiles Gale–Shapley returns a perfect matching. -/
theorem C03_irving_no_assert (n : Nat) (P1 P2 : List (List Nat)) (V1 V2 : List (List Int)) :
    irving n P1 P2 V1 V2 ≠ .error "assert" :=
  irving_no_assert n P1 P2 V1 V2

/-- **C03 (with completeness of the sparse poset the run-time checks never fire).** -/
theorem C03_irving_no_exposed_error_of_complete (n : Nat) (P1 P2 : List (List Nat)) (V1 V2 : List (List Int))
    (hc : Remaining_j_complete_at n P1 P2) :
    irving n P1 P2 V1 V2 ≠ .error "check-exposed" ∧ irving n P1 P2 V1 V2 ≠ .error "not-exposed" :=
  irving_no_exposed_error_of_complete hc

/-! ## Non-vacuity: the obligations and the side conditions hold on the 3×3 Latin-square instance, where the mirror
answers the middle stable matching (value 15 = `optStable`) -/

example : Remaining_i_at 3 exL1 exL2 := exLatin_remaining_i
example : Remaining_j_at 3 exL1 exL2 := exLatin_remaining_j
example : Remaining_j_task_at 3 exL1 exL2 := exLatin_remaining_j_task
example : FlowSide 3 exL1 exL2 [[0,0,0],[0,0,0],[0,0,0]] [[0,1,5],[5,0,1],[1,5,0]] := exLatin_flowSide
example : WeightBound 3 exL1 exL2 [[0,0,0],[0,0,0],[0,0,0]] [[0,1,5],[5,0,1],[1,5,0]] := exLatin_weightBound
example : irving 3 exL1 exL2 [[0,0,0],[0,0,0],[0,0,0]] [[0,1,5],[5,0,1],[1,5,0]] = .ok [(0, 1), (1, 2), (2, 0)] := by
  unfold irving irvingPlan; rw [exLatin_maleOptimal]; decide +kernel
example : Brute.optStable 3 exL1 exL2 [[0,0,0],[0,0,0],[0,0,0]] [[0,1,5],[5,0,1],[1,5,0]]
    = some (Irving.matchingValue [[0,0,0],[0,0,0],[0,0,0]] [[0,1,5],[5,0,1],[1,5,0]] [(0, 1), (1, 2), (2, 0)]) := by
  decide +kernel
/-- the mirror's data on this instance: two rotations, one edge `0 → 1` -/
example : allRotations (shortlists 3 exL1 exL2 (muOf 3 exM0)).1 (shortlists 3 exL1 exL2 (muOf 3 exM0)).2
    = some (exAll, exElim) ∧ posetGraph exAll (shortlists 3 exL1 exL2 (muOf 3 exM0)).1 exElim = [[1], []] :=
  ⟨exLatin_allRotations, exLatin_posetGraph⟩
