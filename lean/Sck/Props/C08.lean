import Sck.Proofs.FlowProof

/-! # C08 — Ford–Fulkerson returns a maximum flow and a matching minimum cut
(partial correctness of the executable model; the checker/totality theorems are added by `Sck/Proofs/FlowCert.lean`). -/

/-- whatever the executable model returns is a flow, an s–t cut, and `value = cutCap` -/
theorem C08_ff_correct (N : Net) (hwf : N.WF) (fuel : Nat) (f : Flow) (S : List Int)
    (h : ff N fuel = .ok (f, S)) :
    IsFlow N.verts.toFinset N.cap N.s N.t f ∧ N.s ∈ S ∧ N.t ∉ S ∧ (∀ v ∈ S, v ∈ N.verts) ∧
    flowValue N.verts.toFinset N.s f = cutCap N.verts.toFinset N.cap S.toFinset :=
  ff_correct N hwf fuel f S h

/-- a flow whose value equals the capacity of some cut is maximum, and that cut is minimum -/
theorem C08_maxflow_cert {ι : Type} [DecidableEq ι] (V : Finset ι) (cap : ι → ι → ℤ) (s t : ι) (f : ι → ι → ℤ)
    (hf : IsFlow V cap s t f) (S : Finset ι) (hS : S ⊆ V) (hs : s ∈ S) (ht : t ∉ S)
    (heq : flowValue V s f = cutCap V cap S) :
    (∀ g, IsFlow V cap s t g → flowValue V s g ≤ flowValue V s f) ∧
    (∀ S', S' ⊆ V → s ∈ S' → t ∉ S' → cutCap V cap S ≤ cutCap V cap S') :=
  maxflow_cert V cap s t f hf S hS hs ht heq
