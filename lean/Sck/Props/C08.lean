import Sck.Proofs.FlowCert
import Sck.Proofs.FlowCut
import Sck.Proofs.FlowTotal

/-! # C08 — max-flow / min-cut

"For every flow network with non-negative integer capacities, the max-flow routine terminates and returns a
flow that respects every edge capacity and conserves flow at every vertex other than source and sink (a pair
of opposite edges is reported as a net flow), whose value equals the true maximum flow. The returned vertex
set contains the source, excludes the sink, and the total capacity of edges leaving it equals that value."

Vocabulary (`Sck/Proofs/Flow1.lean`): `IsFlow V cap s t f` says that the NET flow function `f` is skew
symmetric (`f u v = - f v u`: opposite edges are reported as a net flow), respects capacities
(`f u v ≤ cap u v` for all `u v`) and is conserved at every vertex of `V` other than `s`, `t`;
`flowValue V s f = ∑ v ∈ V, f s v`; `cutCap V cap S = ∑ u ∈ S, ∑ v ∈ V \ S, cap u v`.
`netWfB` (decidable, `Sck/Model/FlowCert.lean`): vertices duplicate-free, `s ≠ t` both vertices, every edge
joins vertices, no two edges with the same (tail, head).  Capacities are arbitrary `Nat`s (zero allowed,
unbounded), edges into the source / out of the sink / opposite pairs / self loops are allowed.

Property theorems only (helper lemmas live in `Sck/Proofs`). -/

open Finset

/-- **Model, partial correctness.**  Whatever the executable model `ff` returns is a flow of maximum value,
and the returned vertex set is an s–t cut whose capacity equals that value (hence a minimum cut). -/
theorem C08_ff_maxflow_mincut (N : Net) (hwf : netWfB N = true) (fuel : Nat) (f : Flow) (S : List Int)
    (h : ff N fuel = .ok (f, S)) :
    IsFlow N.verts.toFinset N.cap N.s N.t f ∧
    (∀ g, IsFlow N.verts.toFinset N.cap N.s N.t g →
      flowValue N.verts.toFinset N.s g ≤ flowValue N.verts.toFinset N.s f) ∧
    (N.s ∈ S ∧ N.t ∉ S ∧ (∀ v ∈ S, v ∈ N.verts) ∧
      cutCap N.verts.toFinset N.cap S.toFinset = flowValue N.verts.toFinset N.s f) ∧
    (∀ T : Finset Int, T ⊆ N.verts.toFinset → N.s ∈ T → N.t ∉ T →
      cutCap N.verts.toFinset N.cap S.toFinset ≤ cutCap N.verts.toFinset N.cap T) := by
  have hwf' := ((netWfB_iff N).mp hwf).toWF
  obtain ⟨hf, hs, ht, hsub, hval⟩ := ff_correct N hwf' fuel f S h
  have hcert := maxflow_cert N.verts.toFinset N.cap N.s N.t f hf S.toFinset
    (fun v hv => List.mem_toFinset.mpr (hsub v (List.mem_toFinset.mp hv)))
    (List.mem_toFinset.mpr hs) (fun hm => ht (List.mem_toFinset.mp hm)) hval
  exact ⟨hf, hcert.1, ⟨hs, ht, hsub, hval.symm⟩, hcert.2⟩

/-- **Model, totality.**  On a well-formed network the model never fails once the fuel is at least
`ffFuel N = 1 + Σ_{v ≠ s} cap s v` (each augmentation raises the value by at least one and the value is bounded
by the capacity of the cut `{s}`; the search always produces a duplicate-free residual s–t path when the sink
is reachable, and the final reachable set is closed). -/
theorem C08_ff_total (N : Net) (hwf : netWfB N = true) (fuel : Nat) (hfuel : ffFuel N ≤ fuel) :
    ∃ r, ff N fuel = .ok r :=
  ff_total_of_le N hwf fuel hfuel

/-- **Model, total correctness.**  With sufficient fuel the model terminates with a maximum flow and a minimum
cut of equal value. -/
theorem C08_ff_terminates_with_maxflow_mincut (N : Net) (hwf : netWfB N = true) (fuel : Nat)
    (hfuel : ffFuel N ≤ fuel) :
    ∃ f S, ff N fuel = .ok (f, S) ∧
    IsFlow N.verts.toFinset N.cap N.s N.t f ∧
    (∀ g, IsFlow N.verts.toFinset N.cap N.s N.t g →
      flowValue N.verts.toFinset N.s g ≤ flowValue N.verts.toFinset N.s f) ∧
    (N.s ∈ S ∧ N.t ∉ S ∧ (∀ v ∈ S, v ∈ N.verts) ∧
      cutCap N.verts.toFinset N.cap S.toFinset = flowValue N.verts.toFinset N.s f) ∧
    (∀ T : Finset Int, T ⊆ N.verts.toFinset → N.s ∈ T → N.t ∉ T →
      cutCap N.verts.toFinset N.cap S.toFinset ≤ cutCap N.verts.toFinset N.cap T) := by
  obtain ⟨⟨f, S⟩, h⟩ := ff_total_of_le N hwf fuel hfuel
  exact ⟨f, S, h, C08_ff_maxflow_mincut N hwf fuel f S h⟩

/-- **Edge-level reading of the flow laws.**  On a well-formed network a flow sends along every edge
`(u, v, c)` at most `c` and at least minus the capacity of the opposite edge (so at least `0` when the
opposite edge is absent). -/
theorem C08_edge_bounds (N : Net) (hwf : netWfB N = true) (f : Flow)
    (hf : IsFlow N.verts.toFinset N.cap N.s N.t f) (u v : Int) (c : Nat) (he : (u, v, c) ∈ N.edges) :
    f u v ≤ c ∧ - N.cap v u ≤ f u v ∧ ((∀ c', (v, u, c') ∉ N.edges) → 0 ≤ f u v) := by
  have hwf' := (netWfB_iff N).mp hwf
  have h1 := hf.le_cap u v
  rw [cap_of_edge hwf' he] at h1
  have h2 := hf.le_cap v u
  rw [hf.skew v u] at h2
  refine ⟨h1, by omega, fun hno => ?_⟩
  have : N.cap v u ≤ 0 := by
    by_contra hpos
    obtain ⟨c', hc'⟩ := cap_pos_edge (N := N) (u := v) (v := u) (by omega)
    exact hno c' hc'
  omega

/-- **Certificate check for the implementation's output.**  If `flowCutOk` accepts the flow dict `fl` and the
vertex set `S` reported by the implementation for a well-formed network, then the dict has exactly one entry
per edge, the net flow it denotes is a flow of maximum value, and `S` is an s–t cut of capacity equal to that
value, hence a minimum cut. -/
theorem C08_flowCutOk_sound (N : Net) (fl : List (Int × Int × Int)) (S : List Int)
    (hwf : netWfB N = true) (h : flowCutOk N fl S = true) :
    IsFlow N.verts.toFinset N.cap N.s N.t (flowOf fl) ∧
    (∀ g, IsFlow N.verts.toFinset N.cap N.s N.t g →
      flowValue N.verts.toFinset N.s g ≤ flowValue N.verts.toFinset N.s (flowOf fl)) ∧
    (N.s ∈ S ∧ N.t ∉ S ∧ (∀ v ∈ S, v ∈ N.verts) ∧
      cutCap N.verts.toFinset N.cap S.toFinset = flowValue N.verts.toFinset N.s (flowOf fl)) ∧
    (∀ T : Finset Int, T ⊆ N.verts.toFinset → N.s ∈ T → N.t ∉ T →
      cutCap N.verts.toFinset N.cap S.toFinset ≤ cutCap N.verts.toFinset N.cap T) ∧
    EntriesExact N fl :=
  flowCutOk_sound N fl S hwf h

/-- **The model's cut is canonical.**  The vertex set returned by `ff` is contained in the source side of
every minimum s–t cut (it is the set of vertices reachable in the residual graph). -/
theorem C08_ff_cut_minimal (N : Net) (hwf : netWfB N = true) (fuel : Nat) (f : Flow) (S : List Int)
    (h : ff N fuel = .ok (f, S))
    (T : Finset Int) (hTV : T ⊆ N.verts.toFinset) (hs : N.s ∈ T) (ht : N.t ∉ T)
    (hmin : ∀ T' : Finset Int, T' ⊆ N.verts.toFinset → N.s ∈ T' → N.t ∉ T' →
      cutCap N.verts.toFinset N.cap T ≤ cutCap N.verts.toFinset N.cap T') :
    ∀ v ∈ S, v ∈ T :=
  ff_cut_minimal N ((netWfB_iff N).mp hwf).toWF fuel f S h T hTV hs ht hmin

/-- **Model cut vs. certified implementation cut.**  The model's cut is contained in every cut accepted by the
certificate check, and both have the same capacity; so when the harness finds the two sets equal, the
implementation returned the inclusion-least minimum cut. -/
theorem C08_ff_cut_subset_certified (N : Net) (hwf : netWfB N = true) (fuel : Nat) (f : Flow) (S : List Int)
    (h : ff N fuel = .ok (f, S)) (fl : List (Int × Int × Int)) (S' : List Int)
    (hc : flowCutOk N fl S' = true) :
    (∀ v ∈ S, v ∈ S') ∧
    flowValue N.verts.toFinset N.s (flowOf fl) = flowValue N.verts.toFinset N.s f ∧
    cutCap N.verts.toFinset N.cap S'.toFinset = cutCap N.verts.toFinset N.cap S.toFinset := by
  obtain ⟨hf', hmax', ⟨hs', ht', hsub', hval'⟩, hmin', _⟩ := flowCutOk_sound N fl S' hwf hc
  obtain ⟨hf, hmax, ⟨hs, ht, hsub, hval⟩, hmin⟩ := C08_ff_maxflow_mincut N hwf fuel f S h
  have hsub := C08_ff_cut_minimal N hwf fuel f S h S'.toFinset
    (fun v hv => List.mem_toFinset.mpr (hsub' v (List.mem_toFinset.mp hv)))
    (List.mem_toFinset.mpr hs') (fun hm => ht' (List.mem_toFinset.mp hm)) hmin'
  have hv : flowValue N.verts.toFinset N.s (flowOf fl) = flowValue N.verts.toFinset N.s f :=
    le_antisymm (hmax _ hf') (hmax' _ hf)
  refine ⟨fun v hv => List.mem_toFinset.mp (hsub v hv), hv, ?_⟩
  rw [hval, hval', hv]

/-! ### the hypotheses are satisfiable on concrete non-trivial instances -/

/-- a 4-vertex network with an edge into the source -/
example : netWfB exNet = true := by decide
example : flowCutOk exNet exFl [0] = true := by decide
/-- an opposite pair of edges reported as net flows, vertices named `-1`, `-2` -/
example : netWfB exNet2 = true ∧
    flowCutOk exNet2 [(5,-1,-1),(-1,5,1),(-2,5,-1),(5,-2,1)] [-1, 5] = true := by decide
/-- a wrong flow (conservation violated at vertex 1) is rejected -/
example : flowCutOk exNet [(0,1,3),(0,2,2),(1,2,1),(1,3,1),(2,3,3),(3,0,0)] [0] = false := by decide
/-- the model run on the 4-vertex example with the proved-sufficient fuel: cut `{0}`, value `5` -/
example : (match ff exNet (ffFuel exNet) with
    | .ok (f, S) => (S, valueL exNet f)
    | .error _ => ([], -1)) = ([0], 5) := by decide +kernel
