import Sck.Proofs.ElicitSim
import Mathlib.Tactic.NormNum
import Mathlib.Tactic.IntervalCases

/-! # C14 — the simulated valuations of k-ARV, lambda-TSF, Match-TwoQueries and the two-sided lambda-TSF

Per agent, in ranking-position space: `vals q` = true value of the alternative at position `q` of the agent's
ranking (0 = favourite), `m` alternatives, `lams` = the thresholds `λ_1 ≤ … ≤ λ_k` (the code:
`λ_l = m^(l/(k+1))`).  Well-formedness `SimWF vals m lams`: `m > 0`, values antitone along the ranking
(consistency with the strict ranking), `0 ≤ vals 0`, every `λ ≥ 1`, thresholds ascending.

Acceptable sets are described by positions: `cut vals m lam` is the position `p*` returned by the binary
search for threshold `lam`; `InSet vals m pre lam q` says `q ∈ (p_{l-1}, p_l]` where `pre` are the thresholds
before `lam`; `Outside vals m lams q` says `q` lies beyond every cut.  `C14_set_membership` characterises the
cut by values.  Property theorems only (helper lemmas live in `Sck/Proofs`). -/

open Elicit

/-- the cut found by the binary search is exactly the boundary of the `lam`-acceptable set:
a position lies at or before it iff its true value is at least `v/lam` -/
theorem C14_set_membership (vals : Nat → ℚ) (m : Nat) (lams : List ℚ) (h : SimWF vals m lams)
    (lam : ℚ) (hlam : lam ∈ lams) (q : Nat) (hq : q < m) :
    q ≤ cut vals m lam ↔ vals 0 / lam ≤ vals q :=
  le_cut_iff vals m lams h lam hlam q hq

/-- every position other than the favourite is in exactly the set of the first threshold whose cut reaches
it, or outside all sets -/
theorem C14_sets_exhaustive (vals : Nat → ℚ) (m : Nat) (lams : List ℚ) (q : Nat) :
    (∃ pre lam post, lams = pre ++ lam :: post ∧ InSet vals m pre lam q) ∨ Outside vals m lams q :=
  inSet_or_outside vals m lams q

/-- **k-ARV (`floor = 0`) and lambda-TSF (`floor = 1e-5`)**: the fill succeeds; the favourite keeps its true
value; no simulated value exceeds the true value except for the floor given to positions outside all sets;
in the set of `λ_l` the simulated value is exactly `v/λ_l` and the true value is at least that; outside all
sets the simulated value is the floor and the true value is below `v/λ` for every threshold (in particular
the last, `v/m^(k/(k+1))`). -/
theorem C14_threshold_rule (floor : ℚ) (vals : Nat → ℚ) (m : Nat) (lams : List ℚ) (h : SimWF vals m lams) :
    ∃ sim, simulate floor vals m lams = some sim ∧ sim 0 = vals 0 ∧
      (∀ q, q < m → sim q ≤ vals q ∨ (sim q = floor ∧ Outside vals m lams q)) ∧
      (∀ pre lam post q, lams = pre ++ lam :: post → 0 < q → InSet vals m pre lam q →
        sim q = vals 0 / lam ∧ vals 0 / lam ≤ vals q) ∧
      (∀ q, 0 < q → q < m → Outside vals m lams q →
        sim q = floor ∧ ∀ lam ∈ lams, vals q < vals 0 / lam) := by
  obtain ⟨sim, hsim⟩ := sim_succeeds floor vals m lams h
  refine ⟨sim, hsim, sim_favourite floor vals m lams h sim hsim,
    sim_le_true floor vals m lams h sim hsim, ?_, ?_⟩
  · intro pre lam post q hl hq hin
    exact ⟨sim_set_value floor vals m lams h sim hsim pre lam post hl q hq hin,
      sim_set_lower vals m lams h lam (by simp [hl]) q hin.1⟩
  · intro q hq hqm hout
    exact ⟨sim_outside_value floor vals m lams h sim hsim q hq hout,
      sim_outside_upper vals m lams h q hqm hout⟩

/-- k-ARV: with floor 0 and non-negative true values the simulated value never exceeds the true value,
at any position -/
theorem C14_karv_le_true (vals : Nat → ℚ) (m : Nat) (lams : List ℚ) (h : SimWF vals m lams)
    (hnn : ∀ q, q < m → 0 ≤ vals q) (sim : Nat → ℚ) (hsim : simulate 0 vals m lams = some sim) :
    ∀ q, q < m → sim q ≤ vals q := fun q hq =>
  sim_le_true_of_floor_le 0 vals m lams h sim hsim q hq (hnn q hq)

/-- the value outside all sets is below the LAST threshold's level -/
theorem C14_outside_below_last (vals : Nat → ℚ) (m : Nat) (lams : List ℚ) (h : SimWF vals m lams)
    (q : Nat) (hqm : q < m) (hout : Outside vals m lams q) (lamK : ℚ) (hK : lams.getLast? = some lamK) :
    vals q < vals 0 / lamK :=
  sim_outside_upper_last vals m lams h q hqm hout lamK hK

/-- **two-sided lambda-TSF** (`DoubleLambdaTSF`, per side and agent): the fill succeeds; favourite kept; in
the set of `λ_l` the simulated value is the true value at the set's last position `p_l`, that position
belongs to the set, carries the smallest true value of the set, and still reaches `v/λ_l`; outside all
sets: 0, and the true value is below `v/λ` for every threshold. -/
theorem C14_two_sided (vals : Nat → ℚ) (m : Nat) (lams : List ℚ) (h : SimWF vals m lams) :
    ∃ sim, simulate2 vals m lams = some sim ∧ sim 0 = vals 0 ∧
      (∀ pre lam post q, lams = pre ++ lam :: post → 0 < q → InSet vals m pre lam q →
        sim q = vals (cut vals m lam) ∧ InSet vals m pre lam (cut vals m lam) ∧
        (∀ q', InSet vals m pre lam q' → vals (cut vals m lam) ≤ vals q') ∧
        vals 0 / lam ≤ vals (cut vals m lam)) ∧
      (∀ q, 0 < q → q < m → Outside vals m lams q →
        sim q = 0 ∧ ∀ lam ∈ lams, vals q < vals 0 / lam) :=
  simulate2_spec vals m lams h

/-- two-sided rule: never above the true value (non-negative values) -/
theorem C14_two_sided_le_true (vals : Nat → ℚ) (m : Nat) (lams : List ℚ) (h : SimWF vals m lams)
    (sim : Nat → ℚ) (hsim : simulate2 vals m lams = some sim) (q : Nat) (hqm : q < m) (hnn : 0 ≤ vals q) :
    sim q ≤ vals q :=
  sim2_le_true vals m lams h sim hsim q hqm hnn

/-- **Match-TwoQueries** (`p` = ranking position of the item the agent got in the root-n serial
dictatorship): favourite kept; positions `1..p` get the true value AT `p`, which is at most their true
value; positions beyond `p` get the floor `1e-5`. -/
theorem C14_match_two_queries (floor : ℚ) (vals : Nat → ℚ) (m p : Nat)
    (anti : ∀ i j, i ≤ j → j < m → vals j ≤ vals i) (hp : p < m) :
    m2qAgent floor vals p 0 = vals 0 ∧
      (∀ q, 0 < q → q ≤ p → m2qAgent floor vals p q = vals p) ∧
      (∀ q, q ≤ p → m2qAgent floor vals p q ≤ vals q) ∧
      (∀ q, p < q → m2qAgent floor vals p q = floor) :=
  ⟨m2q_favourite floor vals p, fun q h0 hq => m2q_value floor vals p q h0 hq,
    fun q hq => m2q_le_true floor vals m p anti hp q hq, fun q hq => m2q_beyond floor vals p q hq⟩

/-! ### non-vacuity: `m = 4`, values `1/2, 1/4, 1/8, 1/8` along the ranking, one threshold `λ = 2` -/

namespace C14Example

def vals4 : Nat → ℚ := fun q => match q with
  | 0 => 1 / 2
  | 1 => 1 / 4
  | _ => 1 / 8

theorem wf : SimWF vals4 4 [2] where
  mpos := by decide
  anti := by
    intro i j hij hj
    interval_cases j <;> interval_cases i <;> simp only [vals4] <;> norm_num
  nonneg := by simp only [vals4]; norm_num
  ge_one := by intro lam hl; simp at hl; subst hl; norm_num
  sorted := by simp

/-- the cut of `λ = 2` is position 1 (value `1/4 = (1/2)/2` reaches the threshold, `1/8` does not) -/
theorem cut_eq : cut vals4 4 2 = 1 := by
  have h1 := (C14_set_membership vals4 4 [2] wf 2 (by simp) 1 (by decide)).mpr
    (by simp only [vals4]; norm_num)
  have h2 := (C14_set_membership vals4 4 [2] wf 2 (by simp) 2 (by decide)).not.mpr
    (by simp only [vals4]; norm_num)
  omega

/-- the simulated valuation of this agent is `1/2, 1/4, floor, floor` -/
example (floor : ℚ) (sim : Nat → ℚ) (hsim : simulate floor vals4 4 [2] = some sim) :
    sim 0 = 1 / 2 ∧ sim 1 = 1 / 4 ∧ sim 2 = floor ∧ sim 3 = floor := by
  obtain ⟨sim', hsim', h0, _, hin, hout⟩ := C14_threshold_rule floor vals4 4 [2] wf
  rw [hsim] at hsim'
  obtain rfl := Option.some.inj hsim'
  refine ⟨by rw [h0]; rfl, ?_, ?_, ?_⟩
  · have := (hin [] 2 [] 1 rfl (by decide) ⟨by rw [cut_eq], by simp⟩).1
    rw [this]; simp only [vals4]; norm_num
  · exact (hout 2 (by decide) (by decide) (by intro l hl; simp at hl; subst hl; rw [cut_eq]; decide)).1
  · exact (hout 3 (by decide) (by decide) (by intro l hl; simp at hl; subst hl; rw [cut_eq]; decide)).1

/-- two thresholds, also well-formed -/
example : SimWF vals4 4 [2, 3] where
  mpos := by decide
  anti := wf.anti
  nonneg := wf.nonneg
  ge_one := by
    intro lam hl
    simp at hl
    rcases hl with rfl | rfl <;> norm_num
  sorted := by simp; norm_num

end C14Example
