import Sck.Proofs.SMCertProof
import Sck.Proofs.Irving

/-! # C03 — optimal stable matching (Irving): certificate layer (translation validation)

Irving's rotation-poset algorithm is not modelled end to end.  Every output `mu` of the real code is certified
instead: the harness computes an LP-dual certificate `(alpha, beta, y)` for the stable-matching polytope and the
executable checker `smCertOk` accepts it.  Ranks: `rankOf P1 a b` = rank man `a` gives woman `b` (smaller is
better), `rankOf P2 b a` = rank woman `b` gives man `a`.  Values: `intOf V1 a b`, `intOf V2 b a` (any integers:
ties allowed, no relation to the ranks required).  Property theorems only. -/

open Finset

/-- **C03 (certificate soundness).**  If the checker accepts, then `mu` is a perfect matching (a permutation of
`0..n-1` with inverse `inv`), it is stable w.r.t. the ordinal profiles, and no stable matching of the instance has
a larger total value `Σ_a V1[a, ν a] + V2[ν a, a]`. -/
theorem C03_cert_sound (n : Nat) (P1 P2 : List (List Nat)) (V1 V2 : List (List Int)) (mu inv : List Nat)
    (alpha beta : List Rat) (y : List (List Rat))
    (hok : smCertOk n P1 P2 V1 V2 mu inv alpha beta y = true) :
    ∃ hp : isPermWith n mu inv = true,
      StableSM (fun a b : Fin n => rankOf P1 a b) (fun b a : Fin n => rankOf P2 b a) (permOfLists n mu inv hp) ∧
      ∀ ν : Equiv.Perm (Fin n),
        StableSM (fun a b : Fin n => rankOf P1 a b) (fun b a : Fin n => rankOf P2 b a) ν →
        ∑ a : Fin n, (intOf V1 a (ν a) + intOf V2 (ν a) a)
          ≤ ∑ a : Fin n, (intOf V1 a (permOfLists n mu inv hp a) + intOf V2 (permOfLists n mu inv hp a) a) := by
  obtain ⟨hp, hst, hopt⟩ := smCertOk_sound n P1 P2 V1 V2 mu inv alpha beta y hok
  refine ⟨hp, hst, fun ν hν => ?_⟩
  have := hopt ν hν
  rw [weightOf_sum_cast, weightOf_sum_cast] at this
  exact_mod_cast this

/-- **C03 (ordinal profiles omitted).**  When the rank matrices are the strict rankings induced by the valuations
(`inducedB`: `P a b < P a b' ↔ V a b' < V a b` and every agent's valuations are distinct), an accepted certificate
shows that `mu` has no blocking pair in terms of the valuations and is value-optimal among all such matchings. -/
theorem C03_cert_sound_induced (n : Nat) (P1 P2 : List (List Nat)) (V1 V2 : List (List Int)) (mu inv : List Nat)
    (alpha beta : List Rat) (y : List (List Rat))
    (h1 : Irving.inducedB n P1 V1 = true) (h2 : Irving.inducedB n P2 V2 = true)
    (hok : smCertOk n P1 P2 V1 V2 mu inv alpha beta y = true) :
    ∃ hp : isPermWith n mu inv = true,
      StableVal (fun a b : Fin n => intOf V1 a b) (fun b a : Fin n => intOf V2 b a) (permOfLists n mu inv hp) ∧
      ∀ ν : Equiv.Perm (Fin n),
        StableVal (fun a b : Fin n => intOf V1 a b) (fun b a : Fin n => intOf V2 b a) ν →
        ∑ a : Fin n, (intOf V1 a (ν a) + intOf V2 (ν a) a)
          ≤ ∑ a : Fin n, (intOf V1 a (permOfLists n mu inv hp a) + intOf V2 (permOfLists n mu inv hp a) a) := by
  obtain ⟨hp, hst, hopt⟩ := C03_cert_sound n P1 P2 V1 V2 mu inv alpha beta y hok
  exact ⟨hp, (stableSM_induced n P1 P2 V1 V2 h1 h2 _).mp hst,
    fun ν hν => hopt ν ((stableSM_induced n P1 P2 V1 V2 h1 h2 ν).mpr hν)⟩

/-- **C03 (standalone stability check).**  For a checked permutation, the executable test `stableB` decides
stability exactly (used for outputs for which no optimality certificate is requested). -/
theorem C03_stableB_iff (n : Nat) (P1 P2 : List (List Nat)) (mu inv : List Nat)
    (hp : isPermWith n mu inv = true) :
    stableB n P1 P2 mu inv = true ↔
      StableSM (fun a b : Fin n => rankOf P1 a b) (fun b a : Fin n => rankOf P2 b a) (permOfLists n mu inv hp) :=
  stableB_iff n P1 P2 mu inv hp

/-! ## Algorithmic layer: the last stage of `Irving.scf` (`eliminate_rotations`, `rotation_weight`,
`stable_matching_value`) on matchings given as lists of `(man, woman)` pairs -/

/-- **C03 (eliminating an exposed rotation).**  If every pair of `rho` is in the current matching `M` and the men
of `rho` are distinct, `eliminate_rotations` does not raise for `rho`; the men keep their positions and the
women are permuted, so a perfect matching stays a perfect matching. -/
theorem C03_eliminate_perm (M rho : List Irving.Pair) (hsub : ∀ p ∈ rho, p ∈ M)
    (hmen : (rho.map Prod.fst).Nodup) :
    ∃ M', Irving.eliminate M rho = some M' ∧ M'.map Prod.fst = M.map Prod.fst ∧
      (M'.map Prod.snd).Perm (M.map Prod.snd) :=
  Irving.eliminate_perm M rho hsub hmen

/-- **C03 (weight of a rotation = gain in value).**  Whenever the elimination of `rho` succeeds,
`stable_matching_value` grows by exactly `rotation_weight(rho)` (including the final `ans *= -1`). -/
theorem C03_eliminate_value (V1 V2 : List (List Int)) (M M' rho : List Irving.Pair)
    (h : Irving.eliminate M rho = some M') :
    Irving.matchingValue V1 V2 M' = Irving.matchingValue V1 V2 M + Irving.rotationWeight V1 V2 rho :=
  Irving.eliminate_value V1 V2 M M' rho h

/-- **C03 (a whole sequence of rotations).**  If `eliminate_rotations` returns `M'`, the men kept their positions,
the women were permuted, and the value grew by the sum of the rotation weights. -/
theorem C03_eliminateAll (V1 V2 : List (List Int)) (rots : List (List Irving.Pair)) (M M' : List Irving.Pair)
    (h : Irving.eliminateAll M rots = some M') :
    M'.map Prod.fst = M.map Prod.fst ∧ (M'.map Prod.snd).Perm (M.map Prod.snd) ∧
    Irving.matchingValue V1 V2 M' = Irving.matchingValue V1 V2 M + (rots.map (Irving.rotationWeight V1 V2)).sum :=
  ⟨(Irving.eliminateAll_perm rots M M' h).1, (Irving.eliminateAll_perm rots M M' h).2,
    Irving.eliminateAll_value V1 V2 rots M M' h⟩

/-- **C03 (when the `ValueError` is raised).**  Eliminating `rho` fails exactly when, for some index `i`, the pairs
`rho[0..i-1]` were processed successfully, giving `Mi`, and `rho[i]` is not in `Mi`. -/
theorem C03_eliminate_none_iff (M rho : List Irving.Pair) :
    Irving.eliminate M rho = none ↔
      ∃ i, i < rho.length ∧ ∃ Mi, Irving.elimLoop rho (List.range i) M = some Mi ∧ Irving.rotAt rho i ∉ Mi :=
  Irving.eliminate_none_iff M rho

/-- **C03 (eliminating an exposed rotation preserves stability).**  `M` a stable matching with distinct women and
all entries `< n`, men's preferences strict, `rho` exposed in `M` (`exposedB`): the result of the elimination is
again stable. -/
theorem C03_eliminate_stable (n : Nat) (P1 P2 : List (List Nat)) (M M' rho : List Irving.Pair)
    (hinj : injRowsB n P1 = true) (hbd : Irving.boundedB n M = true) (hW : (M.map Prod.snd).Nodup)
    (hst : Irving.stablePairsB P1 P2 M = true) (hex : Irving.exposedB P1 P2 M rho = true)
    (h : Irving.eliminate M rho = some M') :
    Irving.stablePairsB P1 P2 M' = true :=
  (Irving.stablePairsB_iff _ _ _).mpr
    (Irving.eliminate_stable n P1 P2 M M' rho hinj hbd hW ((Irving.stablePairsB_iff _ _ _).mp hst)
      ((Irving.exposedB_iff _ _ _ _).mp hex) h)

/-- **C03 (a sequence of rotations, each exposed when its turn comes).**  `eliminate_rotations` does not raise and
returns a stable matching with the same men in the same positions and the women permuted. -/
theorem C03_eliminateAll_stable (n : Nat) (P1 P2 : List (List Nat)) (M : List Irving.Pair)
    (rots : List (List Irving.Pair))
    (hinj : injRowsB n P1 = true) (hbd : Irving.boundedB n M = true) (hW : (M.map Prod.snd).Nodup)
    (hst : Irving.stablePairsB P1 P2 M = true) (hex : Irving.exposedAllB P1 P2 M rots = true) :
    ∃ M', Irving.eliminateAll M rots = some M' ∧ Irving.stablePairsB P1 P2 M' = true ∧
      M'.map Prod.fst = M.map Prod.fst ∧ (M'.map Prod.snd).Perm (M.map Prod.snd) := by
  obtain ⟨M', h1, h2, h3, h4⟩ := Irving.eliminateAll_stable n P1 P2 hinj rots M hbd hW
    ((Irving.stablePairsB_iff _ _ _).mp hst) hex
  exact ⟨M', h1, (Irving.stablePairsB_iff _ _ _).mpr h2, h3, h4⟩

/-- **C03 (the two notions of stability agree).**  For a checked permutation `mu`, list-of-pairs stability of
`[(0, mu 0), …, (n-1, mu (n-1))]` is exactly `StableSM` of the permutation. -/
theorem C03_stablePairs_iff (n : Nat) (P1 P2 : List (List Nat)) (mu inv : List Nat)
    (hp : isPermWith n mu inv = true) :
    Irving.stablePairsB P1 P2 (Irving.pairsOf mu) = true ↔
      StableSM (fun a b : Fin n => rankOf P1 a b) (fun b a : Fin n => rankOf P2 b a) (permOfLists n mu inv hp) :=
  (Irving.stablePairsB_iff _ _ _).trans (Irving.stablePairs_pairsOf_iff n P1 P2 mu inv hp)

/-- **C03 (closure step of `find_maximum_weight_closed_subset`).**  The final `while True` loop returns exactly
the predecessor closure of the selected positive rotations in `P'`: it contains `S`, it is closed, and it is
contained in every closed superset of `S`. -/
theorem C03_closureOf_spec (succs : List (List Nat)) (S : List Nat) :
    (∀ x ∈ S, x ∈ Irving.closureOf succs S) ∧ Irving.ClosedUnder succs (Irving.closureOf succs S) ∧
    (∀ T, (∀ x ∈ S, x ∈ T) → Irving.ClosedUnder succs T → ∀ x ∈ Irving.closureOf succs S, x ∈ T) :=
  Irving.closureOf_spec succs S

/-! ## Non-vacuity -/

/-- the 2×2 "opposite preferences" instance: two stable matchings; the values (with ties, unrelated to the ranks)
favour the woman-optimal one `0↔1, 1↔0`, certified by `alpha = (5, 5)`, `beta = 0`, `y = 0` -/
example : smCertOk 2 [[1,2],[2,1]] [[2,1],[1,2]] [[0,0],[0,0]] [[0,5],[5,0]] [1,0] [1,0] [5, 5] [0, 0]
    [[0,0],[0,0]] = true := by decide +kernel

/-- a 3×3 instance where the unique optimum needs a non-zero `y`: men all rank `0 < 1 < 2`, women all rank
`0 < 1 < 2`; the only stable matching is the identity (value 0), although matchings using `(0,2)`, `(2,0)` have larger
value; the certificate uses the stability inequality of the pair `(0,0)` with multiplier `y 0 0 = 18` -/
example : smCertOk 3 [[1,2,3],[1,2,3],[1,2,3]] [[1,2,3],[1,2,3],[1,2,3]]
    [[0,0,9],[0,0,0],[9,0,0]] [[0,0,0],[0,0,0],[0,0,0]] [0,1,2] [0,1,2] [9, 0, 0] [9, 0, 0] [[18,0,0],[0,0,0],[0,0,0]]
    = true := by decide +kernel

/-- induced rankings on the 2×2 instance with distinct values -/
example : Irving.inducedB 2 [[1,2],[2,1]] [[7,3],[1,4]] = true := by decide +kernel

example : stableB 2 [[1,2],[2,1]] [[2,1],[1,2]] [0,1] [0,1] = true := by decide +kernel

/-- eliminating the rotation `(0,0),(1,1)` from the man-optimal matching of the 2×2 instance gives the
woman-optimal one, and the weight `10` is the gain in value (`0 → 10`) -/
example : Irving.eliminate [(0, 0), (1, 1)] [(0, 0), (1, 1)] = some [(0, 1), (1, 0)] := by decide +kernel
example : Irving.rotationWeight [[0,0],[0,0]] [[0,5],[5,0]] [(0, 0), (1, 1)] = 10 := by decide +kernel
example : Irving.matchingValue [[0,0],[0,0]] [[0,5],[5,0]] [(0, 1), (1, 0)] = 10 := by decide +kernel
/-- a rotation that is not exposed: the code's `ValueError` -/
example : Irving.eliminate [(0, 1), (1, 0)] [(0, 0), (1, 1)] = none := by decide +kernel
/-- hypotheses of `C03_eliminate_perm` on a 3×3 matching in non-sorted order -/
example : (∀ p ∈ [((2 : Nat), (0 : Nat)), (0, 1)], p ∈ [((1 : Nat), (2 : Nat)), (0, 1), (2, 0)]) ∧
    (([((2 : Nat), (0 : Nat)), (0, 1)] : List Irving.Pair).map Prod.fst).Nodup := by decide
/-- hypotheses of `C03_eliminateAll_stable` on the 2×2 instance: the man-optimal matching is stable and the
rotation `(0,0),(1,1)` is exposed in it -/
example : injRowsB 2 [[1,2],[2,1]] = true ∧ Irving.boundedB 2 [(0, 0), (1, 1)] = true ∧
    (([(0, 0), (1, 1)] : List Irving.Pair).map Prod.snd).Nodup ∧
    Irving.stablePairsB [[1,2],[2,1]] [[2,1],[1,2]] [(0, 0), (1, 1)] = true ∧
    Irving.exposedAllB [[1,2],[2,1]] [[2,1],[1,2]] [(0, 0), (1, 1)] [[(0, 0), (1, 1)]] = true := by
  decide +kernel
/-- a 3×3 cyclic (Latin-square) instance: man-optimal matching `i ↔ i`, the rotation `(0,0),(1,1),(2,2)` is
exposed, and after eliminating it the next rotation `(0,1),(1,2),(2,0)` is exposed -/
example : Irving.exposedAllB [[1,2,3],[3,1,2],[2,3,1]] [[3,1,2],[2,3,1],[1,2,3]] [(0, 0), (1, 1), (2, 2)]
    [[(0, 0), (1, 1), (2, 2)], [(0, 1), (1, 2), (2, 0)]] = true := by decide +kernel
/-- closure on a 5-node poset graph with edges `0→1→2`, `3→2`: the predecessors of `2` are `0, 1, 3` -/
example : Irving.closureOf [[1],[2],[],[2],[]] [2] = [0, 3, 1, 2] := by decide +kernel
