import Sck.Proofs.VotingRank
import Sck.Proofs.VotingRand
import Sck.Proofs.IndexShift

/-! # C13 — tie-breaking, index shift, randomized scoring rules
Property theorems only (helper lemmas live in `Sck/Proofs/Voting*.lean`).

`scfI fixer tb s` / `scfQ fixer tb s` model `scf` of every score-based rule (integer / rational scores `s`);
`fixer = 1` is the default one-indexed output, `fixer = 0` is `zero_indexed=True`; `.random k` is the run in
which the generator drew the `k`-th of the tied alternatives. -/

open Vote

/-! ## `break_tie` itself -/

theorem C13_breakTie_accept (ws : List Nat) : breakTie .accept ws = some ws := breakTie_accept ws

/-- on an increasing list, "first" returns the least element -/
theorem C13_breakTie_first {ws : List Nat} (hs : ws.Pairwise (· < ·)) (hne : ws ≠ []) :
    ∃ a ∈ ws, breakTie .first ws = some [a] ∧ ∀ b ∈ ws, a ≤ b := breakTie_first hs hne

theorem C13_breakTie_random {ws : List Nat} {k : Nat} (hk : k < ws.length) :
    ∃ a ∈ ws, breakTie (.random k) ws = some [a] := breakTie_random hk

theorem C13_breakTie_random_none {ws : List Nat} {k : Nat} (hk : ws.length ≤ k) :
    breakTie (.random k) ws = none := breakTie_random_none hk

/-- whatever tie-breaker is used, only tied alternatives are returned -/
theorem C13_breakTie_subset {tb : TieBreaker} {ws out : List Nat} (h : breakTie tb ws = some out) :
    ∀ a ∈ out, a ∈ ws := breakTie_subset h

/-! ## the three tie-breakers on a score vector -/

/-- "accept": all maximal-score alternatives, in increasing order -/
theorem C13_scfI_accept (fixer : Nat) (s : List Int) :
    scfI fixer .accept s = some (shift fixer (winnersI s)) ∧
    (shift fixer (winnersI s)).Pairwise (· < ·) ∧
    ∀ x, x ∈ shift fixer (winnersI s) ↔
      ∃ j, x = j + fixer ∧ ∃ hj : j < s.length, ∀ k (hk : k < s.length), s[k] ≤ s[j] := by
  refine ⟨scfI_accept fixer s, shift_sorted (winnersI_sorted s) fixer, fun x => ?_⟩
  rw [mem_shift]
  constructor
  · rintro ⟨a, ha, rfl⟩; exact ⟨a, rfl, winnersI_iff.1 ha⟩
  · rintro ⟨j, rfl, h⟩; exact ⟨j, winnersI_iff.2 h, rfl⟩

theorem C13_scfQ_accept (fixer : Nat) (s : List Rat) :
    scfQ fixer .accept s = some (shift fixer (winnersQ s)) ∧
    (shift fixer (winnersQ s)).Pairwise (· < ·) ∧
    ∀ x, x ∈ shift fixer (winnersQ s) ↔
      ∃ j, x = j + fixer ∧ ∃ hj : j < s.length, ∀ k (hk : k < s.length), s[k] ≤ s[j] := by
  refine ⟨scfQ_accept fixer s, shift_sorted (winnersQ_sorted s) fixer, fun x => ?_⟩
  rw [mem_shift]
  constructor
  · rintro ⟨a, ha, rfl⟩; exact ⟨a, rfl, winnersQ_iff.1 ha⟩
  · rintro ⟨j, rfl, h⟩; exact ⟨j, winnersQ_iff.2 h, rfl⟩

/-- "first": the smallest maximal-score alternative -/
theorem C13_scfI_first (fixer : Nat) {s : List Int} (hs : s ≠ []) :
    ∃ a ∈ winnersI s, scfI fixer .first s = some [a + fixer] ∧ ∀ b ∈ winnersI s, a ≤ b :=
  scfI_first fixer hs

theorem C13_scfQ_first (fixer : Nat) {s : List Rat} (hs : s ≠ []) :
    ∃ a ∈ winnersQ s, scfQ fixer .first s = some [a + fixer] ∧ ∀ b ∈ winnersQ s, a ≤ b :=
  scfQ_first fixer hs

/-- "random": one of the maximal-score alternatives (every in-range draw), nothing for an out-of-range draw -/
theorem C13_scfI_random (fixer : Nat) {s : List Int} {k : Nat} (hk : k < (winnersI s).length) :
    ∃ a ∈ winnersI s, scfI fixer (.random k) s = some [a + fixer] := scfI_random fixer hk

theorem C13_scfQ_random (fixer : Nat) {s : List Rat} {k : Nat} (hk : k < (winnersQ s).length) :
    ∃ a ∈ winnersQ s, scfQ fixer (.random k) s = some [a + fixer] := scfQ_random fixer hk

theorem C13_scfI_random_none (fixer : Nat) {s : List Int} {k : Nat} (hk : (winnersI s).length ≤ k) :
    scfI fixer (.random k) s = none := scfI_random_none fixer hk

theorem C13_scfQ_random_none (fixer : Nat) {s : List Rat} {k : Nat} (hk : (winnersQ s).length ≤ k) :
    scfQ fixer (.random k) s = none := scfQ_random_none fixer hk

/-! ## one-indexed versus zero-indexed output -/

/-- every reported alternative moves by exactly one, nothing else changes (same success/failure, same length,
same order) -/
theorem C13_scfI_index_shift (tb : TieBreaker) (s : List Int) :
    scfI 1 tb s = (scfI 0 tb s).map (shift 1) := scfI_index_shift tb s

theorem C13_scfQ_index_shift (tb : TieBreaker) (s : List Rat) :
    scfQ 1 tb s = (scfQ 0 tb s).map (shift 1) := scfQ_index_shift tb s

/-- in the ranking output only the alternative numbers move, the scores stay -/
theorem C13_swfI_index_shift (s : List Int) :
    swfI 1 s = (swfI 0 s).map (fun e => (e.1 + 1, e.2)) := swfI_index_shift s

/-! ## one-indexed versus zero-indexed output — the non-voting rule families

The allocation and matching classes add `self.index_fixer` to the labels they REPORT only (file
`Sck/Model/IndexShift.lean`):
* `rsdPublic fixer P order` — `RandomSerialDictatorship.scf` (`allocation[agent] = int(item) + index_fixer`,
  an unallocated agent stays NaN = `none`);
* `allocPublic fixer σ` — an allocation agent ↦ item: the eating lottery
  (`np.argmax(chosen_permutation, axis=1) + index_fixer`, `σ` = a term of `bvnFull`), maximum-weight matching
  (`col_ind + index_fixer`), λ-TSF, Match-TwoQueries;
* `pairsPublic fixer M` — a matching as pairs `(i + index_fixer, j + index_fixer)`: Gale–Shapley
  (`galeShapley ro fixer I`, by definition `pairsPublic fixer` of the 0-based matching), Irving, two-sided λ-TSF.
`fixer = 0` is the core (0-based) outcome; `fixer = 1` moves every reported item / agent by exactly one, keeps
length, order and the unallocated entries, and loses nothing (subtracting recovers the 0-based output). -/

theorem C13_rsdPublic_zero (P : List (List (Option Nat))) (order : List Nat) :
    rsdPublic 0 P order = rsd P order := rsdPublic_zero P order

theorem C13_rsdPublic_index_shift (P : List (List (Option Nat))) (order : List Nat) :
    rsdPublic 1 P order = (rsdPublic 0 P order).map (Option.map (· + 1)) := rsdPublic_index_shift P order

theorem C13_rsdPublic_index_shift_injective (P : List (List (Option Nat))) (order : List Nat) :
    (rsdPublic 1 P order).map (Option.map (· - 1)) = rsdPublic 0 P order :=
  rsdPublic_index_shift_injective P order

/-- entrywise: agent `a`'s reported item is its item plus `fixer`; "unallocated" is not shifted -/
theorem C13_rsdPublic_entry (fixer : Nat) (P : List (List (Option Nat))) (order : List Nat) (a : Nat) :
    (rsdPublic fixer P order)[a]? = ((rsd P order)[a]?).map (Option.map (· + fixer)) :=
  rsdPublic_getElem? fixer P order a

theorem C13_allocPublic_zero (sigma : List Nat) : allocPublic 0 sigma = sigma := allocPublic_zero sigma

theorem C13_allocPublic_index_shift (sigma : List Nat) :
    allocPublic 1 sigma = (allocPublic 0 sigma).map (· + 1) := allocPublic_index_shift sigma

theorem C13_allocPublic_index_shift_injective (sigma : List Nat) :
    (allocPublic 1 sigma).map (· - 1) = allocPublic 0 sigma := allocPublic_index_shift_injective sigma

theorem C13_allocPublic_entry (fixer : Nat) (sigma : List Nat) (i : Nat) :
    (allocPublic fixer sigma)[i]? = (sigma[i]?).map (· + fixer) := allocPublic_getElem? fixer sigma i

theorem C13_pairsPublic_zero (M : List (Nat × Nat)) : pairsPublic 0 M = M := pairsPublic_zero M

theorem C13_pairsPublic_index_shift (M : List (Nat × Nat)) :
    pairsPublic 1 M = (pairsPublic 0 M).map (fun e => (e.1 + 1, e.2 + 1)) := pairsPublic_index_shift M

theorem C13_pairsPublic_index_shift_injective (M : List (Nat × Nat)) :
    (pairsPublic 1 M).map (fun e => (e.1 - 1, e.2 - 1)) = pairsPublic 0 M :=
  pairsPublic_index_shift_injective M

theorem C13_pairsPublic_mem (fixer : Nat) (M : List (Nat × Nat)) (p : Nat × Nat) :
    p ∈ pairsPublic fixer M ↔ ∃ e ∈ M, p = (e.1 + fixer, e.2 + fixer) := mem_pairsPublic fixer M p

/-- Gale–Shapley reports through `pairsPublic` (definitionally), so the same holds for it: same
success/failure, every resident and hospital label moves by one -/
theorem C13_galeShapley_public (ro : Bool) (fixer : Nat) (I : HR) :
    galeShapley ro fixer I = (if ro then gsRes I else gsHosp I).map (pairsPublic fixer) := rfl

theorem C13_galeShapley_index_shift (ro : Bool) (I : HR) :
    galeShapley ro 1 I = (galeShapley ro 0 I).map (fun mu => mu.map (fun e => (e.1 + 1, e.2 + 1))) :=
  galeShapley_index_shift ro I

theorem C13_galeShapley_index_shift_injective (ro : Bool) (I : HR) :
    (galeShapley ro 1 I).map (fun mu => mu.map (fun e => (e.1 - 1, e.2 - 1))) = galeShapley ro 0 I :=
  galeShapley_index_shift_injective ro I

/-! ## randomized scoring rules -/

/-- the probability vector is the score vector divided by its total and sums to one -/
theorem C13_randProbs_spec {s p : List Rat} (h : randProbs s = some p) :
    p.length = s.length ∧ (∀ j (hj : j < s.length), p[j]? = some (s[j] / s.sum)) ∧ p.sum = 1 :=
  randProbs_spec h

/-- the call fails exactly when the scores add up to 0 -/
theorem C13_randProbs_none_iff (s : List Rat) : randProbs s = none ↔ s.sum = 0 := randProbs_none_iff s

/-- an alternative has probability 0 exactly when its score is 0 -/
theorem C13_randProbs_zero_iff {s p : List Rat} (h : randProbs s = some p) (j : Nat) (hj : j < s.length) :
    p[j]? = some 0 ↔ s[j] = 0 := randProbs_zero_iff h j hj

/-- for non-negative scores: every probability is non-negative and it is positive exactly for the alternatives
of positive score, so only an alternative of positive score can be drawn -/
theorem C13_randProbs_pos_iff {s p : List Rat} (hs : ∀ x ∈ s, 0 ≤ x) (h : randProbs s = some p)
    (j : Nat) (hj : j < s.length) :
    ∃ q, p[j]? = some q ∧ 0 ≤ q ∧ (0 < q ↔ 0 < s[j]) := randProbs_pos_iff hs h j hj

/-! ## non-vacuity -/

example : scfI 1 .accept [2, 5, 5] = some [2, 3] := by decide
example : scfI 0 .accept [2, 5, 5] = some [1, 2] := by decide
example : scfI 1 .first [2, 5, 5] = some [2] := by decide
example : scfI 1 (.random 1) [2, 5, 5] = some [3] := by decide
example : scfI 1 (.random 2) [2, 5, 5] = none := by decide
example : scfI 1 .first [] = none := by decide
example : swfI 1 [2, 5, 4] = [(2, 5), (3, 4), (1, 2)] := by decide
example : swfI 0 [2, 5, 4] = [(1, 5), (2, 4), (0, 2)] := by decide
example : randProbs [2, 1, 0] = some [2 / 3, 1 / 3, 0] := by decide +kernel
example : ∀ x ∈ ([2, 1, 0] : List Rat), 0 ≤ x := by decide +kernel
example : randProbs [0, 0, 0] = none := by decide +kernel
example : rsdPublic 1 [[some 1, some 2, some 3], [some 1, none, some 2], [some 2, some 1, none]] [1, 0, 2] =
    [some 2, some 1, none] ∧
    rsdPublic 0 [[some 1, some 2, some 3], [some 1, none, some 2], [some 2, some 1, none]] [1, 0, 2] =
    [some 1, some 0, none] := by decide
example : allocPublic 1 [0, 2, 1] = [1, 3, 2] ∧ allocPublic 0 [0, 2, 1] = [0, 2, 1] := by decide
example : pairsPublic 1 [(0, 1), (2, 0)] = [(1, 2), (3, 1)] := by decide
