import Sck.Proofs.McmMirror2

/-! # C09 — the FAITHFUL mirror of `maximum_cardinality_matching_bipartite`

`Sck/Model/McmMirror.lean` mirrors `socialchoicekit/flow.py: maximum_cardinality_matching_bipartite` on top of the
line-by-line mirror `Dfs.ffDfs` of the implementation's own `ford_fulkerson` / `dfs_path` (C08, `Sck/Props/C08Dfs.lean`):

* `Mirror.mcmMirror G X Y` — the body after the argument check: `FH.convert G X Y`
  (`convert_bipartite_graph_to_flow_network`), `Dfs.ffDfs … (-1) (-2) (|X| + 1)` (`ford_fulkerson(network, -1, -2)`; the
  bound `|X| + 1` on the rounds of its `while True` loop is proved sufficient below), and the read-out loop
  (`Mirror.extract`: for every left vertex the neighbour with the first maximal flow, nothing for a vertex without
  edge — the repaired defect F7 — `KeyError` for a left vertex that is not a key of `G`);
* `Mirror.mcmFull G X Y`   — the same with the mirror of `check_bipartite_graph` (`Validate.checkBipartite`, C20) in
  front: every rejection is a `ValueError`.

`G : FH.BGraph` is the Python dict `{u: [v, …]}` in insertion order.  Only the lists of the LEFT vertices are read, so
the directed (right lists empty) and the undirected encoding of a graph give the same run.  In contrast to the
abstract model `mcm` (C09, `Sck/Props/C09.lean`), whose search may take other augmenting paths, the mirror returns the
code's own matching, pair by pair in the code's order (validated on random graphs; `exK22` below is a graph where the
two matchings differ).

Vocabulary: `bipWfB X Y (adjOf G)` — the decidable validity check of C09 (sides duplicate-free, disjoint, without the
reserved names `-1`, `-2`; left lists duplicate-free and inside `Y`); `FH.keysB G` — the keys of the dict; `IsMatching
X adj M` — `M` is a set of edges of the graph in which no vertex occurs twice.

Property theorems only (helper lemmas live in `Sck/Proofs/McmMirror1.lean`, `McmMirror2.lean`). -/

open Mirror

/-- **`C09_mcmMirror_correct`.**  On a valid bipartite graph whose left vertices are keys of the dict, the mirror does
not fail (no `KeyError`, the `|X| + 1` rounds suffice) and returns a matching of the graph of maximum size. -/
theorem C09_mcmMirror_correct (G : FH.BGraph) (X Y : List Int) (hwf : bipWfB X Y (adjOf G) = true)
    (hkeys : ∀ x ∈ X, x ∈ FH.keysB G) :
    ∃ M, mcmMirror G X Y = .ok M ∧ IsMatching X (adjOf G) M ∧
      ∀ M', IsMatching X (adjOf G) M' → M'.length ≤ M.length :=
  mcmMirror_correct G X Y hwf hkeys

/-- **`C09_mcmMirror_size_eq`.**  Whatever the mirror and the abstract model `mcm` return on a valid graph, the two
matchings have the same size (the value of the mirrored max flow equals the abstract one). -/
theorem C09_mcmMirror_size_eq (G : FH.BGraph) (X Y : List Int) (hwf : bipWfB X Y (adjOf G) = true)
    (hkeys : ∀ x ∈ X, x ∈ FH.keysB G) (M : List (Int × Int)) (h : mcmMirror G X Y = .ok M)
    (fuel : Nat) (M' : List (Int × Int)) (h' : mcm X Y (adjOf G) fuel = .ok M') : M.length = M'.length :=
  mcmMirror_size_eq G X Y hwf hkeys M h fuel M' h'

/-- **How the matching arises.**  The mirror's answer is the read-out `mcmOfFlow` (C09) of an integral flow `f` on the
unit network `bipNet X Y (adjOf G)` whose value equals the capacity of an `s–t` cut `S` (so `f` is a maximum flow): `f`
is the flow denoted by the dict that the mirrored `ford_fulkerson` returns, `S` its reachable set. -/
theorem C09_mcmMirror_readout (G : FH.BGraph) (X Y : List Int) (hwf : bipWfB X Y (adjOf G) = true)
    (hkeys : ∀ x ∈ X, x ∈ FH.keysB G) :
    ∃ (f : Flow) (S : List Int), mcmMirror G X Y = .ok (mcmOfFlow X (adjOf G) f) ∧
      IsFlow (bipNet X Y (adjOf G)).verts.toFinset (bipNet X Y (adjOf G)).cap (-1) (-2) f ∧
      (-1 : Int) ∈ S ∧ (-2 : Int) ∉ S ∧
      flowValue (bipNet X Y (adjOf G)).verts.toFinset (-1) f =
        cutCap (bipNet X Y (adjOf G)).verts.toFinset (bipNet X Y (adjOf G)).cap S.toFinset :=
  mcmMirror_run G X Y hwf hkeys

/-- **Order of the pairs.**  The pairs are emitted in the order of the list `X`: the matched left vertices form a
sublist of `X`. -/
theorem C09_mcmMirror_order (G : FH.BGraph) (X Y : List Int) (hwf : bipWfB X Y (adjOf G) = true)
    (hkeys : ∀ x ∈ X, x ∈ FH.keysB G) (M : List (Int × Int)) (h : mcmMirror G X Y = .ok M) :
    (M.map (·.1)).Sublist X :=
  mcmMirror_order G X Y hwf hkeys M h

/-- **The argument check in front.**  When `check_bipartite_graph(G, X, Y)` passes, the full routine is the mirror of
its body and the keys of the dict are exactly `X ∪ Y`; when it rejects, the routine raises `ValueError`. -/
theorem C09_mcmFull_check (G : FH.BGraph) (X Y : List Int) :
    (Validate.checkBipartite (toGArg G) X Y = .ok () →
      mcmFull G X Y = mcmMirror G X Y ∧ ∀ v, v ∈ X ++ Y ↔ v ∈ FH.keysB G) ∧
    (∀ e, Validate.checkBipartite (toGArg G) X Y = .error e → mcmFull G X Y = .error "ValueError") :=
  ⟨fun h => ⟨mcmFull_of_check G X Y h, check_keys G X Y h⟩, fun e h => mcmFull_of_check_error G X Y e h⟩

/-- **The check accepts every valid bipartite-graph dict** (non-empty left side): keys exactly `X ∪ Y`, sides disjoint,
every left list inside `Y`, every listed vertex a key. -/
theorem C09_check_accepts_valid (G : FH.BGraph) (X Y : List Int) (hX : X ≠ [])
    (hk : ∀ v, v ∈ X ++ Y ↔ v ∈ FH.keysB G) (hdis : ∀ x ∈ X, x ∉ Y) (hadj : ∀ x ∈ X, ∀ y ∈ adjOf G x, y ∈ Y)
    (hlink : ∀ e ∈ G, ∀ v ∈ e.2, v ∈ FH.keysB G) :
    Validate.checkBipartite (toGArg G) X Y = .ok () :=
  check_ok_of G X Y hX hk hdis hadj hlink

/-- **`maximum_cardinality_matching_bipartite` end to end.**  On a valid bipartite graph that its own argument check
accepts, the routine returns a matching of maximum size. -/
theorem C09_mcmFull_correct (G : FH.BGraph) (X Y : List Int) (hwf : bipWfB X Y (adjOf G) = true)
    (hc : Validate.checkBipartite (toGArg G) X Y = .ok ()) :
    ∃ M, mcmFull G X Y = .ok M ∧ IsMatching X (adjOf G) M ∧
      ∀ M', IsMatching X (adjOf G) M' → M'.length ≤ M.length :=
  mcmFull_correct G X Y hwf hc

/-! ### the hypotheses are satisfiable on concrete non-trivial instances; behavioural observations -/

/-- the instance of C09 (left `10 … 13`, right `20 … 23`, `13` and `23` isolated, undirected encoding) -/
example : bipWfB exBipX exBipY (adjOf exBipG) = true ∧ (∀ x ∈ exBipX, x ∈ FH.keysB exBipG) ∧
    Validate.checkBipartite (toGArg exBipG) exBipX exBipY = .ok () := by decide
example : (match mcmMirror exBipG exBipX exBipY with
    | .ok M => some M | .error _ => none) = some [(10, 20), (12, 21)] := by decide +kernel
example : (match mcmFull exBipG exBipX exBipY with
    | .ok M => some M | .error _ => none) = some [(10, 20), (12, 21)] := by decide +kernel
/-- the directed encoding (right lists empty) gives the same answer -/
example : (match mcmFull [(10, [20]), (11, [20]), (12, [20, 21, 22]), (13, []), (20, []), (21, []), (22, []), (23, [])]
      exBipX exBipY with
    | .ok M => some M | .error _ => none) = some [(10, 20), (12, 21)] := by decide +kernel
/-- a dict without the right vertices (or without the isolated left vertex) as keys is rejected by the check -/
example : (match mcmFull [(10, [20]), (11, [20]), (12, [20, 21, 22])] exBipX exBipY with
    | .ok _ => "ok" | .error e => e) = "ValueError" := by decide +kernel
/-- without the check, a left vertex that is not a key raises `KeyError` in the read-out loop -/
example : (match mcmMirror [(0, [2, 3])] [0, 1] [2, 3] with
    | .ok _ => "ok" | .error e => e) = "KeyError" := by decide +kernel
/-- **the mirror's matching can differ from the abstract model's**: on the complete bipartite graph `K₂,₂` the second
search of `dfs_path` goes through a reverse edge (`-1 → 1 → 2 → 0 → 3 → -2`) and re-matches `0` -/
example : bipWfB [0, 1] [2, 3] (adjOf exK22) = true ∧ (∀ x ∈ [(0 : Int), 1], x ∈ FH.keysB exK22) := by decide
example : (match mcmMirror exK22 [0, 1] [2, 3] with
    | .ok M => some M | .error _ => none) = some [(0, 3), (1, 2)] := by decide +kernel
example : (match mcm [0, 1] [2, 3] (adjOf exK22) 3 with
    | .ok M => some M | .error _ => none) = some [(0, 2), (1, 3)] := by decide +kernel

#print axioms C09_mcmMirror_correct
#print axioms C09_mcmMirror_size_eq
#print axioms C09_mcmMirror_readout
#print axioms C09_mcmMirror_order
#print axioms C09_mcmFull_check
#print axioms C09_check_accepts_valid
#print axioms C09_mcmFull_correct
