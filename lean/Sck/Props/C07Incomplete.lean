import Sck.Proofs.EatIncomplete5

/-! # C07 on INCOMPLETE profiles — the eating process walks into unacceptable items (known finding)

C07: "… no agent receives an item it marked unacceptable … the eating lottery only gives an agent an item that
the eating process assigns to it with positive probability."

`Eat.eatInc n P speeds` (file `Sck/Model/EatIncomplete.lean`) mirrors what
`SimultaneousEating.bistochastic(profile, speeds)` REALLY does on a strict incomplete `n × n` profile `P`
(`none` = NaN = unacceptable): the profile is only read through `np.argsort(profile, axis=1)`, which puts the
NaN entries last (among NaNs by item index — observed for every strict row of length `n ≤ 16` on the numpy build
used, the range for which the mirror is claimed; rows with tied ranks are sorted unstably and are excluded), so `ranked_items[i] = Eat.rankedInc P[i]` and the loop is `Eat.eatLoop`, the loop
of the complete model. `Eat.eatIncLog` also returns the ghost event log, `Eat.psInc` is
`ProbabilisticSerial.bistochastic`. The real code never raises on such a profile.

`Eat.completeFirst P` is the complete profile that ranks, for every agent, the acceptable items first (in the
agent's order) and then the unacceptable ones by index; `Eat.unacc P i j` says `profile[i, j]` is NaN;
`prefRank P i j` is `profile[i, j]` as an `Option`; `Eat.mget X i j = X[i][j]`; `Eat.rk Q i j = Q[i][j]`.

Precondition `Eat.eatIncWfB n P speeds`: `n` rows of length `n`, in every row the ranks of the acceptable
items are pairwise different (any naturals), `n` positive speeds. Rows may be complete or entirely NaN.

Property theorems only; the proofs live in `Sck/Proofs/EatIncomplete1.lean` … `EatIncomplete5.lean`. -/

open Finset Eat

variable {n : Nat} {P : List (List (Option Nat))} {speeds : List Rat}

/-! ## the mirror and the completed profile -/

/-- what the decidable precondition says -/
theorem C07_eatIncWfB_iff (n : Nat) (P : List (List (Option Nat))) (speeds : List Rat) :
    eatIncWfB n P speeds = true ↔
      P.length = n ∧
      (∀ row ∈ P, row.length = n ∧
        ∀ a b, a < row.length → b < row.length → a ≠ b → (row.getD a none).isSome = true →
          row.getD a none ≠ row.getD b none) ∧
      speeds.length = n ∧ ∀ s ∈ speeds, 0 < s :=
  eatIncWfB_spec n P speeds

/-- `np.argsort` of a strict row with NaN (acceptable items by rank, then the NaN items by index) is the
`argsort` of the completed row -/
theorem C07_rankedInc_eq (row : List (Option Nat)) (hs : strictRowB row = true) :
    rankedInc row = rankedOf (completeRow row) :=
  rankedInc_eq row ((strictRowB_iff row).mp hs)

/-- the completed profile is a well-formed complete instance (every row a permutation of `1..n`) -/
theorem C07_completeFirst_wf (hwf : eatIncWfB n P speeds = true) :
    eatWfB n (completeFirst P) speeds = true :=
  completeFirst_wfB hwf

/-- the completed profile extends every agent's order: acceptable items keep their relative order, come
before all unacceptable items, and the unacceptable items are ordered by index -/
theorem C07_completeFirst_order (hwf : eatIncWfB n P speeds = true) (i j1 j2 : Nat) (hi : i < n)
    (hj1 : j1 < n) (hj2 : j2 < n) :
    (∀ r1 r2, prefRank P i j1 = some r1 → prefRank P i j2 = some r2 →
      (rk (completeFirst P) i j1 < rk (completeFirst P) i j2 ↔ r1 < r2)) ∧
    (∀ r1, prefRank P i j1 = some r1 → prefRank P i j2 = none →
      rk (completeFirst P) i j1 < rk (completeFirst P) i j2) ∧
    (prefRank P i j1 = none → prefRank P i j2 = none →
      (rk (completeFirst P) i j1 < rk (completeFirst P) i j2 ↔ j1 < j2)) :=
  completeFirst_order hwf i j1 j2 hi hj1 hj2

/-- **The mirror is the complete model on the completed profile**: same matrix, same event log, same
`ranked_items`. Hence every C05 theorem transfers with `P := completeFirst P`. -/
theorem C07_eatInc_eq_complete (hwf : eatIncWfB n P speeds = true) :
    eatInc n P speeds = eat n (completeFirst P) speeds ∧
    eatIncLog n P speeds = eatLog n (completeFirst P) speeds ∧
    P.map rankedInc = (completeFirst P).map rankedOf :=
  eatInc_eq_complete hwf

/-- on a profile without NaN the mirror IS the complete model (no precondition needed) -/
theorem C07_eatInc_of_complete (n : Nat) (P : List (List Nat)) (speeds : List Rat) :
    eatInc n (P.map (fun row => row.map some)) speeds = eat n P speeds :=
  eatInc_of_complete n P speeds

/-- transferred C05 B2/B3: on an incomplete profile the loop terminates without raising and returns an
`n × n` matrix with nonnegative entries and ALL row and column sums equal to `1` -/
theorem C07_eatInc_bistochastic (hwf : eatIncWfB n P speeds = true) :
    ∃ X, eatInc n P speeds = some X ∧
      (X.length = n ∧ ∀ row ∈ X, row.length = n) ∧
      (∀ i < n, ∀ j < n, 0 ≤ mget X i j) ∧
      (∀ i < n, ∑ j ∈ range n, mget X i j = 1) ∧
      (∀ j < n, ∑ i ∈ range n, mget X i j = 1) :=
  eatInc_bistochastic hwf

/-- transferred C05 B4: the matrix adds up the events, every event is a correct piece of the continuous
eating process FOR THE COMPLETED PROFILE, and the process stops when everybody has eaten one unit -/
theorem C07_eatInc_is_process (hwf : eatIncWfB n P speeds = true) {X : List (List Rat)} {log : List Event}
    (h : eatIncLog n P speeds = some (X, log)) :
    (∀ i < n, ∀ j < n, mget X i j = amt speeds log i j) ∧
    (∀ k (hk : k < log.length),
      EventOK n (completeFirst P) speeds (amt speeds (log.take k)) log[k]) ∧
    (∀ i < n, ∑ j ∈ range n, amt speeds log i j = 1) :=
  eatInc_is_process hwf h

/-! ## the defect -/

/-- **Counterexample** (negation of "eating only assigns acceptable items" for the code's algorithm): agent 0
accepts only item 0, which is also agent 1's first choice; probabilistic serial gives agent 0 the shares
`1/2, 1/6, 1/3`, i.e. `1/6` of item 1 and `1/3` of item 2, both marked unacceptable by agent 0. -/
theorem C07_incomplete_counterexample :
    eatIncWfB 3 [[some 1, none, none], [some 1, some 2, some 3], [some 2, some 1, some 3]] [1, 1, 1] = true ∧
    ∃ X, eatInc 3 [[some 1, none, none], [some 1, some 2, some 3], [some 2, some 1, some 3]] [1, 1, 1]
        = some X ∧
      X = [[1/2, 1/6, 1/3], [1/2, 1/6, 1/3], [0, 2/3, 1/3]] ∧
      unacc [[some 1, none, none], [some 1, some 2, some 3], [some 2, some 1, some 3]] 0 1 = true ∧
      0 < mget X 0 1 :=
  ⟨cex3_wf, _, cex3_value, rfl, by decide, by decide +kernel⟩

/-- the smallest one: two agents that both accept only item 0 each get half of item 1 -/
theorem C07_incomplete_counterexample_2x2 :
    eatIncWfB 2 [[some 1, none], [some 1, none]] [1, 1] = true ∧
    eatInc 2 [[some 1, none], [some 1, none]] [1, 1] = some [[1/2, 1/2], [1/2, 1/2]] ∧
    unacc [[some 1, none], [some 1, none]] 0 1 = true :=
  ⟨by decide +kernel, cex2_value, by decide⟩

/-- **Unavoidable (shared single item).** If agent `i` accepts only item `j`, and `j` is also the best
acceptable item of another agent `k`, then agent `i` gets a strictly positive share of an item it marked
unacceptable. -/
theorem C07_incomplete_unavoidable (hwf : eatIncWfB n P speeds = true) {X : List (List Rat)}
    (h : eatInc n P speeds = some X) {i k j r : Nat} (hi : i < n) (hk : k < n) (hj : j < n) (hik : i ≠ k)
    (honly : ∀ j' < n, j' ≠ j → unacc P i j' = true)
    (hr : prefRank P k j = some r) (hbest : ∀ j' < n, ∀ r', prefRank P k j' = some r' → r ≤ r') :
    ∃ j' < n, unacc P i j' = true ∧ 0 < mget X i j' :=
  eatInc_unavoidable_shared (eatIncWfB_sound hwf) h hi hk hj hik honly hr hbest

/-- **Unavoidable (Hall-type).** If the agents of a set `S` accept only items of a set `T` with `|T| < |S|`,
some agent of `S` gets a strictly positive share of an item it marked unacceptable. (The proof only uses that
the matrix is bistochastic: no algorithm that returns a bistochastic matrix can avoid it.) -/
theorem C07_incomplete_unavoidable_hall (hwf : eatIncWfB n P speeds = true) {X : List (List Rat)}
    (h : eatInc n P speeds = some X) (S T : Finset Nat) (hS : S ⊆ range n) (hT : T ⊆ range n)
    (hcard : T.card < S.card) (hacc : ∀ i ∈ S, ∀ j < n, unacc P i j = false → j ∈ T) :
    ∃ i ∈ S, ∃ j < n, unacc P i j = true ∧ 0 < mget X i j :=
  eatInc_unavoidable_hall (eatIncWfB_sound hwf) h S T hS hT hcard hacc

/-- special case: an agent whose row is entirely NaN gets its whole unit from unacceptable items -/
theorem C07_incomplete_unavoidable_all_nan (hwf : eatIncWfB n P speeds = true) {X : List (List Rat)}
    (h : eatInc n P speeds = some X) {i : Nat} (hi : i < n) (hrow : ∀ j < n, unacc P i j = true) :
    ∃ j < n, unacc P i j = true ∧ 0 < mget X i j :=
  eatInc_unavoidable_empty (eatIncWfB_sound hwf) h hi hrow

/-- the pure counting fact behind it, for ANY matrix with nonnegative entries and unit row/column sums -/
theorem C07_bistochastic_hall (X : Nat → Nat → ℚ) (hnn : ∀ i < n, ∀ j < n, 0 ≤ X i j)
    (hrow : ∀ i < n, ∑ j ∈ range n, X i j = 1) (hcol : ∀ j < n, ∑ i ∈ range n, X i j = 1)
    (S T : Finset Nat) (hS : S ⊆ range n) (hT : T ⊆ range n) (hcard : T.card < S.card) :
    ∃ i ∈ S, ∃ j ∈ range n \ T, 0 < X i j :=
  hall_violation_share X hnn hrow hcol S T hS hT hcard

/-- every agent that accepts at least one item gets a strictly positive share of its best acceptable item -/
theorem C07_best_acceptable_positive (hwf : eatIncWfB n P speeds = true) {X : List (List Rat)}
    (h : eatInc n P speeds = some X) {k j r : Nat} (hk : k < n) (hj : j < n)
    (hr : prefRank P k j = some r) (hbest : ∀ j' < n, ∀ r', prefRank P k j' = some r' → r ≤ r') :
    0 < mget X k j :=
  eatInc_best_positive (eatIncWfB_sound hwf) h hk hj hr hbest

/-- **The defect reaches `scf`.** The eating matrix is decomposed by `birkhoff_von_neumann` (`bvnFull`) into
positive coefficients summing to `1` over bijections, and agent `i` holds item `j` in some permutation of the
decomposition — i.e. `SimultaneousEating.scf` returns it with positive probability — IF AND ONLY IF
`0 < M[i][j]`. -/
theorem C07_incomplete_lottery (hn : 0 < n) (hwf : eatIncWfB n P speeds = true) :
    ∃ M out, eatInc n P speeds = some M ∧ isBalancedB n M = some 1 ∧ bvnFull n M = .ok out ∧
      0 < out.length ∧ (∀ e ∈ out, 0 < e.1) ∧ sumList (out.map (·.1)) = 1 ∧
      (∀ e ∈ out, isPermB n e.2 = true) ∧
      ∀ i j, i < n → j < n →
        (0 < matGet M i j ↔ ∃ k, ∃ hk : k < out.length, out[k].2.getD i n = j) :=
  eatInc_lottery hn (eatIncWfB_sound hwf)

/-- so every positive share of an unacceptable item is an allocation of that item with positive probability -/
theorem C07_incomplete_lottery_defect (hn : 0 < n) (hwf : eatIncWfB n P speeds = true)
    {M : List (List Rat)} (hM : eatInc n P speeds = some M) {i j : Nat} (hi : i < n) (hj : j < n)
    (hpos : 0 < mget M i j) :
    ∃ out, bvnFull n M = .ok out ∧ ∃ k, ∃ hk : k < out.length, 0 < out[k].1 ∧ out[k].2.getD i n = j :=
  eatInc_lottery_defect hn (eatIncWfB_sound hwf) hM hi hj hpos

/-! ## what IS true -/

/-- on a complete profile there is nothing unacceptable (trivial) -/
theorem C07_acceptable_complete (P : List (List Nat)) (i j : Nat) (hi : i < P.length)
    (hj : j < (P.getD i []).length) : unacc (P.map (fun row => row.map some)) i j = false :=
  unacc_map_some P i j hi hj

/-- **Positive result.** If at the beginning of every event of the run agent `i` either has already eaten a
full unit or still has an acceptable item that is not exhausted, then agent `i` gets NOTHING of the items it
marked unacceptable. (`amt speeds (log.take k) i' j` is what `i'` has eaten of `j` before event `k`.) -/
theorem C07_acceptable_partial (hwf : eatIncWfB n P speeds = true) {X : List (List Rat)} {log : List Event}
    (h : eatIncLog n P speeds = some (X, log)) {i : Nat} (hi : i < n)
    (hcond : ∀ k < log.length,
      ∑ j' ∈ range n, amt speeds (log.take k) i j' = 1 ∨
      ∃ j1 < n, unacc P i j1 = false ∧ ∑ i' ∈ range n, amt speeds (log.take k) i' j1 < 1) :
    ∀ j < n, unacc P i j = true → mget X i j = 0 :=
  eatInc_acceptable_partial (eatIncWfB_sound hwf) h hi hcond

/-- trace-level characterisation: agent `i` gets nothing of item `j` iff every event during which `i` is
eating `j` has duration `0` -/
theorem C07_zero_share_iff_trace (hwf : eatIncWfB n P speeds = true) {X : List (List Rat)}
    {log : List Event} (h : eatIncLog n P speeds = some (X, log)) {i j : Nat} (hi : i < n) (hj : j < n) :
    mget X i j = 0 ↔ ∀ ev ∈ log, lk ev.cur i = some j → ev.t = 0 :=
  eatInc_zero_iff_trace (eatIncWfB_sound hwf) h hi hj

/-- the run always exists (so the hypotheses `eatInc … = some X`, `eatIncLog … = some (X, log)` are
satisfiable for every well-formed input) -/
theorem C07_eatInc_log_exists (hwf : eatIncWfB n P speeds = true) :
    ∃ X log, eatIncLog n P speeds = some (X, log) ∧ eatInc n P speeds = some X :=
  eatInc_log_exists hwf

/-! ## non-vacuity -/

/-- the counterexample instance: well-formed, its completion, its value and its three events -/
example : eatIncWfB 3 cex3 [1, 1, 1] = true := cex3_wf
example : completeFirst cex3 = [[1, 2, 3], [1, 2, 3], [2, 1, 3]] := cex3_complete
example : cex3.map rankedInc = [[0, 1, 2], [0, 1, 2], [1, 0, 2]] := cex3_ranked
example : (eatIncLog 3 cex3 [1, 1, 1]).map (fun r => r.2.map (fun e => (e.t, e.cur))) =
    some [(1/2, [some 0, some 0, some 1]), (1/6, [some 1, some 1, some 1]),
          (1/3, [some 2, some 2, some 2])] := cex3_log

/-- the hypotheses of `C07_incomplete_unavoidable` hold on it (`i = 0`, `k = 1`, `j = 0`, `r = 1`) -/
example : (0 : Nat) ≠ 1 ∧ (∀ j' < 3, j' ≠ 0 → unacc cex3 0 j' = true) ∧ prefRank cex3 1 0 = some 1 ∧
    ∀ j' < 3, ∀ r', prefRank cex3 1 j' = some r' → 1 ≤ r' := by decide

/-- the hypotheses of `C07_incomplete_unavoidable_hall` hold on a 3×3 instance with `S = {0, 1}`, `T = {0}`
(agents 0 and 1 both accept only item 0; non-strict rows are not needed) -/
example : eatIncWfB 3 [[some 1, none, none], [some 1, none, none], [some 2, some 1, some 3]] [1, 2, 1/2] = true ∧
    ({0, 1} : Finset Nat) ⊆ range 3 ∧ ({0} : Finset Nat) ⊆ range 3 ∧
    ({0} : Finset Nat).card < ({0, 1} : Finset Nat).card ∧
    ∀ i ∈ ({0, 1} : Finset Nat), ∀ j < 3,
      unacc [[some 1, none, none], [some 1, none, none], [some 2, some 1, some 3]] i j = false →
        j ∈ ({0} : Finset Nat) := by
  refine ⟨by decide +kernel, by decide, by decide, by decide, by decide⟩

/-- the hypothesis of `C07_incomplete_unavoidable_all_nan`: an all-NaN row is allowed by the precondition -/
example : eatIncWfB 2 [[none, none], [some 2, some 1]] [1, 3] = true ∧
    ∀ j < 2, unacc [[none, none], [some 2, some 1]] 0 j = true := by
  refine ⟨by decide +kernel, by decide⟩

/-- the positive result applies to agent 0 of `ok3` (a two-event run): the run, and its hypothesis `hcond` -/
example : eatIncWfB 3 ok3 [1, 1, 1] = true := ok3_wf
example : eatIncLog 3 ok3 [1, 1, 1] = some ([[1/2, 1/2, 0], [1/2, 1/2, 0], [0, 0, 1]], ok3Log) := ok3_log
example : ∀ k < ok3Log.length,
    ∑ j' ∈ range 3, amt [1, 1, 1] (ok3Log.take k) 0 j' = 1 ∨
    ∃ j1 < 3, unacc ok3 0 j1 = false ∧ ∑ i' ∈ range 3, amt [1, 1, 1] (ok3Log.take k) i' j1 < 1 := ok3_cond
/-- … and its conclusion, instantiated -/
example : ∀ j < 3, unacc ok3 0 j = true →
    mget [[1/2, 1/2, 0], [1/2, 1/2, 0], [0, 0, 1]] 0 j = 0 :=
  C07_acceptable_partial ok3_wf ok3_log (by decide) ok3_cond

/-- `C07_incomplete_lottery_defect` applied to the counterexample: the lottery gives agent 0 the unacceptable
item 1 with positive probability -/
example : ∃ out, bvnFull 3 [[1/2, 1/6, 1/3], [1/2, 1/6, 1/3], [0, 2/3, 1/3]] = .ok out ∧
    ∃ k, ∃ hk : k < out.length, 0 < out[k].1 ∧ out[k].2.getD 0 3 = 1 :=
  C07_incomplete_lottery_defect (by decide) cex3_wf cex3_value (by decide) (by decide) (by decide +kernel)

#print axioms C07_eatIncWfB_iff
#print axioms C07_rankedInc_eq
#print axioms C07_completeFirst_wf
#print axioms C07_completeFirst_order
#print axioms C07_eatInc_eq_complete
#print axioms C07_eatInc_of_complete
#print axioms C07_eatInc_bistochastic
#print axioms C07_eatInc_is_process
#print axioms C07_incomplete_counterexample
#print axioms C07_incomplete_counterexample_2x2
#print axioms C07_incomplete_unavoidable
#print axioms C07_incomplete_unavoidable_hall
#print axioms C07_incomplete_unavoidable_all_nan
#print axioms C07_bistochastic_hall
#print axioms C07_best_acceptable_positive
#print axioms C07_incomplete_lottery
#print axioms C07_incomplete_lottery_defect
#print axioms C07_acceptable_complete
#print axioms C07_acceptable_partial
#print axioms C07_zero_share_iff_trace
#print axioms C07_eatInc_log_exists
