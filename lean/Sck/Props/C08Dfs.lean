import Sck.Proofs.Dfs7

/-! # C08 — the implementation's OWN path search (`dfs_path`) and the `ford_fulkerson` loop around it

`Sck/Model/Dfs.lean` mirrors `socialchoicekit/flow.py` line by line in the code's own data representation
(`Dfs.Graph` = the dict `{u: [(v, c), …]}` as an association list in dict order, `Dfs.FlowDict` = the `flow`
dict, `visited` = the list of marked vertices):

* `Dfs.mkResidual`  — `G_f = deepcopy(G)`, the all-zero `flow` dict, the reverse edges `(i, 0)` appended to
  `G_f[j]` in the code's order;
* `Dfs.dfsPath Gf sink fuel current visited` — `dfs_path`, returning the answer and the mutated `visited`
  (depth fuel; `ffDfs` uses `number of keys + 1`);
* `Dfs.augment`     — the update of `flow`, `G_f[u]`, `G_f[v]` along the path;
* `Dfs.reachable`   — `reachable_vertices`;
* `Dfs.ffDfs G s t rounds` — `ford_fulkerson` with a bound on the number of rounds of the `while` loop; returns
  the final flow dict in dict order, the cut, and the sequence of augmenting paths with the capacities
  `dfs_path` reported.  `Dfs.netToG N` is the dict the harness builds from a network line.

Vocabulary (`Sck/Proofs/Dfs1.lean`, `Dfs2.lean`, `Dfs3.lean`): `Dfs.Reach Gf u w` — `w` is reachable from `u`
along entries `(v, c)` of the adjacency lists with `0 < c`; `Dfs.ReachAvoid Gf vis u w` — the same where every
vertex after the first is outside `vis`; `Dfs.Repr N Gf fl f` — the state (`G_f`, `flow`) represents the net
flow `f` on the network `N` (entry `(v, c)` of `G_f[u]` has `c = cap u v - f u v`, one entry per neighbour,
entries in opposite pairs, missing entry = no capacity and no flow, `flow[(u, v)] = f u v`).
`IsFlow`, `flowValue`, `cutCap`, `validPath`, `augPath`, `netWfB`, `ffFuel`, `flowOf` are those of C08.

Property theorems only (helper lemmas live in `Sck/Proofs/Dfs1-7.lean`). -/

open Finset

/-- **B1, soundness of a `some` answer.**  If `dfs_path` answers `(path, c)` from `current`, and `current` is
marked (every vertex of the recursion stack is: the caller marks before recursing, the source starts marked),
then `path` starts at `current`, ends at the sink, is duplicate-free and apart from its head avoids every
vertex that was marked at the start of the call; consecutive vertices are joined by entries `caps[i] > 0` of
the residual graph, and `c = min(caps[0], min(caps[1], … sys.maxsize))`, so `0 < c ≤ sys.maxsize`. -/
theorem C08_dfsPath_sound (Gf : Dfs.Graph) (sink : Int) (fuel : Nat) (current : Int) (vis : List Int)
    (path : List Int) (c : Int) (hcur : current ∈ vis)
    (h : (Dfs.dfsPath Gf sink fuel current vis).1 = some (path, c)) :
    path.head? = some current ∧ path.getLast? = some sink ∧ path.Nodup ∧ (∀ x ∈ path.tail, x ∉ vis) ∧
    (∃ caps : List Int, caps.length + 1 = path.length ∧
      (∀ i (hi : i < caps.length) (hp : i + 1 < path.length),
        (path[i + 1], caps[i]) ∈ Dfs.adj Gf (path[i]'(Nat.lt_of_succ_lt hp)) ∧ 0 < caps[i]) ∧
      c = caps.foldr min Dfs.maxsize) ∧
    0 < c ∧ c ≤ Dfs.maxsize := by
  obtain ⟨h1, h2, h3, h4, h5, h6, h7⟩ := Dfs.dfsPath_sound Gf sink fuel current vis path c hcur h
  exact ⟨h1, h2, h3, h4, h5.caps, h6, h7⟩

/-- **B1 at top level.**  The search of `ford_fulkerson` (only the source marked) returns a duplicate-free
source–sink path that never comes back to the source. -/
theorem C08_dfsPath_top_sound (Gf : Dfs.Graph) (s t : Int) (fuel : Nat) (path : List Int) (c : Int)
    (h : (Dfs.dfsPath Gf t fuel s [s]).1 = some (path, c)) :
    path.head? = some s ∧ path.getLast? = some t ∧ path.Nodup ∧ (∀ x ∈ path.tail, x ≠ s) ∧
    (∀ e ∈ pairs path, ∃ d, (e.2, d) ∈ Dfs.adj Gf e.1 ∧ 0 < d ∧ c ≤ d) ∧ 0 < c ∧ c ≤ Dfs.maxsize := by
  obtain ⟨h1, h2, h3, h4, h5, h6, h7⟩ := Dfs.dfsPath_sound Gf t fuel s [s] path c (by simp) h
  exact ⟨h1, h2, h3, fun x hx => by simpa using h4 x hx, h5.pairs, h6, h7⟩

/-- **B2, completeness of a `None` answer.**  In a graph all of whose neighbours are keys, with depth fuel
larger than the number of un-marked keys: a `None` answer un-marks nothing, and the sink cannot be reached
from `current` along entries of positive capacity through vertices that were un-marked at the start. -/
theorem C08_dfsPath_complete (Gf : Dfs.Graph) (sink : Int) (hk : Dfs.nbrsKeysB Gf = true) (fuel : Nat)
    (current : Int) (vis : List Int) (hfuel : Dfs.cnt (Dfs.keys Gf) vis < fuel)
    (h : (Dfs.dfsPath Gf sink fuel current vis).1 = none) :
    (∀ x ∈ vis, x ∈ (Dfs.dfsPath Gf sink fuel current vis).2) ∧ ¬ Dfs.ReachAvoid Gf vis current sink :=
  Dfs.dfsPath_complete Gf sink (Dfs.nbrsKeys_of_B Gf hk) fuel current vis hfuel h

/-- **B2 at top level** (only the source marked, the fuel `ffDfs` uses): `None` means that the sink is
unreachable from the source in the residual graph. -/
theorem C08_dfsPath_top_complete (Gf : Dfs.Graph) (s t : Int) (hk : Dfs.nbrsKeysB Gf = true)
    (h : (Dfs.dfsPath Gf t (Gf.length + 1) s [s]).1 = none) : ¬ Dfs.Reach Gf s t :=
  Dfs.dfsPath_complete_top Gf s t (Dfs.nbrsKeys_of_B Gf hk) h

/-- **B3, the initial state.**  On a well-formed network the initialisation of `ford_fulkerson` raises no
`KeyError` and the residual graph (with the added reverse edges of capacity 0) together with the all-zero
`flow` dict represents the zero flow. -/
theorem C08_mkResidual_repr (N : Net) (hwf : netWfB N = true) :
    ∃ Gf fl, Dfs.mkResidual (Dfs.netToG N) = .ok (Gf, fl) ∧ Dfs.Repr N Gf fl (fun _ _ => 0) := by
  obtain ⟨Gf, fl, h1, _, h2⟩ := Dfs.mkResidual_ok N ((netWfB_iff N).mp hwf)
  exact ⟨Gf, fl, h1, h2⟩

/-- **B3, one round refines the spec layer.**  In a state that represents a flow `f`, if the search answers
`(path, c)` then `path` is a `validPath` of `Sck/Model/Flow.lean` for `f`, `c ≥ 1`, the code's update along
the path succeeds and the new state represents `augPath f path c`, which is a flow of value larger by `c`. -/
theorem C08_ffDfs_round_refines (N : Net) (hwf : netWfB N = true) (Gf : Dfs.Graph) (fl : Dfs.FlowDict)
    (f : Flow) (h : Dfs.Repr N Gf fl f) (hf : IsFlow N.verts.toFinset N.cap N.s N.t f) (fuel : Nat)
    (path : List Int) (c : Int)
    (hs : (Dfs.dfsPath Gf N.t fuel N.s (Dfs.vis0 Gf N.s)).1 = some (path, c)) :
    validPath N f path = true ∧ 1 ≤ c ∧
    ∃ g fl', Dfs.augment path c (Gf, fl) = .ok (g, fl') ∧ g.length = Gf.length ∧
      Dfs.Repr N g fl' (augPath f path c) ∧ IsFlow N.verts.toFinset N.cap N.s N.t (augPath f path c) ∧
      flowValue N.verts.toFinset N.s (augPath f path c) = flowValue N.verts.toFinset N.s f + c :=
  Dfs.round_step N ((netWfB_iff N).mp hwf) Gf fl f h hf fuel path c hs

/-- **B3, `ffDfs_correct` (partial correctness).**  Whatever the mirror of `ford_fulkerson` returns on a
well-formed network: the final flow dict has exactly the edges as keys, in the dict order of the input; read
as net flows (`flowOf`) it is a flow of maximum value; the returned vertex set is an s–t cut whose capacity
equals that value, hence a minimum cut; the value is the sum of the capacities `dfs_path` reported for the
augmenting paths, and each of those is a duplicate-free source–sink path of vertices with `1 ≤ c ≤ maxsize`. -/
theorem C08_ffDfs_correct (N : Net) (hwf : netWfB N = true) (rounds : Nat) (fl : Dfs.FlowDict) (S : List Int)
    (paths : List (List Int × Int))
    (h : Dfs.ffDfs (Dfs.netToG N) N.s N.t rounds = .ok (fl, S, paths)) :
    IsFlow N.verts.toFinset N.cap N.s N.t (flowOf (Dfs.toTriples fl)) ∧
    (∀ g, IsFlow N.verts.toFinset N.cap N.s N.t g →
      flowValue N.verts.toFinset N.s g ≤ flowValue N.verts.toFinset N.s (flowOf (Dfs.toTriples fl))) ∧
    (N.s ∈ S ∧ N.t ∉ S ∧ (∀ v ∈ S, v ∈ N.verts) ∧
      cutCap N.verts.toFinset N.cap S.toFinset = flowValue N.verts.toFinset N.s (flowOf (Dfs.toTriples fl))) ∧
    (∀ T : Finset Int, T ⊆ N.verts.toFinset → N.s ∈ T → N.t ∉ T →
      cutCap N.verts.toFinset N.cap S.toFinset ≤ cutCap N.verts.toFinset N.cap T) ∧
    Dfs.toTriples fl = (Dfs.edgePairs (Dfs.netToG N)).map
      (fun k => (k.1, k.2, flowOf (Dfs.toTriples fl) k.1 k.2)) ∧
    flowValue N.verts.toFinset N.s (flowOf (Dfs.toTriples fl)) = (paths.map (·.2)).sum ∧
    (∀ p ∈ paths, p.1.Nodup ∧ p.1.head? = some N.s ∧ p.1.getLast? = some N.t ∧
      (∀ v ∈ p.1, v ∈ N.verts) ∧ 1 ≤ p.2 ∧ p.2 ≤ Dfs.maxsize) := by
  have hfin := Dfs.ffDfs_final N ((netWfB_iff N).mp hwf) rounds fl S paths h
  obtain ⟨hmax, hmin⟩ := hfin.maxflow_mincut
  exact ⟨hfin.isFlow, hmax, ⟨hfin.s_mem, hfin.t_not, hfin.sub, hfin.tight.symm⟩, hmin, hfin.dict,
    hfin.value, hfin.paths⟩

/-- **B3, `ffDfs_terminates`.**  On a well-formed network the mirror never fails once the number of rounds is
at least `ffFuel N = 1 + Σ_{v ≠ s} cap s v`: no `KeyError` anywhere, the depth fuel of every search and the
fuel of the final worklist suffice, and the `while` loop ends (every round gains at least one unit of value,
and the value is bounded by the capacity of the cut `{s}`). -/
theorem C08_ffDfs_terminates (N : Net) (hwf : netWfB N = true) (rounds : Nat) (hfuel : ffFuel N ≤ rounds) :
    ∃ r, Dfs.ffDfs (Dfs.netToG N) N.s N.t rounds = .ok r :=
  Dfs.ffDfs_terminates N ((netWfB_iff N).mp hwf) rounds hfuel

/-- **Total correctness of the mirror.**  With `ffFuel N` rounds (or more) the mirror of `ford_fulkerson`
terminates with a maximum flow and a minimum cut of equal value. -/
theorem C08_ffDfs_terminates_with_maxflow_mincut (N : Net) (hwf : netWfB N = true) (rounds : Nat)
    (hfuel : ffFuel N ≤ rounds) :
    ∃ fl S paths, Dfs.ffDfs (Dfs.netToG N) N.s N.t rounds = .ok (fl, S, paths) ∧
    IsFlow N.verts.toFinset N.cap N.s N.t (flowOf (Dfs.toTriples fl)) ∧
    (∀ g, IsFlow N.verts.toFinset N.cap N.s N.t g →
      flowValue N.verts.toFinset N.s g ≤ flowValue N.verts.toFinset N.s (flowOf (Dfs.toTriples fl))) ∧
    (N.s ∈ S ∧ N.t ∉ S ∧ (∀ v ∈ S, v ∈ N.verts) ∧
      cutCap N.verts.toFinset N.cap S.toFinset = flowValue N.verts.toFinset N.s (flowOf (Dfs.toTriples fl))) ∧
    (∀ T : Finset Int, T ⊆ N.verts.toFinset → N.s ∈ T → N.t ∉ T →
      cutCap N.verts.toFinset N.cap S.toFinset ≤ cutCap N.verts.toFinset N.cap T) := by
  obtain ⟨⟨fl, S, paths⟩, h⟩ := C08_ffDfs_terminates N hwf rounds hfuel
  obtain ⟨h1, h2, h3, h4, _⟩ := C08_ffDfs_correct N hwf rounds fl S paths h
  exact ⟨fl, S, paths, h, h1, h2, h3, h4⟩

/-- **The mirror and the model agree on the value.**  The flow returned by the mirror of the implementation's
search and the flow returned by the model's own search have the same value (both are maximum). -/
theorem C08_ffDfs_value_eq_ff (N : Net) (hwf : netWfB N = true) (rounds : Nat) (fl : Dfs.FlowDict)
    (S : List Int) (paths : List (List Int × Int))
    (h : Dfs.ffDfs (Dfs.netToG N) N.s N.t rounds = .ok (fl, S, paths))
    (fuel : Nat) (f : Flow) (S' : List Int) (h' : ff N fuel = .ok (f, S')) :
    flowValue N.verts.toFinset N.s (flowOf (Dfs.toTriples fl)) = flowValue N.verts.toFinset N.s f := by
  have hwf' := (netWfB_iff N).mp hwf
  have hfin := Dfs.ffDfs_final N hwf' rounds fl S paths h
  obtain ⟨hf, _, _, _, hval⟩ := ff_correct N hwf'.toWF fuel f S' h'
  have hcert := maxflow_cert N.verts.toFinset N.cap N.s N.t f hf S'.toFinset
    (fun v hv => List.mem_toFinset.mpr ((ff_correct N hwf'.toWF fuel f S' h').2.2.2.1 v (List.mem_toFinset.mp hv)))
    (List.mem_toFinset.mpr (ff_correct N hwf'.toWF fuel f S' h').2.1)
    (fun hm => (ff_correct N hwf'.toWF fuel f S' h').2.2.1 (List.mem_toFinset.mp hm)) hval
  exact le_antisymm (hcert.1 _ hfin.isFlow) (hfin.maxflow_mincut.1 _ hf)

/-- **The mirror's cut is the inclusion-least minimum cut.**  The returned set (the residual-reachable set) is
contained in the source side of every minimum s–t cut. -/
theorem C08_ffDfs_cut_least (N : Net) (hwf : netWfB N = true) (rounds : Nat) (fl : Dfs.FlowDict)
    (S : List Int) (paths : List (List Int × Int))
    (h : Dfs.ffDfs (Dfs.netToG N) N.s N.t rounds = .ok (fl, S, paths))
    (T : Finset Int) (hTV : T ⊆ N.verts.toFinset) (hs : N.s ∈ T) (ht : N.t ∉ T)
    (hmin : ∀ T' : Finset Int, T' ⊆ N.verts.toFinset → N.s ∈ T' → N.t ∉ T' →
      cutCap N.verts.toFinset N.cap T ≤ cutCap N.verts.toFinset N.cap T') :
    ∀ v ∈ S, v ∈ T := by
  have hfin := Dfs.ffDfs_final N ((netWfB_iff N).mp hwf) rounds fl S paths h
  have hle := flow_le_cut N.verts.toFinset N.cap N.s N.t _ hfin.isFlow T hTV hs ht
  have hge := hmin S.toFinset (fun v hv => List.mem_toFinset.mpr (hfin.sub v (List.mem_toFinset.mp hv)))
    (List.mem_toFinset.mpr hfin.s_mem) (fun hm => hfin.t_not (List.mem_toFinset.mp hm))
  rw [← hfin.tight] at hge
  exact hfin.least T hTV hs ht (le_antisymm hle hge)

/-- **The mirror and the model return the same cut** (as sets), so the harness may compare the cut of the
implementation with either. -/
theorem C08_ffDfs_cut_eq_ff (N : Net) (hwf : netWfB N = true) (rounds : Nat) (fl : Dfs.FlowDict)
    (S : List Int) (paths : List (List Int × Int))
    (h : Dfs.ffDfs (Dfs.netToG N) N.s N.t rounds = .ok (fl, S, paths))
    (fuel : Nat) (f : Flow) (S' : List Int) (h' : ff N fuel = .ok (f, S')) :
    ∀ v, v ∈ S ↔ v ∈ S' := by
  have hwf' := (netWfB_iff N).mp hwf
  have hfin := Dfs.ffDfs_final N hwf' rounds fl S paths h
  obtain ⟨hf, hs', ht', hsub', hval'⟩ := ff_correct N hwf'.toWF fuel f S' h'
  have hST : S.toFinset ⊆ N.verts.toFinset :=
    fun v hv => List.mem_toFinset.mpr (hfin.sub v (List.mem_toFinset.mp hv))
  have hST' : S'.toFinset ⊆ N.verts.toFinset :=
    fun v hv => List.mem_toFinset.mpr (hsub' v (List.mem_toFinset.mp hv))
  intro v
  constructor
  · intro hv
    have := C08_ffDfs_cut_least N hwf rounds fl S paths h S'.toFinset hST' (List.mem_toFinset.mpr hs')
      (fun hm => ht' (List.mem_toFinset.mp hm))
      (fun T' hT' hsT' htT' => by
        rw [← hval']; exact flow_le_cut N.verts.toFinset N.cap N.s N.t f hf T' hT' hsT' htT') v hv
    exact List.mem_toFinset.mp this
  · intro hv
    have := ff_cut_minimal N hwf'.toWF fuel f S' h' S.toFinset hST (List.mem_toFinset.mpr hfin.s_mem)
      (fun hm => hfin.t_not (List.mem_toFinset.mp hm))
      (fun T' hT' hsT' htT' => by
        rw [← hfin.tight]
        exact flow_le_cut N.verts.toFinset N.cap N.s N.t _ hfin.isFlow T' hT' hsT' htT') v hv
    exact List.mem_toFinset.mp this

/-! ### the hypotheses are satisfiable on concrete non-trivial instances; behavioural observations -/

/-- the 4-vertex network of C08 (with an edge into the source): three rounds; the paths, reported capacities,
final flow dict and cut of the mirror -/
example : netWfB exNet = true := by decide
example : (match Dfs.ffDfs (Dfs.netToG exNet) 0 3 (ffFuel exNet) with
    | .ok r => some r
    | .error _ => none) =
    some ([((0, 1), 3), ((0, 2), 2), ((1, 2), 1), ((1, 3), 2), ((2, 3), 3), ((3, 0), 0)], [0],
      [([0, 1, 3], 2), ([0, 2, 3], 2), ([0, 1, 2, 3], 1)]) := by decide +kernel
/-- an opposite pair of edges, vertices `-1`, `-2`: the dict reports NET flows -/
example : netWfB exNet2 = true := by decide
example : (match Dfs.ffDfs (Dfs.netToG exNet2) (-1) (-2) (ffFuel exNet2) with
    | .ok r => some r
    | .error _ => none) =
    some ([((5, -1), -1), ((5, -2), 1), ((-1, 5), 1), ((-2, 5), -1)], [5, -1], [([-1, 5, -2], 1)]) := by
  decide +kernel
/-- hypotheses of B1 / B2 on the residual graph of `exHeur` (a graph whose neighbours are all keys) -/
example : Dfs.nbrsKeysB Dfs.exHeur = true := by decide
example : (0 : Int) ∈ [(0 : Int)] ∧ Dfs.cnt (Dfs.keys Dfs.exHeur) [0] < 5 := by decide
/-- **"best capacity" is not the best over all simple paths**: the answer from `0` is `([0, 1, 3], 1)` although
`0 → 2 → 1 → 3` has capacity `2`; vertex `2` answered `None` while `1` was on the stack and stays marked. -/
example : Dfs.dfsPath Dfs.exHeur 3 5 0 [0] = (some ([0, 1, 3], 1), [2]) := by decide +kernel
example : Dfs.ResPath Dfs.exHeur 3 [0, 2, 1, 3] 2 := by
  have h3 : Dfs.ResPath Dfs.exHeur 3 [3] Dfs.maxsize := Dfs.ResPath.sink
  have h2 : Dfs.ResPath Dfs.exHeur 3 [1, 3] (min Dfs.maxsize 3) :=
    Dfs.ResPath.step (by decide) (by decide) h3
  have h1 : Dfs.ResPath Dfs.exHeur 3 [2, 1, 3] (min (min Dfs.maxsize 3) 2) :=
    Dfs.ResPath.step (by decide) (by decide) h2
  exact Dfs.ResPath.step (c := 2) (by decide) (by decide) h1
/-- a `None` answer leaves its marks: from `2` with `0`, `1` marked nothing is found and `2` stays marked -/
example : Dfs.dfsPath Dfs.exHeur 3 5 2 [2, 1, 0] = (none, [2, 1, 0]) := by decide +kernel
/-- with `s == t` the code loops forever (`dfs_path` answers `([s], sys.maxsize)` each time); the mirror runs
out of rounds -/
example : (match Dfs.ffDfs [(0, [(1, 1)]), (1, [])] 0 0 50 with
    | .ok _ => "ok"
    | .error e => e) = "fuel" := by decide +kernel
/-- an edge to a vertex that is not a key raises `KeyError` in the initialisation -/
example : (match Dfs.ffDfs [(0, [(1, 1)])] 0 1 50 with
    | .ok _ => "ok"
    | .error e => e) = "KeyError" := by decide +kernel

#print axioms C08_dfsPath_sound
#print axioms C08_dfsPath_complete
#print axioms C08_dfsPath_top_complete
#print axioms C08_ffDfs_round_refines
#print axioms C08_ffDfs_correct
#print axioms C08_ffDfs_terminates
#print axioms C08_ffDfs_terminates_with_maxflow_mincut
#print axioms C08_ffDfs_value_eq_ff
#print axioms C08_ffDfs_cut_least
#print axioms C08_ffDfs_cut_eq_ff
