import Sck.Proofs.Lattice5
import Sck.Proofs.IrvingAlgoExamples

/-! # C03 — the rotations of a stable matching are well defined; `optStable` as a maximum over elimination sequences
(Irving–Leather 1986; Gusfield–Irving 1989 §2.5, §3.1)

Notation of `Sck/Props/C03Lattice.lean`.  In addition
* `SMLattice.rotPairs μ ρ` = the pairs `(a, μ a)`, `a ∈ ρ`, of the rotation with men `ρ` exposed in `μ` (as naturals, the
  form used by `Irving.eliminate` / `Irving.rotationWeight`);
* `SMLattice.pathPairs μ rots` = the rotations of an elimination path starting at `μ`, in pairs form;
* `l ~r l'` (`List.IsRotated`) = equal up to a cyclic shift; `(l : Cycle _)` the cyclic sequence of `l`.
Property theorems only; proofs in `Sck/Proofs/Lattice4.lean`, `Lattice5.lean`. -/

open SMLattice

theorem C03_rotPairs_eq {n : ℕ} (μ : Equiv.Perm (Fin n)) (ρ : List (Fin n)) :
    rotPairs μ ρ = ρ.map (fun a : Fin n => ((a : ℕ), ((μ a : Fin n) : ℕ))) := rfl

theorem C03_pathPairs_nil {n : ℕ} (μ : Equiv.Perm (Fin n)) : pathPairs μ [] = [] := rfl

theorem C03_pathPairs_cons {n : ℕ} (μ : Equiv.Perm (Fin n)) (ρ : List (Fin n)) (rest : List (List (Fin n))) :
    pathPairs μ (ρ :: rest) = rotPairs μ ρ :: pathPairs (elim μ ρ) rest := rfl

/-! ## Stage 2, lattice side -/

/-- **C03 (opposition of interests on a pair).**  For stable `μ`, `ν` and a pair `(a, b)` of `ν`, `a` and `b` cannot both
strictly prefer their `μ`-partners. -/
theorem C03_both_prefer_false {n : ℕ} (P1 P2 : Fin n → Fin n → ℕ) (h1 : ∀ a, Function.Injective (P1 a))
    (h2 : ∀ b, Function.Injective (P2 b)) (μ ν : Equiv.Perm (Fin n)) (hμ : StableSM P1 P2 μ)
    (hν : StableSM P1 P2 ν) (a b : Fin n) (hab : ν a = b) :
    ¬ (P1 a (μ a) < P1 a b ∧ P2 b (μ.symm b) < P2 b a) :=
  fun h => both_prefer_false h1 h2 hμ hν hab h.1 h.2

/-- **C03 (dichotomy).**  `ρ` exposed in `μ`, `μ ≼ ν` stable: either `ν` still contains every pair of `ρ` — and then `ρ`
is exposed in `ν` too — or `μ/ρ ≼ ν`. -/
theorem C03_exposed_dichotomy {n : ℕ} (P1 P2 : Fin n → Fin n → ℕ) (h1 : ∀ a, Function.Injective (P1 a))
    (h2 : ∀ b, Function.Injective (P2 b)) (μ ν : Equiv.Perm (Fin n)) (hν : StableSM P1 P2 ν)
    (hle : MLe P1 μ ν) (ρ : List (Fin n)) (hex : ExposedRot P1 P2 μ ρ) :
    ((∀ a ∈ ρ, ν a = μ a) ∧ ExposedRot P1 P2 ν ρ) ∨ MLe P1 (elim μ ρ) ν :=
  (exposed_dichotomy h1 h2 hν hle hex).imp (fun h => ⟨h, exposed_of_agree h1 hν hle hex h⟩) id

/-- **C03 (a pair belongs to at most one rotation).**  Rotations `ρ`, `ρ'` exposed in stable `μ`, `ν` that share a man
`a` with the same wife are the same cyclic sequence of men, with the same wives. -/
theorem C03_rotation_unique {n : ℕ} (P1 P2 : Fin n → Fin n → ℕ) (h1 : ∀ a, Function.Injective (P1 a))
    (h2 : ∀ b, Function.Injective (P2 b)) (μ ν : Equiv.Perm (Fin n)) (hμ : StableSM P1 P2 μ)
    (hν : StableSM P1 P2 ν) (ρ ρ' : List (Fin n)) (hex : ExposedRot P1 P2 μ ρ) (hex' : ExposedRot P1 P2 ν ρ')
    (a : Fin n) (ha : a ∈ ρ) (ha' : a ∈ ρ') (hsame : μ a = ν a) :
    ρ ~r ρ' ∧ ∀ c ∈ ρ, μ c = ν c :=
  rotation_unique h1 h2 hμ hν hex hex' ha ha' hsame

/-- **C03 (no elimination jumps over a stable pair).**  If `ρ`, exposed in stable `μ`, moves `a` from `μ a` down to
`(μ/ρ) a`, no stable matching gives `a` a wife strictly between the two. -/
theorem C03_no_jump {n : ℕ} (P1 P2 : Fin n → Fin n → ℕ) (h1 : ∀ a, Function.Injective (P1 a))
    (h2 : ∀ b, Function.Injective (P2 b)) (μ ν : Equiv.Perm (Fin n)) (hμ : StableSM P1 P2 μ)
    (hν : StableSM P1 P2 ν) (ρ : List (Fin n)) (hex : ExposedRot P1 P2 μ ρ) (a : Fin n) (ha : a ∈ ρ) :
    ¬ (P1 a (μ a) < P1 a (ν a) ∧ P1 a (ν a) < P1 a (elim μ ρ a)) :=
  fun h => no_jump h1 h2 hμ hν hex ha h.1 h.2

/-- **C03 (which rotations lie on a path depends on its end points only).**  Let `σ` be exposed in the stable matching
`N` and `c` one of its men.  On ANY elimination path `μ → … → ν` from a stable `μ`, (a cyclic shift of) `σ` is eliminated
iff `rank(μ c) ≤ rank(N c) < rank(ν c)` on `c`'s list. -/
theorem C03_mem_path_iff {n : ℕ} (P1 P2 : Fin n → Fin n → ℕ) (h1 : ∀ a, Function.Injective (P1 a))
    (h2 : ∀ b, Function.Injective (P2 b)) (N : Equiv.Perm (Fin n)) (hN : StableSM P1 P2 N) (σ : List (Fin n))
    (hσ : ExposedRot P1 P2 N σ) (c : Fin n) (hc : c ∈ σ) (A : List (List (Fin n))) (μ ν : Equiv.Perm (Fin n))
    (hμ : StableSM P1 P2 μ) (hp : ElimPath P1 P2 μ A ν) :
    (∃ r ∈ pathPairs μ A, r ~r rotPairs N σ) ↔ P1 c (μ c) ≤ P1 c (N c) ∧ P1 c (N c) < P1 c (ν c) :=
  mem_path_iff h1 h2 hN hσ hc A μ ν hμ hp

/-- **C03 (f: `rotations_of` is well defined).**  The rotations eliminated on any two paths between the same two stable
matchings are the same multiset of cyclic sequences of pairs (the two lists of cycles are permutations of each
other), and no rotation is eliminated twice on a path. -/
theorem C03_path_rotations_unique {n : ℕ} (P1 P2 : Fin n → Fin n → ℕ) (h1 : ∀ a, Function.Injective (P1 a))
    (h2 : ∀ b, Function.Injective (P2 b)) (μ ν : Equiv.Perm (Fin n)) (hμ : StableSM P1 P2 μ)
    (A B : List (List (Fin n))) (hA : ElimPath P1 P2 μ A ν) (hB : ElimPath P1 P2 μ B ν) :
    ((pathPairs μ A).map (fun r : List Irving.Pair => (r : Cycle Irving.Pair))).Nodup ∧
    ((pathPairs μ A).map (fun r : List Irving.Pair => (r : Cycle Irving.Pair))).Perm
      ((pathPairs μ B).map (fun r : List Irving.Pair => (r : Cycle Irving.Pair))) :=
  path_rotations_unique h1 h2 hμ hA hB

/-- **C03 (monotonicity of `rotations_of`).**  Two paths from the same stable `μ`, to `ν` and to `ν'` with `ν ≼ ν'`:
every rotation of the first is (a cyclic shift of) a rotation of the second. -/
theorem C03_path_rotations_subset {n : ℕ} (P1 P2 : Fin n → Fin n → ℕ) (h1 : ∀ a, Function.Injective (P1 a))
    (h2 : ∀ b, Function.Injective (P2 b)) (μ ν ν' : Equiv.Perm (Fin n)) (hμ : StableSM P1 P2 μ)
    (A B : List (List (Fin n))) (hA : ElimPath P1 P2 μ A ν) (hB : ElimPath P1 P2 μ B ν') (hle : MLe P1 ν ν') :
    ∀ r ∈ pathPairs μ A, ∃ r' ∈ pathPairs μ B, r' ~r r :=
  path_rotations_subset h1 h2 hμ hA hB hle

/-! ## Stage 2, executable side -/

/-- **C03 (a spec-level path is a checked run of `eliminate_rotations`).**  If the list of pairs `M` lists exactly the
pairs of the stable matching `μ`, every elimination path from `μ` passes the run-time check `exposedAllB` of the mirror,
`eliminate_rotations` does not raise on it, and the result lists exactly the pairs of the end point. -/
theorem C03_path_is_run (n : ℕ) (P1 P2 : List (List Nat)) (h1 : ∀ a : Fin n, Function.Injective (rk n P1 a))
    (rots : List (List (Fin n))) (μ ν : Equiv.Perm (Fin n)) (M : List Irving.Pair) (hM : Rep M μ)
    (hμ : StableSM (rk n P1) (rk n P2) μ) (hp : ElimPath (rk n P1) (rk n P2) μ rots ν) :
    Irving.exposedAllB P1 P2 M (pathPairs μ rots) = true ∧
    ∃ M', Irving.eliminateAll M (pathPairs μ rots) = some M' ∧ Rep M' ν :=
  path_bridge h1 rots μ ν M hM hμ hp

/-- **C03 (a checked run of `eliminate_rotations` is a spec-level path).**  Conversely, if `M` lists the pairs of the
stable matching `μ` and every (non-empty) rotation of `B` passes `exposedB` when its turn comes, then `B` is the pairs
form of an elimination path from `μ`, the run does not raise and its result lists the pairs of the end point. -/
theorem C03_run_is_path (n : ℕ) (P1 P2 : List (List Nat)) (h1 : ∀ a : Fin n, Function.Injective (rk n P1 a))
    (B : List (List Irving.Pair)) (M : List Irving.Pair) (μ : Equiv.Perm (Fin n)) (hM : Rep M μ)
    (hμ : StableSM (rk n P1) (rk n P2) μ) (hne : ∀ r ∈ B, r ≠ []) (hex : Irving.exposedAllB P1 P2 M B = true) :
    ∃ rots ν M', ElimPath (rk n P1) (rk n P2) μ rots ν ∧ pathPairs μ rots = B ∧
      Irving.eliminateAll M B = some M' ∧ Rep M' ν :=
  path_unbridge h1 B M μ hM hμ hne hex

theorem C03_rep_iff {n : ℕ} (M : List Irving.Pair) (μ : Equiv.Perm (Fin n)) :
    Rep M μ ↔ M.Perm (List.ofFn (fun a : Fin n => ((a : ℕ), ((μ a : Fin n) : ℕ)))) := Iff.rfl

theorem C03_rk_eq (n : ℕ) (P : List (List Nat)) (a b : Fin n) : rk n P a b = rankOf P a b := rfl

/-- **C03 (g: weights add up along a path).**  The value `Σ_a V1[a][ν a] + V2[ν a][a]` of the end point of a path is the
value of its starting point plus the sum of `rotation_weight` over the eliminated rotations. -/
theorem C03_elimPath_value (n : ℕ) (P1 P2 : List (List Nat)) (h1 : ∀ a : Fin n, Function.Injective (rk n P1 a))
    (V1 V2 : List (List Int)) (μ ν : Equiv.Perm (Fin n)) (hμ : StableSM (rk n P1) (rk n P2) μ)
    (rots : List (List (Fin n))) (hp : ElimPath (rk n P1) (rk n P2) μ rots ν) :
    ∑ a : Fin n, (intOf V1 a (ν a) + intOf V2 (ν a) a)
      = ∑ a : Fin n, (intOf V1 a (μ a) + intOf V2 (μ a) a)
        + ((pathPairs μ rots).map (Irving.rotationWeight V1 V2)).sum :=
  elimPath_value h1 V1 V2 hμ hp

/-- **C03 (h: the brute-force optimum is a maximum over elimination sequences).**  On a strict complete `n × n` instance
with male-optimal matching `M0` (Gale–Shapley, as the mirror computes it): `optStable = some v` iff `v` is the maximum of
`value(M0) + Σ_ρ rotation_weight(ρ)` over all lists of rotations that pass the mirror's run-time check `exposedAllB`
from `M0` (each exposed when its turn comes); the maximum is attained by a run of `eliminate_rotations` that does not
raise. -/
theorem C03_opt_eq_max_over_elimination_sequences (n : ℕ) (P1 P2 : List (List Nat)) (V1 V2 : List (List Int))
    (hwf : IrvingAlgo.wfB n P1 P2 V1 V2 = true) (M0 : List Irving.Pair)
    (h : IrvingAlgo.maleOptimal n P1 P2 = some M0) (v : Int) :
    Brute.optStable n P1 P2 V1 V2 = some v ↔
      (∃ rots M, Irving.exposedAllB P1 P2 M0 rots = true ∧ Irving.eliminateAll M0 rots = some M ∧
        v = Irving.matchingValue V1 V2 M0 + (rots.map (Irving.rotationWeight V1 V2)).sum) ∧
      (∀ rots, Irving.exposedAllB P1 P2 M0 rots = true →
        Irving.matchingValue V1 V2 M0 + (rots.map (Irving.rotationWeight V1 V2)).sum ≤ v) :=
  opt_eq_max_over_elimination_sequences hwf h v

/-! ## Non-vacuity: the 3×3 Latin-square instance -/

namespace C03RotationsEx

open IrvingAlgo

def p1 : Fin 3 → Fin 3 → ℕ := rk 3 exL1
def p2 : Fin 3 → Fin 3 → ℕ := rk 3 exL2
def m0 : Equiv.Perm (Fin 3) := ⟨![0, 1, 2], ![0, 1, 2], by decide, by decide⟩
def m1 : Equiv.Perm (Fin 3) := ⟨![1, 2, 0], ![2, 0, 1], by decide, by decide⟩
def m2 : Equiv.Perm (Fin 3) := ⟨![2, 0, 1], ![1, 2, 0], by decide, by decide⟩

/-- two DIFFERENT presentations of the same path `m0 → m1 → m2` (the rotations written from different starting men):
hypotheses of `C03_path_rotations_unique`; the pairs forms differ as lists but agree as cycles -/
example : ElimPath p1 p2 m0 [[0, 1, 2], [0, 1, 2]] m2 := by
  unfold ElimPath ElimPath ElimPath ExposedRot IsSucc Cand; decide
example : ElimPath p1 p2 m0 [[1, 2, 0], [2, 0, 1]] m2 := by
  unfold ElimPath ElimPath ElimPath ExposedRot IsSucc Cand; decide
example : pathPairs m0 [[0, 1, 2], [0, 1, 2]] = [[(0, 0), (1, 1), (2, 2)], [(0, 1), (1, 2), (2, 0)]] ∧
    pathPairs m0 [[1, 2, 0], [2, 0, 1]] = [[(1, 1), (2, 2), (0, 0)], [(2, 0), (0, 1), (1, 2)]] := by decide
/-- hypotheses of `C03_mem_path_iff`: the second rotation (exposed in `m1`) lies on the path `m0 → m2` but not on
`m0 → m1`; for man `0`: `rank(m0 0) = 1 ≤ rank(m1 0) = 2 < rank(m2 0) = 3` -/
example : ExposedRot p1 p2 m1 [0, 1, 2] ∧ p1 0 (m0 0) ≤ p1 0 (m1 0) ∧ p1 0 (m1 0) < p1 0 (m2 0) ∧
    ¬ p1 0 (m1 0) < p1 0 (m1 0) := by
  unfold ExposedRot IsSucc Cand; decide
/-- hypotheses of `C03_rotation_unique` / `C03_no_jump` are satisfiable (`ρ = ρ'`, `μ = ν = m0`) -/
example : StableSM p1 p2 m0 ∧ ExposedRot p1 p2 m0 [0, 1, 2] ∧ ExposedRot p1 p2 m0 [1, 2, 0] := by
  unfold StableSM ExposedRot IsSucc Cand; decide
/-- `C03_opt_eq_max_over_elimination_sequences` on the instance of `C03Algo.lean` (women's values
`[[0,1,5],[5,0,1],[1,5,0]]`): the optimum 15 is attained by eliminating the first rotation only (weight `+15`); eliminating
both gives `15 - 12 = 3` -/
example : wfB 3 exL1 exL2 [[0,0,0],[0,0,0],[0,0,0]] [[0,1,5],[5,0,1],[1,5,0]] = true := by decide +kernel
example : maleOptimal 3 exL1 exL2 = some [(0, 0), (1, 1), (2, 2)] := exLatin_maleOptimal
example : Brute.optStable 3 exL1 exL2 [[0,0,0],[0,0,0],[0,0,0]] [[0,1,5],[5,0,1],[1,5,0]] = some 15 ∧
    Irving.exposedAllB exL1 exL2 [(0, 0), (1, 1), (2, 2)] [[(0, 0), (1, 1), (2, 2)]] = true ∧
    Irving.eliminateAll [(0, 0), (1, 1), (2, 2)] [[(0, 0), (1, 1), (2, 2)]] = some [(0, 1), (1, 2), (2, 0)] ∧
    Irving.matchingValue [[0,0,0],[0,0,0],[0,0,0]] [[0,1,5],[5,0,1],[1,5,0]] [(0, 0), (1, 1), (2, 2)]
      + ([[(0, 0), (1, 1), (2, 2)]].map
          (Irving.rotationWeight [[0,0,0],[0,0,0],[0,0,0]] [[0,1,5],[5,0,1],[1,5,0]])).sum = 15 ∧
    Irving.matchingValue [[0,0,0],[0,0,0],[0,0,0]] [[0,1,5],[5,0,1],[1,5,0]] [(0, 0), (1, 1), (2, 2)]
      + ([[(0, 0), (1, 1), (2, 2)], [(0, 1), (1, 2), (2, 0)]].map
          (Irving.rotationWeight [[0,0,0],[0,0,0],[0,0,0]] [[0,1,5],[5,0,1],[1,5,0]])).sum = 3 := by
  decide +kernel

end C03RotationsEx
