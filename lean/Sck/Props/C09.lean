import Sck.Proofs.McmCover

/-! # C09 — bipartite maximum-cardinality matching
"For every bipartite graph, given directed from the left side or undirected and possibly containing isolated
vertices on either side, the matching routine returns a set of edges of the graph in which no vertex occurs
twice and whose size equals the size of a maximum matching."

Property theorems only (helper lemmas live in `Sck/Proofs/Mcm*.lean`).  `mcm X Y adj fuel` is the model of
`maximum_cardinality_matching_bipartite` (`Sck/Model/Mcm.lean`); only the adjacency lists `adj x` of the left
vertices enter it, so a directed-from-the-left and an undirected input give the same model run.  `IsMatching`
is "a set of edges of the graph in which no vertex occurs twice". -/

/-- certificate form (used on the implementation's output): if `M` passes `isMatchingB` and `C` passes
`koenigCertOk` (a vertex cover with `|C| = |M|`), then `M` is a matching and no matching is larger -/
theorem C09_koenigCertOk_sound (X : List Int) (adj : Int → List Int) (M : List (Int × Int)) (C : List Int)
    (hM : isMatchingB X adj M = true) (hC : koenigCertOk X adj M C = true) :
    IsMatching X adj M ∧ ∀ M', IsMatching X adj M' → M'.length ≤ M.length :=
  ⟨(isMatchingB_iff X adj M).mp hM, koenigCertOk_sound X adj M C hC⟩

/-- whatever the model returns on a well-formed instance is a set of edges of the graph in which no vertex
occurs twice (any fuel) -/
theorem C09_mcm_is_matching (X Y : List Int) (adj : Int → List Int) (fuel : Nat) (M : List (Int × Int))
    (hwf : bipWfB X Y adj = true) (h : mcm X Y adj fuel = .ok M) : IsMatching X adj M :=
  mcm_is_matching X Y adj fuel M hwf h

/-- whatever the model returns on a well-formed instance has the size of a maximum matching (any fuel) -/
theorem C09_mcm_maximum (X Y : List Int) (adj : Int → List Int) (fuel : Nat) (M : List (Int × Int))
    (hwf : bipWfB X Y adj = true) (h : mcm X Y adj fuel = .ok M) :
    ∀ M', IsMatching X adj M' → M'.length ≤ M.length :=
  mcm_maximum X Y adj fuel M hwf h

/-- end to end: on a well-formed instance and with fuel at least `mcmFuel X = |X| + 1`, the model does not
fail and returns a maximum matching -/
theorem C09_mcm_correct (X Y : List Int) (adj : Int → List Int) (fuel : Nat)
    (hwf : bipWfB X Y adj = true) (hfuel : mcmFuel X ≤ fuel) :
    ∃ M, mcm X Y adj fuel = .ok M ∧ IsMatching X adj M ∧
      ∀ M', IsMatching X adj M' → M'.length ≤ M.length :=
  mcm_correct X Y adj fuel hwf hfuel

/-- the certificate route is complete on the model: the König cover read off the cut of the model's own
max-flow run always certifies the model's matching (so comparing the implementation's matching against this
cover with `koenigCertOk` raises no false alarm when the sizes agree) -/
theorem C09_mcmWithCover_cert (X Y : List Int) (adj : Int → List Int) (fuel : Nat) (M : List (Int × Int))
    (C : List Int) (hwf : bipWfB X Y adj = true) (h : mcmWithCover X Y adj fuel = .ok (M, C)) :
    mcm X Y adj fuel = .ok M ∧ isMatchingB X adj M = true ∧ koenigCertOk X adj M C = true :=
  mcmWithCover_cert X Y adj fuel M C hwf h

/-- bridge to the IMPLEMENTATION's own max-flow run: if the flow dict `fl` and the cut `S` that
`ford_fulkerson(network, -1, -2)` reports on the network of a well-formed bipartite graph pass the C08
certificate check `flowCutOk`, then the read-out loop applied to that very dict yields a maximum matching
(independently of how the flow was found) -/
theorem C09_mcmOfFlow_flowCert (X Y : List Int) (adj : Int → List Int) (fl : List (Int × Int × Int))
    (S : List Int) (hwf : bipWfB X Y adj = true) (h : flowCutOk (bipNet X Y adj) fl S = true) :
    IsMatching X adj (mcmOfFlow X adj (flowOf fl)) ∧
      ∀ M', IsMatching X adj M' → M'.length ≤ (mcmOfFlow X adj (flowOf fl)).length :=
  mcmOfFlow_of_flowCert X Y adj fl S hwf h

/-! The hypotheses are satisfiable on a non-trivial instance: left `10 … 13`, right `20 … 23`, `13` and `23`
isolated, undirected input, maximum matching of size 2, minimum cover `[12, 20]`. -/
example : bipWfB exBipX exBipY (adjOf exBipG) = true := by decide
example : isMatchingB exBipX (adjOf exBipG) [(10, 20), (12, 21)] = true := by decide
example : koenigCertOk exBipX (adjOf exBipG) [(10, 20), (12, 21)] [12, 20] = true := by decide
/-- a matching that is not maximum has no certificate of its size: `[20]` is not a cover -/
example : koenigCertOk exBipX (adjOf exBipG) [(10, 20)] [20] = false := by decide
/-- the model run on that instance -/
example : (match mcm exBipX exBipY (adjOf exBipG) (mcmFuel exBipX) with
    | .ok M => some M | .error _ => none) = some [(10, 20), (12, 21)] := by decide +kernel

/-- a flow dict (`exBipFl`, in `Sck/Model/Mcm.lean`) and cut on the example instance that pass the check, and
the read-out of that dict -/
example : flowCutOk (bipNet exBipX exBipY (adjOf exBipG)) exBipFl [-1, 11, 13, 20, 10] = true := by
  decide +kernel
example : mcmOfFlow exBipX (adjOf exBipG) (flowOf exBipFl) = [(10, 20), (12, 21)] := by decide +kernel
