import Sck.Proofs.ElicitRules2

/-! # C11 (elicitation rules) — anonymity and neutrality of k-ARV and lambda-PRV, in exact arithmetic

This fills the gap left in `Sck/Props/C11.lean` ("the clause about k-ARV and lambda-PRV is not stated").
Rule-level models: `ElicitRules.karvScores P V m lams` (`KARV.score`: simulated matrix, column sums),
`ElicitRules.prvScores P V m lam` (`LambdaPRV.score`), `karvScf` / `prvScf` (`Vote.scfQ` on the scores).
`P` = ordinal profile, `V` = the valuations the elicitor answers with, `lams` = the thresholds (exact rationals).
`none` = the Python raises.

* voters: a voter is a pair (ballot, valuation row); reordering the list of pairs leaves the scores unchanged;
* alternatives: `sig` a permutation of `0..m-1` (`permB sig m`), new alternative `a` is old alternative `sig[a]`;
  the profile is renamed with `renameProfile sig`, every valuation row with `renameValRow sig`
  (`renameValsQ sig V`); the score vector is renamed the same way, so `scores'[a]? = scores[sig[a]]?` and the
  winner sets correspond.  Hypotheses: `wfB P m` (complete strict profile: with tied ranks `np.argsort` would
  break the ties by position and neutrality fails) and every valuation row has `m` entries.
Property theorems only (helper lemmas live in `Sck/Proofs/ElicitRules*.lean`). -/

open Vote ElicitRules

/-! ## reordering the voters -/

theorem C11_karv_perm_voters {PV PV' : List (List Nat × List Rat)} (h : PV.Perm PV') (m : Nat) (lams : List Rat) :
    karvScores (PV.map Prod.fst) (PV.map Prod.snd) m lams
      = karvScores (PV'.map Prod.fst) (PV'.map Prod.snd) m lams := by
  unfold karvScores
  rw [zip_fst_snd, zip_fst_snd]
  exact karvScoresPV_perm h m lams

theorem C11_prv_perm_voters {PV PV' : List (List Nat × List Rat)} (h : PV.Perm PV') (m lam : Nat) :
    prvScores (PV.map Prod.fst) (PV.map Prod.snd) m lam
      = prvScores (PV'.map Prod.fst) (PV'.map Prod.snd) m lam := by
  unfold prvScores
  rw [zip_fst_snd, zip_fst_snd]
  exact prvScoresPV_perm h m lam

/-- hence the social choice (every tie-breaker, either indexing) is unchanged -/
theorem C11_elicit_scf_perm_voters {PV PV' : List (List Nat × List Rat)} (h : PV.Perm PV') (m : Nat)
    (lams : List Rat) (lam fixer : Nat) (tb : TieBreaker) :
    karvScf fixer tb (PV.map Prod.fst) (PV.map Prod.snd) m lams
      = karvScf fixer tb (PV'.map Prod.fst) (PV'.map Prod.snd) m lams ∧
    prvScf fixer tb (PV.map Prod.fst) (PV.map Prod.snd) m lam
      = prvScf fixer tb (PV'.map Prod.fst) (PV'.map Prod.snd) m lam := by
  unfold karvScf prvScf
  rw [C11_karv_perm_voters h m lams, C11_prv_perm_voters h m lam]
  exact ⟨rfl, rfl⟩

/-! ## renaming the alternatives -/

/-- the k-ARV score vector of the renamed input is the renamed score vector (and the renamed call raises iff the
original call does) -/
theorem C11_karv_rename {sig : List Nat} {m : Nat} (hsig : permB sig m = true) {P : Profile}
    {V : List (List Rat)} (hP : wfB P m = true) (hV : ∀ r ∈ V, r.length = m) (lams : List Rat) :
    karvScores (renameProfile sig P) (renameValsQ sig V) m lams
      = (karvScores P V m lams).map (renameValRow sig) := by
  unfold karvScores
  rw [zip_rename]
  exact karvScoresPV_rename (permB_iff.1 hsig) (hPV_of_zip hP hV) lams

theorem C11_prv_rename {sig : List Nat} {m : Nat} (hsig : permB sig m = true) {P : Profile}
    {V : List (List Rat)} (hP : wfB P m = true) (hV : ∀ r ∈ V, r.length = m) (lam : Nat) :
    prvScores (renameProfile sig P) (renameValsQ sig V) m lam
      = (prvScores P V m lam).map (renameValRow sig) := by
  unfold prvScores
  rw [zip_rename]
  exact prvScoresPV_rename (permB_iff.1 hsig) (hPV_of_zip hP hV) lam

/-- what "renamed score vector" means: entries are permuted accordingly and the winner sets correspond -/
theorem C11_renamed_scores {sig : List Nat} {m : Nat} (hsig : permB sig m = true) {s : List Rat}
    (hs : s.length = m) :
    (renameValRow sig s).length = m ∧
    (∀ a b : Nat, sig[a]? = some b → (renameValRow sig s)[a]? = s[b]?) ∧
    (∀ a b : Nat, sig[a]? = some b → (a ∈ winnersQ (renameValRow sig s) ↔ b ∈ winnersQ s)) :=
  renamed_scores_spec (permB_iff.1 hsig) hs

/-- k-ARV, entrywise: `scores'[a]? = scores[sig[a]]?`, winners permuted accordingly -/
theorem C11_karv_rename_winners {sig : List Nat} {m : Nat} (hsig : permB sig m = true) {P : Profile}
    {V : List (List Rat)} (hP : wfB P m = true) (hV : ∀ r ∈ V, r.length = m) (lams : List Rat) {s : List Rat}
    (h : karvScores P V m lams = some s) :
    ∃ s', karvScores (renameProfile sig P) (renameValsQ sig V) m lams = some s' ∧
      s.length = m ∧ s'.length = m ∧
      (∀ a b : Nat, sig[a]? = some b → s'[a]? = s[b]?) ∧
      (∀ a b : Nat, sig[a]? = some b → (a ∈ winnersQ s' ↔ b ∈ winnersQ s)) := by
  have hs : s.length = m := by
    unfold karvScores karvScoresPV at h
    obtain ⟨M, _, rfl⟩ := Option.map_eq_some_iff.1 h
    exact colSums_length M m
  obtain ⟨h1, h2, h3⟩ := C11_renamed_scores hsig hs
  exact ⟨renameValRow sig s, by rw [C11_karv_rename hsig hP hV, h]; rfl, hs, h1, h2, h3⟩

/-- lambda-PRV, entrywise -/
theorem C11_prv_rename_winners {sig : List Nat} {m : Nat} (hsig : permB sig m = true) {P : Profile}
    {V : List (List Rat)} (hP : wfB P m = true) (hV : ∀ r ∈ V, r.length = m) (lam : Nat) {s : List Rat}
    (h : prvScores P V m lam = some s) :
    ∃ s', prvScores (renameProfile sig P) (renameValsQ sig V) m lam = some s' ∧
      s.length = m ∧ s'.length = m ∧
      (∀ a b : Nat, sig[a]? = some b → s'[a]? = s[b]?) ∧
      (∀ a b : Nat, sig[a]? = some b → (a ∈ winnersQ s' ↔ b ∈ winnersQ s)) := by
  have hs : s.length = m := by
    unfold prvScores prvScoresPV at h
    split at h
    · exact absurd h (by simp)
    · obtain rfl := Option.some.inj h
      exact colSums_length _ m
  obtain ⟨h1, h2, h3⟩ := C11_renamed_scores hsig hs
  exact ⟨renameValRow sig s, by rw [C11_prv_rename hsig hP hV, h]; rfl, hs, h1, h2, h3⟩

/-! ## non-vacuity: 3 voters, 3 alternatives, thresholds `3/2, 5/2`, renaming `[2, 0, 1]` -/

def C11E_P : Profile := [[1, 2, 3], [2, 1, 3], [3, 1, 2]]
def C11E_V : List (List Rat) := [[8, 4, 1], [3, 6, 0], [1, 9, 2]]
def C11E_sig : List Nat := [2, 0, 1]

theorem C11E_rr1 : rankedRow [1, 2, 3] = [0, 1, 2] := by
  simp [rankedRow, Elicit.rankedOf, plistOfRow, List.mergeSort, leKey, keyOf, List.range, List.range.loop]
theorem C11E_rr2 : rankedRow [2, 1, 3] = [1, 0, 2] := by
  simp [rankedRow, Elicit.rankedOf, plistOfRow, List.mergeSort, leKey, keyOf, List.range, List.range.loop]
theorem C11E_rr3 : rankedRow [3, 1, 2] = [1, 2, 0] := by
  simp [rankedRow, Elicit.rankedOf, plistOfRow, List.mergeSort, leKey, keyOf, List.range, List.range.loop]
theorem C11E_rr4 : rankedRow [3, 2, 1] = [2, 1, 0] := by
  simp [rankedRow, Elicit.rankedOf, plistOfRow, List.mergeSort, leKey, keyOf, List.range, List.range.loop]
theorem C11E_rr5 : rankedRow [2, 3, 1] = [2, 0, 1] := by
  simp [rankedRow, Elicit.rankedOf, plistOfRow, List.mergeSort, leKey, keyOf, List.range, List.range.loop]

example : wfB C11E_P 3 = true := by decide
example : permB C11E_sig 3 = true := by decide
example : ∀ r ∈ C11E_V, r.length = 3 := by decide
example : renameProfile C11E_sig C11E_P = [[3, 1, 2], [3, 2, 1], [2, 3, 1]] := by decide
example : renameValsQ C11E_sig C11E_V = [[1, 8, 4], [0, 3, 6], [2, 1, 9]] := by decide +kernel

/-- the k-ARV scores of the instance and of the renamed instance (old alternative 1 wins, it is new alternative 2) -/
example : karvScores C11E_P C11E_V 3 [3/2, 5/2] = some [52/5, 91/5, 0] := by
  simp only [karvScores, karvScoresPV, karvMatrixPV, thrMatrixPV, simRow, posVals_fun, scatter_fun, C11E_P, C11E_V,
    List.zip_cons_cons, List.zip_nil_right, List.map_cons, List.map_nil, C11E_rr1, C11E_rr2, C11E_rr3]
  decide +kernel
example : karvScores [[3, 1, 2], [3, 2, 1], [2, 3, 1]] [[1, 8, 4], [0, 3, 6], [2, 1, 9]] 3 [3/2, 5/2]
    = some [0, 52/5, 91/5] := by
  simp only [karvScores, karvScoresPV, karvMatrixPV, thrMatrixPV, simRow, posVals_fun, scatter_fun,
    List.zip_cons_cons, List.zip_nil_right, List.map_cons, List.map_nil, C11E_rr3, C11E_rr4, C11E_rr5]
  decide +kernel
example : winnersQ [52/5, 91/5, (0 : Rat)] = [1] ∧ winnersQ [(0 : Rat), 52/5, 91/5] = [2] := by decide +kernel

/-- lambda-PRV with `lam = 2` -/
example : prvScores C11E_P C11E_V 3 2 = some [11, 19, 2] := by
  simp only [prvScores, prvScoresPV, prvRow, posVals_fun, scatter_fun, C11E_P, C11E_V,
    List.zip_cons_cons, List.zip_nil_right, List.map_cons, List.map_nil, C11E_rr1, C11E_rr2, C11E_rr3]
  decide +kernel

/-- reordering the voters -/
example : ([([1, 2, 3], [8, 4, 1]), ([2, 1, 3], [3, 6, 0]), ([3, 1, 2], [1, 9, 2])] :
      List (List Nat × List Rat)).Perm
    [([3, 1, 2], [1, 9, 2]), ([1, 2, 3], [8, 4, 1]), ([2, 1, 3], [3, 6, 0])] := by decide +kernel
