import Sck.Proofs.GsExample

/-! # C02 — resident-optimality / resident-pessimality and invariance under renumbering
Property theorems only (helper lemmas live in `Sck/Proofs/GsOpt.lean`, `GsRelabel.lean`, `DA*.lean`).

`StableHR I nu` (for an ARBITRARY list of pairs `nu`) = `FeasibleHR I nu` (no repeated pair, every
resident at most once, capacities respected, every pair mutually acceptable) and no `BlockingHR`.
"`r` likes `h` at least as much as `h'`" is written out: both ranks exist and `x ≤ x'`. -/

/-- `StableHR`, spelled out -/
theorem C02_stableHR_iff (I : HR) (nu : List (Nat × Nat)) :
    StableHR I nu ↔
      (nu.Nodup ∧ (∀ r h h', (r, h) ∈ nu → (r, h') ∈ nu → h = h') ∧
       (∀ h, (heldBy nu h).length ≤ I.cap.getD h 0) ∧
       (∀ r h, (r, h) ∈ nu → rankAt I.R r h ≠ none ∧ rankAt I.H h r ≠ none)) ∧
      ∀ r h, ¬ BlockingHR I nu r h :=
  ⟨fun h => ⟨⟨h.1.nodup, h.1.resOnce, h.1.cap, h.1.acc⟩, h.2⟩, fun ⟨⟨a, b, c, d⟩, e⟩ => ⟨⟨a, b, c, d⟩, e⟩⟩

/-- the results themselves are stable matchings, so the comparisons below are not vacuous -/
theorem C02_results_stable (I : HR) (hwf : I.WF2) :
    (∃ mu, gsRes I = some mu ∧ StableHR I mu) ∧ (∃ mu, gsHosp I = some mu ∧ StableHR I mu) := by
  obtain ⟨mu, h⟩ := gsRes_terminates I hwf
  obtain ⟨mu', h'⟩ := gsHosp_terminates I hwf
  exact ⟨⟨mu, h, gsRes_stable I hwf mu h⟩, ⟨mu', h', gsHosp_stable I hwf mu' h'⟩⟩

/-- **C02, resident-oriented result is resident-optimal.** Every resident matched in ANY stable
matching `nu` is matched in the resident-oriented result `mu`, to a hospital of rank at most the
rank of its `nu`-partner. -/
theorem C02_resident_optimal (I : HR) (hwf : I.WF2) (mu : List (Nat × Nat)) (hmu : gsRes I = some mu)
    (nu : List (Nat × Nat)) (hst : StableHR I nu) :
    ∀ r h', (r, h') ∈ nu →
      ∃ h, (r, h) ∈ mu ∧ ∃ x x', rankAt I.R r h = some x ∧ rankAt I.R r h' = some x' ∧ x ≤ x' :=
  gsRes_resident_optimal I hwf mu hmu nu hst

/-- a resident is unmatched in the resident-oriented result only if it is unmatched in all stable matchings -/
theorem C02_unmatched_only_if_everywhere (I : HR) (hwf : I.WF2) (mu : List (Nat × Nat))
    (hmu : gsRes I = some mu) (nu : List (Nat × Nat)) (hst : StableHR I nu) (r : Nat)
    (hun : ∀ h, (r, h) ∉ mu) : ∀ h', (r, h') ∉ nu :=
  gsRes_unmatched_everywhere I hwf mu hmu nu hst r hun

/-- **C02, hospital-oriented result is resident-pessimal.** Every resident matched in the
hospital-oriented result `mu` is matched in EVERY stable matching `nu`, to a hospital of rank at
most the rank of its `mu`-partner. -/
theorem C02_resident_pessimal (I : HR) (hwf : I.WF2) (mu : List (Nat × Nat)) (hmu : gsHosp I = some mu)
    (nu : List (Nat × Nat)) (hst : StableHR I nu) :
    ∀ r h, (r, h) ∈ mu →
      ∃ h', (r, h') ∈ nu ∧ ∃ x' x, rankAt I.R r h' = some x' ∧ rankAt I.R r h = some x ∧ x' ≤ x :=
  gsHosp_resident_pessimal I hwf mu hmu nu hst

/-- the same two statements for the public rule's (label-shifted) output -/
theorem C02_public_optimal (fixer : Nat) (I : HR) (hwf : I.WF2) (out : List (Nat × Nat))
    (hout : galeShapley true fixer I = some out) (nu : List (Nat × Nat)) (hst : StableHR I nu) :
    ∀ r h', (r, h') ∈ nu →
      ∃ h, (r + fixer, h + fixer) ∈ out ∧
        ∃ x x', rankAt I.R r h = some x ∧ rankAt I.R r h' = some x' ∧ x ≤ x' := by
  rw [galeShapley_eq, if_pos rfl, Option.map_eq_some_iff] at hout
  obtain ⟨mu, hmu, rfl⟩ := hout
  intro r h' hm
  obtain ⟨h, hh, hp⟩ := gsRes_resident_optimal I hwf mu hmu nu hst r h' hm
  exact ⟨h, mem_shiftL.mpr hh, hp⟩

theorem C02_public_pessimal (fixer : Nat) (I : HR) (hwf : I.WF2) (out : List (Nat × Nat))
    (hout : galeShapley false fixer I = some out) (nu : List (Nat × Nat)) (hst : StableHR I nu) :
    ∀ r h, (r + fixer, h + fixer) ∈ out →
      ∃ h', (r, h') ∈ nu ∧ ∃ x' x, rankAt I.R r h' = some x' ∧ rankAt I.R r h = some x ∧ x' ≤ x := by
  rw [galeShapley_eq, if_neg (by decide), Option.map_eq_some_iff] at hout
  obtain ⟨mu, hmu, rfl⟩ := hout
  intro r h hm
  exact gsHosp_resident_pessimal I hwf mu hmu nu hst r h (mem_shiftL.mp hm)

/-- **"a function of the instance alone", part 1.** A stable matching that is best for every
resident among all stable matchings is unique as a set of pairs (likewise for "worst":
`residentPessimal_unique`); so any procedure returning such a matching returns these pairs. -/
theorem C02_optimal_unique (I : HR) (hwf : I.WF2) (mu mu' : List (Nat × Nat))
    (hs : StableHR I mu) (hs' : StableHR I mu') (ho : ResidentOptimal I mu) (ho' : ResidentOptimal I mu') :
    ∀ e, e ∈ mu ↔ e ∈ mu' :=
  residentOptimal_unique I hwf mu mu' hs hs' ho ho'

theorem C02_pessimal_unique (I : HR) (hwf : I.WF2) (mu mu' : List (Nat × Nat))
    (hs : StableHR I mu) (hs' : StableHR I mu') (ho : ResidentPessimal I mu) (ho' : ResidentPessimal I mu') :
    ∀ e, e ∈ mu ↔ e ∈ mu' :=
  residentPessimal_unique I hwf mu mu' hs hs' ho ho'

/-- **"renumbering renumbers the returned pairs and changes nothing else".** For every well-formed
instance, orientation and index convention, and all permutations `σ` of the residents and `τ` of the
hospitals (`σ'`, `τ'` their inverses), the rule applied to the renumbered instance
`I.relabel σ' τ'` (entry `(σ r, τ h)` of the new matrices = entry `(r, h)` of the old ones, capacity of
`τ h` = old capacity of `h`) returns exactly the pairs `(σ r, τ h)` for `(r, h)` returned on `I`
(as a set of pairs; the order of the output list may differ). -/
theorem C02_renumbering (ro : Bool) (fixer : Nat) (I : HR) (hwf : I.WF2) (σ τ σ' τ' : Nat → Nat)
    (hσ : PermOn I.n σ σ') (hτ : PermOn I.m τ τ') :
    ∃ mu muJ : List (Nat × Nat),
      galeShapley ro fixer I = some (mu.map (fun e => (e.1 + fixer, e.2 + fixer))) ∧
      galeShapley ro fixer (I.relabel σ' τ') = some (muJ.map (fun e => (e.1 + fixer, e.2 + fixer))) ∧
      ∀ e, e ∈ muJ ↔ e ∈ mu.map (fun e => (σ e.1, τ e.2)) :=
  galeShapley_relabel ro fixer I hwf σ τ σ' τ' hσ hτ

/-- the renumbered instance really is the renumbering (and is again well-formed) -/
theorem C02_relabel_is_renumbering (I : HR) (hwf : I.WF2) (σ τ σ' τ' : Nat → Nat)
    (hσ : PermOn I.n σ σ') (hτ : PermOn I.m τ τ') :
    (I.relabel σ' τ').WF2 ∧ (I.relabel σ' τ').n = I.n ∧ (I.relabel σ' τ').m = I.m ∧
    (∀ r, r < I.n → ∀ h, h < I.m → rankAt (I.relabel σ' τ').R (σ r) (τ h) = rankAt I.R r h) ∧
    (∀ h, h < I.m → ∀ r, r < I.n → rankAt (I.relabel σ' τ').H (τ h) (σ r) = rankAt I.H h r) ∧
    (∀ h, h < I.m → (I.relabel σ' τ').cap.getD (τ h) 0 = I.cap.getD h 0) := by
  have h := relabel_spec I σ τ σ' τ' hσ hτ
  exact ⟨relabel_wf2 I hwf σ τ σ' τ' hσ hτ, h.n_eq, h.m_eq, h.R_eq, h.H_eq, h.cap_eq⟩

/-- the same for ANY instance `J` that is a renumbering of `I` (not only the constructed one) -/
theorem C02_renumbering_abstract {σ τ σ' τ' : Nat → Nat} {I J : HR} (hrel : Relabel σ τ σ' τ' I J)
    (hI : I.WF2) (hJ : J.WF2) :
    (∀ mu muJ, gsRes I = some mu → gsRes J = some muJ → ∀ e, e ∈ muJ ↔ e ∈ mu.map (fun e => (σ e.1, τ e.2))) ∧
    (∀ mu muJ, gsHosp I = some mu → gsHosp J = some muJ → ∀ e, e ∈ muJ ↔ e ∈ mu.map (fun e => (σ e.1, τ e.2))) :=
  ⟨fun mu muJ h1 h2 => gsRes_relabel hrel hI hJ mu muJ h1 h2,
   fun mu muJ h1 h2 => gsHosp_relabel hrel hI hJ mu muJ h1 h2⟩

/-! ## non-vacuity -/

/-- the hypotheses are satisfiable: well-formed instances, with a stable matching -/
example : exI.WF2 := by decide
example : exTwo.WF2 := by decide
example : ∃ nu, StableHR exI nu := ⟨_, gsRes_stable exI (by decide) _ exI_gsRes⟩
/-- "all stable matchings" is a genuine quantifier: `exTwo` has two different stable matchings, the
resident-oriented result and the hospital-oriented one -/
example : StableHR exTwo [(1, 1), (0, 0)] ∧ StableHR exTwo [(0, 1), (1, 0)] :=
  ⟨gsRes_stable exTwo (by decide) _ exTwo_gsRes, gsHosp_stable exTwo (by decide) _ exTwo_gsHosp⟩
example : gsRes exTwo = some [(1, 1), (0, 0)] ∧ gsHosp exTwo = some [(0, 1), (1, 0)] :=
  ⟨exTwo_gsRes, exTwo_gsHosp⟩
/-- a non-trivial renumbering of `exI` (residents rotated, hospitals swapped) -/
example : PermOn exI.n exσ exσ' ∧ PermOn exI.m exτ exτ := ⟨exσ_perm, exτ_perm⟩
example : (exI.relabel exσ' exτ).R = [[some 1, some 2], [some 2, some 1], [none, some 1]] := by decide

#print axioms C02_resident_optimal
#print axioms C02_resident_pessimal
#print axioms C02_public_optimal
#print axioms C02_public_pessimal
#print axioms C02_optimal_unique
#print axioms C02_renumbering
#print axioms C02_renumbering_abstract
