import Sck.Proofs.ElicitBudget

/-! # C15 — the elicitor, the query budgets, and dependence on asked values only

* the elicitor (`Elicitor.elicit`) as a state machine: `runOps memoize fixer backing ElSt.init qs` runs the
  questions `qs`; `backing q k` is the backing function's answer to the `k`-th forwarding of `q`, so the
  backing function may be inconsistent; `shift fixer` is the code's `index_fixer` shift;
* per-agent query lists in ranking-position space: `simQueries` (k-ARV, lambda-TSF), `simQueries2`
  (two-sided lambda-TSF, per side), `m2qQueries` (Match-TwoQueries), `prvQueries` (lambda-PRV).
Property theorems only (helper lemmas live in `Sck/Proofs`). -/

open Elicit

/-! ### the elicitor: every question sequence, every backing function -/

/-- a memoising elicitor never forwards the same question twice -/
theorem C15_memo_no_duplicate_forward (fixer : Nat) (backing : Nat × Nat → Nat → Rat)
    (qs : List (Nat × Nat)) :
    (runOps true fixer backing ElSt.init qs).1.forwarded.Nodup :=
  memo_no_duplicate_forward fixer backing qs

/-- … it forwards exactly the distinct questions, in first-occurrence order -/
theorem C15_memo_forwarded_eq_dedup (fixer : Nat) (backing : Nat × Nat → Nat → Rat)
    (qs : List (Nat × Nat)) :
    (runOps true fixer backing ElSt.init qs).1.forwarded = (qs.map (shift fixer)).eraseDups :=
  memo_forwarded_eq_dedup fixer backing qs

/-- … and a repeated question gets the answer given the first time, which is the backing function's first
answer to it (no condition on the value: also when it is 0) -/
theorem C15_memo_repeat_same_answer (fixer : Nat) (backing : Nat × Nat → Nat → Rat) (qs : List (Nat × Nat))
    (i j : Nat) (hi : i < qs.length) (hj : j < qs.length) (heq : qs[i] = qs[j]) :
    (runOps true fixer backing ElSt.init qs).2[i]? = (runOps true fixer backing ElSt.init qs).2[j]? ∧
    (runOps true fixer backing ElSt.init qs).2[i]? = some (backing (shift fixer qs[i]) 0) :=
  memo_repeat_same_answer fixer backing qs i j hi hj heq

/-- one answer per question -/
theorem C15_answers_length (memoize : Bool) (fixer : Nat) (backing : Nat × Nat → Nat → Rat)
    (qs : List (Nat × Nat)) : (runOps memoize fixer backing ElSt.init qs).2.length = qs.length :=
  runOps_answers_length memoize fixer backing qs ElSt.init

/-- the counter equals the number of forwarded questions (memoising or not) -/
theorem C15_count_eq_forwarded (memoize : Bool) (fixer : Nat) (backing : Nat × Nat → Nat → Rat)
    (qs : List (Nat × Nat)) :
    (runOps memoize fixer backing ElSt.init qs).1.count =
      (runOps memoize fixer backing ElSt.init qs).1.forwarded.length :=
  count_eq_forwarded memoize fixer backing qs

/-- a non-memoising elicitor forwards every question -/
theorem C15_nomemo_forwards_all (fixer : Nat) (backing : Nat × Nat → Nat → Rat) (qs : List (Nat × Nat)) :
    (runOps false fixer backing ElSt.init qs).1.forwarded = qs.map (shift fixer) :=
  nomemo_forwards_all fixer backing qs

/-! ### query budgets per agent -/

/-- k-ARV / lambda-TSF: at most `1 + k·⌈log₂ m⌉` distinct questions to one agent -/
theorem C15_threshold_budget (vals : Nat → Rat) (m : Nat) (lams : List Rat) :
    (simQueries vals m lams).eraseDups.length ≤ 1 + lams.length * Nat.clog 2 m :=
  simQueries_distinct_le vals m lams

/-- … in fact the bound holds for the questions counted with repetitions (no memoisation needed) -/
theorem C15_threshold_budget_raw (vals : Nat → Rat) (m : Nat) (lams : List Rat) :
    (simQueries vals m lams).length ≤ 1 + lams.length * Nat.clog 2 m :=
  simQueries_length_le vals m lams

/-- the position found by the binary search is the favourite or one of the probes, so the extra look-up of
the two-sided rule is a repeat -/
theorem C15_two_sided_lookup_is_repeat (ge : Nat → Bool) (m : Nat) :
    (bsearchQ ge 0 m).1 = 0 ∨ (bsearchQ ge 0 m).1 ∈ (bsearchQ ge 0 m).2 :=
  bsearchQ_result_zero_or_probed ge m

/-- two-sided lambda-TSF: the same bound on DISTINCT questions per side and agent -/
theorem C15_two_sided_budget (vals : Nat → Rat) (m : Nat) (lams : List Rat) :
    (simQueries2 vals m lams).eraseDups.length ≤ 1 + lams.length * Nat.clog 2 m :=
  simQueries2_distinct_le vals m lams

/-- Match-TwoQueries: at most 2 -/
theorem C15_m2q_budget (p : Nat) : (m2qQueries p).eraseDups.length ≤ 2 :=
  m2qQueries_distinct_le p

/-- lambda-PRV: exactly `lam` distinct questions, the `lam` best-ranked positions -/
theorem C15_prv_budget (lam : Nat) :
    (prvQueries lam).eraseDups.length = lam ∧ (prvQueries lam).Nodup ∧ ∀ q, q ∈ prvQueries lam ↔ q < lam :=
  ⟨prvQueries_distinct lam, (prvQueries_spec lam).2.1, (prvQueries_spec lam).2.2⟩

/-- the budgets as read off the counter of a memoising elicitor that is asked one agent's questions
(`ask q` = the pair (agent, alternative at position `q`)) -/
theorem C15_memo_counter_budgets (fixer : Nat) (backing : Nat × Nat → Nat → Rat) (ask : Nat → Nat × Nat)
    (vals : Nat → Rat) (m : Nat) (lams : List Rat) (p : Nat) :
    (runOps true fixer backing ElSt.init ((simQueries vals m lams).map ask)).1.count ≤
        1 + lams.length * Nat.clog 2 m ∧
    (runOps true fixer backing ElSt.init ((simQueries2 vals m lams).map ask)).1.count ≤
        1 + lams.length * Nat.clog 2 m ∧
    (runOps true fixer backing ElSt.init ((m2qQueries p).map ask)).1.count ≤ 2 :=
  ⟨memo_count_simQueries_le fixer backing ask vals m lams,
    memo_count_simQueries2_le fixer backing ask vals m lams,
    memo_count_m2q_le fixer backing ask p⟩

theorem C15_prv_counter (memoize : Bool) (fixer : Nat) (backing : Nat × Nat → Nat → Rat)
    (ask : Nat → Nat × Nat) (hinj : ∀ a b, ask a = ask b → a = b) (lam : Nat) :
    (runOps memoize fixer backing ElSt.init ((prvQueries lam).map ask)).1.count = lam :=
  memo_count_prv_eq memoize fixer backing ask hinj lam

/-! ### only the asked values matter -/

/-- k-ARV / lambda-TSF: changing the never-asked values changes neither the simulated valuation (as a
function of the position) nor the questions asked -/
theorem C15_threshold_congr (floor : Rat) (vals vals' : Nat → Rat) (m : Nat) (lams : List Rat)
    (hag : ∀ q ∈ simQueries vals m lams, vals' q = vals q) :
    simulate floor vals' m lams = simulate floor vals m lams ∧
      simQueries vals' m lams = simQueries vals m lams :=
  simulate_congr floor vals vals' m lams hag

theorem C15_two_sided_congr (vals vals' : Nat → Rat) (m : Nat) (lams : List Rat)
    (hag : ∀ q ∈ simQueries2 vals m lams, vals' q = vals q) :
    simulate2 vals' m lams = simulate2 vals m lams ∧
      simQueries2 vals' m lams = simQueries2 vals m lams :=
  simulate2_congr vals vals' m lams hag

theorem C15_m2q_congr (floor : Rat) (vals vals' : Nat → Rat) (p : Nat)
    (hag : ∀ q ∈ m2qQueries p, vals' q = vals q) :
    m2qAgent floor vals' p = m2qAgent floor vals p :=
  m2q_congr floor vals vals' p hag

theorem C15_prv_congr (vals vals' : Nat → Rat) (lam : Nat)
    (hag : ∀ q ∈ prvQueries lam, vals' q = vals q) : prvAgent vals' lam = prvAgent vals lam :=
  prv_congr vals vals' lam hag

/-- whole profiles, and hence every outcome computed from the simulated profile (the k-ARV winner, the
maximum-weight matching of lambda-TSF, …): `outcome` is any function of the simulated profile -/
theorem C15_outcome_congr {Out : Type} (outcome : (Nat → Option (Nat → Rat)) → Out)
    (floor : Rat) (vals vals' : Nat → Nat → Rat) (m : Nat) (lams : List Rat)
    (hag : ∀ i, ∀ q ∈ simQueries (vals i) m lams, vals' i q = vals i q) :
    outcome (fun i => simulate floor (vals' i) m lams) = outcome (fun i => simulate floor (vals i) m lams) := by
  congr 1
  funext i
  exact (simulate_congr floor (vals i) (vals' i) m lams (hag i)).1

/-! ### non-vacuity: a backing function that answers differently every time it is asked -/

namespace C15Example

/-- answers `k` the `k`-th time any question is forwarded -/
def fickle : Nat × Nat → Nat → Rat := fun _ k => (k : Rat)

/-- memoising, `index_fixer = 1`: the repeat of `(0,1)` is not forwarded, the counter is 2 -/
example : (runOps true 1 fickle ElSt.init [(0, 1), (0, 1), (2, 0), (0, 1)]).1.forwarded = [(1, 2), (3, 1)] ∧
    (runOps true 1 fickle ElSt.init [(0, 1), (0, 1), (2, 0), (0, 1)]).1.count = 2 := by
  decide

/-- memoising: every answer is the FIRST answer (here 0 — a memoised 0 is still a hit);
not memoising: the fickle backing function shows through -/
example : (runOps true 1 fickle ElSt.init [(0, 1), (0, 1), (2, 0), (0, 1)]).2 = [0, 0, 0, 0] ∧
    (runOps false 1 fickle ElSt.init [(0, 1), (0, 1), (2, 0), (0, 1)]).2 = [0, 1, 0, 2] := by
  decide

/-- not memoising: all four questions forwarded -/
example : (runOps false 1 fickle ElSt.init [(0, 1), (0, 1), (2, 0), (0, 1)]).1.forwarded =
    [(1, 2), (1, 2), (3, 1), (1, 2)] := by
  decide

/-- queries of the binary search for `m = 4` with one threshold: favourite, then positions 2 and 1 -/
example : simQueries (fun q => if q = 0 then 1 else 0) 4 [2] = [0, 2, 1] ∧
    Nat.clog 2 4 = 2 := by
  constructor
  · simp [simQueries, bsearchQ, geThr]
    decide
  · decide

end C15Example
