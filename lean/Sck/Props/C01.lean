import Sck.Proofs.GsHR

/-! # C01 — Gale–Shapley returns a feasible matching with no blocking pair
Property theorems only (helper lemmas live in `Sck/Proofs`). -/

/-- resident-oriented deferred acceptance on rank matrices: no blocking pair, for every instance size -/
theorem C01_gsRes_no_blocking (I : HR) (hwf : I.WF) (mu : List (Nat × Nat)) (h : gsRes I = some mu) :
    ∀ r hh, ¬ BlockingHR I mu r hh :=
  gsRes_no_blocking I hwf mu h
