import Sck.Proofs.GsExample

/-! # C01 — deferred acceptance returns a feasible matching with no blocking pair
Property theorems only (helper lemmas live in `Sck/Proofs/Gs*.lean`, `Sck/Proofs/DA*.lean`).

Vocabulary: `I : HR` is the instance on rank matrices (`none` = NaN = unacceptable);
`I.WF2` = dimensions agree and every row of `I.R` and `I.H` is strict (decidable, `HR.wfB`);
a matching is a list of (resident, hospital) pairs; `heldBy mu h` = residents paired with `h`;
`BlockingHR I mu r h` is the property's blocking pair, verbatim. Capacities need not be positive. -/

/-- **C01, public rule.** For either orientation `ro` and either index convention `fixer`,
`galeShapley` returns (the model's fuel `n * m + 1` suffices), and its result is the label shift of a
list `mu` of (resident, hospital) pairs such that: no pair is repeated, all labels are in range,
every resident appears at most once, no hospital holds more residents than its capacity, every
matched pair is mutually acceptable, and there is no blocking pair. -/
theorem C01_galeShapley (ro : Bool) (fixer : Nat) (I : HR) (hwf : I.WF2) :
    ∃ mu : List (Nat × Nat),
      galeShapley ro fixer I = some (mu.map (fun e => (e.1 + fixer, e.2 + fixer))) ∧
      mu.Nodup ∧
      (∀ r h, (r, h) ∈ mu → r < I.n ∧ h < I.m) ∧
      (∀ r h h', (r, h) ∈ mu → (r, h') ∈ mu → h = h') ∧
      (∀ h, (heldBy mu h).length ≤ I.cap.getD h 0) ∧
      (∀ r h, (r, h) ∈ mu → rankAt I.R r h ≠ none ∧ rankAt I.H h r ≠ none) ∧
      (∀ r h, ¬ BlockingHR I mu r h) := by
  obtain ⟨mu, hout, hst⟩ := galeShapley_spec ro fixer I hwf
  exact ⟨mu, hout, hst.1.nodup, fun r h hm => hst.1.bounds hwf hm, hst.1.resOnce, hst.1.cap, hst.1.acc, hst.2⟩

/-- **C01, resident-oriented branch**: it terminates within the fuel, and whatever it returns is
feasible (`FeasibleHR`: the four matching clauses above) and has no blocking pair. -/
theorem C01_gsRes (I : HR) (hwf : I.WF2) :
    (∃ mu, gsRes I = some mu) ∧
    ∀ mu, gsRes I = some mu → FeasibleHR I mu ∧ ∀ r h, ¬ BlockingHR I mu r h :=
  ⟨gsRes_terminates I hwf, fun mu h => gsRes_stable I hwf mu h⟩

/-- **C01, hospital-oriented branch**, same statement with the same blocking-pair predicate. -/
theorem C01_gsHosp (I : HR) (hwf : I.WF2) :
    (∃ mu, gsHosp I = some mu) ∧
    ∀ mu, gsHosp I = some mu → FeasibleHR I mu ∧ ∀ r h, ¬ BlockingHR I mu r h :=
  ⟨gsHosp_terminates I hwf, fun mu h => gsHosp_stable I hwf mu h⟩

/-- what `FeasibleHR` says, spelled out -/
theorem C01_feasibleHR_iff (I : HR) (mu : List (Nat × Nat)) :
    FeasibleHR I mu ↔
      mu.Nodup ∧ (∀ r h h', (r, h) ∈ mu → (r, h') ∈ mu → h = h') ∧
      (∀ h, (heldBy mu h).length ≤ I.cap.getD h 0) ∧
      (∀ r h, (r, h) ∈ mu → rankAt I.R r h ≠ none ∧ rankAt I.H h r ≠ none) :=
  ⟨fun h => ⟨h.nodup, h.resOnce, h.cap, h.acc⟩, fun ⟨a, b, c, d⟩ => ⟨a, b, c, d⟩⟩

/-- the Bool checker decides the well-formedness hypothesis -/
theorem C01_wfB_iff (I : HR) : I.wfB = true ↔ I.WF2 := I.wfB_iff

/-! ## non-vacuity: a concrete instance (3 residents, 2 hospitals, NaN on both sides, capacities 1, 2) -/

example : exI.WF2 := exI.wfB_sound (by decide)
example : exI.WF2 := by decide
example : galeShapley true 1 exI = some [(1, 2), (3, 2), (2, 1)] := by
  rw [galeShapley_eq, if_pos rfl, exI_gsRes]; rfl
example : galeShapley false 0 exI = some [(2, 1), (0, 1), (1, 0)] := by
  rw [galeShapley_eq, if_neg (by decide), exI_gsHosp]; rfl
/-- the checker rejects a tie -/
example : ¬ ({ exI with R := [[some 1, some 1], [some 1, none], [some 2, some 1]] } : HR).WF2 := by decide

#print axioms C01_galeShapley
#print axioms C01_gsRes
#print axioms C01_gsHosp
