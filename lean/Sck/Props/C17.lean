import Sck.Props.C03

/-! # C17 — two-sided elicitation rule (`DoubleLambdaTSF`) = "simulate, then Irving"

`DoubleLambdaTSF.scf` builds two simulated valuation profiles with the two-sided threshold fill
(`Elicit.simulate2`, one run per agent, in ranking-position space), casts them with `astype(int)` and calls
`Irving.scf` with them AND the ordinal profiles.  So the certificate layer of C03 applies with `V1`, `V2` the
simulated integer valuations; `dtsf_sim_int` shows that the cast is lossless for integer answers.
Property theorems only. -/

open Finset

/-- **C17 (integrality of the simulated values).**  If every true value `vals q` is an integer then so is every
two-sided simulated value (each one is `vals 0`, some `vals p`, or `0`), so `v_tilde.astype(int)` is exact.
(Holds for arbitrary `vals`; antitonicity and non-negativity are not needed for this.) -/
theorem dtsf_sim_int (vals : Nat → Rat) (m : Nat) (lams : List Rat) (sim : Nat → Rat)
    (hint : ∀ q, ∃ z : Int, vals q = z)
    (h : Elicit.simulate2 vals m lams = some sim) : ∀ q, ∃ z : Int, sim q = z := by
  intro q
  rcases simulate2_values vals m lams sim h q with h0 | ⟨p, hp⟩
  · exact ⟨0, by rw [h0]; rfl⟩
  · obtain ⟨z, hz⟩ := hint p
    exact ⟨z, by rw [hp, hz]⟩

/-- **C17 (the integer profile handed to Irving exists and equals the simulated one).**  `vals a q` = true value of
agent `a` for the alternative at position `q` of its ranking, `pos a b` = position of `b` in `a`'s ranking,
`sim a` = the two-sided simulation of agent `a`.  For integer answers there is an integer matrix `V` with
`V[a, b] = sim a (pos a b)` exactly. -/
theorem C17_sim_matrix (n : Nat) (vals : Fin n → Nat → Rat) (lams : List Rat) (sim : Fin n → Nat → Rat)
    (pos : Fin n → Fin n → Nat)
    (hint : ∀ a q, ∃ z : Int, vals a q = z)
    (h : ∀ a, Elicit.simulate2 (vals a) n lams = some (sim a)) :
    ∃ V : List (List Int), ∀ a b : Fin n, sim a (pos a b) = (intOf V a b : Int) := by
  have hz : ∀ a b : Fin n, ∃ z : Int, sim a (pos a b) = z :=
    fun a b => dtsf_sim_int (vals a) n lams (sim a) (hint a) (h a) (pos a b)
  choose z hz using hz
  exact ⟨List.ofFn (fun a : Fin n => List.ofFn (fun b : Fin n => z a b)),
    fun a b => by rw [intOf_ofFn]; exact hz a b⟩

/-- **C17 (certificate soundness).**  `S1 a b`, `S2 b a` are the simulated values (rationals), `V1`, `V2` the integer
matrices handed to Irving (`hV1`, `hV2`: equal entrywise, cf. `C17_sim_matrix`).  If the checker accepts then
`mu` is a perfect matching, stable w.r.t. the two ordinal profiles, and its total simulated value is maximal
among all stable matchings of the instance. -/
theorem C17_cert_sound (n : Nat) (P1 P2 : List (List Nat)) (V1 V2 : List (List Int)) (mu inv : List Nat)
    (alpha beta : List Rat) (y : List (List Rat))
    (S1 S2 : Fin n → Fin n → Rat)
    (hV1 : ∀ a b : Fin n, S1 a b = (intOf V1 a b : Int)) (hV2 : ∀ b a : Fin n, S2 b a = (intOf V2 b a : Int))
    (hok : smCertOk n P1 P2 V1 V2 mu inv alpha beta y = true) :
    ∃ hp : isPermWith n mu inv = true,
      StableSM (fun a b : Fin n => rankOf P1 a b) (fun b a : Fin n => rankOf P2 b a) (permOfLists n mu inv hp) ∧
      ∀ ν : Equiv.Perm (Fin n),
        StableSM (fun a b : Fin n => rankOf P1 a b) (fun b a : Fin n => rankOf P2 b a) ν →
        ∑ a : Fin n, (S1 a (ν a) + S2 (ν a) a)
          ≤ ∑ a : Fin n, (S1 a (permOfLists n mu inv hp a) + S2 (permOfLists n mu inv hp a) a) := by
  obtain ⟨hp, hst, hopt⟩ := C03_cert_sound n P1 P2 V1 V2 mu inv alpha beta y hok
  refine ⟨hp, hst, fun ν hν => ?_⟩
  have := hopt ν hν
  simp only [hV1, hV2]
  exact_mod_cast this

/-! ## Non-vacuity -/

/-- one agent with integer values `8 ≥ 4 ≥ 2 ≥ 1` over 4 alternatives, one threshold `lam = 2`:
the simulation succeeds and yields `8, 4, 0, 0` -/
example : (Elicit.simulate2 (fun q => [8, 4, 2, 1].getD q 0) 4 [2]).map (fun s => [s 0, s 1, s 2, s 3])
    = some [8, 4, 0, 0] := by decide +kernel
