import Sck.Proofs.VotingRank
import Sck.Proofs.VotingLaws

/-! # C10 — scoring rules: score formulas, winners = alternatives of maximal score, ranking output
Property theorems only (helper lemmas live in `Sck/Proofs/Voting*.lean`).

A profile is a list of ballots, `row.getD j 0` is the voter's rank of alternative `j`; for the profiles the
property speaks about (`wfB P m = true`: every ballot is a permutation of `1..m`) and `j < m` the default of
`getD` is never used. -/

open Vote

/-! ## score formulas -/

/-- Plurality: `Σ_voters 1[r = 1]` -/
theorem C10_plurality_score (P : Profile) {m j : Nat} (hj : j < m) :
    (plurality P m)[j]? = some ((P.map (fun row => if row.getD j 0 = 1 then (1 : Int) else 0)).sum) :=
  positional_get pluralityW P hj

/-- Borda: `Σ_voters (m − r)` -/
theorem C10_borda_score (P : Profile) {m j : Nat} (hj : j < m) :
    (borda P m)[j]? = some ((P.map (fun row => (m : Int) - ((row.getD j 0 : Nat) : Int))).sum) :=
  positional_get (bordaW m) P hj

/-- Veto: `Σ_voters 1[r < m]` -/
theorem C10_veto_score (P : Profile) {m j : Nat} (hj : j < m) :
    (veto P m)[j]? = some ((P.map (fun row => if row.getD j 0 < m then (1 : Int) else 0)).sum) :=
  positional_get (vetoW m) P hj

/-- k-approval: `Σ_voters 1[r ≤ k]` -/
theorem C10_kApproval_score (k : Nat) (P : Profile) {m j : Nat} (hj : j < m) :
    (kApproval k P m)[j]? = some ((P.map (fun row => if row.getD j 0 ≤ k then (1 : Int) else 0)).sum) :=
  positional_get (kApprovalW k) P hj

/-- Harmonic: `Σ_voters 1/r`, exactly -/
theorem C10_harmonic_score (P : Profile) {m j : Nat} (hj : j < m) :
    (harmonic P m)[j]? = some ((P.map (fun row => (1 : Rat) / ((row.getD j 0 : Nat) : Rat))).sum) :=
  harmonic_get P hj

/-- every score vector has one entry per alternative -/
theorem C10_score_length (w : Nat → Int) (P : Profile) (m : Nat) :
    (positional w P m).length = m ∧ (harmonic P m).length = m ∧ (copeland P m).length = m :=
  ⟨positional_length w P m, harmonic_length P m, copeland_length P m⟩

/-- utilitarian: the score of `j` is its share of the total utility (missing entries count 0); the shares
add up to one; there is no score vector exactly when the total utility is 0 -/
theorem C10_utilitarian_score {V : List (List (Option Rat))} {m : Nat} {sh : List Rat}
    (hV : valsB V m = true) (h : utilitarian V m = some sh) :
    sh.length = m ∧
    (∀ j, j < m → sh[j]? = some (nanSum (V.map (fun row => row.getD j none)) / (V.map nanSum).sum)) ∧
    sh.sum = 1 :=
  utilitarian_spec hV h

theorem C10_utilitarian_none (V : List (List (Option Rat))) (m : Nat) :
    utilitarian V m = none ↔ (V.map nanSum).sum = 0 :=
  utilitarian_none_iff V m

/-! ## cross-rule laws on complete strict profiles -/

/-- soundness of the decidable well-formedness checks -/
theorem C10_wfB_iff {P : Profile} {m : Nat} :
    wfB P m = true ↔ ∀ row ∈ P, row.Perm (List.range' 1 m) := wfB_iff

theorem C10_rankedB_iff {P : Profile} {m : Nat} :
    rankedB P m = true ↔ ∀ row ∈ P, row.length = m ∧ ∀ r ∈ row, 1 ≤ r ∧ r ≤ m := rankedB_iff

theorem C10_rankedB_of_wfB {P : Profile} {m : Nat} (h : wfB P m = true) : rankedB P m = true :=
  rankedB_of_wfB h

/-- the scores of any positional rule add up to `n · Σ_{r=1..m} w r` -/
theorem C10_positional_sum (w : Nat → Int) {P : Profile} {m : Nat} (hP : wfB P m = true) :
    (positional w P m).sum = P.length * ((List.range' 1 m).map w).sum :=
  sum_positional_wf w hP

/-- `Σ_j plurality j = n` -/
theorem C10_plurality_sum {P : Profile} {m : Nat} (hP : wfB P m = true) (hm : 0 < m) :
    (plurality P m).sum = P.length :=
  plurality_sum hP hm

/-- `borda j = m·n − Σ_voters r_j` -/
theorem C10_borda_formula (P : Profile) {m j : Nat} (hj : j < m) :
    (borda P m)[j]? = some ((m : Int) * P.length - (P.map (fun row => ((row.getD j 0 : Nat) : Int))).sum) :=
  borda_get P hj

/-- `veto j = n − #{voters ranking j last}` -/
theorem C10_veto_formula {P : Profile} {m j : Nat} (hP : rankedB P m = true) (hj : j < m) :
    (veto P m)[j]? = some ((P.length : Int) - ((col P j).filter (· == m)).length) :=
  veto_get hP hj

/-- `kApproval 1 = plurality` -/
theorem C10_kApproval_one {P : Profile} {m : Nat} (hP : rankedB P m = true) :
    kApproval 1 P m = plurality P m :=
  kApproval_one hP

/-- `kApproval (m−1) = veto` -/
theorem C10_kApproval_pred (P : Profile) (m : Nat) : kApproval (m - 1) P m = veto P m :=
  kApproval_pred P m

/-- `m ≤ k → kApproval k j = n` -/
theorem C10_kApproval_all {P : Profile} {m k j : Nat} (hP : rankedB P m = true) (hk : m ≤ k) (hj : j < m) :
    (kApproval k P m)[j]? = some (P.length : Int) :=
  kApproval_all hP hk hj

/-- `Σ_j harmonic j = n · H_m` -/
theorem C10_harmonic_sum {P : Profile} {m : Nat} (hP : wfB P m = true) :
    (harmonic P m).sum = P.length * harmonicNumber m :=
  harmonic_sum hP

/-- Harmonic summed by voter equals Harmonic summed by rank (the histogram form) -/
theorem C10_harmonic_eq_hist {P : Profile} {m j : Nat} (hP : rankedB P m = true) (hj : j < m) :
    (harmonic P m)[j]? = some (harmonicOfHist (hist P m j)) :=
  harmonic_eq_hist hP hj

/-! ## winners -/

/-- the winners are exactly the positions of maximal score -/
theorem C10_winnersI_iff {s : List Int} {j : Nat} :
    j ∈ winnersI s ↔ ∃ hj : j < s.length, ∀ k (hk : k < s.length), s[k] ≤ s[j] := winnersI_iff

theorem C10_winnersQ_iff {s : List Rat} {j : Nat} :
    j ∈ winnersQ s ↔ ∃ hj : j < s.length, ∀ k (hk : k < s.length), s[k] ≤ s[j] := winnersQ_iff

theorem C10_winnersI_iff_getD {s : List Int} {j : Nat} :
    j ∈ winnersI s ↔ j < s.length ∧ ∀ k < s.length, s.getD k 0 ≤ s.getD j 0 := winnersI_iff_getD

theorem C10_winnersQ_iff_getD {s : List Rat} {j : Nat} :
    j ∈ winnersQ s ↔ j < s.length ∧ ∀ k < s.length, s.getD k 0 ≤ s.getD j 0 := winnersQ_iff_getD

/-- listed in strictly increasing order (in particular without repetition) -/
theorem C10_winnersI_sorted (s : List Int) : (winnersI s).Pairwise (· < ·) := winnersI_sorted s
theorem C10_winnersQ_sorted (s : List Rat) : (winnersQ s).Pairwise (· < ·) := winnersQ_sorted s

/-- there is always a winner when there is an alternative -/
theorem C10_winnersI_nonempty {s : List Int} (h : s ≠ []) : winnersI s ≠ [] := winnersI_nonempty h
theorem C10_winnersQ_nonempty {s : List Rat} (h : s ≠ []) : winnersQ s ≠ [] := winnersQ_nonempty h

/-- what the social choice function reports with tie-breaker "accept": exactly the (index-shifted) alternatives
of maximal score -/
theorem C10_scfI_accept (fixer : Nat) (s : List Int) :
    ∃ out, scfI fixer .accept s = some out ∧
      ∀ x, x ∈ out ↔ ∃ j, x = j + fixer ∧ ∃ hj : j < s.length, ∀ k (hk : k < s.length), s[k] ≤ s[j] := by
  refine ⟨_, scfI_accept fixer s, fun x => ?_⟩
  rw [mem_shift]
  constructor
  · rintro ⟨a, ha, rfl⟩; exact ⟨a, rfl, winnersI_iff.1 ha⟩
  · rintro ⟨j, rfl, h⟩; exact ⟨j, winnersI_iff.2 h, rfl⟩

theorem C10_scfQ_accept (fixer : Nat) (s : List Rat) :
    ∃ out, scfQ fixer .accept s = some out ∧
      ∀ x, x ∈ out ↔ ∃ j, x = j + fixer ∧ ∃ hj : j < s.length, ∀ k (hk : k < s.length), s[k] ≤ s[j] := by
  refine ⟨_, scfQ_accept fixer s, fun x => ?_⟩
  rw [mem_shift]
  constructor
  · rintro ⟨a, ha, rfl⟩; exact ⟨a, rfl, winnersQ_iff.1 ha⟩
  · rintro ⟨j, rfl, h⟩; exact ⟨j, winnersQ_iff.2 h, rfl⟩

/-! ## ranking output -/

/-- meaning of the ranking checker: the reported alternatives are `fixer, …, fixer+m−1`, each exactly once;
every entry is paired with the score of its alternative; the scores never increase along the output -/
theorem C10_validRankingI_spec (fixer : Nat) (s : List Int) (out : List (Nat × Int)) :
    validRankingI fixer s out = true ↔
      (out.map Prod.fst).Perm ((List.range s.length).map (· + fixer)) ∧
      (∀ e ∈ out, ∃ (j : Nat) (hj : j < s.length), e = (j + fixer, s[j])) ∧
      out.Pairwise (fun a b => b.2 ≤ a.2) := by
  rw [validRankingI_spec]
  exact ⟨fun h => ⟨h.perm, h.score, h.sorted⟩, fun h => ⟨h.1, h.2.1, h.2.2⟩⟩

theorem C10_validRankingQ_spec (fixer : Nat) (s : List Rat) (out : List (Nat × Rat)) :
    validRankingQ fixer s out = true ↔
      (out.map Prod.fst).Perm ((List.range s.length).map (· + fixer)) ∧
      (∀ e ∈ out, ∃ (j : Nat) (hj : j < s.length), e = (j + fixer, s[j])) ∧
      out.Pairwise (fun a b => b.2 ≤ a.2) := by
  rw [validRankingQ_spec]
  exact ⟨fun h => ⟨h.perm, h.score, h.sorted⟩, fun h => ⟨h.1, h.2.1, h.2.2⟩⟩

/-- the ranking produced by the model of `swf` passes the checker, for every score vector -/
theorem C10_swfI_valid (fixer : Nat) (s : List Int) : validRankingI fixer s (swfI fixer s) = true :=
  swfI_valid fixer s

/-! ## non-vacuity on a concrete 3-voter, 3-alternative profile -/

/-- the example profile: voter 1 ranks a0 > a1 > a2, voter 2 ranks a1 > a0 > a2, voter 3 ranks a0 > a2 > a1 -/
def C10_P0 : Profile := [[1, 2, 3], [2, 1, 3], [1, 3, 2]]

example : wfB C10_P0 3 = true := by decide
example : rankedB C10_P0 3 = true := by decide
example : plurality C10_P0 3 = [2, 1, 0] := by decide
example : borda C10_P0 3 = [5, 3, 1] := by decide
example : veto C10_P0 3 = [3, 2, 1] := by decide
example : kApproval 2 C10_P0 3 = [3, 2, 1] := by decide
example : harmonic C10_P0 3 = [5 / 2, 11 / 6, 7 / 6] := by decide +kernel
example : harmonicNumber 3 = 11 / 6 := by decide +kernel
example : hist C10_P0 3 0 = [2, 1, 0] := by decide
example : winnersI (borda C10_P0 3) = [0] := by decide
example : winnersI [2, 2, 0] = [0, 1] := by decide
example : scfI 1 .accept [2, 2, 0] = some [1, 2] := by decide
example : swfI 1 (borda C10_P0 3) = [(1, 5), (2, 3), (3, 1)] := by decide
example : swfI 1 [1, 5, 5] = [(3, 5), (2, 5), (1, 1)] := by decide
example : validRankingI 1 [1, 5, 5] [(3, 5), (2, 5), (1, 1)] = true := by decide
example : validRankingI 1 [1, 5, 5] [(3, 5), (1, 1), (2, 5)] = false := by decide
example : valsB [[some 1, some 2, none], [some 3, none, some 2]] 3 = true := by decide
example : utilitarian [[some 1, some 2, none], [some 3, none, some 2]] 3 = some [1 / 2, 1 / 4, 1 / 4] := by
  decide +kernel
