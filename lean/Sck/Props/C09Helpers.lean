import Sck.Proofs.FlowHelpers

/-! # C09 — the helpers that build the inputs of the matching routine

`Sck/Model/FlowHelpers.lean` mirrors

* `FH.convert G X Y`       — `flow.convert_bipartite_graph_to_flow_network(G, X, Y)` (`G : FH.BGraph` = the dict
  `{u: [v, …]}` in dict order; the result is a `Dfs.Graph` = the dict `{u: [(v, c), …]}` in dict order);
* `FH.positivityGraph X`   — `bistochastic.positivity_graph(X)` for the array with the rows `X` (exact
  rationals; `.error "IndexError"` when the code raises).

Vocabulary: `bipNet X Y adj` — the unit network `s → X → Y → t` (`s = -1`, `t = -2`) on which the model's `mcm`
runs `ff` (`Sck/Model/Mcm.lean`); `adjOf G v` — `G.get(v, [])`; `Dfs.netToG N` — the dict of a network (keys in
the order of `N.verts`, entries in the order of `N.edges`); `BipEdge X Y adj u v` — `(u ∈ X ∧ v ∈ adj u) ∨
(u = -1 ∧ v ∈ X) ∨ (u ∈ Y ∧ v = -2)` (`Sck/Proofs/McmNet.lean`); `FH.keysB g` — the keys of the dict `g`;
`matGet X i j` — the entry `X[i][j]`; `isSquareB n X` — `X` has `n` rows of length `n`; `positivityAdj`,
`posKeysOkB`, `rowVerts` — the positivity graph as the model of `birkhoff_von_neumann` sees it
(`Sck/Model/BvnFull.lean`).

Property theorems only (helper lemmas live in `Sck/Proofs/FlowHelpers3.lean`, `FlowHelpers4.lean`). -/

/-- **`convert_bipartite_graph_to_flow_network` builds exactly the model's network.**  When the two sides are
duplicate-free, disjoint and do not use the reserved names `-1`, `-2`, the returned dict IS the dict of the unit
network `bipNet X Y (adjOf G)` used by the model's `mcm`: same keys in the same order (`X`, `-1`, `-2`, `Y`), same
adjacency lists in the same order, every capacity `1`.  Nothing is assumed about `G`: the lists it holds for
the right vertices are never read (directed and undirected encodings give the same network), and a left
vertex that is not a key of `G` simply has no edge. -/
theorem C09_convert_spec (G : FH.BGraph) (X Y : List Int)
    (hnd : (X ++ Y).Nodup) (hs : (-1 : Int) ∉ X ++ Y) (ht : (-2 : Int) ∉ X ++ Y) :
    FH.convert G X Y = Dfs.netToG (bipNet X Y (adjOf G)) :=
  FH.convert_eq_netToG G X Y ((FH.sidesOK_iff X Y).mpr ⟨hnd, hs, ht⟩)

/-- the same under the decidable well-formedness check of C09 -/
theorem C09_convert_spec_of_bipWfB (G : FH.BGraph) (X Y : List Int) (hwf : bipWfB X Y (adjOf G) = true) :
    FH.convert G X Y = Dfs.netToG (bipNet X Y (adjOf G)) :=
  FH.convert_eq_netToG G X Y (FH.SidesOK.of_bipWF ((bipWfB_iff X Y (adjOf G)).mp hwf))

/-- **Edge-level reading.**  Vertex set `X ∪ {-1, -2} ∪ Y` (in that key order); `(v, c)` is an entry of `u` iff
`c = 1` and `u → v` is an edge `x → y` of the graph with `x` on the left, or `-1 → x`, or `y → -2`. -/
theorem C09_convert_edges (G : FH.BGraph) (X Y : List Int)
    (hnd : (X ++ Y).Nodup) (hs : (-1 : Int) ∉ X ++ Y) (ht : (-2 : Int) ∉ X ++ Y) :
    Dfs.keys (FH.convert G X Y) = X ++ [-1, -2] ++ Y ∧
    ∀ u v c, (v, c) ∈ Dfs.adj (FH.convert G X Y) u ↔ c = 1 ∧ BipEdge X Y (adjOf G) u v :=
  FH.convert_edges G X Y ((FH.sidesOK_iff X Y).mpr ⟨hnd, hs, ht⟩)

/-- **Specification of `positivity_graph` on an `n × n` matrix.**  No exception; the returned dict has distinct
keys, all of them row vertices `0 … n-1` or column vertices `n … 2n-1`; a vertex is a key iff it has an edge;
the list of the row vertex `i` is `[j + n | X[i][j] > 0]` by increasing `j`, the list of the column vertex
`j + n` is `[i | X[i][j] > 0]` by increasing `i`; hence `i — (j + n)` is an edge (in both directions) iff
`X[i][j] > 0`, with an EXACT comparison (no tolerance: any positive entry, however tiny, is an edge). -/
theorem C09_positivity_spec (n : Nat) (X : List (List Rat)) (hsq : isSquareB n X = true) :
    ∃ g, FH.positivityGraph X = .ok g ∧
      (FH.keysB g).Nodup ∧
      (∀ k, k ∈ FH.keysB g ↔ adjOf g k ≠ []) ∧
      (∀ k ∈ FH.keysB g, 0 ≤ k ∧ k < 2 * (n : Int)) ∧
      (∀ i, i < n → adjOf g (i : Int) =
        ((List.range n).filter (fun j => decide (0 < matGet X i j))).map (fun j => ((j + n : Nat) : Int))) ∧
      (∀ j, j < n → adjOf g ((j + n : Nat) : Int) =
        ((List.range n).filter (fun i => decide (0 < matGet X i j))).map (fun i : Nat => (i : Int))) ∧
      (∀ i j, i < n → j < n → (((j + n : Nat) : Int) ∈ adjOf g (i : Int) ↔ 0 < matGet X i j) ∧
        ((i : Int) ∈ adjOf g ((j + n : Nat) : Int) ↔ 0 < matGet X i j)) :=
  FH.positivity_spec n X hsq

/-- **The model of `birkhoff_von_neumann` sees the same graph.**  For an `n × n` matrix, the adjacency list that
`maximum_cardinality_matching_bipartite` reads for every left vertex is the `positivityAdj` of
`Sck/Model/BvnFull.lean`, and `check_bipartite_graph(G_X, range(n), range(n, 2n))` finds the keys consistent
(every vertex `0 … 2n-1` is a key) iff `posKeysOkB`. -/
theorem C09_positivity_eq_model (n : Nat) (X : List (List Rat)) (hsq : isSquareB n X = true) :
    ∃ g, FH.positivityGraph X = .ok g ∧
      (∀ v ∈ rowVerts n, adjOf g v = positivityAdj n X v) ∧
      (posKeysOkB n X = true ↔ ∀ k : Int, 0 ≤ k → k < 2 * (n : Int) → k ∈ FH.keysB g) :=
  ⟨FH.posGraph n X, FH.positivityGraph_eq n X hsq, FH.adjOf_posGraph_eq_positivityAdj n X,
    FH.posKeysOkB_iff n X⟩

/-! ### the hypotheses are satisfiable on concrete non-trivial instances; behavioural observations -/

/-- the instance of C09 (left `10 … 13`, right `20 … 23`, `13` and `23` isolated, undirected encoding) -/
example : (exBipX ++ exBipY).Nodup ∧ (-1 : Int) ∉ exBipX ++ exBipY ∧ (-2 : Int) ∉ exBipX ++ exBipY := by decide
example : bipWfB exBipX exBipY (adjOf exBipG) = true := by decide
example : FH.convert exBipG exBipX exBipY =
    [(10, [(20, 1)]), (11, [(20, 1)]), (12, [(20, 1), (21, 1), (22, 1)]), (13, []),
     (-1, [(10, 1), (11, 1), (12, 1), (13, 1)]), (-2, []),
     (20, [(-2, 1)]), (21, [(-2, 1)]), (22, [(-2, 1)]), (23, [(-2, 1)])] := by decide
/-- the directed encoding (no lists for the right vertices, the isolated left vertex `13` not even a key) gives
the same network -/
example : FH.convert [(10, [20]), (11, [20]), (12, [20, 21, 22])] exBipX exBipY =
    FH.convert exBipG exBipX exBipY := by decide
/-- outside the hypotheses later assignments overwrite earlier ones in place: a vertex on both sides keeps
only its edge to the sink, `-1` as a left vertex loses its own edges, `-2` as a right vertex gets a self loop -/
example : FH.convert [(1, [2])] [1, 1, -1] [2, -2, 1] =
    [(1, [(-2, 1)]), (-1, [(1, 1), (1, 1), (-1, 1)]), (-2, [(-2, 1)]), (2, [(-2, 1)])] := by decide
/-- a 3 × 3 bistochastic matrix: keys in the order of first insertion -/
example : isSquareB 3 [[1/2, 0, 1/2], [0, 1, 0], [1/2, 0, 1/2]] = true := by decide
example : FH.positivityGraph [[1/2, 0, 1/2], [0, 1, 0], [1/2, 0, 1/2]] =
    .ok [(0, [3, 5]), (3, [0, 2]), (5, [0, 2]), (1, [4]), (4, [1]), (2, [3, 5])] := by decide +kernel
/-- no tolerance: an entry `10⁻³⁰` is an edge, a negative entry is not; a row / column without positive entry
is not a key (so `check_bipartite_graph` rejects the graph: `posKeysOkB` is `false`) -/
example : FH.positivityGraph [[1/1000000000000000000000000000000, 0], [-1, 0]] = .ok [(0, [2]), (2, [0])] := by
  decide +kernel
example : posKeysOkB 2 [[1/1000000000000000000000000000000, 0], [-1, 0]] = false := by decide +kernel
/-- only `X.shape[0]` is read: fewer columns than rows is an `IndexError`, surplus columns are ignored -/
example : FH.positivityGraph [[1], [0]] = .error "IndexError" := by decide +kernel
example : FH.positivityGraph [[0, 0, 5], [0, 1, 5]] = .ok [(1, [3]), (3, [1])] := by decide +kernel
example : FH.positivityGraph [] = .ok [] := by decide
