import Sck.Proofs.CertProof
import Sck.Proofs.Hall

/-! # C04 — maximum-weight allocation: certificate layer (translation validation)

The solver itself (scipy's C++ `min_weight_full_bipartite_matching`) is not modelled.  Every output of the real
code is certified instead:
* a returned assignment `sigma` comes with dual potentials `u`, `v` (and a slack `delta`, `0` for exact
  certificates) accepted by the executable checker `assignCertOk`;
* a raised "no full matching" error comes with a Hall violator `S` accepted by `hallCertOk`.
Property theorems only. -/

open Finset

/-- **C04, feasible case.**  If the checker accepts `(w, sigma, inv, u, v, delta)` then `sigma` is a bijection of
`0..n-1` (with inverse `inv`), it uses only acceptable (non-NaN) pairs, and EVERY one-to-one assignment `τ` that
uses only acceptable pairs has total utility at most that of `sigma` plus `n·delta`. -/
theorem C04_cert_sound (n : Nat) (w : List (List (Option Rat))) (sigma inv : List Nat)
    (u v : List Rat) (delta : Rat) (hok : assignCertOk n w sigma inv u v delta = true) :
    ∃ (hp : isPermWith n sigma inv = true)
      (hσ : ∀ i : Fin n, (entry w i (permOfLists n sigma inv hp i)).isSome),
      ∀ (τ : Equiv.Perm (Fin n)) (hτ : ∀ i : Fin n, (entry w i (τ i)).isSome),
        ∑ i : Fin n, (entry w i (τ i)).get (hτ i)
          ≤ ∑ i : Fin n, (entry w i (permOfLists n sigma inv hp i)).get (hσ i) + n * delta := by
  have hp := assignCertOk_perm n w sigma inv u v delta hok
  refine ⟨hp, assignCertOk_acceptable n w sigma inv u v delta hok hp, ?_⟩
  intro τ hτ
  obtain ⟨_, _, h⟩ := assignCertOk_sound n w sigma inv u v delta hok
    (fun i j => (entry w i j).getD 0) (fun i j x hx => by rw [hx]; rfl) τ hτ
  simp only [option_get_eq_getD _ _ (0 : Rat)]
  exact h

/-- **C04, exact certificate (`delta = 0`).**  `sigma` is a maximum-utility one-to-one assignment among all
assignments using only acceptable pairs. -/
theorem C04_cert_optimal (n : Nat) (w : List (List (Option Rat))) (sigma inv : List Nat)
    (u v : List Rat) (hok : assignCertOk n w sigma inv u v 0 = true) :
    ∃ (hp : isPermWith n sigma inv = true)
      (hσ : ∀ i : Fin n, (entry w i (permOfLists n sigma inv hp i)).isSome),
      ∀ (τ : Equiv.Perm (Fin n)) (hτ : ∀ i : Fin n, (entry w i (τ i)).isSome),
        ∑ i : Fin n, (entry w i (τ i)).get (hτ i)
          ≤ ∑ i : Fin n, (entry w i (permOfLists n sigma inv hp i)).get (hσ i) := by
  obtain ⟨hp, hσ, h⟩ := C04_cert_sound n w sigma inv u v 0 hok
  exact ⟨hp, hσ, fun τ hτ => by simpa using h τ hτ⟩

/-- **C04, infeasible case.**  If the checker accepts the Hall violator `S` (distinct agents `< n` whose joint set
of acceptable items is smaller than `S`), then NO one-to-one assignment of acceptable pairs exists — raising
an error is the only correct behaviour. -/
theorem C04_hall_sound (n : Nat) (w : List (List (Option Rat))) (S : List Nat)
    (hok : hallCertOk n w S = true) :
    ¬ ∃ τ : Equiv.Perm (Fin n), ∀ i : Fin n, (entry w i (τ i)).isSome :=
  hallCertOk_sound n w S hok

/-- the two certificates are mutually exclusive (sanity: the checkers cannot both accept) -/
theorem C04_cert_exclusive (n : Nat) (w : List (List (Option Rat))) (sigma inv : List Nat)
    (u v : List Rat) (delta : Rat) (S : List Nat)
    (h1 : assignCertOk n w sigma inv u v delta = true) (h2 : hallCertOk n w S = true) : False := by
  obtain ⟨hp, hσ, _⟩ := C04_cert_sound n w sigma inv u v delta h1
  exact hallCertOk_sound n w S h2 ⟨permOfLists n sigma inv hp, hσ⟩

/-! ## Non-vacuity -/

/-- a 3×3 instance with a zero, a tie and two NaNs; optimum 0→2, 1→0, 2→1 of value 4 + 2 + 3 = 9,
certified with `delta = 0` -/
example : assignCertOk 3
    [[some 3, some 0, some 4], [some 2, none, some 2], [none, some 3, some 3]]
    [2, 0, 1] [1, 2, 0] [3, 1, 2] [1, 1, 1] 0 = true := by decide +kernel

/-- an approximate certificate (`delta = 1/2`): the potentials violate dual feasibility at `(1, 0)` by `1/2`,
so the assignment `0→0, 1→1` (value 4) is certified optimal up to `2 · 1/2` (the other one has value 7/2) -/
example : assignCertOk 2 [[some 3, some 1], [some (5/2), some 1]] [0, 1] [0, 1] [2, 1] [1, 0] (1/2) = true := by
  decide +kernel

/-- agents 0 and 1 both accept only item 0: Hall violator `S = [0, 1]` -/
example : hallCertOk 3 [[some 3, none, none], [some 2, none, none], [some 1, some 1, some 1]] [0, 1] = true := by
  decide +kernel
