import Sck.Proofs.ElicitDistortion
import Sck.Proofs.ElicitHelper
import Mathlib.Tactic.NormNum
import Mathlib.Tactic.FinCases
import Mathlib.Data.Fin.VecNotation

/-! # C16 — distortion of k-ARV and lambda-TSF, and the `distortion` helper

`v : Fin n → Fin m → ℚ` is the true valuation profile, `pos i : Fin m ≃ Fin m` the ranking of agent `i`
(`pos i j` = position of alternative `j`, 0 = favourite), consistency = values antitone in the position.
The simulated profile is *what `simulate` returns* on each agent's values read along its ranking
(`posVals v pos i`); no other hypothesis on it remains.  The thresholds `lams` and the ratio `ρ` are abstract:
`RatioChain m lams ρ` says that `1, λ_1, …, λ_k, m` grows by at most the factor `ρ` per step;
`C16_rpow_thresholds` (in `Sck/Props/C16Real.lean`, a separate import closure: Mathlib's real numbers
declare a global `round` that clashes with `round` of `Sck/Model/DA.lean`) shows that the code's `λ_l = m^(l/(k+1))` do so with `ρ = m^(1/(k+1))`.
Property theorems only (helper lemmas live in `Sck/Proofs`). -/

open Elicit Finset

/-- one agent: `v(q) ≤ ρ·ṽ(q) + (ρ/m)·v(favourite)` at every position, from what `simulate` computes -/
theorem C16_entry_bound (floor : ℚ) (vals : Nat → ℚ) (m : Nat) (lams : List ℚ) (h : SimWF vals m lams)
    (hfl : 0 ≤ floor) (ρ : ℚ) (hchain : RatioChain m lams ρ)
    (sim : Nat → ℚ) (hsim : simulate floor vals m lams = some sim) :
    ∀ q, q < m → vals q ≤ ρ * sim q + ρ / m * vals 0 :=
  sim_entry_bound floor vals m lams h hfl ρ hchain sim hsim

/-- **k-ARV**: the welfare of an alternative `a` with maximal simulated score is at least the welfare of any
alternative `o` (in particular the optimal one) divided by `2ρ` -/
theorem C16_karv {n m : ℕ} (hm : 0 < m) (v : Fin n → Fin m → ℚ) (pos : Fin n → Fin m ≃ Fin m)
    (hv0 : ∀ i j, 0 ≤ v i j) (hcons : ∀ i j j', pos i j ≤ pos i j' → v i j' ≤ v i j)
    (lams : List ℚ) (hge1 : ∀ lam ∈ lams, 1 ≤ lam) (hsorted : lams.Pairwise (· ≤ ·))
    (ρ : ℚ) (hchain : RatioChain m lams ρ)
    (sim : Fin n → Nat → ℚ) (hsim : ∀ i, simulate 0 (posVals v pos i) m lams = some (sim i))
    (a : Fin m) (ha : ∀ j, ∑ i, sim i (pos i j) ≤ ∑ i, sim i (pos i a)) (o : Fin m) :
    (∑ i, v i o) / (2 * ρ) ≤ ∑ i, v i a := by
  have hρ1 := ratioChain_one_le m lams ρ hm hge1 hchain
  rw [div_le_iff₀ (by linarith)]
  have := karv_distortion_sim hm v pos hv0 hcons lams hge1 hsorted ρ hchain sim hsim a ha o
  linarith

/-- **lambda-TSF** (`n` agents, `n` items, floor `ε`; the code: `ε = 1e-5`): the welfare of a
maximum-weight assignment `A` of the simulated profile, plus `n·ε`, is at least the welfare of any
assignment `O` (in particular the optimal one) divided by `2ρ` -/
theorem C16_tsf {n : ℕ} (hn : 0 < n) (v : Fin n → Fin n → ℚ) (pos : Fin n → Fin n ≃ Fin n)
    (hv0 : ∀ i j, 0 ≤ v i j) (hcons : ∀ i j j', pos i j ≤ pos i j' → v i j' ≤ v i j)
    (lams : List ℚ) (hge1 : ∀ lam ∈ lams, 1 ≤ lam) (hsorted : lams.Pairwise (· ≤ ·))
    (ρ ε : ℚ) (hε : 0 ≤ ε) (hchain : RatioChain n lams ρ)
    (sim : Fin n → Nat → ℚ) (hsim : ∀ i, simulate ε (posVals v pos i) n lams = some (sim i))
    (A : Equiv.Perm (Fin n))
    (hA : ∀ B : Equiv.Perm (Fin n), ∑ i, sim i (pos i (B i)) ≤ ∑ i, sim i (pos i (A i)))
    (O : Equiv.Perm (Fin n)) :
    (∑ i, v i (O i)) / (2 * ρ) ≤ ∑ i, v i (A i) + n * ε := by
  have hρ1 := ratioChain_one_le n lams ρ hn hge1 hchain
  rw [div_le_iff₀ (by linarith)]
  have := tsf_distortion_sim hn v pos hv0 hcons lams hge1 hsorted ρ ε hε hchain sim hsim A hA O
  linarith

/-- the hypotheses of `C16_karv` / `C16_tsf` about `sim`, `a`, `A` can always be met: the fill succeeds
for every agent and maximisers exist -/
theorem C16_karv_satisfiable {n m : ℕ} (hm : 0 < m) (v : Fin n → Fin m → ℚ) (pos : Fin n → Fin m ≃ Fin m)
    (hv0 : ∀ i j, 0 ≤ v i j) (hcons : ∀ i j j', pos i j ≤ pos i j' → v i j' ≤ v i j)
    (lams : List ℚ) (hge1 : ∀ lam ∈ lams, 1 ≤ lam) (hsorted : lams.Pairwise (· ≤ ·)) :
    ∃ sim : Fin n → Nat → ℚ, (∀ i, simulate 0 (posVals v pos i) m lams = some (sim i)) ∧
      ∃ a : Fin m, ∀ j, ∑ i, sim i (pos i j) ≤ ∑ i, sim i (pos i a) :=
  karv_sim_winner_exists hm v pos hv0 hcons lams hge1 hsorted 0

theorem C16_tsf_satisfiable {n : ℕ} (hn : 0 < n) (v : Fin n → Fin n → ℚ) (pos : Fin n → Fin n ≃ Fin n)
    (hv0 : ∀ i j, 0 ≤ v i j) (hcons : ∀ i j j', pos i j ≤ pos i j' → v i j' ≤ v i j)
    (lams : List ℚ) (hge1 : ∀ lam ∈ lams, 1 ≤ lam) (hsorted : lams.Pairwise (· ≤ ·)) (ε : ℚ) :
    ∃ sim : Fin n → Nat → ℚ, (∀ i, simulate ε (posVals v pos i) n lams = some (sim i)) ∧
      ∃ A : Equiv.Perm (Fin n), ∀ B : Equiv.Perm (Fin n),
        ∑ i, sim i (pos i (B i)) ≤ ∑ i, sim i (pos i (A i)) :=
  tsf_sim_assignment_exists hn v pos hv0 hcons lams hge1 hsorted ε

/-- **the `distortion` helper** returns `max(score) / score[c]` for a single chosen alternative … -/
theorem C16_distortion_single (scores : List ℚ) (c : Nat) (hc : c < scores.length) :
    distortionOf scores [c] = maxL scores / scores[c] ∧
      maxL scores ∈ scores ∧ ∀ x ∈ scores, x ≤ maxL scores :=
  ⟨distortionOf_single scores c hc,
    maxL_spec scores (by intro h; rw [h] at hc; simp at hc)⟩

/-- … for several chosen alternatives the denominator is the welfare of the worst chosen one … -/
theorem C16_distortion_worst_chosen (scores : List ℚ) (chosen : List Nat) (hne : chosen ≠ [])
    (hin : ∀ c ∈ chosen, c < scores.length) :
    (∃ c, ∃ (_ : c ∈ chosen) (hc : c < scores.length),
        distortionOf scores chosen = maxL scores / scores[c]) ∧
      ∀ c, c ∈ chosen → ∀ hc : c < scores.length,
        minL (chosen.map (fun c => scores.getD c 0)) ≤ scores[c] :=
  distortionOf_denominator scores chosen hne hin

/-- … and the result is never below 1 when the chosen alternatives have positive welfare -/
theorem C16_distortion_ge_one (scores : List ℚ) (chosen : List Nat) (hne : chosen ≠ [])
    (hin : ∀ c ∈ chosen, c < scores.length) (hpos : ∀ c ∈ chosen, 0 < scores.getD c 0) :
    1 ≤ distortionOf scores chosen :=
  distortion_helper_ge_one scores chosen hne hin hpos

/-! ### non-vacuity -/

namespace C16Example

/-- `m = 4`, one threshold `λ_1 = 2 = 4^(1/2)`, ratio `ρ = 2 = 4^(1/2)`: the chain `1, 2, 4` -/
example : RatioChain 4 [2] 2 := by
  simp only [RatioChain, chainOK, List.cons_append, List.nil_append]
  norm_num

/-- two agents with opposite rankings of four alternatives -/
def v : Fin 2 → Fin 4 → ℚ := ![![1 / 2, 1 / 4, 1 / 8, 1 / 8], ![0, 1 / 10, 3 / 10, 3 / 5]]

def pos : Fin 2 → Fin 4 ≃ Fin 4 := ![Equiv.refl _, Fin.revPerm]

theorem v_nonneg : ∀ i j, 0 ≤ v i j := by
  intro i j
  fin_cases i <;> fin_cases j <;> simp [v] <;> norm_num

theorem v_cons : ∀ i j j', pos i j ≤ pos i j' → v i j' ≤ v i j := by
  intro i j j'
  fin_cases i <;> fin_cases j <;> fin_cases j' <;> simp [v, pos, Fin.rev] <;> norm_num

/-- all hypotheses of `C16_karv` hold on this instance for suitable `sim`, `a`; hence the bound holds -/
example : ∃ a : Fin 4, ∀ o, (∑ i, v i o) / (2 * 2) ≤ ∑ i, v i a := by
  obtain ⟨sim, hsim, a, ha⟩ := C16_karv_satisfiable (by decide : 0 < 4) v pos v_nonneg v_cons [2]
    (by intro l hl; simp at hl; subst hl; norm_num) (by simp)
  exact ⟨a, fun o => C16_karv (by decide) v pos v_nonneg v_cons [2]
    (by intro l hl; simp at hl; subst hl; norm_num) (by simp) 2
    (by simp only [RatioChain, chainOK, List.cons_append, List.nil_append]; norm_num) sim hsim a ha o⟩

/-- the helper on the welfare vector of `v`: scores `1/2, 7/20, 17/40, 29/40`; choosing alternative 0
gives `(29/40)/(1/2) = 29/20 ≥ 1` -/
example : distortionOf [1 / 2, 7 / 20, 17 / 40, 29 / 40] [0] = 29 / 20 := by
  simp [distortionOf, maxL, minL]
  norm_num

end C16Example
