import Sck.Proofs.Copeland

/-! # C12 — Copeland: antisymmetry and the zero-sum law (third session)

Consequences of the definition that hold for EVERY profile (no well-formedness hypothesis, ties and
malformed rows included), proved about the mirror of the code's own arithmetic (`Vote.copelandNet`,
`Vote.copeland`: sign of the summed signs of rank differences, then row sums):

* `C12_copelandNet_antisymm` — the pairwise net of `(j, i)` is the negation of that of `(i, j)`;
* `C12_copelandNet_self` — the diagonal is zero (the code does not skip `i = j`; it contributes 0);
* `C12_copeland_zero_sum` — the Copeland scores of any profile sum to zero;
* `C12_copeland_score_bounds` — every score lies between -(m-1) and m-1 (the diagonal contributes nothing).

The harness evaluates the last law on the implementation's score vector of every explored case
(`harness/c12.py`, stage `zero-sum`): a change that counts a pair on one side only (a one-sided
`>=`, a skipped column, a stale cached row) breaks it on profiles with an even split. -/

namespace C12
open Vote

theorem sgn_neg (x : Int) : sgn (-x) = - sgn x := by
  unfold sgn; split <;> split <;> (try split) <;> omega

theorem sumI_map_neg {α : Type} (l : List α) (f : α → Int) :
    sumI (l.map (fun x => - f x)) = - sumI (l.map f) := by
  induction l with
  | nil => simp [sumI_nil]
  | cons a l ih => rw [List.map_cons, List.map_cons, sumI_cons, sumI_cons, ih]; omega

theorem sumI_map_add {α : Type} (l : List α) (f g : α → Int) :
    sumI (l.map (fun x => f x + g x)) = sumI (l.map f) + sumI (l.map g) := by
  induction l with
  | nil => simp [sumI_nil]
  | cons a l ih => simp only [List.map_cons, sumI_cons, ih]; omega

theorem sumI_map_zero {α : Type} (l : List α) : sumI (l.map (fun _ => (0 : Int))) = 0 := by
  induction l with
  | nil => simp [sumI_nil]
  | cons a l ih => simp only [List.map_cons, sumI_cons, ih]; omega

/-- double sums over the same index list may be transposed -/
theorem sumI_swap {α : Type} (l k : List α) (f : α → α → Int) :
    sumI (l.map (fun i => sumI (k.map (fun j => f i j)))) =
    sumI (k.map (fun j => sumI (l.map (fun i => f i j)))) := by
  induction l with
  | nil => simp only [List.map_nil, sumI_nil]; exact (sumI_map_zero k).symm
  | cons a l ih =>
    simp only [List.map_cons, sumI_cons, ih]
    rw [← sumI_map_add]

/-- the pairwise net is antisymmetric, for every profile -/
theorem C12_copelandNet_antisymm (P : Profile) (i j : Nat) :
    copelandNet P j i = - copelandNet P i j := by
  unfold copelandNet
  rw [← sumI_map_neg]
  congr 1
  apply List.map_congr_left
  intro row _
  rw [← sgn_neg]; congr 1; omega

/-- the diagonal of the pairwise matrix is zero -/
theorem C12_copelandNet_self (P : Profile) (i : Nat) : copelandNet P i i = 0 := by
  have := C12_copelandNet_antisymm P i i; omega

/-- the Copeland scores of ANY profile sum to zero -/
theorem C12_copeland_zero_sum (P : Profile) (m : Nat) : sumI (copeland P m) = 0 := by
  unfold copeland
  have h := sumI_swap (List.range m) (List.range m) (fun i j => sgn (copelandNet P i j))
  have h2 : sumI ((List.range m).map (fun j => sumI ((List.range m).map (fun i => sgn (copelandNet P i j))))) =
      - sumI ((List.range m).map (fun i => sumI ((List.range m).map (fun j => sgn (copelandNet P i j))))) := by
    rw [← sumI_map_neg]
    congr 1
    apply List.map_congr_left
    intro j _
    rw [← sumI_map_neg]
    congr 1
    apply List.map_congr_left
    intro i _
    rw [C12_copelandNet_antisymm P j i, sgn_neg]
  omega

/-- non-vacuity: a profile with even splits (2 against 2 on the pair {1,3}), an odd profile, and one
    with a malformed row; the law holds and the scores are not all zero -/
example : copeland [[1,2,3],[2,1,3],[3,1,2],[3,2,1]] 3 = [-1, 2, -1] ∧
    copeland [[1,2,3],[2,1,3],[1,3,2]] 3 = [2, 0, -2] ∧
    sumI (copeland [[1,2,3],[2,1,3],[1,3,2],[7,7]] 3) = 0 := by decide

#print axioms C12_copelandNet_antisymm
#print axioms C12_copelandNet_self
#print axioms C12_copeland_zero_sum

theorem sgn_bounds (x : Int) : -1 ≤ sgn x ∧ sgn x ≤ 1 := by
  unfold sgn; split <;> (try split) <;> omega

theorem sumI_bound_nonzero {α : Type} (l : List α) (f : α → Int) (h : ∀ x ∈ l, -1 ≤ f x ∧ f x ≤ 1) :
    -((l.filter (fun x => f x != 0)).length : Int) ≤ sumI (l.map f) ∧
    sumI (l.map f) ≤ ((l.filter (fun x => f x != 0)).length : Int) := by
  induction l with
  | nil => simp [sumI_nil]
  | cons a l ih =>
    have ha := h a (List.mem_cons_self ..)
    have ih' := ih (fun x hx => h x (List.mem_cons_of_mem _ hx))
    rw [List.map_cons, sumI_cons, List.filter_cons]
    by_cases h0 : f a = 0
    · simp [h0]; omega
    · simp [h0]; omega

/-- every Copeland score lies between -(m-1) and m-1 -/
theorem C12_copeland_score_bounds (P : Profile) (m a : Nat) (ha : a < m) :
    -((m : Int) - 1) ≤ (copeland P m).getD a 0 ∧ (copeland P m).getD a 0 ≤ (m : Int) - 1 := by
  unfold copeland
  have hlen : a < ((List.range m).map (fun i => sumI ((List.range m).map (fun j => sgn (copelandNet P i j))))).length := by simpa using ha
  simp only [List.getD_eq_getElem?_getD, List.getElem?_eq_getElem hlen, Option.getD_some, List.getElem_map, List.getElem_range]
  have hb := sumI_bound_nonzero (List.range m) (fun j => sgn (copelandNet P a j)) (fun x _ => sgn_bounds _)
  have hlt : ((List.range m).filter (fun j => sgn (copelandNet P a j) != 0)).length < (List.range m).length := by
    rw [List.length_filter_lt_length_iff_exists]
    refine ⟨a, List.mem_range.mpr ha, ?_⟩
    simp [C12_copelandNet_self, sgn]
  rw [List.length_range] at hlt
  omega

/-- tightness: a Condorcet winner reaches m-1 and a Condorcet loser -(m-1) -/
example : copeland [[1,2,3],[1,3,2],[2,1,3]] 3 = [2, 0, -2] := by decide

#print axioms C12_copeland_score_bounds

end C12
