import Sck.Proofs.FlowHelpers

/-! # C08 — the public helper functions around the max-flow core (`socialchoicekit/flow.py`)

`Sck/Model/FlowHelpers.lean` mirrors, in the data representation of `Sck/Model/Dfs.lean` (`Dfs.Graph` = the dict
`{u: [(v, c), …]}` in dict order, `Dfs.FlowDict` = the flow dict `{(i, j): f}`, a Python set = a list):

* `FH.reachable G s`    — `reachable_vertices(G, s)`       (`.error "KeyError"` when the code raises);
* `FH.flowAcross fl s`  — `flow_across_network(flow, s)`   (`.error "ValueError"` when the code raises);
* `FH.capAcross G cut`  — `capacity_across_cut(G, cut)`    (never raises).

Vocabulary: `Dfs.Reach G u w` — `w` is reachable from `u` along entries `(v, c)` of the adjacency lists with
`0 < c` (`Sck/Proofs/Dfs2.lean`); `Dfs.keys G` — the keys of the dict; `Dfs.Repr N Gf fl f` — the state
(`G_f`, `flow`) of `ford_fulkerson` represents the net flow `f` on the network `N` (`Sck/Proofs/Dfs3.lean`);
`reach N f` — the residual-reachable set computed by the model's own search, which is the cut `ff` returns
(`Sck/Model/Flow.lean`); `IsFlow`, `flowValue`, `cutCap`, `netWfB`, `flowOf`, `Dfs.netToG`, `Dfs.toTriples`,
`Dfs.ffDfs` as in `C08.lean` / `C08Dfs.lean`; `FH.outSum fl s` — the sum of the entries of the flow dict whose key
starts at `s`; `FH.outCap G S` / `FH.inCap G S` — the total capacity of the entries of the dict `G` that leave /
enter the set `S`.

Property theorems only (helper lemmas live in `Sck/Proofs/FlowHelpers*.lean`). -/

open Finset

/-! ### `reachable_vertices` -/

/-- **Soundness and completeness of `reachable_vertices`.**  Whenever it answers, the returned set is EXACTLY
the set of vertices reachable from `s` along entries of positive capacity; it is returned without repetition,
all its members are keys, and it is literally the list computed by the worklist inside the mirror `Dfs.ffDfs`
of `ford_fulkerson`. -/
theorem C08_reachable_spec (G : Dfs.Graph) (s : Int) (S : List Int) (h : FH.reachable G s = .ok S) :
    (∀ x, x ∈ S ↔ Dfs.Reach G s x) ∧ S.Nodup ∧ (∀ x ∈ S, x ∈ Dfs.keys G) ∧ Dfs.reachable G s = some S :=
  FH.reachable_ok_spec G s S h

/-- **When does it answer.**  Iff every vertex reachable from `s` (`s` included) is a key of the dict. -/
theorem C08_reachable_ok_iff (G : Dfs.Graph) (s : Int) :
    (∃ S, FH.reachable G s = .ok S) ↔ ∀ x, Dfs.Reach G s x → x ∈ Dfs.keys G :=
  FH.reachable_ok_iff G s

/-- **When does it raise.**  `KeyError` iff some vertex reachable from `s` is not a key (independently of the
order in which the frontier set is popped); and there is no third outcome: the fuel of the mirror always
suffices. -/
theorem C08_reachable_err_iff (G : Dfs.Graph) (s : Int) :
    (FH.reachable G s = .error "KeyError" ↔ ∃ x, Dfs.Reach G s x ∧ x ∉ Dfs.keys G) ∧
    ((∃ S, FH.reachable G s = .ok S) ∨ FH.reachable G s = .error "KeyError") :=
  ⟨FH.reachable_err_iff G s, FH.reachable_no_fuel G s⟩

/-- **It is the worklist of the mirror of `ford_fulkerson`.**  In a graph all of whose neighbours are keys
(every residual graph), started at a key, `FH.reachable` and the `KeyError`-free worklist `Dfs.reachable` that
`Dfs.ffDfs` runs on its final residual graph return the same list. -/
theorem C08_reachable_eq_mirror (G : Dfs.Graph) (hk : Dfs.nbrsKeysB G = true) (s : Int) (hs : s ∈ Dfs.keys G)
    (S : List Int) : FH.reachable G s = .ok S ↔ Dfs.reachable G s = some S :=
  FH.reachable_eq_dfs G (Dfs.nbrsKeys_of_B G hk) s hs S

/-- **On a residual graph it is the model's reachable set.**  In any state (`G_f`, `flow`) that represents a
flow `f` of a well-formed network, `reachable_vertices(G_f, s)` raises nothing and returns, as a set, the
`reach N f` of the model (`Sck/Model/Flow.lean`), i.e. the closure used for the min cut in
`Sck/Proofs/FlowTotal1.lean` / `FlowCut.lean`. -/
theorem C08_reachable_eq_reach (N : Net) (hwf : netWfB N = true) (Gf : Dfs.Graph) (fl : Dfs.FlowDict)
    (f : Flow) (h : Dfs.Repr N Gf fl f) :
    ∃ S, FH.reachable Gf N.s = .ok S ∧ S.Nodup ∧ ∀ v, v ∈ S ↔ v ∈ reach N f :=
  FH.reachable_repr N ((netWfB_iff N).mp hwf) Gf fl f h

/-- **On the final residual graph it is the cut returned by the model's `ff`.**  If `ff` returns `(f, S')` and
(`G_f`, `flow`) represents that final flow `f`, then `reachable_vertices(G_f, s)` returns `S'` as a set. -/
theorem C08_reachable_eq_cut (N : Net) (hwf : netWfB N = true) (fuel : Nat) (f : Flow) (S' : List Int)
    (hff : ff N fuel = .ok (f, S')) (Gf : Dfs.Graph) (fl : Dfs.FlowDict) (h : Dfs.Repr N Gf fl f) :
    ∃ S, FH.reachable Gf N.s = .ok S ∧ S.Nodup ∧ ∀ v, v ∈ S ↔ v ∈ S' :=
  FH.reachable_eq_ff_cut N ((netWfB_iff N).mp hwf) fuel f S' hff Gf fl h

/-- **… and for ANY final flow.**  For any flow `f` in whose residual graph the sink is not reachable (the exit
condition of the `while` loop of `ford_fulkerson`; `f` need not be the flow the model found), the answer is a
cut whose capacity equals the value of `f` (so `f` is maximum and the cut minimum), and it equals, as a set,
the cut of every successful run of the model's `ff`. -/
theorem C08_reachable_eq_cut_any_flow (N : Net) (hwf : netWfB N = true) (Gf : Dfs.Graph) (fl : Dfs.FlowDict)
    (f : Flow) (h : Dfs.Repr N Gf fl f) (hf : IsFlow N.verts.toFinset N.cap N.s N.t f) (S : List Int)
    (hS : FH.reachable Gf N.s = .ok S) (ht : N.t ∉ S) :
    flowValue N.verts.toFinset N.s f = cutCap N.verts.toFinset N.cap S.toFinset ∧
    ∀ (fuel : Nat) (f' : Flow) (S' : List Int), ff N fuel = .ok (f', S') → ∀ v, v ∈ S ↔ v ∈ S' :=
  FH.reachable_eq_cut N ((netWfB_iff N).mp hwf) Gf fl f h hf S hS ht

/-! ### `flow_across_network` -/

/-- **Closed form of `flow_across_network`.**  It raises `ValueError` iff some KEY `(i, j)` of the dict has
`j = s` — whatever value is stored there, a zero flow or a self loop `(s, s)` included — and otherwise returns
the sum of the entries whose key starts at `s`. -/
theorem C08_flowAcross_eq (fl : Dfs.FlowDict) (s : Int) :
    (FH.flowAcross fl s = .error "ValueError" ↔ ∃ e ∈ fl, e.1.2 = s) ∧
    ((∀ e ∈ fl, e.1.2 ≠ s) → FH.flowAcross fl s = .ok (FH.outSum fl s)) :=
  ⟨FH.flowAcross_err_iff fl s, FH.flowAcross_ok fl s⟩

/-- **`flow_across_network` computes the model's `value`.**  For a dict with distinct keys none of which
points into `s`, whose keys starting at `s` end in vertices of `V`, the answer is `flowValue V s` (the net flow
`Σ_{v ∈ V} f s v` out of `s`) of the net flow function `flowOf` that the dict denotes. -/
theorem C08_flowAcross_eq_value (V : List Int) (fl : Dfs.FlowDict) (s : Int)
    (hnd : (fl.map (·.1)).Nodup) (hV : ∀ e ∈ fl, e.1.1 = s → e.1.2 ∈ V) (hno : ∀ e ∈ fl, e.1.2 ≠ s) :
    FH.flowAcross fl s = .ok (flowValue V.toFinset s (flowOf (Dfs.toTriples fl))) :=
  FH.flowAcross_eq_value V fl s hnd hV hno

/-- **`flow_across_network` applied to the output of `ford_fulkerson`** (the mirror `Dfs.ffDfs`) on a
well-formed network: `ValueError` iff the NETWORK has an edge into the source (even though the returned flow
is a correct maximum flow); otherwise the value of the returned flow, which is the maximum flow value
(`C08_ffDfs_correct`). -/
theorem C08_flowAcross_ffDfs (N : Net) (hwf : netWfB N = true) (rounds : Nat) (fl : Dfs.FlowDict)
    (S : List Int) (paths : List (List Int × Int))
    (h : Dfs.ffDfs (Dfs.netToG N) N.s N.t rounds = .ok (fl, S, paths)) :
    (FH.flowAcross fl N.s = .error "ValueError" ↔ ∃ e ∈ N.edges, e.2.1 = N.s) ∧
    ((∀ e ∈ N.edges, e.2.1 ≠ N.s) →
      FH.flowAcross fl N.s = .ok (flowValue N.verts.toFinset N.s (flowOf (Dfs.toTriples fl)))) :=
  FH.flowAcross_ffDfs N ((netWfB_iff N).mp hwf) rounds fl S paths h

/-! ### `capacity_across_cut` -/

/-- **The quirk, for any dict and any set.**  `capacity_across_cut(G, S)` is the capacity of the entries
LEAVING `S` MINUS the capacity of the entries ENTERING `S`. -/
theorem C08_capacityAcross_eq_dict (G : Dfs.Graph) (S : List Int) :
    FH.capAcross G S = FH.outCap G S - FH.inCap G S :=
  FH.capAcross_eq G S

/-- **`capacity_across_cut` on a well-formed network** = `cutCap(S)` (the capacity of the edges leaving `S`,
what property C08 speaks of) MINUS the capacity of the edges entering `S`, which is the `cutCap` of the
complement `V \ S`.  `S` need not consist of vertices. -/
theorem C08_capacityAcross_eq (N : Net) (hwf : netWfB N = true) (S : List Int) :
    FH.capAcross (Dfs.netToG N) S = cutCap N.verts.toFinset N.cap S.toFinset -
      cutCap N.verts.toFinset N.cap (N.verts.toFinset \ S.toFinset) :=
  FH.capAcross_netToG N ((netWfB_iff N).mp hwf) S

/-- **Corollary.**  When no edge of positive capacity enters `S`, it IS the cut capacity. -/
theorem C08_capacityAcross_eq_cutCap (N : Net) (hwf : netWfB N = true) (S : List Int)
    (hno : ∀ e ∈ N.edges, e.2.1 ∈ S → e.1 ∈ S ∨ e.2.2 = 0) :
    FH.capAcross (Dfs.netToG N) S = cutCap N.verts.toFinset N.cap S.toFinset :=
  FH.capAcross_eq_cutCap N ((netWfB_iff N).mp hwf) S hno

/-- **`capacity_across_cut` applied to the cut returned by `ford_fulkerson`** = the maximum flow value MINUS
the capacity entering the cut: read through the two helpers, "max flow = min cut" fails as soon as an edge of
positive capacity re-enters the returned set. -/
theorem C08_capacityAcross_ffDfs (N : Net) (hwf : netWfB N = true) (rounds : Nat) (fl : Dfs.FlowDict)
    (S : List Int) (paths : List (List Int × Int))
    (h : Dfs.ffDfs (Dfs.netToG N) N.s N.t rounds = .ok (fl, S, paths)) :
    FH.capAcross (Dfs.netToG N) S = flowValue N.verts.toFinset N.s (flowOf (Dfs.toTriples fl)) -
      cutCap N.verts.toFinset N.cap (N.verts.toFinset \ S.toFinset) :=
  FH.capAcross_ffDfs N ((netWfB_iff N).mp hwf) rounds fl S paths h

/-- **A concrete network where it differs from the cut capacity**: the 4-vertex network `exNet` of C08 has the
edge `3 → 0` of capacity 5 into the source; for the minimum cut `{0}` (capacity 5 = the maximum flow value)
`capacity_across_cut` returns `5 - 5 = 0`. -/
theorem C08_capacityAcross_ne_cutCap_example :
    netWfB exNet = true ∧ FH.capAcross (Dfs.netToG exNet) [0] = 0 ∧
    cutCap exNet.verts.toFinset exNet.cap ([0] : List Int).toFinset = 5 := by
  refine ⟨by decide, by decide, ?_⟩
  rw [← cutCapL_eq exNet (by decide) [0] (by decide)]
  decide

/-! ### the hypotheses are satisfiable on concrete non-trivial instances; behavioural observations -/

/-- a graph with a zero-capacity entry (`0 → 3`), a vertex (`4`) from which `0` is reachable but not
conversely: from `0` exactly `{0, 1, 2}`; from `3` everything but `4` -/
example : FH.reachable FH.exReachG 0 = .ok [2, 1, 0] := by decide
example : FH.reachable FH.exReachG 3 = .ok [1, 0, 2, 3] := by decide
example : Dfs.nbrsKeysB FH.exReachG = true ∧ (0 : Int) ∈ Dfs.keys FH.exReachG := by decide
/-- a reachable neighbour that is not a key, and a start vertex that is not a key: `KeyError` -/
example : FH.reachable FH.exReachBad 0 = .error "KeyError" := by decide
example : FH.reachable FH.exReachBad 5 = .error "KeyError" := by decide
/-- `Repr` is satisfiable (`C08_mkResidual_repr`): the initial residual graph of `exNet` with the zero flow;
there `reachable_vertices` returns all four vertices -/
example : netWfB exNet = true := by decide
example : (match Dfs.mkResidual (Dfs.netToG exNet) with
    | .ok (Gf, _) => FH.reachable Gf 0
    | .error e => .error e) = .ok [3, 2, 1, 0] := by decide +kernel
/-- the run of the mirror of `ford_fulkerson` on `exNet` (maximum flow value 5, cut `{0}`), handed to the two
helpers: `flow_across_network` raises because of the key `(3, 0)` (flow 0), `capacity_across_cut` returns 0 -/
example : (match Dfs.ffDfs (Dfs.netToG exNet) 0 3 (ffFuel exNet) with
    | .ok (fl, S, _) => some (FH.flowAcross fl 0, FH.outSum fl 0, S, FH.capAcross (Dfs.netToG exNet) S)
    | .error _ => none) = some (.error "ValueError", 5, [0], 0) := by decide +kernel
/-- without the edge into the source both helpers return the maximum flow value 5 -/
example : netWfB FH.exNetNoBack = true ∧ (∀ e ∈ FH.exNetNoBack.edges, e.2.1 ≠ FH.exNetNoBack.s) := by decide
example : (match Dfs.ffDfs (Dfs.netToG FH.exNetNoBack) 0 3 (ffFuel FH.exNetNoBack) with
    | .ok (fl, S, _) => some (FH.flowAcross fl 0, S, FH.capAcross (Dfs.netToG FH.exNetNoBack) S)
    | .error _ => none) = some (.ok 5, [0], 5) := by decide +kernel
/-- hypotheses of `C08_flowAcross_eq_value` on a hand-written dict -/
example : (([((0, 1), 3), ((0, 2), 2), ((1, 2), 1)] : Dfs.FlowDict).map (·.1)).Nodup ∧
    (∀ e ∈ ([((0, 1), 3), ((0, 2), 2), ((1, 2), 1)] : Dfs.FlowDict), e.1.2 ≠ 0) ∧
    FH.flowAcross [((0, 1), 3), ((0, 2), 2), ((1, 2), 1)] 0 = .ok 5 := by decide
/-- a self loop at `s` with zero flow is enough for the `ValueError` -/
example : FH.flowAcross [((0, 1), 3), ((0, 0), 0)] 0 = .error "ValueError" := by decide
/-- hypothesis of `C08_capacityAcross_eq_cutCap`: in `FH.exNetNoBack` no edge enters `{0, 1}`; in `exNet` the
edge `3 → 0` does, and the answers differ by its capacity -/
example : ∀ e ∈ FH.exNetNoBack.edges, e.2.1 ∈ ([0, 1] : List Int) → e.1 ∈ ([0, 1] : List Int) ∨ e.2.2 = 0 := by
  decide
example : FH.capAcross (Dfs.netToG FH.exNetNoBack) [0, 1] = 5 ∧ FH.capAcross (Dfs.netToG exNet) [0, 1] = 0 := by
  decide
