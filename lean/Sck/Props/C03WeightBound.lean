import Sck.Proofs.WeightBound

/-! # C03 — the one hypothesis of Irving's optimality theorem is checkable (package L9)

`C03_irving_optimal` (`Sck/Props/C03Optimal2.lean`) has ONE hypothesis, `IrvingAlgo.WeightBound n P1 P2 V1 V2`: the sum, over all
rotations `ρ` the mirror of `find_all_rotations_and_eliminations` finds, of the negative parts `max(-rotation_weight(ρ), 0)` is
below `sys.maxsize = 2^63 - 1` (the "infinite" capacity `find_maximum_weight_closed_subset` puts on the precedence edges of
its flow network).  Here
* `IrvingAlgo.weightBoundB` (core-only, executable; driver op `irv_wb`) DECIDES it (`C03_weightBoundB_iff`);
* it follows from a condition on the input alone (`C03_weightBound_of_bounded`): every entry of `V1`, `V2` has absolute value
  `≤ B` and `4 * n * n * B < sys.maxsize` (sharper: `4 * (n * n - n) * B < sys.maxsize`, `C03_weightBound_of_bounded_sharp`).
  Reason: `rotation_weight(ρ)` is a sum of `4 |ρ|` entries (`C03_rotationWeight_negPart_le`), and the rotations of the mirror
  have at most `n² - n` pairs altogether (`C03_allRotations_pairs_le`), because they form an elimination path from the
  male-optimal matching, every rotation moves each of its men at least one rank down, and ranks lie in `1..n`;
* hence `C03_irving_optimal_of_bounded`: no `WeightBound` hypothesis left.
Property theorems only; proofs in `Sck/Proofs/WeightBound.lean`. -/

open IrvingAlgo

/-! ## definitions spelled out -/

theorem C03_negPartSum_eq (V1 V2 : List (List Int)) (rots : List (List Irving.Pair)) :
    negPartSum V1 V2 rots
      = ∑ i ∈ Finset.range rots.length, max (-(Irving.rotationWeight V1 V2 (rots.getD i []))) 0 :=
  negPartSum_eq V1 V2 rots

theorem C03_weightBoundB_eq (n : Nat) (P1 P2 : List (List Nat)) (V1 V2 : List (List Int)) :
    weightBoundB n P1 P2 V1 V2 = match weightBoundSum n P1 P2 V1 V2 with
      | .error _ => true
      | .ok s => decide (s < (maxsize : Int)) := rfl

theorem C03_entriesBoundedB_iff (B : Nat) (V : List (List Int)) :
    entriesBoundedB B V = true ↔ ∀ row ∈ V, ∀ x ∈ row, x.natAbs ≤ B :=
  entriesBoundedB_iff B V

theorem C03_inputBoundB_eq (n B : Nat) (V1 V2 : List (List Int)) :
    inputBoundB n B V1 V2 = (entriesBoundedB B V1 && entriesBoundedB B V2 && decide (4 * n * n * B < maxsize)) := rfl

theorem C03_maxsize_eq : maxsize = 2 ^ 63 - 1 := maxsize_eq

/-! ## item 1: the executable check -/

/-- **C03 (`weightBoundB` decides `WeightBound`).**  For every input. -/
theorem C03_weightBoundB_iff (n : Nat) (P1 P2 : List (List Nat)) (V1 V2 : List (List Int)) :
    weightBoundB n P1 P2 V1 V2 = true ↔ WeightBound n P1 P2 V1 V2 :=
  weightBoundB_iff n P1 P2 V1 V2

/-- **C03 (what the op `irv_wb` prints).**  When the male-optimal matching and the rotations can be computed, the sum is the
left-hand side of `WeightBound`. -/
theorem C03_weightBoundSum_ok (n : Nat) (P1 P2 : List (List Nat)) (V1 V2 : List (List Int)) (M0 : List Irving.Pair)
    (all : List (List Irving.Pair)) (elim : List (Irving.Pair × Nat)) (hmo : maleOptimal n P1 P2 = some M0)
    (hall : allRotations (shortlists n P1 P2 (muOf n M0)).1 (shortlists n P1 P2 (muOf n M0)).2 = some (all, elim)) :
    weightBoundSum n P1 P2 V1 V2
      = .ok (∑ i ∈ Finset.range all.length, max (-(Irving.rotationWeight V1 V2 (all.getD i []))) 0) :=
  weightBoundSum_ok hmo hall

/-- **C03 (optimality of the mirror from the executable check).**  If `weightBoundB` answers `true`, every `ok` answer of the
checked mirror of `Irving.scf` has the brute-force optimal value, and on strict complete input the run-time checks
`check-exposed` / `not-exposed` never fire. -/
theorem C03_irving_optimal_of_weightBoundB (n : Nat) (P1 P2 : List (List Nat)) (V1 V2 : List (List Int))
    (hb : weightBoundB n P1 P2 V1 V2 = true) :
    (∀ M, irving n P1 P2 V1 V2 = .ok M →
      Brute.optStable n P1 P2 V1 V2 = some (Irving.matchingValue V1 V2 M)) ∧
    (wfB n P1 P2 V1 V2 = true →
      irving n P1 P2 V1 V2 ≠ .error "check-exposed" ∧ irving n P1 P2 V1 V2 ≠ .error "not-exposed") :=
  irving_optimal_of_weightBoundB hb

/-! ## item 2: a sufficient condition on the input alone -/

/-- **C03 (the negative part of a rotation weight).**  If every entry of `V1`, `V2` has absolute value `≤ B`, then
`max(-rotation_weight(ρ), 0) ≤ 4 |ρ| B` for EVERY list of pairs `ρ`. -/
theorem C03_rotationWeight_negPart_le (B : Nat) (V1 V2 : List (List Int))
    (hV1 : ∀ row ∈ V1, ∀ x ∈ row, x.natAbs ≤ B) (hV2 : ∀ row ∈ V2, ∀ x ∈ row, x.natAbs ≤ B)
    (rho : List Irving.Pair) :
    max (-(Irving.rotationWeight V1 V2 rho)) 0 ≤ 4 * (rho.length : Int) * B :=
  negPart_le hV1 hV2 rho

/-- **C03 (an elimination path has few pairs).**  Along any elimination path `μ → … → ν` (each rotation exposed when its turn
comes) the total number of pairs of the rotations is at most the increase of the total rank the men give their wives. -/
theorem C03_elimPath_pairs_le {n : ℕ} (P1 P2 : Fin n → Fin n → ℕ) (ρs : List (List (Fin n)))
    (μ ν : Equiv.Perm (Fin n)) (hp : SMLattice.ElimPath P1 P2 μ ρs ν) :
    (∑ a, P1 a (μ a)) + (ρs.map List.length).sum ≤ ∑ a, P1 a (ν a) :=
  elimPath_sum_length ρs μ ν hp

/-- **C03 (the mirror's rotations have at most `n² - n` pairs altogether).**  On strict complete input. -/
theorem C03_allRotations_pairs_le (n : Nat) (P1 P2 : List (List Nat)) (V1 V2 : List (List Int))
    (hwf : wfB n P1 P2 V1 V2 = true) (M0 : List Irving.Pair) (all : List (List Irving.Pair))
    (elim : List (Irving.Pair × Nat)) (hmo : maleOptimal n P1 P2 = some M0)
    (hall : allRotations (shortlists n P1 P2 (muOf n M0)).1 (shortlists n P1 P2 (muOf n M0)).2 = some (all, elim)) :
    (all.map List.length).sum ≤ n * n - n :=
  allRotations_sum_length_sharp hwf hmo hall

/-- **C03 (the sum printed by `irv_wb` is at most `4 (n² - n) B`).**  On strict complete input with entries bounded by `B`. -/
theorem C03_negPart_total_le (n B : Nat) (P1 P2 : List (List Nat)) (V1 V2 : List (List Int))
    (hwf : wfB n P1 P2 V1 V2 = true) (hV1 : ∀ row ∈ V1, ∀ x ∈ row, x.natAbs ≤ B)
    (hV2 : ∀ row ∈ V2, ∀ x ∈ row, x.natAbs ≤ B) (M0 : List Irving.Pair) (all : List (List Irving.Pair))
    (elim : List (Irving.Pair × Nat)) (hmo : maleOptimal n P1 P2 = some M0)
    (hall : allRotations (shortlists n P1 P2 (muOf n M0)).1 (shortlists n P1 P2 (muOf n M0)).2 = some (all, elim)) :
    ∑ i ∈ Finset.range all.length, max (-(Irving.rotationWeight V1 V2 (all.getD i []))) 0
      ≤ ((4 * (n * n - n) * B : Nat) : Int) :=
  negPart_total_le hwf hV1 hV2 hmo hall

/-- **C03 (`WeightBound` from the input alone).**  On strict complete input (`wfB`): if every entry of `V1` and `V2` has
absolute value `≤ B` and `4 * n * n * B < sys.maxsize`, then `WeightBound n P1 P2 V1 V2`. -/
theorem C03_weightBound_of_bounded (n B : Nat) (P1 P2 : List (List Nat)) (V1 V2 : List (List Int))
    (hwf : wfB n P1 P2 V1 V2 = true) (hV1 : ∀ row ∈ V1, ∀ x ∈ row, x.natAbs ≤ B)
    (hV2 : ∀ row ∈ V2, ∀ x ∈ row, x.natAbs ≤ B) (hnum : 4 * n * n * B < maxsize) :
    WeightBound n P1 P2 V1 V2 :=
  weightBound_of_bounded hwf hV1 hV2 hnum

/-- **C03 (the same with the sharp constant `4 (n² - n) B`).** -/
theorem C03_weightBound_of_bounded_sharp (n B : Nat) (P1 P2 : List (List Nat)) (V1 V2 : List (List Int))
    (hwf : wfB n P1 P2 V1 V2 = true) (hV1 : ∀ row ∈ V1, ∀ x ∈ row, x.natAbs ≤ B)
    (hV2 : ∀ row ∈ V2, ∀ x ∈ row, x.natAbs ≤ B) (hnum : 4 * (n * n - n) * B < maxsize) :
    WeightBound n P1 P2 V1 V2 :=
  weightBound_of_bounded_sharp hwf hV1 hV2 hnum

/-- **C03 (the same with the executable input check).** -/
theorem C03_weightBound_of_inputBoundB (n B : Nat) (P1 P2 : List (List Nat)) (V1 V2 : List (List Int))
    (hwf : wfB n P1 P2 V1 V2 = true) (h : inputBoundB n B V1 V2 = true) : WeightBound n P1 P2 V1 V2 :=
  weightBound_of_inputBoundB hwf h

/-- **C03 (optimality and totality of the checked mirror of `Irving.scf`, no `WeightBound` hypothesis).**  On strict complete
input whose valuations have absolute value `≤ B` with `4 * n * n * B < sys.maxsize`: every `ok` answer has the brute-force
optimal value `optStable`, and the run-time checks `check-exposed` / `not-exposed` never fire. -/
theorem C03_irving_optimal_of_bounded (n B : Nat) (P1 P2 : List (List Nat)) (V1 V2 : List (List Int))
    (hwf : wfB n P1 P2 V1 V2 = true) (hV1 : ∀ row ∈ V1, ∀ x ∈ row, x.natAbs ≤ B)
    (hV2 : ∀ row ∈ V2, ∀ x ∈ row, x.natAbs ≤ B) (hnum : 4 * n * n * B < maxsize) :
    (∀ M, irving n P1 P2 V1 V2 = .ok M →
      Brute.optStable n P1 P2 V1 V2 = some (Irving.matchingValue V1 V2 M)) ∧
    irving n P1 P2 V1 V2 ≠ .error "check-exposed" ∧ irving n P1 P2 V1 V2 ≠ .error "not-exposed" :=
  irving_optimal_of_bounded hwf hV1 hV2 hnum

/-- **C03 (the same for one `ok` answer, without assuming `wfB`)** — an `ok` answer implies that the input was strict complete. -/
theorem C03_irving_optimal_of_bounded_ok (n B : Nat) (P1 P2 : List (List Nat)) (V1 V2 : List (List Int))
    (hV1 : ∀ row ∈ V1, ∀ x ∈ row, x.natAbs ≤ B) (hV2 : ∀ row ∈ V2, ∀ x ∈ row, x.natAbs ≤ B)
    (hnum : 4 * n * n * B < maxsize) (M : List Irving.Pair) (h : irving n P1 P2 V1 V2 = .ok M) :
    Brute.optStable n P1 P2 V1 V2 = some (Irving.matchingValue V1 V2 M) :=
  irving_optimal_of_bounded_ok hV1 hV2 hnum h

/-! ## Non-vacuity: the 3×3 Latin-square instance (rotation weights `+15`, `-12`) -/

/-- hypotheses of `C03_weightBound_of_bounded` / `C03_irving_optimal_of_bounded` with `B = 5` -/
example : wfB 3 exL1 exL2 [[0,0,0],[0,0,0],[0,0,0]] [[0,1,5],[5,0,1],[1,5,0]] = true := by decide +kernel
example : ∀ row ∈ ([[0,0,0],[0,0,0],[0,0,0]] : List (List Int)), ∀ x ∈ row, x.natAbs ≤ 5 := by decide
example : ∀ row ∈ ([[0,1,5],[5,0,1],[1,5,0]] : List (List Int)), ∀ x ∈ row, x.natAbs ≤ 5 := by decide
example : 4 * 3 * 3 * 5 < maxsize := by decide
example : inputBoundB 3 5 [[0,0,0],[0,0,0],[0,0,0]] [[0,1,5],[5,0,1],[1,5,0]] = true := by decide +kernel
example : WeightBound 3 exL1 exL2 [[0,0,0],[0,0,0],[0,0,0]] [[0,1,5],[5,0,1],[1,5,0]] :=
  C03_weightBound_of_bounded 3 5 exL1 exL2 _ _ (by decide +kernel) (by decide) (by decide) (by decide)
/-- the conclusion is not vacuous: the mirror answers `ok` here -/
example : irving 3 exL1 exL2 [[0,0,0],[0,0,0],[0,0,0]] [[0,1,5],[5,0,1],[1,5,0]] = .ok [(0, 1), (1, 2), (2, 0)] := by
  unfold irving irvingPlan; rw [exLatin_maleOptimal]; decide +kernel
/-- the executable check: the sum is 12 (only the second rotation is negative), below `sys.maxsize` -/
example : weightBoundSum 3 exL1 exL2 [[0,0,0],[0,0,0],[0,0,0]] [[0,1,5],[5,0,1],[1,5,0]] = .ok 12 :=
  exLatin_weightBoundSum_small
example : weightBoundB 3 exL1 exL2 [[0,0,0],[0,0,0],[0,0,0]] [[0,1,5],[5,0,1],[1,5,0]] = true :=
  exLatin_weightBoundB_small
/-- `WeightBound` can FAIL: the same instance scaled by `2^60` has the sum `12 * 2^60 > 2^63 - 1` -/
example : ¬ WeightBound 3 exL1 exL2 [[0,0,0],[0,0,0],[0,0,0]]
    [[0,1152921504606846976,5764607523034234880],[5764607523034234880,0,1152921504606846976],
     [1152921504606846976,5764607523034234880,0]] := by
  rw [← C03_weightBoundB_iff, exLatin_weightBoundB_big]; decide
/-- the bound `n² - n` of `C03_allRotations_pairs_le` is attained: two rotations with three pairs each -/
example : (exAll.map List.length).sum = 3 * 3 - 3 := exLatin_pairs
/-- `C03_rotationWeight_negPart_le` is tight up to the constant: `|ρ| = 3`, `B = 5`, negative part `12 ≤ 60` -/
example : max (-(Irving.rotationWeight [[0,0,0],[0,0,0],[0,0,0]] [[0,1,5],[5,0,1],[1,5,0]] [(0, 1), (1, 2), (2, 0)])) 0 = 12 := by
  decide +kernel
