import Sck.Proofs.LatticeJEx
import Sck.Proofs.LatticeJ18

/-! # C03 — soundness of the sparse rotation poset of the mirror of `Irving.scf` (package L8b): obligation (j) follows
from obligation (i)

Notation of `Sck/Props/C03Optimal.lean`.  `Remaining_i` / `Remaining_j` are the two obligations to which optimality of the
mirror was reduced there.  Here `Remaining_j` (every edge of `IrvingAlgo.posetGraph` is a true precedence between rotations)
is PROVED from the "run" half of `Remaining_i` (`AllRun_at`: the mirror's list of rotations, in discovery order, can be
eliminated from the male-optimal matching, each rotation non-empty and exposed when its turn comes).

Ingredients, all stated below:
* the shortlists of `find_initial_preference_lists`, exactly (`C03_mem_shortlists_fst/snd`), sorted by rank, and every stable
  pair is on them (`C03_stable_pair_on_shortlists`);
* where the edges of `posetGraph` come from (`C03_edge_source`): Rule 1 or Rule 2 of `scanMan`;
* what `eliminating_rotations_of_pair` records (`C03_elim_good`): `elim[(m, w)] = π` only if `w` is a woman of rotation `π`
  who likes `m` at least as much as the husband she leaves in `π`;
* Rule 1 (`C03_rule1_sound`, package L7) and Rule 2 (`C03_rule2_sound`) at the spec level, both through the end-point
  characterisation `C03_mem_path_iff`.

Moreover the COMPLETENESS of the sparse representation (Gusfield 1987) is proved from the same hypothesis: every index set
that is closed in `posetGraph` can be eliminated in index order, so `Remaining_j_task` ("eliminable in index order iff
closed") and `Remaining_j_complete` hold too (`C03_remaining_j_task`), and with (i) the checked mirror never answers
`check-exposed` / `not-exposed` (`C03_irving_total_of_remaining_i`).  Ingredients: `scanMan` puts every Rule-1 / Rule-2
edge (`C03_posetGraph_edge`), every pair that leaves the women's lists gets an eliminating rotation
(`C03_allRotations_elim_facts`), and three lattice lemmas (`C03_le_of_rotations_subset`, `C03_woman_after_rotation`,
`C03_first_mover`).

Finally obligation (i) itself is proved (`C03_allRotations_maximal_chain : Remaining_i`): the men's lists of the level loop
satisfy `JLevelInv` (wife first, then the rest of the initial shortlist from the first woman who has not deleted him), so
`outEdge` is the next-man function of the current stable matching, `find_rotations` returns pairwise disjoint EXPOSED
rotations (`C03_findRotations_sound`) and at least one whenever a rotation is exposed (`C03_findRotations_ne_nil`).
Hence `C03_posetGraph_sound : Remaining_j`, `C03_posetGraph_sound_complete : Remaining_j_task` and
`C03_irving_optimal` hold with NO remaining obligation (only the numeric side condition `WeightBound`).
Property theorems only; proofs in `Sck/Proofs/LatticeJ1.lean` … `LatticeJ18.lean`, examples in `LatticeJEx.lean`.
All declarations of these files live in the namespaces `IrvingAlgo.J`, `SMLattice.J`, `L8b`. -/

open IrvingAlgo IrvingAlgo.J SMLattice SMLattice.J

/-! ## definitions spelled out -/

theorem C03_allRun_at_iff (n : Nat) (P1 P2 : List (List Nat)) :
    AllRun_at n P1 P2 ↔
      ∀ M0 all elim, maleOptimal n P1 P2 = some M0 →
        allRotations (shortlists n P1 P2 (muOf n M0)).1 (shortlists n P1 P2 (muOf n M0)).2 = some (all, elim) →
        Irving.exposedAllB P1 P2 M0 all = true ∧ ∀ r ∈ all, r ≠ [] := Iff.rfl

theorem C03_elimGood_iff (P2 : List (List Nat)) (all : List (List Irving.Pair)) (m w pi : Nat) :
    ElimGood P2 all m w pi ↔ ∃ a, (a, w) ∈ all.getD pi [] ∧ rankOf P2 w m ≤ rankOf P2 w a := Iff.rfl

theorem C03_elimOK_iff (P2 : List (List Nat)) (all : List (List Irving.Pair)) (m w pi : Nat) :
    ElimOK P2 all m w pi ↔
      (∃ a, (a, w) ∈ all.getD pi [] ∧ rankOf P2 w m ≤ rankOf P2 w a) ∧
      ∃ idx, idx < (all.getD pi []).length ∧ (Irving.rotAt (all.getD pi []) idx).2 = w ∧
        rankOf P2 w (Irving.rotAt (all.getD pi []) ((idx + (all.getD pi []).length - 1) % (all.getD pi []).length)).1
          < rankOf P2 w m := Iff.rfl

theorem C03_eiInv_iff (l20 : List (List Nat)) (st : LvSt) :
    EIInv l20 st ↔ ∀ m w, m ∈ l20.getD w [] → m ∉ st.l2.getD w [] → (dictGet? st.elim (m, w)).isSome := Iff.rfl

theorem C03_wnextOf_eq (rots : List (List Irving.Pair)) (y m w : Nat) :
    wnextOf rots y m w
      = (Irving.rotAt (rots.getD y []) (((rots.getD y []).idxOf (m, w) + 1) % (rots.getD y []).length)).2 := rfl

theorem C03_edgeSrc_iff (rots : List (List Irving.Pair)) (l1 : List (List Nat)) (elim : List (Irving.Pair × Nat))
    (x y : Nat) :
    EdgeSrc rots l1 elim x y ↔
      (∃ m w w' pre post, l1.getD m [] = pre ++ w' :: post ∧ w ∈ pre ∧
          dictGet? (rotOfPair rots) (m, w) = some x ∧ dictGet? (rotOfPair rots) (m, w') = some y) ∨
      (∃ m w w', w' ∈ l1.getD m [] ∧ dictGet? (rotOfPair rots) (m, w) = some y ∧ dictGet? elim (m, w') = some x ∧
          (l1.getD m []).idxOf w' < (l1.getD m []).idxOf (wnextOf rots y m w)) := Iff.rfl

/-! ## the main theorems -/

/-- **C03 (obligation (j) follows from obligation (i)).**  If on every strict complete instance the mirror's list of all
rotations is a maximal chain of eliminations from the male-optimal matching, then on every such instance every edge
`x → y` of the mirror's sparse poset graph is a true precedence: on every run from the male-optimal matching on which
rotation `y` is eliminated, rotation `x` is eliminated too. -/
theorem C03_remaining_j (hi : Remaining_i) : Remaining_j := L8b.remaining_j_of_i hi

/-- **C03 (the same at one instance).** -/
theorem C03_remaining_j_at (n : Nat) (P1 P2 : List (List Nat)) (V1 V2 : List (List Int))
    (hwf : wfB n P1 P2 V1 V2 = true) (hi : Remaining_i_at n P1 P2) : Remaining_j_at n P1 P2 :=
  remaining_j_at_of_i hwf hi

/-- **C03 (soundness of the sparse poset needs only the "run" half of (i)).**  On a strict complete instance, if the
mirror's list of rotations can be eliminated from the male-optimal matching in discovery order (each rotation non-empty
and exposed when its turn comes), then every edge of `posetGraph` is a true precedence (`Remaining_j_at`). -/
theorem C03_remaining_j_at_of_run (n : Nat) (P1 P2 : List (List Nat)) (V1 V2 : List (List Int))
    (hwf : wfB n P1 P2 V1 V2 = true) (hr : AllRun_at n P1 P2) : Remaining_j_at n P1 P2 :=
  remaining_j_at_of_run hwf hr

/-- **C03 (optimality of the mirror from obligation (i) alone).**  If `allRotations` lists a maximal chain of eliminations
on every strict complete instance, then for every input whose total negative rotation weight is below `sys.maxsize`
every `ok` answer of the checked mirror of `Irving.scf` has the brute-force optimal value. -/
theorem C03_irving_optimal_of_remaining_i (hi : Remaining_i) (n : Nat) (P1 P2 : List (List Nat))
    (V1 V2 : List (List Int)) (hbig : WeightBound n P1 P2 V1 V2) (M : List Irving.Pair)
    (h : irving n P1 P2 V1 V2 = .ok M) :
    Brute.optStable n P1 P2 V1 V2 = some (Irving.matchingValue V1 V2 M) :=
  irving_optimal_of_remaining' hi (L8b.remaining_j_of_i hi) hbig h

/-- **C03 (obligation (j) in the form of the task statement follows from obligation (i)).**  If on every strict complete
instance the mirror's list of all rotations is a maximal chain of eliminations from the male-optimal matching, then on
every such instance a set of the mirror's rotations can be eliminated in index order iff it is closed in the mirror's
sparse poset graph (soundness AND completeness of the sparse representation). -/
theorem C03_remaining_j_task (hi : Remaining_i) : Remaining_j_task := L8b.remaining_j_task_of_i hi

/-- **C03 (the same at one instance, from the "run" half of (i)).** -/
theorem C03_remaining_j_task_at_of_run (n : Nat) (P1 P2 : List (List Nat)) (V1 V2 : List (List Int))
    (hwf : wfB n P1 P2 V1 V2 = true) (hr : AllRun_at n P1 P2) : Remaining_j_task_at n P1 P2 :=
  remaining_j_task_at_of_run hwf hr

/-- **C03 (completeness of the sparse poset, Gusfield 1987, for the mirror).**  On a strict complete instance whose list of
rotations is a run from the male-optimal matching: every duplicate-free set of rotation numbers that is closed in
`posetGraph` can be eliminated from the male-optimal matching in index order. -/
theorem C03_remaining_j_complete_at_of_run (n : Nat) (P1 P2 : List (List Nat)) (V1 V2 : List (List Int))
    (hwf : wfB n P1 P2 V1 V2 = true) (hr : AllRun_at n P1 P2) : Remaining_j_complete_at n P1 P2 :=
  remaining_j_complete_of_task (remaining_j_task_at_of_run hwf hr)

/-- **C03 (optimality AND totality of the checked mirror from obligation (i) alone).**  If `allRotations` lists a maximal
chain of eliminations on every strict complete instance, then for every input whose total negative rotation weight is
below `sys.maxsize`: every `ok` answer of the checked mirror of `Irving.scf` has the brute-force optimal value, and on
strict complete inputs the run-time checks `check-exposed` / `not-exposed` never fire. -/
theorem C03_irving_total_of_remaining_i (hi : Remaining_i) (n : Nat) (P1 P2 : List (List Nat))
    (V1 V2 : List (List Int)) (hbig : WeightBound n P1 P2 V1 V2) :
    (∀ M, irving n P1 P2 V1 V2 = .ok M →
      Brute.optStable n P1 P2 V1 V2 = some (Irving.matchingValue V1 V2 M)) ∧
    (wfB n P1 P2 V1 V2 = true →
      irving n P1 P2 V1 V2 ≠ .error "check-exposed" ∧ irving n P1 P2 V1 V2 ≠ .error "not-exposed") :=
  irving_optimal_of_remaining_task hi (L8b.remaining_j_task_of_i hi) hbig

/-! ## unconditional results -/

/-- **C03 (the mirror's rotations form a run).**  On every strict complete instance the mirror's list of rotations, in
discovery order, can be eliminated from the male-optimal matching, each rotation non-empty and exposed when its turn comes. -/
theorem C03_allRun_at (n : Nat) (P1 P2 : List (List Nat)) (V1 V2 : List (List Int)) (hwf : wfB n P1 P2 V1 V2 = true) :
    AllRun_at n P1 P2 := allRun_at hwf

/-- **C03 (obligation (i) holds).**  On every strict complete instance `allRotations` lists, in discovery order, a MAXIMAL
chain of eliminations from the male-optimal matching: every rotation is non-empty and exposed when its turn comes,
`eliminate_rotations` does not raise, and no rotation is exposed in the matching it ends in.
(Same statement as package L8a's `C03_remaining_i`.) -/
theorem C03_allRotations_maximal_chain : Remaining_i := L8b.remaining_i

/-- **C03 (obligation (j) holds: the sparse poset graph is sound).** -/
theorem C03_posetGraph_sound : Remaining_j := L8b.remaining_j

/-- **C03 (obligation (j) as in the task statement holds: sound and complete).**  On every strict complete instance a set
of the mirror's rotations can be eliminated from the male-optimal matching in index order iff it is closed in the
mirror's sparse poset graph. -/
theorem C03_posetGraph_sound_complete : Remaining_j_task := L8b.remaining_j_task

/-- **C03 (optimality and totality of the checked mirror of `Irving.scf`).**  For every input whose total negative rotation
weight is below `sys.maxsize`: every `ok` answer has the brute-force optimal value `optStable`, and on strict complete
inputs the run-time checks `check-exposed` / `not-exposed` never fire.  No remaining obligation. -/
theorem C03_irving_optimal (n : Nat) (P1 P2 : List (List Nat)) (V1 V2 : List (List Int))
    (hbig : WeightBound n P1 P2 V1 V2) :
    (∀ M, irving n P1 P2 V1 V2 = .ok M →
      Brute.optStable n P1 P2 V1 V2 = some (Irving.matchingValue V1 V2 M)) ∧
    (wfB n P1 P2 V1 V2 = true →
      irving n P1 P2 V1 V2 ≠ .error "check-exposed" ∧ irving n P1 P2 V1 V2 ≠ .error "not-exposed") :=
  L8b.irving_optimal hbig

/-! ## the ingredients -/

/-- **C03 (Rule 2 of the sparse poset is sound, spec level).**  The rotation `σ'` (exposed in stable `N'`) moves the man
`c` down to `(N'/σ') c`, past the woman `b = N a`, where `(a, b)` is a pair of the rotation `σ` (exposed in stable `N`) and
`b` likes `c` at least as much as `a` (so `σ` is the rotation that deletes `(c, b)` from the lists).  On every elimination
path that starts at a stable `μ` with `rank(μ a) ≤ rank(N a)` (e.g. the man-optimal matching) and eliminates `σ'`, the
rotation `σ` is eliminated too. -/
theorem C03_rule2_sound {n : ℕ} (P1 P2 : Fin n → Fin n → ℕ) (h1 : ∀ a, Function.Injective (P1 a))
    (h2 : ∀ b, Function.Injective (P2 b)) (N N' : Equiv.Perm (Fin n)) (hN : StableSM P1 P2 N)
    (hN' : StableSM P1 P2 N') (σ σ' : List (Fin n)) (hσ : ExposedRot P1 P2 N σ) (hσ' : ExposedRot P1 P2 N' σ')
    (c a : Fin n) (hc' : c ∈ σ') (ha : a ∈ σ) (hjump : P1 c (N a) < P1 c (elim N' σ' c))
    (hw : P2 (N a) c ≤ P2 (N a) a)
    (A : List (List (Fin n))) (μ ν : Equiv.Perm (Fin n)) (hμ : StableSM P1 P2 μ) (hp : ElimPath P1 P2 μ A ν)
    (hstart : P1 a (μ a) ≤ P1 a (N a)) (h' : ∃ r ∈ pathPairs μ A, r ~r rotPairs N' σ') :
    ∃ r ∈ pathPairs μ A, r ~r rotPairs N σ :=
  precedes_of_jumped_woman h1 h2 hN hN' hσ hσ' hc' ha hjump hw hμ hp hstart h'

/-- **C03 (the men's shortlists, exactly).**  For strict complete profiles and a perfect matching `mu` (as a list), `w`
is on `m`'s shortlist iff `m` does not prefer his partner … i.e. `rank_m(mu m) ≤ rank_m(w)` and
`rank_w(m) ≤ rank_w(partner of w)`. -/
theorem C03_mem_shortlists_fst (n : Nat) (P1 P2 : List (List Nat)) (mu : List Nat)
    (hP1 : ∀ i, i < n → permRowB n (P1.getD i []) = true) (hP2 : ∀ j, j < n → permRowB n (P2.getD j []) = true)
    (hmu : mu.Perm (List.range n)) (m w : Nat) :
    w ∈ (shortlists n P1 P2 mu).1.getD m [] ↔
      m < n ∧ w < n ∧ rankOf P1 m (mu.getD m n) ≤ rankOf P1 m w ∧ rankOf P2 w m ≤ rankOf P2 w (mu.idxOf w) :=
  mem_shortlists_fst n P1 P2 mu hP1 hP2 hmu m w

/-- **C03 (the women's shortlists, exactly).** -/
theorem C03_mem_shortlists_snd (n : Nat) (P1 P2 : List (List Nat)) (mu : List Nat)
    (hP1 : ∀ i, i < n → permRowB n (P1.getD i []) = true) (hP2 : ∀ j, j < n → permRowB n (P2.getD j []) = true)
    (hmu : mu.Perm (List.range n)) (m w : Nat) :
    m ∈ (shortlists n P1 P2 mu).2.getD w [] ↔
      m < n ∧ w < n ∧ rankOf P1 m (mu.getD m n) ≤ rankOf P1 m w ∧ rankOf P2 w m ≤ rankOf P2 w (mu.idxOf w) :=
  mem_shortlists_snd n P1 P2 mu hP1 hP2 hmu m w

/-- **C03 (the shortlists are sorted by rank).** -/
theorem C03_shortlists_sorted (n : Nat) (P1 P2 : List (List Nat)) (mu : List Nat)
    (hP1 : ∀ i, i < n → permRowB n (P1.getD i []) = true) (hP2 : ∀ j, j < n → permRowB n (P2.getD j []) = true)
    (m w : Nat) :
    ((shortlists n P1 P2 mu).1.getD m []).Pairwise (fun a b => rankOf P1 m a < rankOf P1 m b) ∧
      ((shortlists n P1 P2 mu).2.getD w []).Pairwise (fun a b => rankOf P2 w a < rankOf P2 w b) :=
  ⟨shortlists_fst_pairwise n P1 P2 mu hP1 m, shortlists_snd_pairwise n P1 P2 mu hP2 w⟩

/-- **C03 (every stable pair is on the shortlists).**  On a strict complete instance with male-optimal matching `M0`, for
every stable matching `ν` and man `a`: `ν a` is on `a`'s shortlist and `a` is on `ν a`'s shortlist. -/
theorem C03_stable_pair_on_shortlists (n : Nat) (P1 P2 : List (List Nat)) (V1 V2 : List (List Int))
    (hwf : wfB n P1 P2 V1 V2 = true) (M0 : List Irving.Pair) (hmo : maleOptimal n P1 P2 = some M0)
    (ν : Equiv.Perm (Fin n)) (hν : StableSM (rk n P1) (rk n P2) ν) (a : Fin n) :
    ((ν a : Fin n) : Nat) ∈ (shortlists n P1 P2 (muOf n M0)).1.getD a [] ∧
      (a : Nat) ∈ (shortlists n P1 P2 (muOf n M0)).2.getD (ν a) [] :=
  stable_pair_mem_wf hwf hmo hν a

/-- **C03 (where the edges of the sparse poset graph come from).**  For ANY lists of rotations, shortlists and eliminating
map: every edge `x → y` of `posetGraph` was put by Rule 1 (pairs `(m, w)`, `(m, w')` with `rotation_of_pair = x`, `y`, and `w`
before `w'` on `m`'s list) or by Rule 2 (`rotation_of_pair[(m, w)] = y`, `eliminating_rotations_of_pair[(m, w')] = x`, and
`w'` before the next woman of `m` in rotation `y` on `m`'s list). -/
theorem C03_edge_source (rots : List (List Irving.Pair)) (l1 : List (List Nat)) (elim : List (Irving.Pair × Nat))
    (x y : Nat) (h : y ∈ (posetGraph rots l1 elim).getD x []) : EdgeSrc rots l1 elim x y :=
  edgesFrom_posetGraph rots l1 elim x y h

/-- **C03 (`rotation_of_pair` points to a rotation containing the pair).** -/
theorem C03_rotOfPair_mem (rots : List (List Irving.Pair)) (p : Irving.Pair) (i : Nat)
    (h : dictGet? (rotOfPair rots) p = some i) : p ∈ rots.getD i [] :=
  dictAll_get (rotOfPair_mem rots) h

/-- **C03 (what `eliminating_rotations_of_pair` records).**  On a strict complete instance whose list of rotations `all`
is a run from the male-optimal matching: if `eliminating_rotations_of_pair[(m, w)] = π` then `w` is a woman of rotation
number `π` and she likes `m` at least as much as her husband in that rotation (so `π` really moves `w` past `m`). -/
theorem C03_elim_good (n : Nat) (P1 P2 : List (List Nat)) (V1 V2 : List (List Int))
    (hwf : wfB n P1 P2 V1 V2 = true) (M0 : List Irving.Pair) (hmo : maleOptimal n P1 P2 = some M0)
    (all : List (List Irving.Pair)) (elim : List (Irving.Pair × Nat))
    (hall : allRotations (shortlists n P1 P2 (muOf n M0)).1 (shortlists n P1 P2 (muOf n M0)).2 = some (all, elim))
    (hexp : Irving.exposedAllB P1 P2 M0 all = true) (hne : ∀ r ∈ all, r ≠ []) (m w pi : Nat)
    (h : dictGet? elim (m, w) = some pi) : ElimGood P2 all m w pi :=
  elim_good_wf hwf hmo hall hexp hne h

/-- **C03 (one `elimRot` keeps the women's lists right).**  Woman `w`'s current list consists of the men of her initial
shortlist whom she likes at least as much as her husband in the current stable matching `μ`, in her order (`L2Inv`);
eliminating a rotation `ρ` exposed in `μ` re-establishes this for `μ/ρ`, keeps all entries of
`eliminating_rotations_of_pair` good (`ElimOK`), keeps "every pair that has left the women's lists has an entry" (`EIInv`)
and increments the rotation counter. -/
theorem C03_elimRot_inv (n : Nat) (P1 P2 : List (List Nat)) (V1 V2 : List (List Int))
    (hwf : wfB n P1 P2 V1 V2 = true) (M0 : List Irving.Pair) (hmo : maleOptimal n P1 P2 = some M0)
    (all : List (List Irving.Pair)) (μ : Equiv.Perm (Fin n)) (hμ : StableSM (rk n P1) (rk n P2) μ)
    (ρ : List (Fin n)) (hex : ExposedRot (rk n P1) (rk n P2) μ ρ) (st : LvSt)
    (hinv : L2Inv P2 (shortlists n P1 P2 (muOf n M0)).2 (husb μ) st.l2)
    (hel : ∀ e ∈ st.elim, ElimOK P2 all e.1.1 e.1.2 e.2)
    (hei : EIInv (shortlists n P1 P2 (muOf n M0)).2 st) (hcur : all.getD st.cnt [] = rotPairs μ ρ) :
    L2Inv P2 (shortlists n P1 P2 (muOf n M0)).2 (husb (elim μ ρ)) (elimRot st (rotPairs μ ρ)).l2 ∧
      (∀ e ∈ (elimRot st (rotPairs μ ρ)).elim, ElimOK P2 all e.1.1 e.1.2 e.2) ∧
      EIInv (shortlists n P1 P2 (muOf n M0)).2 (elimRot st (rotPairs μ ρ)) ∧
      (elimRot st (rotPairs μ ρ)).cnt = st.cnt + 1 :=
  elimRot_inv_wf hwf hmo hμ hex st hinv hel hei hcur

/-- **C03 (what `find_all_rotations_and_eliminations` guarantees).**  On a strict complete instance whose list of
rotations `all` is a run from the male-optimal matching: the run ends in a stable matching `μz`, every entry of
`eliminating_rotations_of_pair` is `ElimOK`, and every pair `(m, w)` of the initial shortlists such that `w` strictly
prefers her final husband to `m` has an entry. -/
theorem C03_allRotations_elim_facts (n : Nat) (P1 P2 : List (List Nat)) (V1 V2 : List (List Int))
    (hwf : wfB n P1 P2 V1 V2 = true) (M0 : List Irving.Pair) (hmo : maleOptimal n P1 P2 = some M0)
    (all : List (List Irving.Pair)) (elim : List (Irving.Pair × Nat))
    (hall : allRotations (shortlists n P1 P2 (muOf n M0)).1 (shortlists n P1 P2 (muOf n M0)).2 = some (all, elim))
    (hexp : Irving.exposedAllB P1 P2 M0 all = true) (hne : ∀ r ∈ all, r ≠ []) :
    ∃ Mz μz, Irving.eliminateAll M0 all = some Mz ∧ Rep Mz μz ∧ StableSM (rk n P1) (rk n P2) μz ∧
      (∀ e ∈ elim, ElimOK P2 all e.1.1 e.1.2 e.2) ∧
      ∀ m w, m ∈ (shortlists n P1 P2 (muOf n M0)).2.getD w [] → rankOf P2 w (husb μz w) < rankOf P2 w m →
        (dictGet? elim (m, w)).isSome :=
  elim_facts_wf hwf hmo hall hexp hne

/-- **C03 (`scanMan` puts every edge of Rules 1 and 2).**  While `posetGraph` scans man `m`'s shortlist
`r1 ++ w' :: r2`, if the last woman of `r1` that is in a rotation with `m` is `w`, in rotation `rho` (`stepCur` folded over
`r1`), then: if `(m, w')` is in rotation `rho'`, the graph has the edge `rho → rho'`; if `(m, w')` is in no rotation, has the
eliminating rotation `pi` and `w'` comes before the next woman of `m` in `rho`, the graph has the edge `pi → rho`. -/
theorem C03_posetGraph_edge (rots : List (List Irving.Pair)) (l1 : List (List Nat)) (elim : List (Irving.Pair × Nat))
    (m : Nat) (hm : m < l1.length) (r1 : List Nat) (w' : Nat) (r2 : List Nat) (hL : l1.getD m [] = r1 ++ w' :: r2)
    (w rho : Nat) (hcur : r1.foldl (stepCur (rotOfPair rots) m) none = some (w, rho)) :
    (∀ rho', dictGet? (rotOfPair rots) (m, w') = some rho' → rho < rots.length →
      rho' ∈ (posetGraph rots l1 elim).getD rho []) ∧
    (∀ pi, dictGet? (rotOfPair rots) (m, w') = none → dictGet? elim (m, w') = some pi →
      (l1.getD m []).idxOf w' < (l1.getD m []).idxOf (wnextOf rots rho m w) → pi < rots.length →
      rho ∈ (posetGraph rots l1 elim).getD pi []) :=
  posetGraph_edge rots l1 elim m hm r1 w' r2 hL w rho hcur

theorem C03_stepCur_eq (rop : List (Irving.Pair × Nat)) (m : Nat) (cur : Option (Nat × Nat)) (w' : Nat) :
    stepCur rop m cur w' = match dictGet? rop (m, w') with
      | some r => some (w', r)
      | none => cur := rfl

/-- **C03 (a path whose rotations all lie on another path ends above it).** -/
theorem C03_le_of_rotations_subset {n : ℕ} (P1 P2 : Fin n → Fin n → ℕ) (h1 : ∀ a, Function.Injective (P1 a))
    (h2 : ∀ b, Function.Injective (P2 b)) (μ : Equiv.Perm (Fin n)) (hμst : StableSM P1 P2 μ)
    (T : List (List (Fin n))) (μs κ : Equiv.Perm (Fin n)) (A : List (List (Fin n))) (hs : StableSM P1 P2 μs)
    (hT : ElimPath P1 P2 μs T κ) (hA : ElimPath P1 P2 μs A μ)
    (hsub : ∀ r ∈ pathPairs μs T, ∃ r' ∈ pathPairs μs A, r' ~r r) : MLe P1 κ μ :=
  le_of_rotations_subset h1 h2 hμst T μs κ A hs hT hA hsub

/-- **C03 (the husband a rotation gives to a woman bounds her husbands below the rotation).**  `σ` exposed in stable `N`,
`a ∈ σ`, and `κ` a stable matching in which `a` is strictly worse off than in `N`: then the woman `N a` likes her
`κ`-husband at least as much as her husband in `N/σ`. -/
theorem C03_woman_after_rotation {n : ℕ} (P1 P2 : Fin n → Fin n → ℕ) (h1 : ∀ a, Function.Injective (P1 a))
    (h2 : ∀ b, Function.Injective (P2 b)) (N κ : Equiv.Perm (Fin n)) (hN : StableSM P1 P2 N)
    (hκ : StableSM P1 P2 κ) (σ : List (Fin n)) (hσ : ExposedRot P1 P2 N σ) (a : Fin n) (ha : a ∈ σ)
    (hlt : P1 a (N a) < P1 a (κ a)) :
    P2 (N a) (κ.symm (N a)) ≤ P2 (N a) ((elim N σ).symm (N a)) :=
  woman_after_rotation h1 h2 hN hκ hσ ha hlt

/-- **C03 (the first rotation that moves a man).**  On a path from stable `μ` to `ν` with `μ c ≠ ν c`, some rotation of the
path contains `c` together with his `μ`-wife. -/
theorem C03_first_mover {n : ℕ} (P1 P2 : Fin n → Fin n → ℕ) (h1 : ∀ a, Function.Injective (P1 a)) (c : Fin n)
    (A : List (List (Fin n))) (μ ν : Equiv.Perm (Fin n)) (hμ : StableSM P1 P2 μ) (hp : ElimPath P1 P2 μ A ν)
    (hne : μ c ≠ ν c) : ∃ N σ, rotPairs N σ ∈ pathPairs μ A ∧ c ∈ σ ∧ N c = μ c :=
  first_mover h1 c A μ ν hμ hp hne

/-- **C03 (the context of an instance).**  A strict complete instance with male-optimal matching `M0` has a context `JCtx`:
injective ranks, `M0` represents THE man-optimal stable matching `μ0`, the rows are permutation rows. -/
theorem C03_jctx_of_wf (n : Nat) (P1 P2 : List (List Nat)) (V1 V2 : List (List Int)) (hwf : wfB n P1 P2 V1 V2 = true)
    (M0 : List Irving.Pair) (hmo : maleOptimal n P1 P2 = some M0) : ∃ μ0, JCtx n P1 P2 M0 μ0 :=
  jctx_of_wf hwf hmo

theorem C03_jLevelInv_iff {n : Nat} {P1 P2 : List (List Nat)} {M0 : List Irving.Pair} {μ0 : Equiv.Perm (Fin n)}
    (C : JCtx n P1 P2 M0 μ0) (μ : Equiv.Perm (Fin n)) (st : LvSt) :
    JLevelInv C μ st ↔
      StableSM (rk n P1) (rk n P2) μ ∧ L2Inv P2 (shortlists n P1 P2 (muOf n M0)).2 (husb μ) st.l2 ∧ PM2Inv st ∧
      st.l1.length = n ∧
      ∀ m : Fin n, ∃ pre post, (shortlists n P1 P2 (muOf n M0)).1.getD m [] = pre ++ ((μ m : Fin n) : Nat) :: post ∧
        st.l1.getD m [] = ((μ m : Fin n) : Nat) :: post.dropWhile (fun j => !((st.pm2.getD j []).getD m false)) :=
  ⟨fun h => ⟨h.stable, h.l2, h.pm2, h.len1, h.l1⟩, fun h => ⟨h.1, h.2.1, h.2.2.1, h.2.2.2.1, h.2.2.2.2⟩⟩

/-- **C03 (the level invariant holds initially)**, for the state `allRotations` starts from and the male-optimal matching. -/
theorem C03_jLevelInv_init {n : Nat} {P1 P2 : List (List Nat)} {M0 : List Irving.Pair} {μ0 : Equiv.Perm (Fin n)}
    (C : JCtx n P1 P2 M0 μ0) :
    JLevelInv C μ0
      { l1 := (shortlists n P1 P2 (muOf n M0)).1, l2 := (shortlists n P1 P2 (muOf n M0)).2,
        pm2 := (List.range (shortlists n P1 P2 (muOf n M0)).1.length).map (fun j =>
          (List.range (shortlists n P1 P2 (muOf n M0)).1.length).map (fun i =>
            ((shortlists n P1 P2 (muOf n M0)).2.getD j []).contains i)),
        elim := [], cnt := 0 } :=
  jLevelInv_init C

/-- **C03 (the level invariant is kept by `menUpdate`).**  If the women's lists and the matrix have been brought to a stable
matching `μ'` below `μ` while the men's lists were not touched, the `menUpdate` pass re-establishes the invariant for `μ'`. -/
theorem C03_jLevelInv_step {n : Nat} {P1 P2 : List (List Nat)} {M0 : List Irving.Pair} {μ0 : Equiv.Perm (Fin n)}
    (C : JCtx n P1 P2 M0 μ0) (μ μ' : Equiv.Perm (Fin n)) (st st' : LvSt) (hinv : JLevelInv C μ st)
    (hμ' : StableSM (rk n P1) (rk n P2) μ') (hle : MLe (rk n P1) μ μ')
    (hl2' : L2Inv P2 (shortlists n P1 P2 (muOf n M0)).2 (husb μ') st'.l2) (hpm' : PM2Inv st') (hl1 : st'.l1 = st.l1) :
    JLevelInv C μ' { st' with l1 := (List.range st'.l1.length).map (fun i => menUpdate st'.pm2 i (st'.l1.getD i [])) } :=
  jLevelInv_step C hinv hμ' hle hl2' hpm' hl1

/-- **C03 (`outEdge` is the next-man function).**  Under the level invariant, an out-edge `i → i'` of `find_rotations`'
graph means that the wife of `i'` is the successor woman `s_μ(i)`; conversely a man with a successor woman has the
out-edge to her husband. -/
theorem C03_outEdge_spec {n : Nat} {P1 P2 : List (List Nat)} {M0 : List Irving.Pair} {μ0 : Equiv.Perm (Fin n)}
    (C : JCtx n P1 P2 M0 μ0) (μ : Equiv.Perm (Fin n)) (st : LvSt) (hinv : JLevelInv C μ st) :
    (∀ i i', outEdge st.l1 st.l2 i = some i' →
      ∃ m m' : Fin n, i = (m : Nat) ∧ i' = (m' : Nat) ∧ IsSucc (rk n P1) (rk n P2) μ m (μ m')) ∧
    (∀ m b : Fin n, IsSucc (rk n P1) (rk n P2) μ m b → outEdge st.l1 st.l2 m = some ((μ.symm b : Fin n) : Nat)) :=
  ⟨fun _ _ h => outEdge_spec hinv h, fun _ _ h => outEdge_of_succ hinv h⟩

/-- **C03 (`find_rotations` is sound).**  Under the level invariant every rotation it returns is the pairs form of a rotation
exposed in the current stable matching, and different ones have no man in common. -/
theorem C03_findRotations_sound {n : Nat} {P1 P2 : List (List Nat)} {M0 : List Irving.Pair} {μ0 : Equiv.Perm (Fin n)}
    (C : JCtx n P1 P2 M0 μ0) (μ : Equiv.Perm (Fin n)) (st : LvSt) (hinv : JLevelInv C μ st) :
    (∀ rho ∈ findRotations st.l1 st.l2, ∃ ρ : List (Fin n), rho = rotPairs μ ρ ∧ ExposedRot (rk n P1) (rk n P2) μ ρ) ∧
      (findRotations st.l1 st.l2).Pairwise (fun r r' => ∀ p ∈ r, ∀ q ∈ r', p.1 ≠ q.1) :=
  findRotations_spec hinv

/-- **C03 (`find_rotations` finds a rotation whenever one is exposed).** -/
theorem C03_findRotations_ne_nil {n : Nat} {P1 P2 : List (List Nat)} {M0 : List Irving.Pair} {μ0 : Equiv.Perm (Fin n)}
    (C : JCtx n P1 P2 M0 μ0) (μ : Equiv.Perm (Fin n)) (st : LvSt) (hinv : JLevelInv C μ st) (ρ : List (Fin n))
    (hex : ExposedRot (rk n P1) (rk n P2) μ ρ) : findRotations st.l1 st.l2 ≠ [] :=
  findRotations_ne_nil hinv hex

theorem C03_l2Inv_iff (P2 l20 : List (List Nat)) (q : Nat → Nat) (l2 : List (List Nat)) :
    L2Inv P2 l20 q l2 ↔
      ∀ w, (l2.getD w []).Pairwise (fun a b => rankOf P2 w a < rankOf P2 w b) ∧
        ∀ m, m ∈ l2.getD w [] ↔ m ∈ l20.getD w [] ∧ rankOf P2 w m ≤ rankOf P2 w (q w) := Iff.rfl

/-! ## Non-vacuity

* the 3×3 Latin-square instance satisfies `Remaining_i_at`, so `C03_remaining_j_at` applies to it (its only edge is a
  Rule-1 edge);
* a 4×4 instance with two rotations without a common man whose only edge `0 → 1` is a RULE-2 edge: its rotations form a run
  (`AllRun_at`, checked by evaluation), so `C03_remaining_j_at_of_run` applies. -/

example : Remaining_j_at 3 exL1 exL2 :=
  C03_remaining_j_at 3 exL1 exL2 [[0,0,0],[0,0,0],[0,0,0]] [[0,0,0],[0,0,0],[0,0,0]] (by decide +kernel)
    exLatin_remaining_i

example : maleOptimal 4 ex2P1 ex2P2 = some ex2M0 := ex2_maleOptimal
example : allRotations (shortlists 4 ex2P1 ex2P2 (muOf 4 ex2M0)).1 (shortlists 4 ex2P1 ex2P2 (muOf 4 ex2M0)).2
    = some (ex2All, ex2Elim) := ex2_allRotations
example : posetGraph ex2All (shortlists 4 ex2P1 ex2P2 (muOf 4 ex2M0)).1 ex2Elim = [[1], []] := ex2_posetGraph
example : AllRun_at 4 ex2P1 ex2P2 := ex2_allRun
example : Remaining_j_at 4 ex2P1 ex2P2 :=
  C03_remaining_j_at_of_run 4 ex2P1 ex2P2 _ _ ex2_wfB ex2_allRun
/-- the edge `0 → 1` of the 4×4 instance is put by Rule 2 for man `3` (wife `1` in rotation 1, jumped woman `0`, next
woman `2`); with an empty eliminating map there is no edge at all -/
example :
    dictGet? (rotOfPair ex2All) (3, 1) = some 1 ∧ dictGet? (rotOfPair ex2All) (3, 0) = none ∧
      dictGet? ex2Elim (3, 0) = some 0 ∧ wnextOf ex2All 1 3 1 = 2 ∧
      (shortlists 4 ex2P1 ex2P2 (muOf 4 ex2M0)).1.getD 3 [] = [1, 0, 2] ∧
      posetGraph ex2All (shortlists 4 ex2P1 ex2P2 (muOf 4 ex2M0)).1 [] = [[], []] := ex2_rule2
example : ∃ μ0, JCtx 4 ex2P1 ex2P2 ex2M0 μ0 := C03_jctx_of_wf 4 ex2P1 ex2P2 _ _ ex2_wfB ex2M0 ex2_maleOptimal
example : Remaining_i_at 4 ex2P1 ex2P2 := C03_allRotations_maximal_chain 4 ex2P1 ex2P2 _ _ ex2_wfB
/-- the task form of (j) on the 4×4 instance: e.g. `{1}` is not closed (the edge `0 → 1`), and indeed rotation 1 alone
cannot be eliminated; `{0}` and `{0, 1}` are closed and can -/
example : Remaining_j_task_at 4 ex2P1 ex2P2 :=
  C03_remaining_j_task_at_of_run 4 ex2P1 ex2P2 _ _ ex2_wfB ex2_allRun
example : Irving.exposedAllB ex2P1 ex2P2 ex2M0 (idxSub ex2All (fun i => i == 1)) = false ∧
    Irving.exposedAllB ex2P1 ex2P2 ex2M0 (idxSub ex2All (fun i => i == 0)) = true ∧
    Irving.exposedAllB ex2P1 ex2P2 ex2M0 (idxSub ex2All (fun _ => true)) = true := by decide +kernel
example : ElimGood ex2P2 ex2All 3 0 0 := ⟨1, by decide, by decide⟩
example : EdgeSrc ex2All (shortlists 4 ex2P1 ex2P2 (muOf 4 ex2M0)).1 ex2Elim 0 1 :=
  C03_edge_source _ _ _ 0 1 (by rw [ex2_posetGraph]; decide)
