import Sck.Proofs.Copeland
import Sck.Proofs.Stv4

/-! # C12 — Copeland and STV follow their definitions

"Copeland's score of an alternative equals the number of alternatives it beats in a strict pairwise
majority minus the number that beat it, so a Condorcet winner is always the unique Copeland winner.
STV returns the alternative that survives when the alternative with the fewest first places among the
remaining ones is eliminated repeatedly (the lowest-numbered such alternative under the 'first'
tie-breaker, some such alternative under 'random'), so an alternative ranked first by a strict majority
of voters always wins."

Models: `Vote.copeland`, `Vote.winnersI`, `Vote.scfI` (`Sck/Model/Voting.lean`); `stv`, `stvLoop`,
`stvReplay` (`Sck/Model/Stv.lean`).  Specification-side definitions: `C12.wfB`, `C12.firstAmong`,
`C12.firstCount` (`Sck/Model/C12Spec.lean`, executable), `C12.beats` (`Sck/Proofs/Copeland.lean`),
`C12.StvRun` (`Sck/Proofs/Stv2.lean`), `C12.StvSpec`, `C12.StvSpecFirst` (`Sck/Proofs/Stv4.lean`).
Property theorems only; helper lemmas live in `Sck/Proofs`. -/

namespace C12
open Vote

/-! ## Well-formedness -/

/-- the decidable check `wfB P m` says exactly: every ballot is a permutation of `1..m` -/
theorem C12_wfB_iff (P : List (List Nat)) (m : Nat) :
    wfB P m = true ↔ ∀ row ∈ P, row.Perm (List.range' 1 m) :=
  wfB_iff P m

/-- … hence has length `m`, no repeated rank (strict), and all ranks in `1..m` -/
theorem C12_wfB_sound (P : List (List Nat)) (m : Nat) (h : wfB P m = true) :
    ∀ row ∈ P, row.length = m ∧ row.Nodup ∧ ∀ r ∈ row, 1 ≤ r ∧ r ≤ m :=
  wfB_sound P m h

/-! ## Copeland -/

/-- the model's net preference of `a` over `b` is positive iff strictly more voters rank `a` above `b`
than `b` above `a` -/
theorem C12_copelandNet_pos_iff (P : Profile) (a b : Nat) : 0 < copelandNet P a b ↔ beats P a b :=
  copelandNet_pos_iff P a b

/-- on a strict ballot every voter contributes `+1` or `−1` to the net preference between two different
alternatives -/
theorem C12_ballot_contrib (row : List Nat) (a b : Nat) (hnd : row.Nodup) (ha : a < row.length)
    (hb : b < row.length) (hab : a ≠ b) :
    sgn ((row.getD b 0 : Int) - (row.getD a 0 : Int)) = 1 ∨
      sgn ((row.getD b 0 : Int) - (row.getD a 0 : Int)) = -1 :=
  ballot_contrib row a b hnd ha hb hab

/-- **Copeland's score = #alternatives beaten − #alternatives that beat it** (any profile) -/
theorem C12_copeland_def (P : Profile) (m a : Nat) (ha : a < m) :
    (copeland P m)[a]'(by rw [copeland_length]; exact ha) =
      (((List.range m).filter (fun b => decide (beats P a b))).length : Int) -
        (((List.range m).filter (fun b => decide (beats P b a))).length : Int) :=
  copeland_def P m a ha

/-- **a Condorcet winner is the unique Copeland winner** -/
theorem C12_condorcet_unique_copeland_winner (P : Profile) (m a : Nat) (ha : a < m)
    (hc : ∀ b, b < m → b ≠ a → beats P a b) : winnersI (copeland P m) = [a] :=
  condorcet_unique_copeland_winner P m a ha hc

/-- … so `scf` returns it under every tie-breaker -/
theorem C12_condorcet_scf (P : Profile) (m a fixer : Nat) (ha : a < m)
    (hc : ∀ b, b < m → b ≠ a → beats P a b) :
    scfI fixer .accept (copeland P m) = some [a + fixer] ∧
    scfI fixer .first (copeland P m) = some [a + fixer] ∧
    scfI fixer (.random 0) (copeland P m) = some [a + fixer] := by
  simp [scfI, breakTie, shift, condorcet_unique_copeland_winner P m a ha hc]

/-! ## STV: one round -/

/-- **the reduced profile**: deleting column `d` turns a permutation of `1..m` into a permutation of
`1..m−1`, and any two surviving alternatives compare as before -/
theorem C12_stv_reduced_profile (row : List Nat) (m d : Nat) (h : row.Perm (List.range' 1 m))
    (hd : d < m) :
    (dropRow row d).Perm (List.range' 1 (m - 1)) ∧
    ∀ a b, a < m → b < m → a ≠ d → b ≠ d →
      ((dropRow row d).getD (dn d a) 0 < (dropRow row d).getD (dn d b) 0 ↔ row.getD a 0 < row.getD b 0) :=
  stv_reduced_profile row m d h hd

/-- one round of the `first` loop drops the head of the list of minimal columns … -/
theorem C12_stv_first_step (fuel : Nat) (P : List (List Nat)) (a b : Nat) (rest : List Nat) :
    stvLoop (fun c => c.headD 0) (fuel + 1) P (a :: b :: rest) =
      stvLoop (fun c => c.headD 0) fuel
        (P.map (fun row => dropRow row
          ((argmins (pluralityScores P (rest.length + 2))).head (argmins_scores_ne_nil P _ (by omega)))))
        ((a :: b :: rest).eraseIdx
          ((argmins (pluralityScores P (rest.length + 2))).head (argmins_scores_ne_nil P _ (by omega)))) :=
  stv_first_step fuel P a b rest

/-- … which is minimal and has the lowest index among the minimal columns -/
theorem C12_stv_first_lowest (P : List (List Nat)) (w : Nat) (hw : 0 < w) :
    (argmins (pluralityScores P w)).head (argmins_scores_ne_nil P w hw) ∈ argmins (pluralityScores P w) ∧
    ∀ j ∈ argmins (pluralityScores P w),
      (argmins (pluralityScores P w)).head (argmins_scores_ne_nil P w hw) ≤ j :=
  stv_first_lowest P w hw

/-- **`stv_def`**: after any sequence of eliminations `ds`, the scores computed for the next round are the
numbers of voters who rank that remaining alternative first among the remaining ones on their ORIGINAL
ballot -/
theorem C12_stv_def (P0 : List (List Nat)) (m : Nat) (hwf : wfB P0 m = true) (ds : List Nat)
    (hl : legalDrops ds m) (p : Nat) (hp : p < (dropsL ds (List.range m)).length) :
    (pluralityScores (dropsP ds P0) (dropsL ds (List.range m)).length).getD p 0 =
      firstCount P0 (dropsL ds (List.range m)) ((dropsL ds (List.range m)).getD p 0) :=
  stv_def P0 m hwf ds hl p hp

/-! ## STV: the whole run -/

/-- the loop and the replay are sound w.r.t. "some legal elimination sequence" (`StvRun`), and every
legal sequence is a replay -/
theorem C12_stvLoop_sound (choose : List Nat → Nat) (hchoose : ∀ c, c ≠ [] → choose c ∈ c)
    (fuel : Nat) (P : List (List Nat)) (labels : List Nat) (w : Nat)
    (h : stvLoop choose fuel P labels = some w) : StvRun P labels w :=
  stvLoop_sound choose hchoose fuel P labels w h

theorem C12_stvReplay_sound (choices : List Nat) (P : List (List Nat)) (labels : List Nat) (w : Nat) :
    stvReplay choices P labels = some w → StvRun P labels w :=
  stvReplay_sound choices P labels w

theorem C12_stvRun_iff_replay (P : List (List Nat)) (labels : List Nat) (w : Nat) :
    StvRun P labels w ↔ ∃ choices, stvReplay choices P labels = some w :=
  stvRun_iff_replay P labels w

/-- **'random' tie-breaker**: the results of successful replays are exactly the results of the textbook
procedure on the original profile (eliminate SOME alternative with the fewest first places among the
remaining ones) -/
theorem C12_stv_random (P : List (List Nat)) (m fixer w : Nat) (hwf : wfB P m = true) :
    (∃ choices, stvReplay choices P ((List.range m).map (· + fixer)) = some w) ↔
      ∃ w0, w = w0 + fixer ∧ StvSpec P (List.range m) w0 := by
  rw [← stvRun_iff_replay]; exact stvRun_iff_spec P m fixer w hwf

/-- any tie-breaker that picks among the minimal alternatives: the loop terminates with an alternative
that the textbook procedure can produce -/
theorem C12_stv_any (choose : List Nat → Nat) (hchoose : ∀ c, c ≠ [] → choose c ∈ c)
    (P : List (List Nat)) (m fixer : Nat) (hwf : wfB P m = true) (hm : 0 < m) :
    ∃ w0, stv choose P m fixer = some (w0 + fixer) ∧ StvSpec P (List.range m) w0 := by
  obtain ⟨w, hw⟩ := stvLoop_total choose hchoose m P ((List.range m).map (· + fixer))
    (by intro h; have := congrArg List.length h; simp at this; omega) (by simp)
  obtain ⟨w0, rfl, hs⟩ := (stvRun_iff_spec P m fixer w hwf).mp (stvLoop_sound choose hchoose _ _ _ _ hw)
  exact ⟨w0, hw, hs⟩

/-- **'first' tie-breaker**: `stv` returns `w` iff `w` is THE alternative left by the textbook procedure
that always eliminates the lowest-numbered alternative with the fewest first places among the remaining
ones -/
theorem C12_stv_first (P : List (List Nat)) (m fixer w : Nat) (hwf : wfB P m = true) (hm : 0 < m) :
    stv (fun c => c.headD 0) P m fixer = some w ↔
      ∃ w0, w = w0 + fixer ∧ StvSpecFirst P (List.range m) w0 := by
  constructor
  · intro h; exact stvLoop_first_spec fixer m P (List.range m) w (redInv_init P m hwf) h
  · rintro ⟨w0, rfl, hs⟩
    obtain ⟨w, hw⟩ := stvLoop_total (fun c => c.headD 0)
      (fun c hc => by rw [headD_eq_head c hc]; exact List.head_mem hc) m P
      ((List.range m).map (· + fixer))
      (by intro h; have := congrArg List.length h; simp at this; omega) (by simp)
    obtain ⟨w1, rfl, hs1⟩ := stvLoop_first_spec fixer m P (List.range m) w (redInv_init P m hwf) hw
    rw [hs.unique w1 hs1] at hw; exact hw

/-- the `first` procedure is deterministic and a special case of the general one -/
theorem C12_stvSpecFirst_unique (P0 : List (List Nat)) (alive : List Nat) (w w' : Nat)
    (h : StvSpecFirst P0 alive w) (h' : StvSpecFirst P0 alive w') : w' = w :=
  h.unique w' h'

theorem C12_stvSpecFirst_toSpec (P0 : List (List Nat)) (alive : List Nat) (w : Nat)
    (h : StvSpecFirst P0 alive w) : StvSpec P0 alive w :=
  h.toSpec

/-! ## STV: the majority favourite -/

/-- **an alternative ranked first by a strict majority of the voters wins**: it is the result of the loop
for every tie-breaker picking among the minimal alternatives, of every successful replay of a random run,
and of every run of the textbook procedure -/
theorem C12_stv_majority_winner (P : List (List Nat)) (m a fixer : Nat) (hwf : wfB P m = true)
    (ha : a < m) (hmaj : P.length < 2 * colCount1 P a) :
    (∀ choose : List Nat → Nat, (∀ c, c ≠ [] → choose c ∈ c) → stv choose P m fixer = some (a + fixer)) ∧
    (∀ choices w, stvReplay choices P ((List.range m).map (· + fixer)) = some w → w = a + fixer) ∧
    (∀ w0, StvSpec P (List.range m) w0 → w0 = a) := by
  have hinv := majority_inv P m a fixer hwf ha hmaj
  refine ⟨fun choose hc => ?_, fun choices w h => ?_, fun w0 h => ?_⟩
  · exact stvLoop_majority choose hc m P _ (a + fixer) a hinv (by simp)
  · exact stvRun_majority P _ w (stvReplay_sound choices P _ w h) _ _ hinv
  · have := stvRun_majority P _ _ (spec_to_stvRun fixer h P (redInv_init P m hwf)) _ _ hinv
    omega

/-! ## Non-vacuity on concrete instances -/

/-- the 5-voter, 3-alternative profile of the task -/
def Pex : List (List Nat) := [[1,2,3],[2,1,3],[3,1,2],[3,2,1],[1,3,2]]

/-- a profile in which alternative 0 is ranked first by 3 of 5 voters -/
def Pmaj : List (List Nat) := [[1,2,3],[1,3,2],[1,2,3],[2,1,3],[3,2,1]]

example : wfB Pex 3 = true := by decide
example : wfB Pmaj 3 = true := by decide
-- a non-permutation is rejected
example : wfB [[1,2,2]] 3 = false := by decide

-- Copeland: alternative 1 is the Condorcet winner of `Pex`
example : ∀ b, b < 3 → b ≠ 1 → beats Pex 1 b := by decide
example : copeland Pex 3 = [0, 2, -2] := by decide
example : winnersI (copeland Pex 3) = [1] := by decide
example : beats Pex 1 0 ∧ ¬ beats Pex 0 1 ∧ beats Pex 0 2 := by decide

-- STV on `Pex` (first places 2,2,1: alternative 2 goes, then 3:2 for alternative 1)
example : stv (fun c => c.headD 0) Pex 3 1 = some 2 := by decide
example : stvReplay [2, 0] Pex [1, 2, 3] = some 2 := by decide
example : stvReplay [0, 0] Pex [1, 2, 3] = none := by decide
example : ∃ w0, (2 : Nat) = w0 + 1 ∧ StvSpecFirst Pex (List.range 3) w0 :=
  (C12_stv_first Pex 3 1 2 (by decide) (by decide)).mp (by decide)
example : legalDrops [2] 3 := ⟨by decide, trivial⟩
example : dropsL [2] (List.range 3) = [0, 1] ∧
    pluralityScores (dropsP [2] Pex) 2 = [2, 3] ∧
    firstCount Pex [0, 1] 0 = 2 ∧ firstCount Pex [0, 1] 1 = 3 := by decide
-- one reduced ballot: deleting column 1 of [3,1,2] gives [2,1]
example : [3, 1, 2].Perm (List.range' 1 3) := by decide
example : dropRow [3, 1, 2] 1 = [2, 1] := by decide

-- the majority hypothesis is satisfiable, and the conclusion is what the model computes
example : Pmaj.length < 2 * colCount1 Pmaj 0 := by decide
example : stv (fun c => c.headD 0) Pmaj 3 1 = some 1 := by decide
example : stvReplay [2, 1] Pmaj [1, 2, 3] = some 1 := by decide

end C12

#print axioms C12.C12_copeland_def
#print axioms C12.C12_condorcet_unique_copeland_winner
#print axioms C12.C12_condorcet_scf
#print axioms C12.C12_stv_reduced_profile
#print axioms C12.C12_stv_def
#print axioms C12.C12_stv_random
#print axioms C12.C12_stv_any
#print axioms C12.C12_stv_first
#print axioms C12.C12_stv_majority_winner
