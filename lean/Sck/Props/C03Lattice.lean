import Sck.Proofs.Lattice3
import Sck.Proofs.IrvingAlgoExamples

/-! # C03 — the lattice of stable matchings and rotations (Conway; Irving–Leather 1986; Gusfield–Irving 1989 §2.5)

Spec level: `n` men and `n` women are `Fin n`; `P1 a b` = rank man `a` gives woman `b`, `P2 b a` = rank woman `b` gives
man `a` (smaller = better, rows injective = strict preferences); a perfect matching is `μ : Equiv.Perm (Fin n)` (`μ a` =
wife of `a`, `μ.symm b` = husband of `b`); `StableSM P1 P2 μ` = no blocking pair (the notion of `C03_cert_sound` and of
the brute-force specification `C03_optStable_spec_perm`).

* `SMLattice.MLe P1 μ ν` (`μ ≼ ν`): every man likes his `μ`-wife at least as much as his `ν`-wife.
* `SMLattice.IsSucc P1 P2 μ a b`: `b = s_μ(a)` is the first woman strictly below `μ a` on `a`'s list who prefers `a` to
  her `μ`-husband.
* `SMLattice.ExposedRot P1 P2 μ ρ`: the rotation with men `ρ` (a duplicate-free non-empty cyclic list; its pairs are
  `(a, μ a)`, `a ∈ ρ`) is exposed in `μ`: `s_μ(a)` is the wife of the next man of `ρ` (`ρ.formPerm a`).
* `SMLattice.elim μ ρ` (`μ/ρ`): every man of `ρ` gets the wife of the next man of `ρ`.
* `SMLattice.ElimPath P1 P2 μ rots ν`: `ν` is obtained from `μ` by eliminating the rotations `rots` in this order, each
  exposed when its turn comes.
Property theorems only; proofs in `Sck/Proofs/Lattice1.lean` – `Lattice3.lean`. -/

open SMLattice

/-! ## the definitions, spelled out -/

theorem C03_mle_iff {n : ℕ} (P1 : Fin n → Fin n → ℕ) (μ ν : Equiv.Perm (Fin n)) :
    MLe P1 μ ν ↔ ∀ a, P1 a (μ a) ≤ P1 a (ν a) := Iff.rfl

theorem C03_isSucc_iff {n : ℕ} (P1 P2 : Fin n → Fin n → ℕ) (μ : Equiv.Perm (Fin n)) (a b : Fin n) :
    IsSucc P1 P2 μ a b ↔
      (P1 a (μ a) < P1 a b ∧ P2 b a < P2 b (μ.symm b)) ∧
      ∀ b', (P1 a (μ a) < P1 a b' ∧ P2 b' a < P2 b' (μ.symm b')) → P1 a b ≤ P1 a b' := Iff.rfl

theorem C03_exposedRot_iff {n : ℕ} (P1 P2 : Fin n → Fin n → ℕ) (μ : Equiv.Perm (Fin n)) (ρ : List (Fin n)) :
    ExposedRot P1 P2 μ ρ ↔ ρ.Nodup ∧ ρ ≠ [] ∧ ∀ a ∈ ρ, IsSucc P1 P2 μ a (μ (ρ.formPerm a)) := Iff.rfl

theorem C03_elim_apply {n : ℕ} (μ : Equiv.Perm (Fin n)) (ρ : List (Fin n)) (a : Fin n) :
    elim μ ρ a = μ (ρ.formPerm a) := rfl

theorem C03_elimPath_nil {n : ℕ} (P1 P2 : Fin n → Fin n → ℕ) (μ ν : Equiv.Perm (Fin n)) :
    ElimPath P1 P2 μ [] ν ↔ μ = ν := Iff.rfl

theorem C03_elimPath_cons {n : ℕ} (P1 P2 : Fin n → Fin n → ℕ) (μ ν : Equiv.Perm (Fin n)) (ρ : List (Fin n))
    (rest : List (List (Fin n))) :
    ElimPath P1 P2 μ (ρ :: rest) ν ↔ ExposedRot P1 P2 μ ρ ∧ ElimPath P1 P2 (elim μ ρ) rest ν := Iff.rfl

/-! ## Stage 1 -/

/-- **C03 (Conway, meet).**  For stable `μ`, `ν` (strict preferences), giving every man the better of his two wives
is a stable matching. -/
theorem C03_stable_meet {n : ℕ} (P1 P2 : Fin n → Fin n → ℕ) (h1 : ∀ a, Function.Injective (P1 a))
    (h2 : ∀ b, Function.Injective (P2 b)) (μ ν : Equiv.Perm (Fin n)) (hμ : StableSM P1 P2 μ)
    (hν : StableSM P1 P2 ν) :
    ∃ κ : Equiv.Perm (Fin n), StableSM P1 P2 κ ∧ ∀ a, κ a = if P1 a (μ a) ≤ P1 a (ν a) then μ a else ν a :=
  stable_meet h1 h2 hμ hν

/-- **C03 (Conway, join).**  Giving every man the worse of his two wives is a stable matching too, and in it every
woman has the better of her two husbands. -/
theorem C03_stable_join {n : ℕ} (P1 P2 : Fin n → Fin n → ℕ) (h1 : ∀ a, Function.Injective (P1 a))
    (h2 : ∀ b, Function.Injective (P2 b)) (μ ν : Equiv.Perm (Fin n)) (hμ : StableSM P1 P2 μ)
    (hν : StableSM P1 P2 ν) :
    ∃ κ : Equiv.Perm (Fin n), StableSM P1 P2 κ ∧
      (∀ a, κ a = if P1 a (μ a) ≤ P1 a (ν a) then ν a else μ a) ∧
      (∀ b, κ.symm b = if P2 b (μ.symm b) ≤ P2 b (ν.symm b) then μ.symm b else ν.symm b) :=
  stable_join h1 h2 hμ hν

/-- **C03 (dominance is opposite for the women).**  If every man weakly prefers stable `μ` to stable `ν`, every woman
weakly prefers `ν` to `μ`. -/
theorem C03_women_le {n : ℕ} (P1 P2 : Fin n → Fin n → ℕ) (h1 : ∀ a, Function.Injective (P1 a))
    (μ ν : Equiv.Perm (Fin n)) (hν : StableSM P1 P2 ν) (hle : MLe P1 μ ν) : MLe P2 ν.symm μ.symm :=
  women_le h1 hν hle

/-- **C03 (eliminating an exposed rotation).**  If `ρ` is exposed in the stable matching `μ`, then `μ/ρ` is a stable
matching that every man finds weakly worse and the men of `ρ` strictly worse. -/
theorem C03_exposed_elim_stable {n : ℕ} (P1 P2 : Fin n → Fin n → ℕ) (h1 : ∀ a, Function.Injective (P1 a))
    (μ : Equiv.Perm (Fin n)) (hμ : StableSM P1 P2 μ) (ρ : List (Fin n)) (hex : ExposedRot P1 P2 μ ρ) :
    StableSM P1 P2 (elim μ ρ) ∧ MLe P1 μ (elim μ ρ) ∧ ∀ a ∈ ρ, P1 a (μ a) < P1 a (elim μ ρ a) :=
  exposed_elim_stable h1 hμ hex

/-- **C03 (key lemma).**  `μ ≼ ν` stable, `a` has different wives: then `s_μ(a)` exists, `a` likes her at least as much
as his `ν`-wife, and her `μ`-husband has different wives too. -/
theorem C03_succ_of_ne {n : ℕ} (P1 P2 : Fin n → Fin n → ℕ) (h1 : ∀ a, Function.Injective (P1 a))
    (h2 : ∀ b, Function.Injective (P2 b)) (μ ν : Equiv.Perm (Fin n)) (hν : StableSM P1 P2 ν)
    (hle : MLe P1 μ ν) (a : Fin n) (ha : μ a ≠ ν a) :
    ∃ b, IsSucc P1 P2 μ a b ∧ P1 a b ≤ P1 a (ν a) ∧ μ (μ.symm b) ≠ ν (μ.symm b) :=
  succ_of_ne h1 h2 hν hle ha

/-- **C03 (a rotation between two stable matchings).**  If `μ ≼ ν` are stable and different, there is a rotation `ρ`
exposed in `μ` with `μ ≼ μ/ρ ≼ ν`. -/
theorem C03_exists_exposed_rotation_between {n : ℕ} (P1 P2 : Fin n → Fin n → ℕ)
    (h1 : ∀ a, Function.Injective (P1 a)) (h2 : ∀ b, Function.Injective (P2 b)) (μ ν : Equiv.Perm (Fin n))
    (hμ : StableSM P1 P2 μ) (hν : StableSM P1 P2 ν) (hle : MLe P1 μ ν) (hne : μ ≠ ν) :
    ∃ ρ, ExposedRot P1 P2 μ ρ ∧ MLe P1 μ (elim μ ρ) ∧ MLe P1 (elim μ ρ) ν :=
  exists_exposed_rotation_between h1 h2 hμ hν hle hne

/-- **C03 (every stable matching is reached from the man-optimal one), spec level.**  If `μ0` is stable and every man
weakly prefers it to every stable matching, every stable matching `ν` is obtained from `μ0` by eliminating a finite
sequence of rotations, each exposed when its turn comes. -/
theorem C03_reachable_from_man_optimal {n : ℕ} (P1 P2 : Fin n → Fin n → ℕ) (h1 : ∀ a, Function.Injective (P1 a))
    (h2 : ∀ b, Function.Injective (P2 b)) (μ0 : Equiv.Perm (Fin n)) (h0 : StableSM P1 P2 μ0)
    (hopt : ∀ ν, StableSM P1 P2 ν → MLe P1 μ0 ν) (ν : Equiv.Perm (Fin n)) (hν : StableSM P1 P2 ν) :
    ∃ rots, ElimPath P1 P2 μ0 rots ν :=
  reachable_from_man_optimal h1 h2 h0 hopt hν

/-- the same between any two comparable stable matchings -/
theorem C03_reachable_of_le {n : ℕ} (P1 P2 : Fin n → Fin n → ℕ) (h1 : ∀ a, Function.Injective (P1 a))
    (h2 : ∀ b, Function.Injective (P2 b)) (μ ν : Equiv.Perm (Fin n)) (hμ : StableSM P1 P2 μ)
    (hν : StableSM P1 P2 ν) (hle : MLe P1 μ ν) : ∃ rots, ElimPath P1 P2 μ rots ν :=
  reachable_of_le h1 h2 hν _ μ hμ hle (Nat.le_refl _)

/-! ## the same for the executable model -/

/-- **C03 (the mirror's male-optimal matching is the man-optimal stable matching; the `assert`s cannot fail).**  On a
strict complete `n × n` instance, Gale–Shapley's answer `M0` (as the mirror of `Irving.scf` receives it) is a perfect
matching: it lists exactly the pairs `(a, μ0 a)` of a permutation `μ0`, which is stable and weakly preferred by every
man to every stable matching (C01 + C02). -/
theorem C03_maleOptimal_spec (n : ℕ) (P1 P2 : List (List Nat)) (V1 V2 : List (List Int))
    (hwf : IrvingAlgo.wfB n P1 P2 V1 V2 = true) (M0 : List Irving.Pair)
    (h : IrvingAlgo.maleOptimal n P1 P2 = some M0) :
    ∃ μ0 : Equiv.Perm (Fin n), M0.Perm (List.ofFn (fun a : Fin n => ((a : ℕ), ((μ0 a : Fin n) : ℕ)))) ∧
      StableSM (fun a b : Fin n => rankOf P1 a b) (fun b a : Fin n => rankOf P2 b a) μ0 ∧
      ∀ ν, StableSM (fun a b : Fin n => rankOf P1 a b) (fun b a : Fin n => rankOf P2 b a) ν →
        ∀ a : Fin n, rankOf P1 a (μ0 a) ≤ rankOf P1 a (ν a) :=
  maleOptimal_spec hwf h

/-- **C03 (every stable matching is reached from the mirror's male-optimal matching by `eliminate_rotations`).**  On a
strict complete `n × n` instance with male-optimal matching `M0`, for EVERY stable matching `ν` there is a list `rots`
of rotations (lists of pairs) such that each is exposed (`Irving.exposedB`, the run-time check of the mirror) when
its turn comes, `eliminate_rotations(M0, rots)` does not raise, and its result lists exactly the pairs of `ν`. -/
theorem C03_reachable_from_maleOptimal (n : ℕ) (P1 P2 : List (List Nat)) (V1 V2 : List (List Int))
    (hwf : IrvingAlgo.wfB n P1 P2 V1 V2 = true) (M0 : List Irving.Pair)
    (h : IrvingAlgo.maleOptimal n P1 P2 = some M0) (ν : Equiv.Perm (Fin n))
    (hν : StableSM (fun a b : Fin n => rankOf P1 a b) (fun b a : Fin n => rankOf P2 b a) ν) :
    ∃ rots : List (List Irving.Pair), Irving.exposedAllB P1 P2 M0 rots = true ∧
      ∃ M, Irving.eliminateAll M0 rots = some M ∧
        M.Perm (List.ofFn (fun a : Fin n => ((a : ℕ), ((ν a : Fin n) : ℕ)))) :=
  reachable_from_maleOptimal hwf h hν

/-! ## Non-vacuity: the 3×3 Latin-square instance (three stable matchings `a ↦ a`, `a ↦ a+1`, `a ↦ a+2`) -/

namespace C03LatticeEx

def p1 : Fin 3 → Fin 3 → ℕ := rk 3 IrvingAlgo.exL1
def p2 : Fin 3 → Fin 3 → ℕ := rk 3 IrvingAlgo.exL2
/-- `a ↦ a` (man-optimal), `a ↦ a + 1`, `a ↦ a + 2` (woman-optimal) -/
def m0 : Equiv.Perm (Fin 3) := ⟨![0, 1, 2], ![0, 1, 2], by decide, by decide⟩
def m1 : Equiv.Perm (Fin 3) := ⟨![1, 2, 0], ![2, 0, 1], by decide, by decide⟩
def m2 : Equiv.Perm (Fin 3) := ⟨![2, 0, 1], ![1, 2, 0], by decide, by decide⟩

example : (∀ a, Function.Injective (p1 a)) ∧ (∀ b, Function.Injective (p2 b)) := by
  unfold Function.Injective; decide
example : StableSM p1 p2 m0 ∧ StableSM p1 p2 m1 ∧ StableSM p1 p2 m2 := by unfold StableSM; decide
/-- an unstable matching (the transposition of men 0 and 1) -/
example : ¬ StableSM p1 p2 ⟨![1, 0, 2], ![1, 0, 2], by decide, by decide⟩ := by unfold StableSM; decide
example : MLe p1 m0 m1 ∧ MLe p1 m1 m2 ∧ m0 ≠ m1 ∧ ¬ MLe p1 m1 m0 := by unfold MLe; decide
/-- the rotation `(0,0),(1,1),(2,2)` is exposed in `m0`, eliminating it gives `m1`; then `(0,1),(1,2),(2,0)` is exposed
in `m1` and gives `m2`: an elimination path of length 2 -/
example : ExposedRot p1 p2 m0 [0, 1, 2] ∧ elim m0 [0, 1, 2] = m1 := by
  unfold ExposedRot IsSucc Cand; decide
example : ElimPath p1 p2 m0 [[0, 1, 2], [0, 1, 2]] m2 := by
  unfold ElimPath ElimPath ElimPath ExposedRot IsSucc Cand; decide
/-- meet and join of `m0`, `m2` as given by the formulas -/
example : (∀ a, m0 a = if p1 a (m0 a) ≤ p1 a (m2 a) then m0 a else m2 a) ∧
    (∀ a, m2 a = if p1 a (m0 a) ≤ p1 a (m2 a) then m2 a else m0 a) := by decide
/-- hypotheses of the executable versions -/
example : IrvingAlgo.wfB 3 IrvingAlgo.exL1 IrvingAlgo.exL2 [[0,0,0],[0,0,0],[0,0,0]] [[0,1,5],[5,0,1],[1,5,0]] = true := by
  decide +kernel
example : IrvingAlgo.maleOptimal 3 IrvingAlgo.exL1 IrvingAlgo.exL2 = some [(0, 0), (1, 1), (2, 2)] :=
  IrvingAlgo.exLatin_maleOptimal
/-- the run of `eliminate_rotations` that reaches the woman-optimal matching -/
example : Irving.exposedAllB IrvingAlgo.exL1 IrvingAlgo.exL2 [(0, 0), (1, 1), (2, 2)]
      [[(0, 0), (1, 1), (2, 2)], [(0, 1), (1, 2), (2, 0)]] = true ∧
    Irving.eliminateAll [(0, 0), (1, 1), (2, 2)] [[(0, 0), (1, 1), (2, 2)], [(0, 1), (1, 2), (2, 0)]]
      = some [(0, 2), (1, 0), (2, 1)] := by decide +kernel

end C03LatticeEx
