import Sck.Proofs.Preflib3

/-! # C19 — `preflib_{soc,soi,toc,toi,categorical}_to_profile`

"Converting a PrefLib ordinal instance of type SoC, SoI, ToC or ToI, or a categorical instance, yields
one row per voter, with each distinct order repeated as often as its multiplicity, in which an
alternative's entry is its position in that voter's order, alternatives the voter did not list are NaN,
and tied alternatives either share the first position of their indifference class ('accept') or are
ranked inside the class by alternative number ('first') or in some order ('random'). An instance of the
wrong data type is rejected with an error."

Model: `Sck/Model/Preflib.lean` (`convRows`, `prefRowE`, `prefRow`, checker `prefRowOkB`).
Auxiliary definitions used in the statements (all in `Sck/Proofs/Preflib*.lean`):
* `kind.isStrict`      — `true` for soc/soi (these go through `flatten_strict`, tie-breaker unused);
* `kind.listed order`  — the classes actually written by toc/toi/categorical: `order` itself, except that
                          the categorical converter skips empty classes (`order.filter (!·.isEmpty)`);
* `strictOrder order`  — `(flattenStrict order).map ([·])`, the order seen by soc/soi;
* `classBase order ci` — (model) 1 + number of alternatives in the classes before class `ci`;
* `orderWFB m order`   — (model) alternatives in `1..m`, none listed twice;
* `kindOrderWFB`       — `orderWFB` plus the shape the converter needs (see `C19_ok_of_wf`);
* `modeMatches`        — checker mode number 0 / 1 / other for accept / first / random.
A row entry is `some r` (rank `r`) or `none` (NaN); all entry facts are `row[a - 1]? = some …`. -/

/-! ## Wrong data type -/

/-- each of the FIVE converters insists on its own `data_type` string — the categorical converter included
(`if instance.data_type != "cat": raise ValueError`) -/
theorem C19_expected :
    PrefKind.expected .soc = some "soc" ∧ PrefKind.expected .soi = some "soi" ∧
    PrefKind.expected .toc = some "toc" ∧ PrefKind.expected .toi = some "toi" ∧
    PrefKind.expected .cat = some "cat" := ⟨rfl, rfl, rfl, rfl, rfl⟩

/-- an instance whose `data_type` is not the one the converter expects is rejected (all five kinds:
`kind.expected` is `some _` for every kind by `C19_expected`) -/
theorem C19_wrong_type (kind : PrefKind) (mode : TieMode) (inst : PrefInst) (t : String)
    (hk : kind.expected = some t) (ht : inst.dataType ≠ t) :
    ∃ e, convRows kind mode inst = .error e :=
  conv_wrong_type kind mode inst t hk ht

/-- the same without the side condition on `expected`, and with the exception named: for EVERY kind
(`kind.typeName` = "soc" / "soi" / "toc" / "toi" / "cat") and every tie-breaker, an instance of another data
type raises the `ValueError`, whatever its orders are (the check comes first) -/
theorem C19_wrong_type_all (kind : PrefKind) (mode : TieMode) (inst : PrefInst)
    (ht : inst.dataType ≠ kind.typeName) :
    convRows kind mode inst = .error "ValueError: wrong data type" :=
  conv_wrong_type_all kind mode inst ht

/-- conversely the data-type check is the ONLY use of `data_type`: with the right type the result is that of
the loop over the orders -/
theorem C19_right_type (kind : PrefKind) (mode : TieMode) (inst : PrefInst)
    (ht : inst.dataType = kind.typeName) :
    convRows kind mode inst = convLoop kind mode inst.m 0 inst.orders :=
  conv_right_type kind mode inst ht

/-! ## One row per voter, each order repeated `multiplicity` times -/

theorem C19_rows (kind : PrefKind) (mode : TieMode) (inst : PrefInst)
    (rows : List (List (Option Nat))) (h : convRows kind mode inst = .ok rows) :
    ∃ rs : List (List (Option Nat)), rs.length = inst.orders.length ∧
      (∀ i (h : i < inst.orders.length) (h' : i < rs.length),
        prefRowE kind mode inst.m i (inst.orders[i]).1 = .ok rs[i]) ∧
      rows = (List.zipWith (fun r om => List.replicate om.2 r) rs inst.orders).flatten ∧
      rows.length = (inst.orders.map (·.2)).sum :=
  conv_rows kind mode inst rows h

/-- non-vacuity: a well-formed instance of the right type is converted without error.
`kindOrderWFB kind m order` = `orderWFB m order` and: soc — all classes singletons, `order.length = m`,
order nonempty (i.e. `m ≥ 1`; `np.array([]) - 1` is a float array and cannot index); soi — all classes
singletons, order nonempty; toc/toi — no empty class; categorical — nothing more. -/
theorem C19_ok_of_wf (kind : PrefKind) (mode : TieMode) (inst : PrefInst)
    (ht : ∀ t, kind.expected = some t → inst.dataType = t)
    (hwf : ∀ om ∈ inst.orders, kindOrderWFB kind inst.m om.1 = true) :
    ∃ rows, convRows kind mode inst = .ok rows :=
  conv_ok_of_wf kind mode inst ht hwf

/-! ## The row of one voter -/

theorem C19_row_length (kind : PrefKind) (mode : TieMode) (m i : Nat) (order : List (List Nat))
    (row : List (Option Nat)) (h : prefRowE kind mode m i order = .ok row) : row.length = m :=
  conv_row_length kind mode m i order row h

/-- soc/soi (any tie-breaker): the `t`-th entry (0-based) of the flattened order has rank `t + 1` -/
theorem C19_rank_strict (kind : PrefKind) (mode : TieMode) (m i : Nat) (order : List (List Nat))
    (row : List (Option Nat)) (hk : kind.isStrict = true)
    (h : prefRowE kind mode m i order = .ok row) (hwf : orderWFB m (strictOrder order) = true)
    (t : Nat) (ht : t < (flattenStrict order).length) :
    row[(flattenStrict order)[t] - 1]? = some (some (t + 1)) :=
  conv_rank_strict kind mode m i order row hk h hwf t ht

/-- the hypothesis of `C19_rank_strict` follows from well-formedness of the unflattened order -/
theorem C19_strict_wf_of_wf (m : Nat) (order : List (List Nat)) (h : orderWFB m order = true) :
    orderWFB m (strictOrder order) = true :=
  orderWFB_strictOrder m order h

/-- toc/toi/categorical, 'accept': tied alternatives share the first position of their class -/
theorem C19_rank_accept (kind : PrefKind) (m i : Nat) (order : List (List Nat))
    (row : List (Option Nat)) (hk : kind.isStrict = false)
    (h : prefRowE kind .accept m i order = .ok row) (hwf : orderWFB m order = true)
    (ci : Nat) (hc : ci < (kind.listed order).length) (a : Nat) (ha : a ∈ (kind.listed order)[ci]) :
    row[a - 1]? = some (some (classBase (kind.listed order) ci)) :=
  conv_rank_accept kind m i order row hk h hwf ci hc a ha

/-- toc/toi/categorical, 'first': inside the class, ranked by alternative number from the class base -/
theorem C19_rank_first (kind : PrefKind) (m i : Nat) (order : List (List Nat))
    (row : List (Option Nat)) (hk : kind.isStrict = false)
    (h : prefRowE kind .first m i order = .ok row) (hwf : orderWFB m order = true)
    (ci : Nat) (hc : ci < (kind.listed order).length) (a : Nat) (ha : a ∈ (kind.listed order)[ci]) :
    row[a - 1]? = some (some (classBase (kind.listed order) ci +
      ((kind.listed order)[ci]).countP (· < a))) :=
  conv_rank_first kind m i order row hk h hwf ci hc a ha

/-- toc/toi/categorical, 'random': the `t`-th member of the shuffled class has rank `classBase + t`
(`sh i ci cls` = outcome of `np.random.shuffle` on class `ci` of order `i`, assumed a permutation) -/
theorem C19_rank_random (kind : PrefKind) (sh : Nat → Nat → List Nat → List Nat) (m i : Nat)
    (order : List (List Nat)) (row : List (Option Nat)) (hk : kind.isStrict = false)
    (h : prefRowE kind (.random sh) m i order = .ok row) (hwf : orderWFB m order = true)
    (hsh : ∀ ci (hc : ci < (kind.listed order).length),
      (sh i ci (kind.listed order)[ci]).Perm (kind.listed order)[ci])
    (ci : Nat) (hc : ci < (kind.listed order).length)
    (t : Nat) (ht : t < (sh i ci (kind.listed order)[ci]).length) :
    row[(sh i ci (kind.listed order)[ci])[t] - 1]? = some (some (classBase (kind.listed order) ci + t)) :=
  conv_rank_random kind sh m i order row hk h hwf hsh ci hc t ht

/-- 'random': the ranks of a class are exactly `classBase, …, classBase + |class| - 1`, each once -/
theorem C19_rank_random_perm (kind : PrefKind) (sh : Nat → Nat → List Nat → List Nat) (m i : Nat)
    (order : List (List Nat)) (row : List (Option Nat)) (hk : kind.isStrict = false)
    (h : prefRowE kind (.random sh) m i order = .ok row) (hwf : orderWFB m order = true)
    (hsh : ∀ ci (hc : ci < (kind.listed order).length),
      (sh i ci (kind.listed order)[ci]).Perm (kind.listed order)[ci])
    (ci : Nat) (hc : ci < (kind.listed order).length) :
    (((kind.listed order)[ci]).map (fun a => valAt row (a - 1))).Perm
      ((List.range' (classBase (kind.listed order) ci) ((kind.listed order)[ci]).length).map some) :=
  conv_rank_random_perm kind sh m i order row hk h hwf hsh ci hc

/-- an alternative the voter did not list keeps the initial value of the row: `kind.init` is NaN (`none`)
for soi/toi/categorical, but the integer `0` (`some 0`) for soc/toc, whose rows start as
`np.zeros(m, dtype=int)` -/
theorem C19_unlisted_nan (kind : PrefKind) (mode : TieMode) (m i : Nat) (order : List (List Nat))
    (row : List (Option Nat)) (h : prefRowE kind mode m i order = .ok row) (hwf : orderWFB m order = true)
    (hp : ∀ sh, mode = .random sh → ∀ ci (hc : ci < (kind.listed order).length),
      (sh i ci (kind.listed order)[ci]).Perm (kind.listed order)[ci])
    (a : Nat) (h1 : 1 ≤ a) (hm : a ≤ m) (ha : a ∉ order.flatten) :
    row[a - 1]? = some kind.init :=
  conv_unlisted_nan kind mode m i order row h hwf hp a h1 hm ha

theorem C19_unlisted_none (kind : PrefKind) (mode : TieMode) (m i : Nat) (order : List (List Nat))
    (row : List (Option Nat)) (hkind : kind = .soi ∨ kind = .toi ∨ kind = .cat)
    (h : prefRowE kind mode m i order = .ok row) (hwf : orderWFB m order = true)
    (hp : ∀ sh, mode = .random sh → ∀ ci (hc : ci < (kind.listed order).length),
      (sh i ci (kind.listed order)[ci]).Perm (kind.listed order)[ci])
    (a : Nat) (h1 : 1 ≤ a) (hm : a ≤ m) (ha : a ∉ order.flatten) :
    row[a - 1]? = some none :=
  conv_unlisted_none kind mode m i order row hkind h hwf hp a h1 hm ha

/-- soc/soi, sharper: only the first member of every class is written, every other alternative (even
one listed later in a class) keeps the initial value -/
theorem C19_unlisted_strict (kind : PrefKind) (mode : TieMode) (m i : Nat) (order : List (List Nat))
    (row : List (Option Nat)) (hk : kind.isStrict = true)
    (h : prefRowE kind mode m i order = .ok row) (hwf : orderWFB m (strictOrder order) = true)
    (a : Nat) (h1 : 1 ≤ a) (hm : a ≤ m) (ha : a ∉ flattenStrict order) :
    row[a - 1]? = some kind.init :=
  conv_unlisted_strict kind mode m i order row hk h hwf a h1 hm ha

/-! ## The row checker used by the test harness -/

/-- completeness: the NaN-initialised row built by the converter passes the checker -/
theorem C19_checker_complete (m : Nat) (mode : TieMode) (i : Nat) (order : List (List Nat)) (modeNum : Nat)
    (hwf : orderWFB m order = true)
    (hp : ∀ sh, mode = .random sh → ∀ ci (hc : ci < order.length), (sh i ci order[ci]).Perm order[ci])
    (hnum : modeMatches mode modeNum) :
    prefRowOkB m order modeNum (prefRow none m mode i order) = true :=
  prefRow_accepted m mode i order modeNum hwf hp hnum

/-- soundness: what an accepted row satisfies -/
theorem C19_checker_sound (m : Nat) (order : List (List Nat)) (modeNum : Nat) (row : List (Option Nat))
    (h : prefRowOkB m order modeNum row = true) :
    row.length = m ∧
    (∀ k (hk : k < order.length),
      (modeNum = 0 → ∀ a ∈ order[k], row[a - 1]? = some (some (classBase order k))) ∧
      (modeNum = 1 → (sortAsc order[k]).map (fun a => valAt row (a - 1)) =
        (List.range' (classBase order k) order[k].length).map some) ∧
      (modeNum ≠ 0 → modeNum ≠ 1 → ((order[k]).map (fun a => valAt row (a - 1))).Perm
        ((List.range' (classBase order k) order[k].length).map some))) ∧
    (∀ a, 1 ≤ a → a ≤ m → a ∉ order.flatten → row[a - 1]? = some none) :=
  prefRowOkB_spec m order modeNum row h

/-- soundness for 'first', pointwise form -/
theorem C19_checker_sound_first (m : Nat) (order : List (List Nat)) (row : List (Option Nat))
    (h : prefRowOkB m order 1 row = true) (k : Nat) (hk : k < order.length) (hnd : (order[k]).Nodup)
    (a : Nat) (ha : a ∈ order[k]) :
    row[a - 1]? = some (some (classBase order k + (order[k]).countP (· < a))) :=
  prefRowOkB_spec_first m order row h k hk hnd a ha

/-! ## Non-vacuity: the hypotheses hold on concrete instances -/

section Examples

/-- evaluation lemmas for the `first` examples (`mergeSort` does not reduce by `rfl`/`decide`) -/
local macro "pf_eval" : tactic =>
  `(tactic| simp [convRows, exInst, PrefKind.expected, convLoop, prefRowE, altInRange, prefRow,
      PrefKind.init, prefAssigns, classAssigns, TieMode.arr, TieMode.isAccept, applyAssigns, sortAsc,
      List.mergeSort, altIdx, List.zipIdx, flattenStrict])

-- the auxiliary definitions on examples
example : PrefKind.listed .cat [[2, 3], [], [1]] = [[2, 3], [1]] := rfl
example : PrefKind.listed .toi [[2, 3], [1]] = [[2, 3], [1]] := rfl
example : strictOrder [[2], [4], [1]] = [[2], [4], [1]] := rfl
example : classBase [[2, 3], [1]] 1 = 3 := rfl

-- wrong data type: rejected (`exInst.dataType = "toi"`)
example : convRows .toc .first exInst = .error "ValueError: wrong data type" := rfl
example : convRows .soc .accept exInst = .error "ValueError: wrong data type" := rfl
example : PrefKind.expected .toc = some "toc" ∧ exInst.dataType ≠ "toc" := by decide
example : PrefKind.typeName .toc = "toc" ∧ exInst.dataType ≠ PrefKind.typeName .toc := by decide
-- the categorical converter now checks the data type too: "toi" and "soc" are rejected, "cat" is accepted
example : convRows .cat .accept exInst = .error "ValueError: wrong data type" := rfl
example : convRows .cat .accept { exInst with dataType := "soc" } = .error "ValueError: wrong data type" := rfl
example : PrefKind.expected .cat = some "cat" ∧ exInst.dataType ≠ "cat" := by decide
example : ∃ rows, convRows .cat .accept { exInst with dataType := "cat" } = .ok rows := ⟨_, rfl⟩

-- toi, all three tie-breakers, on `exInst` (m = 4, orders `2=3>1` twice and `4>1=3` once)
example : convRows .toi .accept exInst =
    .ok [[some 3, some 1, some 1, none], [some 3, some 1, some 1, none], [some 2, none, some 2, some 1]] := rfl
example : convRows .toi .first exInst =
    .ok [[some 3, some 1, some 2, none], [some 3, some 1, some 2, none], [some 2, none, some 3, some 1]] := by
  pf_eval
example : convRows .toi (.random fun _ _ cls => cls.reverse) exInst =
    .ok [[some 3, some 2, some 1, none], [some 3, some 2, some 1, none], [some 3, none, some 2, some 1]] := rfl
-- toc (integer rows, initial value 0)
example : convRows .toc .first { exInst with dataType := "toc", orders := [([[3, 2], [4, 1]], 2)] } =
    .ok [[some 3, some 1, some 2, some 4], [some 3, some 1, some 2, some 4]] := by
  pf_eval
-- categorical: the empty class is skipped and does not shift later ranks
example : convRows .cat .accept { exInst with dataType := "cat", orders := [([[2, 3], [], [1]], 2)] } =
    .ok [[some 3, some 1, some 1, none], [some 3, some 1, some 1, none]] := rfl
-- soi, soc
example : convRows .soi .first { exInst with dataType := "soi", orders := [([[2], [1]], 2), ([[4]], 1)] } =
    .ok [[some 2, some 1, none, none], [some 2, some 1, none, none], [none, none, none, some 1]] := rfl
example : convRows .soc .first { m := 3, dataType := "soc", orders := [([[2], [3], [1]], 1), ([[1], [2], [3]], 2)] } =
    .ok [[some 3, some 1, some 2], [some 1, some 2, some 3], [some 1, some 2, some 3]] := rfl

-- hypotheses of `C19_ok_of_wf`, one instance per kind
example : ∀ om ∈ exInst.orders, kindOrderWFB .toi exInst.m om.1 = true := by decide
example : ∀ t, PrefKind.expected .toi = some t → exInst.dataType = t := by decide
example : kindOrderWFB .toc 4 [[3, 2], [4, 1]] = true := by decide
example : kindOrderWFB .cat 4 [[2, 3], [], [1]] = true := by decide
example : kindOrderWFB .soi 4 [[2], [1]] = true := by decide
example : kindOrderWFB .soc 3 [[2], [3], [1]] = true := by decide
-- … and it is not trivially true
example : kindOrderWFB .toi 4 [[2, 3], [], [1]] = false := by decide
example : kindOrderWFB .soc 4 [[2], [3], [1]] = false := by decide
example : kindOrderWFB .toi 4 [[2, 3], [2]] = false := by decide
example : kindOrderWFB .toi 4 [[2, 5], [1]] = false := by decide

-- hypotheses of the row-level theorems
example : orderWFB 4 [[2, 3], [1]] = true := by decide
example : orderWFB 4 (strictOrder [[2], [4], [1]]) = true := by decide
example : PrefKind.isStrict .toi = false ∧ PrefKind.isStrict .cat = false ∧ PrefKind.isStrict .soc = true := by
  decide
example : prefRowE .toi .accept 4 0 [[2, 3], [1]] = .ok [some 3, some 1, some 1, none] := rfl
example : prefRowE .toi .first 4 0 [[3, 2], [1]] = .ok [some 3, some 1, some 2, none] := by pf_eval
example : prefRowE .cat .first 4 0 [[3, 2], [], [1]] = .ok [some 3, some 1, some 2, none] := by pf_eval
example : prefRowE .soi .first 4 0 [[2], [4], [1]] = .ok [some 3, some 1, none, some 2] := rfl
example : prefRowE .toi (.random fun _ _ cls => cls.reverse) 4 0 [[2, 3], [1]] =
    .ok [some 3, some 2, some 1, none] := rfl
-- the shuffle hypothesis of the `random` theorems
example (i : Nat) (order : List (List Nat)) :
    ∀ ci (hc : ci < order.length), ((fun _ _ (cls : List Nat) => cls.reverse) i ci order[ci]).Perm order[ci] :=
  fun _ _ => List.reverse_perm _

-- the theorems applied
example : ([some 3, some 1, some 2, none] : List (Option Nat))[2 - 1]? = some (some (1 + 0)) :=
  C19_rank_first .toi 4 0 [[3, 2], [1]] _ rfl (by pf_eval) (by decide) 0 (by decide) 2 (by decide)

-- the checker
example : prefRowOkB 4 [[2, 3], [1]] 0 [some 3, some 1, some 1, none] = true := rfl
example : prefRowOkB 4 [[3, 2], [1]] 1 [some 3, some 1, some 2, none] = true := by
  simp [prefRowOkB, classBase, valAt, sortAsc, List.mergeSort, List.zipIdx, List.range', List.range,
    List.range.loop]
example : prefRowOkB 4 [[2, 3], [1]] 2 [some 3, some 2, some 1, none] = true := rfl
example : prefRowOkB 4 [[2, 3], [1]] 2 [some 3, some 1, some 1, none] = false := rfl
example : prefRowOkB 4 [[2, 3], [1]] 0 [some 3, some 1, some 1, some 4] = false := rfl
example : modeMatches .first 1 ∧ modeMatches .accept 0 ∧ modeMatches (.random fun _ _ c => c) 2 := by
  simp [modeMatches]

end Examples
