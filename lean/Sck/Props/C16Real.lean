import Sck.Proofs.ElicitRpow

/-! # C16 (real-number part) — the thresholds of the code form a ratio chain

(`Mathlib.Analysis.SpecialFunctions.Pow.Real` is a heavy import, so this part lives in its own file.) -/

/-- the thresholds of the code (`m ** (l / (k + 1))`, in ℝ) form a chain with ratio `ρ = m ** (1/(k+1))`:
`λ_0 = 1`, `λ_{k+1} = m`, `λ_{l+1} = ρ·λ_l`, all `≥ 1`, monotone — i.e. `1 ≤ λ_1 ≤ ρ`, `λ_{l+1} ≤ ρ·λ_l`,
`m ≤ ρ·λ_k`, the hypotheses `RatioChain` of `C16_karv` / `C16_tsf` -/
theorem C16_rpow_thresholds (m k : ℕ) (hm : 1 ≤ m) :
    let lam : ℕ → ℝ := fun l => (m : ℝ) ^ ((l : ℝ) / ((k : ℝ) + 1))
    let ρ : ℝ := (m : ℝ) ^ ((1 : ℝ) / ((k : ℝ) + 1))
    lam 0 = 1 ∧ lam (k + 1) = m ∧ (∀ l, lam (l + 1) = ρ * lam l) ∧ (∀ l, 1 ≤ lam l) ∧
      Monotone lam ∧ 1 ≤ ρ :=
  Elicit.rpow_thresholds m k hm

/-- instance: `m = 4`, `k = 1`: `λ_1 = ρ = 4^(1/2) = 2` — the rational instance used in `C16Example` -/
example : (4 : ℝ) ^ ((1 : ℝ) / ((1 : ℝ) + 1)) = 2 := by
  have h : (4 : ℝ) = 2 ^ (2 : ℝ) := by norm_num
  rw [h, ← Real.rpow_mul (by norm_num)]
  norm_num
