import Sck.Proofs.Validate3

/-! # C20 — input validation: which arguments does the library reject?

"Every rule that takes a complete ordinal profile returns the same answer, and raises in exactly the same cases,
whether the ranks are stored as integers or as floating-point numbers."

This file gives the property its Lean content on the *validation* side.  The model (`Sck/Model/Validate.lean`) is
dtype-free: an array is its shape and its entries as exact rationals (`none` = NaN), so a verdict proved here holds for
`int32`, `int64` and `float64` storage of the same numbers alike; the single dtype-sensitive constructor
(`IntegerValuationProfile.of`) takes the dtype as an explicit Boolean.

Vocabulary
* `Arg` = `.notArray` | `.array ndim M` with `M : Mat` (`rows`, `cols`, `data`; `M.entries` = the flattened data);
* `Verdict` = `Except VErr Unit`; `.ok ()` = the validator returns, `.error e` = it raises (one `VErr` per message);
* `ProfileOk M c s` (`Sck/Proofs/Validate.lean`) — plain-terms content of `check_profile` on a 2-D array:
  complete ⇒ no NaN;  `1` is an entry and no non-NaN entry is below `1`;  complete ∧ strict ⇒ `cols` is an entry and no
  entry is above it.  NOTHING about integrality, duplicates or per-row structure;
* `GraphOk`, `BipartiteOk` (`Sck/Proofs/Validate2.lean`) — likewise for the graph checks;
* `argOfNat m P` / `argOfOptNat m P` — the rank matrices of the rule models (`List (List Nat)`, resp. with `none` =
  NaN) as `n × m` array arguments. -/

open Validate

/-! ## `check_profile` -/

/-- acceptance ⇔ a 2-D array satisfying `ProfileOk` -/
theorem C20_checkProfile_iff (arg : Arg) (c s : Bool) :
    checkProfile arg c s = .ok () ↔ ∃ M, arg = .array 2 M ∧ ProfileOk M c s :=
  checkProfile_iff arg c s

/-- which exception is raised, exactly: not an ndarray → `format`; not 2-D → `dim`; complete and a NaN → `nan`;
zero-size → numpy's own `empty`; otherwise `range` iff `ProfileOk` fails -/
theorem C20_checkProfile_error_iff (arg : Arg) (c s : Bool) :
    (checkProfile arg c s = .error .format ↔ arg = .notArray) ∧
    (checkProfile arg c s = .error .dim ↔ ∃ nd M, arg = .array nd M ∧ nd ≠ 2) ∧
    (checkProfile arg c s = .error .nan ↔ ∃ M, arg = .array 2 M ∧ c = true ∧ none ∈ M.entries) ∧
    (checkProfile arg c s = .error .empty ↔ ∃ M, arg = .array 2 M ∧ M.entries = []) ∧
    (checkProfile arg c s = .error .range ↔
      ∃ M, arg = .array 2 M ∧ (c = true → none ∉ M.entries) ∧ M.entries ≠ [] ∧ ¬ ProfileOk M c s) :=
  checkProfile_error_iff arg c s

/-- no other exception can come out of `check_profile` -/
theorem C20_checkProfile_errors (arg : Arg) (c s : Bool) (e : VErr) (h : checkProfile arg c s = .error e) :
    e = .format ∨ e = .dim ∨ e = .nan ∨ e = .empty ∨ e = .range :=
  checkProfile_errors arg c s e h

/-- `is_strict` is ignored unless `is_complete` is set -/
theorem C20_checkProfile_strict_irrelevant (arg : Arg) (s s' : Bool) :
    checkProfile arg false s = checkProfile arg false s' :=
  checkProfile_incomplete_strict_irrelevant arg s s'

/-- weakening the flags preserves acceptance (what `StrictCompleteProfile.of` accepts, every constructor accepts) -/
theorem C20_checkProfile_mono (arg : Arg) (c s c' s' : Bool) (h : checkProfile arg c s = .ok ())
    (hc : c' = true → c = true) (hs : c' = true → s' = true → s = true) : checkProfile arg c' s' = .ok () :=
  checkProfile_mono arg c s c' s' h hc hs

-- non-vacuity: the 2 × 3 profile [[1,2,3],[3,1,2]] satisfies `ProfileOk` with both flags; hypotheses of `mono` hold
example : ProfileOk (matOfNat 3 [[1, 2, 3], [3, 1, 2]]) true true := by decide +kernel
example : checkProfile (argOfNat 3 [[1, 2, 3], [3, 1, 2]]) true true = .ok () := by decide +kernel
example : checkProfile (.array 2 ⟨1, 2, [[some 1, none]]⟩) true true = .error .nan := by decide +kernel
example : checkProfile (.array 2 ⟨1, 2, [[none, none]]⟩) false true = .error .range := by decide +kernel
example : checkProfile (.array 2 ⟨0, 3, []⟩) false false = .error .empty := by decide +kernel
example : checkProfile (.array 1 ⟨0, 0, []⟩) false false = .error .dim := by decide +kernel

/-! ## the `of` constructors: the verdict is a function of (isComplete, isStrict, array) -/

/-- each of the 9 ordinal constructors is `check_profile` with the flags of the class hierarchy -/
theorem C20_profileOf_flags (cls : Cls) (isInt : Bool) (arg : Arg) (h : cls.isOrdinal = true) :
    profileOf cls isInt arg = checkProfile arg cls.isComplete cls.isStrict :=
  profileOf_flags cls isInt arg h

/-- the table of flags (name, ordinal?, complete?, strict?) -/
example : Cls.all.map (fun c => (c.name, c.isOrdinal, c.isComplete, c.isStrict)) =
    [("Profile", true, false, false), ("StrictProfile", true, false, true), ("ProfileWithTies", true, false, false),
     ("CompleteProfile", true, true, false), ("IncompleteProfile", true, false, false),
     ("StrictCompleteProfile", true, true, true), ("StrictIncompleteProfile", true, false, true),
     ("CompleteProfileWithTies", true, true, false), ("IncompleteProfileWithTies", true, false, false),
     ("ValuationProfile", false, false, false), ("CompleteValuationProfile", false, true, false),
     ("IncompleteValuationProfile", false, false, false), ("IntegerValuationProfile", false, true, false)] := by
  decide

/-- only three distinct validators among the nine ordinal classes: `StrictCompleteProfile`; the other two complete
classes; the six incomplete ones (for which "strict" changes nothing) -/
theorem C20_profileOf_collapse (cls : Cls) (isInt : Bool) (arg : Arg) (h : cls.isOrdinal = true) :
    profileOf cls isInt arg =
      if cls = .strictCompleteProfile then checkProfile arg true true
      else if cls.isComplete then checkProfile arg true false
      else checkProfile arg false false :=
  profileOf_collapse cls isInt arg h

/-- the three float-capable valuation constructors are `check_valuation_profile` with the flag of the hierarchy -/
theorem C20_valuationOf_flags (cls : Cls) (isInt : Bool) (arg : Arg) (h : cls.isOrdinal = false)
    (h' : cls ≠ .integerValuationProfile) : profileOf cls isInt arg = checkValuation arg cls.isComplete :=
  valuationOf_flags cls isInt arg h h'

/-- `IntegerValuationProfile.of` accepts exactly the 2-D arrays of an integer dtype -/
theorem C20_integerValuationOf_iff (isInt : Bool) (arg : Arg) :
    profileOf .integerValuationProfile isInt arg = .ok () ↔ (∃ M, arg = .array 2 M) ∧ isInt = true :=
  integerValuationOf_iff isInt arg

/-- every other constructor is blind to the storage type -/
theorem C20_profileOf_dtype_free (cls : Cls) (i i' : Bool) (arg : Arg) (h : cls ≠ .integerValuationProfile) :
    profileOf cls i arg = profileOf cls i' arg :=
  profileOf_dtype_free cls i i' arg h

-- the same numbers [[1, 2]] as int and as float: `IntegerValuationProfile.of` is the one place where the dtype shows
example : profileOf .integerValuationProfile true (argOfNat 2 [[1, 2]]) = .ok () := by decide +kernel
example : profileOf .integerValuationProfile false (argOfNat 2 [[1, 2]]) = .error .notint := by decide +kernel

/-! ## `check_valuation_profile`, `check_square_matrix` -/

theorem C20_checkValuation_iff (arg : Arg) (c : Bool) :
    checkValuation arg c = .ok () ↔ ∃ M, arg = .array 2 M ∧ (c = true → none ∉ M.entries) :=
  checkValuation_iff arg c

theorem C20_checkValuation_error_iff (arg : Arg) (c : Bool) :
    (checkValuation arg c = .error .format ↔ arg = .notArray) ∧
    (checkValuation arg c = .error .dim ↔ ∃ nd M, arg = .array nd M ∧ nd ≠ 2) ∧
    (checkValuation arg c = .error .vnan ↔ ∃ M, arg = .array 2 M ∧ c = true ∧ none ∈ M.entries) :=
  checkValuation_error_iff arg c

/-- square ⇔ 2-D with `shape[0] == shape[1]` (a `0 × 0` array is square) -/
theorem C20_checkSquare_iff (arg : Arg) :
    checkSquareMatrix arg = .ok () ↔ ∃ M, arg = .array 2 M ∧ M.rows = M.cols :=
  checkSquare_iff arg

theorem C20_checkSquare_error_iff (arg : Arg) :
    (checkSquareMatrix arg = .error .mformat ↔ arg = .notArray) ∧
    (checkSquareMatrix arg = .error .mdim ↔ ∃ nd M, arg = .array nd M ∧ nd ≠ 2) ∧
    (checkSquareMatrix arg = .error .notsquare ↔ ∃ M, arg = .array 2 M ∧ M.rows ≠ M.cols) :=
  checkSquare_error_iff arg

example : checkValuation (.array 2 ⟨1, 2, [[some (1 / 2), none]]⟩) false = .ok () := by decide +kernel
example : checkValuation (.array 2 ⟨1, 2, [[some (1 / 2), none]]⟩) true = .error .vnan := by decide +kernel
example : checkValuation (.array 2 ⟨0, 2, []⟩) true = .ok () := by decide +kernel
example : checkSquareMatrix (.array 2 ⟨0, 0, []⟩) = .ok () := by decide

/-! ## bridge to the hypotheses of the rule theorems -/

/-- `check_profile` on an `n × m` matrix of natural-number ranks, in terms of the ranks -/
theorem C20_checkProfile_ranks_iff (m : Nat) (P : List (List Nat)) (c s : Bool) :
    checkProfile (argOfNat m P) c s = .ok () ↔
      (∃ row ∈ P, 1 ∈ row) ∧ (∀ row ∈ P, ∀ r ∈ row, 1 ≤ r) ∧
      (c = true → s = true → (∃ row ∈ P, m ∈ row) ∧ ∀ row ∈ P, ∀ r ∈ row, r ≤ m) :=
  checkProfile_argOfNat_iff m P c s

/-- the same with NaN entries -/
theorem C20_checkProfile_optRanks_iff (m : Nat) (P : List (List (Option Nat))) (c s : Bool) :
    checkProfile (argOfOptNat m P) c s = .ok () ↔
      (c = true → ∀ row ∈ P, none ∉ row) ∧
      (∃ row ∈ P, some 1 ∈ row) ∧
      (∀ row ∈ P, ∀ r : Nat, some r ∈ row → 1 ≤ r) ∧
      (c = true → s = true → (∃ row ∈ P, some m ∈ row) ∧ ∀ row ∈ P, ∀ r : Nat, some r ∈ row → r ≤ m) :=
  checkProfile_argOfOptNat_iff m P c s

/-- the `wf` hypothesis of the voting theorems (every ballot a permutation of `1..m`; at least one voter and one
alternative) implies acceptance by `StrictCompleteProfile.of` and by every other ordinal constructor -/
theorem C20_wf_accepted (m : Nat) (P : List (List Nat)) (cls : Cls) (isInt : Bool) (hP : P ≠ []) (hm : 1 ≤ m)
    (h : Vote.wfB P m = true) (hcls : cls.isOrdinal = true) : profileOf cls isInt (argOfNat m P) = .ok () :=
  (profileOf_flags cls isInt _ hcls).trans (voteWf_accepted m P _ _ hP hm h)

/-- the same at the level of `check_profile`, for rows given as permutations -/
theorem C20_wf_accepted_perm (m : Nat) (P : List (List Nat)) (c s : Bool) (hP : P ≠ []) (hm : 1 ≤ m)
    (h : ∀ row ∈ P, row.Perm (List.range' 1 m)) : checkProfile (argOfNat m P) c s = .ok () :=
  wf_accepted m P c s hP hm h

/-- the `wf` hypothesis of the STV / Copeland theorems (C12) -/
theorem C20_c12wf_accepted (m : Nat) (P : List (List Nat)) (c s : Bool) (hP : P ≠ []) (hm : 1 ≤ m)
    (h : C12.wfB P m = true) : checkProfile (argOfNat m P) c s = .ok () :=
  c12Wf_accepted m P c s hP hm h

/-- the row hypothesis of the Irving theorems (C03): `n ≥ 1` rows, each passing `permRowB n` -/
theorem C20_permRows_accepted (n : Nat) (P : List (List Nat)) (c s : Bool) (hn : 1 ≤ n) (hlen : P.length = n)
    (h : ∀ row ∈ P, IrvingAlgo.permRowB n row = true) : checkProfile (argOfNat n P) c s = .ok () :=
  permRows_accepted n P c s hn hlen h

example : Vote.wfB [[1, 2, 3], [3, 1, 2]] 3 = true ∧ C12.wfB [[1, 2, 3], [3, 1, 2]] 3 = true := by decide
example : ∀ row ∈ [[1, 2], [2, 1]], IrvingAlgo.permRowB 2 row = true := by decide

/-- the converse fails: `StrictCompleteProfile.of` accepts `[[1, 2], [2, 2]]`, whose second row is no permutation -/
theorem C20_accepts_non_strict :
    ∃ (m : Nat) (P : List (List Nat)),
      profileOf .strictCompleteProfile false (argOfNat m P) = .ok () ∧ Vote.wfB P m = false :=
  ⟨2, [[1, 2], [2, 2]], accepts_non_strict⟩

/-- `StrictCompleteProfile.of` accepts the fractional "rank" 1.5 in `[[1, 1.5], [2, 2]]` -/
theorem C20_accepts_fractional :
    profileOf .strictCompleteProfile false
      (.array 2 { rows := 2, cols := 2, data := [[some 1, some (3 / 2)], [some 2, some 2]] }) = .ok () :=
  accepts_fractional

/-- `[[1, 99]]` (a rank far above `M = 2`) is accepted unless BOTH flags are set -/
theorem C20_accepts_out_of_range :
    checkProfile (argOfNat 2 [[1, 99]]) true false = .ok () ∧ checkProfile (argOfNat 2 [[1, 99]]) false true = .ok () ∧
    checkProfile (argOfNat 2 [[1, 99]]) true true = .error .range :=
  accepts_out_of_range

/-- `StrictIncompleteProfile.of` accepts `[[1, 1], [3, 3]]` (ties, a gap) -/
theorem C20_accepts_ties_as_strict :
    profileOf .strictIncompleteProfile false (argOfNat 2 [[1, 1], [3, 3]]) = .ok () :=
  accepts_ties_as_strict

/-- incomplete strict profiles whose rows rank exactly `1..k`: accepted iff SOME entry is ranked -/
theorem C20_strictIncomplete_accepted_iff (m : Nat) (P : List (List (Option Nat))) (s : Bool)
    (h : ∀ row ∈ P, strictIncRowB row = true) :
    checkProfile (argOfOptNat m P) false s = .ok () ↔ ∃ row ∈ P, ∃ r : Nat, some r ∈ row :=
  strictInc_accepted_iff m P s h

/-- … so the (well-formed) profile in which nobody ranks anything is rejected: `range` when the array has entries,
numpy's `empty` when it has none -/
theorem C20_allNaN_rejected (m : Nat) (P : List (List (Option Nat))) (s : Bool)
    (hall : ∀ row ∈ P, ∀ x ∈ row, x = none) :
    checkProfile (argOfOptNat m P) false s =
      if (matOfOptNat m P).entries = [] then .error .empty else .error .range :=
  allNaN_rejected m P s hall

/-- rows that are well formed with ties (`wfTiesB`, the hypothesis of the C18 conversions): accepted by the
with-ties constructors iff some entry is ranked and, for the complete classes, none is NaN -/
theorem C20_wfTies_accepted_iff (m : Nat) (P : List (List (Option Nat))) (c : Bool)
    (h : ∀ row ∈ P, wfTiesB row = true) :
    checkProfile (argOfOptNat m P) c false = .ok () ↔
      (c = true → ∀ row ∈ P, none ∉ row) ∧ ∃ row ∈ P, ∃ r : Nat, some r ∈ row :=
  wfTies_accepted_iff m P c h

example : ∀ row ∈ [[some 1, none, some 2], [none, none, none]], strictIncRowB row = true := by decide
example : ∀ row ∈ [[none, none], [none, none]], ∀ x ∈ row, x = (none : Option Nat) := by decide
example : ∀ row ∈ [[some 1, some 1, some 3, none, some 3, some 3]], wfTiesB row = true := by decide

/-- the Gale–Shapley hypothesis (`HR.WF2`: rows strict) is incomparable with `StrictProfile.of`: the strict row `[2]`
is rejected … -/
theorem C20_gs_wf_rejected :
    (HR.mk 1 1 [[some 2]] [[some 2]] [1]).WF2 ∧
    profileOf .strictProfile false (argOfOptNat 1 [[some 2]]) = .error .range :=
  gs_wf_rejected

/-- … and the tied row `[1, 1]` is accepted -/
theorem C20_gs_accepted_not_wf :
    profileOf .strictProfile false (argOfOptNat 2 [[some 1, some 1]]) = .ok () ∧
    ¬ (HR.mk 1 2 [[some 1, some 1]] [[some 1], [some 1]] [1, 1]).WF2 :=
  gs_accepted_not_wf

/-! ## graphs -/

/-- `check_graph` accepts exactly the non-empty dicts with `int` keys and `list` values whose FIRST adjacency list
only names keys -/
theorem C20_checkGraph_iff (G : GArg) : checkGraph G = .ok () ↔ ∃ items, G = .dict items ∧ GraphOk items :=
  checkGraph_iff G

theorem C20_checkGraph_error_iff (G : GArg) :
    (checkGraph G = .error .gformat ↔ G = .notDict) ∧
    (checkGraph G = .error .keys ↔ ∃ items, G = .dict items ∧ ∃ it ∈ items, it.1 = none) ∧
    (checkGraph G = .error .values ↔ ∃ items, G = .dict items ∧ (∀ it ∈ items, it.1.isSome = true) ∧
      (items = [] ∨ ∃ it ∈ items, it.2 = none)) ∧
    (checkGraph G = .error .link ↔ ∃ items, G = .dict items ∧ (∀ it ∈ items, it.1.isSome = true) ∧
      (∀ it ∈ items, it.2.isSome = true) ∧
      ∃ k l rest, items = (k, some l) :: rest ∧ ∃ i ∈ l, i ∉ GArg.keys items) :=
  checkGraph_error_iff G

/-- `{1: [], 2: [99]}` passes although vertex 99 does not exist -/
theorem C20_checkGraph_dangling_accepted :
    checkGraph (.dict [(some 1, some []), (some 2, some [99])]) = .ok () :=
  dangling_accepted

/-- the empty graph `{}` is rejected, with the "must contain lists as values" message -/
theorem C20_checkGraph_empty_rejected : checkGraph (.dict []) = .error .values :=
  empty_graph_rejected

/-- `check_bipartite_graph` = `check_graph` + `set(X+Y) == set(keys)` + a test of the first vertex of `X` only (of
`Y` when `X` is empty) -/
theorem C20_checkBipartite_iff (G : GArg) (X Y : List Int) :
    checkBipartite G X Y = .ok () ↔ ∃ items, G = .dict items ∧ GraphOk items ∧ BipartiteOk items X Y :=
  checkBipartite_iff G X Y

/-- `G[e]` never raises `KeyError` there -/
theorem C20_checkBipartite_no_keyerror (G : GArg) (X Y : List Int) : checkBipartite G X Y ≠ .error .keyerror :=
  checkBipartite_ne_keyerror G X Y

/-- the triangle with `X = [1]`, `Y = [2, 3]` is accepted and has no 2-colouring -/
theorem C20_bipartite_accepts_triangle :
    checkBipartite (.dict triangle) [1] [2, 3] = .ok () ∧ ¬ IsBipartite triangle :=
  ⟨triangle_accepted, triangle_not_bipartite⟩

example : GraphOk [(some 1, some [2]), (some 2, some [1])] := by decide
example : checkBipartite (.dict [(some 1, some [2]), (some 2, some [1])]) [1] [2] = .ok () := by decide
example : checkBipartite (.dict [(some 1, some [2]), (some 2, some [1])]) [1] [1, 2] = .error .notbip := by decide
example : checkBipartite (.dict [(some 1, some [2]), (some 2, some [1])]) [1] [] = .error .xykeys := by decide

/-! ## error tokens of the driver -/

/-- distinct exception messages have distinct tokens -/
theorem C20_token_injective (e e' : VErr) (h : e.token = e'.token) : e = e' :=
  token_injective e e' h

/-! ## tie breakers -/

theorem C20_checkTieBreaker_iff (tb : String) (includeAccept : Bool) :
    checkTieBreaker tb includeAccept = .ok () ↔
      tb = "random" ∨ tb = "first" ∨ (includeAccept = true ∧ tb = "accept") :=
  checkTieBreaker_iff tb includeAccept

theorem C20_checkTieBreaker_error (tb : String) (includeAccept : Bool) (e : VErr)
    (h : checkTieBreaker tb includeAccept = .error e) : e = .tiebreaker :=
  checkTieBreaker_error tb includeAccept e h

example : checkTieBreaker "accept" false = .error .tiebreaker := by decide

/-! ## rule parameters (`validTb tb` = `tb ∈ {"random", "first", "accept"}`) -/

/-- `LambdaPRV(lambda_, tb)`: tie breaker first, then `lambda_ ≥ 1` -/
theorem C20_prvCtor_iff (tb : String) (lam : Int) :
    (prvCtor tb lam = .ok () ↔ validTb tb ∧ 1 ≤ lam) ∧
    (prvCtor tb lam = .error .tiebreaker ↔ ¬ validTb tb) ∧
    (prvCtor tb lam = .error .lambda ↔ validTb tb ∧ lam < 1) :=
  prvCtor_iff tb lam

/-- `LambdaPRV.score`: `lambda_ ≤ M` is only tested at call time -/
theorem C20_prvCall_iff (lam : Int) (m : Nat) :
    (prvCall lam m = .ok () ↔ lam ≤ m) ∧ (prvCall lam m = .error .lambda ↔ (m : Int) < lam) :=
  prvCall_iff lam m

theorem C20_prvParam_iff (lam : Int) (m : Nat) : prvParamOk lam m = true ↔ 1 ≤ lam ∧ lam ≤ m :=
  prvParam_iff lam m

theorem C20_karvCtor_iff (tb : String) (k : Int) :
    (karvCtor tb k = .ok () ↔ validTb tb ∧ 1 ≤ k) ∧
    (karvCtor tb k = .error .tiebreaker ↔ ¬ validTb tb) ∧
    (karvCtor tb k = .error .k ↔ validTb tb ∧ k < 1) :=
  karvCtor_iff tb k

theorem C20_karvCall_iff (k : Int) (m : Nat) :
    (karvCall k m = .ok () ↔ k ≤ m) ∧ (karvCall k m = .error .k ↔ (m : Int) < k) :=
  karvCall_iff k m

theorem C20_karvParam_iff (k : Int) (m : Nat) : karvParamOk k m = true ↔ 1 ≤ k ∧ k ≤ m :=
  karvParam_iff k m

theorem C20_tsfCtor_iff (lam : Int) :
    (tsfCtor lam = .ok () ↔ 1 ≤ lam) ∧ (tsfCtor lam = .error .lambda ↔ lam < 1) :=
  tsfCtor_iff lam

/-- `LambdaTSF.get_simulated_cardinal_profile`: the bound on `lambda_` is tested before the class of the profile -/
theorem C20_tsfCall_iff (lam : Int) (m : Nat) (isStrictInst : Bool) :
    (tsfCall lam m isStrictInst = .ok () ↔ lam ≤ m ∧ isStrictInst = true) ∧
    (tsfCall lam m isStrictInst = .error .lambda ↔ (m : Int) < lam) ∧
    (tsfCall lam m isStrictInst = .error .notstrict ↔ lam ≤ m ∧ isStrictInst = false) :=
  tsfCall_iff lam m isStrictInst

theorem C20_tsfParam_iff (lam : Int) (m : Nat) : tsfParamOk lam m = true ↔ 1 ≤ lam ∧ lam ≤ m :=
  tsfParam_iff lam m

theorem C20_dtsfCtor_iff (l1 l2 : Int) :
    (dtsfCtor l1 l2 = .ok () ↔ 1 ≤ l1 ∧ 1 ≤ l2) ∧ (dtsfCtor l1 l2 = .error .lambda ↔ l1 < 1 ∨ l2 < 1) :=
  dtsfCtor_iff l1 l2

/-- `DoubleLambdaTSF.get_simulated_cardinal_profiles` on shapes `(r1, c1)`, `(r2, c2)`: the two `assert`s, then the
bound `≤ n = r1` -/
theorem C20_dtsfCall_iff (l1 l2 : Int) (r1 c1 r2 c2 : Nat) :
    (dtsfCall l1 l2 r1 c1 r2 c2 = .ok () ↔ c1 = r1 ∧ r2 = r1 ∧ c2 = r1 ∧ l1 ≤ r1 ∧ l2 ≤ r1) ∧
    (dtsfCall l1 l2 r1 c1 r2 c2 = .error .assert ↔ ¬ (c1 = r1 ∧ r2 = r1 ∧ c2 = r1)) ∧
    (dtsfCall l1 l2 r1 c1 r2 c2 = .error .lambda ↔
      c1 = r1 ∧ r2 = r1 ∧ c2 = r1 ∧ ((r1 : Int) < l1 ∨ (r1 : Int) < l2)) :=
  dtsfCall_iff l1 l2 r1 c1 r2 c2

theorem C20_dtsfParam_iff (l1 l2 : Int) (n : Nat) :
    dtsfParamOk l1 l2 n = true ↔ (1 ≤ l1 ∧ l1 ≤ n) ∧ (1 ≤ l2 ∧ l2 ≤ n) :=
  dtsfParam_iff l1 l2 n

/-- `KApproval(k, tb)`: `k ≥ 1` is tested BEFORE the tie breaker, and there is no upper bound, neither here nor at
call time -/
theorem C20_kApprovalCtor_iff (k : Int) (tb : String) :
    (kApprovalCtor k tb = .ok () ↔ 1 ≤ k ∧ validTb tb) ∧
    (kApprovalCtor k tb = .error .kpos ↔ k < 1) ∧
    (kApprovalCtor k tb = .error .tiebreaker ↔ 1 ≤ k ∧ ¬ validTb tb) :=
  kApprovalCtor_iff k tb

theorem C20_kApprovalParam_iff (k : Int) : kApprovalParamOk k = true ↔ 1 ≤ k :=
  kApprovalParam_iff k

/-- `GaleShapley.scf` on shapes `(n, m)` and `(hr, hc)` -/
theorem C20_gsCall_iff (n m hr hc : Nat) :
    (gsCall n m hr hc = .ok () ↔ n = hc ∧ m = hr) ∧ (gsCall n m hr hc = .error .dims ↔ ¬ (n = hc ∧ m = hr)) :=
  gsCall_iff n m hr hc

theorem C20_gsDims_iff (n m hr hc : Nat) : gsDimsOk n m hr hc = true ↔ n = hc ∧ m = hr :=
  gsDims_iff n m hr hc

/-- `UniformValuationProfileGenerator(high, low)` with numeric bounds: `0 ≤ low ≤ high` (NOT "positive") -/
theorem C20_uniformCtor_num_iff (h l : Rat) : uniformCtor (some h) (some l) = .ok () ↔ 0 ≤ l ∧ l ≤ h :=
  uniformCtor_num_iff h l

/-- in general, NaN bounds pass every comparison -/
theorem C20_uniformParam_iff (high low : Entry) :
    uniformParamOk high low = true ↔ ∀ l : Rat, low = some l → 0 ≤ l ∧ ∀ h : Rat, high = some h → l ≤ h :=
  uniformParam_iff high low

theorem C20_uniformCtor_error (high low : Entry) (e : VErr) (h : uniformCtor high low = .error e) : e = .highlow :=
  uniformCtor_error high low e h

example : prvCtor "bogus" 0 = .error .tiebreaker := by decide
example : kApprovalCtor 0 "bogus" = .error .kpos := by decide
example : kApprovalCtor 1000 "first" = .ok () := by decide
example : tsfCall 5 3 false = .error .lambda := by decide
example : dtsfCall 1 1 2 2 2 3 = .error .assert := by decide
example : uniformCtor (some 0) (some 0) = .ok () := by decide +kernel
example : uniformCtor none (some 1) = .ok () := by decide +kernel
example : uniformCtor (some 1) (some 2) = .error .highlow := by decide +kernel
