import Sck.Proofs.BvnMirror4

/-! # C06 — the FAITHFUL mirror of `birkhoff_von_neumann`

`Mirror.bvnMirror n X` (`Sck/Model/McmMirror.lean`) mirrors `socialchoicekit/bistochastic.py: birkhoff_von_neumann` for
the `n × n` array with the rows `X`, in exact rational arithmetic, on top of the faithful mirror of
`maximum_cardinality_matching_bipartite` (`Mirror.mcmFull`, C09 — `Sck/Props/C09Mirror.lean`), which in turn runs the
line-by-line mirror of the implementation's own `ford_fulkerson` / `dfs_path` (C08).  Every round of the `while True`
loop is the code's: `positivity_graph` (`FH.positivityGraph`: edge iff the entry is `> 0`, a vertex without an edge is
not a key), `check_bipartite_graph(G_X, range(n), range(n, 2n))` (`Validate.checkBipartite`), the mirrored matching
routine, `z = min` over the matched entries, `X -= z * P`.  Deliberate differences to the float code: the stop test
`np.all(np.abs(X) < 1e-9)` is "`X` is the zero matrix" and all arithmetic is exact.  A 0/1 matrix `P` is reported as
the list `σ` (row ↦ column of its 1; `n` = the row has no 1).  The loop gets `n² + 1` rounds of fuel.

In contrast to the abstract model `bvnFull` (C06, `Sck/Props/C06.lean`), whose matching oracle may choose other
permutations, the mirror returns the code's own decomposition, term by term (validated on dyadic matrices, where the
float arithmetic of the code is exact; `exBvn3` below is a matrix where the two decompositions differ).

Reading guide (as in C06): `isBalancedB n X = some s` — `X` is an `n × n` list matrix, entries `≥ 0`, all row and column
sums equal `s`; `isPermB n σ` — `σ` is a bijection of `0..n-1`; `reconEntry n zs perms i j = Σ_k zs[k] * (if perms[k][i] = j
then 1 else 0)`; `posKeysOkB n X` — every row and every column of `X` has a strictly positive entry; `bvnWith pairsOf n X`
— the loop of the abstract model for an arbitrary matching routine `pairsOf`; `Mirror.mirrorPairs n` — the mirrored
matching routine as such a routine.

Property theorems only (helper lemmas live in `Sck/Proofs/BvnMirror1.lean` … `BvnMirror4.lean`). -/

open Mirror

/-- **`C06_bvnMirror_spec`.**  For every balanced matrix `X` (entries `≥ 0`, all row and column sums equal to `s`) the
mirror returns — no exception, within its `n² + 1` rounds — at most `n²` pairs `(z, σ)`; every coefficient is strictly
positive, every `σ` is a permutation of `0..n-1` inside the support of `X`, the coefficients add up to `s`, and the
weighted sum of the permutation matrices is EXACTLY `X`. -/
theorem C06_bvnMirror_spec (n : ℕ) (X : List (List Rat)) (s : Rat) (hbal : isBalancedB n X = some s) :
    ∃ out, bvnMirror n X = .ok out ∧ out.length ≤ n * n ∧ (∀ e ∈ out, 0 < e.1) ∧
      (∀ e ∈ out, isPermB n e.2 = true ∧ ∀ i, i < n → 0 < matGet X i (e.2.getD i n)) ∧
      sumList (out.map (·.1)) = s ∧
      ∀ i j, i < n → j < n → reconEntry n (out.map (·.1)) (out.map (·.2)) i j = matGet X i j :=
  bvnMirror_spec n X s hbal

/-- **The matching routine inside the loop is a maximum-matching oracle.**  On every balanced non-zero matrix the
mirrored `positivity_graph` + `maximum_cardinality_matching_bipartite` do not fail and return a maximum matching of the
positivity graph (which, by Hall's theorem — `bvn_progress` — is perfect).  This is the hypothesis of
`C06_bvnWith_spec`. -/
theorem C06_mirrorPairs_oracle (n : ℕ) (Y : List (List Rat)) (t : Rat) (hbal : isBalancedB n Y = some t)
    (hnz : isZeroB Y = false) :
    ∃ M, mirrorPairs n Y = .ok M ∧ IsMatching (rowVerts n) (positivityAdj n Y) M ∧
      ∀ M', IsMatching (rowVerts n) (positivityAdj n Y) M' → M'.length ≤ M.length :=
  mirrorPairs_ok n Y t hbal hnz

/-- **The dict-level check is the matrix-level test.**  For `n ≥ 1`, `check_bipartite_graph` accepts the positivity
graph of `X` (as built by `positivity_graph`: `FH.posGraph n X`) iff every row and every column of `X` has a strictly
positive entry. -/
theorem C06_check_posGraph_iff (n : ℕ) (X : List (List Rat)) (hn : 0 < n) :
    Validate.checkBipartite (toGArg (FH.posGraph n X)) (rowVerts n) (colVerts n) = .ok () ↔
      posKeysOkB n X = true :=
  check_posGraph_iff n X hn

/-- **The mirror is the abstract loop run with the mirrored matching routine**: same successful results, on every
input (balanced or not, square or not). -/
theorem C06_bvnMirror_iff_bvnWith (n : ℕ) (X : List (List Rat)) (out : List (Rat × List ℕ)) :
    bvnMirror n X = .ok out ↔ bvnWith (mirrorPairs n) n X = .ok out :=
  bvnMirror_iff_with n X out

/-- **Totality on every square matrix** (balanced or not, entries of any sign).  Every round removes at least one
strictly positive entry and creates none, so the loop stops within `n² + 1` rounds: either it returns at most `n²`
pairs with strictly positive coefficients, or `check_bipartite_graph` raises `ValueError` (a row or column of the
residual matrix has no positive entry although the matrix is not zero).  The error tokens `fuel`, `inf`, `KeyError`,
`IndexError` of the mirror never occur. -/
theorem C06_bvnMirror_total (n : ℕ) (X : List (List Rat)) (hsq : isSquareB n X = true) :
    (∃ out, bvnMirror n X = .ok out ∧ out.length ≤ n * n ∧ ∀ e ∈ out, 0 < e.1) ∨
    bvnMirror n X = .error "ValueError" :=
  bvnMirror_total n X hsq

/-- **Converse of the specification.**  Whenever the mirror returns, the input was balanced — an `n × n` matrix with
entries `≥ 0` all of whose row and column sums equal the sum of the returned coefficients — and every returned 0/1 matrix
is a permutation matrix (no row without a 1: the entry `n` of `σ` never occurs in a result). -/
theorem C06_bvnMirror_ok_balanced (n : ℕ) (X : List (List Rat)) (out : List (Rat × List ℕ))
    (h : bvnMirror n X = .ok out) :
    isBalancedB n X = some (sumList (out.map (·.1))) ∧ ∀ e ∈ out, isPermB n e.2 = true :=
  bvnMirror_ok_balanced n X out h

/-- **Exact characterisation of the accepted inputs** (over exact arithmetic): on an `n × n` matrix the mirror of
`birkhoff_von_neumann` returns iff the matrix is balanced, and raises `ValueError` iff it is not. -/
theorem C06_bvnMirror_ok_iff (n : ℕ) (X : List (List Rat)) (hsq : isSquareB n X = true) :
    ((∃ out, bvnMirror n X = .ok out) ↔ ∃ s, isBalancedB n X = some s) ∧
    (bvnMirror n X = .error "ValueError" ↔ isBalancedB n X = none) :=
  bvnMirror_ok_iff n X hsq

/-! ### the hypotheses are satisfiable on concrete non-trivial instances; behavioural observations -/

/-- two terms -/
example : isBalancedB 3 [[1/2, 1/2, 0], [1/2, 0, 1/2], [0, 1/2, 1/2]] = some 1 := by decide +kernel
example : (match bvnMirror 3 [[1/2, 1/2, 0], [1/2, 0, 1/2], [0, 1/2, 1/2]] with
    | .ok out => some out | .error _ => none) = some [(1/2, [0, 2, 1]), (1/2, [1, 0, 2])] := by decide +kernel
/-- **the mirror's decomposition can differ from the abstract model's**: four terms where `bvnFull` finds three -/
example : isBalancedB 3 exBvn3 = some 1 ∧ isZeroB exBvn3 = false ∧ posKeysOkB 3 exBvn3 = true := by decide +kernel
example : (match bvnMirror 3 exBvn3 with
    | .ok out => some out | .error _ => none) =
    some [(1/4, [2, 1, 0]), (1/4, [0, 2, 1]), (1/4, [1, 0, 2]), (1/4, [0, 1, 2])] := by decide +kernel
example : (match bvnFull 3 exBvn3 with
    | .ok out => some out | .error _ => none) =
    some [(1/2, [0, 1, 2]), (1/4, [2, 0, 1]), (1/4, [1, 2, 0])] := by decide +kernel
/-- the matching oracle on that matrix -/
example : (match mirrorPairs 3 exBvn3 with
    | .ok M => some M | .error _ => none) = some [(0, 5), (1, 4), (2, 3)] := by decide +kernel
/-- a balanced matrix that is not bistochastic (common sum 3) -/
example : isBalancedB 2 [[2, 1], [1, 2]] = some 3 := by decide +kernel
example : (match bvnMirror 2 [[2, 1], [1, 2]] with
    | .ok out => some out | .error _ => none) = some [(1, [1, 0]), (2, [0, 1])] := by decide +kernel
/-- matrices that are NOT balanced end in the `ValueError` of `check_bipartite_graph`: after the first subtraction a
column has no positive entry; a negative entry is never an edge -/
example : isBalancedB 2 [[1, 1], [0, 1]] = none ∧ isSquareB 2 [[1, 1], [0, 1]] = true := by decide +kernel
example : (match bvnMirror 2 [[1, 1], [0, 1]] with
    | .ok _ => "ok" | .error e => e) = "ValueError" := by decide +kernel
example : (match bvnMirror 2 [[-1, 0], [0, 0]] with
    | .ok _ => "ok" | .error e => e) = "ValueError" := by decide +kernel
/-- the zero matrix (and the empty matrix) give the empty decomposition -/
example : (match bvnMirror 2 [[0, 0], [0, 0]] with
    | .ok out => some out | .error _ => none) = some [] := by decide +kernel
example : (match bvnMirror 0 [] with
    | .ok out => some out | .error _ => none) = some [] := by decide +kernel

#print axioms C06_bvnMirror_spec
#print axioms C06_mirrorPairs_oracle
#print axioms C06_check_posGraph_iff
#print axioms C06_bvnMirror_iff_bvnWith
#print axioms C06_bvnMirror_total
#print axioms C06_bvnMirror_ok_balanced
#print axioms C06_bvnMirror_ok_iff
