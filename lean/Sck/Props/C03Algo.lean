import Sck.Proofs.IrvingAlgo
import Sck.Proofs.IrvingAlgoLists
import Sck.Proofs.IrvingAlgoExamples
import Sck.Proofs.IrvingAlgoGs
import Sck.Proofs.IrvingAlgoClosure

/-! # C03 — optimal stable matching (Irving): the executable stage-by-stage mirror `IrvingAlgo`

`Sck/Model/IrvingAlgo.lean` mirrors `Irving.scf` stage by stage (`maleOptimal`, `shortlists`, `findRotations`,
`allRotations`, `posetGraph`, `closedSubset`, `irving`); the Python harness compares every stage with the real code
through the driver ops `irv_*`.  This file states what is PROVED about the mirror without the Irving–Leather–Gusfield
lattice theory: partial correctness of the checked pipeline (the answer is a perfect stable matching whose value is
accounted for rotation by rotation), the structural facts about the shortlists, and closedness of the chosen set of
rotations.  Optimality of the answer is NOT proved here (it is certified per run by `C03_cert_sound`).
Ranks: `rankOf P1 m w` = rank man `m` gives woman `w` (smaller is better), `rankOf P2 w m` likewise. -/

open IrvingAlgo

/-- **C03 (partial correctness of the mirror).**  For EVERY input, if the checked mirror of `Irving.scf` answers
`M`, then `M` is a perfect matching (its men, and its women, are a permutation of `0..n-1`), it has no blocking pair
w.r.t. the ordinal profiles, it is what `eliminate_rotations` returns on the male-optimal matching `M0` and the
chosen rotations `rots`, and its value is the value of `M0` plus the sum of the weights of the chosen rotations. -/
theorem C03_irving_sound (n : Nat) (P1 P2 : List (List Nat)) (V1 V2 : List (List Int)) (M : List Irving.Pair)
    (h : irving n P1 P2 V1 V2 = .ok M) :
    (M.map Prod.fst).Perm (List.range n) ∧ (M.map Prod.snd).Perm (List.range n) ∧
    Irving.StablePairs P1 P2 M ∧
    ∃ M0 rots, irvingPlan n P1 P2 V1 V2 = .ok (M0, rots) ∧ Irving.eliminateAll M0 rots = some M ∧
      Irving.matchingValue V1 V2 M
        = Irving.matchingValue V1 V2 M0 + (rots.map (Irving.rotationWeight V1 V2)).sum :=
  irving_sound' n P1 P2 V1 V2 M h

/-- **C03 (the run-time checks do not change answers).**  An `ok` answer of the checked mirror is also the answer
of the unchecked mirror `irvingRaw`, which is the line-by-line image of `Irving.scf`. -/
theorem C03_irving_ok_raw (n : Nat) (P1 P2 : List (List Nat)) (V1 V2 : List (List Int)) (M : List Irving.Pair)
    (h : irving n P1 P2 V1 V2 = .ok M) : irvingRaw n P1 P2 V1 V2 = .ok M :=
  irving_ok_raw n P1 P2 V1 V2 M h

/-- **C03 (what an `ok` plan consists of).**  The input satisfies the precondition `wfB`, the three `assert`s after
Gale–Shapley hold for `M0`, and `rots` are the rotations selected by `closedSubset` on the poset graph of all
rotations, in ascending index order. -/
theorem C03_irvingPlan_ok (n : Nat) (P1 P2 : List (List Nat)) (V1 V2 : List (List Int)) (M0 : List Irving.Pair)
    (rots : List (List Irving.Pair)) (h : irvingPlan n P1 P2 V1 V2 = .ok (M0, rots)) :
    wfB n P1 P2 V1 V2 = true ∧ maleOptimal n P1 P2 = some M0 ∧
    M0.length = n ∧ (M0.map Prod.fst).Nodup ∧ (M0.map Prod.snd).Nodup ∧
    ∃ all elim C,
      allRotations (shortlists n P1 P2 (muOf n M0)).1 (shortlists n P1 P2 (muOf n M0)).2 = some (all, elim) ∧
      closedSubset (posetGraph all (shortlists n P1 P2 (muOf n M0)).1 elim) all V1 V2 = .ok C ∧
      rots = (sortNat C).map (fun i => all.getD i []) :=
  irvingPlan_ok n P1 P2 V1 V2 M0 rots h

/-- **C03 (shortlists, Property 3 of ILG).**  For strict complete profiles and a perfect matching `mu`
(`mu[i]` = woman of man `i`), every man's shortlist starts with his partner. -/
theorem C03_shortlists_head (n : Nat) (P1 P2 : List (List Nat)) (mu : List Nat)
    (hP1 : ∀ i, i < n → permRowB n (P1.getD i []) = true)
    (hP2 : ∀ j, j < n → permRowB n (P2.getD j []) = true) (hmu : mu.Perm (List.range n)) (i : Nat) (hi : i < n) :
    ((shortlists n P1 P2 mu).1.getD i []).head? = some (mu.getD i n) :=
  shortlists_head n P1 P2 mu hP1 hP2 hmu i hi

/-- **C03 (shortlists, Property 2 of ILG).**  Every woman's shortlist ends with her partner `mu.idxOf j`. -/
theorem C03_shortlists_last (n : Nat) (P1 P2 : List (List Nat)) (mu : List Nat)
    (hP1 : ∀ i, i < n → permRowB n (P1.getD i []) = true)
    (hP2 : ∀ j, j < n → permRowB n (P2.getD j []) = true) (hmu : mu.Perm (List.range n)) (j : Nat) (hj : j < n) :
    ((shortlists n P1 P2 mu).2.getD j []).getLast? = some (mu.idxOf j) :=
  shortlists_last n P1 P2 mu hP1 hP2 hmu j hj

/-- **C03 (shortlists are mutual).**  After the two filters, `w` is on `m`'s list iff `m` is on `w`'s list (for all
inputs). -/
theorem C03_shortlists_mutual (n : Nat) (P1 P2 : List (List Nat)) (mu : List Nat) (m w : Nat) :
    w ∈ (shortlists n P1 P2 mu).1.getD m [] ↔ m ∈ (shortlists n P1 P2 mu).2.getD w [] :=
  shortlists_mutual n P1 P2 mu m w

/-- **C03 (the chosen set of rotations is closed).**  Whatever `find_maximum_weight_closed_subset` (mirror) returns
is closed under predecessors in the graph `succs` it was given (`x ∈ C`, `rho → x` imply `rho ∈ C`); it contains
every positive-weight rotation that is not on the source side `S` of the cut returned by the max-flow model, and
it is the least closed set that does. -/
theorem C03_closedSubset_closed (succs : List (List Nat)) (rots : List (List Irving.Pair)) (V1 V2 : List (List Int))
    (C : List Nat) (h : closedSubset succs rots V1 V2 = .ok C) :
    Irving.ClosedUnder succs C ∧
    ∃ f S, ff (closedNet succs (rots.map (Irving.rotationWeight V1 V2)))
        (ffFuel (closedNet succs (rots.map (Irving.rotationWeight V1 V2)))) = .ok (f, S) ∧
      (∀ x ∈ positivesOff succs.length (rots.map (Irving.rotationWeight V1 V2)) S, x ∈ C) ∧
      (∀ T, (∀ x ∈ positivesOff succs.length (rots.map (Irving.rotationWeight V1 V2)) S, x ∈ T) →
        Irving.ClosedUnder succs T → ∀ x ∈ C, x ∈ T) :=
  closedSubset_closed succs rots V1 V2 C h

/-- **C03 (stage 1 needs no run-time check).**  On inputs satisfying the precondition `wfB` (strict complete `n × n`
profiles), Gale–Shapley does not run out of fuel, and the male-optimal matching handed to the later stages has all
entries `< n` and no blocking pair (from C01 for `gsRes`). -/
theorem C03_maleOptimal_stable (n : Nat) (P1 P2 : List (List Nat)) (V1 V2 : List (List Int))
    (hwf : wfB n P1 P2 V1 V2 = true) :
    (∃ M0, maleOptimal n P1 P2 = some M0) ∧
    ∀ M0, maleOptimal n P1 P2 = some M0 → (∀ p ∈ M0, p.1 < n ∧ p.2 < n) ∧ Irving.StablePairs P1 P2 M0 :=
  ⟨maleOptimal_isSome n P1 P2 V1 V2 hwf, fun M0 h => maleOptimal_stable n P1 P2 V1 V2 hwf M0 h⟩

/-- **C03 (model-only errors that cannot occur).**  For every input, the checked mirror never answers `gs-fuel` or
`check-matching` (the remaining model-only answers are `levels-fuel`, `flow` and `check-exposed`). -/
theorem C03_irving_no_spurious (n : Nat) (P1 P2 : List (List Nat)) (V1 V2 : List (List Int)) :
    irving n P1 P2 V1 V2 ≠ .error "gs-fuel" ∧ irving n P1 P2 V1 V2 ≠ .error "check-matching" :=
  irving_no_spurious n P1 P2 V1 V2

/-- **C03 (Picard's reduction: the chosen set has maximum weight).**  If the flow network built from the poset graph
`succs` is well formed (`netWfB`: adjacency lists duplicate-free and inside `0..k-1`) and the total negative weight
is below `sys.maxsize`, the set `C` returned by the mirror of `find_maximum_weight_closed_subset` lies in `0..k-1`
and its weight is maximum among ALL subsets of `0..k-1` closed under predecessors in `succs` (via
`C08_ff_maxflow_mincut`).  Together with `C03_closedSubset_closed`: `C` is a maximum-weight closed subset of the
MODEL's poset graph.  (That this graph is the rotation poset of the instance is not proved.) -/
theorem C03_closedSubset_max (succs : List (List Nat)) (rots : List (List Irving.Pair)) (V1 V2 : List (List Int))
    (C : List Nat)
    (hwfB : netWfB (closedNet succs (rots.map (Irving.rotationWeight V1 V2))) = true)
    (hbig : ∑ i ∈ Finset.range succs.length,
      max (-((rots.map (Irving.rotationWeight V1 V2)).getD i 0)) 0 < maxsize)
    (h : closedSubset succs rots V1 V2 = .ok C) :
    (∀ x ∈ C, x < succs.length) ∧
    ∀ T : Finset Nat, (∀ x ∈ T, x < succs.length) →
      (∀ rho, (∃ x ∈ succs.getD rho [], x ∈ T) → rho ∈ T) →
      ∑ x ∈ T, (rots.map (Irving.rotationWeight V1 V2)).getD x 0
        ≤ ∑ x ∈ C.toFinset, (rots.map (Irving.rotationWeight V1 V2)).getD x 0 :=
  closedSubset_max succs rots V1 V2 C hwfB hbig h

/-! ## Non-vacuity: the stages and the whole pipeline on concrete instances -/

/-- 3×3 Latin-square instance, stage by stage: male-optimal matching, shortlists, all rotations with the
eliminating map, poset graph (`0 → 1`) -/
example : maleOptimal 3 exL1 exL2 = some [(0, 0), (1, 1), (2, 2)] := exLatin_maleOptimal
example : shortlists 3 exL1 exL2 [0, 1, 2] = ([[0, 1, 2], [1, 2, 0], [2, 0, 1]], [[1, 2, 0], [2, 0, 1], [0, 1, 2]]) := by
  decide +kernel
example : findRotations [[0, 1, 2], [1, 2, 0], [2, 0, 1]] [[1, 2, 0], [2, 0, 1], [0, 1, 2]]
    = [[(0, 0), (1, 1), (2, 2)]] := by decide +kernel
example : allRotations [[0, 1, 2], [1, 2, 0], [2, 0, 1]] [[1, 2, 0], [2, 0, 1], [0, 1, 2]]
    = some ([[(0, 0), (1, 1), (2, 2)], [(0, 1), (1, 2), (2, 0)]],
        [((0, 0), 0), ((1, 1), 0), ((2, 2), 0), ((0, 1), 1), ((1, 2), 1), ((2, 0), 1)]) := by decide +kernel
example : posetGraph [[(0, 0), (1, 1), (2, 2)], [(0, 1), (1, 2), (2, 0)]] [[0, 1, 2], [1, 2, 0], [2, 0, 1]]
    [((0, 0), 0), ((1, 1), 0), ((2, 2), 0), ((0, 1), 1), ((1, 2), 1), ((2, 0), 1)] = [[1], []] := by
  decide +kernel

/-- women's values `[[0,1,5],[5,0,1],[1,5,0]]`: the first rotation has weight `+15`, the second `-12`; the max-flow
stage selects `{0}` only, and the answer is the MIDDLE stable matching `0↔1, 1↔2, 2↔0` (value `15`) -/
example : (closedSubset [[1], []] [[(0, 0), (1, 1), (2, 2)], [(0, 1), (1, 2), (2, 0)]]
    [[0,0,0],[0,0,0],[0,0,0]] [[0,1,5],[5,0,1],[1,5,0]]).toOption = some [0] := by decide +kernel
example : irving 3 exL1 exL2 [[0,0,0],[0,0,0],[0,0,0]] [[0,1,5],[5,0,1],[1,5,0]]
    = .ok [(0, 1), (1, 2), (2, 0)] := by
  unfold irving irvingPlan; rw [exLatin_maleOptimal]; decide +kernel
example : irvingPlan 3 exL1 exL2 [[0,0,0],[0,0,0],[0,0,0]] [[0,1,5],[5,0,1],[1,5,0]]
    = .ok ([(0, 0), (1, 1), (2, 2)], [[(0, 0), (1, 1), (2, 2)]]) := by
  unfold irvingPlan; rw [exLatin_maleOptimal]; decide +kernel

/-- women's values induced by their ranks: both rotations are chosen (a chain of length 2 in the poset) and the
answer is the woman-optimal matching -/
example : irving 3 exL1 exL2 [[0,0,0],[0,0,0],[0,0,0]] [[1,3,2],[2,1,3],[3,2,1]]
    = .ok [(0, 2), (1, 0), (2, 1)] := by
  unfold irving irvingPlan; rw [exLatin_maleOptimal]; decide +kernel

/-- men's values only: no rotation is chosen, the answer is the male-optimal matching -/
example : irving 3 exL1 exL2 [[3,2,1],[1,3,2],[2,1,3]] [[0,0,0],[0,0,0],[0,0,0]]
    = .ok [(0, 0), (1, 1), (2, 2)] := by
  unfold irving irvingPlan; rw [exLatin_maleOptimal]; decide +kernel

/-- the 2×2 "opposite preferences" instance with values favouring the women -/
example : irving 2 exO1 exO2 [[0,0],[0,0]] [[0,5],[5,0]] = .ok [(0, 1), (1, 0)] := by
  unfold irving irvingPlan; rw [exOpp_maleOptimal]; decide +kernel

/-- an input that is not a strict complete profile is rejected -/
example : irving 2 [[1,1],[2,2]] exO2 [[0,0],[0,0]] [[0,5],[5,0]] = .error "profile" := by decide +kernel

/-- the hypotheses of the shortlist theorems hold on the Latin-square instance -/
example : (∀ i, i < 3 → permRowB 3 (exL1.getD i []) = true) ∧ (∀ j, j < 3 → permRowB 3 (exL2.getD j []) = true) ∧
    ([0, 1, 2] : List Nat).Perm (List.range 3) := by decide

/-- the hypotheses of `C03_closedSubset_max` hold on the Latin-square instance (weights `+15`, `-12`) -/
example : netWfB (closedNet [[1], []] ([[(0, 0), (1, 1), (2, 2)], [(0, 1), (1, 2), (2, 0)]].map
      (Irving.rotationWeight [[0,0,0],[0,0,0],[0,0,0]] [[0,1,5],[5,0,1],[1,5,0]]))) = true := by decide +kernel
example : ∑ i ∈ Finset.range ([[1], []] : List (List Nat)).length,
    max (-(([[(0, 0), (1, 1), (2, 2)], [(0, 1), (1, 2), (2, 0)]].map
      (Irving.rotationWeight [[0,0,0],[0,0,0],[0,0,0]] [[0,1,5],[5,0,1],[1,5,0]])).getD i 0)) 0 < maxsize := by
  decide +kernel
example : [[(0, 0), (1, 1), (2, 2)], [(0, 1), (1, 2), (2, 0)]].map
    (Irving.rotationWeight [[0,0,0],[0,0,0],[0,0,0]] [[0,1,5],[5,0,1],[1,5,0]]) = [15, -12] := by decide +kernel
example : wfB 3 exL1 exL2 [[0,0,0],[0,0,0],[0,0,0]] [[0,1,5],[5,0,1],[1,5,0]] = true := by decide +kernel
