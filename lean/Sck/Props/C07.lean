import Sck.Proofs.Rsd
import Sck.Proofs.Bvn3
import Sck.Proofs.BvnFull3

/-! # C07 — random serial dictatorship and the eating lottery

"Random serial dictatorship, and the lottery drawn by probabilistic serial or simultaneous eating, return
without error an allocation in which no two agents receive the same item and no agent receives an item it
marked unacceptable. The serial-dictatorship outcome is exactly the result of letting the agents pick their
best remaining acceptable item one after another in some order, and the eating lottery only gives an agent
an item that the eating process assigns to it with positive probability."

`rsd P order` models `RandomSerialDictatorship.scf` for the picking order drawn by `np.random.shuffle`
(`(rsd P order)[a]?` = agent `a`'s item, `some none` = unallocated); `prefRank P a j = some r` means that agent
`a` ranks item `j` at position `r`, `none` that the item is unacceptable. The profile may be incomplete, need
not be square, and the theorems hold for every duplicate-free `order` of valid agents.
Property theorems only; the proofs live in `Sck/Proofs/Rsd.lean` and `Sck/Proofs/Bvn3.lean`. -/

/-- there is no error case: `rsd` is a total function and returns one entry per agent -/
theorem rsd_total (P : List (List (Option Nat))) (order : List Nat) :
    (rsd P order).length = P.length :=
  rsd_length P order

/-- no item is given to two agents -/
theorem rsd_injective (P : List (List (Option Nat))) (order : List Nat) (hnd : order.Nodup)
    (hlt : ∀ a ∈ order, a < P.length) (a b j : Nat) (ha : (rsd P order)[a]? = some (some j))
    (hb : (rsd P order)[b]? = some (some j)) : a = b :=
  rsd_inj P order hnd hlt a b j ha hb

/-- an agent only receives an item it marked acceptable (the item has a rank in the agent's row, in
particular it is a valid item index) -/
theorem rsd_acceptable (P : List (List (Option Nat))) (order : List Nat) (hnd : order.Nodup)
    (hlt : ∀ a ∈ order, a < P.length) (a j : Nat) (h : (rsd P order)[a]? = some (some j)) :
    ∃ r, prefRank P a j = some r :=
  rsd_acc P order hnd hlt a j h

/-- **Serial dictatorship.** For every position `t` of the picking order, with `takenBefore j` meaning that
item `j` went to one of the agents `order[0], …, order[t-1]`:
either agent `order[t]` is unallocated and every item acceptable to it was taken before,
or it holds an item `j` that was not taken before, is acceptable to it with rank `r`, and every other
acceptable item not taken before has rank `≥ r` (and a larger index in case of a rank tie, as `np.nanargmin`). -/
theorem rsd_is_serial_dictatorship (P : List (List (Option Nat))) (order : List Nat) (hnd : order.Nodup)
    (hlt : ∀ a ∈ order, a < P.length) (t : Nat) (ht : t < order.length) :
    let takenBefore : Nat → Prop := fun j =>
      ∃ u, ∃ hu : u < t, (rsd P order)[order[u]'(Nat.lt_trans hu ht)]? = some (some j)
    ((rsd P order)[order[t]]? = some none ∧ ∀ j' r', prefRank P order[t] j' = some r' → takenBefore j') ∨
    (∃ j r, (rsd P order)[order[t]]? = some (some j) ∧ ¬ takenBefore j ∧ prefRank P order[t] j = some r ∧
      ∀ j' r', ¬ takenBefore j' → prefRank P order[t] j' = some r' → r ≤ r' ∧ (r' = r → j ≤ j')) :=
  rsd_sd P order hnd hlt t ht

/-- **Exactness.** The conditions of `rsd_is_serial_dictatorship` determine the outcome: any allocation
`alloc` (one entry per agent, nothing for agents outside `order`) in which every picker `order[t]` holds its
best acceptable item not held by `order[0..t)` — or nothing if there is none — IS `rsd P order`. -/
theorem rsd_exactly (P : List (List (Option Nat))) (order : List Nat) (hnd : order.Nodup)
    (hlt : ∀ a ∈ order, a < P.length) (alloc : List (Option Nat)) (hlen : alloc.length = P.length)
    (hrest : ∀ a, a < P.length → a ∉ order → alloc[a]? = some none)
    (hsd : ∀ (t : Nat) (ht : t < order.length),
      let takenBefore : Nat → Prop := fun j =>
        ∃ u, ∃ hu : u < t, alloc[order[u]'(Nat.lt_trans hu ht)]? = some (some j)
      (alloc[order[t]]? = some none ∧ ∀ j' r', prefRank P order[t] j' = some r' → takenBefore j') ∨
      (∃ j r, alloc[order[t]]? = some (some j) ∧ ¬ takenBefore j ∧ prefRank P order[t] j = some r ∧
        ∀ j' r', ¬ takenBefore j' → prefRank P order[t] j' = some r' → r ≤ r' ∧ (r' = r → j ≤ j'))) :
    alloc = rsd P order :=
  IsSD.unique ⟨hlen, hrest, hsd⟩ (rsd_isSD P order hnd hlt)

/-- agents that are not in the picking order receive nothing (with a full permutation there are none) -/
theorem rsd_only_pickers (P : List (List (Option Nat))) (order : List Nat) (a j : Nat)
    (h : (rsd P order)[a]? = some (some j)) : a ∈ order :=
  rsd_alloc_mem_order P order a j h

/-- the executable explanation check used by the harness is exactly equality with the model outcome -/
theorem rsd_explained (P : List (List (Option Nat))) (alloc : List (Option Nat)) (order : List Nat) :
    rsdExplainedB P alloc order = true ↔ alloc = rsd P order :=
  rsdExplainedB_iff P alloc order

/-! ## The eating lottery

`SimultaneousEating.scf` decomposes the eating matrix `X` with `birkhoff_von_neumann` and returns one of the
permutations of the decomposition (`np.argmax(P, axis=1)`), i.e. agent `i` receives item `perms[k][i]`.
Whatever `k` the random draw picks: -/

/-- every permutation of a successful replay is a bijection of `0..n-1`: no item is given twice (and every
agent gets exactly one item) -/
theorem lottery_injective (n : ℕ) (X : List (List Rat)) (perms : List (List ℕ)) (zs : List Rat)
    (R : List (List Rat)) (hrep : bvnReplay n X perms = .ok (zs, R)) (k : ℕ) (hk : k < perms.length) :
    perms[k].length = n ∧ (∀ i, i < n → perms[k].getD i n < n) ∧
    (∀ i i', i < n → i' < n → perms[k].getD i n = perms[k].getD i' n → i = i') ∧
    ∀ j, j < n → ∃ i, i < n ∧ perms[k].getD i n = j :=
  isPermB_bij _ (bvnReplay_in_support X perms zs R hrep _ (List.getElem_mem hk)).1

/-- agent `i` only receives an item of which the ORIGINAL matrix gives it a strictly positive share -/
theorem lottery_in_support (n : ℕ) (X : List (List Rat)) (perms : List (List ℕ)) (zs : List Rat)
    (R : List (List Rat)) (hrep : bvnReplay n X perms = .ok (zs, R)) (k : ℕ) (hk : k < perms.length)
    (i : ℕ) (hi : i < n) : 0 < matGet X i (perms[k].getD i n) :=
  (bvnReplay_in_support X perms zs R hrep _ (List.getElem_mem hk)).2 i hi

/-- monotonicity behind `lottery_in_support`: the residual never exceeds the original entry -/
theorem lottery_residual_le (n : ℕ) (X : List (List Rat)) (perms : List (List ℕ)) (zs : List Rat)
    (R : List (List Rat)) (hrep : bvnReplay n X perms = .ok (zs, R)) (i j : ℕ) (hi : i < n) (hj : j < n) :
    matGet R i j ≤ matGet X i j :=
  bvnReplay_residual_le X perms zs R hrep i j hi hj

/-! ## The eating lottery, end to end

`SimultaneousEating.scf(profile, speeds)` = `Eat.eat` (the eating matrix `M`, C05), then
`birkhoff_von_neumann(M)` = `bvnFull n M` (the loop with the real matching oracle, C06/C09), then one index
`k` drawn with probability proportional to the coefficient `out[k].1`, and the answer
`np.argmax(P_k, axis=1)` = `out[k].2`. -/

/-- **End to end.** For a well-formed complete profile of `n ≥ 1` agents with positive speeds:
the eating process terminates with a matrix `M` that is balanced with common sum `1` (bistochastic); the
decomposition loop with the real oracle succeeds on it with `1 ≤ |out| ≤ n²` terms whose coefficients are
strictly positive, add up to `1` (they are the probabilities handed to the draw) and reproduce `M` exactly;
and for EVERY index `k` the draw can return, the allocation `σ_k` is a bijection of `0..n-1` (no item is
given twice, every agent gets one) in which every agent `i` receives an item of which it ate a strictly
positive share, `0 < M[i][σ_k i]`.
(`n = 0` is excluded: there `M = []`, the decomposition is empty, its coefficients sum to `0`, and
`np.random.choice(0, …)` raises.) -/
theorem C07_lottery_end_to_end (n : ℕ) (P : List (List ℕ)) (speeds : List Rat) (hn : 0 < n)
    (hwf : Eat.eatWfB n P speeds = true) :
    ∃ M out, Eat.eat n P speeds = some M ∧ isBalancedB n M = some 1 ∧ bvnFull n M = .ok out ∧
      0 < out.length ∧ out.length ≤ n * n ∧ (∀ e ∈ out, 0 < e.1) ∧ sumList (out.map (·.1)) = 1 ∧
      (∀ i j, i < n → j < n → reconEntry n (out.map (·.1)) (out.map (·.2)) i j = matGet M i j) ∧
      ∀ k (hk : k < out.length),
        out[k].2.length = n ∧ (∀ i, i < n → out[k].2.getD i n < n) ∧
        (∀ i i', i < n → i' < n → out[k].2.getD i n = out[k].2.getD i' n → i = i') ∧
        (∀ j, j < n → ∃ i, i < n ∧ out[k].2.getD i n = j) ∧
        ∀ i, i < n → 0 < matGet M i (out[k].2.getD i n) := by
  obtain ⟨M, hM, hbal⟩ := eat_balanced hn hwf
  obtain ⟨out, hout, hle, hpos, hperm, hsum, hrecon⟩ :=
    bvnWith_spec n (matchingPairs n) (matchingPairs_ok n) M 1 hbal
  refine ⟨M, out, hM, hbal, hout, out_nonempty_of_sum_one out hsum, hle, hpos, hsum, hrecon, ?_⟩
  intro k hk
  obtain ⟨hp, hs⟩ := hperm _ (List.getElem_mem hk)
  obtain ⟨h1, h2, h3, h4⟩ := isPermB_bij _ hp
  exact ⟨h1, h2, h3, h4, hs⟩

/-- the same for `ProbabilisticSerial.scf` (unit speeds) -/
theorem C07_ps_lottery_end_to_end (n : ℕ) (P : List (List ℕ)) (hn : 0 < n)
    (hwf : Eat.eatWfB n P (List.replicate n 1) = true) :
    ∃ M out, Eat.ps n P = some M ∧ isBalancedB n M = some 1 ∧ bvnFull n M = .ok out ∧
      0 < out.length ∧ out.length ≤ n * n ∧ (∀ e ∈ out, 0 < e.1) ∧ sumList (out.map (·.1)) = 1 ∧
      (∀ i j, i < n → j < n → reconEntry n (out.map (·.1)) (out.map (·.2)) i j = matGet M i j) ∧
      ∀ k (hk : k < out.length),
        out[k].2.length = n ∧ (∀ i, i < n → out[k].2.getD i n < n) ∧
        (∀ i i', i < n → i' < n → out[k].2.getD i n = out[k].2.getD i' n → i = i') ∧
        (∀ j, j < n → ∃ i, i < n ∧ out[k].2.getD i n = j) ∧
        ∀ i, i < n → 0 < matGet M i (out[k].2.getD i n) :=
  C07_lottery_end_to_end n P (List.replicate n 1) hn hwf

/-- `Eat.mget` (used in C05) and `matGet` (used here) are the same entry accessor -/
theorem C07_mget_eq_matGet (X : List (List Rat)) (i j : ℕ) : Eat.mget X i j = matGet X i j := rfl

/-! ## Non-vacuity -/

/-- an incomplete 3-agent / 3-item profile: agent 2 finds item 2 unacceptable and ends up unallocated -/
example :
    rsd [[some 1, some 2, some 3], [some 1, none, some 2], [some 2, some 1, none]] [1, 0, 2] =
      [some 1, some 0, none] ∧
    [1, 0, 2].Nodup ∧ (∀ a ∈ [1, 0, 2], a < 3) := by decide

/-- more agents than items (4 agents, 2 items), a different order -/
example :
    rsd [[some 1, some 2], [some 1, some 2], [some 2, some 1], [none, some 1]] [3, 0, 1, 2] =
      [some 0, none, none, some 1] ∧ [3, 0, 1, 2].Nodup := by decide

/-- a successful replay whose first permutation is the lottery outcome `0 ↦ 0, 1 ↦ 2, 2 ↦ 1` -/
example :
    bvnReplay 3 [[1/2, 1/2, 0], [1/2, 0, 1/2], [0, 1/2, 1/2]] [[0, 2, 1], [1, 0, 2]] =
      .ok ([1/2, 1/2], [[0, 0, 0], [0, 0, 0], [0, 0, 0]]) := by decide +kernel

#print axioms rsd_injective
#print axioms rsd_acceptable
#print axioms rsd_is_serial_dictatorship
#print axioms rsd_exactly
#print axioms lottery_injective
#print axioms lottery_in_support

/-- the hypotheses of `C07_lottery_end_to_end` on the 3-agent instance of C05, and the lottery it defines:
the eating matrix, and the decomposition computed by the real loop (four possible allocations) -/
example : Eat.eatWfB 3 [[1,2,3],[1,2,3],[2,1,3]] [1,1,1] = true ∧ 0 < 3 := by decide +kernel
example : (match bvnFull 3 [[1/2, 1/6, 1/3], [1/2, 1/6, 1/3], [0, 2/3, 1/3]] with
    | .ok out => some out | .error _ => none) =
    some [(1/6, [0, 1, 2]), (1/3, [0, 2, 1]), (1/6, [1, 0, 2]), (1/3, [2, 0, 1])] ∧
    isBalancedB 3 [[1/2, 1/6, 1/3], [1/2, 1/6, 1/3], [0, 2/3, 1/3]] = some 1 := by decide +kernel

#print axioms C07_lottery_end_to_end
