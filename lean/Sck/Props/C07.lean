import Sck.Proofs.Rsd
import Sck.Proofs.Bvn3

/-! # C07 — random serial dictatorship and the eating lottery

"Random serial dictatorship, and the lottery drawn by probabilistic serial or simultaneous eating, return
without error an allocation in which no two agents receive the same item and no agent receives an item it
marked unacceptable. The serial-dictatorship outcome is exactly the result of letting the agents pick their
best remaining acceptable item one after another in some order, and the eating lottery only gives an agent
an item that the eating process assigns to it with positive probability."

`rsd P order` models `RandomSerialDictatorship.scf` for the picking order drawn by `np.random.shuffle`
(`(rsd P order)[a]?` = agent `a`'s item, `some none` = unallocated); `prefRank P a j = some r` means that agent
`a` ranks item `j` at position `r`, `none` that the item is unacceptable. The profile may be incomplete, need
not be square, and the theorems hold for every duplicate-free `order` of valid agents.
Property theorems only; the proofs live in `Sck/Proofs/Rsd.lean` and `Sck/Proofs/Bvn3.lean`. -/

/-- there is no error case: `rsd` is a total function and returns one entry per agent -/
theorem rsd_total (P : List (List (Option Nat))) (order : List Nat) :
    (rsd P order).length = P.length :=
  rsd_length P order

/-- no item is given to two agents -/
theorem rsd_injective (P : List (List (Option Nat))) (order : List Nat) (hnd : order.Nodup)
    (hlt : ∀ a ∈ order, a < P.length) (a b j : Nat) (ha : (rsd P order)[a]? = some (some j))
    (hb : (rsd P order)[b]? = some (some j)) : a = b :=
  rsd_inj P order hnd hlt a b j ha hb

/-- an agent only receives an item it marked acceptable (the item has a rank in the agent's row, in
particular it is a valid item index) -/
theorem rsd_acceptable (P : List (List (Option Nat))) (order : List Nat) (hnd : order.Nodup)
    (hlt : ∀ a ∈ order, a < P.length) (a j : Nat) (h : (rsd P order)[a]? = some (some j)) :
    ∃ r, prefRank P a j = some r :=
  rsd_acc P order hnd hlt a j h

/-- **Serial dictatorship.** For every position `t` of the picking order, with `takenBefore j` meaning that
item `j` went to one of the agents `order[0], …, order[t-1]`:
either agent `order[t]` is unallocated and every item acceptable to it was taken before,
or it holds an item `j` that was not taken before, is acceptable to it with rank `r`, and every other
acceptable item not taken before has rank `≥ r` (and a larger index in case of a rank tie, as `np.nanargmin`). -/
theorem rsd_is_serial_dictatorship (P : List (List (Option Nat))) (order : List Nat) (hnd : order.Nodup)
    (hlt : ∀ a ∈ order, a < P.length) (t : Nat) (ht : t < order.length) :
    let takenBefore : Nat → Prop := fun j =>
      ∃ u, ∃ hu : u < t, (rsd P order)[order[u]'(Nat.lt_trans hu ht)]? = some (some j)
    ((rsd P order)[order[t]]? = some none ∧ ∀ j' r', prefRank P order[t] j' = some r' → takenBefore j') ∨
    (∃ j r, (rsd P order)[order[t]]? = some (some j) ∧ ¬ takenBefore j ∧ prefRank P order[t] j = some r ∧
      ∀ j' r', ¬ takenBefore j' → prefRank P order[t] j' = some r' → r ≤ r' ∧ (r' = r → j ≤ j')) :=
  rsd_sd P order hnd hlt t ht

/-- **Exactness.** The conditions of `rsd_is_serial_dictatorship` determine the outcome: any allocation
`alloc` (one entry per agent, nothing for agents outside `order`) in which every picker `order[t]` holds its
best acceptable item not held by `order[0..t)` — or nothing if there is none — IS `rsd P order`. -/
theorem rsd_exactly (P : List (List (Option Nat))) (order : List Nat) (hnd : order.Nodup)
    (hlt : ∀ a ∈ order, a < P.length) (alloc : List (Option Nat)) (hlen : alloc.length = P.length)
    (hrest : ∀ a, a < P.length → a ∉ order → alloc[a]? = some none)
    (hsd : ∀ (t : Nat) (ht : t < order.length),
      let takenBefore : Nat → Prop := fun j =>
        ∃ u, ∃ hu : u < t, alloc[order[u]'(Nat.lt_trans hu ht)]? = some (some j)
      (alloc[order[t]]? = some none ∧ ∀ j' r', prefRank P order[t] j' = some r' → takenBefore j') ∨
      (∃ j r, alloc[order[t]]? = some (some j) ∧ ¬ takenBefore j ∧ prefRank P order[t] j = some r ∧
        ∀ j' r', ¬ takenBefore j' → prefRank P order[t] j' = some r' → r ≤ r' ∧ (r' = r → j ≤ j'))) :
    alloc = rsd P order :=
  IsSD.unique ⟨hlen, hrest, hsd⟩ (rsd_isSD P order hnd hlt)

/-- agents that are not in the picking order receive nothing (with a full permutation there are none) -/
theorem rsd_only_pickers (P : List (List (Option Nat))) (order : List Nat) (a j : Nat)
    (h : (rsd P order)[a]? = some (some j)) : a ∈ order :=
  rsd_alloc_mem_order P order a j h

/-- the executable explanation check used by the harness is exactly equality with the model outcome -/
theorem rsd_explained (P : List (List (Option Nat))) (alloc : List (Option Nat)) (order : List Nat) :
    rsdExplainedB P alloc order = true ↔ alloc = rsd P order :=
  rsdExplainedB_iff P alloc order

/-! ## The eating lottery

`SimultaneousEating.scf` decomposes the eating matrix `X` with `birkhoff_von_neumann` and returns one of the
permutations of the decomposition (`np.argmax(P, axis=1)`), i.e. agent `i` receives item `perms[k][i]`.
Whatever `k` the random draw picks: -/

/-- every permutation of a successful replay is a bijection of `0..n-1`: no item is given twice (and every
agent gets exactly one item) -/
theorem lottery_injective (n : ℕ) (X : List (List Rat)) (perms : List (List ℕ)) (zs : List Rat)
    (R : List (List Rat)) (hrep : bvnReplay n X perms = .ok (zs, R)) (k : ℕ) (hk : k < perms.length) :
    perms[k].length = n ∧ (∀ i, i < n → perms[k].getD i n < n) ∧
    (∀ i i', i < n → i' < n → perms[k].getD i n = perms[k].getD i' n → i = i') ∧
    ∀ j, j < n → ∃ i, i < n ∧ perms[k].getD i n = j :=
  isPermB_bij _ (bvnReplay_in_support X perms zs R hrep _ (List.getElem_mem hk)).1

/-- agent `i` only receives an item of which the ORIGINAL matrix gives it a strictly positive share -/
theorem lottery_in_support (n : ℕ) (X : List (List Rat)) (perms : List (List ℕ)) (zs : List Rat)
    (R : List (List Rat)) (hrep : bvnReplay n X perms = .ok (zs, R)) (k : ℕ) (hk : k < perms.length)
    (i : ℕ) (hi : i < n) : 0 < matGet X i (perms[k].getD i n) :=
  (bvnReplay_in_support X perms zs R hrep _ (List.getElem_mem hk)).2 i hi

/-- monotonicity behind `lottery_in_support`: the residual never exceeds the original entry -/
theorem lottery_residual_le (n : ℕ) (X : List (List Rat)) (perms : List (List ℕ)) (zs : List Rat)
    (R : List (List Rat)) (hrep : bvnReplay n X perms = .ok (zs, R)) (i j : ℕ) (hi : i < n) (hj : j < n) :
    matGet R i j ≤ matGet X i j :=
  bvnReplay_residual_le X perms zs R hrep i j hi hj

/-! ## Non-vacuity -/

/-- an incomplete 3-agent / 3-item profile: agent 2 finds item 2 unacceptable and ends up unallocated -/
example :
    rsd [[some 1, some 2, some 3], [some 1, none, some 2], [some 2, some 1, none]] [1, 0, 2] =
      [some 1, some 0, none] ∧
    [1, 0, 2].Nodup ∧ (∀ a ∈ [1, 0, 2], a < 3) := by decide

/-- more agents than items (4 agents, 2 items), a different order -/
example :
    rsd [[some 1, some 2], [some 1, some 2], [some 2, some 1], [none, some 1]] [3, 0, 1, 2] =
      [some 0, none, none, some 1] ∧ [3, 0, 1, 2].Nodup := by decide

/-- a successful replay whose first permutation is the lottery outcome `0 ↦ 0, 1 ↦ 2, 2 ↦ 1` -/
example :
    bvnReplay 3 [[1/2, 1/2, 0], [1/2, 0, 1/2], [0, 1/2, 1/2]] [[0, 2, 1], [1, 0, 2]] =
      .ok ([1/2, 1/2], [[0, 0, 0], [0, 0, 0], [0, 0, 0]]) := by decide +kernel

#print axioms rsd_injective
#print axioms rsd_acceptable
#print axioms rsd_is_serial_dictatorship
#print axioms rsd_exactly
#print axioms lottery_injective
#print axioms lottery_in_support
