import Sck.Proofs.Bvn4

/-! # C06 — Birkhoff–von Neumann decomposition

"Given any bistochastic matrix, or more generally any non-negative square matrix whose rows and columns all
have the same sum, the decomposition returns at most n*n pairs of a strictly positive coefficient and a 0/1
matrix with exactly one 1 in every row and column, such that the weighted sum of the matrices reproduces the
input [...] and the coefficients add up to the common row sum."

The harness replays the permutations chosen by the implementation through `bvnReplay` (exact arithmetic).
Property theorems only; the proofs live in `Sck/Proofs/Bvn1..4.lean`.

Reading guide: `isBalancedB n X = some s` — `X` is an `n × n` list matrix, entries `≥ 0`, all row and column
sums equal `s`; `isPermB n σ` — the list `σ` is a bijection of `0..n-1` (`bvn_perm_meaning`);
`reconEntry n zs perms i j = Σ_k zs[k] * (if perms[k][i] = j then 1 else 0)` (`reconEntry_def`). -/

/-- the weighted sum of permutation matrices, entry `(i, j)` (this is the definition, restated) -/
theorem reconEntry_def (n : ℕ) (zs : List Rat) (perms : List (List ℕ)) (i j : ℕ) :
    reconEntry n zs perms i j =
      (List.zipWith (fun z sigma => z * (if sigma.getD i n = j then 1 else 0)) zs perms).sum := rfl

/-- what the executable permutation check means: a bijection of `0..n-1`, i.e. the 0/1 matrix
`P[i][j] = (σ[i] = j)` has exactly one 1 in every row and in every column -/
theorem bvn_perm_meaning (n : ℕ) (sigma : List ℕ) (h : isPermB n sigma = true) :
    sigma.length = n ∧ (∀ i, i < n → sigma.getD i n < n) ∧
    (∀ i i', i < n → i' < n → sigma.getD i n = sigma.getD i' n → i = i') ∧
    ∀ j, j < n → ∃ i, i < n ∧ sigma.getD i n = j :=
  isPermB_bij sigma h

/-- **Replay specification.** If the exact replay of the chosen permutations on a balanced matrix succeeds
and ends at the zero matrix, then there are at most `n²` terms, every coefficient is strictly positive, the
coefficients add up to the common row sum, every term is a permutation, and the weighted sum of the
permutation matrices is EXACTLY the input. -/
theorem bvn_replay_spec (n : ℕ) (X : List (List Rat)) (perms : List (List ℕ)) (s : Rat) (zs : List Rat)
    (R : List (List Rat)) (hbal : isBalancedB n X = some s) (hrep : bvnReplay n X perms = .ok (zs, R))
    (hzero : isZeroB R = true) :
    zs.length = perms.length ∧ perms.length ≤ n * n ∧ (∀ z ∈ zs, 0 < z) ∧ sumList zs = s ∧
    (∀ sigma ∈ perms, isPermB n sigma = true) ∧
    ∀ i j, i < n → j < n → reconEntry n zs perms i j = matGet X i j :=
  bvnReplay_spec X perms s zs R hbal hrep hzero

/-- the same reconstruction statement through the executable checker used by the harness -/
theorem bvn_replay_reconB (n : ℕ) (X : List (List Rat)) (perms : List (List ℕ)) (s : Rat) (zs : List Rat)
    (R : List (List Rat)) (hbal : isBalancedB n X = some s) (hrep : bvnReplay n X perms = .ok (zs, R))
    (hzero : isZeroB R = true) : reconB n X zs perms = true :=
  bvnReplay_reconB X perms s zs R hbal hrep hzero

/-- **Progress** (Hall's theorem, `exists_support_perm`): a balanced matrix that is not the zero matrix has
a permutation inside its support, so the loop can always continue. -/
theorem bvn_progress (n : ℕ) (X : List (List Rat)) (s : Rat) (hbal : isBalancedB n X = some s)
    (hnz : isZeroB X = false) :
    ∃ sigma, isPermB n sigma = true ∧ (diagVals X sigma).all (fun v => decide (0 < v)) = true :=
  bvn_progress_aux X s hbal hnz

/-- **One step.** Subtracting the minimum entry `z` along a support permutation leaves a balanced matrix
with common sum `s − z`, `z > 0`, and strictly more zero entries. -/
theorem bvn_step_balanced (n : ℕ) (X : List (List Rat)) (s : Rat) (sigma : List ℕ) (z : Rat)
    (hbal : isBalancedB n X = some s) (hp : isPermB n sigma = true)
    (hsupp : (diagVals X sigma).all (fun v => decide (0 < v)) = true)
    (hz : minList (diagVals X sigma) = some z) :
    0 < z ∧ isBalancedB n (subPerm X sigma z) = some (s - z) ∧
    zeroCountL X < zeroCountL (subPerm X sigma z) := by
  obtain ⟨h1, h2, h3⟩ := bvn_step_aux X s sigma z hbal hp hsupp hz
  rw [zeroCount_eq_zeroCountL X (isBalancedB_square X s hbal),
    zeroCount_eq_zeroCountL _ (isBalancedB_square _ _ h2)] at h3
  exact ⟨h1, h2, h3⟩

/-- **Termination for ANY choice.** Whatever rule `choose` picks the next permutation — as long as it always
returns a permutation inside the support of the current (balanced, non-zero) residual — the loop started
from a balanced matrix reaches the zero matrix after at most `n²` steps (`bvnRunL choose (n*n) X` is the
list of permutations it takes), and the emitted pairs satisfy the full specification. -/
theorem bvn_any_choice_terminates (n : ℕ) (choose : List (List Rat) → List ℕ)
    (hchoose : ∀ Y t, isBalancedB n Y = some t → isZeroB Y = false →
      isPermB n (choose Y) = true ∧ (diagVals Y (choose Y)).all (fun v => decide (0 < v)) = true)
    (X : List (List Rat)) (s : Rat) (hbal : isBalancedB n X = some s) :
    ∃ zs R, bvnReplay n X (bvnRunL choose (n * n) X) = .ok (zs, R) ∧ isZeroB R = true ∧
      zs.length = (bvnRunL choose (n * n) X).length ∧ (bvnRunL choose (n * n) X).length ≤ n * n ∧
      (∀ z ∈ zs, 0 < z) ∧ sumList zs = s ∧
      (∀ sigma ∈ bvnRunL choose (n * n) X, isPermB n sigma = true) ∧
      ∀ i j, i < n → j < n → reconEntry n zs (bvnRunL choose (n * n) X) i j = matGet X i j := by
  obtain ⟨zs, R, h1, h2⟩ := bvnRunL_terminates' choose hchoose X s hbal
  exact ⟨zs, R, h1, h2, bvnReplay_spec X _ s zs R hbal h1 h2⟩

/-! ## Non-vacuity -/

/-- a 3×3 bistochastic matrix with dyadic entries: the hypotheses of `bvn_replay_spec` hold for a 2-term replay -/
example :
    isBalancedB 3 [[1/2, 1/2, 0], [1/2, 0, 1/2], [0, 1/2, 1/2]] = some 1 ∧
    bvnReplay 3 [[1/2, 1/2, 0], [1/2, 0, 1/2], [0, 1/2, 1/2]] [[0, 2, 1], [1, 0, 2]] =
      .ok ([1/2, 1/2], [[0, 0, 0], [0, 0, 0], [0, 0, 0]]) ∧
    isZeroB [[0, 0, 0], [0, 0, 0], [0, 0, 0]] = true := by decide +kernel

/-- three terms with different coefficients -/
example :
    isBalancedB 3 [[1/2, 1/4, 1/4], [1/4, 1/2, 1/4], [1/4, 1/4, 1/2]] = some 1 ∧
    bvnReplay 3 [[1/2, 1/4, 1/4], [1/4, 1/2, 1/4], [1/4, 1/4, 1/2]] [[1, 2, 0], [0, 1, 2], [2, 0, 1]] =
      .ok ([1/4, 1/2, 1/4], [[0, 0, 0], [0, 0, 0], [0, 0, 0]]) := by decide +kernel

/-- a balanced matrix that is not bistochastic (common sum 3) -/
example : isBalancedB 2 [[2, 1], [1, 2]] = some 3 ∧
    bvnReplay 2 [[2, 1], [1, 2]] [[0, 1], [1, 0]] = .ok ([2, 1], [[0, 0], [0, 0]]) := by decide +kernel

/-- the replay rejects a permutation outside the support, and a non-permutation -/
example : (bvnReplay 3 [[1/2, 1/2, 0], [1/2, 0, 1/2], [0, 1/2, 1/2]] [[0, 1, 2]]).isOk = false ∧
    (bvnReplay 3 [[1/2, 1/2, 0], [1/2, 0, 1/2], [0, 1/2, 1/2]] [[0, 1, 1]]).isOk = false := by
  decide +kernel

/-- the hypotheses of `bvn_step_balanced` on the first example -/
example : isPermB 3 [0, 2, 1] = true ∧
    (diagVals [[1/2, 1/2, 0], [1/2, 0, 1/2], [0, 1/2, 1/2]] [0, 2, 1]).all (fun v => decide (0 < v)) = true ∧
    minList (diagVals [[1/2, 1/2, 0], [1/2, 0, 1/2], [0, 1/2, 1/2]] [0, 2, 1]) = some (1/2) ∧
    zeroCountL [[1/2, 1/2, 0], [1/2, 0, 1/2], [0, 1/2, 1/2]] = 3 ∧
    zeroCountL (subPerm [[1/2, 1/2, 0], [1/2, 0, 1/2], [0, 1/2, 1/2]] [0, 2, 1] (1/2)) = 6 := by
  decide +kernel

/-- the hypothesis of `bvn_any_choice_terminates` is satisfiable for every `n`: a choice function exists -/
example (n : ℕ) : ∃ choose : List (List Rat) → List ℕ,
    ∀ Y t, isBalancedB n Y = some t → isZeroB Y = false →
      isPermB n (choose Y) = true ∧ (diagVals Y (choose Y)).all (fun v => decide (0 < v)) = true := by
  classical
  refine ⟨fun Y => if h : ∃ t, isBalancedB n Y = some t ∧ isZeroB Y = false then
      Classical.choose (bvn_progress n Y (Classical.choose h) (Classical.choose_spec h).1
        (Classical.choose_spec h).2) else [], ?_⟩
  intro Y t hb hz
  have h : ∃ t, isBalancedB n Y = some t ∧ isZeroB Y = false := ⟨t, hb, hz⟩
  simp only [dif_pos h]
  exact Classical.choose_spec (bvn_progress n Y (Classical.choose h) (Classical.choose_spec h).1
    (Classical.choose_spec h).2)

#print axioms bvn_replay_spec
#print axioms bvn_progress
#print axioms bvn_step_balanced
#print axioms bvn_any_choice_terminates
