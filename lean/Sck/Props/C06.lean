import Sck.Proofs.BvnFull2

/-! # C06 — Birkhoff–von Neumann decomposition

"Given any bistochastic matrix, or more generally any non-negative square matrix whose rows and columns all
have the same sum, the decomposition returns at most n*n pairs of a strictly positive coefficient and a 0/1
matrix with exactly one 1 in every row and column, such that the weighted sum of the matrices reproduces the
input [...] and the coefficients add up to the common row sum."

The harness replays the permutations chosen by the implementation through `bvnReplay` (exact arithmetic).
Property theorems only; the proofs live in `Sck/Proofs/Bvn1..4.lean`.

Reading guide: `isBalancedB n X = some s` — `X` is an `n × n` list matrix, entries `≥ 0`, all row and column
sums equal `s`; `isPermB n σ` — the list `σ` is a bijection of `0..n-1` (`bvn_perm_meaning`);
`reconEntry n zs perms i j = Σ_k zs[k] * (if perms[k][i] = j then 1 else 0)` (`reconEntry_def`). -/

/-- the weighted sum of permutation matrices, entry `(i, j)` (this is the definition, restated) -/
theorem reconEntry_def (n : ℕ) (zs : List Rat) (perms : List (List ℕ)) (i j : ℕ) :
    reconEntry n zs perms i j =
      (List.zipWith (fun z sigma => z * (if sigma.getD i n = j then 1 else 0)) zs perms).sum := rfl

/-- what the executable permutation check means: a bijection of `0..n-1`, i.e. the 0/1 matrix
`P[i][j] = (σ[i] = j)` has exactly one 1 in every row and in every column -/
theorem bvn_perm_meaning (n : ℕ) (sigma : List ℕ) (h : isPermB n sigma = true) :
    sigma.length = n ∧ (∀ i, i < n → sigma.getD i n < n) ∧
    (∀ i i', i < n → i' < n → sigma.getD i n = sigma.getD i' n → i = i') ∧
    ∀ j, j < n → ∃ i, i < n ∧ sigma.getD i n = j :=
  isPermB_bij sigma h

/-- **Replay specification.** If the exact replay of the chosen permutations on a balanced matrix succeeds
and ends at the zero matrix, then there are at most `n²` terms, every coefficient is strictly positive, the
coefficients add up to the common row sum, every term is a permutation, and the weighted sum of the
permutation matrices is EXACTLY the input. -/
theorem bvn_replay_spec (n : ℕ) (X : List (List Rat)) (perms : List (List ℕ)) (s : Rat) (zs : List Rat)
    (R : List (List Rat)) (hbal : isBalancedB n X = some s) (hrep : bvnReplay n X perms = .ok (zs, R))
    (hzero : isZeroB R = true) :
    zs.length = perms.length ∧ perms.length ≤ n * n ∧ (∀ z ∈ zs, 0 < z) ∧ sumList zs = s ∧
    (∀ sigma ∈ perms, isPermB n sigma = true) ∧
    ∀ i j, i < n → j < n → reconEntry n zs perms i j = matGet X i j :=
  bvnReplay_spec X perms s zs R hbal hrep hzero

/-- the same reconstruction statement through the executable checker used by the harness -/
theorem bvn_replay_reconB (n : ℕ) (X : List (List Rat)) (perms : List (List ℕ)) (s : Rat) (zs : List Rat)
    (R : List (List Rat)) (hbal : isBalancedB n X = some s) (hrep : bvnReplay n X perms = .ok (zs, R))
    (hzero : isZeroB R = true) : reconB n X zs perms = true :=
  bvnReplay_reconB X perms s zs R hbal hrep hzero

/-- **Progress** (Hall's theorem, `exists_support_perm`): a balanced matrix that is not the zero matrix has
a permutation inside its support, so the loop can always continue. -/
theorem bvn_progress (n : ℕ) (X : List (List Rat)) (s : Rat) (hbal : isBalancedB n X = some s)
    (hnz : isZeroB X = false) :
    ∃ sigma, isPermB n sigma = true ∧ (diagVals X sigma).all (fun v => decide (0 < v)) = true :=
  bvn_progress_aux X s hbal hnz

/-- **One step.** Subtracting the minimum entry `z` along a support permutation leaves a balanced matrix
with common sum `s − z`, `z > 0`, and strictly more zero entries. -/
theorem bvn_step_balanced (n : ℕ) (X : List (List Rat)) (s : Rat) (sigma : List ℕ) (z : Rat)
    (hbal : isBalancedB n X = some s) (hp : isPermB n sigma = true)
    (hsupp : (diagVals X sigma).all (fun v => decide (0 < v)) = true)
    (hz : minList (diagVals X sigma) = some z) :
    0 < z ∧ isBalancedB n (subPerm X sigma z) = some (s - z) ∧
    zeroCountL X < zeroCountL (subPerm X sigma z) := by
  obtain ⟨h1, h2, h3⟩ := bvn_step_aux X s sigma z hbal hp hsupp hz
  rw [zeroCount_eq_zeroCountL X (isBalancedB_square X s hbal),
    zeroCount_eq_zeroCountL _ (isBalancedB_square _ _ h2)] at h3
  exact ⟨h1, h2, h3⟩

/-- **Termination for ANY choice.** Whatever rule `choose` picks the next permutation — as long as it always
returns a permutation inside the support of the current (balanced, non-zero) residual — the loop started
from a balanced matrix reaches the zero matrix after at most `n²` steps (`bvnRunL choose (n*n) X` is the
list of permutations it takes), and the emitted pairs satisfy the full specification. -/
theorem bvn_any_choice_terminates (n : ℕ) (choose : List (List Rat) → List ℕ)
    (hchoose : ∀ Y t, isBalancedB n Y = some t → isZeroB Y = false →
      isPermB n (choose Y) = true ∧ (diagVals Y (choose Y)).all (fun v => decide (0 < v)) = true)
    (X : List (List Rat)) (s : Rat) (hbal : isBalancedB n X = some s) :
    ∃ zs R, bvnReplay n X (bvnRunL choose (n * n) X) = .ok (zs, R) ∧ isZeroB R = true ∧
      zs.length = (bvnRunL choose (n * n) X).length ∧ (bvnRunL choose (n * n) X).length ≤ n * n ∧
      (∀ z ∈ zs, 0 < z) ∧ sumList zs = s ∧
      (∀ sigma ∈ bvnRunL choose (n * n) X, isPermB n sigma = true) ∧
      ∀ i j, i < n → j < n → reconEntry n zs (bvnRunL choose (n * n) X) i j = matGet X i j := by
  obtain ⟨zs, R, h1, h2⟩ := bvnRunL_terminates' choose hchoose X s hbal
  exact ⟨zs, R, h1, h2, bvnReplay_spec X _ s zs R hbal h1 h2⟩

/-! ## The loop with the REAL matching oracle

`bvnFull n X` (file `Sck/Model/BvnFull.lean`) is `birkhoff_von_neumann(X)` end to end: `positivityAdj n X` is
`positivity_graph(X)` (rows `0..n-1`, columns `n..2n-1`, edge iff `X[i][j] > 0`), `matchingPairs n X` runs the
model of `maximum_cardinality_matching_bipartite` (`mcm`, C09) on it, `sigmaOfPairs n M` is the 0/1 matrix
`P[i, j-n] = 1` as the list row ↦ column, `matchingOracle n X` their composition, and `bvnWith pairsOf n X` is
the same loop for an arbitrary matching routine `pairsOf` (`bvnFull n = bvnWith (matchingPairs n) n`). -/

/-- the positivity graph of any matrix is a well-formed bipartite instance, and its edges are exactly the
strictly positive entries -/
theorem C06_positivity_graph (n : ℕ) (X : List (List Rat)) :
    bipWfB (rowVerts n) (colVerts n) (positivityAdj n X) = true ∧
    ∀ i, i < n → ∀ y, y ∈ positivityAdj n X (i : Int) ↔
      ∃ j, j < n ∧ 0 < matGet X i j ∧ y = ((j + n : ℕ) : Int) :=
  ⟨posGraph_wfB n X, fun i hi y => mem_positivityAdj_row n X i hi y⟩

/-- **The maximum matching is perfect.** On a balanced non-zero matrix the model's `mcm` does not fail, its
matching has exactly `n` edges (Hall: `bvn_progress` gives a matching of size `n`, `C09_mcm_correct` says
that `mcm`'s is at least as large), and the list `σ` read off it — `matchingOracle n X` — is a permutation
of `0..n-1` inside the support of `X`.  This is the hypothesis `hchoose` of `bvn_any_choice_terminates`. -/
theorem C06_matchingOracle_perfect (n : ℕ) (X : List (List Rat)) (s : Rat)
    (hbal : isBalancedB n X = some s) (hnz : isZeroB X = false) :
    (∃ M, matchingPairs n X = .ok M ∧ M.length = n ∧ matchingOracle n X = sigmaOfPairs n M) ∧
    isPermB n (matchingOracle n X) = true ∧
    (diagVals X (matchingOracle n X)).all (fun v => decide (0 < v)) = true := by
  obtain ⟨M, hM, hlen, _⟩ := oracle_step n _ (matchingPairs_ok n) X s hbal hnz
  refine ⟨⟨M, hM, hlen, by unfold matchingOracle; rw [hM]⟩, ?_⟩
  rw [matchingOracle_eq]
  exact chooseOf_ok n _ (matchingPairs_ok n) X s hbal hnz

/-- **End-to-end specification.** For every balanced matrix `X` (entries `≥ 0`, all row and column sums
equal to `s`) the loop with the real oracle returns — no error, within its `n² + 1` iterations — at most `n²`
pairs `(z, σ)`; every coefficient is strictly positive, every `σ` is a permutation of `0..n-1` that stays
inside the support of `X`, the coefficients add up to `s`, and the weighted sum of the permutation matrices
is EXACTLY `X`. -/
theorem C06_bvnFull_spec (n : ℕ) (X : List (List Rat)) (s : Rat) (hbal : isBalancedB n X = some s) :
    ∃ out, bvnFull n X = .ok out ∧ out.length ≤ n * n ∧ (∀ e ∈ out, 0 < e.1) ∧
      (∀ e ∈ out, isPermB n e.2 = true ∧ ∀ i, i < n → 0 < matGet X i (e.2.getD i n)) ∧
      sumList (out.map (·.1)) = s ∧
      ∀ i j, i < n → j < n → reconEntry n (out.map (·.1)) (out.map (·.2)) i j = matGet X i j :=
  bvnWith_spec n (matchingPairs n) (matchingPairs_ok n) X s hbal

/-- the same for EVERY matching routine that returns a maximum matching of the positivity graph of every
balanced non-zero matrix (e.g. the implementation's own depth-first Ford–Fulkerson, whose augmenting paths —
and hence matchings — may differ from those of the model's `mcm`) -/
theorem C06_bvnWith_spec (n : ℕ) (pairsOf : List (List Rat) → Except FFErr (List (Int × Int)))
    (hor : ∀ Y t, isBalancedB n Y = some t → isZeroB Y = false →
      ∃ M, pairsOf Y = .ok M ∧ IsMatching (rowVerts n) (positivityAdj n Y) M ∧
        ∀ M', IsMatching (rowVerts n) (positivityAdj n Y) M' → M'.length ≤ M.length)
    (X : List (List Rat)) (s : Rat) (hbal : isBalancedB n X = some s) :
    ∃ out, bvnWith pairsOf n X = .ok out ∧ out.length ≤ n * n ∧ (∀ e ∈ out, 0 < e.1) ∧
      (∀ e ∈ out, isPermB n e.2 = true ∧ ∀ i, i < n → 0 < matGet X i (e.2.getD i n)) ∧
      sumList (out.map (·.1)) = s ∧
      ∀ i j, i < n → j < n → reconEntry n (out.map (·.1)) (out.map (·.2)) i j = matGet X i j :=
  bvnWith_spec n pairsOf hor X s hbal

/-- `bvnFull` is `bvn_any_choice_terminates` instantiated with the real oracle: the permutations it emits
are the run `bvnRunL (matchingOracle n) (n*n) X`, its coefficients those of the exact replay -/
theorem C06_bvnFull_is_run (n : ℕ) (X : List (List Rat)) (s : Rat) (hbal : isBalancedB n X = some s) :
    ∃ zs R, bvnReplay n X (bvnRunL (matchingOracle n) (n * n) X) = .ok (zs, R) ∧ isZeroB R = true ∧
      bvnFull n X = .ok (zs.zip (bvnRunL (matchingOracle n) (n * n) X)) := by
  have hsq := isBalancedB_square X s hbal
  rw [matchingOracle_eq]
  obtain ⟨zs, R, hrep, hR⟩ :=
    bvnRunL_terminates' _ (chooseOf_ok n _ (matchingPairs_ok n)) X s hbal
  refine ⟨zs, R, hrep, hR, ?_⟩
  unfold bvnReplay at hrep
  rw [if_pos hsq] at hrep
  unfold bvnFull bvnWith
  rw [if_pos hsq]
  exact bvnWithAux_eq n _ (matchingPairs_ok n) (n * n) X s zs R hbal hrep hR

/-! ## Non-vacuity -/

/-- a 3×3 bistochastic matrix with dyadic entries: the hypotheses of `bvn_replay_spec` hold for a 2-term replay -/
example :
    isBalancedB 3 [[1/2, 1/2, 0], [1/2, 0, 1/2], [0, 1/2, 1/2]] = some 1 ∧
    bvnReplay 3 [[1/2, 1/2, 0], [1/2, 0, 1/2], [0, 1/2, 1/2]] [[0, 2, 1], [1, 0, 2]] =
      .ok ([1/2, 1/2], [[0, 0, 0], [0, 0, 0], [0, 0, 0]]) ∧
    isZeroB [[0, 0, 0], [0, 0, 0], [0, 0, 0]] = true := by decide +kernel

/-- three terms with different coefficients -/
example :
    isBalancedB 3 [[1/2, 1/4, 1/4], [1/4, 1/2, 1/4], [1/4, 1/4, 1/2]] = some 1 ∧
    bvnReplay 3 [[1/2, 1/4, 1/4], [1/4, 1/2, 1/4], [1/4, 1/4, 1/2]] [[1, 2, 0], [0, 1, 2], [2, 0, 1]] =
      .ok ([1/4, 1/2, 1/4], [[0, 0, 0], [0, 0, 0], [0, 0, 0]]) := by decide +kernel

/-- a balanced matrix that is not bistochastic (common sum 3) -/
example : isBalancedB 2 [[2, 1], [1, 2]] = some 3 ∧
    bvnReplay 2 [[2, 1], [1, 2]] [[0, 1], [1, 0]] = .ok ([2, 1], [[0, 0], [0, 0]]) := by decide +kernel

/-- the replay rejects a permutation outside the support, and a non-permutation -/
example : (bvnReplay 3 [[1/2, 1/2, 0], [1/2, 0, 1/2], [0, 1/2, 1/2]] [[0, 1, 2]]).isOk = false ∧
    (bvnReplay 3 [[1/2, 1/2, 0], [1/2, 0, 1/2], [0, 1/2, 1/2]] [[0, 1, 1]]).isOk = false := by
  decide +kernel

/-- the hypotheses of `bvn_step_balanced` on the first example -/
example : isPermB 3 [0, 2, 1] = true ∧
    (diagVals [[1/2, 1/2, 0], [1/2, 0, 1/2], [0, 1/2, 1/2]] [0, 2, 1]).all (fun v => decide (0 < v)) = true ∧
    minList (diagVals [[1/2, 1/2, 0], [1/2, 0, 1/2], [0, 1/2, 1/2]] [0, 2, 1]) = some (1/2) ∧
    zeroCountL [[1/2, 1/2, 0], [1/2, 0, 1/2], [0, 1/2, 1/2]] = 3 ∧
    zeroCountL (subPerm [[1/2, 1/2, 0], [1/2, 0, 1/2], [0, 1/2, 1/2]] [0, 2, 1] (1/2)) = 6 := by
  decide +kernel

/-- the hypothesis of `bvn_any_choice_terminates` is satisfiable for every `n`: a choice function exists -/
example (n : ℕ) : ∃ choose : List (List Rat) → List ℕ,
    ∀ Y t, isBalancedB n Y = some t → isZeroB Y = false →
      isPermB n (choose Y) = true ∧ (diagVals Y (choose Y)).all (fun v => decide (0 < v)) = true := by
  classical
  refine ⟨fun Y => if h : ∃ t, isBalancedB n Y = some t ∧ isZeroB Y = false then
      Classical.choose (bvn_progress n Y (Classical.choose h) (Classical.choose_spec h).1
        (Classical.choose_spec h).2) else [], ?_⟩
  intro Y t hb hz
  have h : ∃ t, isBalancedB n Y = some t ∧ isZeroB Y = false := ⟨t, hb, hz⟩
  simp only [dif_pos h]
  exact Classical.choose_spec (bvn_progress n Y (Classical.choose h) (Classical.choose_spec h).1
    (Classical.choose_spec h).2)

#print axioms bvn_replay_spec
#print axioms bvn_progress
#print axioms bvn_step_balanced
#print axioms bvn_any_choice_terminates

/-- the real loop on the examples above (the model's `mcm` picks the matchings) -/
example : (match bvnFull 3 [[1/2, 1/2, 0], [1/2, 0, 1/2], [0, 1/2, 1/2]] with
    | .ok out => some out | .error _ => none) = some [(1/2, [0, 2, 1]), (1/2, [1, 0, 2])] := by
  decide +kernel
example : (match bvnFull 3 [[1/2, 1/4, 1/4], [1/4, 1/2, 1/4], [1/4, 1/4, 1/2]] with
    | .ok out => some out | .error _ => none) =
    some [(1/2, [0, 1, 2]), (1/4, [2, 0, 1]), (1/4, [1, 2, 0])] := by decide +kernel
example : (match bvnFull 2 [[2, 1], [1, 2]] with
    | .ok out => some out | .error _ => none) = some [(2, [0, 1]), (1, [1, 0])] := by decide +kernel
/-- the oracle on a balanced non-zero matrix (hypotheses of `C06_matchingOracle_perfect`) -/
example : isBalancedB 3 [[1/2, 1/2, 0], [1/2, 0, 1/2], [0, 1/2, 1/2]] = some 1 ∧
    isZeroB [[1/2, 1/2, 0], [1/2, 0, 1/2], [0, 1/2, 1/2]] = false ∧
    matchingOracle 3 [[1/2, 1/2, 0], [1/2, 0, 1/2], [0, 1/2, 1/2]] = [0, 2, 1] := by decide +kernel
/-- a matrix that is NOT balanced is rejected the way `check_bipartite_graph` rejects it: after the first
subtraction column 0 has no positive entry, so the positivity graph lacks a key -/
example : isBalancedB 2 [[1, 1], [0, 1]] = none ∧
    (match bvnFull 2 [[1, 1], [0, 1]] with | .ok _ => true | .error _ => false) = false := by
  decide +kernel

#print axioms C06_matchingOracle_perfect
#print axioms C06_bvnFull_spec
#print axioms C06_bvnWith_spec
#print axioms C06_bvnFull_is_run
