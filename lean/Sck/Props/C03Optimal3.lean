import Sck.Proofs.LatticeI8

/-! # C03 — obligation (i) of the optimality of the mirror of `Irving.scf` is discharged (package L8a)

`Remaining_i` (`Sck/Props/C03Optimal.lean`): on every strict complete instance, `IrvingAlgo.allRotations`
(`find_all_rotations_and_eliminations`) lists, in discovery order, a MAXIMAL chain of eliminations from the male-optimal
matching `M0`: every discovered rotation is non-empty and exposed when its turn comes, eliminating all of them succeeds, and
in the final matching no rotation is exposed.  It is proved here (`C03_remaining_i`) through ONE loop invariant `LevelInv`
over the state `LvSt` of the level loop and the current stable matching `μ` (`C03_levelInv_init`, `C03_levelInv_step`,
`C03_levelInv_final`):
* women's side (`WInv`): `w`'s list is her preference order cut after her current partner, and `preference_matrix_2` is its
  indicator;
* men's side (`MInv`): `m`'s list is in his preference order, contains every woman who has him on her list, and its first
  two entries are such women (this is all the Python code maintains for the men: the tail of a man's list may contain stale
  entries).
Hence the first entry of `m`'s list is `μ m`, the second is his successor woman `s_μ(m)` (`C03_levelInv_lists`), the graph
`G(S)` of `find_rotations` is the "next man" graph, its cycles are exactly the rotations exposed in `μ`
(`C03_findRotations_cycles`, `C03_findRotations_disjoint`, `C03_findRotations_nil_dead`), and the level loop stops only when
no rotation is exposed.  Two by-products: the loop terminates within the mirror's fuel (`C03_irving_no_levels_fuel`), and
with the reductions of package L7 optimality of the mirror now depends on obligation (j) alone
(`C03_irving_optimal_of_remaining_j`). -/

open IrvingAlgo SMLattice

/-! ## the invariant, spelled out -/

theorem C03_winv_iff {n : ℕ} (P2 : List (List Nat)) (l2 : List (List Nat)) (pm2 : List (List Bool))
    (hus : Fin n → Fin n) :
    WInv n P2 l2 pm2 hus ↔
      l2.length = n ∧
      (∀ w : Fin n, (l2.getD w []).Pairwise (fun a b => rankOf P2 w a < rankOf P2 w b)) ∧
      (∀ (w : Fin n) (m : Nat), m ∈ l2.getD w [] ↔ m < n ∧ rankOf P2 w m ≤ rankOf P2 w (hus w)) ∧
      (∀ w m : Nat, (pm2.getD w []).getD m false = (l2.getD w []).contains m) :=
  winv_iff P2 l2 pm2 hus

theorem C03_minv_iff {n : ℕ} (P1 : List (List Nat)) (l1 l2 : List (List Nat)) :
    MInv n P1 l1 l2 ↔
      l1.length = n ∧
      (∀ m : Fin n, (l1.getD m []).Pairwise (fun a b => rankOf P1 m a < rankOf P1 m b)) ∧
      (∀ m : Fin n, ∀ w ∈ l1.getD m [], w < n) ∧
      (∀ (m : Fin n) (w : Nat), (m : Nat) ∈ l2.getD w [] → w ∈ l1.getD m []) ∧
      (∀ (m : Fin n) (a : Nat) (t : List Nat), l1.getD m [] = a :: t → (m : Nat) ∈ l2.getD a []) ∧
      (∀ (m : Fin n) (a b : Nat) (t : List Nat), l1.getD m [] = a :: b :: t → (m : Nat) ∈ l2.getD b []) :=
  minv_iff P1 l1 l2

theorem C03_levelInv_iff {n : ℕ} (P1 P2 : List (List Nat)) (st : LvSt) (μ : Equiv.Perm (Fin n)) :
    LevelInv n P1 P2 st μ ↔
      WInv n P2 st.l2 st.pm2 μ.symm ∧ MInv n P1 st.l1 st.l2 ∧ StableSM (rk n P1) (rk n P2) μ :=
  levelInv_iff P1 P2 st μ

/-- the state the level loop starts from, and one pass through its body -/
theorem C03_initLevel_eq (l1 l2 : List (List Nat)) :
    initLevel l1 l2 =
      { l1 := l1, l2 := l2,
        pm2 := (List.range l1.length).map (fun j => (List.range l1.length).map (fun i => (l2.getD j []).contains i)),
        elim := [], cnt := 0 } := rfl

theorem C03_nextLevel_eq (st : LvSt) :
    nextLevel st =
      { (findRotations st.l1 st.l2).foldl elimRot st with
        l1 := (List.range ((findRotations st.l1 st.l2).foldl elimRot st).l1.length).map (fun i =>
          menUpdate ((findRotations st.l1 st.l2).foldl elimRot st).pm2 i
            (((findRotations st.l1 st.l2).foldl elimRot st).l1.getD i [])) } := rfl

theorem C03_levelLoop_succ (fuel : Nat) (st : LvSt) (ans : List (List Irving.Pair)) :
    levelLoop (fuel + 1) st ans =
      if (findRotations st.l1 st.l2).isEmpty then some (ans, st.elim)
      else levelLoop fuel (nextLevel st) (ans ++ findRotations st.l1 st.l2) :=
  levelLoop_succ fuel st ans

theorem C03_allRotations_eq (l1 l2 : List (List Nat)) :
    allRotations l1 l2 = levelLoop (l1.length * l1.length + 1) (initLevel l1 l2) [] :=
  allRotations_eq l1 l2

/-! ## `find_rotations` finds the cycles of its functional graph (no stable-matching theory) -/

theorem C03_isCycle_iff (oe : Nat → Option Nat) (c : List Nat) :
    IsCycle oe c ↔ c ≠ [] ∧ c.Nodup ∧
      ∀ i (h : i < c.length), oe c[i] = some (c[(i + 1) % c.length]'(Nat.mod_lt _ (by omega))) := Iff.rfl

theorem C03_dead_iff (oe : Nat → Option Nat) (x : Nat) :
    Dead oe x ↔ ∃ y, Relation.ReflTransGen (fun a b => oe a = some b) x y ∧ oe y = none := Iff.rfl

/-- **C03 (every rotation found is a cycle of `G(S)`)**, listed as `(man, first entry of his list)`. -/
theorem C03_findRotations_cycles (l1 l2 : List (List Nat)) :
    ∀ r ∈ findRotations l1 l2, ∃ c, IsCycle (outEdge l1 l2) c ∧ r = c.map (pairOf l1) :=
  findRotations_cycles l1 l2

/-- **C03 (the rotations found at one level have no man in common).** -/
theorem C03_findRotations_disjoint (l1 l2 : List (List Nat)) :
    (findRotations l1 l2).Pairwise (fun r r' => ∀ p ∈ r, ∀ p' ∈ r', p.1 ≠ p'.1) :=
  findRotations_disjoint l1 l2

/-- **C03 (cycle detection is complete).**  If `find_rotations` finds nothing, then from EVERY man the out-edges lead to
a man without out-edge (so `G(S)` has no cycle). -/
theorem C03_findRotations_nil_dead (l1 l2 : List (List Nat)) (h : findRotations l1 l2 = []) (x : Nat) :
    Dead (outEdge l1 l2) x :=
  findRotations_nil_dead l1 l2 h x

/-! ## the loop invariant: initially, one level, at the end -/

/-- **C03 (`levelInv_init`).**  On a strict complete instance the mirror's male-optimal matching `M0` represents the
man-optimal stable matching `μ0`, and the initial state of the level loop (the shortlists of `M0` with their indicator
matrix) satisfies the invariant for `μ0`. -/
theorem C03_levelInv_init {n : ℕ} (P1 P2 : List (List Nat)) (V1 V2 : List (List Int))
    (hwf : wfB n P1 P2 V1 V2 = true) (M0 : List Irving.Pair) (hmo : maleOptimal n P1 P2 = some M0) :
    ∃ μ0 : Equiv.Perm (Fin n), Rep M0 μ0 ∧ (∀ ν, StableSM (rk n P1) (rk n P2) ν → MLe (rk n P1) μ0 ν) ∧
      LevelInv n P1 P2
        (initLevel (shortlists n P1 P2 (muOf n M0)).1 (shortlists n P1 P2 (muOf n M0)).2) μ0 :=
  levelInv_init hwf hmo

/-- **C03 (what the lists mean under the invariant).**  The first entry of `m`'s list is his partner `μ m`; the second
entry, if any, is his successor woman `s_μ(m)` (the first woman below `μ m` on his list who prefers him to her partner); if
his list has one entry he has no successor; the last entry of `w`'s list is her partner. -/
theorem C03_levelInv_lists {n : ℕ} (P1 P2 : List (List Nat)) (h2 : ∀ b, Function.Injective (rk n P2 b)) (st : LvSt)
    (μ : Equiv.Perm (Fin n)) (inv : LevelInv n P1 P2 st μ) (m : Fin n) :
    (∃ t, st.l1.getD m [] = ((μ m : Fin n) : Nat) :: t) ∧
    (∀ a b t, st.l1.getD m [] = a :: b :: t → ∃ hb : b < n, IsSucc (rk n P1) (rk n P2) μ m ⟨b, hb⟩) ∧
    (∀ a, st.l1.getD m [] = [a] → ∀ b, ¬ Cand (rk n P1) (rk n P2) μ m b) ∧
    (∀ w : Fin n, (st.l2.getD w []).getLast? = some ((μ.symm w : Fin n) : Nat)) :=
  levelInv_lists h2 inv m

/-- **C03 (`levelInv_step`).**  Under the invariant for `(st, μ)`, `find_rotations` returns the pairs forms of pairwise
disjoint rotations `ρs`, each exposed in `μ`; eliminating them one after the other is an elimination path from `μ` to
some `μ'` whose pairs forms are exactly the rotations found, and the invariant holds for the next state and `μ'`. -/
theorem C03_levelInv_step {n : ℕ} (P1 P2 : List (List Nat)) (h1 : ∀ a, Function.Injective (rk n P1 a))
    (h2 : ∀ b, Function.Injective (rk n P2 b)) (st : LvSt) (μ : Equiv.Perm (Fin n)) (inv : LevelInv n P1 P2 st μ) :
    ∃ (ρs : List (List (Fin n))) (μ' : Equiv.Perm (Fin n)),
      findRotations st.l1 st.l2 = ρs.map (rotPairs μ) ∧
      (∀ ρ ∈ ρs, ExposedRot (rk n P1) (rk n P2) μ ρ) ∧ ρs.Pairwise List.Disjoint ∧
      ElimPath (rk n P1) (rk n P2) μ ρs μ' ∧ pathPairs μ ρs = findRotations st.l1 st.l2 ∧
      LevelInv n P1 P2 (nextLevel st) μ' :=
  levelInv_step h1 h2 inv

/-- **C03 (`levelInv_final`).**  Under the invariant, if `find_rotations` finds nothing then NO rotation is exposed in `μ`. -/
theorem C03_levelInv_final {n : ℕ} (P1 P2 : List (List Nat)) (h1 : ∀ a, Function.Injective (rk n P1 a))
    (h2 : ∀ b, Function.Injective (rk n P2 b)) (st : LvSt) (μ : Equiv.Perm (Fin n)) (inv : LevelInv n P1 P2 st μ)
    (hnil : findRotations st.l1 st.l2 = []) (ρ : List (Fin n)) : ¬ ExposedRot (rk n P1) (rk n P2) μ ρ :=
  levelInv_final h1 h2 inv hnil ρ

/-- **C03 (eliminating one exposed rotation in the lists).**  If the women's side of the invariant holds for `μ` and `ρ` is
exposed in `μ`, then after `elimRot` it holds for `μ/ρ`; the men's lists are untouched and the women's lists only lose members. -/
theorem C03_elimRot_winv {n : ℕ} (P1 P2 : List (List Nat)) (st : LvSt) (μ : Equiv.Perm (Fin n))
    (hW : WInv n P2 st.l2 st.pm2 μ.symm) (ρ : List (Fin n)) (hex : ExposedRot (rk n P1) (rk n P2) μ ρ) :
    WInv n P2 (elimRot st (rotPairs μ ρ)).l2 (elimRot st (rotPairs μ ρ)).pm2 (elim μ ρ).symm ∧
    (elimRot st (rotPairs μ ρ)).l1 = st.l1 ∧
    ∀ (w' m : Nat), m ∈ (elimRot st (rotPairs μ ρ)).l2.getD w' [] → m ∈ st.l2.getD w' [] :=
  elimRot_winv hW hex

/-- **C03 (the level loop).**  From a state satisfying the invariant for `μ`, a terminating run of the loop appends to `ans`
the pairs forms of an elimination path from `μ` to a matching in which no rotation is exposed. -/
theorem C03_levelLoop_spec {n : ℕ} (P1 P2 : List (List Nat)) (h1 : ∀ a, Function.Injective (rk n P1 a))
    (h2 : ∀ b, Function.Injective (rk n P2 b)) (fuel : Nat) (st : LvSt) (ans : List (List Irving.Pair))
    (μ : Equiv.Perm (Fin n)) (all : List (List Irving.Pair)) (elm : List (Irving.Pair × Nat))
    (inv : LevelInv n P1 P2 st μ) (h : levelLoop fuel st ans = some (all, elm)) :
    ∃ (ρs : List (List (Fin n))) (νz : Equiv.Perm (Fin n)), ElimPath (rk n P1) (rk n P2) μ ρs νz ∧
      all = ans ++ pathPairs μ ρs ∧ ∀ ρ, ¬ ExposedRot (rk n P1) (rk n P2) νz ρ :=
  levelLoop_spec h1 h2 fuel st ans μ all elm inv h

/-! ## obligation (i) and its consequences -/

/-- **C03 (obligation (i) at one instance).** -/
theorem C03_remaining_i_at (n : Nat) (P1 P2 : List (List Nat)) (V1 V2 : List (List Int))
    (hwf : wfB n P1 P2 V1 V2 = true) : Remaining_i_at n P1 P2 :=
  remaining_i_at hwf

/-- **C03 (obligation (i) holds).**  On every strict complete instance `allRotations` lists, in discovery order, a maximal
chain of eliminations from the male-optimal matching: each rotation non-empty and exposed when its turn comes,
`eliminate_rotations(M0, all)` does not raise, and no rotation is exposed in the matching it ends in. -/
theorem C03_remaining_i : Remaining_i := remaining_i

/-- **C03 (the mirror finds exactly the rotations of the instance, each once)** — unconditional now. -/
theorem C03_allRotations_exact (n : Nat) (P1 P2 : List (List Nat)) (V1 V2 : List (List Int))
    (hwf : wfB n P1 P2 V1 V2 = true) (M0 : List Irving.Pair) (all : List (List Irving.Pair))
    (elim : List (Irving.Pair × Nat)) (hmo : maleOptimal n P1 P2 = some M0)
    (hall : allRotations (shortlists n P1 P2 (muOf n M0)).1 (shortlists n P1 P2 (muOf n M0)).2 = some (all, elim)) :
    all.Pairwise (fun r r' => ¬ r ~r r') ∧
    ∀ B, Irving.exposedAllB P1 P2 M0 B = true → (∀ r ∈ B, r ≠ []) →
      B.Pairwise (fun r r' => ¬ r ~r r') ∧ ∀ r ∈ B, ∃ r' ∈ all, r' ~r r :=
  allRotations_exact hwf hmo hall

/-- **C03 (`find_all_rotations_and_eliminations` terminates within the mirror's fuel).** -/
theorem C03_allRotations_isSome (n : Nat) (P1 P2 : List (List Nat)) (V1 V2 : List (List Int))
    (hwf : wfB n P1 P2 V1 V2 = true) (M0 : List Irving.Pair) (hmo : maleOptimal n P1 P2 = some M0) :
    ∃ r, allRotations (shortlists n P1 P2 (muOf n M0)).1 (shortlists n P1 P2 (muOf n M0)).2 = some r :=
  allRotations_isSome hwf hmo

/-- **C03 (the model-only answer `levels-fuel` cannot occur).**  For every input. -/
theorem C03_irving_no_levels_fuel (n : Nat) (P1 P2 : List (List Nat)) (V1 V2 : List (List Int)) :
    irving n P1 P2 V1 V2 ≠ .error "levels-fuel" :=
  irving_no_levels_fuel n P1 P2 V1 V2

/-- **C03 (optimality of the mirror now depends on obligation (j) alone).** -/
theorem C03_irving_optimal_of_remaining_j (hj : Remaining_j) (n : Nat) (P1 P2 : List (List Nat))
    (V1 V2 : List (List Int)) (hbig : WeightBound n P1 P2 V1 V2) (M : List Irving.Pair)
    (h : irving n P1 P2 V1 V2 = .ok M) :
    Brute.optStable n P1 P2 V1 V2 = some (Irving.matchingValue V1 V2 M) :=
  irving_optimal_of_j hj hbig h

/-- **C03 (the same with (j) in the task's form: optimal value, and the run-time checks never fire).** -/
theorem C03_irving_optimal_of_remaining_j_task (hj : Remaining_j_task) (n : Nat) (P1 P2 : List (List Nat))
    (V1 V2 : List (List Int)) (hbig : WeightBound n P1 P2 V1 V2) :
    (∀ M, irving n P1 P2 V1 V2 = .ok M →
      Brute.optStable n P1 P2 V1 V2 = some (Irving.matchingValue V1 V2 M)) ∧
    (wfB n P1 P2 V1 V2 = true →
      irving n P1 P2 V1 V2 ≠ .error "check-exposed" ∧ irving n P1 P2 V1 V2 ≠ .error "not-exposed") :=
  irving_optimal_of_j_task hj hbig

/-- **C03 (soundness of the poset edges for index-order runs suffices)** — unconditional form of `C03_remaining_j_of_index`. -/
theorem C03_remaining_j_of_index' (n : Nat) (P1 P2 : List (List Nat)) (V1 V2 : List (List Int))
    (hwf : wfB n P1 P2 V1 V2 = true) (hx : Remaining_j_index_at n P1 P2) : Remaining_j_at n P1 P2 :=
  remaining_j_of_index' hwf hx

/-! ## what `eliminating_rotations_of_pair` records -/

theorem C03_onList_iff {n : ℕ} (P2 : List (List Nat)) (N : Equiv.Perm (Fin n)) (m w : Nat) :
    OnList n P2 N m w ↔
      ∃ (hm : m < n) (hw : w < n), rk n P2 ⟨w, hw⟩ ⟨m, hm⟩ ≤ rk n P2 ⟨w, hw⟩ (N.symm ⟨w, hw⟩) := Iff.rfl

theorem C03_pathAt_eq {n : ℕ} (μ : Equiv.Perm (Fin n)) (ρs : List (List (Fin n))) (j : Nat) :
    pathAt μ ρs j = (ρs.take j).foldl elim μ := rfl

theorem C03_movesPast_iff {n : ℕ} (P2 : List (List Nat)) (μ : Equiv.Perm (Fin n)) (ρs : List (List (Fin n)))
    (j m w : Nat) :
    MovesPast n P2 μ ρs j m w ↔
      j < ρs.length ∧ OnList n P2 (pathAt μ ρs j) m w ∧ ¬ OnList n P2 (pathAt μ ρs (j + 1)) m w := Iff.rfl

/-- **C03 (the matchings along an elimination path).**  Rotation number `k` is exposed in the `k`-th matching `pathAt μ ρs k`,
which is stable; the next matching is obtained by eliminating it; entry `k` of the pairs form of the path is its pairs form. -/
theorem C03_elimPath_at {n : ℕ} (P1 P2 : Fin n → Fin n → ℕ) (h1 : ∀ a, Function.Injective (P1 a))
    (ρs : List (List (Fin n))) (μ ν : Equiv.Perm (Fin n)) (hμ : StableSM P1 P2 μ) (hp : ElimPath P1 P2 μ ρs ν)
    (k : Nat) (hk : k < ρs.length) :
    StableSM P1 P2 (pathAt μ ρs k) ∧ ExposedRot P1 P2 (pathAt μ ρs k) ρs[k] ∧
      pathAt μ ρs (k + 1) = elim (pathAt μ ρs k) ρs[k] ∧
      (pathPairs μ ρs).getD k [] = rotPairs (pathAt μ ρs k) ρs[k] :=
  elimPath_at h1 ρs μ ν hμ hp k hk

/-- **C03 (one `elimRot`, the dict).**  If no old entry belongs to a pair still on the lists, `elimRot` adds exactly the
entries `(m, w) ↦ cnt` for the pairs such that the rotation moves `w` past `m`, and increments `cnt`. -/
theorem C03_elimRot_elim {n : ℕ} (P1 P2 : List (List Nat)) (st : LvSt) (μ : Equiv.Perm (Fin n))
    (hW : WInv n P2 st.l2 st.pm2 μ.symm) (ρ : List (Fin n)) (hex : ExposedRot (rk n P1) (rk n P2) μ ρ)
    (hold : ∀ m w k, dictGet? st.elim (m, w) = some k → ¬ OnList n P2 μ m w) :
    (∀ m w k, dictGet? (elimRot st (rotPairs μ ρ)).elim (m, w) = some k ↔
      dictGet? st.elim (m, w) = some k ∨ (k = st.cnt ∧ OnList n P2 μ m w ∧ ¬ OnList n P2 (elim μ ρ) m w)) ∧
    (elimRot st (rotPairs μ ρ)).cnt = st.cnt + 1 ∧
    ∀ m w k, dictGet? (elimRot st (rotPairs μ ρ)).elim (m, w) = some k → ¬ OnList n P2 (elim μ ρ) m w :=
  elimRot_elim hW hex hold

/-- **C03 (what `find_all_rotations_and_eliminations` returns).**  On a strict complete instance: `all` is the pairs form of
an elimination path `ρs` from the man-optimal matching `μ0` (represented by `M0`) to a matching without exposed rotation,
and `eliminating_rotations_of_pair[(m, w)] = k` IFF rotation number `k` of this path moves `w` past `m`: before it she likes
`m` at least as much as her partner, after it she strictly prefers her partner. -/
theorem C03_allRotations_elim_spec {n : ℕ} (P1 P2 : List (List Nat)) (V1 V2 : List (List Int))
    (hwf : wfB n P1 P2 V1 V2 = true) (M0 : List Irving.Pair) (all : List (List Irving.Pair))
    (elm : List (Irving.Pair × Nat)) (hmo : maleOptimal n P1 P2 = some M0)
    (hall : allRotations (shortlists n P1 P2 (muOf n M0)).1 (shortlists n P1 P2 (muOf n M0)).2 = some (all, elm)) :
    ∃ (μ0 : Equiv.Perm (Fin n)) (ρs : List (List (Fin n))), Rep M0 μ0 ∧
      ElimPath (rk n P1) (rk n P2) μ0 ρs (pathAt μ0 ρs ρs.length) ∧ all = pathPairs μ0 ρs ∧
      (∀ ρ, ¬ ExposedRot (rk n P1) (rk n P2) (pathAt μ0 ρs ρs.length) ρ) ∧
      ∀ m w k, dictGet? elm (m, w) = some k ↔ MovesPast n P2 μ0 ρs k m w :=
  allRotations_elim_spec hwf hmo hall

/-- **C03 (the same with the ranks spelled out).**  Keys of `eliminating_rotations_of_pair` are pairs of persons `< n`, values
are indices into `all`. -/
theorem C03_allRotations_elim_fin {n : ℕ} (P1 P2 : List (List Nat)) (V1 V2 : List (List Int))
    (hwf : wfB n P1 P2 V1 V2 = true) (M0 : List Irving.Pair) (all : List (List Irving.Pair))
    (elm : List (Irving.Pair × Nat)) (hmo : maleOptimal n P1 P2 = some M0)
    (hall : allRotations (shortlists n P1 P2 (muOf n M0)).1 (shortlists n P1 P2 (muOf n M0)).2 = some (all, elm)) :
    ∃ (μ0 : Equiv.Perm (Fin n)) (ρs : List (List (Fin n))), Rep M0 μ0 ∧
      ElimPath (rk n P1) (rk n P2) μ0 ρs (pathAt μ0 ρs ρs.length) ∧ all = pathPairs μ0 ρs ∧
      (∀ (m w : Fin n) (k : Nat), dictGet? elm ((m : Nat), (w : Nat)) = some k ↔
        k < ρs.length ∧ rk n P2 w m ≤ rk n P2 w ((pathAt μ0 ρs k).symm w) ∧
          rk n P2 w ((pathAt μ0 ρs (k + 1)).symm w) < rk n P2 w m) ∧
      (∀ (m w k : Nat), dictGet? elm (m, w) = some k → m < n ∧ w < n ∧ k < all.length) :=
  allRotations_elim_fin hwf hmo hall

/-! ## Non-vacuity: the 3×3 Latin-square instance -/

example : wfB 3 exL1 exL2 [[0,0,0],[0,0,0],[0,0,0]] [[0,1,5],[5,0,1],[1,5,0]] = true := by decide +kernel
example : maleOptimal 3 exL1 exL2 = some [(0, 0), (1, 1), (2, 2)] := exLatin_maleOptimal
/-- the invariant holds initially on the Latin instance -/
example : ∃ μ0 : Equiv.Perm (Fin 3), Rep [(0, 0), (1, 1), (2, 2)] μ0 ∧
    LevelInv 3 exL1 exL2 (initLevel (shortlists 3 exL1 exL2 (muOf 3 [(0, 0), (1, 1), (2, 2)])).1
      (shortlists 3 exL1 exL2 (muOf 3 [(0, 0), (1, 1), (2, 2)])).2) μ0 := by
  obtain ⟨μ0, h1, _, h2⟩ := C03_levelInv_init exL1 exL2 [[0,0,0],[0,0,0],[0,0,0]] [[0,1,5],[5,0,1],[1,5,0]]
    (by decide +kernel) _ exLatin_maleOptimal
  exact ⟨μ0, h1, h2⟩
/-- the first level finds one rotation, the second level the other one, the third level nothing -/
example : findRotations [[0, 1, 2], [1, 2, 0], [2, 0, 1]] [[1, 2, 0], [2, 0, 1], [0, 1, 2]]
    = [[(0, 0), (1, 1), (2, 2)]] := by decide +kernel
example : (nextLevel (initLevel [[0, 1, 2], [1, 2, 0], [2, 0, 1]] [[1, 2, 0], [2, 0, 1], [0, 1, 2]])).l1
    = [[1, 2], [2, 0], [0, 1]] ∧
    (nextLevel (initLevel [[0, 1, 2], [1, 2, 0], [2, 0, 1]] [[1, 2, 0], [2, 0, 1], [0, 1, 2]])).l2
    = [[1, 2], [2, 0], [0, 1]] := by decide +kernel
example : findRotations [[1, 2], [2, 0], [0, 1]] [[1, 2], [2, 0], [0, 1]] = [[(0, 1), (1, 2), (2, 0)]] := by
  decide +kernel
example : findRotations [[2], [0], [1]] [[1], [2], [0]] = [] := by decide +kernel
example : Remaining_i_at 3 exL1 exL2 :=
  C03_remaining_i_at 3 exL1 exL2 [[0,0,0],[0,0,0],[0,0,0]] [[0,1,5],[5,0,1],[1,5,0]] (by decide +kernel)
example : allRotations (shortlists 3 exL1 exL2 (muOf 3 exM0)).1 (shortlists 3 exL1 exL2 (muOf 3 exM0)).2
    = some (exAll, exElim) := exLatin_allRotations
/-- the dict on the Latin instance: rotation 0 removes `(m, m)` (every woman leaves her first partner), rotation 1 removes
`(m, m+1)` -/
example : dictGet? exElim (0, 0) = some 0 ∧ dictGet? exElim (2, 0) = some 1 ∧ dictGet? exElim (1, 0) = none := by
  decide +kernel
