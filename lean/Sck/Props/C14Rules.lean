import Sck.Proofs.ElicitRules4

/-! # C14 at rule level — the simulated rows of k-ARV / lambda-TSF in ALTERNATIVE order

`Sck/Props/C14.lean` states the threshold rule per agent in ranking-position space (`simulate`).  Here the facts are
lifted to `ElicitRules.simRow floor row vrow m lams`, one row of `get_simulated_cardinal_profile` in the order of
the alternatives (the order of the matrix the Python returns; `floor = 0` for k-ARV, `1e-5` for lambda-TSF).
Well-formedness is decidable: `consistentRowB row vrow m` (`row` a permutation of `1..m`, `vrow` has `m`
non-negative entries, weakly decreasing along the ranking) and `lamsOkB lams` (thresholds `≥ 1`, ascending).
Property theorems only. -/

open ElicitRules

/-- **C14 (one simulated row, alternative order).**  The row is produced (no exception) and has `m` entries; the
favourite alternative (rank 1) keeps its true value; every entry is at most the true value or equals the floor;
more precisely every non-favourite entry is either the floor — and then the true value is below `v*/λ` for every
threshold — or `v*/λ` for one of the thresholds `λ`, and then the true value is at least that
(`v* = posVals row vrow 0`, the favourite's value). -/
theorem C14_simRow (floor : Rat) (row : List Nat) (vrow : List Rat) (m : Nat) (lams : List Rat) (hm : 0 < m)
    (hc : consistentRowB row vrow m = true) (hl : lamsOkB lams = true) :
    ∃ srow, simRow floor row vrow m lams = some srow ∧ srow.length = m ∧
      (∀ j, j < m → row.getD j 0 = 1 → srow.getD j 0 = vrow.getD j 0) ∧
      (∀ j, j < m → srow.getD j 0 ≤ vrow.getD j 0 ∨ srow.getD j 0 = floor) ∧
      (∀ j, j < m → 1 < row.getD j 0 →
        (srow.getD j 0 = floor ∧ ∀ lam ∈ lams, vrow.getD j 0 < posVals row vrow 0 / lam) ∨
        ∃ lam ∈ lams, srow.getD j 0 = posVals row vrow 0 / lam ∧ posVals row vrow 0 / lam ≤ vrow.getD j 0) :=
  simRow_spec floor hm (consistentRowB_iff.1 hc) hl

/-- `v*` really is the favourite's true value: the value of the alternative of rank 1 -/
theorem C14_favourite_value (row : List Nat) (vrow : List Rat) (m : Nat)
    (hc : consistentRowB row vrow m = true) (j : Nat) (hj : j < m) (h1 : row.getD j 0 = 1) :
    posVals row vrow 0 = vrow.getD j 0 := by
  have := posVals_at_alt (consistentRowB_iff.1 hc).perm vrow hj
  rwa [h1] at this

/-- **k-ARV**: with floor 0 no entry of the simulated row exceeds the true value, so every simulated score
is at most the true social welfare of the alternative -/
theorem C14_karv_row_le (row : List Nat) (vrow : List Rat) (m : Nat) (lams : List Rat) (hm : 0 < m)
    (hc : consistentRowB row vrow m = true) (hl : lamsOkB lams = true) (srow : List Rat)
    (h : simRow 0 row vrow m lams = some srow) (j : Nat) (hj : j < m) : srow.getD j 0 ≤ vrow.getD j 0 := by
  obtain ⟨srow', hs, _, _, hle, _⟩ := C14_simRow 0 row vrow m lams hm hc hl
  rw [h] at hs
  obtain rfl := Option.some.inj hs
  rcases hle j hj with h1 | h1
  · exact h1
  · rw [h1]
    exact getD_nonneg (consistentRowB_iff.1 hc).nonneg j

/-- **C14 (the whole simulated matrix of k-ARV / lambda-TSF).**  If there are at most `m` thresholds (otherwise
the code raises "Invalid k"/"Invalid lambda") and every (ballot, valuation row) pair is consistent, the matrix is
produced, has one row per agent, and row `i` is the `simRow` of agent `i` — so `C14_simRow` describes every entry.
(`karvMatrix P V m lams = thrMatrixPV 0 (P.zip V) m lams`, `tsfMatrix floor P V m lams = thrMatrixPV floor (P.zip V)
m lams`, both by definition.) -/
theorem C14_thrMatrix_rows (floor : Rat) (PV : List (List Nat × List Rat)) (m : Nat) (lams : List Rat)
    (hk : lams.length ≤ m) (hm : 0 < m)
    (hPV : ∀ pv ∈ PV, consistentRowB pv.1 pv.2 m = true) (hl : lamsOkB lams = true) :
    ∃ M, thrMatrixPV floor PV m lams = some M ∧ M.length = PV.length ∧
      ∀ i (hi : i < PV.length), simRow floor PV[i].1 PV[i].2 m lams = some (M.getD i []) :=
  thrMatrixPV_rows floor hk hm hPV hl

example (P : List (List Nat)) (V : List (List Rat)) (m : Nat) (lams : List Rat) :
    karvMatrix P V m lams = thrMatrixPV 0 (P.zip V) m lams := rfl
example (floor : Rat) (P : List (List Nat)) (V : List (List Rat)) (m : Nat) (lams : List Rat) :
    tsfMatrix floor P V m lams = thrMatrixPV floor (P.zip V) m lams := rfl

/-- **C14 (one Match-TwoQueries row, alternative order).**  `a` = the item the agent received in the root-n serial
dictatorship.  The favourite keeps its true value; every other alternative ranked at least as high as `a` (and `a`
itself) gets the true value of `a`, which is at most its own true value; everything ranked below `a` gets the
floor. -/
theorem C14_m2qRow (floor : Rat) (row : List Nat) (vrow : List Rat) (m a : Nat)
    (hc : consistentRowB row vrow m = true) (ha : a < m) :
    (m2qRow floor row vrow a).length = m ∧
    (∀ j, j < m → row.getD j 0 = 1 → (m2qRow floor row vrow a).getD j 0 = vrow.getD j 0) ∧
    (∀ j, j < m → 1 < row.getD j 0 → row.getD j 0 ≤ row.getD a 0 →
      (m2qRow floor row vrow a).getD j 0 = vrow.getD a 0 ∧ vrow.getD a 0 ≤ vrow.getD j 0) ∧
    (∀ j, j < m → row.getD a 0 < row.getD j 0 → (m2qRow floor row vrow a).getD j 0 = floor) :=
  m2qRow_spec floor (consistentRowB_iff.1 hc) ha

/-! ## Non-vacuity: ranks `[2, 1, 4, 3]`, values `[1/4, 1/2, 1/8, 1/8]`, one threshold `λ = 2` -/

theorem C14R_rr : rankedRow [2, 1, 4, 3] = [1, 0, 3, 2] := by
  simp [rankedRow, Elicit.rankedOf, plistOfRow, List.mergeSort, leKey, keyOf, List.range, List.range.loop]

example : consistentRowB [2, 1, 4, 3] [1/4, 1/2, 1/8, 1/8] 4 = true := by decide +kernel
example : lamsOkB [2] = true := by decide +kernel
/-- alternative 1 (the favourite) keeps `1/2`, alternative 0 gets `(1/2)/2`, the others the floor -/
example : simRow (1/100000) [2, 1, 4, 3] [1/4, 1/2, 1/8, 1/8] 4 [2] = some [1/4, 1/2, 1/100000, 1/100000] := by
  simp only [simRow, posVals_fun, scatter_fun, C14R_rr]
  decide +kernel
/-- a row that is not consistent with the ranking is rejected by the hypothesis -/
example : consistentRowB [2, 1, 4, 3] [1/2, 1/4, 1/8, 1/8] 4 = false := by decide +kernel
/-- Match-TwoQueries row: the agent received alternative 3 (rank 3): alternative 0 (rank 2) and alternative 3 get
its value `1/8`, the favourite keeps `1/2`, alternative 2 (rank 4) the floor -/
example : m2qRow (1/100000) [2, 1, 4, 3] [1/4, 1/2, 1/16, 1/8] 3 = [1/8, 1/2, 1/100000, 1/8] := by
  simp only [m2qRow, posVals_fun, scatter_fun, C14R_rr]
  decide +kernel
example : consistentRowB [2, 1, 4, 3] [1/4, 1/2, 1/16, 1/8] 4 = true := by decide +kernel
