import Sck.Props.C17Algo
import Sck.Props.C03Optimal2

/-! # C17 — the two-sided λ-TSF mirror returns a stable matching that is OPTIMAL for the simulated values

`ElicitRules.dtsf` runs the Irving mirror on the simulated integer matrices. With `C03_irving_optimal` (the mirror's answer has the
brute-force optimal value among ALL stable matchings, provided the total negative rotation weight stays below `sys.maxsize`, the
"infinite" capacity the code uses) the property's optimality clause holds of the end-to-end model, for every n. Property theorem only. -/

open ElicitRules IrvingAlgo

/-- **C17 (optimal for the simulated values).** If the mirror of `DoubleLambdaTSF.scf` answers `M`, then the simulation produced integer
matrices `S1`, `S2`, and — when the total negative rotation weight for `S1`, `S2` is below `sys.maxsize` — the total simulated value of `M` is the
maximum over all stable matchings of the instance (`Brute.optStable`, proved to be that maximum in `C03_optStable_spec`). -/
theorem C17_dtsf_optimal (n : Nat) (P1 P2 : List (List Nat)) (V1 V2 : List (List Int)) (lams1 lams2 : List Rat)
    (M : List (Nat × Nat)) (h : dtsf n P1 P2 V1 V2 lams1 lams2 = .ok M) :
    ∃ S1 S2, dtsfMatrices P1 P2 V1 V2 n lams1 lams2 = some (S1, S2) ∧
      (WeightBound n P1 P2 S1 S2 → Brute.optStable n P1 P2 S1 S2 = some (Irving.matchingValue S1 S2 M)) := by
  unfold dtsf at h
  cases hm : dtsfMatrices P1 P2 V1 V2 n lams1 lams2 with
  | none => rw [hm] at h; cases h
  | some p =>
    obtain ⟨S1, S2⟩ := p
    rw [hm] at h
    exact ⟨S1, S2, rfl, fun hbig => (C03_irving_optimal n P1 P2 S1 S2 hbig).1 M h⟩
