import Sck.Model.Bvn
import Sck.Model.Mcm

/-! Core-only executable model of `bistochastic.birkhoff_von_neumann` WITH its real matching oracle
(`positivity_graph` + `flow.maximum_cardinality_matching_bipartite`), in exact rational arithmetic (C06, C07).

Vertices of the positivity graph: rows `0..n-1`, columns `n..2n-1` (`list(range(n))`, `list(range(n, 2n))`). -/

/-- `list(range(n))` : the row vertices -/
def rowVerts (n : Nat) : List Int := (List.range n).map (fun i => Int.ofNat i)

/-- `list(range(n, n * 2))` : the column vertices -/
def colVerts (n : Nat) : List Int := (List.range n).map (fun j => Int.ofNat (j + n))

/-- `positivity_graph(X)[v]` for a ROW vertex `v`: the columns `j + n` with `X[v][j] > 0`, by increasing `j`
(the insertion order of the Python dict lists).  The Python dict is undirected (it also lists the rows of
every column vertex) but `maximum_cardinality_matching_bipartite` only reads the lists of the left (row)
vertices, so the lists of the column vertices are not modelled (`[]`). -/
def positivityAdj (n : Nat) (X : List (List Rat)) (v : Int) : List Int :=
  if 0 ≤ v ∧ v < Int.ofNat n then
    ((List.range n).filter (fun j => decide (0 < matGet X v.toNat j))).map (fun j => Int.ofNat (j + n))
  else []

/-- the dict `positivity_graph(X)` has exactly the keys `0..2n-1` iff every row and every column has a
strictly positive entry (a vertex without an edge is NOT a key); otherwise `check_bipartite_graph` raises
`ValueError("Supplied X and/or Y are not consistent with the keys of the dictionary")` -/
def posKeysOkB (n : Nat) (X : List (List Rat)) : Bool :=
  allLt n (fun i => (List.range n).any (fun j => decide (0 < matGet X i j))) &&
  allLt n (fun j => (List.range n).any (fun i => decide (0 < matGet X i j)))

/-- the pairs `(i, j)` returned by `maximum_cardinality_matching_bipartite(G_X, range(n), range(n, 2n))` -/
def matchingPairs (n : Nat) (X : List (List Rat)) : Except FFErr (List (Int × Int)) :=
  mcm (rowVerts n) (colVerts n) (positivityAdj n X) (mcmFuel (rowVerts n))

/-- column of row `i` in the 0/1 matrix built by `for (i, j) in perfect_matching: P[i, j - n] = 1`;
`n` (out of range, "no 1 in this row") when row `i` is unmatched -/
def colOfPairs (n : Nat) (M : List (Int × Int)) (i : Nat) : Nat :=
  match M.find? (fun p => p.1 == Int.ofNat i) with
  | some p => (p.2 - Int.ofNat n).toNat
  | none => n

/-- the matrix `P` as the list `σ` (row ↦ column); for a perfect matching this is `np.argmax(P, axis=1)` -/
def sigmaOfPairs (n : Nat) (M : List (Int × Int)) : List Nat := (List.range n).map (colOfPairs n M)

/-- the values `X[i, j - n]` over the matched pairs, in the order of the pairs (`z` is their minimum) -/
def pairVals (n : Nat) (X : List (List Rat)) (M : List (Int × Int)) : List Rat :=
  M.map (fun p => matGet X p.1.toNat (p.2 - Int.ofNat n).toNat)

/-- the matching oracle of `birkhoff_von_neumann`: the model's `mcm` on the positivity graph, as `σ` -/
def matchingOracle (n : Nat) (X : List (List Rat)) : List Nat :=
  match matchingPairs n X with
  | .ok M => sigmaOfPairs n M
  | .error _ => []

/-- the `while True` loop of `birkhoff_von_neumann` with fuel, for an arbitrary matching routine `pairsOf`
(what `maximum_cardinality_matching_bipartite(G_X, …)` returns for the current matrix).  The exit test
`np.all(np.abs(X) < 1e-9)` is the float stand-in of "X is the zero matrix".  Error cases (none of them
reachable from a balanced matrix, see `C06_bvnFull_spec`): a row/column without positive entry (`ValueError`
of `check_bipartite_graph`), an empty matching (`z = inf`, the matrix becomes NaN), fuel exhausted (the
Python loop would not stop). -/
def bvnWithAux (pairsOf : List (List Rat) → Except FFErr (List (Int × Int))) (n : Nat) :
    Nat → List (List Rat) → Except String (List (Rat × List Nat))
  | 0, _ => .error "fuel exhausted"
  | k + 1, X =>
    if isZeroB X then .ok []
    else if !posKeysOkB n X then .error "ValueError: X and/or Y not consistent with the keys of the dictionary"
    else
      match pairsOf X with
      | .error _ => .error "max-flow failure"
      | .ok M =>
        match minList (pairVals n X M) with
        | none => .error "empty matching: z = inf"
        | some z =>
          match bvnWithAux pairsOf n k (subPerm X (sigmaOfPairs n M) z) with
          | .ok out => .ok ((z, sigmaOfPairs n M) :: out)
          | .error e => .error e

/-- `birkhoff_von_neumann(X)` for an `n × n` matrix with matching routine `pairsOf` -/
def bvnWith (pairsOf : List (List Rat) → Except FFErr (List (Int × Int))) (n : Nat) (X : List (List Rat)) :
    Except String (List (Rat × List Nat)) :=
  if isSquareB n X then bvnWithAux pairsOf n (n * n + 1) X else .error "not an n x n matrix"

/-- `birkhoff_von_neumann(X)` for an `n × n` matrix: the list of `(coefficient, σ)`, with the model's own
`mcm` (`matchingPairs`) as the matching routine -/
def bvnFull (n : Nat) (X : List (List Rat)) : Except String (List (Rat × List Nat)) :=
  bvnWith (matchingPairs n) n X

#eval bvnFull 3 [[1/2, 1/2, 0], [1/2, 0, 1/2], [0, 1/2, 1/2]]
#eval bvnFull 3 [[1/2, 1/4, 1/4], [1/4, 1/2, 1/4], [1/4, 1/4, 1/2]]
#eval bvnFull 2 [[2, 1], [1, 2]]
#eval bvnFull 2 [[1, 0], [1, 0]]
#eval bvnFull 2 [[1, 1], [0, 1]]
#eval bvnFull 0 []
#eval matchingOracle 3 [[1/2, 1/2, 0], [1/2, 0, 1/2], [0, 1/2, 1/2]]
