/-! Model (core-only): binary search with query log and the threshold fill loop (C14/C15). -/

/-- `ge i` = "the value at ranking position `i` is at least the threshold" (one elicitation).
Returns the final position and the list of queried positions. -/
def bsearchQ (ge : Nat → Bool) (lo hi : Nat) : Nat × List Nat :=
  if h : hi - lo ≤ 1 then (lo, [])
  else
    let mid := (lo + hi) / 2
    if ge mid then
      let r := bsearchQ ge mid hi
      (r.1, mid :: r.2)
    else
      let r := bsearchQ ge lo mid
      (r.1, mid :: r.2)
termination_by hi - lo
decreasing_by all_goals omega


def geThr (vals : Nat → Rat) (thr : Rat) (q : Nat) : Bool := decide (thr ≤ vals q)

/-- mirror of the fill loop: for each threshold, binary search then fill positions `(prev, p]` -/
def simLoop (vals : Nat → Rat) (m : Nat) (vstar : Rat) : List Rat → Nat → (Nat → Rat) → Option (Nat → Rat)
  | [], _, acc => some acc
  | lam :: rest, prev, acc =>
    let p := (bsearchQ (geThr vals (vstar / lam)) 0 m).1
    if p < prev then none
    else simLoop vals m vstar rest p (fun q => if prev < q ∧ q ≤ p then vstar / lam else acc q)

def simulate (floor : Rat) (vals : Nat → Rat) (m : Nat) (lams : List Rat) : Option (Nat → Rat) :=
  simLoop vals m (vals 0) lams 0 (fun q => if q = 0 then vals 0 else floor)

