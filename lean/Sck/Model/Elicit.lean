import Sck.Model.Simulate
import Sck.Model.DA

/-! Core-only executable model of the elicitation layer (C14/C15): the memoising elicitor as a state
machine, the query logs of the threshold rules, the two-sided fill, Match-TwoQueries. -/

namespace Elicit

/-- elicitor state: memo table, counter, log of questions forwarded to the backing function -/
structure ElSt where
  memo : List ((Nat × Nat) × Rat)
  count : Nat
  forwarded : List (Nat × Nat)

def ElSt.init : ElSt := { memo := [], count := 0, forwarded := [] }

def lookup (memo : List ((Nat × Nat) × Rat)) (q : Nat × Nat) : Option Rat :=
  (memo.find? (fun e => e.1 == q)).map (·.2)

/-- how often `q` was forwarded so far -/
def occ (fwd : List (Nat × Nat)) (q : Nat × Nat) : Nat := (fwd.filter (· == q)).length

/-- one `elicit(agent, alternative)` call. `fixer` is added to both coordinates first (the code's
`index_fixer`); `backing q k` is the answer of the backing function to the `k`-th time `q` is forwarded
(so the backing function may even be inconsistent). -/
def elicit (memoize : Bool) (fixer : Nat) (backing : Nat × Nat → Nat → Rat) (st : ElSt) (q0 : Nat × Nat) : ElSt × Rat :=
  let q := (q0.1 + fixer, q0.2 + fixer)
  match (if memoize then lookup st.memo q else none) with
  | some v => (st, v)
  | none =>
    let v := backing q (occ st.forwarded q)
    ({ memo := if memoize then (q, v) :: st.memo else st.memo,
       count := st.count + 1,
       forwarded := st.forwarded ++ [q] }, v)

/-- run a sequence of questions; returns the final state and the answers -/
def runOps (memoize : Bool) (fixer : Nat) (backing : Nat × Nat → Nat → Rat) : ElSt → List (Nat × Nat) → ElSt × List Rat
  | st, [] => (st, [])
  | st, q :: qs =>
    let (st1, v) := elicit memoize fixer backing st q
    let (st2, vs) := runOps memoize fixer backing st1 qs
    (st2, v :: vs)

/-- positions (in one agent's ranking) asked by the threshold fill: the favourite, then the
binary-search probes of each threshold in turn -/
def simQueries (vals : Nat → Rat) (m : Nat) (lams : List Rat) : List Nat :=
  0 :: lams.flatMap (fun lam => (bsearchQ (geThr vals (vals 0 / lam)) 0 m).2)

/-- two-sided rule: like `simLoop`, but the filled value is the true value at the last position of the set
(asked once more, a repeat of an earlier probe or of the favourite) -/
def simLoop2 (vals : Nat → Rat) (m : Nat) (vstar : Rat) : List Rat → Nat → (Nat → Rat) → Option (Nat → Rat)
  | [], _, acc => some acc
  | lam :: rest, prev, acc =>
    let p := (bsearchQ (geThr vals (vstar / lam)) 0 m).1
    if p < prev then none
    else simLoop2 vals m vstar rest p (fun q => if prev < q ∧ q ≤ p then vals p else acc q)

def simulate2 (vals : Nat → Rat) (m : Nat) (lams : List Rat) : Option (Nat → Rat) :=
  simLoop2 vals m (vals 0) lams 0 (fun q => if q = 0 then vals 0 else 0)

def simQueries2 (vals : Nat → Rat) (m : Nat) (lams : List Rat) : List Nat :=
  0 :: lams.flatMap (fun lam =>
    let r := bsearchQ (geThr vals (vals 0 / lam)) 0 m
    r.2 ++ [r.1])

/-- `root_n_serial_dictatorship`: agents in index order take the first alternative of their ranking that
has been given to fewer than √n agents (`count < √n ⇔ count² < n`) -/
def rootNSDLoop (n : Nat) : List (List Nat) → List Nat → List (Option Nat)
  | [], _ => []
  | ranked :: rest, counts =>
    match ranked.find? (fun a => decide (counts.getD a 0 * counts.getD a 0 < n)) with
    | none => none :: rootNSDLoop n rest counts
    | some a => some a :: rootNSDLoop n rest (counts.set a (counts.getD a 0 + 1))

def rankedOf (row : List Nat) : List Nat := plistOfRow (row.map some)

def rootNSD (P : List (List Nat)) (m : Nat) : List (Option Nat) :=
  rootNSDLoop P.length (P.map rankedOf) (List.replicate m 0)

/-- Match-TwoQueries for one agent in ranking-position space: `p` = position of the representative item -/
def m2qAgent (floor : Rat) (vals : Nat → Rat) (p : Nat) : Nat → Rat :=
  fun q => if q = 0 then vals 0 else if q ≤ p then vals p else floor

def m2qQueries (p : Nat) : List Nat := [0, p]

/-- lambda-PRV asks every voter about the `lam` best-ranked alternatives: ranking positions `0 … lam-1` -/
def prvQueries (lam : Nat) : List Nat := List.range lam

/-- lambda-PRV, one voter in ranking-position space: the elicited value on the `lam` best-ranked positions,
nothing elsewhere (the score of an alternative is the sum of these contributions) -/
def prvAgent (vals : Nat → Rat) (lam : Nat) : Nat → Rat := fun q => if q < lam then vals q else 0

/-- `np.max` of a score vector (0 for the empty vector, which the code never passes) -/
def maxL : List Rat → Rat
  | [] => 0
  | [x] => x
  | x :: y :: ys => if x ≤ maxL (y :: ys) then maxL (y :: ys) else x

/-- `np.min` -/
def minL : List Rat → Rat
  | [] => 0
  | [x] => x
  | x :: y :: ys => if minL (y :: ys) ≤ x then minL (y :: ys) else x

/-- `distortion(choice, vp)`: `scores` = social welfare of every alternative, `chosen` = the chosen
alternatives (0-indexed; a single choice is the one-element list): `max(score) / min(score[chosen])` -/
def distortionOf (scores : List Rat) (chosen : List Nat) : Rat :=
  maxL scores / minL (chosen.map (fun c => scores.getD c 0))

end Elicit
