import Sck.Model.Elicit
import Sck.Model.Voting
import Sck.Model.IrvingAlgo

/-! Core-only executable RULE-LEVEL models of the elicitation rules (C11/C14/C16/C17): the whole rule
"ordinal profile + elicitor answers → simulated matrix → scores / winners / matching".

* `P : List (List Nat)` — the ordinal profile as the user passes it (entry `(i, j)` = rank agent `i` gives
  alternative `j`, 1 = best);
* `V : List (List Rat)` — the TRUE valuations: `V[i][j]` is what the elicitor answers for `(i, j)`
  (`ValuationProfileElicitor`, memoised or not: the answers are the same);
* `lams : List Rat` — the thresholds `λ_1, …, λ_k`; the caller passes the exact rationals of the floats
  `m ** (l / (k + 1))` (all arithmetic here is exact).

`np.argsort(profile, axis=1)` of one row is `Elicit.rankedOf row` (positions sorted by rank; for a strict row
every stable or unstable sort gives the same answer).  The per-agent routines of `Sck/Model/Simulate.lean` and
`Sck/Model/Elicit.lean` work in RANKING-POSITION space (`q = 0` is the favourite); `posVals` moves the true values
into that space and `scatter` moves the simulated values back, exactly as the code's
`v_tilde[i, ranked_profile[i, q]] = …` does.  `none` = the Python raises (`ValueError("Invalid k")`, or numpy's
"negative dimensions are not allowed" when a later cut lies before an earlier one). -/

namespace ElicitRules

/-- `np.argsort(row)`: entry `q` is the alternative at ranking position `q` -/
def rankedRow (row : List Nat) : List Nat := Elicit.rankedOf row

/-- the elicitor's answer for the alternative at ranking position `q`: `elicit(i, ranked_profile[i, q])` -/
def posVals (row : List Nat) (vrow : List Rat) : Nat → Rat :=
  fun q => vrow.getD ((rankedRow row).getD q 0) 0

/-- back to alternative order: alternative `j` receives the value of its ranking position -/
def scatter (row : List Nat) (f : Nat → Rat) : List Rat :=
  (List.range row.length).map (fun j => f ((rankedRow row).idxOf j))

/-- one row of `get_simulated_cardinal_profile` of k-ARV (`floor = 0`) / lambda-TSF (`floor = 1e-5`) -/
def simRow (floor : Rat) (row : List Nat) (vrow : List Rat) (m : Nat) (lams : List Rat) : Option (List Rat) :=
  (simulate floor (posVals row vrow) m lams).map (scatter row)

/-- all rows succeed, or the whole call raises -/
def optAll {α : Type} : List (Option α) → Option (List α)
  | [] => some []
  | none :: _ => none
  | some a :: rest => (optAll rest).map (a :: ·)

/-- the simulated matrix of a threshold rule, from the list of (ballot, valuation row) pairs;
`if self.k > profile.shape[1]: raise ValueError("Invalid k")` -/
def thrMatrixPV (floor : Rat) (PV : List (List Nat × List Rat)) (m : Nat) (lams : List Rat) :
    Option (List (List Rat)) :=
  if m < lams.length then none
  else optAll (PV.map (fun pv => simRow floor pv.1 pv.2 m lams))

/-- `KARV.get_simulated_cardinal_profile` (`v_tilde = np.zeros((n, m))`: floor 0) -/
def karvMatrixPV (PV : List (List Nat × List Rat)) (m : Nat) (lams : List Rat) : Option (List (List Rat)) :=
  thrMatrixPV 0 PV m lams

def karvMatrix (P : List (List Nat)) (V : List (List Rat)) (m : Nat) (lams : List Rat) :
    Option (List (List Rat)) := karvMatrixPV (P.zip V) m lams

/-- `np.sum(M, axis=0)` -/
def colSums (M : List (List Rat)) (m : Nat) : List Rat :=
  (List.range m).map (fun j => Vote.sumQ (M.map (fun r => r.getD j 0)))

/-- `KARV.score` -/
def karvScoresPV (PV : List (List Nat × List Rat)) (m : Nat) (lams : List Rat) : Option (List Rat) :=
  (karvMatrixPV PV m lams).map (fun M => colSums M m)

def karvScores (P : List (List Nat)) (V : List (List Rat)) (m : Nat) (lams : List Rat) : Option (List Rat) :=
  karvScoresPV (P.zip V) m lams

/-- `KARV.scf` (`fixer` = 0 or 1, `tb` the tie-breaker) -/
def karvScf (fixer : Nat) (tb : Vote.TieBreaker) (P : List (List Nat)) (V : List (List Rat)) (m : Nat)
    (lams : List Rat) : Option (List Nat) :=
  (karvScores P V m lams).bind (Vote.scfQ fixer tb)

/-- one voter's contribution to `LambdaPRV.score`, in alternative order: the elicited value on the `lam`
best-ranked alternatives, 0 elsewhere -/
def prvRow (row : List Nat) (vrow : List Rat) (lam : Nat) : List Rat :=
  scatter row (Elicit.prvAgent (posVals row vrow) lam)

/-- `LambdaPRV.score`; `none` = `ValueError("Invalid lambda")` (`lam < 1` in the constructor, `lam > m` in `score`) -/
def prvScoresPV (PV : List (List Nat × List Rat)) (m lam : Nat) : Option (List Rat) :=
  if lam < 1 ∨ m < lam then none
  else some (colSums (PV.map (fun pv => prvRow pv.1 pv.2 lam)) m)

def prvScores (P : List (List Nat)) (V : List (List Rat)) (m lam : Nat) : Option (List Rat) :=
  prvScoresPV (P.zip V) m lam

/-- `LambdaPRV.scf` -/
def prvScf (fixer : Nat) (tb : Vote.TieBreaker) (P : List (List Nat)) (V : List (List Rat)) (m lam : Nat) :
    Option (List Nat) :=
  (prvScores P V m lam).bind (Vote.scfQ fixer tb)

/-- `LambdaTSF.get_simulated_cardinal_profile` on a complete strict profile; the code's `epsilon = 1e-5` is the
parameter `floor` -/
def tsfMatrix (floor : Rat) (P : List (List Nat)) (V : List (List Rat)) (m : Nat) (lams : List Rat) :
    Option (List (List Rat)) := thrMatrixPV floor (P.zip V) m lams

/-- one row of `MatchTwoQueries.get_simulated_cardinal_profile`: `a` = the item the agent got in the
root-n serial dictatorship; its ranking position is `profile[i, a] - 1`; the positions `1 … p` receive the
elicited value of `a` (the `while current_rank > 1` loop copies it upwards), the favourite keeps its own value,
everything else the floor. -/
def m2qRow (floor : Rat) (row : List Nat) (vrow : List Rat) (a : Nat) : List Rat :=
  scatter row (Elicit.m2qAgent floor (posVals row vrow) (row.getD a 1 - 1))

/-- `MatchTwoQueries.get_simulated_cardinal_profile` on a complete strict profile.  `none`: some agent is left
without an item by `root_n_serial_dictatorship` (the code's `allocation[agent] == np.nan` test is always false,
so it carries on with `nan.astype(int)`; this cannot happen when `m * ⌈√n⌉ ≥ n`). -/
def m2qMatrix (floor : Rat) (P : List (List Nat)) (V : List (List Rat)) (m : Nat) : Option (List (List Rat)) :=
  optAll (((P.zip V).zip (Elicit.rootNSD P m)).map (fun pva => pva.2.map (m2qRow floor pva.1.1 pva.1.2)))

/-- `ndarray.astype(int)` on a finite float: truncation towards zero -/
def truncQ (r : Rat) : Int := if 0 ≤ r then r.floor else -((-r).floor)

def ratRow (r : List Int) : List Rat := r.map (fun (z : Int) => (z : Rat))

/-- one row of `DoubleLambdaTSF.get_simulated_cardinal_profiles` before the cast -/
def sim2Row (row : List Nat) (vrow : List Rat) (m : Nat) (lams : List Rat) : Option (List Rat) :=
  (Elicit.simulate2 (posVals row vrow) m lams).map (scatter row)

/-- one side before the cast (rational matrix) -/
def dtsfSideQ (P : List (List Nat)) (V : List (List Int)) (n : Nat) (lams : List Rat) : Option (List (List Rat)) :=
  optAll ((P.zip V).map (fun pv => sim2Row pv.1 (ratRow pv.2) n lams))

/-- one side: the simulated matrix after `astype(int)` -/
def dtsfSide (P : List (List Nat)) (V : List (List Int)) (n : Nat) (lams : List Rat) : Option (List (List Int)) :=
  (dtsfSideQ P V n lams).map (fun M => M.map (fun r => r.map truncQ))

/-- `DoubleLambdaTSF.get_simulated_cardinal_profiles`; `none` = the call raises (`"Invalid lambda"` or numpy's
negative-dimension error) -/
def dtsfMatrices (P1 P2 : List (List Nat)) (V1 V2 : List (List Int)) (n : Nat) (lams1 lams2 : List Rat) :
    Option (List (List Int) × List (List Int)) :=
  if n < lams1.length ∨ n < lams2.length then none
  else match dtsfSide P1 V1 n lams1, dtsfSide P2 V2 n lams2 with
    | some S1, some S2 => some (S1, S2)
    | _, _ => none

/-- `DoubleLambdaTSF.scf(zero_indexed=True)`: Irving on the simulated integer matrices and the ordinal profiles -/
def dtsf (n : Nat) (P1 P2 : List (List Nat)) (V1 V2 : List (List Int)) (lams1 lams2 : List Rat) :
    Except String (List (Nat × Nat)) :=
  match dtsfMatrices P1 P2 V1 V2 n lams1 lams2 with
  | none => .error "sim"
  | some (S1, S2) => IrvingAlgo.irving n P1 P2 S1 S2

/-- renaming the alternatives in a valuation row / matrix (new alternative `a` is old alternative `sig[a]`,
as `Vote.renameBallot`) -/
def renameValRow (sig : List Nat) (vrow : List Rat) : List Rat := sig.map (fun j => vrow.getD j 0)

def renameValsQ (sig : List Nat) (V : List (List Rat)) : List (List Rat) := V.map (renameValRow sig)

/-! ### decidable well-formedness predicates used by the property theorems -/

/-- the valuation row is consistent with the strict complete ranking row: `row` is a permutation of `1..m`,
`vrow` has `m` entries, a better rank never has a smaller value, values are non-negative -/
def consistentRowB (row : List Nat) (vrow : List Rat) (m : Nat) : Bool :=
  row.isPerm (List.range' 1 m) && vrow.length == m &&
  (List.range m).all (fun a => (List.range m).all (fun b =>
    !decide (row.getD a 0 ≤ row.getD b 0) || decide (vrow.getD b 0 ≤ vrow.getD a 0))) &&
  vrow.all (fun v => decide (0 ≤ v))

def sortedB : List Rat → Bool
  | [] => true
  | a :: rest => rest.all (fun b => decide (a ≤ b)) && sortedB rest

/-- thresholds: all at least 1, ascending (`m ** (l/(k+1))` for `l = 1..k`) -/
def lamsOkB (lams : List Rat) : Bool := lams.all (fun l => decide (1 ≤ l)) && sortedB lams

end ElicitRules
