import Sck.Model.SMCert

/-! Core-only executable BRUTE-FORCE specifications for the optimisation properties C04 (maximum-weight
allocation) and C03/C17 (welfare-maximal stable matching): enumerate all `n!` permutations of `0..n-1` and take
the maximum.  Meant for `n ≤ 8`; used by the driver ops `assignopt` / `smopt` so that the value of the real
code's answer is compared with an optimum computed (and specified by theorems) inside the model. -/

namespace Brute

/-- all ways of inserting `a` into `l` (positions `0..l.length`) -/
def inserts (a : Nat) : List Nat → List (List Nat)
  | [] => [[a]]
  | b :: l => (a :: b :: l) :: (inserts a l).map (fun t => b :: t)

/-- all permutations of a list (as lists) -/
def permsOf : List Nat → List (List Nat)
  | [] => [[]]
  | a :: l => (permsOf l).flatMap (inserts a)

/-- all permutations of `0..n-1`: `sigma ∈ perms n` maps `i` to `sigma[i]` -/
def perms (n : Nat) : List (List Nat) := permsOf (List.range n)

/-- maximum of a list w.r.t. a Boolean order test; `none` for the empty list -/
def maxOf {α : Type} (le : α → α → Bool) : List α → Option α
  | [] => none
  | a :: l =>
    match maxOf le l with
    | none => some a
    | some b => some (if le a b then b else a)

/-! ### C04 -/

/-- `Σ_i W[k+i][sigma[i]]`, `none` as soon as one of the entries is NaN -/
def assignValueFrom (W : List (List (Option Rat))) : Nat → List Nat → Option Rat
  | _, [] => some 0
  | k, j :: rest =>
    match entry W k j, assignValueFrom W (k + 1) rest with
    | some x, some s => some (x + s)
    | _, _ => none

/-- total utility of the assignment `i ↦ sigma[i]`; `none` when it uses a NaN (unacceptable) pair -/
def assignValue (W : List (List (Option Rat))) (sigma : List Nat) : Option Rat := assignValueFrom W 0 sigma

/-- the optimum of C04 by brute force: the maximum total utility over all one-to-one assignments that use only
non-NaN pairs; `none` when no such assignment exists -/
def optAssign (n : Nat) (W : List (List (Option Rat))) : Option Rat :=
  maxOf (fun a b : Rat => decide (a ≤ b)) ((perms n).filterMap (assignValue W))

/-- number of one-to-one assignments using only non-NaN pairs -/
def countAssign (n : Nat) (W : List (List (Option Rat))) : Nat :=
  ((perms n).filter (fun sigma => (assignValue W sigma).isSome)).length

/-! ### C03 / C17 -/

/-- the inverse of a permutation given as a list: `j ↦` position of `j` (`mu.length` if absent) -/
def invPerm (n : Nat) (mu : List Nat) : List Nat := (List.range n).map (fun j => mu.idxOf j)

/-- `Σ_i V1[k+i][mu[i]] + V2[mu[i]][k+i]` -/
def matchValueFrom (V1 V2 : List (List Int)) : Nat → List Nat → Int
  | _, [] => 0
  | k, b :: rest => (intOf V1 k b + intOf V2 b k) + matchValueFrom V1 V2 (k + 1) rest

/-- total value `Σ_a V1[a][mu a] + V2[mu a][a]` of the matching `a ↔ mu[a]` (the weight convention of `smCertOk`) -/
def matchValue (V1 V2 : List (List Int)) (mu : List Nat) : Int := matchValueFrom V1 V2 0 mu

/-- all stable perfect matchings (men `a ↦ mu[a]`) w.r.t. the rank matrices, by the test `stableB` of `smCertOk` -/
def stablePerms (n : Nat) (P1 P2 : List (List Nat)) : List (List Nat) :=
  (perms n).filter (fun mu => stableB n P1 P2 mu (invPerm n mu))

/-- the optimum of C03/C17 by brute force: the maximum total value over all stable matchings (`none` if there is none) -/
def optStable (n : Nat) (P1 P2 : List (List Nat)) (V1 V2 : List (List Int)) : Option Int :=
  maxOf (fun a b : Int => decide (a ≤ b)) ((stablePerms n P1 P2).map (matchValue V1 V2))

/-- number of stable matchings -/
def countStable (n : Nat) (P1 P2 : List (List Nat)) : Nat := (stablePerms n P1 P2).length

end Brute

#eval Brute.perms 3
#eval Brute.optAssign 3 [[some 3, some 0, some 4], [some 2, none, some 2], [none, some 3, some 3]]
#eval Brute.optAssign 2 [[some 3, none], [some 2, none]]
#eval Brute.optStable 2 [[1,2],[2,1]] [[2,1],[1,2]] [[0,0],[0,0]] [[0,5],[5,0]]
#eval Brute.countStable 2 [[1,2],[2,1]] [[2,1],[1,2]]
#eval Brute.optStable 3 [[1,2,3],[1,2,3],[1,2,3]] [[1,2,3],[1,2,3],[1,2,3]] [[0,0,9],[0,0,0],[9,0,0]] [[0,0,0],[0,0,0],[0,0,0]]
