/-! Core-only executable model of SingleTransferableVote.scf (C12). -/

/-- plurality score of column `j`: number of voters ranking it first -/
def colCount1 (P : List (List Nat)) (j : Nat) : Nat :=
  (P.filter (fun row => row.getD j 0 == 1)).length

def pluralityScores (P : List (List Nat)) (w : Nat) : List Nat := (List.range w).map (colCount1 P)

/-- delete column `d` from a ballot and close the rank gap -/
def dropRow (row : List Nat) (d : Nat) : List Nat :=
  (row.eraseIdx d).map (fun r => if row.getD d 0 < r then r - 1 else r)

def listMin : List Nat → Nat
  | [] => 0
  | [a] => a
  | a :: as => min a (listMin as)

/-- positions whose score is minimal -/
def argmins (s : List Nat) : List Nat :=
  (List.range s.length).filter (fun j => s.getD j 0 == listMin s)

/-- the elimination loop; `choose` picks the alternative to drop among the minimal ones
(`first` tie-breaker: `fun c => c.headD 0`) -/
def stvLoop (choose : List Nat → Nat) : Nat → List (List Nat) → List Nat → Option Nat
  | 0, _, _ => none
  | fuel + 1, P, labels =>
    match labels with
    | [] => none
    | [a] => some a
    | _ :: _ :: _ =>
      let d := choose (argmins (pluralityScores P labels.length))
      stvLoop choose fuel (P.map (fun row => dropRow row d)) (labels.eraseIdx d)

def stv (choose : List Nat → Nat) (P : List (List Nat)) (m : Nat) (fixer : Nat) : Option Nat :=
  stvLoop choose m P ((List.range m).map (· + fixer))

#eval stv (fun c => c.headD 0) [[1,2,3],[2,1,3],[3,1,2],[3,2,1],[1,3,2]] 3 1

/-- replay of the random tie-breaker: round `t` drops `choices[t]`, which must be one of the
minimal alternatives of that round (`none` otherwise) -/
def stvReplay : List Nat → List (List Nat) → List Nat → Option Nat
  | _, _, [] => none
  | _, _, [a] => some a
  | [], _, _ :: _ :: _ => none
  | d :: ds, P, labels@(_ :: _ :: _) =>
    if (argmins (pluralityScores P labels.length)).contains d then
      stvReplay ds (P.map (fun row => dropRow row d)) (labels.eraseIdx d)
    else none
