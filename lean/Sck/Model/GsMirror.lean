import Sck.Model.DA

/-! Model (core-only): line-by-line mirrors of the two branches of `GaleShapley.scf`
(`socialchoicekit/deterministic_matching.py`) that keep the code's OWN state:

* resident-oriented: `resident_applications` (dict, `get(r, -1)`), `hospital_waiting_lists` (one `heapq`
  array of NEGATED 0-based ranks per hospital), `next_current_applicants` / `current_applicants`
  (status codes 0 = holds a place, 1 = applies this round, 2 = rejection confirmed);
* hospital-oriented: `hospital_offers`, `resident_waiting_lists` (a hospital or `-1`),
  `hospital_accepted_offers` (counters), `current_offerers` (status codes).

Same loop structure (outer `while True` with fuel, inner `for` over `range(n)` / `range(m)`), same update
order, same output order (0-indexed; the code's `index_fixer` is added afterwards by the caller).

Modelling decisions (all validated against the real code, see REPORT):
* `heapq` is mirrored EXACTLY as the binary-heap array algorithm of CPython (`hpush` = `heappush`,
  `hpop` = `heappop`), written with swaps instead of a moving hole (same arrays), because the code
  returns the pairs of one hospital in heap-ARRAY order.
* `np.argsort(row)` (NaN last) is `argsortRow`: acceptable positions by rank (stable insertion sort),
  then the NaN positions in index order. On rows with TIES numpy's default `argsort` is not stable (SIMD
  quicksort) and may order tied positions differently; ties are excluded by `StrictProfile`.
* `last_applied_*_rank + 1` is kept as one natural number (`0` when the key is absent).
* Python's negative indexing (`ranked_hprofile[h, -1]` for a rank `0`) is `pyIdx`.
* `IndexError` is `.error "index"`, loop fuel exhausted is `.error "fuel"`, non-rectangular input /
  dimension mismatch (`ValueError`) is `.error "shape"`. -/

namespace GsMirror

/-! ### `heapq` on `List Int` -/

def swapAt (l : List Int) (i j : Nat) : List Int :=
  (l.set i (l.getD j 0)).set j (l.getD i 0)

/-- `heapq._siftdown(heap, 0, pos)`: move the item at `pos` towards the root while it is smaller than
its parent. `fuel ≥ pos` suffices. -/
def siftDown : Nat → List Int → Nat → List Int
  | 0, l, _ => l
  | f + 1, l, pos =>
    if pos = 0 then l else
    let par := (pos - 1) / 2
    if l.getD pos 0 < l.getD par 0 then siftDown f (swapAt l pos par) par else l

/-- `heapq.heappush` -/
def hpush (l : List Int) (x : Int) : List Int := siftDown l.length (l ++ [x]) l.length

/-- first loop of `heapq._siftup`: move the item at `pos` down to a leaf, always following the smaller
child (the right one on ties: `not heap[childpos] < heap[rightpos]`). Returns the array and the leaf. -/
def sinkToLeaf : Nat → List Int → Nat → List Int × Nat
  | 0, l, pos => (l, pos)
  | f + 1, l, pos =>
    let c := 2 * pos + 1
    if c < l.length then
      let c' := if c + 1 < l.length && !(decide (l.getD c 0 < l.getD (c + 1) 0)) then c + 1 else c
      sinkToLeaf f (swapAt l pos c') c'
    else (l, pos)

/-- `heapq._siftup(heap, 0)` -/
def siftUp0 (l : List Int) : List Int :=
  let (l2, pos) := sinkToLeaf l.length l 0
  siftDown pos l2 pos

/-- `heapq.heappop`: `none` is `IndexError: pop from empty list` -/
def hpop (l : List Int) : Option (Int × List Int) :=
  match l.getLast? with
  | none => none
  | some last =>
    match l.dropLast with
    | [] => some (last, [])
    | h0 :: rest => some (h0, siftUp0 (last :: rest))

/-! ### numpy helpers -/

/-- stable insertion of position `a` into a list of positions sorted by rank -/
def insByKey (row : List (Option Nat)) (a : Nat) : List Nat → List Nat
  | [] => [a]
  | b :: bs => if keyOf row a ≤ keyOf row b then a :: b :: bs else b :: insByKey row a bs

/-- stable insertion sort by rank (structural recursion: reduces in the kernel, unlike `List.mergeSort`;
equal to `plistOfRow` on strict rows, `argsortRow_eq`) -/
def sortByKey (row : List (Option Nat)) (l : List Nat) : List Nat := l.foldr (insByKey row) []

/-- `np.argsort(row)` with NaN last: the acceptable positions by rank (stable), then the NaN positions
in index order -/
def argsortRow (row : List (Option Nat)) : List Nat :=
  sortByKey row ((List.range row.length).filter (fun j => (row.getD j none).isSome)) ++
    (List.range row.length).filter (fun j => (row.getD j none).isNone)

/-- Python indexing with an integer that may be negative -/
def pyIdx (l : List Nat) (i : Int) : Option Nat :=
  if 0 ≤ i then l[i.toNat]? else
  if (-i).toNat ≤ l.length then l[l.length - (-i).toNat]? else none

def shapeOk (I : HR) : Bool :=
  I.R.length == I.n && I.H.length == I.m && I.cap.length == I.m &&
  I.R.all (fun row => row.length == I.m) && I.H.all (fun row => row.length == I.n)

/-! ### resident-oriented branch -/

structure ResSt where
  /-- `resident_applications`: `none` = key absent (`get(r, -1)`) -/
  apps : List (Option Nat)
  /-- `hospital_waiting_lists`: heap arrays of negated 0-based ranks -/
  heaps : List (List Int)
  /-- `next_current_applicants` -/
  next : List Nat
deriving Repr, DecidableEq

def ResSt.init (I : HR) : ResSt :=
  { apps := List.replicate I.n none, heaps := List.replicate I.m [], next := List.replicate I.n 1 }

/-- `last_applied_hospital_rank + 1` -/
def last1 (d : List (Option Nat)) (i : Nat) : Nat :=
  match d.getD i none with
  | none => 0
  | some k => k + 1

/-- body of `for resident in range(n)`; `cur` is `current_applicants` (the copy made at the top of the round) -/
def resBody (I : HR) (cur : List Nat) (s : ResSt) (r : Nat) : Except String ResSt :=
  if cur.getD r 0 == 0 || cur.getD r 0 == 2 then .ok s else
  let nx := last1 s.apps r
  -- `if last_applied_hospital_rank >= m - 1`
  if I.m ≤ nx then .ok { s with next := s.next.set r 2 } else
  let nextH := (argsortRow (I.R.getD r [])).getD nx 0
  -- `if np.isnan(rprofile[resident, next_hospital])`
  if (rankAt I.R r nextH).isNone then .ok { s with next := s.next.set r 2 } else
  let s1 : ResSt := { s with apps := s.apps.set r (some nx) }
  match rankAt I.H nextH r with
  | none => .ok s1          -- auto-rejected
  | some a =>
    let heap1 := hpush (s1.heaps.getD nextH []) (-((a : Int) - 1))
    let s2 : ResSt := { s1 with heaps := s1.heaps.set nextH heap1, next := s1.next.set r 0 }
    if heap1.length ≤ I.cap.getD nextH 0 then .ok s2 else
    match hpop heap1 with
    | none => .error "index"
    | some (e, heap2) =>
      match pyIdx (argsortRow (I.H.getD nextH [])) (-e) with
      | none => .error "index"
      | some dropped =>
        .ok { s2 with heaps := s2.heaps.set nextH heap2, next := s2.next.set dropped 1 }

def foldExcept {σ : Type} (f : σ → Nat → Except String σ) : List Nat → σ → Except String σ
  | [], s => .ok s
  | x :: xs, s =>
    match f s x with
    | .error e => .error e
    | .ok s' => foldExcept f xs s'

/-- one pass of the `for` loop -/
def resRound (I : HR) (s : ResSt) : Except String ResSt :=
  foldExcept (resBody I s.next) (List.range I.n) s

/-- `while True:` with fuel (number of evaluations of the loop head) -/
def resLoop (I : HR) : Nat → ResSt → Except String ResSt
  | 0, _ => .error "fuel"
  | f + 1, s =>
    if s.next.all (fun x => x != 1) then .ok s else
    match resRound I s with
    | .error e => .error e
    | .ok s' => resLoop I f s'

/-- inner loop of the final double loop: decode one heap array, in array order -/
def decodeAll (I : HR) (h : Nat) : List Int → Option (List (Nat × Nat))
  | [] => some []
  | e :: es =>
    match pyIdx (argsortRow (I.H.getD h [])) (-e), decodeAll I h es with
    | some r, some ps => some ((r, h) :: ps)
    | _, _ => none

/-- the final double loop building `ans` -/
def resOutputFrom (I : HR) (s : ResSt) : List Nat → List (Nat × Nat) → Except String (List (Nat × Nat))
  | [], acc => .ok acc
  | h :: hs, acc =>
    match decodeAll I h (s.heaps.getD h []) with
    | none => .error "index"
    | some ps => resOutputFrom I s hs (acc ++ ps)

def resOutput (I : HR) (s : ResSt) : Except String (List (Nat × Nat)) :=
  resOutputFrom I s (List.range I.m) []

def mirrorFuel (I : HR) : Nat := I.n * I.m + 2

def gsResMirror (I : HR) : Except String (List (Nat × Nat)) :=
  if !shapeOk I then .error "shape" else
  match resLoop I (mirrorFuel I) (ResSt.init I) with
  | .error e => .error e
  | .ok s => resOutput I s

/-! ### hospital-oriented branch -/

structure HospSt where
  /-- `hospital_offers` -/
  offers : List (Option Nat)
  /-- `resident_waiting_lists`: `none` = `-1` -/
  wl : List (Option Nat)
  /-- `hospital_accepted_offers` -/
  acc : List Int
  /-- `current_offerers` -/
  cur : List Nat
deriving Repr, DecidableEq

def HospSt.init (I : HR) : HospSt :=
  { offers := List.replicate I.m none, wl := List.replicate I.n none,
    acc := List.replicate I.m 0, cur := List.replicate I.m 1 }

/-- `rprofile[next_resident, hospital] < rprofile[next_resident, current]` (float comparison: `False` on NaN) -/
def rankLt (a b : Option Nat) : Bool :=
  match a, b with
  | some x, some y => decide (x < y)
  | _, _ => false

/-- body of `for hospital in range(m)`. `pinned = true` is the DEFECTIVE code before commit e86fb4b:
no `continue` after marking the hospital exhausted on a NaN candidate, and the counter at index `-1`
(the last hospital) is decremented when the resident held no offer. -/
def hospBodyG (pinned : Bool) (I : HR) (s : HospSt) (h : Nat) : HospSt :=
  if s.cur.getD h 0 == 0 || s.cur.getD h 0 == 2 then s else
  let nx := last1 s.offers h
  -- `if last_applied_resident_rank >= n - 1`
  if I.n ≤ nx then { s with cur := s.cur.set h 2 } else
  let nextR := (argsortRow (I.H.getD h [])).getD nx 0
  let isNan := (rankAt I.H h nextR).isNone
  -- `if np.isnan(hprofile[hospital, next_resident]): current_offerers[hospital] = 2; continue`
  if isNan && !pinned then { s with cur := s.cur.set h 2 } else
  let s0 : HospSt := if isNan then { s with cur := s.cur.set h 2 } else s
  let s1 : HospSt := { s0 with offers := s0.offers.set h (some nx) }
  if (rankAt I.R nextR h).isNone then s1 else
  let curH := s1.wl.getD nextR none
  let better := match curH with
    | none => true
    | some ch => rankLt (rankAt I.R nextR h) (rankAt I.R nextR ch)
  if better then
    let acc1 := s1.acc.set h (s1.acc.getD h 0 + 1)
    let acc2 := match curH with
      | some ch => acc1.set ch (acc1.getD ch 0 - 1)
      | none => if pinned then acc1.set (I.m - 1) (acc1.getD (I.m - 1) 0 - 1) else acc1
    { s1 with acc := acc2, wl := s1.wl.set nextR (some h) }
  else s1

/-- `np.where(current_offerers == 2, 2, np.where(c == hospital_accepted_offers, 0, 1))` -/
def hospStatus (I : HR) (s : HospSt) : List Nat :=
  (List.range I.m).map fun h =>
    if s.cur.getD h 0 == 2 then 2 else if (I.cap.getD h 0 : Int) == s.acc.getD h 0 then 0 else 1

def hospLoopG (pinned : Bool) (I : HR) : Nat → HospSt → Except String HospSt
  | 0, _ => .error "fuel"
  | f + 1, s =>
    let s := { s with cur := hospStatus I s }
    if s.cur.all (fun x => x != 1) then .ok s else
    hospLoopG pinned I f ((List.range I.m).foldl (hospBodyG pinned I) s)

/-- the final loop building `ans` -/
def hospOutput (I : HR) (s : HospSt) : List (Nat × Nat) :=
  (List.range I.n).filterMap fun r => (s.wl.getD r none).map fun h => (r, h)

def gsHospMirrorG (pinned : Bool) (I : HR) : Except String (List (Nat × Nat)) :=
  if !shapeOk I then .error "shape" else
  match hospLoopG pinned I (mirrorFuel I) (HospSt.init I) with
  | .error e => .error e
  | .ok s => .ok (hospOutput I s)

/-- the repaired code (HEAD) -/
def gsHospMirror (I : HR) : Except String (List (Nat × Nat)) := gsHospMirrorG false I

/-- the pinned, defective code (before e86fb4b) -/
def gsHospMirrorPinned (I : HR) : Except String (List (Nat × Nat)) := gsHospMirrorG true I

def gsMirror (residentOriented : Bool) (I : HR) : Except String (List (Nat × Nat)) :=
  if residentOriented then gsResMirror I else gsHospMirror I

end GsMirror
