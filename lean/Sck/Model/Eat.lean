import Sck.Model.DA

/-! Model (core-only): `SimultaneousEating.bistochastic(profile, speeds)` of
`socialchoicekit/randomized_allocation.py`, mirrored line by line in EXACT (`Rat`) arithmetic.
`none` plays the role of `np.nan` in the three state vectors of the code.
`ProbabilisticSerial.bistochastic` is the same function with unit speeds. -/

namespace Eat

/-- `np.argsort` of one (strict, complete) rank row: the items by increasing rank -/
def rankedOf (row : List Nat) : List Nat := plistOfRow (row.map some)

/-- lookup in a NaN-able vector (`none` = NaN; indices are always in range for well-formed states) -/
def lk {α : Type} (l : List (Option α)) (i : Nat) : Option α := (l[i]?).join

def spd (speeds : List Rat) (i : Nat) : Rat := speeds.getD i 0

def mget (M : List (List Rat)) (i j : Nat) : Rat := (M.getD i []).getD j 0

/-- the four arrays of the Python loop -/
structure State where
  pos : List (Option Nat)     -- `current_position`   (none = NaN: the agent stopped)
  rem : List (Option Rat)     -- `item_fraction_remaining` (none = NaN: exhausted)
  eaten : List (Option Rat)   -- `agent_amount_eaten` (none = NaN: full)
  mat : List (List Rat)       -- `bistochastic`

/-- ghost record of one loop iteration: the step `t` and the vector `current_item` -/
structure Event where
  t : Rat
  cur : List (Option Nat)

def init (n : Nat) : State where
  pos := (List.range n).map (fun _ => some 0)
  rem := (List.range n).map (fun _ => some 1)
  eaten := (List.range n).map (fun _ => some 0)
  mat := (List.range n).map (fun _ => (List.range n).map (fun _ => 0))

/-- the loop exit test
`np.all(np.isnan(item_fraction_remaining)) or np.all(np.ones(n) <= agent_amount_eaten)`.
Note that `1 <= nan` is `False`, so a full agent (NaN) makes the second disjunct false. -/
def exitNow (st : State) : Bool :=
  st.rem.all (fun r => r.isNone) ||
  st.eaten.all (fun e => match e with | some e => decide (1 ≤ e) | none => false)

/-- `current_item[i]` : NaN when the position is NaN, else `ranked_items[i, position]` -/
def curItem (ranked : List (List Nat)) (st : State) (i : Nat) : Option Nat :=
  match lk st.pos i with
  | none => none
  | some p => (ranked.getD i [])[p]?

/-- `total_speeds[j] = np.sum(speeds[current_item == j])` -/
def total (n : Nat) (ranked : List (List Nat)) (speeds : List Rat) (st : State) (j : Nat) : Rat :=
  ((List.range n).map (fun i => if curItem ranked st i = some j then spd speeds i else 0)).sum

/-- minimum of two values where `none` is absent (NaN for `nanargmin`, or `+inf`) -/
def omin (a b : Option Rat) : Option Rat :=
  match a, b with
  | none, b => b
  | some x, none => some x
  | some x, some y => some (if x ≤ y then x else y)

/-- `nanmin`: minimum of the non-`none` entries, `none` if there is none -/
def minList (l : List (Option Rat)) : Option Rat := l.foldr omin none

/-- `time_until_agent_finished[next_agent_to_finish]`; `none` = all entries NaN (`nanargmin` raises) -/
def tAgent (n : Nat) (speeds : List Rat) (st : State) : Option Rat :=
  minList ((List.range n).map (fun i =>
    match lk st.eaten i with
    | none => none
    | some e => some ((1 - e) / spd speeds i)))

/-- `time_until_item_finished[next_completely_eaten_item]`; entries of exhausted items are NaN, entries of
items nobody eats are `rem / 0 = +inf` (every stored `rem` is positive); `none` = `+inf` -/
def tItem (n : Nat) (ranked : List (List Nat)) (speeds : List Rat) (st : State) : Option Rat :=
  minList ((List.range n).map (fun j =>
    match lk st.rem j with
    | none => none
    | some r => if total n ranked speeds st j = 0 then none else some (r / total n ranked speeds st j)))

/-- `while pos < n and isnan(rem[ranked[pos]]): pos += 1` (the row has length `n`) -/
def skip (row : List Nat) (rem : List (Option Rat)) (p : Nat) : Nat :=
  p + (row.drop p).findIdx (fun j => (lk rem j).isSome)

/-- `t = min(time_until_next_agent_finished, time_until_next_item_finished)`; `none` = the code raises
(`np.nanargmin` of an all-NaN vector: every agent is full) -/
def stepTime (n : Nat) (ranked : List (List Nat)) (speeds : List Rat) (st : State) : Option Rat :=
  match tAgent n speeds st with
  | none => none
  | some ta =>
    match tItem n ranked speeds st with
    | none => some ta
    | some ti => some (if ta ≤ ti then ta else ti)

/-- the updates of the four arrays for the chosen `t` -/
def applyT (n : Nat) (ranked : List (List Nat)) (speeds : List Rat) (st : State) (t : Rat) : State :=
  -- `bistochastic[i_indices, j_indices] += t * speeds[i_indices]`
  let mat' := (List.range n).map (fun i => (List.range n).map (fun j =>
    mget st.mat i j + (if curItem ranked st i = some j then t * spd speeds i else 0)))
  -- `item_fraction_remaining -= total_speeds * t`, then NaN where not `> 1e-9` (exactly: not `> 0`)
  let rem' := (List.range n).map (fun j =>
    match lk st.rem j with
    | none => none
    | some r => if 0 < r - total n ranked speeds st j * t then some (r - total n ranked speeds st j * t) else none)
  -- `agent_amount_eaten += speeds * t` (for EVERY agent), then NaN where not `< 1 - 1e-9` (exactly: not `< 1`)
  let eaten' := (List.range n).map (fun i =>
    match lk st.eaten i with
    | none => none
    | some e => if e + spd speeds i * t < 1 then some (e + spd speeds i * t) else none)
  -- positions skip exhausted items; NaN when past the end or the agent is full
  let pos' := (List.range n).map (fun i =>
    match lk st.pos i with
    | none => none
    | some p =>
      let p' := skip (ranked.getD i []) rem' p
      if p' = n ∨ lk eaten' i = none then none else some p')
  { pos := pos', rem := rem', eaten := eaten', mat := mat' }

/-- one iteration of the `while True` body (after the exit test); `none` = the code raises -/
def step (n : Nat) (ranked : List (List Nat)) (speeds : List Rat) (st : State) : Option (Event × State) :=
  match stepTime n ranked speeds st with
  | none => none
  | some t =>
    some ({ t := t, cur := (List.range n).map (curItem ranked st) },
          applyT n ranked speeds st t)

/-- the `while True` loop with fuel; returns the matrix and the ghost event log -/
def eatLoop (n : Nat) (ranked : List (List Nat)) (speeds : List Rat) :
    Nat → State → Option (List (List Rat) × List Event)
  | 0, _ => none
  | fuel + 1, st =>
    if exitNow st then some (st.mat, [])
    else match step n ranked speeds st with
      | none => none
      | some (ev, st') =>
        match eatLoop n ranked speeds fuel st' with
        | none => none
        | some (M, evs) => some (M, ev :: evs)

/-- matrix and event log -/
def eatLog (n : Nat) (P : List (List Nat)) (speeds : List Rat) : Option (List (List Rat) × List Event) :=
  eatLoop n (P.map rankedOf) speeds (2 * n + 1) (init n)

/-- `SimultaneousEating.bistochastic` -/
def eat (n : Nat) (P : List (List Nat)) (speeds : List Rat) : Option (List (List Rat)) :=
  (eatLog n P speeds).map (·.1)

/-- `ProbabilisticSerial.bistochastic` -/
def ps (n : Nat) (P : List (List Nat)) : Option (List (List Rat)) :=
  eat n P (List.replicate n 1)

/-- decidable well-formedness: `n` rows, each a permutation of `1..n`; `n` positive speeds -/
def eatWfB (n : Nat) (P : List (List Nat)) (speeds : List Rat) : Bool :=
  decide (P.length = n) &&
  P.all (fun row => decide (row.length = n) &&
    (List.range n).all (fun r => row.contains (r + 1))) &&
  decide (speeds.length = n) && speeds.all (fun s => decide (0 < s))

end Eat

#eval Eat.ps 3 [[1,2,3],[1,2,3],[2,1,3]]
#eval Eat.eat 3 [[1,2,3],[1,2,3],[2,1,3]] [1, 2, 3]
#eval (Eat.eatLog 3 [[1,2,3],[1,2,3],[2,1,3]] [1,1,1]).map (fun r => r.2.map (fun e => (e.t, e.cur)))
