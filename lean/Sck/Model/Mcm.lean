import Sck.Model.Flow
import Sck.Model.FlowCert

/-! Core-only executable model of `maximum_cardinality_matching_bipartite` (C09): the conversion of a
bipartite graph to a unit-capacity flow network, the read-out of the matching from the max flow, and
certificate checkers (matching / König vertex cover).  Proofs live in `Sck/Proofs/Mcm*.lean`. -/

/-- adjacency function of a graph given as an association list (a Python dict `{v: [w, ...]}`);
a missing key has the empty adjacency list, first hit wins -/
def adjOf (G : List (Int × List Int)) (v : Int) : List Int :=
  match G.find? (fun e => e.1 == v) with
  | some e => e.2
  | none => []

/-- mirrors `convert_bipartite_graph_to_flow_network`: source `-1`, sink `-2`, vertices in the key order of
the Python dict (`X`, then `-1`, `-2`, then `Y`), unit capacities; only the adjacency lists of the left
vertices are used -/
def bipNet (X Y : List Int) (adj : Int → List Int) : Net :=
  { verts := X ++ [-1, -2] ++ Y
    edges := X.flatMap (fun x => (adj x).map (fun y => (x, y, 1))) ++
             X.map (fun x => (-1, x, 1)) ++
             Y.map (fun y => (y, -2, 1))
    s := -1
    t := -2 }

/-- first index of the maximum (`np.argmax`); `0` on the empty list (never used there) -/
def argmaxFirst : List Int → Nat
  | [] => 0
  | a :: l => if l.all (fun b => decide (b ≤ a)) then 0 else argmaxFirst l + 1

/-- what the read-out loop does for one left vertex `x`: nothing if `x` has no neighbour (the repaired
behaviour), else look at the neighbour with the first maximal flow and emit the pair iff that flow is `1` -/
def mcmEmit (adj : Int → List Int) (f : Flow) (x : Int) : Option (Int × Int) :=
  match adj x with
  | [] => none
  | y0 :: ys =>
    match (y0 :: ys)[argmaxFirst ((y0 :: ys).map (fun y => f x y))]? with
    | some y => if f x y = 1 then some (x, y) else none
    | none => none

/-- the read-out loop `for x in X: ...` -/
def mcmOfFlow (X : List Int) (adj : Int → List Int) (f : Flow) : List (Int × Int) :=
  X.filterMap (mcmEmit adj f)

/-- `maximum_cardinality_matching_bipartite` after `check_bipartite_graph` -/
def mcm (X Y : List Int) (adj : Int → List Int) (fuel : Nat) : Except FFErr (List (Int × Int)) :=
  match ff (bipNet X Y adj) fuel with
  | .ok (f, _) => .ok (mcmOfFlow X adj f)
  | .error e => .error e

/-- decidable well-formedness of a bipartite instance: the two sides are duplicate-free and disjoint, the
reserved names `-1`, `-2` are not vertices, and every left adjacency list is duplicate-free and inside `Y` -/
def bipWfB (X Y : List Int) (adj : Int → List Int) : Bool :=
  decide (X ++ Y).Nodup && !(X ++ Y).contains (-1) && !(X ++ Y).contains (-2) &&
  X.all (fun x => decide (adj x).Nodup && (adj x).all (fun y => Y.contains y))

/-- `M` is a set of edges of the graph in which no vertex occurs twice -/
def isMatchingB (X : List Int) (adj : Int → List Int) (M : List (Int × Int)) : Bool :=
  M.all (fun p => X.contains p.1 && (adj p.1).contains p.2) &&
  decide (M.map (·.1) ++ M.map (·.2)).Nodup

/-- `C` is a vertex cover of the graph with as many vertices as `M` has edges (König certificate) -/
def koenigCertOk (X : List Int) (adj : Int → List Int) (M : List (Int × Int)) (C : List Int) : Bool :=
  X.all (fun x => (adj x).all (fun y => C.contains x || C.contains y)) && C.length == M.length

/-- the König cover read off a minimum cut with source side `S` -/
def koenigCover (X Y : List Int) (S : List Int) : List Int :=
  X.filter (fun x => !S.contains x) ++ Y.filter (fun y => S.contains y)

/-- the matching together with the König cover of the cut found by the max-flow run -/
def mcmWithCover (X Y : List Int) (adj : Int → List Int) (fuel : Nat) :
    Except FFErr (List (Int × Int) × List Int) :=
  match ff (bipNet X Y adj) fuel with
  | .ok (f, S) => .ok (mcmOfFlow X adj f, koenigCover X Y S)
  | .error e => .error e

/-- fuel that suffices: one more than the number of left vertices -/
def mcmFuel (X : List Int) : Nat := X.length + 1

/-! Example: left `10, 11, 12, 13` (13 isolated), right `20, 21, 22, 23` (23 isolated), undirected input
(the right lists are present in the dict and ignored). -/
def exBipG : List (Int × List Int) :=
  [(10, [20]), (11, [20]), (12, [20, 21, 22]), (13, []),
   (20, [10, 11, 12]), (21, [12]), (22, [12]), (23, [])]
def exBipX : List Int := [10, 11, 12, 13]
def exBipY : List Int := [20, 21, 22, 23]

/-- a maximum flow on `bipNet exBipX exBipY (adjOf exBipG)` in the format of the implementation's flow dict -/
def exBipFl : List (Int × Int × Int) :=
  [(10, 20, 1), (11, 20, 0), (12, 20, 0), (12, 21, 1), (12, 22, 0), (-1, 10, 1), (-1, 11, 0), (-1, 12, 1),
   (-1, 13, 0), (20, -2, 1), (21, -2, 1), (22, -2, 0), (23, -2, 0)]

def showMcm (X Y : List Int) (adj : Int → List Int) : List (Int × Int) × List Int × Bool × Bool × Bool :=
  match mcmWithCover X Y adj (mcmFuel X) with
  | .ok (M, C) => (M, C, bipWfB X Y adj, isMatchingB X adj M, koenigCertOk X adj M C)
  | .error _ => ([], [], false, false, false)

#eval showMcm exBipX exBipY (adjOf exBipG)
#eval (netWfB (bipNet exBipX exBipY (adjOf exBipG)), ffFuel (bipNet exBipX exBipY (adjOf exBipG)))
#eval [argmaxFirst [0, 1, 1], argmaxFirst [0, 0, 0], argmaxFirst [-1, 0, 3, 3, 2], argmaxFirst []]
#eval (flowCutOk (bipNet exBipX exBipY (adjOf exBipG)) exBipFl [-1, 11, 13, 20, 10], mcmOfFlow exBipX (adjOf exBipG) (flowOf exBipFl))
