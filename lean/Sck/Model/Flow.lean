/-! Core-only executable model of max-flow by augmenting paths with run-time-checked search (C08). -/

/-- consecutive pairs of a path -/
def pairs {ι : Type} : List ι → List (ι × ι)
  | u :: v :: rest => (u, v) :: pairs (v :: rest)
  | _ => []

def augPath {ι : Type} [DecidableEq ι] (f : ι → ι → Int) (path : List ι) (c : Int) : ι → ι → Int :=
  fun a b => f a b + (if (a, b) ∈ pairs path then c else 0) - (if (b, a) ∈ pairs path then c else 0)

structure Net where
  verts : List Int
  edges : List (Int × Int × Nat)
  s : Int
  t : Int

def Net.cap (N : Net) (u v : Int) : Int :=
  match N.edges.find? (fun e => e.1 == u && e.2.1 == v) with
  | some e => (e.2.2 : Int)
  | none => 0

abbrev Flow := Int → Int → Int

def resid (N : Net) (f : Flow) (u v : Int) : Int := N.cap u v - f u v

/-- one expansion round of the reachable set, remembering a parent for each discovered vertex -/
def expand (N : Net) (f : Flow) (R : List (Int × Int)) : List (Int × Int) :=
  N.verts.foldl (fun R v =>
    if R.any (fun e => e.1 == v) then R
    else match R.find? (fun e => decide (0 < resid N f e.1 v)) with
      | some e => R ++ [(v, e.1)]
      | none => R) R

def iter {α : Type} (g : α → α) : Nat → α → α
  | 0, x => x
  | k + 1, x => iter g k (g x)

def reachP (N : Net) (f : Flow) : List (Int × Int) := iter (expand N f) N.verts.length [(N.s, N.s)]

def reach (N : Net) (f : Flow) : List Int := (reachP N f).map (·.1)

/-- follow parents back from `v` to the source -/
def backPath (R : List (Int × Int)) (s : Int) : Nat → Int → List Int → Option (List Int)
  | 0, _, _ => none
  | k + 1, v, acc =>
    if v == s then some (v :: acc)
    else match R.find? (fun e => e.1 == v) with
      | some e => backPath R s k e.2 (v :: acc)
      | none => none

def validPath (N : Net) (f : Flow) (path : List Int) : Bool :=
  decide path.Nodup && path.head? == some N.s && path.getLast? == some N.t &&
  path.all (fun v => N.verts.contains v) &&
  (pairs path).all (fun e => decide (0 < resid N f e.1 e.2))

def bottleneck (N : Net) (f : Flow) : List (Int × Int) → Int
  | [] => 0
  | [e] => resid N f e.1 e.2
  | e :: es => min (resid N f e.1 e.2) (bottleneck N f es)

def closedB (N : Net) (f : Flow) (S : List Int) : Bool :=
  S.all (fun u => N.verts.all (fun v => S.contains v || decide (resid N f u v ≤ 0)))

inductive FFErr | fuel | badPath | notClosed
  deriving Repr

def ffLoop (N : Net) : Nat → Flow → Except FFErr Flow
  | 0, _ => .error .fuel
  | k + 1, f =>
    let R := reachP N f
    if (R.map (·.1)).contains N.t then
      match backPath R N.s (N.verts.length + 1) N.t [] with
      | none => .error .badPath
      | some path =>
        if validPath N f path then ffLoop N k (augPath f path (bottleneck N f (pairs path)))
        else .error .badPath
    else .ok f

def ff (N : Net) (fuel : Nat) : Except FFErr (Flow × List Int) :=
  match ffLoop N fuel (fun _ _ => 0) with
  | .error e => .error e
  | .ok f =>
    let S := reach N f
    if closedB N f S && S.contains N.s && !S.contains N.t && S.all (fun v => N.verts.contains v)
    then .ok (f, S) else .error .notClosed

def exNet : Net := { verts := [0, 1, 2, 3], edges := [(0,1,3),(0,2,2),(1,2,1),(1,3,2),(2,3,3),(3,0,5)], s := 0, t := 3 }
def showFF (N : Net) (fuel : Nat) : List Int × List (Int × Int × Int) :=
  match ff N fuel with
  | .ok (f, S) => (S, N.edges.map (fun (e : Int × Int × Nat) => (e.1, e.2.1, f e.1 e.2.1)))
  | .error _ => ([], [])
#eval showFF exNet 100
